/-
  CB.Lemmas.C17Encode — the output side: digit emission, zero padding and the final
  `while skip + 1 < size && out[skip] == b'0'` strip give the canonical numeral.
-/
import CB.Lemmas.C17Numeral
namespace CB.Radix
open CB

/-- the `n`-digit zero-padded big-endian expansion (what the encoders write into the buffer) -/
def digitsPad (r : Nat) : Nat → Nat → List Nat
  | 0, _ => []
  | n + 1, x => digitsPad r n (x / r) ++ [x % r]

theorem digitsPad_length (r n x : Nat) : (digitsPad r n x).length = n := by
  induction n generalizing x with
  | zero => rfl
  | succ n ih => simp [digitsPad, ih]

/-- the inner digit loop of `encode_limbs` writes the `k` low digits of the word -/
theorem emitDigits_eq (radix : Nat) : ∀ (k w : Nat) (acc : List Nat),
    emitDigits radix k w acc = (digitsPad radix k w).map (fun d => digitByte (d % 256)) ++ acc := by
  intro k
  induction k with
  | zero => intro w acc; rfl
  | succ k ih =>
    intro w acc
    simp only [emitDigits, digitsPad, ih, List.map_append, List.map_cons, List.map_nil,
      List.append_assoc, List.cons_append, List.nil_append]

/-- the fuel of `digitsLE` does not matter once it is large enough -/
theorem digitsLE_fuel {r : Nat} (hr : 2 ≤ r) {f f' x : Nat} (hf : x ≤ f) (hf' : x ≤ f') :
    digitsLE r f x = digitsLE r f' x := by
  have h1 := digitsLE_valLE hr (digitsLE_lt (by omega) f' x) (digitsLE_last_ne_zero hr f' x hf') f
    (by rw [valLE_digitsLE hr f' x hf']; exact hf)
  rw [valLE_digitsLE hr f' x hf'] at h1
  exact h1

theorem digitsBE_step {r : Nat} (hr : 2 ≤ r) {x : Nat} (hx : x ≠ 0) :
    digitsBE r x = digitsBE r (x / r) ++ [x % r] := by
  have hlt : x / r < x := Nat.div_lt_self (by omega) (by omega)
  cases x with
  | zero => exact absurd rfl hx
  | succ y =>
    simp only [digitsBE]
    rw [digitsLE, if_neg hx, List.reverse_cons]
    congr 2
    exact digitsLE_fuel hr (by omega) (Nat.le_refl _)

/-- zero padding: the padded expansion is zeros followed by the canonical digits -/
theorem digitsPad_eq {r : Nat} (hr : 2 ≤ r) : ∀ (n x : Nat), x < r ^ n →
    digitsPad r n x = List.replicate (n - (digitsBE r x).length) 0 ++ digitsBE r x ∧
    (digitsBE r x).length ≤ n := by
  intro n
  induction n with
  | zero =>
    intro x hx
    have : x = 0 := by simpa using hx
    subst this
    simp [digitsPad, digitsBE_zero]
  | succ n ih =>
    intro x hx
    have hq : x / r < r ^ n := by
      rw [Nat.div_lt_iff_lt_mul (by omega)]; rw [Nat.pow_succ] at hx; exact hx
    obtain ⟨e, hl⟩ := ih (x / r) hq
    by_cases hx0 : x = 0
    · subst hx0
      have hz : (0 : Nat) / r = 0 := Nat.zero_div r
      rw [hz] at e
      simp only [digitsPad, hz, e, digitsBE_zero, List.length_nil, Nat.sub_zero, List.append_nil,
        Nat.zero_mod]
      refine ⟨?_, Nat.zero_le _⟩
      rw [← List.replicate_succ']
    · rw [digitsBE_step hr hx0]
      simp only [digitsPad, e, List.length_append, List.length_singleton]
      refine ⟨?_, by omega⟩
      rw [List.append_assoc]
      congr 2
      omega

theorem digitChar_eq_48 {d : Nat} : digitChar d = 48 ↔ d = 0 := by
  by_cases h10 : d < 10
  · rw [digitChar_lt10 h10]; omega
  · rw [digitChar_ge10 h10]; omega

theorem skipZeros_replicate : ∀ (z : Nat), skipZeros (List.replicate (z + 1) 48) = [48] := by
  intro z
  induction z with
  | zero => rfl
  | succ z ih =>
    rw [List.replicate_succ, List.replicate_succ, skipZeros, if_pos rfl, ← List.replicate_succ]
    exact ih

theorem skipZeros_zeros_append : ∀ (z : Nat) (l : List Nat), l ≠ [] → l.head? ≠ some 48 →
    skipZeros (List.replicate z 48 ++ l) = l := by
  intro z
  induction z with
  | zero =>
    intro l hne hh
    simp only [List.replicate_zero, List.nil_append]
    cases l with
    | nil => exact absurd rfl hne
    | cons a t =>
      cases t with
      | nil => rfl
      | cons b t =>
        rw [skipZeros, if_neg (by simpa using hh)]
  | succ z ih =>
    intro l hne hh
    rw [List.replicate_succ, List.cons_append]
    cases hrest : List.replicate z 48 ++ l with
    | nil =>
      have : l = [] := (List.append_eq_nil_iff.mp hrest).2
      exact absurd this hne
    | cons b t =>
      rw [skipZeros, if_pos rfl, ← hrest]
      exact ih l hne hh

/-- T17.3 (output stage): a non-empty buffer holding the zero-padded expansion of `x`, run through
the leading-zero strip, is the canonical numeral of `x` -/
theorem skipZeros_padded {r : Nat} (hr : 2 ≤ r) {n x : Nat} (hn : 0 < n) (hx : x < r ^ n) :
    skipZeros ((digitsPad r n x).map digitChar) = specFormat r x := by
  obtain ⟨e, hl⟩ := digitsPad_eq hr n x hx
  rw [e, List.map_append, List.map_replicate]
  have h48 : digitChar 0 = 48 := rfl
  rw [h48]
  by_cases hx0 : x = 0
  · subst hx0
    simp only [digitsBE_zero, List.length_nil, Nat.sub_zero, List.map_nil, List.append_nil, specFormat,
      if_true]
    obtain ⟨m, rfl⟩ : ∃ m, n = m + 1 := ⟨n - 1, by omega⟩
    exact skipZeros_replicate m
  · have hfmt : specFormat r x = (digitsBE r x).map digitChar := by simp [specFormat, hx0]
    rw [hfmt]
    have hc := digitsBE_canonical hr x
    have hne := digitsBE_ne_nil hr hx0
    apply skipZeros_zeros_append
    · simpa using hne
    · cases hd : digitsBE r x with
      | nil => exact absurd hd hne
      | cons d ds =>
        simp only [List.map_cons, List.head?_cons, ne_eq, Option.some.injEq]
        rw [digitChar_eq_48]
        intro h0
        apply hc.2
        rw [hd, h0]; rfl

end CB.Radix
