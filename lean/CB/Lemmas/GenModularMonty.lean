/-
  CB.Lemmas.GenModularMonty — the fixed-width helpers of the Montgomery model (CB/Model/Monty.lean: `bitandLimb`, `addMod`,
  `doubleMod`, `subMod`, `negMod`, `subModWithCarry` — the functions the operation-history machine of C08 and the final
  step of `montgomeryReduction` are built from) are the functions of CB/Model/ModArith.lean, hence (CB/Lemmas/GenModular.lean)
  the translated source of src/uint/{add_mod,sub_mod,neg_mod}.rs, for every limb count.  No `bv_decide` in this file.
-/
import CB.Lemmas.GenModular
import CB.Model.Monty
namespace CB.GenModular
open CB CB.Gen CB.GenBits CB.GenChains

theorem monty_bitandLimb_eq (p : List Nat) (m : Nat) : Monty.bitandLimb p m = ModArith.bitandLimb p m := by
  induction p with
  | nil => rfl
  | cons x xs ih =>
    rw [bitandLimb_cons, ← ih]
    rfl

theorem monty_addMod_eq (a b p : List Nat) : Monty.addMod a b p = ModArith.addMod a b p := by
  simp only [Monty.addMod, ModArith.addMod, ModArith.addModTail, monty_bitandLimb_eq]

theorem monty_subMod_eq (a b p : List Nat) : Monty.subMod a b p = ModArith.subMod a b p := by
  simp only [Monty.subMod, ModArith.subMod, monty_bitandLimb_eq]

theorem monty_subModWithCarry_eq (a : List Nat) (c : Nat) (b p : List Nat) :
    Monty.subModWithCarry a c b p = ModArith.subModWithCarry a c b p := by
  simp only [Monty.subModWithCarry, ModArith.subModWithCarry, monty_bitandLimb_eq]

theorem monty_negMod_eq (a p : List Nat) : Monty.negMod a p = ModArith.negMod a p := by
  have h := monty_bitandLimb_eq (usbb p a 0).1 (isNonzero a)
  simp only [Monty.negMod, ModArith.negMod, ← h, Monty.bitandLimb]

/-- the value-level `shl1` of the Montgomery model is the limb loop of `overflowing_shl1` -/
theorem monty_shl1_eq {a : List Nat} (ha : WF a) : Monty.shl1 a = ModArith.overflowingShl1 a := by
  obtain ⟨e, _, hw, hl⟩ := ModArith.overflowingShl1_spec ha
  have hv := val_lt hw
  rw [hl] at hv
  have hK : 0 < B ^ a.length := Nat.pow_pos B_pos
  generalize ModArith.overflowingShl1 a = r at e hw hl hv
  obtain ⟨r1, r2⟩ := r
  simp only at e hw hl hv
  have hmod : (2 * val a) % B ^ a.length = val r1 := by
    rw [← e, Nat.add_mul_mod_self_left]; exact Nat.mod_eq_of_lt hv
  have hdiv : (2 * val a) / B ^ a.length = r2 := by
    rw [← e, Nat.add_mul_div_left _ _ hK, Nat.div_eq_of_lt hv, Nat.zero_add]
  unfold Monty.shl1
  rw [hdiv]
  congr 1
  apply val_inj (toLimbs_WF _ _) hw (by rw [toLimbs_length, hl])
  rw [val_toLimbs, hmod]

theorem monty_doubleMod_eq {a : List Nat} (ha : WF a) (p : List Nat) :
    Monty.doubleMod a p = ModArith.doubleMod a p := by
  simp only [Monty.doubleMod, ModArith.doubleMod, ModArith.addModTail, monty_bitandLimb_eq, monty_shl1_eq ha]

end CB.GenModular
