/-
  CB.Lemmas.GenBitsChains{,Add,Cmp} — what ONE ROUND of each translated limb loop is (CB/Gen/Chains.lean: the `impl Limb`
  wrappers and the `while i < LIMBS` loops of `Uint::{adc, sbb, carrying_neg, is_nonzero, eq}`, regenerated from /repo's
  source on every run by tools/translate.py), and what the functions around the loops are.
  This file: the tactics, `Limb::{sbb, is_nonzero}`, `Uint::sbb` / `wrapping_sub` and three choice constructors — the part
  shared by C04 (subtraction) and C06 (`lt`/`gt`/`lte` are the borrow of the `sbb` chain).  GenBitsChainsAdd.lean:
  `Uint::adc`, `carrying_neg` (C04 only).  GenBitsChainsCmp.lean: `is_nonzero`, `eq`, `lt`, `gt`, `lte` (C06 only).

  These are the only files that look at the generated TEXT of the chains: every lemma unfolds the generated definitions
  (`rw [Uint.sbb_loop1]`, `simp only [gen_defs]`) and, where the two sides are not already identical, decides the words
  with `bv_decide` (through `chain_congr`, which keeps the recursive call and `List.set` folded and compares their
  arguments; the limbs `self.limbs[i]` read by the round are opaque words to the decision procedure).  So renaming
  locals, splitting or merging `let`s, and equivalent rewrites of the word arithmetic of a round still check, while a
  changed index, a dropped carry, a changed step of the counter make the round lemma fail.
  The inductions over the limb count that use these rounds are in CB/Lemmas/GenChains{Sub,,Cmp}.lean (no `bv_decide`).

  `bv_decide` file: its name matches `*Bits*`.
-/
import CB.Gen.Chains
import CB.Lemmas.GenBitsAdd
import CB.Lemmas.GenBitsChoice
import Std.Tactic.BVDecide
namespace CB.GenBits
open CB.Gen CB.Gen.Chains

/-- `bv_decide` modulo congruence (the same device as `bv_congr` of GenBitsDiv.lean, kept separate so that this file does
    not depend on the translation of div_limb.rs): decide the goal; where that is impossible because both sides apply a
    function that stays folded (the recursive call of a translated loop, `List.set`) compare the arguments -/
syntax "chain_congr " num : tactic
macro_rules | `(tactic| chain_congr $n) => do
  match n.getNat with
  | 0 => `(tactic| first | with_reducible rfl | bv_decide | (simp only [gen_defs] <;> (try simp only [BitVec.mul_comm]) <;> bv_decide) | bv_decide)
  | k + 1 =>
    let m := Lean.Syntax.mkNumLit (toString k)
    `(tactic| first | with_reducible rfl | bv_decide | (with_reducible congr 1 <;> chain_congr $m) | (simp only [gen_defs] <;> (try simp only [BitVec.mul_comm]) <;> bv_decide) | bv_decide)

/-- closes what is left of a round lemma after the generated loop has been unfolded once (nothing, when the two sides
    are already identical): unfold the generated word functions and compare -/
macro "round_eq" : tactic => `(tactic| ((try simp only [gen_defs]) <;> (try simp only [BitVec.mul_comm]) <;> chain_congr 6))

/-! ## `impl Limb`: the wrappers are the primitives -/

theorem limb_sbb_eq (a b c : BitVec 64) : Limb.sbb a b c = Prim.sbb a b c := by
  round_eq
theorem limb_is_nonzero_eq (a : BitVec 64) : Limb.is_nonzero a = Choice.from_word_nonzero a := by
  round_eq

/-! ## `Uint::sbb` -/

theorem sbb_loop_zero (L : Nat) (a b : List (BitVec 64)) (i : Nat) (c : BitVec 64) (limbs : List (BitVec 64)) :
    Uint.sbb_loop1 L a b 0 i c limbs = (c, limbs) := by
  rw [Uint.sbb_loop1]

theorem sbb_loop_succ (L : Nat) (a b : List (BitVec 64)) (n i : Nat) (c : BitVec 64) (limbs : List (BitVec 64))
    (h : i < L) :
    Uint.sbb_loop1 L a b (n + 1) i c limbs =
      Uint.sbb_loop1 L a b n (i + 1) (Prim.sbb (a.getD i 0#64) (b.getD i 0#64) c).2
        (limbs.set i (Prim.sbb (a.getD i 0#64) (b.getD i 0#64) c).1) := by
  rw [Uint.sbb_loop1, if_pos h] <;> round_eq

theorem sbb_eq_loop (L : Nat) (a b : List (BitVec 64)) (c : BitVec 64) :
    Uint.sbb L a b c = ((Uint.sbb_loop1 L a b L 0 c (List.replicate L 0#64)).2,
      (Uint.sbb_loop1 L a b L 0 c (List.replicate L 0#64)).1) := by
  round_eq

theorem wrapping_sub_eq (L : Nat) (a b : List (BitVec 64)) :
    Uint.wrapping_sub L a b = (Uint.sbb L a b 0#64).1 := by
  round_eq

/-! ## the choice constructors used around the chains -/

/-- `ConstChoice::from_word_lsb` of the source on a word is the model's `fromWordLsb` -/
theorem fromWordLsb_bridge (x : BitVec 64) : fromWordLsb x.toNat = (Choice.from_word_lsb x).toNat := by
  have e : Choice.from_word_lsb x = -x := by simp only [gen_defs] <;> bv_decide
  rw [e, fromWordLsb, wneg_bv]

/-- `ConstChoice::from_word_mask` of the source is the model's `fromWordMask` (the word itself) -/
theorem fromWordMask_bridge (x : BitVec 64) : fromWordMask x.toNat = (Choice.from_word_mask x).toNat := by
  have e : Choice.from_word_mask x = x := by simp only [gen_defs] <;> bv_decide
  rw [e, fromWordMask]

/-- `ConstChoice::not` of the source is the model's `choiceNot` -/
theorem choiceNot_bridge (x : BitVec 64) : choiceNot x.toNat = (Choice.not x).toNat := by
  have e : Choice.not x = ~~~x := by simp only [gen_defs] <;> bv_decide
  rw [e, choiceNot, wnot_bv]

end CB.GenBits
