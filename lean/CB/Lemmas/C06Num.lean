/-
  CB.Lemmas.C06Num — (coverage round) zero / one tests and constructors of CB.Model.NumTests.
-/
import CB.Lemmas.C06Cmp
import CB.Model.NumTests
namespace CB.NumTests
open CB CB.Cmp

theorem getLastD_replicate_zero (n d : Nat) (hd : d < HALF) : (List.replicate n 0).getLastD d < HALF := by
  induction n generalizing d with
  | zero => simpa using hd
  | succ n ih =>
    rw [List.replicate_succ, List.getLastD_cons]
    exact ih 0 (by decide)

theorem toInt_uzero (n : Nat) : toInt (uzero n) = 0 := by
  unfold toInt
  have h := getLastD_replicate_zero n 0 (by decide)
  have : ¬ (uzero n).getLastD 0 ≥ HALF := by unfold uzero; omega
  simp only [this, if_false, val_uzero]; rfl

theorem val_uone (n : Nat) : val (uone (n + 1)) = 1 := by
  show 1 + B * val (uzero n) = 1
  rw [val_uzero, Nat.mul_zero]

theorem uone_length (n : Nat) : (uone n).length = n := by
  cases n <;> simp [uone, uzero]

theorem uone_WF (n : Nat) : WF (uone n) := by
  cases n with
  | zero => exact WF_nil
  | succ n => exact WF_cons.mpr ⟨by decide, uzero_WF n⟩

theorem toInt_uone (n : Nat) : toInt (uone (n + 1)) = 1 := by
  unfold toInt
  have h : (uone (n + 1)).getLastD 0 < HALF := by
    show (1 :: List.replicate n 0).getLastD 0 < HALF
    rw [List.getLastD_cons]
    exact getLastD_replicate_zero n 1 (by decide)
  have : ¬ (uone (n + 1)).getLastD 0 ≥ HALF := by omega
  simp only [this, if_false, val_uone]; rfl

theorem uzero_length (n : Nat) : (uzero n).length = n := by simp [uzero]

/-- `from_limb_like`: the low limb is `l`, everything above is zero, the width is the requested one. -/
theorem fromLimbLike_spec {n l : Nat} (hn : 0 < n) (hl : l < B) :
    val (fromLimbLike n l) = l ∧ (fromLimbLike n l).length = n ∧ WF (fromLimbLike n l) := by
  cases n with
  | zero => omega
  | succ n =>
    refine ⟨?_, by simp [fromLimbLike, uzero], WF_cons.mpr ⟨hl, uzero_WF n⟩⟩
    show l + B * val (uzero n) = l
    rw [val_uzero]; omega

theorem isZeroNum_spec {a : List Nat} (ha : WF a) : isZeroNum a = mask (decide (val a = 0)) := by
  unfold isZeroNum
  rw [ueq_spec ha (uzero_WF _) (uzero_length _).symm, val_uzero]

theorem isOneNum_spec {a : List Nat} (ha : WF a) (hne : a ≠ []) : isOneNum a = mask (decide (val a = 1)) := by
  unfold isOneNum
  obtain ⟨n, hn⟩ : ∃ n, a.length = n + 1 := by
    cases a with
    | nil => exact absurd rfl hne
    | cons x xs => exact ⟨xs.length, rfl⟩
  rw [ueq_spec ha (uone_WF _) (uone_length _).symm, hn, val_uone]

/-- signed: `Int::is_zero` / `is_one` decide the signed value -/
theorem int_isZeroNum_spec {a : List Nat} (ha : WF a) (hne : a ≠ []) :
    isZeroNum a = mask (decide (toInt a = 0)) := by
  unfold isZeroNum
  have h := ueq_spec ha (uzero_WF a.length) (uzero_length _).symm
  rw [h, val_uzero]
  congr 1
  have hv := val_lt ha
  unfold toInt
  by_cases hh : a.getLastD 0 ≥ HALF
  · -- negative: the unsigned value is not 0 (the top limb is not) and the signed value is < 0
    simp only [hh, if_true]
    have hpos : val a ≠ 0 := by
      intro h0
      have := (val_eq_zero.mp h0)
      cases a with
      | nil => exact hne rfl
      | cons x xs =>
        have hm : (x :: xs).getLastD 0 ∈ (x :: xs) := by
          rw [List.getLastD_cons]; exact List.getLastD_mem_cons
        have := this _ hm
        simp only [HALF_def] at hh; omega
    have hneg : (val a : Int) - ((B ^ a.length : Nat) : Int) ≠ 0 := by
      have : (val a : Int) < ((B ^ a.length : Nat) : Int) := by exact_mod_cast hv
      omega
    simp [hpos]
    exact hneg
  · simp only [hh, if_false]
    by_cases h0 : val a = 0
    · simp [h0]
    · have : (val a : Int) ≠ 0 := by exact_mod_cast h0
      simp [h0]

theorem allZeroFold_spec (l : List Nat) (acc : Nat) (hacc : acc = 0 ∨ acc = 1) :
    allZeroFold l acc = if acc = 1 ∧ val l = 0 then 1 else 0 := by
  induction l generalizing acc with
  | nil =>
    rcases hacc with h | h <;> subst h <;> simp [allZeroFold, val]
  | cons x xs ih =>
    unfold allZeroFold
    have hB : B ≠ 0 := Nat.pos_iff_ne_zero.mp B_pos
    by_cases hx : x = 0
    · subst hx
      have e : acc &&& (if (0 : Nat) = 0 then 1 else 0) = acc := by
        rcases hacc with h | h <;> subst h <;> decide
      have hv : val (0 :: xs) = 0 ↔ val xs = 0 := by
        rw [val_cons, Nat.zero_add, Nat.mul_eq_zero]
        exact ⟨fun h => h.resolve_left hB, Or.inr⟩
      rw [e, ih acc hacc]
      simp only [hv]
    · have e : acc &&& (if x = 0 then 1 else 0) = 0 := by simp [hx]
      rw [e, ih 0 (Or.inl rfl)]
      have : ¬ val (x :: xs) = 0 := by
        rw [val_cons]; omega
      rw [if_neg (by simp), if_neg (fun h => this h.2)]

theorem bIsZero_spec (a : List Nat) : bIsZero a = if val a = 0 then 1 else 0 := by
  unfold bIsZero
  rw [allZeroFold_spec a 1 (Or.inr rfl)]; simp

theorem bIsOne_spec {a : List Nat} (ha : WF a) : bIsOne a = if val a = 1 then 1 else 0 := by
  cases a with
  | nil => simp [bIsOne, val]
  | cons x xs =>
    have ⟨hx, _⟩ := WF_cons.mp ha
    show allZeroFold xs (if x = 1 then 1 else 0) = _
    rw [val_cons]
    by_cases h1 : x = 1
    · subst h1
      rw [if_pos rfl, allZeroFold_spec xs 1 (Or.inr rfl)]
      by_cases hz : val xs = 0
      · rw [if_pos ⟨rfl, hz⟩, hz, if_pos (by omega)]
      · have : ¬ 1 + B * val xs = 1 := by
          have : 0 < B * val xs := Nat.mul_pos B_pos (Nat.pos_of_ne_zero hz)
          omega
        rw [if_neg (fun h => hz h.2), if_neg this]
    · rw [if_neg h1, allZeroFold_spec xs 0 (Or.inl rfl)]
      have : ¬ x + B * val xs = 1 := by
        intro e
        rcases Nat.eq_zero_or_pos (val xs) with hz | hp
        · rw [hz] at e; omega
        · have : B ≤ B * val xs := Nat.le_mul_of_pos_right B hp
          simp only [B_def] at *; omega
      rw [if_neg (by simp), if_neg this]

theorem bSetZero_eq (a : List Nat) : bSetZero a = uzero a.length := by
  unfold bSetZero uzero
  induction a with
  | nil => rfl
  | cons x xs ih => simp [List.replicate_succ, ih]

end CB.NumTests
