/-
  CB.Lemmas.C01Leak4 — trace lemmas for the extension round of property C01: `BoxedUint` arithmetic
  (src/uint/boxed/*.rs) and the boxed Karatsuba (`karatsuba_mul_limbs`, `karatsuba_square_limbs`).
  Scheme as in C01Leak.lean; the recursive functions are handled by induction on the fuel.
-/
import CB.Lemmas.C01Leak2
namespace CB.Leak
open Sec

def boxedAdcT (na nb : Nat) : Trace := (boxedAdc na nb [] [] zero).tr
@[simp] theorem boxedAdc_tr (na nb : Nat) (a b : List Sec) (c : Sec) : (boxedAdc na nb a b c).tr = boxedAdcT na nb := by
  unfold boxedAdcT boxedAdc; leak_loop

def boxedSbbT (na nb : Nat) : Trace := (boxedSbb na nb [] [] zero).tr
@[simp] theorem boxedSbb_tr (na nb : Nat) (a b : List Sec) (c : Sec) : (boxedSbb na nb a b c).tr = boxedSbbT na nb := by
  unfold boxedSbbT boxedSbb; leak_loop

def boxedAdcAssignT (n m : Nat) : Trace := (boxedAdcAssign n m [] [] zero).tr
@[simp] theorem boxedAdcAssign_tr (n m : Nat) (a b : List Sec) (c : Sec) : (boxedAdcAssign n m a b c).tr = boxedAdcAssignT n m := by
  unfold boxedAdcAssignT boxedAdcAssign; leak_loop

def boxedSbbAssignT (n m : Nat) : Trace := (boxedSbbAssign n m [] [] zero).tr
@[simp] theorem boxedSbbAssign_tr (n m : Nat) (a b : List Sec) (c : Sec) : (boxedSbbAssign n m a b c).tr = boxedSbbAssignT n m := by
  unfold boxedSbbAssignT boxedSbbAssign; leak_loop

def boxedCondAdcAssignT (n m : Nat) : Trace := (boxedCondAdcAssign n m [] [] zero).tr
@[simp] theorem boxedCondAdcAssign_tr (n m : Nat) (a b : List Sec) (c : Sec) :
    (boxedCondAdcAssign n m a b c).tr = boxedCondAdcAssignT n m := by
  unfold boxedCondAdcAssignT boxedCondAdcAssign; leak_simp; leak_loop

def boxedCondSbbAssignT (n m : Nat) : Trace := (boxedCondSbbAssign n m [] [] zero).tr
@[simp] theorem boxedCondSbbAssign_tr (n m : Nat) (a b : List Sec) (c : Sec) :
    (boxedCondSbbAssign n m a b c).tr = boxedCondSbbAssignT n m := by
  unfold boxedCondSbbAssignT boxedCondSbbAssign; leak_simp; leak_loop

@[simp] theorem boxedWrappingNeg_tr (n : Nat) (a : List Sec) : (boxedWrappingNeg n a).tr = unegT n := by
  unfold boxedWrappingNeg; leak_simp; rw [uneg_tr]

def boxedConditionalNegateT (n : Nat) : Trace := (boxedConditionalNegate n [] zero).tr
@[simp] theorem boxedConditionalNegate_tr (n : Nat) (a : List Sec) (c : Sec) :
    (boxedConditionalNegate n a c).tr = boxedConditionalNegateT n := by
  unfold boxedConditionalNegateT boxedConditionalNegate; leak_simp; simp only [boxedWrappingNeg_tr, boxedCtAssign_tr]

def boxedIsZeroT (n : Nat) : Trace := (boxedIsZero n []).tr
@[simp] theorem boxedIsZero_tr (n : Nat) (a : List Sec) : (boxedIsZero n a).tr = boxedIsZeroT n := by
  unfold boxedIsZeroT boxedIsZero; leak_loop

def boxedCtEqT (na nb : Nat) : Trace := (boxedCtEq na nb [] []).tr
@[simp] theorem boxedCtEq_tr (na nb : Nat) (a b : List Sec) : (boxedCtEq na nb a b).tr = boxedCtEqT na nb := by
  unfold boxedCtEqT boxedCtEq; leak_loop

@[simp] theorem boxedCtLt_tr (na nb : Nat) (a b : List Sec) : (boxedCtLt na nb a b).tr = boxedSbbT na nb := by
  unfold boxedCtLt; leak_simp; rw [boxedSbb_tr]
@[simp] theorem boxedCtGt_tr (na nb : Nat) (a b : List Sec) : (boxedCtGt na nb a b).tr = boxedSbbT nb na := by
  unfold boxedCtGt; leak_simp; rw [boxedSbb_tr]

def boxedCmpT (na nb : Nat) : Trace := (boxedCmp na nb [] []).tr
@[simp] theorem boxedCmp_tr (na nb : Nat) (a b : List Sec) : (boxedCmp na nb a b).tr = boxedCmpT na nb := by
  unfold boxedCmpT boxedCmp; leak_simp; simp only [boxedCtGt_tr, boxedCtLt_tr]

def boxedCondSetZeroT (n : Nat) : Trace := (boxedCondSetZero n [] zero).tr
@[simp] theorem boxedCondSetZero_tr (n : Nat) (a : List Sec) (c : Sec) : (boxedCondSetZero n a c).tr = boxedCondSetZeroT n := by
  unfold boxedCondSetZeroT boxedCondSetZero; leak_loop

def boxedShrMoveLoopT (n k : Nat) : Trace := (boxedShrMoveLoop n k [] []).tr
@[simp] theorem boxedShrMoveLoop_tr (n k : Nat) (a d : List Sec) : (boxedShrMoveLoop n k a d).tr = boxedShrMoveLoopT n k := by
  unfold boxedShrMoveLoopT boxedShrMoveLoop; leak_loop

def boxedShrCarryLoopT (n k r : Nat) : Trace := (boxedShrCarryLoop n k r []).tr
@[simp] theorem boxedShrCarryLoop_tr (n k r : Nat) (l : List Sec) : (boxedShrCarryLoop n k r l).tr = boxedShrCarryLoopT n k r := by
  unfold boxedShrCarryLoopT boxedShrCarryLoop; leak_loop

def boxedShrVartimeIntoT (n shift : Nat) : Trace := (boxedShrVartimeInto n [] [] shift).tr
@[simp] theorem boxedShrVartimeInto_tr (n : Nat) (a d : List Sec) (shift : Nat) :
    (boxedShrVartimeInto n a d shift).tr = boxedShrVartimeIntoT n shift := by
  unfold boxedShrVartimeIntoT boxedShrVartimeInto; leak_simp; simp only [boxedShrMoveLoop_tr, boxedShrCarryLoop_tr]

/-- the boxed right shift as written: the trace is a function of the precision and of the SHIFT (which feeds the
hardware division), not of the shifted value -/
def boxedOverflowingShrT (n : Nat) (s : Sec) : Trace := (boxedOverflowingShr n [] s).tr
theorem boxedOverflowingShr_tr (n : Nat) (a : List Sec) (s : Sec) : (boxedOverflowingShr n a s).tr = boxedOverflowingShrT n s := by
  unfold boxedOverflowingShrT boxedOverflowingShr; leak_simp
  congr 2
  · apply forN_tr_congr; intro i s s'; leak_simp; simp only [boxedShrVartimeInto_tr, boxedCtAssign_tr]
  · simp only [boxedCondSetZero_tr]

def boxedOverflowingShlT (n : Nat) (s : Sec) : Trace := (boxedOverflowingShl n [] s).tr
theorem boxedOverflowingShl_tr (n : Nat) (a : List Sec) (s : Sec) : (boxedOverflowingShl n a s).tr = boxedOverflowingShlT n s := by
  unfold boxedOverflowingShlT boxedOverflowingShl; leak_simp; simp only [shlLadder_tr, uselect_tr]

def boxedShr1T (n : Nat) : Trace := (boxedShr1 n []).tr
@[simp] theorem boxedShr1_tr (n : Nat) (a : List Sec) : (boxedShr1 n a).tr = boxedShr1T n := by
  unfold boxedShr1T boxedShr1; leak_simp; congr 1; leak_loop

def boxedAddModT (n : Nat) : Trace := (boxedAddMod n [] [] []).tr
@[simp] theorem boxedAddMod_tr (n : Nat) (a b p : List Sec) : (boxedAddMod n a b p).tr = boxedAddModT n := by
  unfold boxedAddModT boxedAddMod; leak_simp; simp only [boxedAdcAssign_tr, boxedSbbAssign_tr, boxedCondAdcAssign_tr]

def boxedSubModT (n : Nat) : Trace := (boxedSubMod n [] [] []).tr
@[simp] theorem boxedSubMod_tr (n : Nat) (a b p : List Sec) : (boxedSubMod n a b p).tr = boxedSubModT n := by
  unfold boxedSubModT boxedSubMod; leak_simp; simp only [boxedSbb_tr, boxedCondAdcAssign_tr]

def boxedNegModT (n : Nat) : Trace := (boxedNegMod n [] []).tr
@[simp] theorem boxedNegMod_tr (n : Nat) (a p : List Sec) : (boxedNegMod n a p).tr = boxedNegModT n := by
  unfold boxedNegModT boxedNegMod; leak_simp; simp only [boxedIsZero_tr, boxedSbb_tr, boxedCondSetZero_tr]

@[simp] theorem boxedSetBit_tr (n : Nat) (a : List Sec) (i v : Sec) : (boxedSetBit n a i v).tr = setBitT n := by
  unfold boxedSetBit; rw [setBit_tr]
@[simp] theorem boxedLeadingZeros_tr (n : Nat) (a : List Sec) : (boxedLeadingZeros n a).tr = lzLoopT n := by
  unfold boxedLeadingZeros; rw [leadingZeros_tr]
@[simp] theorem boxedTrailingZeros_tr (n : Nat) (a : List Sec) : (boxedTrailingZeros n a).tr = tzLoopT n := by
  unfold boxedTrailingZeros; rw [trailingZeros_tr]
@[simp] theorem boxedBits_tr (n : Nat) (a : List Sec) : (boxedBits n a).tr = lzLoopT n := by
  unfold boxedBits; rw [bits_tr]
@[simp] theorem boxedBit_tr (n : Nat) (a : List Sec) (i : Sec) : (boxedBit n a i).tr = bitLoopT n := by
  unfold boxedBit; rw [bit_tr]

def trailingOnesT (n : Nat) : Trace := (trailingOnes n []).tr
@[simp] theorem trailingOnes_tr (n : Nat) (a : List Sec) : (trailingOnes n a).tr = trailingOnesT n := by
  unfold trailingOnesT trailingOnes; leak_simp; leak_loop

def boxedInvMod2kT (n : Nat) : Trace := (boxedInvMod2k n [] zero).tr
@[simp] theorem boxedInvMod2k_tr (n : Nat) (a : List Sec) (k : Sec) : (boxedInvMod2k n a k).tr = boxedInvMod2kT n := by
  unfold boxedInvMod2kT boxedInvMod2k; leak_simp
  congr 1; apply forN_tr_congr; intro i s s'; leak_simp
  simp only [boxedSbbAssign_tr, boxedCtAssign_tr, boxedShr1_tr, boxedSetBit_tr]

def boxedInvMod2kVartimeT (n k : Nat) : Trace := (boxedInvMod2kVartime n [] k).tr
@[simp] theorem boxedInvMod2kVartime_tr (n : Nat) (a : List Sec) (k : Nat) :
    (boxedInvMod2kVartime n a k).tr = boxedInvMod2kVartimeT n k := by
  unfold boxedInvMod2kVartimeT boxedInvMod2kVartime; leak_simp
  congr 1; apply forN_tr_congr; intro i s s'; leak_simp
  simp only [boxedSbbAssign_tr, boxedCtAssign_tr, boxedShr1_tr, boxedSetBit_tr]

/-! ### boxed Karatsuba -/
def condNegAssignT (n : Nat) : Trace := (condNegAssign n [] zero).tr
@[simp] theorem condNegAssign_tr (n : Nat) (l : List Sec) (c : Sec) : (condNegAssign n l c).tr = condNegAssignT n := by
  unfold condNegAssignT condNegAssign; leak_simp; leak_loop

def adcMulInnerT (nr i : Nat) : Trace := (adcMulInner nr i zero [] []).tr
@[simp] theorem adcMulInner_tr (nr i : Nat) (x : Sec) (r o : List Sec) : (adcMulInner nr i x r o).tr = adcMulInnerT nr i := by
  unfold adcMulInnerT adcMulInner; leak_loop

def adcMulLimbsT (nl nr : Nat) : Trace := (adcMulLimbs nl nr [] [] []).tr
@[simp] theorem adcMulLimbs_tr (nl nr : Nat) (l r o : List Sec) : (adcMulLimbs nl nr l r o).tr = adcMulLimbsT nl nr := by
  unfold adcMulLimbsT adcMulLimbs
  apply forN_tr_congr; intro i s s'; leak_simp; simp only [adcMulInner_tr]

def kAddLoopT (lo hi off : Nat) : Trace := (kAddLoop lo hi off [] [] zero).tr
@[simp] theorem kAddLoop_tr (lo hi off : Nat) (o s : List Sec) (c : Sec) : (kAddLoop lo hi off o s c).tr = kAddLoopT lo hi off := by
  unfold kAddLoopT kAddLoop; leak_loop

def kCombineT (half size : Nat) : Trace := (kCombine half size [] [] [] zero).tr
@[simp] theorem kCombine_tr (half size : Nat) (o a b : List Sec) (c : Sec) : (kCombine half size o a b c).tr = kCombineT half size := by
  unfold kCombineT kCombine; leak_simp; simp only [kAddLoop_tr]

def kPropCarryT (lo hi : Nat) : Trace := (kPropCarry lo hi [] zero).tr
@[simp] theorem kPropCarry_tr (lo hi : Nat) (o : List Sec) (c : Sec) : (kPropCarry lo hi o c).tr = kPropCarryT lo hi := by
  unfold kPropCarryT kPropCarry; leak_simp; leak_loop

def kTrailT (nl nr size : Nat) : Trace := (kTrail nl nr size [] [] []).tr
@[simp] theorem kTrail_tr (nl nr size : Nat) (l r o : List Sec) : (kTrail nl nr size l r o).tr = kTrailT nl nr size := by
  unfold kTrailT kTrail; leak_simp; simp only [adcMulLimbs_tr, kPropCarry_tr]

def karaMulLimbsT (fuel nl nr : Nat) : Trace := (karaMulLimbs fuel nl nr [] []).tr
@[simp] theorem karaMulLimbs_tr : ∀ (fuel nl nr : Nat) (l r : List Sec), (karaMulLimbs fuel nl nr l r).tr = karaMulLimbsT fuel nl nr := by
  intro fuel
  induction fuel with
  | zero => intro nl nr l r; unfold karaMulLimbsT karaMulLimbs; leak_simp; simp only [adcMulLimbs_tr]
  | succ f ih =>
    intro nl nr l r
    unfold karaMulLimbsT
    rw [karaMulLimbs, karaMulLimbs]
    leak_simp
    simp only [ih, adcMulLimbs_tr, karaDiffLoop_tr, condNegAssign_tr, kCombine_tr, kTrail_tr]

def kNotLoopT (n : Nat) : Trace := (kNotLoop n []).tr
@[simp] theorem kNotLoop_tr (n : Nat) (o : List Sec) : (kNotLoop n o).tr = kNotLoopT n := by
  unfold kNotLoopT kNotLoop; leak_loop

@[simp] theorem squareLimbs_tr (n : Nat) (a : List Sec) : (squareLimbs n a).tr = squareSchoolbookT n := by
  unfold squareLimbs; leak_simp; rw [squareSchoolbook_tr]

def karaSquareLimbsT (fuel n : Nat) : Trace := (karaSquareLimbs fuel n []).tr
@[simp] theorem karaSquareLimbs_tr : ∀ (fuel n : Nat) (a : List Sec), (karaSquareLimbs fuel n a).tr = karaSquareLimbsT fuel n := by
  intro fuel
  induction fuel with
  | zero => intro n a; unfold karaSquareLimbsT karaSquareLimbs; simp only [squareLimbs_tr]
  | succ f ih =>
    intro n a
    unfold karaSquareLimbsT
    rw [karaSquareLimbs, karaSquareLimbs]
    leak_simp
    simp only [ih, squareLimbs_tr, usbb_tr, condNegAssign_tr, kNotLoop_tr, kCombine_tr]

def boxedMulT (na nb : Nat) : Trace := (boxedMul na nb [] []).tr
@[simp] theorem boxedMul_tr (na nb : Nat) (a b : List Sec) : (boxedMul na nb a b).tr = boxedMulT na nb := by
  unfold boxedMulT boxedMul; leak_simp; simp only [karaMulLimbs_tr, mulSchoolbook_tr]

def boxedSquareT (n : Nat) : Trace := (boxedSquare n []).tr
@[simp] theorem boxedSquare_tr (n : Nat) (a : List Sec) : (boxedSquare n a).tr = boxedSquareT n := by
  unfold boxedSquareT boxedSquare; leak_simp; simp only [karaSquareLimbs_tr, squareLimbs_tr]

@[simp] theorem boxedWrappingMul_tr (na nb : Nat) (a b : List Sec) : (boxedWrappingMul na nb a b).tr = boxedMulT na nb := by
  unfold boxedWrappingMul; leak_simp; rw [boxedMul_tr]

def boxedCheckedMulT (na nb : Nat) : Trace := (boxedCheckedMul na nb [] []).tr
@[simp] theorem boxedCheckedMul_tr (na nb : Nat) (a b : List Sec) : (boxedCheckedMul na nb a b).tr = boxedCheckedMulT na nb := by
  unfold boxedCheckedMulT boxedCheckedMul; leak_simp; simp only [boxedMul_tr, boxedIsZero_tr]

def divBy2BoxedT (n : Nat) : Trace := (divBy2Boxed n [] []).tr
@[simp] theorem divBy2Boxed_tr (n : Nat) (a m : List Sec) : (divBy2Boxed n a m).tr = divBy2BoxedT n := by
  unfold divBy2BoxedT divBy2Boxed; leak_simp; simp only [boxedCondAdcAssign_tr, boxedShr1_tr, boxedSetBit_tr]

end CB.Leak
