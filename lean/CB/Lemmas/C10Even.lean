/-
  CB.Lemmas.C10Even — `SafeGcdInverter::gcd(f, g)` when `Uint::gcd` hands over an EVEN `f` with an
  odd `g` (src/uint/gcd.rs:25-27 selects `f = s2` when `s2` is even): `delta = 1 > 0` and `g` odd, so
  the first divstep of the first `jump` swaps and `f` is odd from then on.
-/
import CB.Lemmas.C10Final
namespace CB.SafeGcd

theorem FO_swap_pos {A B : Int} {s : JS} (hs : 1 ≤ s.steps) (hw : wrapI64 s.g = s.g)
    (hd : s.delta > 0) (hg : s.g % 2 = 1) : FO A B (jumpSwap s) := by
  unfold jumpSwap
  rw [if_pos hd]
  unfold FO
  show (wrapI64 s.g + 2 ^ s.steps * (s.t.t10 * A + s.t.t11 * B)) % 2 = 1
  rw [hw]
  have : (2 : Int) ^ s.steps = 2 * 2 ^ (s.steps - 1) := by
    rw [← pow_succ']; congr 1; omega
  rw [this, mul_assoc, Int.add_mul_emod_self_left]
  exact hg

/-- the inner loop started with `delta > 0` and an odd `g`: the first trip swaps, so the full-width
    `f` is odd at the end whatever it was at the start -/
theorem jumpLoop_inv_pos {f0 g0 : Int} (hf0 : |f0| ≤ 2 ^ 62) (hg0 : |g0| ≤ 2 ^ 62) (A B : Int)
    (n : Nat) (s : JS) (h : JH f0 g0 s) (hd : 0 < s.delta) (hg : s.g % 2 = 1) (hs : 1 ≤ s.steps)
    (hfu : s.steps + 1 ≤ n) :
    JT f0 g0 (jumpLoop (n + 1) s) ∧ (jumpLoop (n + 1) s).steps = 0 ∧ FO A B (jumpLoop (n + 1) s) := by
  obtain ⟨hT1, hf1, hst1, hdl1, hg1⟩ := jumpShift_inv h hf0 hg0
  have hgb := h.g_bound hf0 hg0
  have htz : tz128 s.g = 0 := by
    by_contra hne
    have h1 : 1 ≤ tz128 s.g := by omega
    have := pow_tz128_dvd hgb h1
    obtain ⟨c, hc⟩ := this
    rw [hc] at hg; omega
  have hz0 : jzeros s = 0 := by have := jzeros_le_tz s; omega
  rw [hz0] at hst1 hdl1 hg1
  have e : jumpLoop (n + 1) s =
      if (jumpShift s).steps = 0 then jumpShift s
      else jumpLoop n (jumpAdd (jumpSwap (jumpShift s))) := rfl
  have hdone : ¬ (jumpShift s).steps = 0 := by omega
  rw [e, if_neg hdone]
  have hs1 : 1 ≤ (jumpShift s).steps := by omega
  have hg1odd : (jumpShift s).g % 2 = 1 := by
    have : (jumpShift s).g = s.g := by simpa using hg1
    rw [this]; exact hg
  have hd1 : (jumpShift s).delta > 0 := by rw [hdl1]; simpa using hd
  obtain ⟨hT2, hst2, hdl2, hf2⟩ := jumpSwap_inv hT1 hf0 hg0
  have hf2odd : (jumpSwap (jumpShift s)).f % 2 = 1 := by
    rw [hf2, if_pos hd1]; exact hg1odd
  have hs2 : 1 ≤ (jumpSwap (jumpShift s)).steps := by rw [hst2]; exact hs1
  obtain ⟨hH3, htz3⟩ := jumpAdd_inv hT2 hf0 hg0 hf2odd hdl2 hs2
  have hfu3 : (jumpAdd (jumpSwap (jumpShift s))).steps + 1 +
      (if tz128 (jumpAdd (jumpSwap (jumpShift s))).g = 0 then 1 else 0) ≤ n := by
    have e3 : (jumpAdd (jumpSwap (jumpShift s))).steps = s.steps := by
      show (jumpSwap (jumpShift s)).steps = _; rw [hst2, hst1]; omega
    rw [e3, if_neg (by omega)]; omega
  obtain ⟨r1, r2, r3⟩ := jumpLoop_inv hf0 hg0 A B n _ hH3 (Or.inl hf2odd) hfu3
  refine ⟨r1, r2, r3 ?_⟩
  apply FO_add
  have hgabs := abs_le.mp (hT1.g_abs hf0 hg0)
  exact FO_swap_pos hs1 (wrapI64_of_bound (by linarith [hgabs.1]) (by linarith [hgabs.2])) hd1 hg1odd

/-- `jump` seen from full-width operands `F ≡ fl`, `G ≡ gl (mod 2^62)` with `G` ODD and `delta > 0`
    (`F` of any parity): exact division by `2^62`, no wrap, `F'` odd, gcd preserved. -/
theorem jump_on_full_pos (f g : List Nat) (delta : Int) (F G : Int)
    (hfl : f.headD 0 < 2 ^ 62) (hgl : g.headD 0 < 2 ^ 62)
    (hF : ((f.headD 0 : Nat) : Int) ≡ F [ZMOD 2 ^ 62]) (hG : ((g.headD 0 : Nat) : Int) ≡ G [ZMOD 2 ^ 62])
    (hd : 0 < delta) (hGodd : G % 2 = 1) :
    ∃ F' G' : Int,
      (jump f g delta).2.t00 * F + (jump f g delta).2.t01 * G = 2 ^ 62 * F' ∧
      (jump f g delta).2.t10 * F + (jump f g delta).2.t11 * G = 2 ^ 62 * G' ∧
      |(jump f g delta).2.t00| + |(jump f g delta).2.t01| ≤ 2 ^ 62 ∧
      |(jump f g delta).2.t10| + |(jump f g delta).2.t11| ≤ 2 ^ 62 ∧
      F' % 2 = 1 ∧ Int.gcd F' G' = Int.gcd F G := by
  obtain ⟨A, hA⟩ := Int.modEq_iff_dvd.mp hF
  obtain ⟨B, hB⟩ := Int.modEq_iff_dvd.mp hG
  have eF : F = (f.headD 0 : Nat) + 2 ^ 62 * A := by linarith
  have eG : G = (g.headD 0 : Nat) + 2 ^ 62 * B := by linarith
  have hglodd : ((g.headD 0 : Nat) : Int) % 2 = 1 := by
    have h2 : ((g.headD 0 : Nat) : Int) ≡ G [ZMOD 2] := hG.of_dvd ⟨2 ^ 61, by norm_num⟩
    rw [h2.eq]; exact hGodd
  generalize hfv : f.headD 0 = fl at *
  generalize hgv : g.headD 0 = gl at *
  have hf0 : |((fl : Nat) : Int)| ≤ 2 ^ 62 := by
    rw [abs_of_nonneg (Int.natCast_nonneg _)]; exact_mod_cast (le_of_lt hfl)
  have hg0 : |((gl : Nat) : Int)| ≤ 2 ^ 62 := by
    rw [abs_of_nonneg (Int.natCast_nonneg _)]; exact_mod_cast (le_of_lt hgl)
  have hwf : wrapI64 ((fl : Nat) : Int) = fl := by
    apply wrapI64_of_bound
    · have := Int.natCast_nonneg fl; omega
    · have : ((fl : Nat) : Int) < 2 ^ 62 := by exact_mod_cast hfl
      omega
  let s0 : JS := ⟨62, delta, ((fl : Nat) : Int), ((gl : Nat) : Int), ⟨1, 0, 0, 1⟩⟩
  have hjump : jump f g delta = ((jumpLoop 64 s0).delta, (jumpLoop 64 s0).t) := by
    unfold jump
    simp only [hfv, hgv, hwf]
    rfl
  have hH : JH (fl : Nat) (gl : Nat) s0 := by
    refine ⟨le_refl 62, ?_, ?_, ?_, ?_, ?_⟩
    · show (1 : Int) * (fl : Nat) + 0 * (gl : Nat) = 2 ^ (62 - 62) * (fl : Nat); norm_num
    · show (0 : Int) * (fl : Nat) + 1 * (gl : Nat) = 2 ^ (62 - 62) * (gl : Nat); norm_num
    · show |(1 : Int)| + |(0 : Int)| ≤ 2 ^ (62 - 62); norm_num
    · show |(0 : Int)| + |(1 : Int)| ≤ 2 ^ (62 - 62) * 2 ^ jzeros s0
      have : (1 : Int) ≤ 2 ^ jzeros s0 := one_le_pow₀ (by norm_num)
      norm_num; exact this
    · show (1 : Int) * 1 - 0 * 0 = 2 ^ (62 - 62); norm_num
  obtain ⟨hT, hst, hFO⟩ := jumpLoop_inv_pos hf0 hg0 A B 63 s0 hH hd hglodd (by show 1 ≤ 62; omega)
    (by show 62 + 1 ≤ 63; omega)
  rw [hjump]
  have e62 : (2 : Int) ^ (62 - (jumpLoop 64 s0).steps) = 2 ^ 62 := by rw [hst]
  have h0 := hT.r0
  have h1 := hT.r1
  have b0 := hT.b0
  have b1 := hT.b1
  have hdet := hT.det
  rw [e62] at h0 h1 b0 b1 hdet
  unfold FO at hFO
  rw [hst, pow_zero, one_mul] at hFO
  generalize (jumpLoop 64 s0).t = T at *
  generalize (jumpLoop 64 s0).f = f' at *
  generalize (jumpLoop 64 s0).g = g' at *
  have e0 : T.t00 * F + T.t01 * G = 2 ^ 62 * (f' + (T.t00 * A + T.t01 * B)) := by
    rw [eF, eG]; linear_combination h0
  have e1 : T.t10 * F + T.t11 * G = 2 ^ 62 * (g' + (T.t10 * A + T.t11 * B)) := by
    rw [eF, eG]; linear_combination h1
  exact ⟨_, _, e0, e1, b0, b1, hFO, gcd_of_matrix' e0 e1 hdet (Or.inr hGodd)⟩

/-- the first trip of `divsteps` from `(F any, G odd, delta > 0)` establishes the `(f, g)` invariant -/
theorem fg_first_step_pos (n : Nat) (Bd : Int) (hn : 2 ≤ n) (hcap : 2 ^ 64 * Bd ≤ ((Q ^ n : Nat) : Int))
    (f0 : List Nat) (inverse : Int) (s : DS)
    (lf : s.f.length = n) (lg : s.g.length = n) (wf : WF62 s.f) (wg : WF62 s.g)
    (hd : 0 < s.delta) (godd : uval s.g % 2 = 1) (bf : |uval s.f| ≤ Bd) (bg : |uval s.g| ≤ Bd) :
    FGI n Bd (Int.gcd (uval s.f) (uval s.g)) (dsStep f0 inverse s) := by
  have hnef : s.f ≠ [] := by intro h0; rw [h0] at lf; simp at lf; omega
  have hneg : s.g ≠ [] := by intro h0; rw [h0] at lg; simp at lg; omega
  have hF := ulowest_modEq s.f wf hnef
  have hG := ulowest_modEq s.g wg hneg
  rw [Qi_eq] at hF hG
  obtain ⟨F', G', h0, h1, b0, b1, ho, hg⟩ := jump_on_full_pos s.f s.g s.delta (uval s.f) (uval s.g)
    (headD_lt_of_WF62 _ wf) (headD_lt_of_WF62 _ wg) hF hG hd godd
  have ef := dsStep_f f0 inverse s
  have eg := dsStep_g f0 inverse s
  generalize (jump s.f s.g s.delta).2 = T at *
  have hBd1 : 1 ≤ Bd := by
    have : uval s.g ≠ 0 := by intro h0; rw [h0] at godd; simp at godd
    have := abs_pos.mpr this
    linarith [bg]
  have hr0 := abs_le.mp (abs_lincomb_le b0 bf bg)
  have hr1 := abs_le.mp (abs_lincomb_le b1 bf bg)
  have hlenf : 2 ≤ s.f.length := by rw [lf]; exact hn
  obtain ⟨p1, p2, p3, q1, q2, q3⟩ := fg_spec s.f s.g T wf wg (by rw [lf, lg]) hlenf b0 b1
    (by rw [lf]; linarith [hr0.1]) (by rw [lf]; linarith [hr0.2])
    (by rw [lf]; linarith [hr1.1]) (by rw [lf]; linarith [hr1.2])
  have hdiv0 : (T.t00 * uval s.f + T.t01 * uval s.g) / (Q : Int) = F' := by
    rw [h0, Qi_eq]; exact Int.mul_ediv_cancel_left _ (by norm_num)
  have hdiv1 : (T.t10 * uval s.f + T.t11 * uval s.g) / (Q : Int) = G' := by
    rw [h1, Qi_eq]; exact Int.mul_ediv_cancel_left _ (by norm_num)
  rw [hdiv0] at p3; rw [hdiv1] at q3
  have hbF' : |F'| ≤ Bd := by
    have : |(2 : Int) ^ 62 * F'| ≤ 2 ^ 62 * Bd := by rw [← h0]; exact abs_lincomb_le b0 bf bg
    rw [abs_mul, abs_of_pos (by positivity : (0 : Int) < 2 ^ 62)] at this
    exact le_of_mul_le_mul_left this (by positivity)
  have hbG' : |G'| ≤ Bd := by
    have : |(2 : Int) ^ 62 * G'| ≤ 2 ^ 62 * Bd := by rw [← h1]; exact abs_lincomb_le b1 bf bg
    rw [abs_mul, abs_of_pos (by positivity : (0 : Int) < 2 ^ 62)] at this
    exact le_of_mul_le_mul_left this (by positivity)
  exact ⟨by rw [ef, p1, lf], by rw [eg, q1, lf], by rw [ef]; exact p2,
    by rw [eg]; exact q2, by rw [ef, p3]; exact ho, by rw [ef, p3]; exact hbF',
    by rw [eg, q3]; exact hbG', by rw [ef, eg, p3, q3, hg]⟩

/-- from the `(f, g)` invariant and `g = 0` to the value returned through `to_uint` -/
theorem gcd_tail (sat n : Nat) (hsat : 1 ≤ sat) (hn : 64 * sat + 64 ≤ 62 * n) (gs : Nat) (s : DS)
    (Fi : FGI n (2 ^ (64 * sat)) gs s) (H0 : ueq s.g (uzero n) = true) (hlt : gs < 2 ^ (64 * sat)) :
    uisNeg (uselect s.f (uneg s.f) (uisNeg s.f)) = false ∧
    CB.val (toUint (uselect s.f (uneg s.f) (uisNeg s.f)) sat) = gs := by
  have hn1 : 1 ≤ n := by omega
  have hcap := cap_of_geometry sat n hn
  have H : s.g = uzero n := (ueq_iff _ _ (by rw [uzero_length, Fi.lg])).mp H0
  have hg0 : uval s.g = 0 := by rw [H]; exact uval_uzero n hn1
  have hgcd : (uval s.f).natAbs = gs := by
    have := Fi.gcd
    rw [hg0, Int.gcd_zero_right] at this
    exact this
  have hfne : s.f ≠ [] := by
    intro h0; have := Fi.lf; rw [h0] at this; simp at this; omega
  have hQn : (2 : Int) ^ 64 * 2 ^ (64 * sat) ≤ ((Q ^ s.f.length : Nat) : Int) := by rw [Fi.lf]; exact hcap
  have hpos : (0 : Int) < 2 ^ (64 * sat) := by positivity
  have habs := abs_le.mp Fi.bf
  have hf1 : (uselect s.f (uneg s.f) (uisNeg s.f)).length = s.f.length ∧
      WF62 (uselect s.f (uneg s.f) (uisNeg s.f)) ∧
      uval (uselect s.f (uneg s.f) (uisNeg s.f)) = ((uval s.f).natAbs : Int) := by
    have hiff := uisNeg_iff_neg s.f Fi.wf hfne
    unfold uselect
    by_cases hneg : uval s.f < 0
    · rw [if_pos (hiff.mpr hneg)]
      obtain ⟨a, b, c⟩ := uval_uneg s.f Fi.wf hfne (by nlinarith) (by nlinarith)
      exact ⟨a, b, by rw [c]; omega⟩
    · have : uisNeg s.f = false := by
        cases h : uisNeg s.f with
        | false => rfl
        | true => exact absurd (hiff.mp h) hneg
      rw [this]
      exact ⟨rfl, Fi.wf, by simp only [Bool.false_eq_true, if_false]; omega⟩
  obtain ⟨l1, w1, v1⟩ := hf1
  generalize uselect s.f (uneg s.f) (uisNeg s.f) = f1 at *
  have hne1 : f1 ≠ [] := by
    intro h0; rw [h0] at l1; exact hfne (List.length_eq_zero_iff.mp (by simpa using l1.symm))
  obtain ⟨rneg, rval⟩ := uval_nonneg_eq f1 w1 hne1 (by rw [v1]; exact Int.natCast_nonneg _)
  obtain ⟨_, _, tv⟩ := toUint_spec f1 sat w1 (by rw [l1, Fi.lf]; omega)
  refine ⟨rneg, ?_⟩
  have hval : uvalN f1 = gs := by
    have : ((uvalN f1 : Nat) : Int) = ((gs : Nat) : Int) := by rw [rval, v1, hgcd]
    exact_mod_cast this
  rw [tv, hval]
  exact Nat.mod_eq_of_lt (by omega)

/-- `k + 1` trips from `(f any parity, g ODD)`: `|f|` is the gcd once `g = 0` -/
theorem gcd_after_loop_pos (sat n k : Nat) (hsat : 1 ≤ sat) (hn : 64 * sat + 64 ≤ 62 * n)
    (fw gw e : List Nat) (inverse : Int) (hfw : CB.WF fw) (hgw : CB.WF gw)
    (lf : fw.length = sat) (lg : gw.length = sat) (hodd : CB.val gw % 2 = 1)
    (s : DS) (hs : s = dsLoop (fromUint fw n) inverse (k + 1) ⟨1, fromUint fw n, fromUint gw n, uzero n, e⟩)
    (H0 : ueq s.g (uzero n) = true) :
    uisNeg (uselect s.f (uneg s.f) (uisNeg s.f)) = false ∧
    CB.val (toUint (uselect s.f (uneg s.f) (uisNeg s.f)) sat) = Nat.gcd (CB.val fw) (CB.val gw) := by
  have hn2 : 2 ≤ n := by omega
  obtain ⟨lff, wff, uvf⟩ := uval_fromUint fw n hfw (by rw [lf]; exact hn)
  obtain ⟨lfg, wfg, uvg⟩ := uval_fromUint gw n hgw (by rw [lg]; exact hn)
  have hFlt := val_lt_two_pow fw hfw
  have hGlt := val_lt_two_pow gw hgw
  rw [lf] at hFlt; rw [lg] at hGlt
  have hcap := cap_of_geometry sat n hn
  generalize hF : CB.val fw = F at *
  generalize hG : CB.val gw = G at *
  have hGpos : 0 < G := by omega
  have hBdF : ((F : Nat) : Int) ≤ 2 ^ (64 * sat) := by exact_mod_cast (le_of_lt hFlt)
  have hBdG : ((G : Nat) : Int) ≤ 2 ^ (64 * sat) := by exact_mod_cast (le_of_lt hGlt)
  have i1 := fg_first_step_pos n (2 ^ (64 * sat)) hn2 hcap (fromUint fw n) inverse
    ⟨1, fromUint fw n, fromUint gw n, uzero n, e⟩ lff lfg wff wfg (by show (0 : Int) < 1; norm_num)
    (by show uval (fromUint gw n) % 2 = 1; rw [uvg]; exact_mod_cast hodd)
    (by show |uval (fromUint fw n)| ≤ _; rw [uvf, abs_of_nonneg (Int.natCast_nonneg _)]; exact hBdF)
    (by show |uval (fromUint gw n)| ≤ _; rw [uvg, abs_of_nonneg (Int.natCast_nonneg _)]; exact hBdG)
  have egs : Int.gcd (uval (fromUint fw n)) (uval (fromUint gw n)) = Nat.gcd F G := by
    rw [uvf, uvg, Int.gcd_natCast_natCast]
  have i1' : FGI n (2 ^ (64 * sat)) (Nat.gcd F G)
      (dsStep (fromUint fw n) inverse ⟨1, fromUint fw n, fromUint gw n, uzero n, e⟩) := by
    have := i1
    simp only [egs] at this
    exact this
  have Fi := dsLoop_fg n (2 ^ (64 * sat)) (Nat.gcd F G) hn2 hcap (fromUint fw n) inverse k _ i1'
  have e1 : dsLoop (fromUint fw n) inverse (k + 1) ⟨1, fromUint fw n, fromUint gw n, uzero n, e⟩ =
      dsLoop (fromUint fw n) inverse k (dsStep (fromUint fw n) inverse ⟨1, fromUint fw n, fromUint gw n, uzero n, e⟩) := rfl
  rw [← e1, ← hs] at Fi
  exact gcd_tail sat n hsat hn (Nat.gcd F G) s Fi H0 (by
    have := Nat.gcd_le_right F hGpos
    omega)

theorem iterations_pos (a b : Nat) : 1 ≤ iterations a b := by
  unfold iterations
  simp only [CB.Extracted.safegcdIterMul, CB.Extracted.safegcdIterDiv, CB.Extracted.safegcdIterThreshold,
    CB.Extracted.safegcdIterAddGe, CB.Extracted.safegcdIterAddLt]
  split <;> split <;> omega

/-- `SafeGcdInverter::gcd(f, g)` / `gcd_vartime` with an ODD `g` and ANY `f` (what `Uint::gcd` hands over
    when `s2` is even), given that the loop reached `g = 0` -/
theorem gcd_fixed_spec_pos (vartime : Bool) (sat : Nat) (hsat : 1 ≤ sat)
    (fw gw : List Nat) (hfw : CB.WF fw) (hgw : CB.WF gw) (lf : fw.length = sat) (lg : gw.length = sat)
    (hodd : CB.val gw % 2 = 1)
    (H : (gcdFixed vartime sat fw gw).gZero = true) :
    (gcdFixed vartime sat fw gw).negative = false ∧
    CB.val (gcdFixed vartime sat fw gw).value = Nat.gcd (CB.val fw) (CB.val gw) := by
  have hn := geometry sat
  have hl : (fromUint fw (nlimbsFor (sat * 64))).length = nlimbsFor (sat * 64) :=
    (fromUint_spec fw _ hfw (by rw [lf]; omega)).1
  cases vartime with
  | false =>
    obtain ⟨k, hk⟩ : ∃ k, iterations (ubits (fromUint fw (nlimbsFor (sat * 64))))
        (ubits (fromUint gw (nlimbsFor (sat * 64)))) = k + 1 :=
      ⟨_, (Nat.sub_add_cancel (iterations_pos _ _)).symm⟩
    have key := gcd_after_loop_pos sat (nlimbsFor (sat * 64)) k
      hsat hn fw gw (uone (nlimbsFor (sat * 64))) (invMod2_62 fw) hfw hgw lf lg hodd _ rfl
    simp only [gcdFixed, divsteps, hl, Bool.false_eq_true, if_false] at H ⊢
    rw [hk] at H ⊢
    exact key H
  | true =>
    obtain ⟨k, hk⟩ := dsVtLoop_eq (fromUint fw (nlimbsFor (sat * 64))) (invMod2_62 fw)
      (vtFuel (nlimbsFor (sat * 64)))
      ⟨1, fromUint fw (nlimbsFor (sat * 64)), fromUint gw (nlimbsFor (sat * 64)), uzero (nlimbsFor (sat * 64)),
        uone (nlimbsFor (sat * 64))⟩ 0
    simp only [gcdFixed, divstepsVartime, hl, if_true] at H ⊢
    rw [hk] at H ⊢
    cases k with
    | zero =>
      -- no trip at all: then `g` itself is zero, but it is odd
      exfalso
      obtain ⟨lfg, wfg, uvg⟩ := uval_fromUint gw (nlimbsFor (sat * 64)) hgw (by rw [lg]; exact hn)
      have hz : fromUint gw (nlimbsFor (sat * 64)) = uzero (nlimbsFor (sat * 64)) :=
        (ueq_iff _ _ (by rw [uzero_length, lfg])).mp H
      rw [hz, uval_uzero _ (by omega)] at uvg
      have : CB.val gw = 0 := by exact_mod_cast uvg.symm
      omega
    | succ j =>
      exact gcd_after_loop_pos sat (nlimbsFor (sat * 64)) j
        hsat hn fw gw (uone (nlimbsFor (sat * 64))) (invMod2_62 fw) hfw hgw lf lg hodd _ rfl H

end CB.SafeGcd
