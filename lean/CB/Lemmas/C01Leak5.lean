/-
  CB.Lemmas.C01Leak5 — trace lemmas for the extension round of property C01: safegcd (src/modular/safegcd.rs).

  `UnsatInt::{add, neg, shr, eq, is_negative, select, bits, from_uint, to_uint}` are noninterferent.  `UnsatInt::mul`
  branches on the sign of its `i64` multiplier: its trace is `branchOn (sign mask) ++` a public loop trace.  So `fg` and
  `de` have traces that are functions of the SIGN MASKS of the matrix entries (and of `md`, `me`) only, and one trip of
  the outer loop of `divsteps` decomposes as   pubIndex 0 ++ trace(jump) ++ fgT(signs) ++ deT(signs).
-/
import CB.Lemmas.C01Leak2
namespace CB.Leak
open Sec

def unsatAddT (n : Nat) : Trace := (unsatAdd n [] []).tr
@[simp] theorem unsatAdd_tr (n : Nat) (a b : List Sec) : (unsatAdd n a b).tr = unsatAddT n := by
  unfold unsatAddT unsatAdd; leak_simp; leak_loop

def unsatMulLoopT (n : Nat) : Trace := (unsatMulLoop n [] zero zero zero).tr
@[simp] theorem unsatMulLoop_tr (n : Nat) (a : List Sec) (o m c : Sec) : (unsatMulLoop n a o m c).tr = unsatMulLoopT n := by
  unfold unsatMulLoopT unsatMulLoop; leak_simp; leak_loop

/-- the trace of `UnsatInt::mul`: the branch on the sign mask `s` of the multiplier, then the public loop -/
def unsatMulT (n : Nat) (s : Sec) : Trace := (branchOn s).tr ++ unsatMulLoopT n
theorem unsatMul_tr (n : Nat) (a : List Sec) (o : Sec) : (unsatMul n a o).tr = unsatMulT n (maskMsb o) := by
  unfold unsatMulT unsatMul; leak_simp; simp only [unsatMulLoop_tr, ite_self]

def unsatNegT (n : Nat) : Trace := (unsatNeg n []).tr
@[simp] theorem unsatNeg_tr (n : Nat) (a : List Sec) : (unsatNeg n a).tr = unsatNegT n := by
  unfold unsatNegT unsatNeg; leak_simp; leak_loop

def unsatIsNegativeT (n : Nat) : Trace := (unsatIsNegative n []).tr
@[simp] theorem unsatIsNegative_tr (n : Nat) (a : List Sec) : (unsatIsNegative n a).tr = unsatIsNegativeT n := by
  unfold unsatIsNegativeT unsatIsNegative; leak_simp

def unsatShrT (n : Nat) : Trace := (unsatShr n []).tr
@[simp] theorem unsatShr_tr (n : Nat) (a : List Sec) : (unsatShr n a).tr = unsatShrT n := by
  unfold unsatShrT unsatShr; leak_simp; simp only [unsatIsNegative_tr]; congr 1; leak_loop

def unsatEqT (n : Nat) : Trace := (unsatEq n [] []).tr
@[simp] theorem unsatEq_tr (n : Nat) (a b : List Sec) : (unsatEq n a b).tr = unsatEqT n := by
  unfold unsatEqT unsatEq; leak_loop

def unsatSelectT (n : Nat) : Trace := (unsatSelect n [] [] zero).tr
@[simp] theorem unsatSelect_tr (n : Nat) (a b : List Sec) (c : Sec) : (unsatSelect n a b c).tr = unsatSelectT n := by
  unfold unsatSelectT unsatSelect; leak_loop

def unsatBitsT (n : Nat) : Trace := (unsatBits n []).tr
@[simp] theorem unsatBits_tr (n : Nat) (a : List Sec) : (unsatBits n a).tr = unsatBitsT n := by
  unfold unsatBitsT unsatBits; leak_simp; leak_loop

def limbConvertT (ib ob il ol : Nat) : Trace := (limbConvert ib ob il ol []).tr
@[simp] theorem limbConvert_tr (ib ob il ol : Nat) (a : List Sec) : (limbConvert ib ob il ol a).tr = limbConvertT ib ob il ol := by
  unfold limbConvertT limbConvert; leak_simp
  congr 1
  · leak_loop
  · leak_loop

@[simp] theorem unsatFromUint_tr (n u : Nat) (a : List Sec) : (unsatFromUint n u a).tr = limbConvertT 64 62 n u := by
  unfold unsatFromUint; rw [limbConvert_tr]
@[simp] theorem unsatToUint_tr (u n : Nat) (a : List Sec) : (unsatToUint u n a).tr = limbConvertT 62 64 u n := by
  unfold unsatToUint; rw [limbConvert_tr]

@[simp] theorem invMod262_tr (v : Sec) : (invMod262 v).tr = [] := rfl

/-- `f.mul(t0).add(&g.mul(t1))`: a function of the two sign masks -/
def unsatLin2T (n : Nat) (s0 s1 : Sec) : Trace := unsatMulT n s0 ++ (unsatMulT n s1 ++ unsatAddT n)
theorem unsatLin2_tr (n : Nat) (f g : List Sec) (t0 t1 : Sec) :
    (unsatLin2 n f g t0 t1).tr = unsatLin2T n (maskMsb t0) (maskMsb t1) := by
  unfold unsatLin2T unsatLin2; leak_simp; simp only [unsatMul_tr, unsatAdd_tr]

/-- `fg`: a function of the four sign masks of the matrix -/
def fgStepT (n : Nat) (s00 s01 s10 s11 : Sec) : Trace :=
  unsatLin2T n s00 s01 ++ (unsatLin2T n s10 s11 ++ (unsatShrT n ++ unsatShrT n))
theorem fgStep_tr (n : Nat) (f g : List Sec) (t00 t01 t10 t11 : Sec) :
    (fgStep n f g t00 t01 t10 t11).tr = fgStepT n (maskMsb t00) (maskMsb t01) (maskMsb t10) (maskMsb t11) := by
  unfold fgStepT fgStep; leak_simp; simp only [unsatLin2_tr, unsatShr_tr]

def unsatLin3T (n : Nat) (s0 s1 sm : Sec) : Trace := unsatLin2T n s0 s1 ++ (unsatMulT n sm ++ unsatAddT n)
theorem unsatLin3_tr (n : Nat) (d e m : List Sec) (t0 t1 md : Sec) :
    (unsatLin3 n d e m t0 t1 md).tr = unsatLin3T n (maskMsb t0) (maskMsb t1) (maskMsb md) := by
  unfold unsatLin3T unsatLin3; leak_simp; simp only [unsatLin2_tr, unsatMul_tr, unsatAdd_tr]

/-- `de`: a function of the sign masks of the matrix and of `md`, `me` -/
def deStepT (n : Nat) (s00 s01 s10 s11 smd sme : Sec) : Trace :=
  unsatIsNegativeT n ++ (unsatIsNegativeT n ++ (Event.pubIndex 0 :: (unsatLin3T n s00 s01 smd ++ (unsatLin3T n s10 s11 sme ++
    (unsatShrT n ++ unsatShrT n)))))
/-- the `md` of `de` as the model computes it (for stating which sign enters) -/
def deMdOf (n : Nat) (t0 t1 inverse : Sec) (d e : List Sec) : Sec :=
  deMd t0 t1 (unsatIsNegative n d).val (unsatIsNegative n e).val (limb d 0) (limb e 0) inverse
theorem deStep_tr (n : Nat) (m : List Sec) (inv t00 t01 t10 t11 : Sec) (d e : List Sec) :
    (deStep n m inv t00 t01 t10 t11 d e).tr =
      deStepT n (maskMsb t00) (maskMsb t01) (maskMsb t10) (maskMsb t11)
        (maskMsb (deMdOf n t00 t01 inv d e)) (maskMsb (deMdOf n t10 t11 inv d e)) := by
  unfold deStepT deStep deMdOf; leak_simp; simp only [unsatIsNegative_tr, unsatLin3_tr, unsatShr_tr]

/-- one trip of the outer loop: `pubIndex 0`, the trace of `jump`, then `fg` and `de` whose traces are functions of the
sign masks of what `jump` returned (and of `md`, `me`) -/
theorem divstepsTrip_tr (n : Nat) (f0 : List Sec) (inv : Sec) (st : Sec × List Sec × List Sec × List Sec × List Sec) :
    (divstepsTrip n f0 inv st).tr =
      Event.pubIndex 0 :: ((jumpFull (limb st.2.1 0) (limb st.2.2.1 0) st.1).tr ++
        (fgStepT n (maskMsb (jumpFull (limb st.2.1 0) (limb st.2.2.1 0) st.1).val.2.1)
                   (maskMsb (jumpFull (limb st.2.1 0) (limb st.2.2.1 0) st.1).val.2.2.1)
                   (maskMsb (jumpFull (limb st.2.1 0) (limb st.2.2.1 0) st.1).val.2.2.2.1)
                   (maskMsb (jumpFull (limb st.2.1 0) (limb st.2.2.1 0) st.1).val.2.2.2.2) ++
         (deStep n f0 inv (jumpFull (limb st.2.1 0) (limb st.2.2.1 0) st.1).val.2.1
                   (jumpFull (limb st.2.1 0) (limb st.2.2.1 0) st.1).val.2.2.1
                   (jumpFull (limb st.2.1 0) (limb st.2.2.1 0) st.1).val.2.2.2.1
                   (jumpFull (limb st.2.1 0) (limb st.2.2.1 0) st.1).val.2.2.2.2 st.2.2.2.1 st.2.2.2.2).tr)) := by
  unfold divstepsTrip; leak_simp; simp only [fgStep_tr]

def unsatNormT (n : Nat) : Trace := (unsatNorm n [] [] zero).tr
@[simp] theorem unsatNorm_tr (n : Nat) (m v : List Sec) (c : Sec) : (unsatNorm n m v c).tr = unsatNormT n := by
  unfold unsatNormT unsatNorm; leak_simp; simp only [unsatIsNegative_tr, unsatAdd_tr, unsatSelect_tr, unsatNeg_tr]

end CB.Leak
