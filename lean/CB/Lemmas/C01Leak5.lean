/-
  CB.Lemmas.C01Leak5 — trace lemmas for the extension round of property C01: safegcd (src/modular/safegcd.rs).

  `UnsatInt::{add, neg, shr, eq, is_negative, select, bits, from_uint, to_uint}` are noninterferent.  `UnsatInt::mul`
  branches on the sign of its `i64` multiplier: its trace is `branchOn (sign mask) ++` a public loop trace.  So `fg` and
  `de` have traces that are functions of the SIGN MASKS of the matrix entries (and of `md`, `me`) only, and one trip of
  the outer loop of `divsteps` decomposes as   pubIndex 0 ++ trace(jump) ++ fgT(signs) ++ deT(signs).
-/
import CB.Lemmas.C01Leak2
namespace CB.Leak
open Sec

def unsatAddT (n : Nat) : Trace := (unsatAdd n [] []).tr
@[simp] theorem unsatAdd_tr (n : Nat) (a b : List Sec) : (unsatAdd n a b).tr = unsatAddT n := by
  unfold unsatAddT unsatAdd; leak_simp; leak_loop

def unsatMulLoopT (n : Nat) : Trace := (unsatMulLoop n [] zero zero zero).tr
@[simp] theorem unsatMulLoop_tr (n : Nat) (a : List Sec) (o m c : Sec) : (unsatMulLoop n a o m c).tr = unsatMulLoopT n := by
  unfold unsatMulLoopT unsatMulLoop; leak_simp; leak_loop

/-- the trace of `UnsatInt::mul`: the branch on the sign mask `s` of the multiplier, then the public loop -/
def unsatMulT (n : Nat) (s : Sec) : Trace := (branchOn s).tr ++ unsatMulLoopT n
theorem unsatMul_tr (n : Nat) (a : List Sec) (o : Sec) : (unsatMul n a o).tr = unsatMulT n (maskMsb o) := by
  unfold unsatMulT unsatMul; leak_simp; simp only [unsatMulLoop_tr, ite_self]

def unsatNegT (n : Nat) : Trace := (unsatNeg n []).tr
@[simp] theorem unsatNeg_tr (n : Nat) (a : List Sec) : (unsatNeg n a).tr = unsatNegT n := by
  unfold unsatNegT unsatNeg; leak_simp; leak_loop

def unsatIsNegativeT (n : Nat) : Trace := (unsatIsNegative n []).tr
@[simp] theorem unsatIsNegative_tr (n : Nat) (a : List Sec) : (unsatIsNegative n a).tr = unsatIsNegativeT n := by
  unfold unsatIsNegativeT unsatIsNegative; leak_simp

def unsatShrT (n : Nat) : Trace := (unsatShr n []).tr
@[simp] theorem unsatShr_tr (n : Nat) (a : List Sec) : (unsatShr n a).tr = unsatShrT n := by
  unfold unsatShrT unsatShr; leak_simp; simp only [unsatIsNegative_tr]; congr 1; leak_loop

def unsatEqT (n : Nat) : Trace := (unsatEq n [] []).tr
@[simp] theorem unsatEq_tr (n : Nat) (a b : List Sec) : (unsatEq n a b).tr = unsatEqT n := by
  unfold unsatEqT unsatEq; leak_loop

def unsatSelectT (n : Nat) : Trace := (unsatSelect n [] [] zero).tr
@[simp] theorem unsatSelect_tr (n : Nat) (a b : List Sec) (c : Sec) : (unsatSelect n a b c).tr = unsatSelectT n := by
  unfold unsatSelectT unsatSelect; leak_loop

def unsatBitsT (n : Nat) : Trace := (unsatBits n []).tr
@[simp] theorem unsatBits_tr (n : Nat) (a : List Sec) : (unsatBits n a).tr = unsatBitsT n := by
  unfold unsatBitsT unsatBits; leak_simp; leak_loop

def limbConvertT (ib ob il ol : Nat) : Trace := (limbConvert ib ob il ol []).tr
@[simp] theorem limbConvert_tr (ib ob il ol : Nat) (a : List Sec) : (limbConvert ib ob il ol a).tr = limbConvertT ib ob il ol := by
  unfold limbConvertT limbConvert; leak_simp
  congr 1
  · leak_loop
  · leak_loop

@[simp] theorem unsatFromUint_tr (n u : Nat) (a : List Sec) : (unsatFromUint n u a).tr = limbConvertT 64 62 n u := by
  unfold unsatFromUint; rw [limbConvert_tr]
@[simp] theorem unsatToUint_tr (u n : Nat) (a : List Sec) : (unsatToUint u n a).tr = limbConvertT 62 64 u n := by
  unfold unsatToUint; rw [limbConvert_tr]

@[simp] theorem invMod262_tr (v : Sec) : (invMod262 v).tr = [] := rfl

/-- `f.mul(t0).add(&g.mul(t1))`: a function of the two sign masks -/
def unsatLin2T (n : Nat) (s0 s1 : Sec) : Trace := unsatMulT n s0 ++ (unsatMulT n s1 ++ unsatAddT n)
theorem unsatLin2_tr (n : Nat) (f g : List Sec) (t0 t1 : Sec) :
    (unsatLin2 n f g t0 t1).tr = unsatLin2T n (maskMsb t0) (maskMsb t1) := by
  unfold unsatLin2T unsatLin2; leak_simp; simp only [unsatMul_tr, unsatAdd_tr]

/-- `fg`: a function of the four sign masks of the matrix -/
def fgStepT (n : Nat) (s00 s01 s10 s11 : Sec) : Trace :=
  unsatLin2T n s00 s01 ++ (unsatLin2T n s10 s11 ++ (unsatShrT n ++ unsatShrT n))
theorem fgStep_tr (n : Nat) (f g : List Sec) (t00 t01 t10 t11 : Sec) :
    (fgStep n f g t00 t01 t10 t11).tr = fgStepT n (maskMsb t00) (maskMsb t01) (maskMsb t10) (maskMsb t11) := by
  unfold fgStepT fgStep; leak_simp; simp only [unsatLin2_tr, unsatShr_tr]

def unsatLin3T (n : Nat) (s0 s1 sm : Sec) : Trace := unsatLin2T n s0 s1 ++ (unsatMulT n sm ++ unsatAddT n)
theorem unsatLin3_tr (n : Nat) (d e m : List Sec) (t0 t1 md : Sec) :
    (unsatLin3 n d e m t0 t1 md).tr = unsatLin3T n (maskMsb t0) (maskMsb t1) (maskMsb md) := by
  unfold unsatLin3T unsatLin3; leak_simp; simp only [unsatLin2_tr, unsatMul_tr, unsatAdd_tr]

/-- `de`: a function of the sign masks of the matrix and of `md`, `me` -/
def deStepT (n : Nat) (s00 s01 s10 s11 smd sme : Sec) : Trace :=
  unsatIsNegativeT n ++ (unsatIsNegativeT n ++ (Event.pubIndex 0 :: (unsatLin3T n s00 s01 smd ++ (unsatLin3T n s10 s11 sme ++
    (unsatShrT n ++ unsatShrT n)))))
/-- the `md` of `de` as the model computes it (for stating which sign enters) -/
def deMdOf (n : Nat) (t0 t1 inverse : Sec) (d e : List Sec) : Sec :=
  deMd t0 t1 (unsatIsNegative n d).val (unsatIsNegative n e).val (limb d 0) (limb e 0) inverse
theorem deStep_tr (n : Nat) (m : List Sec) (inv t00 t01 t10 t11 : Sec) (d e : List Sec) :
    (deStep n m inv t00 t01 t10 t11 d e).tr =
      deStepT n (maskMsb t00) (maskMsb t01) (maskMsb t10) (maskMsb t11)
        (maskMsb (deMdOf n t00 t01 inv d e)) (maskMsb (deMdOf n t10 t11 inv d e)) := by
  unfold deStepT deStep deMdOf; leak_simp; simp only [unsatIsNegative_tr, unsatLin3_tr, unsatShr_tr]

/-- one trip of the outer loop: `pubIndex 0`, the trace of `jump`, then `fg` and `de` whose traces are functions of the
sign masks of what `jump` returned (and of `md`, `me`) -/
theorem divstepsTrip_tr (n : Nat) (f0 : List Sec) (inv : Sec) (st : Sec × List Sec × List Sec × List Sec × List Sec) :
    (divstepsTrip n f0 inv st).tr =
      Event.pubIndex 0 :: ((jumpFull (limb st.2.1 0) (limb st.2.2.1 0) st.1).tr ++
        (fgStepT n (maskMsb (jumpFull (limb st.2.1 0) (limb st.2.2.1 0) st.1).val.2.1)
                   (maskMsb (jumpFull (limb st.2.1 0) (limb st.2.2.1 0) st.1).val.2.2.1)
                   (maskMsb (jumpFull (limb st.2.1 0) (limb st.2.2.1 0) st.1).val.2.2.2.1)
                   (maskMsb (jumpFull (limb st.2.1 0) (limb st.2.2.1 0) st.1).val.2.2.2.2) ++
         (deStep n f0 inv (jumpFull (limb st.2.1 0) (limb st.2.2.1 0) st.1).val.2.1
                   (jumpFull (limb st.2.1 0) (limb st.2.2.1 0) st.1).val.2.2.1
                   (jumpFull (limb st.2.1 0) (limb st.2.2.1 0) st.1).val.2.2.2.1
                   (jumpFull (limb st.2.1 0) (limb st.2.2.1 0) st.1).val.2.2.2.2 st.2.2.2.1 st.2.2.2.2).tr)) := by
  unfold divstepsTrip; leak_simp; simp only [fgStep_tr]

def unsatNormT (n : Nat) : Trace := (unsatNorm n [] [] zero).tr
@[simp] theorem unsatNorm_tr (n : Nat) (m v : List Sec) (c : Sec) : (unsatNorm n m v c).tr = unsatNormT n := by
  unfold unsatNormT unsatNorm; leak_simp; simp only [unsatIsNegative_tr, unsatAdd_tr, unsatSelect_tr, unsatNeg_tr]


/-! ### the callers of `divsteps`: everything around the variable-time core is public -/

/-- `divsteps` = two `bits()`, the declassified trip count, then that many trips -/
theorem divsteps_tr (n : Nat) (e f0 g : List Sec) (inv : Sec) :
    (divsteps n e f0 g inv).tr =
      unsatBitsT n ++ (unsatBitsT n ++
        ((declassify (iterations (unsatBits n f0).val (unsatBits n g).val)).tr ++
         (forN (declassify (iterations (unsatBits n f0).val (unsatBits n g).val)).val
            (fun _ st => divstepsTrip n f0 inv st) (one, f0, g, zeros n, e)).tr)) := by
  unfold divsteps; leak_simp; simp only [unsatBits_tr]

/-- what `SafeGcdInverter::inv` does after `divsteps` -/
def safegcdInvPostT (u n : Nat) : Trace := unsatEqT u ++ (unsatNormT u ++ (unsatEqT u ++ limbConvertT 62 64 u n))
theorem safegcdInvTail_tr (u n : Nat) (m adj g : List Sec) (inv : Sec) :
    (safegcdInvTail u n m adj g inv).tr = (divsteps u adj m g inv).tr ++ safegcdInvPostT u n := by
  unfold safegcdInvPostT safegcdInvTail; leak_simp; simp only [unsatEq_tr, unsatNorm_tr, unsatToUint_tr]

/-- … and before it: three conversions and `inv_mod2_62` -/
def safegcdInvPreT (n : Nat) : Trace :=
  limbConvertT 64 62 n (unsatLimbs n) ++ (limbConvertT 64 62 n (unsatLimbs n) ++ (Event.pubIndex 0 :: limbConvertT 64 62 n (unsatLimbs n)))

def safegcdGcdPostT (u n : Nat) : Trace := unsatIsNegativeT u ++ (unsatNegT u ++ (unsatSelectT u ++ limbConvertT 62 64 u n))
theorem safegcdGcdTail_tr (u n : Nat) (fu gu : List Sec) (inv : Sec) :
    (safegcdGcdTail u n fu gu inv).tr = (divsteps u (unsatOne u) fu gu inv).tr ++ safegcdGcdPostT u n := by
  unfold safegcdGcdPostT safegcdGcdTail; leak_simp; simp only [unsatIsNegative_tr, unsatNeg_tr, unsatSelect_tr, unsatToUint_tr]

def safegcdGcdPreT (n : Nat) : Trace :=
  Event.pubIndex 0 :: (limbConvertT 64 62 n (unsatLimbs n) ++ limbConvertT 64 62 n (unsatLimbs n))


/-- `bind_tr` with a proof that is not `rfl` (so that `rw` records the step instead of leaving it to definitional
unfolding: the terms below contain the variable-time core applied to large arguments) -/
theorem bind_tr' {α β : Type} (m : L α) (k : α → L β) : (m >>= k).tr = m.tr ++ (k m.val).tr := by
  cases m; rfl

private theorem inv_assoc (A D P : Trace) :
    A ++ (A ++ ([Event.pubIndex 0] ++ ([] ++ (A ++ (D ++ P))))) = (A ++ (A ++ Event.pubIndex 0 :: A)) ++ (D ++ P) := by
  simp only [List.append_assoc, List.nil_append, List.cons_append]

/-- `Uint::inv_odd_mod`: three conversions and `inv_mod2_62`, then `divsteps` on the converted operands, then the public
tail — nothing but `divsteps` depends on the operands -/
theorem safegcdInv_tr (n : Nat) (m v : List Sec) :
    (safegcdInv n m v).tr = safegcdInvPreT n ++
      ((divsteps (unsatLimbs n) (unsatFromUint n (unsatLimbs n) (uone n)).val (unsatFromUint n (unsatLimbs n) m).val
          (unsatFromUint n (unsatLimbs n) v).val (invMod262 (limb m 0)).val).tr ++ safegcdInvPostT (unsatLimbs n) n) := by
  unfold safegcdInv safegcdInvPreT
  rw [bind_tr', bind_tr', bind_tr', bind_tr', bind_tr']
  rw [unsatFromUint_tr, unsatFromUint_tr, unsatFromUint_tr, safegcdInvTail_tr]
  generalize (divsteps _ _ _ _ _).tr = D
  rw [pubIndex_tr]
  have h : (invMod262 (limb m 0)).tr = [] := rfl
  rw [h]
  exact inv_assoc _ D _

private theorem gcd_assoc (A D P : Trace) :
    [Event.pubIndex 0] ++ ([] ++ (A ++ (A ++ (D ++ P)))) = (Event.pubIndex 0 :: (A ++ A)) ++ (D ++ P) := by
  simp only [List.append_assoc, List.nil_append, List.cons_append]

theorem safegcdGcd_tr (n : Nat) (f g : List Sec) :
    (safegcdGcd n f g).tr = safegcdGcdPreT n ++
      ((divsteps (unsatLimbs n) (unsatOne (unsatLimbs n)) (unsatFromUint n (unsatLimbs n) f).val
          (unsatFromUint n (unsatLimbs n) g).val (invMod262 (limb f 0)).val).tr ++ safegcdGcdPostT (unsatLimbs n) n) := by
  unfold safegcdGcd safegcdGcdPreT
  rw [bind_tr', bind_tr', bind_tr', bind_tr']
  rw [unsatFromUint_tr, unsatFromUint_tr, safegcdGcdTail_tr]
  generalize (divsteps _ _ _ _ _).tr = D
  rw [pubIndex_tr]
  have h : (invMod262 (limb f 0)).tr = [] := rfl
  rw [h]
  exact gcd_assoc _ D _


/-! ### `Uint::gcd`, `Uint::inv_mod`: public wrapping around the safegcd call -/
def ugcdOperandsT (n : Nat) : Trace := (ugcdOperands n [] []).tr
@[simp] theorem ugcdOperands_tr (n : Nat) (a b : List Sec) : (ugcdOperands n a b).tr = ugcdOperandsT n := by
  unfold ugcdOperandsT ugcdOperands; leak_simp; simp only [trailingZeros_tr, overflowingShr_tr, uselect_tr]

def ugcdFinishT (n : Nat) : Trace := (ugcdFinish n [] zero).tr
@[simp] theorem ugcdFinish_tr (n : Nat) (r : List Sec) (k : Sec) : (ugcdFinish n r k).tr = ugcdFinishT n := by
  unfold ugcdFinishT ugcdFinish; leak_simp; simp only [overflowingShl_tr, uselect_tr]

theorem ugcd_tr (n : Nat) (a b : List Sec) :
    (ugcd n a b).tr = ugcdOperandsT n ++
      ((safegcdGcd n (ugcdOperands n a b).val.1 (ugcdOperands n a b).val.2.1).tr ++ ugcdFinishT n) := by
  unfold ugcd
  rw [bind_tr', bind_tr', ugcdOperands_tr, ugcdFinish_tr]

def ubitandT (n : Nat) : Trace := (ubitand n [] []).tr
@[simp] theorem ubitand_tr (n : Nat) (a b : List Sec) : (ubitand n a b).tr = ubitandT n := by
  unfold ubitandT ubitand; leak_loop

@[simp] theorem unwrapOrZero_tr (n : Nat) (v : List Sec) (c : Sec) : (unwrapOrZero n v c).tr = uselectT n := by
  unfold unwrapOrZero; rw [uselect_tr]

def uinvModSplitT (n : Nat) : Trace := (uinvModSplit n []).tr
@[simp] theorem uinvModSplit_tr (n : Nat) (m : List Sec) : (uinvModSplit n m).tr = uinvModSplitT n := by
  unfold uinvModSplitT uinvModSplit; leak_simp; simp only [trailingZeros_tr, overflowingShr_tr, unwrapOrZero_tr]

def uinvModFinishT (n : Nat) : Trace := (uinvModFinish n [] [] zero ([], zero)).tr
@[simp] theorem uinvModFinish_tr (n : Nat) (a s : List Sec) (k : Sec) (ma : List Sec × Sec) :
    (uinvModFinish n a s k ma).tr = uinvModFinishT n := by
  unfold uinvModFinishT uinvModFinish; leak_simp
  simp only [invMod2k_tr, unwrapOrZero_tr, overflowingShl_tr, wrappingSub_tr, wrappingMul_tr, ubitand_tr, wrappingAdd_tr]

theorem uinvMod_tr (n : Nat) (a m : List Sec) :
    (uinvMod n a m).tr = uinvModSplitT n ++ ((safegcdInv n (uinvModSplit n m).val.1 a).tr ++ uinvModFinishT n) := by
  unfold uinvMod
  rw [bind_tr', bind_tr', uinvModSplit_tr, uinvModFinish_tr]

end CB.Leak
