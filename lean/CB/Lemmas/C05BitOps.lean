/-
  CB.Lemmas.C05BitOps — limb-wise bitwise operators act on `val` as the `Nat` bit operators;
  `testBit` of a limb list.
-/
import CB.Lemmas.C05Shift
namespace CB.Bits
open CB CB.Shift

theorem add_B_mul (x v : Nat) : x + B * v = 2 ^ 64 * v + x := by rw [B_eq_pow, Nat.add_comm]

/-- bit `i` of `x + B * v` -/
theorem testBit_cons {x : Nat} (hx : x < B) (v i : Nat) :
    (x + B * v).testBit i = if i < 64 then x.testBit i else v.testBit (i - 64) := by
  rw [add_B_mul, Nat.testBit_two_pow_mul_add v (by rwa [B_eq_pow] at hx)]

/-- a bitwise operator distributes over the limb decomposition -/
theorem op_limb {f : Nat → Nat → Nat} {g : Bool → Bool → Bool}
    (hfg : ∀ a b i, (f a b).testBit i = g (a.testBit i) (b.testBit i))
    {x y : Nat} (v w : Nat) (hx : x < B) (hy : y < B) (hxy : f x y < B) :
    f (x + B * v) (y + B * w) = f x y + B * f v w := by
  apply Nat.eq_of_testBit_eq
  intro i
  rw [hfg, testBit_cons hx, testBit_cons hy, testBit_cons hxy]
  by_cases h : i < 64
  · simp only [h, if_true, hfg]
  · simp only [h, if_false, hfg]

theorem val_ubitand {a b : List Nat} (ha : WF a) (hb : WF b) (h : a.length = b.length) :
    val (ubitand a b) = val a &&& val b ∧ WF (ubitand a b) ∧ (ubitand a b).length = a.length := by
  induction a generalizing b with
  | nil =>
    cases b with
    | nil => simp [ubitand, WF_nil]
    | cons _ _ => simp at h
  | cons x xs ih =>
    cases b with
    | nil => simp at h
    | cons y ys =>
      have ⟨hx, hxs⟩ := WF_cons.mp ha
      have ⟨hy, hys⟩ := WF_cons.mp hb
      have ⟨iv, iw, il⟩ := ih hxs hys (by simpa using h)
      have hxy : x &&& y < B := and_lt_B hx
      simp only [ubitand, val_cons, List.length_cons, il]
      exact ⟨by rw [iv, op_limb Nat.testBit_and _ _ hx hy hxy], WF_cons.mpr ⟨hxy, iw⟩, trivial⟩

theorem val_ubitor {a b : List Nat} (ha : WF a) (hb : WF b) (h : a.length = b.length) :
    val (ubitor a b) = val a ||| val b ∧ WF (ubitor a b) ∧ (ubitor a b).length = a.length := by
  induction a generalizing b with
  | nil =>
    cases b with
    | nil => simp [ubitor, WF_nil]
    | cons _ _ => simp at h
  | cons x xs ih =>
    cases b with
    | nil => simp at h
    | cons y ys =>
      have ⟨hx, hxs⟩ := WF_cons.mp ha
      have ⟨hy, hys⟩ := WF_cons.mp hb
      have ⟨iv, iw, il⟩ := ih hxs hys (by simpa using h)
      have hxy : x ||| y < B := or_lt_B hx hy
      simp only [ubitor, val_cons, List.length_cons, il]
      exact ⟨by rw [iv, op_limb Nat.testBit_or _ _ hx hy hxy], WF_cons.mpr ⟨hxy, iw⟩, trivial⟩

theorem val_ubitxor {a b : List Nat} (ha : WF a) (hb : WF b) (h : a.length = b.length) :
    val (ubitxor a b) = val a ^^^ val b ∧ WF (ubitxor a b) ∧ (ubitxor a b).length = a.length := by
  induction a generalizing b with
  | nil =>
    cases b with
    | nil => simp [ubitxor, WF_nil]
    | cons _ _ => simp at h
  | cons x xs ih =>
    cases b with
    | nil => simp at h
    | cons y ys =>
      have ⟨hx, hxs⟩ := WF_cons.mp ha
      have ⟨hy, hys⟩ := WF_cons.mp hb
      have ⟨iv, iw, il⟩ := ih hxs hys (by simpa using h)
      have hxy : x ^^^ y < B := xor_lt_B hx hy
      simp only [ubitxor, val_cons, List.length_cons, il]
      exact ⟨by rw [iv, op_limb Nat.testBit_xor _ _ hx hy hxy], WF_cons.mpr ⟨hxy, iw⟩, trivial⟩

theorem wnot_eq {x : Nat} (hx : x < B) : wnot x = WMAX - x := by
  unfold wnot; rw [Nat.mod_eq_of_lt hx]

/-- `!x` limb by limb is the complement within the width: `2^BITS - 1 - x`. -/
theorem val_unot {a : List Nat} (ha : WF a) :
    val (unot a) + val a + 1 = B ^ a.length ∧ WF (unot a) ∧ (unot a).length = a.length := by
  induction a with
  | nil => simp [unot, WF_nil]
  | cons x xs ih =>
    have ⟨hx, hxs⟩ := WF_cons.mp ha
    have ⟨iv, iw, il⟩ := ih hxs
    simp only [unot, List.map_cons, val_cons, List.length_cons, List.length_map, Nat.pow_succ] at *
    refine ⟨?_, WF_cons.mpr ⟨?_, iw⟩, trivial⟩
    · rw [wnot_eq hx, Nat.mul_comm (B ^ xs.length) B, ← iv]
      simp only [WMAX_def, B_def, Nat.mul_add] at *
      omega
    · rw [wnot_eq hx]; simp only [WMAX_def, B_def] at *; omega

/-- `bitand_limb`: every limb ANDed with the same word. -/
theorem ubitandLimb_spec {a : List Nat} (ha : WF a) (l : Nat) :
    val (ubitandLimb a l) = val a &&& val (List.replicate a.length (l % B)) := by
  induction a with
  | nil => simp [ubitandLimb]
  | cons x xs ih =>
    have ⟨hx, hxs⟩ := WF_cons.mp ha
    have hl : l % B < B := Nat.mod_lt _ B_pos
    have e : x &&& l = x &&& (l % B) := by
      apply Nat.eq_of_testBit_eq; intro i
      rw [Nat.testBit_and, Nat.testBit_and, B_eq_pow, Nat.testBit_mod_two_pow]
      by_cases h : i < 64
      · simp [h]
      · have : x.testBit i = false := Nat.testBit_lt_two_pow (Nat.lt_of_lt_of_le (by rwa [B_eq_pow] at hx)
          (Nat.pow_le_pow_right (by decide) (Nat.not_lt.mp h)))
        simp [this]
    simp only [ubitandLimb, List.map_cons, val_cons, List.length_cons, List.replicate_succ] at *
    rw [ih hxs, e, op_limb Nat.testBit_and _ _ hx hl (and_lt_B hx)]

/-- `BoxedUint::map_limbs` with operands of different precision: the shorter one is zero-extended. -/
theorem val_mapLimbs {f : Nat → Nat → Nat} {g : Bool → Bool → Bool}
    (hfg : ∀ a b i, (f a b).testBit i = g (a.testBit i) (b.testBit i))
    (hlt : ∀ x y, x < B → y < B → f x y < B) (h00 : f 0 0 = 0)
    {a b : List Nat} (ha : WF a) (hb : WF b) :
    val (mapLimbs f a b) = f (val a) (val b) ∧ WF (mapLimbs f a b) ∧
    (mapLimbs f a b).length = max a.length b.length := by
  induction a generalizing b with
  | nil =>
    induction b with
    | nil => simp [mapLimbs, h00, WF_nil]
    | cons y ys ihb =>
      have ⟨hy, hys⟩ := WF_cons.mp hb
      have ⟨iv, iw, il⟩ := ihb hys
      have h0 : (0 : Nat) < B := B_pos
      simp only [mapLimbs, val_cons, val_nil, List.length_cons, List.length_nil] at *
      refine ⟨?_, WF_cons.mpr ⟨hlt _ _ h0 hy, iw⟩, by omega⟩
      have := op_limb hfg 0 (val ys) h0 hy (hlt _ _ h0 hy)
      simp only [Nat.mul_zero, Nat.add_zero] at this
      rw [iv, this]
  | cons x xs ih =>
    have ⟨hx, hxs⟩ := WF_cons.mp ha
    cases b with
    | nil =>
      have ⟨iv, iw, il⟩ := ih hxs WF_nil
      have h0 : (0 : Nat) < B := B_pos
      simp only [mapLimbs, val_cons, val_nil, List.length_cons, List.length_nil] at *
      refine ⟨?_, WF_cons.mpr ⟨hlt _ _ hx h0, iw⟩, by omega⟩
      have := op_limb hfg (val xs) 0 hx h0 (hlt _ _ hx h0)
      simp only [Nat.mul_zero, Nat.add_zero] at this
      rw [iv, this]
    | cons y ys =>
      have ⟨hy, hys⟩ := WF_cons.mp hb
      have ⟨iv, iw, il⟩ := ih hxs hys
      simp only [mapLimbs, val_cons, List.length_cons] at *
      exact ⟨by rw [iv, op_limb hfg _ _ hx hy (hlt _ _ hx hy)], WF_cons.mpr ⟨hlt _ _ hx hy, iw⟩, by omega⟩

/-! ### `testBit` of a limb list -/

theorem testBit_val {a : List Nat} (ha : WF a) (i : Nat) :
    (val a).testBit i = (a.getD (i / 64) 0).testBit (i % 64) := by
  induction a generalizing i with
  | nil => simp
  | cons x xs ih =>
    have ⟨hx, hxs⟩ := WF_cons.mp ha
    rw [val_cons, testBit_cons hx]
    by_cases h : i < 64
    · simp [h, Nat.div_eq_of_lt h, Nat.mod_eq_of_lt h]
    · have h' : 64 ≤ i := Nat.not_lt.mp h
      have e1 : i / 64 = (i - 64) / 64 + 1 := by omega
      have e2 : i % 64 = (i - 64) % 64 := by omega
      simp only [h, if_false]
      rw [ih hxs, e1, e2, List.getD_cons_succ]

end CB.Bits
