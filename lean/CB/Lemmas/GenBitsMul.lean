/- part of the word-level meaning theorems (see CB/Lemmas/GenBits.lean for the explanation); `bv_decide` file -/
import CB.Lemmas.GenBits
namespace CB.GenBits
open CB.Gen

theorem mulhilo_meaning (x y : BitVec 64) :
    ((Prim.mulhilo x y).1.setWidth 128 <<< 64) ||| (Prim.mulhilo x y).2.setWidth 128 = x.setWidth 128 * y.setWidth 128 := by
  simp only [gen_defs]; (try simp only [BitVec.mul_comm]); bv_decide

theorem mul_wide_meaning (x y : BitVec 64) :
    ((Prim.mul_wide x y).2.setWidth 128 <<< 64) ||| (Prim.mul_wide x y).1.setWidth 128 = x.setWidth 128 * y.setWidth 128 := by
  simp only [gen_defs]; (try simp only [BitVec.mul_comm]); bv_decide

theorem addhilo_meaning (xh xl yh yl : BitVec 64) :
    ((Prim.addhilo xh xl yh yl).1.setWidth 128 <<< 64) ||| (Prim.addhilo xh xl yh yl).2.setWidth 128 =
      ((xh.setWidth 128 <<< 64) ||| xl.setWidth 128) + ((yh.setWidth 128 <<< 64) ||| yl.setWidth 128) := by
  simp only [gen_defs]; (try simp only [BitVec.mul_comm]); bv_decide

/-- `mac`: `lo + 2^64·hi = a + b·c + carry`, and the final `hi.wrapping_add` never wraps (that is the statement). -/
theorem mac_meaning (a b c k : BitVec 64) :
    ((Prim.mac a b c k).2.setWidth 128 <<< 64) ||| (Prim.mac a b c k).1.setWidth 128 =
      a.setWidth 128 + b.setWidth 128 * c.setWidth 128 + k.setWidth 128 := by
  simp only [gen_defs]; (try simp only [BitVec.mul_comm]); bv_decide

theorem mulWide_bridge (a b : BitVec 64) :
    CB.mulWide a.toNat b.toNat = ((Prim.mul_wide a b).1.toNat, (Prim.mul_wide a b).2.toNat) := by
  have h := congrArg BitVec.toNat (mul_wide_meaning a b)
  rw [cat_toNat] at h
  have h1 := (Prim.mul_wide a b).1.isLt; have h2 := (Prim.mul_wide a b).2.isLt
  have hp : a.toNat * b.toNat < 2 ^ 128 := by
    have := Nat.mul_lt_mul'' a.isLt b.isLt
    simpa [← Nat.pow_add] using this
  simp only [BitVec.toNat_mul, BitVec.toNat_setWidth, Nat.mod_eq_of_lt (Nat.lt_trans a.isLt (by decide : 2 ^ 64 < 2 ^ 128)),
    Nat.mod_eq_of_lt (Nat.lt_trans b.isLt (by decide : 2 ^ 64 < 2 ^ 128)), Nat.mod_eq_of_lt hp] at h
  simp only [CB.mulWide, B_def]
  generalize a.toNat * b.toNat = p at *
  generalize (Prim.mul_wide a b).1.toNat = lo at *
  generalize (Prim.mul_wide a b).2.toNat = hi at *
  ext <;> simp only <;> omega

theorem mac_bridge (a b c k : BitVec 64) :
    CB.mac a.toNat b.toNat c.toNat k.toNat = ((Prim.mac a b c k).1.toNat, (Prim.mac a b c k).2.toNat) := by
  have h := congrArg BitVec.toNat (mac_meaning a b c k)
  rw [cat_toNat] at h
  have h1 := (Prim.mac a b c k).1.isLt; have h2 := (Prim.mac a b c k).2.isLt
  have ha := a.isLt; have hk := k.isLt
  have hp : b.toNat * c.toNat ≤ (2 ^ 64 - 1) * (2 ^ 64 - 1) :=
    Nat.mul_le_mul (Nat.le_pred_of_lt b.isLt) (Nat.le_pred_of_lt c.isLt)
  simp only [BitVec.toNat_add, BitVec.toNat_mul, BitVec.toNat_setWidth,
    Nat.mod_eq_of_lt (Nat.lt_trans a.isLt (by decide : 2 ^ 64 < 2 ^ 128)),
    Nat.mod_eq_of_lt (Nat.lt_trans b.isLt (by decide : 2 ^ 64 < 2 ^ 128)),
    Nat.mod_eq_of_lt (Nat.lt_trans c.isLt (by decide : 2 ^ 64 < 2 ^ 128)),
    Nat.mod_eq_of_lt (Nat.lt_trans k.isLt (by decide : 2 ^ 64 < 2 ^ 128))] at h
  simp only [CB.mac, B_def]
  generalize b.toNat * c.toNat = p at *
  generalize (Prim.mac a b c k).1.toNat = lo at *
  generalize (Prim.mac a b c k).2.toNat = hi at *
  ext <;> simp only <;> omega

end CB.GenBits
