/-
  CB.Lemmas.C18Der — the DER model: strip/pad, length octets, content canonicity, decoder shape.
-/
import CB.Lemmas.C18Bytes
namespace CB.Der
open CB

/-! ### `strip_leading_zeroes` -/

/-- no leading zero octet, unless the string is a single octet (or empty) -/
def StripNormal : List Nat → Prop
  | b :: _ :: _ => b ≠ 0
  | _ => True

theorem strip_cons_cons (b c : Nat) (rest : List Nat) :
    stripLeadingZeroes (b :: c :: rest) = if b = 0 then stripLeadingZeroes (c :: rest) else b :: c :: rest := rfl

theorem strip_of_normal {r : List Nat} (h : StripNormal r) : stripLeadingZeroes r = r := by
  match r, h with
  | [], _ => rfl
  | [_], _ => rfl
  | b :: c :: rest, h => rw [strip_cons_cons, if_neg h]

theorem strip_spec (bs : List Nat) :
    StripNormal (stripLeadingZeroes bs) ∧ (bs ≠ [] → stripLeadingZeroes bs ≠ []) ∧
    ∃ k, bs = List.replicate k 0 ++ stripLeadingZeroes bs := by
  induction bs with
  | nil => exact ⟨trivial, fun h => h, 0, rfl⟩
  | cons b t ih =>
    cases t with
    | nil => exact ⟨trivial, fun _ => by simp [stripLeadingZeroes], 0, rfl⟩
    | cons c rest =>
      rw [strip_cons_cons]
      by_cases hb : b = 0
      · rw [if_pos hb]
        obtain ⟨h1, h2, k, h3⟩ := ih
        refine ⟨h1, fun _ => h2 (by simp), k + 1, ?_⟩
        rw [List.replicate_succ, List.cons_append, ← h3, hb]
      · rw [if_neg hb]
        exact ⟨hb, fun _ => by simp, 0, rfl⟩

theorem strip_length_le (bs : List Nat) : (stripLeadingZeroes bs).length ≤ bs.length := by
  obtain ⟨_, _, k, h⟩ := strip_spec bs
  have := congrArg List.length h
  simp at this
  omega

theorem strip_Bytes {bs : List Nat} (h : Bytes bs) : Bytes (stripLeadingZeroes bs) := by
  obtain ⟨_, _, k, e⟩ := strip_spec bs
  rw [e] at h
  exact (Bytes_append.mp h).2

theorem beVal_strip (bs : List Nat) : beVal (stripLeadingZeroes bs) = beVal bs := by
  obtain ⟨_, _, k, e⟩ := strip_spec bs
  conv => rhs; rw [e]
  rw [beVal_zeros_append]

theorem strip_zeros_append {r : List Nat} (hr : r ≠ []) (hn : StripNormal r) (k : Nat) :
    stripLeadingZeroes (List.replicate k 0 ++ r) = r := by
  induction k with
  | zero => simpa using strip_of_normal hn
  | succ k ih =>
    rw [List.replicate_succ, List.cons_append]
    cases hz : List.replicate k 0 ++ r with
    | nil => simp [hr] at hz
    | cons c rest => rw [strip_cons_cons, if_pos rfl, ← hz, ih]

theorem strip_idem (bs : List Nat) : stripLeadingZeroes (stripLeadingZeroes bs) = stripLeadingZeroes bs :=
  strip_of_normal (strip_spec bs).1

/-! ### length octets -/

theorem derMaxLen_def : derMaxLen = 268435455 := rfl

theorem derLenOctets_spec {len : Nat} (h1 : 128 ≤ len) (h : len ≤ derMaxLen) :
    1 ≤ derLenOctets len ∧ derLenOctets len ≤ 4 ∧ len < 256 ^ derLenOctets len ∧
    256 ^ (derLenOctets len - 1) ≤ len := by
  rw [derMaxLen_def] at h
  unfold derLenOctets
  split
  · simp; omega
  split
  · simp; omega
  split
  · simp; omega
  · simp; omega

/-- the number of length octets is determined by the range of the length -/
theorem derLenOctets_unique {len k : Nat} (hk1 : 1 ≤ k) (hk4 : k ≤ 4) (hlt : len < 256 ^ k)
    (hge : 256 ^ (k - 1) ≤ len) (h128 : 128 ≤ len) : derLenOctets len = k := by
  unfold derLenOctets
  have hk : k = 1 ∨ k = 2 ∨ k = 3 ∨ k = 4 := by omega
  rcases hk with rfl | rfl | rfl | rfl <;> simp at hlt hge <;> (repeat' split) <;> omega

theorem derLengthEncode_short {len : Nat} (h : len < 128) : derLengthEncode len = [len] := by
  simp [derLengthEncode, h]
theorem derLengthEncode_long {len : Nat} (h : 128 ≤ len) :
    derLengthEncode len = (128 + derLenOctets len) :: beBytes (derLenOctets len) len := by
  simp [derLengthEncode, Nat.not_lt.mpr h]

theorem derLengthEncode_Bytes {len : Nat} (h : len ≤ derMaxLen) : Bytes (derLengthEncode len) := by
  by_cases h1 : len < 128
  · rw [derLengthEncode_short h1]
    exact Bytes_cons.mpr ⟨by omega, Bytes_nil⟩
  · have := derLenOctets_spec (Nat.not_lt.mp h1) h
    rw [derLengthEncode_long (Nat.not_lt.mp h1)]
    exact Bytes_cons.mpr ⟨by omega, beBytes_Bytes _ _⟩

theorem derLengthEncode_length {len : Nat} (h : len ≤ derMaxLen) :
    derLengthEncodedLen len = some (derLengthEncode len).length := by
  by_cases h1 : len < 128
  · simp [derLengthEncodedLen, derLengthEncode_short h1, h1]
  · simp [derLengthEncodedLen, derLengthEncode_long (Nat.not_lt.mp h1), h1, h, Nat.add_comm]

theorem derLengthEncode_length_le {len : Nat} (h : len ≤ derMaxLen) : (derLengthEncode len).length ≤ 5 := by
  by_cases h1 : len < 128
  · simp [derLengthEncode_short h1]
  · have := derLenOctets_spec (Nat.not_lt.mp h1) h
    simp [derLengthEncode_long (Nat.not_lt.mp h1)]; omega

theorem derLengthDecode_cons (l : Nat) (rest : List Nat) :
    derLengthDecode (l :: rest) =
      if l < 128 then some (l, rest)
      else if 129 ≤ l ∧ l ≤ 132 then
        (if rest.length < l - 128 then none
         else derLongLen l (beVal (rest.take (l - 128))) (rest.drop (l - 128)))
      else none := rfl

theorem derLengthDecode_encode {len : Nat} (h : len ≤ derMaxLen) (rest : List Nat) :
    derLengthDecode (derLengthEncode len ++ rest) = some (len, rest) := by
  by_cases h1 : len < 128
  · rw [derLengthEncode_short h1]
    simp [derLengthDecode_cons, h1]
  · have h1' := Nat.not_lt.mp h1
    have ⟨k1, k4, klt, _⟩ := derLenOctets_spec h1' h
    rw [derLengthEncode_long h1', List.cons_append, derLengthDecode_cons]
    rw [if_neg (by omega), if_pos (by omega)]
    have e : 128 + derLenOctets len - 128 = derLenOctets len := by omega
    rw [e, if_neg (by simp)]
    have t1 : (beBytes (derLenOctets len) len ++ rest).take (derLenOctets len) = beBytes (derLenOctets len) len := by
      rw [List.take_left' (beBytes_length _ _)]
    have t2 : (beBytes (derLenOctets len) len ++ rest).drop (derLenOctets len) = rest := by
      rw [List.drop_left' (beBytes_length _ _)]
    rw [t1, t2, beVal_beBytes, Nat.mod_eq_of_lt klt]
    simp [derLongLen, derLengthInitialOctet, h, h1]

theorem derLongLen_some {tag len : Nat} {rest : List Nat} {len' : Nat} {rest' : List Nat}
    (h : derLongLen tag len rest = some (len', rest')) :
    len' = len ∧ rest' = rest ∧ len ≤ derMaxLen ∧ derLengthInitialOctet len = some tag := by
  unfold derLongLen at h
  by_cases hc : len ≤ derMaxLen ∧ derLengthInitialOctet len = some tag
  · rw [if_pos hc] at h
    have := Option.some.inj h
    exact ⟨(congrArg Prod.fst this).symm, (congrArg Prod.snd this).symm, hc.1, hc.2⟩
  · rw [if_neg hc] at h; cases h

/-- a successful `Length::decode` consumed exactly the canonical (minimal) length octets -/
theorem derLengthDecode_some {bs : List Nat} (hb : Bytes bs) {len : Nat} {rest : List Nat}
    (h : derLengthDecode bs = some (len, rest)) : len ≤ derMaxLen ∧ bs = derLengthEncode len ++ rest := by
  cases bs with
  | nil => simp [derLengthDecode] at h
  | cons l t =>
    have ⟨_, ht⟩ := Bytes_cons.mp hb
    rw [derLengthDecode_cons] at h
    by_cases h1 : l < 128
    · rw [if_pos h1] at h
      simp only [Option.some.injEq, Prod.mk.injEq] at h
      obtain ⟨rfl, rfl⟩ := h
      refine ⟨by rw [derMaxLen_def]; omega, ?_⟩
      simp [derLengthEncode_short h1]
    · rw [if_neg h1] at h
      by_cases h2 : 129 ≤ l ∧ l ≤ 132
      · rw [if_pos h2] at h
        by_cases h3 : t.length < l - 128
        · rw [if_pos h3] at h; cases h
        · rw [if_neg h3] at h
          obtain ⟨e1, e2, hm, hi⟩ := derLongLen_some h
          rw [e1, e2]
          refine ⟨hm, ?_⟩
          have hlb : (t.take (l - 128)).length = l - 128 := by simp; omega
          have hbb : Bytes (t.take (l - 128)) := Bytes_take _ ht
          unfold derLengthInitialOctet at hi
          by_cases g1 : beVal (t.take (l - 128)) < 128
          · rw [if_pos g1] at hi; cases hi
          · rw [if_neg g1, if_pos hm] at hi
            have hk : derLenOctets (beVal (t.take (l - 128))) = l - 128 := by
              have := Option.some.inj hi; omega
            rw [derLengthEncode_long (Nat.not_lt.mp g1), hk]
            have := beBytes_beVal hbb
            rw [hlb] at this
            have e3 : 128 + (l - 128) = l := by omega
            rw [this, List.cons_append, List.take_append_drop, e3]
      · rw [if_neg h2] at h; cases h

/-! ### content octets -/

/-- X.690 §8.3.2 for a NON-NEGATIVE INTEGER: at least one content octet, the first bit is 0, and the
    first nine bits are not all 0 (minimal number of octets). -/
def DerCanon : List Nat → Prop
  | [] => False
  | [b] => b < 128
  | b :: c :: _ => b < 128 ∧ ¬(b = 0 ∧ c < 128)

/-- the magnitude octets: content without the `0x00` sign pad -/
def derMagnitude : List Nat → List Nat
  | b :: c :: rest => if b = 0 then c :: rest else b :: c :: rest
  | bs => bs

/-- the sign pad `encoded_len` adds -/
def derPad (s : List Nat) : Nat := if needsLeadingZero s then 1 else 0

theorem uintRefFinish_some_iff {s : List Nat} (hn : StripNormal s) (hlen : Nat) (r : List Nat) :
    uintRefFinish s hlen = some r ↔ r = s ∧ hlen = s.length + derPad s ∧ hlen ≤ derMaxLen := by
  unfold uintRefFinish uintRefNew derUintEncodedLen derLenAdd
  simp only [strip_of_normal hn]
  by_cases h1 : s.length ≤ derMaxLen
  · simp only [if_pos h1, strip_of_normal hn]
    by_cases h2 : s.length + (if needsLeadingZero s = true then 1 else 0) ≤ derMaxLen
    · simp only [if_pos h2]
      by_cases h3 : s.length + (if needsLeadingZero s = true then 1 else 0) = hlen
      · simp only [if_pos h3, Option.some.injEq, derPad]
        constructor
        · intro e; exact ⟨e.symm, h3.symm, by omega⟩
        · intro e; exact e.1.symm
      · simp only [if_neg h3, derPad]
        constructor
        · intro e; cases e
        · intro e; exact absurd e.2.1.symm h3
    · simp only [if_neg h2, derPad]
      constructor
      · intro e; cases e
      · intro e; omega
  · simp only [if_neg h1, derPad]
    constructor
    · intro e; cases e
    · intro e; omega

theorem StripNormal_cons_of_ne {d : Nat} (rest : List Nat) (h : d ≠ 0) : StripNormal (d :: rest) := by
  cases rest with
  | nil => trivial
  | cons e r => exact h

/-- `UintRef::decode_value` accepts exactly the canonical non-negative contents whose length is the
    header length, and yields the magnitude -/
theorem uintRefDecodeValue_some_iff (c : List Nat) (hlen : Nat) (r : List Nat) :
    uintRefDecodeValue c hlen = some r ↔
      hlen = c.length ∧ c.length ≤ derMaxLen ∧ DerCanon c ∧ r = derMagnitude c := by
  unfold uintRefDecodeValue
  match c with
  | [] =>
    simp only [derDecodeToSlice, DerCanon]
    constructor
    · intro e; cases e
    · intro e; exact e.2.2.1.elim
  | [b] =>
    simp only [derDecodeToSlice, DerCanon, derMagnitude]
    by_cases hb : 128 ≤ b
    · simp only [if_pos hb]
      constructor
      · intro e; cases e
      · intro e; omega
    · simp only [if_neg hb]
      rw [uintRefFinish_some_iff (s := [b]) trivial]
      have hp : derPad [b] = 0 := by simp [derPad, needsLeadingZero, hb]
      rw [hp]
      simp only [List.length_cons, List.length_nil]
      constructor
      · intro e; exact ⟨e.2.1, by rw [derMaxLen_def]; omega, by omega, e.1⟩
      · intro e; exact ⟨e.2.2.2, e.1, by rw [derMaxLen_def]; omega⟩
  | b :: d :: rest =>
    simp only [derDecodeToSlice, DerCanon, derMagnitude]
    by_cases hb0 : b = 0
    · simp only [if_pos hb0]
      by_cases hd : d < 128
      · simp only [if_pos hd]
        constructor
        · intro e; cases e
        · intro e; exact absurd ⟨hb0, hd⟩ e.2.2.1.2
      · simp only [if_neg hd]
        rw [uintRefFinish_some_iff (StripNormal_cons_of_ne rest (by omega))]
        have hp : derPad (d :: rest) = 1 := by simp [derPad, needsLeadingZero, Nat.not_lt.mp hd]
        rw [hp]
        simp only [List.length_cons]
        constructor
        · intro e; exact ⟨e.2.1, by omega, ⟨by omega, fun g => hd g.2⟩, e.1⟩
        · intro e; exact ⟨e.2.2.2, e.1, by omega⟩
    · simp only [if_neg hb0]
      by_cases hb : 128 ≤ b
      · simp only [if_pos hb]
        constructor
        · intro e; cases e
        · intro e; omega
      · simp only [if_neg hb]
        rw [uintRefFinish_some_iff (s := b :: d :: rest) hb0]
        have hp : derPad (b :: d :: rest) = 0 := by simp [derPad, needsLeadingZero, hb]
        rw [hp]
        simp only [List.length_cons]
        constructor
        · intro e; exact ⟨e.2.1, by omega, ⟨by omega, fun g => hb0 g.1⟩, e.1⟩
        · intro e; exact ⟨e.2.2.2, e.1, by omega⟩

theorem derMagnitude_spec {c : List Nat} (hc : DerCanon c) :
    derMagnitude c ≠ [] ∧ StripNormal (derMagnitude c) ∧ beVal (derMagnitude c) = beVal c ∧
    (derMagnitude c).length ≤ c.length ∧
    c = (if needsLeadingZero (derMagnitude c) then [0] else []) ++ derMagnitude c := by
  match c, hc with
  | [b], hc =>
    have : ¬ 128 ≤ b := by simp [DerCanon] at hc; omega
    simp [derMagnitude, StripNormal, needsLeadingZero, this]
  | b :: d :: rest, hc =>
    simp only [DerCanon] at hc
    by_cases hb0 : b = 0
    · subst hb0
      have hd : 128 ≤ d := by omega
      simp only [derMagnitude, if_pos rfl]
      refine ⟨by simp, ?_, by simp, by simp, by simp [needsLeadingZero, hd]⟩
      cases rest with
      | nil => trivial
      | cons e r => show d ≠ 0; omega
    · simp only [derMagnitude, if_neg hb0]
      have : ¬ 128 ≤ b := by omega
      exact ⟨by simp, hb0, trivial, Nat.le_refl _, by simp [needsLeadingZero, this]⟩

theorem derMagnitude_Bytes {c : List Nat} (h : Bytes c) : Bytes (derMagnitude c) := by
  match c with
  | [] => exact h
  | [b] => exact h
  | b :: d :: rest =>
    simp only [derMagnitude]
    split
    · exact (Bytes_cons.mp h).2
    · exact h

/-! ### the crate's glue -/

theorem uintFromUintRef_fits {n : Nat} {r : List Nat} (h : r.length ≤ 8 * n) :
    uintFromUintRef n r = .ok (toLimbs n (beVal r)) := by
  unfold uintFromUintRef copyIntoTail
  simp only [List.length_replicate]
  rw [if_neg (by omega), if_pos ⟨by omega, by omega⟩]
  simp only [List.take_replicate, beVal_zeros_append]

theorem uintFromUintRef_oversize {n : Nat} {r : List Nat} (h : 8 * n < r.length) :
    uintFromUintRef n r = .err := by
  unfold uintFromUintRef
  simp only [List.length_replicate]
  rw [if_pos h]

theorem uintFromUintRef_ne_panic (n : Nat) (r : List Nat) : uintFromUintRef n r ≠ .panic := by
  by_cases h : r.length ≤ 8 * n
  · rw [uintFromUintRef_fits h]; intro e; cases e
  · rw [uintFromUintRef_oversize (by omega)]; intro e; cases e

theorem derDecodeValue_ne_panic (n : Nat) (c : List Nat) (hlen : Nat) : derDecodeValue n c hlen ≠ .panic := by
  unfold derDecodeValue
  split
  · intro e; cases e
  · exact uintFromUintRef_ne_panic _ _

/-! ### the decoder `from_der` -/

/-- what `from_der` does once header and content have been recognised -/
def derAfterHeader (n : Nat) (c tail : List Nat) : Dec :=
  match uintFromUintRef n (derMagnitude c) with
  | .ok v => if tail.isEmpty then .ok v else .err
  | r => r

theorem derDecodeValue_canon {n : Nat} {c : List Nat} (hc : DerCanon c) (hl : c.length ≤ derMaxLen) :
    derDecodeValue n c c.length = uintFromUintRef n (derMagnitude c) := by
  unfold derDecodeValue
  rw [(uintRefDecodeValue_some_iff c c.length (derMagnitude c)).mpr ⟨rfl, hl, hc, rfl⟩]

theorem derFromDer_cons (n t : Nat) (r1 : List Nat) :
    derFromDer n (t :: r1) =
      if derMaxLen < (t :: r1).length then .err else
      match derLengthDecode r1 with
      | none => .err
      | some (len, r2) =>
        if t ≠ 2 then .err
        else if r2.length < len then .err
        else
          match derDecodeValue n (r2.take len) len with
          | .ok v => if (r2.drop len).isEmpty then .ok v else .err
          | r => r := rfl

/-- on `02 ‖ minimal length ‖ canonical content ‖ tail` the decoder reaches the crate's glue -/
theorem derFromDer_form {n : Nat} {c tail : List Nat} (hc : DerCanon c)
    (hl : (2 :: (derLengthEncode c.length ++ (c ++ tail))).length ≤ derMaxLen) :
    derFromDer n (2 :: (derLengthEncode c.length ++ (c ++ tail))) = derAfterHeader n c tail := by
  have hcl : c.length ≤ derMaxLen := by
    simp only [List.length_cons, List.length_append] at hl; omega
  rw [derFromDer_cons, if_neg (by omega), derLengthDecode_encode hcl]
  simp only [ne_eq, not_true_eq_false, if_false]
  rw [if_neg (by simp), List.take_left' rfl, List.drop_left' rfl, derDecodeValue_canon hc hcl]
  rfl

/-- anything that is not rejected has the shape `02 ‖ minimal length ‖ canonical content ‖ tail` -/
theorem derFromDer_not_err {n : Nat} {bs : List Nat} (hb : Bytes bs) (h : derFromDer n bs ≠ .err) :
    ∃ c tail, bs = 2 :: (derLengthEncode c.length ++ (c ++ tail)) ∧ bs.length ≤ derMaxLen ∧ DerCanon c := by
  cases bs with
  | nil => exact absurd (by simp [derFromDer]) h
  | cons t r1 =>
    have ⟨_, hr1⟩ := Bytes_cons.mp hb
    rw [derFromDer_cons] at h
    by_cases h0 : derMaxLen < (t :: r1).length
    · rw [if_pos h0] at h; exact absurd rfl h
    · rw [if_neg h0] at h
      cases hd : derLengthDecode r1 with
      | none => rw [hd] at h; exact absurd rfl h
      | some p =>
        obtain ⟨len, r2⟩ := p
        rw [hd] at h
        simp only at h
        obtain ⟨hlen, e1⟩ := derLengthDecode_some hr1 hd
        by_cases ht : t ≠ 2
        · rw [if_pos ht] at h; exact absurd rfl h
        · rw [if_neg ht] at h
          by_cases h2 : r2.length < len
          · rw [if_pos h2] at h; exact absurd rfl h
          · rw [if_neg h2] at h
            cases hv : uintRefDecodeValue (r2.take len) len with
            | none =>
              simp only [derDecodeValue, hv] at h
              exact absurd rfl h
            | some r =>
              obtain ⟨g1, _, g3, _⟩ := (uintRefDecodeValue_some_iff _ _ _).mp hv
              refine ⟨r2.take len, r2.drop len, ?_, Nat.not_lt.mp h0, g3⟩
              have ht2 : t = 2 := Decidable.not_not.mp ht
              rw [ht2, e1, List.take_append_drop, ← g1]

/-! ### the encoder -/

/-- the content octets the encoder writes: stripped magnitude, `0x00` pad iff its top bit is set -/
def derContent (n : Nat) (a : List Nat) : List Nat :=
  (if needsLeadingZero (stripLeadingZeroes (beBytes (8 * n) (val a))) then [0] else []) ++
    stripLeadingZeroes (beBytes (8 * n) (val a))

theorem derContent_length (n : Nat) (a : List Nat) :
    (derContent n a).length =
      (stripLeadingZeroes (beBytes (8 * n) (val a))).length + derPad (stripLeadingZeroes (beBytes (8 * n) (val a))) := by
  unfold derContent derPad
  split <;> simp [Nat.add_comm]

theorem derUintEncodedLen_strip (arr : List Nat) :
    derUintEncodedLen (stripLeadingZeroes arr) =
      if (stripLeadingZeroes arr).length + derPad (stripLeadingZeroes arr) ≤ derMaxLen
      then some ((stripLeadingZeroes arr).length + derPad (stripLeadingZeroes arr)) else none := by
  unfold derUintEncodedLen derLenAdd derPad
  rw [strip_idem]
  by_cases h1 : (stripLeadingZeroes arr).length ≤ derMaxLen
  · rw [if_pos h1]
  · rw [if_neg h1, if_neg (by omega)]

theorem derValue_spec (n : Nat) (a : List Nat) :
    derValueLen n a = (if (derContent n a).length ≤ derMaxLen then some (derContent n a).length else none) ∧
    derEncodeValue n a = (if (derContent n a).length ≤ derMaxLen then some (derContent n a) else none) := by
  have hlen := derContent_length n a
  unfold derValueLen derEncodeValue uintRefNew
  by_cases h1 : (stripLeadingZeroes (beBytes (8 * n) (val a))).length ≤ derMaxLen
  · simp only [if_pos h1, derUintEncodedLen_strip, ← hlen]
    by_cases h2 : (derContent n a).length ≤ derMaxLen
    · simp only [if_pos h2, true_and]
      congr 1
      unfold derContent
      by_cases h3 : needsLeadingZero (stripLeadingZeroes (beBytes (8 * n) (val a))) = true <;> simp [h3]
    · simp only [if_neg h2, and_self]
  · have h2 : ¬ (derContent n a).length ≤ derMaxLen := by omega
    simp only [if_neg h1, if_neg h2, and_self]

/-- `to_der` writes `02 ‖ minimal length ‖ content` whenever the total fits `Length::MAX` -/
theorem derToDer_some_iff (n : Nat) (a bs : List Nat) :
    derToDer n a = some bs ↔
      bs = 2 :: (derLengthEncode (derContent n a).length ++ derContent n a) ∧ bs.length ≤ derMaxLen := by
  obtain ⟨e1, e2⟩ := derValue_spec n a
  unfold derToDer derEncodedLen derEncode
  rw [e1, e2]
  by_cases h1 : (derContent n a).length ≤ derMaxLen
  · simp only [if_pos h1, derLengthEncode_length h1, derLenAdd]
    have h5 := derLengthEncode_length_le h1
    by_cases h2 : 1 + (derLengthEncode (derContent n a).length).length ≤ derMaxLen
    · simp only [if_pos h2]
      by_cases h3 : 1 + (derLengthEncode (derContent n a).length).length + (derContent n a).length ≤ derMaxLen
      · simp only [if_pos h3, List.length_cons, List.length_append]
        rw [if_pos (by omega)]
        constructor
        · intro e
          have := Option.some.inj e
          subst this
          refine ⟨rfl, ?_⟩
          simp only [List.length_cons, List.length_append]; omega
        · intro e; rw [e.1]; rfl
      · simp only [if_neg h3]
        constructor
        · intro e; cases e
        · intro e
          have := e.2
          rw [e.1] at this
          simp only [List.length_cons, List.length_append] at this
          omega
    · rw [derMaxLen_def] at h2; omega
  · simp only [if_neg h1]
    constructor
    · intro e; cases e
    · intro e
      have := e.2
      rw [e.1] at this
      simp only [List.length_cons, List.length_append] at this
      omega

theorem val_lt_256 {n : Nat} {a : List Nat} (ha : WF a) (hl : a.length = n) : val a < 256 ^ (8 * n) := by
  have := val_lt ha
  rw [hl, Bpow_eq_256] at this
  exact this

/-- the content the encoder writes is canonical and denotes the value -/
theorem derContent_spec {n : Nat} (hn : 0 < n) (a : List Nat) :
    DerCanon (derContent n a) ∧ Bytes (derContent n a) ∧
    derMagnitude (derContent n a) = stripLeadingZeroes (beBytes (8 * n) (val a)) ∧
    (derContent n a).length ≤ 8 * n + 1 := by
  have hne : beBytes (8 * n) (val a) ≠ [] := by
    intro h
    have := congrArg List.length h
    simp at this; omega
  obtain ⟨hN, hne2, _⟩ := strip_spec (beBytes (8 * n) (val a))
  have hne2 := hne2 hne
  have hB := strip_Bytes (beBytes_Bytes (8 * n) (val a))
  have hL := strip_length_le (beBytes (8 * n) (val a))
  rw [beBytes_length] at hL
  have hlen := derContent_length n a
  unfold derContent derPad at *
  generalize stripLeadingZeroes (beBytes (8 * n) (val a)) = r at *
  match r, hne2, hN with
  | [b], _, _ =>
    have hb256 := (Bytes_cons.mp hB).1
    by_cases hb : 128 ≤ b
    · have e : needsLeadingZero [b] = true := by simp [needsLeadingZero, hb]
      simp only [e, if_true]
      refine ⟨?_, Bytes_cons.mpr ⟨by omega, hB⟩, by simp [derMagnitude], by simp; omega⟩
      show 0 < 128 ∧ ¬(0 = 0 ∧ b < 128)
      omega
    · have e : needsLeadingZero [b] = false := by simp [needsLeadingZero, hb]
      simp only [e]
      refine ⟨?_, hB, by simp [derMagnitude], by simp⟩
      show b < 128
      omega
  | b :: d :: rest, _, hN =>
    have hb0 : b ≠ 0 := hN
    have hb256 := (Bytes_cons.mp hB).1
    simp only [List.length_cons] at hL
    by_cases hb : 128 ≤ b
    · have e : needsLeadingZero (b :: d :: rest) = true := by simp [needsLeadingZero, hb]
      simp only [e, if_true]
      refine ⟨?_, Bytes_cons.mpr ⟨by omega, hB⟩, by simp [derMagnitude], by simp; omega⟩
      show 0 < 128 ∧ ¬(0 = 0 ∧ b < 128)
      omega
    · have e : needsLeadingZero (b :: d :: rest) = false := by simp [needsLeadingZero, hb]
      simp only [e]
      refine ⟨?_, hB, by simp [derMagnitude, hb0], by simp; omega⟩
      show b < 128 ∧ ¬(b = 0 ∧ d < 128)
      omega

/-- conversely every canonical content that fits is what the encoder writes for its value -/
theorem derContent_of_canon {n : Nat} {c : List Nat} (hc : DerCanon c) (hb : Bytes c)
    (hfit : (derMagnitude c).length ≤ 8 * n) : derContent n (toLimbs n (beVal c)) = c := by
  obtain ⟨m1, m2, m3, _, m5⟩ := derMagnitude_spec hc
  have hmB := derMagnitude_Bytes hb
  have hv : val (toLimbs n (beVal c)) = beVal (derMagnitude c) := by
    rw [val_toLimbs, Bpow_eq_256, m3]
    apply Nat.mod_eq_of_lt
    rw [← m3]
    exact Nat.lt_of_lt_of_le (beVal_lt hmB) (Nat.pow_le_pow_right (by decide) hfit)
  unfold derContent
  rw [hv, beBytes_eq_zeros_append hmB hfit, strip_zeros_append m1 m2]
  exact m5.symm

end CB.Der
