/-
  CB.Lemmas.GenBitsRedc — what ONE ROUND of each translated loop of `montgomery_reduction_inner` is, and what
  `montgomery_reduction_inner` / `montgomery_reduction` are around the loops (CB/Gen/Modular.lean, namespace
  CB.Gen.Modular.Reduction, regenerated from src/modular/reduction.rs on every run by tools/translate.py).

  The Rust function works on `&mut` slices with three `while` loops, two of them nested in the third and sharing the counter
  `j`; the translation returns the new slices with the result, each loop is a recursive auxiliary definition over a fuel
  argument that re-tests the loop condition every round and returns the final counter in front of its state
  (`…_loop2`: `while j < nlimbs - i` on `lower`, `…_loop3`: `while j < nlimbs` on `upper`, `…_loop1`: the outer loop).
  As in GenBitsChains*.lean this is the only file that reads that generated text (`rw [..loopN]`, `simp only [gen_defs]`,
  words compared by `bv_decide` through `chain_congr`).  The inductions are in CB/Lemmas/GenRedc.lean (no `bv_decide`).

  `bv_decide` file: its name matches `*Bits*`.
-/
import CB.Gen.Modular
import CB.Lemmas.GenBitsModular
import CB.Lemmas.GenBitsMul
import Std.Tactic.BVDecide
namespace CB.GenBits
open CB.Gen
open CB.Gen.Modular

theorem wmul_toNat (x y : BitVec 64) : wmul x.toNat y.toNat = (x * y).toNat := by
  simp only [wmul, BitVec.toNat_mul, B_def]

/-! ## first inner loop: `while j < nlimbs - i { (new_limb, carry) = lower[i + j].mac(u, modulus[j], carry); lower[i + j] = new_limb; j += 1 }` -/

theorem redc_loop2_zero (ms : List (BitVec 64)) (n i : Nat) (u : BitVec 64) (j : Nat) (lower : List (BitVec 64))
    (c : BitVec 64) : Reduction.montgomery_reduction_inner_loop2 ms n i u 0 j lower c = (j, lower, c) := by
  rw [Reduction.montgomery_reduction_inner_loop2]

theorem redc_loop2_succ (ms : List (BitVec 64)) (n i : Nat) (u : BitVec 64) (f j : Nat) (lower : List (BitVec 64))
    (c : BitVec 64) (h : j < n - i) :
    Reduction.montgomery_reduction_inner_loop2 ms n i u (f + 1) j lower c =
      Reduction.montgomery_reduction_inner_loop2 ms n i u f (j + 1)
        (lower.set (i + j) (Prim.mac (lower.getD (i + j) 0#64) u (ms.getD j 0#64) c).1)
        (Prim.mac (lower.getD (i + j) 0#64) u (ms.getD j 0#64) c).2 := by
  rw [Reduction.montgomery_reduction_inner_loop2, if_pos h] <;> round_eq

/-! ## second inner loop: `while j < nlimbs { (new_limb, carry) = upper[i + j - nlimbs].mac(u, modulus[j], carry); .. }` -/

theorem redc_loop3_zero (ms : List (BitVec 64)) (n i : Nat) (u : BitVec 64) (j : Nat) (upper : List (BitVec 64))
    (c : BitVec 64) : Reduction.montgomery_reduction_inner_loop3 ms n i u 0 j upper c = (j, upper, c) := by
  rw [Reduction.montgomery_reduction_inner_loop3]

theorem redc_loop3_succ (ms : List (BitVec 64)) (n i : Nat) (u : BitVec 64) (f j : Nat) (upper : List (BitVec 64))
    (c : BitVec 64) (h : j < n) :
    Reduction.montgomery_reduction_inner_loop3 ms n i u (f + 1) j upper c =
      Reduction.montgomery_reduction_inner_loop3 ms n i u f (j + 1)
        (upper.set (i + j - n) (Prim.mac (upper.getD (i + j - n) 0#64) u (ms.getD j 0#64) c).1)
        (Prim.mac (upper.getD (i + j - n) 0#64) u (ms.getD j 0#64) c).2 := by
  rw [Reduction.montgomery_reduction_inner_loop3, if_pos h] <;> round_eq

/-! ## the outer loop -/

theorem redc_loop1_zero (ms : List (BitVec 64)) (k : BitVec 64) (n i : Nat) (upper lower : List (BitVec 64))
    (mc : BitVec 64) : Reduction.montgomery_reduction_inner_loop1 ms k n 0 i upper lower mc = (i, upper, lower, mc) := by
  rw [Reduction.montgomery_reduction_inner_loop1]

/-- one round of the outer loop: `u = lower[i] * mod_neg_inv`, `carry = lower[i].mac(u, modulus[0], 0).1`, the first inner
    loop from `j = 1`, the second from where the first stopped, `(upper[i], meta_carry) = upper[i].adc(carry, meta_carry)` -/
theorem redc_loop1_succ (ms : List (BitVec 64)) (k : BitVec 64) (n f i : Nat) (upper lower : List (BitVec 64))
    (mc : BitVec 64) (h : i < n) :
    Reduction.montgomery_reduction_inner_loop1 ms k n (f + 1) i upper lower mc =
      Reduction.montgomery_reduction_inner_loop1 ms k n f (i + 1)
        ((Reduction.montgomery_reduction_inner_loop3 ms n i (lower.getD i 0#64 * k)
            (n - (Reduction.montgomery_reduction_inner_loop2 ms n i (lower.getD i 0#64 * k) (n - i - 1) 1 lower
              (Prim.mac (lower.getD i 0#64) (lower.getD i 0#64 * k) (ms.getD 0 0#64) 0#64).2).1)
            (Reduction.montgomery_reduction_inner_loop2 ms n i (lower.getD i 0#64 * k) (n - i - 1) 1 lower
              (Prim.mac (lower.getD i 0#64) (lower.getD i 0#64 * k) (ms.getD 0 0#64) 0#64).2).1
            upper
            (Reduction.montgomery_reduction_inner_loop2 ms n i (lower.getD i 0#64 * k) (n - i - 1) 1 lower
              (Prim.mac (lower.getD i 0#64) (lower.getD i 0#64 * k) (ms.getD 0 0#64) 0#64).2).2.2).2.1.set i
          (Prim.adc
            ((Reduction.montgomery_reduction_inner_loop3 ms n i (lower.getD i 0#64 * k)
              (n - (Reduction.montgomery_reduction_inner_loop2 ms n i (lower.getD i 0#64 * k) (n - i - 1) 1 lower
                (Prim.mac (lower.getD i 0#64) (lower.getD i 0#64 * k) (ms.getD 0 0#64) 0#64).2).1)
              (Reduction.montgomery_reduction_inner_loop2 ms n i (lower.getD i 0#64 * k) (n - i - 1) 1 lower
                (Prim.mac (lower.getD i 0#64) (lower.getD i 0#64 * k) (ms.getD 0 0#64) 0#64).2).1
              upper
              (Reduction.montgomery_reduction_inner_loop2 ms n i (lower.getD i 0#64 * k) (n - i - 1) 1 lower
                (Prim.mac (lower.getD i 0#64) (lower.getD i 0#64 * k) (ms.getD 0 0#64) 0#64).2).2.2).2.1.getD i 0#64)
            (Reduction.montgomery_reduction_inner_loop3 ms n i (lower.getD i 0#64 * k)
              (n - (Reduction.montgomery_reduction_inner_loop2 ms n i (lower.getD i 0#64 * k) (n - i - 1) 1 lower
                (Prim.mac (lower.getD i 0#64) (lower.getD i 0#64 * k) (ms.getD 0 0#64) 0#64).2).1)
              (Reduction.montgomery_reduction_inner_loop2 ms n i (lower.getD i 0#64 * k) (n - i - 1) 1 lower
                (Prim.mac (lower.getD i 0#64) (lower.getD i 0#64 * k) (ms.getD 0 0#64) 0#64).2).1
              upper
              (Reduction.montgomery_reduction_inner_loop2 ms n i (lower.getD i 0#64 * k) (n - i - 1) 1 lower
                (Prim.mac (lower.getD i 0#64) (lower.getD i 0#64 * k) (ms.getD 0 0#64) 0#64).2).2.2).2.2
            mc).1)
        (Reduction.montgomery_reduction_inner_loop2 ms n i (lower.getD i 0#64 * k) (n - i - 1) 1 lower
          (Prim.mac (lower.getD i 0#64) (lower.getD i 0#64 * k) (ms.getD 0 0#64) 0#64).2).2.1
        (Prim.adc
          ((Reduction.montgomery_reduction_inner_loop3 ms n i (lower.getD i 0#64 * k)
            (n - (Reduction.montgomery_reduction_inner_loop2 ms n i (lower.getD i 0#64 * k) (n - i - 1) 1 lower
              (Prim.mac (lower.getD i 0#64) (lower.getD i 0#64 * k) (ms.getD 0 0#64) 0#64).2).1)
            (Reduction.montgomery_reduction_inner_loop2 ms n i (lower.getD i 0#64 * k) (n - i - 1) 1 lower
              (Prim.mac (lower.getD i 0#64) (lower.getD i 0#64 * k) (ms.getD 0 0#64) 0#64).2).1
            upper
            (Reduction.montgomery_reduction_inner_loop2 ms n i (lower.getD i 0#64 * k) (n - i - 1) 1 lower
              (Prim.mac (lower.getD i 0#64) (lower.getD i 0#64 * k) (ms.getD 0 0#64) 0#64).2).2.2).2.1.getD i 0#64)
          (Reduction.montgomery_reduction_inner_loop3 ms n i (lower.getD i 0#64 * k)
            (n - (Reduction.montgomery_reduction_inner_loop2 ms n i (lower.getD i 0#64 * k) (n - i - 1) 1 lower
              (Prim.mac (lower.getD i 0#64) (lower.getD i 0#64 * k) (ms.getD 0 0#64) 0#64).2).1)
            (Reduction.montgomery_reduction_inner_loop2 ms n i (lower.getD i 0#64 * k) (n - i - 1) 1 lower
              (Prim.mac (lower.getD i 0#64) (lower.getD i 0#64 * k) (ms.getD 0 0#64) 0#64).2).1
            upper
            (Reduction.montgomery_reduction_inner_loop2 ms n i (lower.getD i 0#64 * k) (n - i - 1) 1 lower
              (Prim.mac (lower.getD i 0#64) (lower.getD i 0#64 * k) (ms.getD 0 0#64) 0#64).2).2.2).2.2
          mc).2 := by
  rw [Reduction.montgomery_reduction_inner_loop1, if_pos h] <;> round_eq

theorem redc_inner_eq_loop (L : Nat) (upper lower ms : List (BitVec 64)) (k : BitVec 64) :
    Reduction.montgomery_reduction_inner L upper lower ms k =
      ((Reduction.montgomery_reduction_inner_loop1 ms k ms.length (ms.length - 0) 0 upper lower 0#64).2.1,
       (Reduction.montgomery_reduction_inner_loop1 ms k ms.length (ms.length - 0) 0 upper lower 0#64).2.2.1,
       (Reduction.montgomery_reduction_inner_loop1 ms k ms.length (ms.length - 0) 0 upper lower 0#64).2.2.2) := by
  round_eq

theorem montgomery_reduction_eq (L : Nat) (lo hi ms : List (BitVec 64)) (k : BitVec 64) :
    Reduction.montgomery_reduction L (lo, hi) ms k =
      Modular.Uint.sub_mod_with_carry L (Reduction.montgomery_reduction_inner L hi lo ms k).1
        (Reduction.montgomery_reduction_inner L hi lo ms k).2.2 ms ms := by
  round_eq

end CB.GenBits
