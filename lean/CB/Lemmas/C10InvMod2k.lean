/-
  CB.Lemmas.C10InvMod2k — the bit-serial inversion modulo 2^k (CB.Model.InvMod2k):
  loop invariant `a·x + 2^i·b ≡ 1 (mod 2^w)`, `x < 2^i`; agreement of the three variants.
-/
import CB.Model.InvMod2k
import Mathlib.Data.Nat.Bitwise
import Mathlib.Data.Nat.ModEq
import Mathlib.Tactic.Ring
import Mathlib.Tactic.Linarith
namespace CB.InvMod2k

theorem and_two_pow_of_lt {x i : Nat} (h : x < 2 ^ i) : x &&& 2 ^ i = 0 := by
  rw [Nat.and_two_pow]; simp [Nat.testBit_lt_two_pow h]

/-- on a value below `2^i`, storing bit `i` is adding it -/
theorem setBit_of_lt {x i : Nat} (h : x < 2 ^ i) (v : Bool) :
    setBit x i v = x + (if v then 2 ^ i else 0) := by
  unfold setBit
  cases v
  · simp [and_two_pow_of_lt h]
  · simp only [if_true]
    have := Nat.two_pow_add_eq_or_of_lt h 1
    rw [Nat.mul_one] at this
    rw [Nat.lor_comm, ← this, Nat.add_comm]

theorem setBit_lt {x i : Nat} (h : x < 2 ^ i) (v : Bool) : setBit x i v < 2 ^ (i + 1) := by
  rw [setBit_of_lt h, Nat.pow_succ]
  split <;> omega

/-- the common `b` update: `select(b, b - a, x_i).shr1()` -/
def stepB (w a b : Nat) : Nat := (if b % 2 ≠ 0 then wsubW w b a else b) / 2
/-- the common `x` update -/
def stepX (x i b : Nat) : Nat := x + (if b % 2 ≠ 0 then 2 ^ i else 0)

theorem wsubW_lt (w b a : Nat) : wsubW w b a < 2 ^ w := Nat.mod_lt _ (Nat.two_pow_pos w)

theorem wsubW_modEq {w a b : Nat} : wsubW w b a + a ≡ b [MOD 2 ^ w] := by
  unfold wsubW
  have ha : a % 2 ^ w < 2 ^ w := Nat.mod_lt _ (Nat.two_pow_pos w)
  have h1 : (b + 2 ^ w - a % 2 ^ w) % 2 ^ w + a ≡ (b + 2 ^ w - a % 2 ^ w) + a % 2 ^ w [MOD 2 ^ w] :=
    Nat.ModEq.add (Nat.mod_modEq _ _) (Nat.mod_modEq _ _).symm
  have h2 : (b + 2 ^ w - a % 2 ^ w) + a % 2 ^ w = b + 2 ^ w := by omega
  rw [h2] at h1
  exact h1.trans (by unfold Nat.ModEq; exact Nat.add_mod_right b (2 ^ w))

theorem stepB_lt {w a b : Nat} (hb : b < 2 ^ w) : stepB w a b < 2 ^ w := by
  unfold stepB
  have := wsubW_lt w b a
  split <;> omega

/-- The invariant step: with `a` odd and `i < w`. -/
theorem step_inv {w a i x b : Nat} (ha : a % 2 = 1) (hw : 0 < w)
    (h : a * x + 2 ^ i * b ≡ 1 [MOD 2 ^ w]) :
    a * stepX x i b + 2 ^ (i + 1) * stepB w a b ≡ 1 [MOD 2 ^ w] := by
  unfold stepX stepB
  by_cases hodd : b % 2 ≠ 0
  · rw [if_pos hodd, if_pos hodd]
    have hb1 : b % 2 = 1 := by omega
    have hm := wsubW_modEq (a := a) (b := b) (w := w)
    -- `b - a` is even
    have heven : wsubW w b a % 2 = 0 := by
      have h2 : (2 : Nat) ∣ 2 ^ w := dvd_pow_self 2 (by omega)
      have := (Nat.ModEq.of_dvd h2 hm)
      have e : (wsubW w b a + a) % 2 = b % 2 := this
      omega
    have hdiv : 2 * (wsubW w b a / 2) = wsubW w b a := by omega
    have e : a * (x + 2 ^ i) + 2 ^ (i + 1) * (wsubW w b a / 2)
        = a * x + 2 ^ i * (wsubW w b a + a) := by
      rw [pow_succ, mul_assoc, hdiv]; ring
    rw [e]
    exact (Nat.ModEq.add_left _ (Nat.ModEq.mul_left _ hm)).trans h
  · rw [if_neg hodd, if_neg hodd, Nat.add_zero]
    have hdiv : 2 * (b / 2) = b := by omega
    have e : a * x + 2 ^ (i + 1) * (b / 2) = a * x + 2 ^ i * b := by
      rw [pow_succ, mul_assoc, hdiv]
    rw [e]; exact h

/-! ### the three loops are the same recursion -/

/-- reference recursion on `(x, b)` -/
def refLoop (w a : Nat) : Nat → Nat → Nat → Nat → Nat × Nat
  | 0, _, x, b => (x, b)
  | fuel + 1, i, x, b => refLoop w a fuel (i + 1) (stepX x i b) (stepB w a b)

theorem stepX_lt {x i b : Nat} (h : x < 2 ^ i) : stepX x i b < 2 ^ (i + 1) := by
  unfold stepX; rw [Nat.pow_succ]; split <;> omega

theorem fullLoop_eq (w a : Nat) : ∀ fuel i x b, x < 2 ^ i →
    fullLoop w a fuel i x b = (refLoop w a fuel i x b).1 := by
  intro fuel
  induction fuel with
  | zero => intros; rfl
  | succ n ih =>
    intro i x b hx
    have e : fullLoop w a (n + 1) i x b =
        fullLoop w a n (i + 1) (setBit x i (decide (b % 2 ≠ 0)))
          ((if b % 2 ≠ 0 then wsubW w b a else b) / 2) := rfl
    rw [e, setBit_of_lt hx]
    have : (x + if (decide (b % 2 ≠ 0)) = true then 2 ^ i else 0) = stepX x i b := by
      unfold stepX; simp
    rw [this]
    exact ih _ _ _ (stepX_lt hx)

theorem refLoop_inv {w a : Nat} (ha : a % 2 = 1) (hw : 0 < w) : ∀ fuel i x b,
    x < 2 ^ i → b < 2 ^ w → a * x + 2 ^ i * b ≡ 1 [MOD 2 ^ w] →
    (refLoop w a fuel i x b).1 < 2 ^ (i + fuel) ∧ (refLoop w a fuel i x b).2 < 2 ^ w ∧
    a * (refLoop w a fuel i x b).1 + 2 ^ (i + fuel) * (refLoop w a fuel i x b).2 ≡ 1 [MOD 2 ^ w] := by
  intro fuel
  induction fuel with
  | zero => intro i x b hx hb h; exact ⟨hx, hb, h⟩
  | succ n ih =>
    intro i x b hx hb h
    have := ih (i + 1) _ _ (stepX_lt (b := b) hx) (stepB_lt (a := a) hb) (step_inv ha hw h)
    have e : i + 1 + n = i + (n + 1) := by omega
    rw [e] at this
    exact this

theorem refLoop_x_lt (w a : Nat) : ∀ fuel i x b, x < 2 ^ i →
    (refLoop w a fuel i x b).1 < 2 ^ (i + fuel) := by
  intro fuel
  induction fuel with
  | zero => intro i x b hx; exact hx
  | succ n ih =>
    intro i x b hx
    have := ih (i + 1) _ (stepB w a b) (stepX_lt (b := b) hx)
    have e : i + 1 + n = i + (n + 1) := by omega
    rw [e] at this; exact this

/-- `inv_mod2k_vartime` loop = the reference recursion as long as the shift stays in range -/
theorem vtLoop_eq (w a : Nat) : ∀ fuel i x b, x < 2 ^ i → i + fuel ≤ w →
    vtLoop w a fuel i x b = some (refLoop w a fuel i x b).1 := by
  intro fuel
  induction fuel with
  | zero => intros; rfl
  | succ n ih =>
    intro i x b hx hk
    have hi : i < w := by omega
    have hsh : shlVartime w (b % 2) i = some ((b % 2 * 2 ^ i) % 2 ^ w) := by
      unfold shlVartime; simp [hi]
    have e : vtLoop w a (n + 1) i x b =
        match shlVartime w (b % 2) i with
        | none => vtLoop w a n (i + 1) (x ||| 0) ((if b % 2 ≠ 0 then wsubW w b a else b) / 2)
        | some sh => vtLoop w a n (i + 1) (x ||| sh) ((if b % 2 ≠ 0 then wsubW w b a else b) / 2) := rfl
    rw [e, hsh]
    simp only
    have hpow : 2 ^ i < 2 ^ w := Nat.pow_lt_pow_right (by omega) hi
    have hx' : x ||| (b % 2 * 2 ^ i) % 2 ^ w = stepX x i b := by
      unfold stepX
      rcases Nat.mod_two_eq_zero_or_one b with h0 | h1
      · simp [h0]
      · have : (1 * 2 ^ i) % 2 ^ w = 2 ^ i := by rw [Nat.one_mul]; exact Nat.mod_eq_of_lt hpow
        rw [h1, this]
        have := setBit_of_lt hx true
        unfold setBit at this
        simpa using this
    rw [hx']
    exact ih _ _ _ (stepX_lt hx) (by omega)

/-- boxed `inv_mod2k_vartime` loop -/
theorem vtLoopBoxed_eq (w a : Nat) : ∀ fuel i x b, x < 2 ^ i → i + fuel ≤ w →
    vtLoopBoxed w a fuel i x b = (refLoop w a fuel i x b).1 := by
  intro fuel
  induction fuel with
  | zero => intros; rfl
  | succ n ih =>
    intro i x b hx hk
    have hi : i < w := by omega
    have e : vtLoopBoxed w a (n + 1) i x b =
        vtLoopBoxed w a n (i + 1) (if i < w then setBit x i (decide (b % 2 ≠ 0)) else x)
          ((if b % 2 ≠ 0 then wsubW w b a else b) / 2) := rfl
    rw [e, if_pos hi, setBit_of_lt hx]
    have : (x + if (decide (b % 2 ≠ 0)) = true then 2 ^ i else 0) = stepX x i b := by
      unfold stepX; simp
    rw [this]
    exact ih _ _ _ (stepX_lt hx) (by omega)

/-- the constant-time loop: real iterations while `i < k`, then dummy iterations that keep `x` -/
theorem ctLoop_eq (w a k : Nat) : ∀ fuel i x b, x < 2 ^ (min i k) →
    ctLoop w a k fuel i x b = (refLoop w a (min (i + fuel) k - min i k) i x b).1 := by
  intro fuel
  induction fuel with
  | zero => intro i x b _; simp [ctLoop, refLoop]
  | succ n ih =>
    intro i x b hx
    have e : ctLoop w a k (n + 1) i x b =
        ctLoop w a k n (i + 1) (setBit x i (decide (b % 2 ≠ 0) && decide (i < k)))
          ((if b % 2 ≠ 0 then wsubW w b a else b) / 2) := rfl
    rw [e]
    by_cases hik : i < k
    · have hmin : min i k = i := by omega
      rw [hmin] at hx
      rw [setBit_of_lt hx]
      have hxe : (x + if (decide (b % 2 ≠ 0) && decide (i < k)) = true then 2 ^ i else 0) = stepX x i b := by
        unfold stepX; simp [hik]
      rw [hxe]
      have hx1 : stepX x i b < 2 ^ (min (i + 1) k) := by
        have : min (i + 1) k = i + 1 := by omega
        rw [this]; exact stepX_lt hx
      rw [ih _ _ _ hx1]
      have e1 : min (i + (n + 1)) k - min i k = (min (i + 1 + n) k - min (i + 1) k) + 1 := by omega
      rw [e1]
      rfl
    · have hmin : min i k = k := by omega
      rw [hmin] at hx
      have hxi : x < 2 ^ i := lt_of_lt_of_le hx (Nat.pow_le_pow_right (by omega) (by omega))
      rw [setBit_of_lt hxi]
      have hxe : (x + if (decide (b % 2 ≠ 0) && decide (i < k)) = true then 2 ^ i else 0) = x := by
        simp [hik]
      rw [hxe]
      have hx1 : x < 2 ^ (min (i + 1) k) := by
        have : min (i + 1) k = k := by omega
        rw [this]; exact hx
      rw [ih _ _ _ hx1]
      have e1 : min (i + (n + 1)) k - min i k = 0 := by omega
      have e2 : min (i + 1 + n) k - min (i + 1) k = 0 := by omega
      rw [e1, e2]
      rfl

end CB.InvMod2k

namespace CB.InvMod2k

/-- all three public loops compute the reference recursion when `k ≤ w` -/
theorem ct_eq_ref {w a k : Nat} (hk : k ≤ w) : (invMod2k w a k).1 = (refLoop w a k 0 0 1).1 := by
  unfold invMod2k
  have := ctLoop_eq w a k w 0 0 1 (by simp)
  simp only [this]
  have e : min (0 + w) k - min 0 k = k := by omega
  rw [e]

theorem ref_spec {w a k : Nat} (hk : k ≤ w) (ha : a % 2 = 1) :
    (refLoop w a k 0 0 1).1 < 2 ^ k ∧ a * (refLoop w a k 0 0 1).1 ≡ 1 [MOD 2 ^ k] := by
  rcases Nat.eq_zero_or_pos k with h0 | hpos
  · subst h0; simp [refLoop, Nat.ModEq, Nat.mod_one]
  · have hw : 0 < w := by omega
    have h1 : (1 : Nat) < 2 ^ w := Nat.one_lt_two_pow (by omega)
    have := refLoop_inv ha hw k 0 0 1 (by simp) h1 (by simp [Nat.ModEq])
    simp only [Nat.zero_add] at this
    refine ⟨this.1, ?_⟩
    have hd : 2 ^ k ∣ 2 ^ w := Nat.pow_dvd_pow 2 hk
    have h2 := Nat.ModEq.of_dvd hd this.2.2
    have h3 : a * (refLoop w a k 0 0 1).1 + 2 ^ k * (refLoop w a k 0 0 1).2 ≡ a * (refLoop w a k 0 0 1).1 [MOD 2 ^ k] := by
      unfold Nat.ModEq; simp
    exact h3.symm.trans h2

/-! ### beyond `k ≤ BITS`: rounds `i ≥ BITS` contribute nothing (since /repo 8dd1192 also in
    `inv_mod2k_vartime`) -/

theorem vtLoop_tail (w a : Nat) : ∀ fuel i x b, w ≤ i → vtLoop w a fuel i x b = some x := by
  intro fuel
  induction fuel with
  | zero => intros; rfl
  | succ n ih =>
    intro i x b hi
    have hsh : shlVartime w (b % 2) i = none := by
      unfold shlVartime; rw [if_neg (by omega)]
    have e : vtLoop w a (n + 1) i x b =
        match shlVartime w (b % 2) i with
        | none => vtLoop w a n (i + 1) (x ||| 0) ((if b % 2 ≠ 0 then wsubW w b a else b) / 2)
        | some sh => vtLoop w a n (i + 1) (x ||| sh) ((if b % 2 ≠ 0 then wsubW w b a else b) / 2) := rfl
    rw [e, hsh]
    simp only [Nat.or_zero]
    exact ih _ _ _ (by omega)

theorem vtLoopBoxed_tail (w a : Nat) : ∀ fuel i x b, w ≤ i → vtLoopBoxed w a fuel i x b = x := by
  intro fuel
  induction fuel with
  | zero => intros; rfl
  | succ n ih =>
    intro i x b hi
    have e : vtLoopBoxed w a (n + 1) i x b =
        vtLoopBoxed w a n (i + 1) (if i < w then setBit x i (decide (b % 2 ≠ 0)) else x)
          ((if b % 2 ≠ 0 then wsubW w b a else b) / 2) := rfl
    rw [e, if_neg (by omega)]
    exact ih _ _ _ (by omega)

/-- splitting the fuel: the first `f1` rounds, then the rest from the reached state -/
theorem vtLoop_split (w a : Nat) : ∀ f1 f2 i x b, x < 2 ^ i → i + f1 ≤ w →
    vtLoop w a (f1 + f2) i x b =
      vtLoop w a f2 (i + f1) (refLoop w a f1 i x b).1 (refLoop w a f1 i x b).2 := by
  intro f1
  induction f1 with
  | zero => intro f2 i x b _ _; simp [refLoop]
  | succ n ih =>
    intro f2 i x b hx hk
    have hi : i < w := by omega
    have hsh : shlVartime w (b % 2) i = some ((b % 2 * 2 ^ i) % 2 ^ w) := by
      unfold shlVartime; simp [hi]
    have efuel : n + 1 + f2 = (n + f2) + 1 := by omega
    rw [efuel]
    have e : vtLoop w a ((n + f2) + 1) i x b =
        match shlVartime w (b % 2) i with
        | none => vtLoop w a (n + f2) (i + 1) (x ||| 0) ((if b % 2 ≠ 0 then wsubW w b a else b) / 2)
        | some sh => vtLoop w a (n + f2) (i + 1) (x ||| sh) ((if b % 2 ≠ 0 then wsubW w b a else b) / 2) := rfl
    rw [e, hsh]
    simp only
    have hpow : 2 ^ i < 2 ^ w := Nat.pow_lt_pow_right (by omega) hi
    have hx' : x ||| (b % 2 * 2 ^ i) % 2 ^ w = stepX x i b := by
      unfold stepX
      rcases Nat.mod_two_eq_zero_or_one b with h0 | h1
      · simp [h0]
      · have : (1 * 2 ^ i) % 2 ^ w = 2 ^ i := by rw [Nat.one_mul]; exact Nat.mod_eq_of_lt hpow
        rw [h1, this]
        have := setBit_of_lt hx true
        unfold setBit at this
        simpa using this
    rw [hx']
    have := ih f2 (i + 1) (stepX x i b) (stepB w a b) (stepX_lt hx) (by omega)
    have e2 : i + 1 + n = i + (n + 1) := by omega
    rw [e2] at this
    exact this

theorem vtLoopBoxed_split (w a : Nat) : ∀ f1 f2 i x b, x < 2 ^ i → i + f1 ≤ w →
    vtLoopBoxed w a (f1 + f2) i x b =
      vtLoopBoxed w a f2 (i + f1) (refLoop w a f1 i x b).1 (refLoop w a f1 i x b).2 := by
  intro f1
  induction f1 with
  | zero => intro f2 i x b _ _; simp [refLoop]
  | succ n ih =>
    intro f2 i x b hx hk
    have hi : i < w := by omega
    have efuel : n + 1 + f2 = (n + f2) + 1 := by omega
    rw [efuel]
    have e : vtLoopBoxed w a ((n + f2) + 1) i x b =
        vtLoopBoxed w a (n + f2) (i + 1) (if i < w then setBit x i (decide (b % 2 ≠ 0)) else x)
          ((if b % 2 ≠ 0 then wsubW w b a else b) / 2) := rfl
    rw [e, if_pos hi, setBit_of_lt hx]
    have hxe : (x + if (decide (b % 2 ≠ 0)) = true then 2 ^ i else 0) = stepX x i b := by
      unfold stepX; simp
    rw [hxe]
    have := ih f2 (i + 1) (stepX x i b) (stepB w a b) (stepX_lt hx) (by omega)
    have e2 : i + 1 + n = i + (n + 1) := by omega
    rw [e2] at this
    exact this

/-- for `k ≥ BITS` all forms return the reference recursion run for `BITS` rounds -/
theorem ct_eq_ref_beyond {w a k : Nat} (hk : w ≤ k) : (invMod2k w a k).1 = (refLoop w a w 0 0 1).1 := by
  unfold invMod2k
  have := ctLoop_eq w a k w 0 0 1 (by simp)
  simp only [this]
  have e : min (0 + w) k - min 0 k = w := by omega
  rw [e]

theorem vt_eq_ref_beyond {w a k : Nat} (hk : w ≤ k) :
    vtLoop w a k 0 0 1 = some (refLoop w a w 0 0 1).1 := by
  obtain ⟨d, rfl⟩ : ∃ d, k = w + d := ⟨k - w, by omega⟩
  rw [vtLoop_split w a w d 0 0 1 (by simp) (by omega)]
  exact vtLoop_tail w a d _ _ _ (by omega)

theorem vtBoxed_eq_ref_beyond {w a k : Nat} (hk : w ≤ k) :
    vtLoopBoxed w a k 0 0 1 = (refLoop w a w 0 0 1).1 := by
  obtain ⟨d, rfl⟩ : ∃ d, k = w + d := ⟨k - w, by omega⟩
  rw [vtLoopBoxed_split w a w d 0 0 1 (by simp) (by omega)]
  exact vtLoopBoxed_tail w a d _ _ _ (by omega)

end CB.InvMod2k
