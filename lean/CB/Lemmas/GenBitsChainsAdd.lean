/-
  CB.Lemmas.GenBitsChainsAdd — one round of the translated loops of `Uint::adc` and `Uint::carrying_neg`
  (CB/Gen/Chains.lean), and the functions around them; see CB/Lemmas/GenBitsChains.lean for the method (that file holds
  the part shared with the comparisons: the `Limb` wrappers and `Uint::sbb`).  Only C04's modules import this file.

  `bv_decide` file: its name matches `*Bits*`.
-/
import CB.Lemmas.GenBitsChains
namespace CB.GenBits
open CB.Gen CB.Gen.Chains

/-! ## `Limb::adc`, `Limb::mac`: the wrappers are the primitives -/

theorem limb_adc_eq (a b c : BitVec 64) : Limb.adc a b c = Prim.adc a b c := by
  round_eq
theorem limb_mac_eq (a b c k : BitVec 64) : Limb.mac a b c k = Prim.mac a b c k := by
  round_eq

/-! ## `Uint::adc` -/

theorem adc_loop_zero (L : Nat) (a b : List (BitVec 64)) (i : Nat) (c : BitVec 64) (limbs : List (BitVec 64)) :
    Uint.adc_loop1 L a b 0 i c limbs = (c, limbs) := by
  rw [Uint.adc_loop1]

/-- one round of the source loop: limb `i` of both operands and the running carry go through `primitives::adc`, the low
    word is stored at position `i`, the high word is the next carry, the counter advances by one -/
theorem adc_loop_succ (L : Nat) (a b : List (BitVec 64)) (n i : Nat) (c : BitVec 64) (limbs : List (BitVec 64))
    (h : i < L) :
    Uint.adc_loop1 L a b (n + 1) i c limbs =
      Uint.adc_loop1 L a b n (i + 1) (Prim.adc (a.getD i 0#64) (b.getD i 0#64) c).2
        (limbs.set i (Prim.adc (a.getD i 0#64) (b.getD i 0#64) c).1) := by
  rw [Uint.adc_loop1, if_pos h] <;> round_eq

/-- the function around the loop: all-zero result array, counter from 0, `LIMBS` rounds; returns (limbs, carry) -/
theorem adc_eq_loop (L : Nat) (a b : List (BitVec 64)) (c : BitVec 64) :
    Uint.adc L a b c = ((Uint.adc_loop1 L a b L 0 c (List.replicate L 0#64)).2,
      (Uint.adc_loop1 L a b L 0 c (List.replicate L 0#64)).1) := by
  round_eq

theorem wrapping_add_eq (L : Nat) (a b : List (BitVec 64)) :
    Uint.wrapping_add L a b = (Uint.adc L a b 0#64).1 := by
  round_eq

/-! ## `Uint::carrying_neg` -/

theorem neg_loop_zero (L : Nat) (a : List (BitVec 64)) (i : Nat) (ret : List (BitVec 64)) (c : BitVec 128) :
    Uint.carrying_neg_loop1 L a 0 i ret c = (ret, c) := by
  rw [Uint.carrying_neg_loop1]

/-- one round: `r = !limb + carry` in the wide word, low word stored at position `i`, high word is the next carry -/
theorem neg_loop_succ (L : Nat) (a : List (BitVec 64)) (n i : Nat) (ret : List (BitVec 64)) (c : BitVec 128)
    (h : i < L) :
    Uint.carrying_neg_loop1 L a (n + 1) i ret c =
      Uint.carrying_neg_loop1 L a n (i + 1)
        (ret.set i (((~~~(a.getD i 0#64)).setWidth 128 + c).setWidth 64))
        (((~~~(a.getD i 0#64)).setWidth 128 + c) >>> 64) := by
  rw [Uint.carrying_neg_loop1, if_pos h] <;> round_eq

theorem carrying_neg_eq_loop (L : Nat) (a : List (BitVec 64)) :
    Uint.carrying_neg L a = ((Uint.carrying_neg_loop1 L a L 0 (List.replicate L 0#64) 1#128).1,
      Choice.from_word_lsb ((Uint.carrying_neg_loop1 L a L 0 (List.replicate L 0#64) 1#128).2.setWidth 64)) := by
  round_eq

theorem wrapping_neg_eq (L : Nat) (a : List (BitVec 64)) :
    Uint.wrapping_neg L a = (Uint.carrying_neg L a).1 := by
  round_eq

/-- the arithmetic of one negation round on `Nat`s (the wide addition does not wrap while the carry is a word) -/
theorem neg_round_toNat (x : BitVec 64) (c : BitVec 128) (hc : c.toNat < 2 ^ 64) :
    ((((~~~x).setWidth 128 + c).setWidth 64).toNat = (wnot x.toNat + c.toNat) % B) ∧
    ((((~~~x).setWidth 128 + c) >>> 64).toNat = (wnot x.toNat + c.toNat) / B) := by
  have hx := x.isLt
  have hn : (~~~x).toNat = 2 ^ 64 - 1 - x.toNat := by
    rw [BitVec.toNat_not]
  simp only [BitVec.toNat_setWidth, BitVec.toNat_add, BitVec.toNat_ushiftRight, Nat.shiftRight_eq_div_pow, hn,
    wnot, B_def, WMAX_def]
  constructor <;> omega

end CB.GenBits
