/-
  CB.Lemmas.C16Hex — the branch-free nibble decoder (complete 256-entry table), the hex byte / string
  decoders with their error accumulator, and hex / binary formatting.
-/
import CB.Lemmas.C16Bytes
namespace CB.Encoding

/-! ### the nibble table: all 256 bytes, checked by the kernel -/

theorem decodeNibble_table_fin : ∀ c : Fin 256,
    decodeNibble c.val = (match hexVal? c.val with | some d => d | none => 65535) := by
  decide +kernel

theorem decodeNibble_table {c : Nat} (h : c < 256) :
    decodeNibble c = (match hexVal? c with | some d => d | none => 65535) :=
  decodeNibble_table_fin ⟨c, h⟩

theorem hexVal?_lt {c d : Nat} (h : hexVal? c = some d) : d < 16 := by
  unfold hexVal? at h
  split at h
  · injection h with h; omega
  · split at h
    · injection h with h; omega
    · split at h
      · injection h with h; omega
      · cases h

/-- combining two nibble results: both valid -/
theorem combine_ok : ∀ h l : Fin 16,
    (((h.val * 16) % 65536) ||| l.val) % 256 = 16 * h.val + l.val ∧
    (((h.val * 16) % 65536) ||| l.val) / 256 = 0 := by decide +kernel
theorem combine_bad_hi : ∀ l : Fin 16, (((65535 * 16) % 65536) ||| l.val) / 256 ≠ 0 := by decide +kernel
theorem combine_bad_lo : ∀ h : Fin 16, (((h.val * 16) % 65536) ||| 65535) / 256 ≠ 0 := by decide +kernel
theorem combine_bad_both : (((65535 * 16) % 65536) ||| 65535) / 256 ≠ 0 := by decide +kernel

/-- `decode_hex_byte`: error word is zero exactly for two hex digits, and then the byte is `16·hi + lo` -/
theorem decodeHexByte_spec {a b : Nat} (ha : a < 256) (hb : b < 256) :
    (match hexVal? a, hexVal? b with
     | some x, some y => decodeHexByte a b = (16 * x + y, 0)
     | _, _ => (decodeHexByte a b).2 ≠ 0) := by
  unfold decodeHexByte
  simp only [decodeNibble_table ha, decodeNibble_table hb, W16]
  cases hx : hexVal? a with
  | none =>
    cases hy : hexVal? b with
    | none => exact combine_bad_both
    | some y => exact combine_bad_hi ⟨y, hexVal?_lt hy⟩
  | some x =>
    cases hy : hexVal? b with
    | none => exact combine_bad_lo ⟨x, hexVal?_lt hx⟩
    | some y =>
      have := combine_ok ⟨x, hexVal?_lt hx⟩ ⟨y, hexVal?_lt hy⟩
      simp only at this
      simp only [this.1, this.2]

theorem decodeHexBytes_cons2 (a b : Nat) (t : List Nat) :
    decodeHexBytes (a :: b :: t) =
      ((decodeHexByte a b).1 :: (decodeHexBytes t).1, (decodeHexByte a b).2 ||| (decodeHexBytes t).2) := rfl

theorem pairBytes_cons2 (a b : Nat) (t : List Nat) : pairBytes (a :: b :: t) = (16 * a + b) :: pairBytes t := rfl

theorem hexDigits?_cons (c : Nat) (cs : List Nat) :
    hexDigits? (c :: cs) = (match hexVal? c, hexDigits? cs with
      | some d, some ds => some (d :: ds)
      | _, _ => none) := rfl

theorem or_eq_zero {x y : Nat} : x ||| y = 0 ↔ x = 0 ∧ y = 0 := by
  constructor
  · intro h
    constructor
    · apply Nat.eq_of_testBit_eq; intro i
      have := congrArg (·.testBit i) h
      simp only [Nat.testBit_or, Nat.zero_testBit, Bool.or_eq_false_iff] at this
      simp [this.1]
    · apply Nat.eq_of_testBit_eq; intro i
      have := congrArg (·.testBit i) h
      simp only [Nat.testBit_or, Nat.zero_testBit, Bool.or_eq_false_iff] at this
      simp [this.2]
  · rintro ⟨rfl, rfl⟩; rfl

/-- the pair loop over a text of even length: no error ⇔ every character is a hex digit;
    then the bytes are the digit pairs -/
theorem decodeHexBytes_spec (k : Nat) (hex : List Nat) (hl : hex.length = 2 * k) (hc : Bytes hex) :
    (match hexDigits? hex with
     | some ds => decodeHexBytes hex = (pairBytes ds, 0)
     | none => (decodeHexBytes hex).2 ≠ 0) := by
  induction k generalizing hex with
  | zero =>
    have : hex = [] := List.eq_nil_of_length_eq_zero (by omega)
    subst this; rfl
  | succ k ih =>
    match hex, hl with
    | a :: b :: t, hl =>
      have ha : a < 256 := hc a (by simp)
      have hb : b < 256 := hc b (by simp)
      have ht := ih t (by simp at hl; omega) (fun x hx => hc x (by simp [hx]))
      have hab := decodeHexByte_spec ha hb
      rw [decodeHexBytes_cons2, hexDigits?_cons, hexDigits?_cons]
      cases hx : hexVal? a with
      | none =>
        simp only [hx] at hab ⊢
        intro h0; exact hab (or_eq_zero.mp h0).1
      | some x =>
        cases hy : hexVal? b with
        | none =>
          simp only [hx, hy] at hab ⊢
          intro h0; exact hab (or_eq_zero.mp h0).1
        | some y =>
          simp only [hx, hy] at hab
          cases hd : hexDigits? t with
          | none =>
            simp only [hd] at ht ⊢
            intro h0; exact ht (or_eq_zero.mp h0).2
          | some ds =>
            simp only [hd] at ht ⊢
            rw [hab, ht, pairBytes_cons2]
            simp

theorem hexDigits?_length {hex ds : List Nat} (h : hexDigits? hex = some ds) : ds.length = hex.length := by
  induction hex generalizing ds with
  | nil => simp [hexDigits?] at h; subst h; rfl
  | cons c cs ih =>
    rw [hexDigits?_cons] at h
    cases hx : hexVal? c with
    | none => simp [hx] at h
    | some d =>
      cases hd : hexDigits? cs with
      | none => simp [hx, hd] at h
      | some ds' =>
        simp only [hx, hd] at h
        injection h with h
        subst h
        simp [ih hd]

theorem hexDigits?_lt {hex ds : List Nat} (h : hexDigits? hex = some ds) : ∀ d ∈ ds, d < 16 := by
  induction hex generalizing ds with
  | nil => simp [hexDigits?] at h; subst h; intro d hd; cases hd
  | cons c cs ih =>
    rw [hexDigits?_cons] at h
    cases hx : hexVal? c with
    | none => simp [hx] at h
    | some d =>
      cases hd : hexDigits? cs with
      | none => simp [hx, hd] at h
      | some ds' =>
        simp only [hx, hd] at h
        injection h with h
        subst h
        intro e he
        cases he with
        | head => exact hexVal?_lt hx
        | tail _ he => exact ih hd e he

/-- a text is rejected exactly when some character is not a hex digit -/
theorem hexDigits?_none_iff (hex : List Nat) :
    hexDigits? hex = none ↔ ∃ c ∈ hex, isHexDigit c = false := by
  induction hex with
  | nil => simp [hexDigits?]
  | cons c cs ih =>
    rw [hexDigits?_cons]
    cases hx : hexVal? c with
    | none => simp [isHexDigit, hx]
    | some d =>
      cases hd : hexDigits? cs with
      | none =>
        have := ih.mp hd
        obtain ⟨e, he, hne⟩ := this
        simp only [true_iff]
        exact ⟨e, List.mem_cons_of_mem _ he, hne⟩
      | some ds =>
        simp only [false_iff, reduceCtorEq]
        rintro ⟨e, he, hne⟩
        cases he with
        | head => simp [isHexDigit, hx] at hne
        | tail _ he =>
          have := ih.mpr ⟨e, he, hne⟩
          rw [hd] at this; cases this

/-- digit pairs: the byte string of a digit string has the same big-endian value -/
theorem pairBytes_length (k : Nat) (ds : List Nat) (h : ds.length = 2 * k) : (pairBytes ds).length = k := by
  induction k generalizing ds with
  | zero =>
    have : ds = [] := List.eq_nil_of_length_eq_zero (by omega)
    subst this; rfl
  | succ k ih =>
    match ds, h with
    | a :: b :: t, h => simp [pairBytes_cons2, ih t (by simp at h; omega)]

theorem pairBytes_bytes (k : Nat) (ds : List Nat) (h : ds.length = 2 * k) (hd : ∀ d ∈ ds, d < 16) :
    Bytes (pairBytes ds) := by
  induction k generalizing ds with
  | zero =>
    have : ds = [] := List.eq_nil_of_length_eq_zero (by omega)
    subst this; intro b hb; cases hb
  | succ k ih =>
    match ds, h with
    | a :: b :: t, h =>
      intro x hx
      rw [pairBytes_cons2] at hx
      cases hx with
      | head =>
        have := hd a (by simp); have := hd b (by simp); omega
      | tail _ hx => exact ih t (by simp at h; omega) (fun d hd' => hd d (by simp [hd'])) x hx

theorem beVal_pairBytes (k : Nat) (ds : List Nat) (h : ds.length = 2 * k) :
    beVal (pairBytes ds) = beValBase 16 ds := by
  suffices ∀ acc, (pairBytes ds).foldl (fun a d => a * 256 + d) acc = ds.foldl (fun a d => a * 16 + d) acc by
    exact this 0
  induction k generalizing ds with
  | zero =>
    have : ds = [] := List.eq_nil_of_length_eq_zero (by omega)
    subst this; intro acc; rfl
  | succ k ih =>
    match ds, h with
    | a :: b :: t, h =>
      intro acc
      rw [pairBytes_cons2, List.foldl_cons, List.foldl_cons, List.foldl_cons, ih t (by simp at h; omega)]
      congr 1
      omega

/-- **fixed big-endian hex decoder = positional spec** (accept / panic and value) -/
theorem fromBeHex_spec {n : Nat} {hex : List Nat} (hc : Bytes hex) :
    fromBeHex n hex = (specFromBeHex n hex).map (toLimbs n) := by
  unfold fromBeHex specFromBeHex
  by_cases hl : hex.length = 16 * n
  · simp only [hl, if_true]
    have hs := decodeHexBytes_spec (8 * n) hex (by omega) hc
    cases hd : hexDigits? hex with
    | none =>
      simp only [hd] at hs
      simp [hs]
    | some ds =>
      simp only [hd] at hs
      rw [hs]
      simp only [if_true, Option.map_some]
      have hlen := hexDigits?_length hd
      have hb := pairBytes_bytes (8 * n) ds (by omega) (hexDigits?_lt hd)
      have hpl := pairBytes_length (8 * n) ds (by omega)
      have := fromBeSlice_spec (n := n) hb
      unfold fromBeSlice at this
      rw [if_pos hpl, if_pos hpl] at this
      rw [this, beVal_pairBytes (8 * n) ds (by omega)]
  · simp [hl]

theorem fromLeHex_spec {n : Nat} {hex : List Nat} (hc : Bytes hex) :
    (fromLeHex n hex).map val = specFromLeHex n hex ∧
    (∀ l, fromLeHex n hex = some l → WF l ∧ l.length = n) := by
  unfold fromLeHex specFromLeHex
  by_cases hl : hex.length = 16 * n
  · simp only [hl, if_true]
    have hs := decodeHexBytes_spec (8 * n) hex (by omega) hc
    cases hd : hexDigits? hex with
    | none =>
      simp only [hd] at hs
      simp [hs]
    | some ds =>
      simp only [hd] at hs
      rw [hs]
      simp only [if_true, Option.map_some]
      have hlen := hexDigits?_length hd
      have hb := pairBytes_bytes (8 * n) ds (by omega) (hexDigits?_lt hd)
      have hpl := pairBytes_length (8 * n) ds (by omega)
      have := fromLeSlice_spec (n := n) hb
      unfold fromLeSlice at this
      rw [if_pos hpl, if_pos hpl] at this
      injection this with this
      rw [this]
      refine ⟨?_, ?_⟩
      · congr 1
        rw [val_toLimbs]
        apply Nat.mod_eq_of_lt
        have := leVal_lt hb
        rw [hpl] at this
        rw [← B_eq_256, ← Nat.pow_mul]
        exact this
      · intro l hl'
        injection hl' with hl'
        subst hl'
        exact ⟨toLimbs_WF _ _, toLimbs_length _ _⟩
  · simp [hl]

/-- the decoded big-endian hex value never wraps -/
theorem fromBeHex_val {n : Nat} {hex : List Nat} (hc : Bytes hex) :
    (fromBeHex n hex).map val = specFromBeHex n hex := by
  rw [fromBeHex_spec hc]
  unfold specFromBeHex
  by_cases hl : hex.length = 16 * n
  · rw [if_pos hl]
    cases hd : hexDigits? hex with
    | none => rfl
    | some ds =>
      simp only [Option.map_some]
      congr 1
      rw [val_toLimbs]
      apply Nat.mod_eq_of_lt
      rw [beValBase_eq]
      have hlt := digitsVal_lt (b := 16) (ds := ds.reverse)
        (fun d hd' => hexDigits?_lt hd d (List.mem_reverse.mp hd'))
      rw [List.length_reverse, hexDigits?_length hd, hl, Nat.pow_mul, B_eq_16] at hlt
      exact hlt
  · rw [if_neg hl]; rfl

/-- parity of a limb list is the parity of its lowest limb (`is_odd`) -/
theorem headD_mod_two (l : List Nat) : l.headD 0 % 2 = val l % 2 := by
  cases l with
  | nil => rfl
  | cons x xs =>
    simp only [List.headD_cons, val_cons, B_def]
    omega

/-! ### formatting -/

theorem hexVal?_hexChar : ∀ (u : Bool) (d : Fin 16), hexVal? (hexChar u d.val) = some d.val := by
  decide +kernel

theorem hexChar_lt : ∀ (u : Bool) (d : Fin 16), hexChar u d.val < 256 := by decide +kernel

theorem hexDigits?_map_hexChar (u : Bool) (ds : List Nat) (h : ∀ d ∈ ds, d < 16) :
    hexDigits? (ds.map (hexChar u)) = some ds := by
  induction ds with
  | nil => rfl
  | cons d ds ih =>
    rw [List.map_cons, hexDigits?_cons, ih (fun e he => h e (List.mem_cons_of_mem _ he))]
    have := hexVal?_hexChar u ⟨d, h d List.mem_cons_self⟩
    simp only at this
    rw [this]

/-- `LowerHex` / `UpperHex` without prefix: character `j` is the hex digit of weight `16^(k-1-j)` -/
theorem fmtHex_spec (upper : Bool) {l : List Nat} (h : WF l) :
    fmtHex upper false l = specHexText upper (16 * l.length) (val l) := by
  unfold fmtHex specHexText fmtWordHex
  simp only [Bool.false_eq_true, if_false, List.nil_append]
  have e : (fun j => hexChar upper (val l / 16 ^ (16 * l.length - 1 - j) % 16))
      = (hexChar upper) ∘ (fun j => val l / 16 ^ (16 * l.length - 1 - j) % 16) := rfl
  rw [e, ← List.map_map, specBe_eq, ← limbs_digits_be B_eq_16 h, List.map_flatten, List.map_map]
  rfl

theorem fmtBin_spec {l : List Nat} (h : WF l) :
    fmtBin false l = specBinText (64 * l.length) (val l) := by
  unfold fmtBin specBinText fmtWordBin
  simp only [Bool.false_eq_true, if_false, List.nil_append]
  have e : (fun j => 48 + val l / 2 ^ (64 * l.length - 1 - j) % 2)
      = (48 + ·) ∘ (fun j => val l / 2 ^ (64 * l.length - 1 - j) % 2) := rfl
  rw [e, ← List.map_map, specBe_eq, ← limbs_digits_be B_eq_2 h, List.map_flatten, List.map_map]
  rfl

theorem specHexText_eq (upper : Bool) (k x : Nat) :
    specHexText upper k x = ((digitsLe 16 k x).reverse).map (hexChar upper) := by
  unfold specHexText
  have e : (fun j => hexChar upper (x / 16 ^ (k - 1 - j) % 16))
      = (hexChar upper) ∘ (fun j => x / 16 ^ (k - 1 - j) % 16) := rfl
  rw [e, ← List.map_map, specBe_eq]

/-- parsing what the formatter printed (either case) gives the value back -/
theorem fromBeHex_fmtHex (upper : Bool) {l : List Nat} (h : WF l) :
    fromBeHex l.length (fmtHex upper false l) = some l := by
  have hd : ∀ d ∈ (digitsLe 16 (16 * l.length) (val l)).reverse, d < 16 := by
    intro d hd; exact digitsLe_lt (by decide) _ _ d (List.mem_reverse.mp hd)
  have hb : Bytes (fmtHex upper false l) := by
    rw [fmtHex_spec upper h, specHexText_eq]
    intro c hc
    rw [List.mem_map] at hc
    obtain ⟨d, hd', rfl⟩ := hc
    exact hexChar_lt upper ⟨d, hd d hd'⟩
  rw [fromBeHex_spec hb, fmtHex_spec upper h, specHexText_eq]
  unfold specFromBeHex
  rw [if_pos (by simp), hexDigits?_map_hexChar upper _ hd]
  simp only [Option.map_some]
  congr 1
  rw [beValBase_eq, List.reverse_reverse, digitsVal_digitsLe]
  have hv := val_lt h
  have e : (16 : Nat) ^ (16 * l.length) = B ^ l.length := by rw [Nat.pow_mul, B_eq_16]
  rw [e, Nat.mod_eq_of_lt hv]
  exact (eq_toLimbs h rfl rfl).symm

end CB.Encoding
