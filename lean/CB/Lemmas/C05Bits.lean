/-
  CB.Lemmas.C05Bits — the `u32` bit tricks of `src/const_choice.rs` used by the shift ladder and the
  bit queries (`from_u32_lt`, `from_u32_nonzero`, `from_u32_eq`, `from_u32_lsb`), modelled as written in
  CB/Model/Shift.lean, proved equal to their meaning by transport to `BitVec 32` and `bv_decide`.
-/
import CB.Lemmas.WordBits
import CB.Model.Bits
import Std.Tactic.BVDecide
namespace CB.Shift
open CB

theorem TWO32_def : TWO32 = 4294967296 := rfl
theorem TWO31_def : TWO31 = 2147483648 := rfl

abbrev bv32 (x : Nat) : BitVec 32 := BitVec.ofNat 32 x

theorem bv32_toNat {x : Nat} (h : x < TWO32) : (bv32 x).toNat = x := by
  simp only [bv32, BitVec.toNat_ofNat]; exact Nat.mod_eq_of_lt h

theorem toNat_lt_TWO32 (v : BitVec 32) : v.toNat < TWO32 := v.isLt

theorem u32not_bv (x : BitVec 32) : u32not x.toNat = (~~~x).toNat := by
  have := toNat_lt_TWO32 x
  simp only [u32not, BitVec.toNat_not, TWO32_def] at *
  omega
theorem u32sub_bv (x y : BitVec 32) : u32sub x.toNat y.toNat = (x - y).toNat := by
  have hx := toNat_lt_TWO32 x; have hy := toNat_lt_TWO32 y
  simp only [u32sub, BitVec.toNat_sub, TWO32_def] at *
  omega
theorem u32neg_bv (x : BitVec 32) : u32neg x.toNat = (-x).toNat := by
  have hx := toNat_lt_TWO32 x
  simp only [u32neg, BitVec.toNat_neg, TWO32_def] at *
  omega
theorem shr31_bv (x : BitVec 32) : x.toNat / TWO31 = (x >>> 31).toNat := by
  simp only [BitVec.toNat_ushiftRight, Nat.shiftRight_eq_div_pow, TWO31_def]

theorem lt_bv32 (x y : BitVec 32) :
    (((~~~x) &&& y) ||| (((~~~x) ||| y) &&& (x - y))) >>> 31 = if x < y then 1#32 else 0#32 := by
  bv_decide
theorem nonzero_bv32 (x : BitVec 32) :
    (x ||| (-x)) >>> 31 = if x = 0#32 then 0#32 else 1#32 := by
  bv_decide

/-- `from_u32_lsb` on a bit. -/
theorem fromU32Lsb_bit (b : Bool) : fromU32Lsb (if b then 1 else 0) = mask b := by
  cases b <;> decide

theorem fromU32Lt_spec {x y : Nat} (hx : x < TWO32) (hy : y < TWO32) :
    fromU32Lt x y = mask (decide (x < y)) := by
  have e : fromU32Lt x y =
      fromU32Lsb (((((~~~bv32 x) &&& bv32 y) ||| (((~~~bv32 x) ||| bv32 y) &&& (bv32 x - bv32 y))) >>> 31).toNat) := by
    simp only [fromU32Lt, ← shr31_bv, BitVec.toNat_or, BitVec.toNat_and, ← u32not_bv, ← u32sub_bv,
      bv32_toNat hx, bv32_toNat hy]
  rw [e, lt_bv32]
  have : (bv32 x < bv32 y) ↔ x < y := by
    rw [BitVec.lt_def, bv32_toNat hx, bv32_toNat hy]
  by_cases h : x < y
  · simp [this.mpr h, h, mask]; decide
  · simp [mt this.mp h, h, mask]; decide

theorem fromU32Nonzero_spec {x : Nat} (hx : x < TWO32) :
    fromU32Nonzero x = mask (decide (x ≠ 0)) := by
  have e : fromU32Nonzero x = fromU32Lsb (((bv32 x ||| (-bv32 x)) >>> 31).toNat) := by
    simp only [fromU32Nonzero, ← shr31_bv, BitVec.toNat_or, ← u32neg_bv, bv32_toNat hx]
  rw [e, nonzero_bv32]
  have : bv32 x = 0#32 ↔ x = 0 := by
    constructor
    · intro h; have := congrArg BitVec.toNat h; rw [bv32_toNat hx] at this; simpa using this
    · intro h; subst h; rfl
  by_cases h : x = 0
  · simp [h, mask]; decide
  · simp [mt this.mp h, h, mask]; decide

theorem xor_lt_TWO32 {x y : Nat} (hx : x < TWO32) (hy : y < TWO32) : x ^^^ y < TWO32 := by
  have : TWO32 = 2 ^ 32 := by decide
  rw [this] at *; exact Nat.xor_lt_two_pow hx hy

theorem fromU32Eq_spec {x y : Nat} (hx : x < TWO32) (hy : y < TWO32) :
    fromU32Eq x y = mask (decide (x = y)) := by
  simp only [fromU32Eq, fromU32Nonzero_spec (xor_lt_TWO32 hx hy), choiceNot_mask]
  congr 1
  by_cases h : x = y
  · subst h; simp
  · have : x ^^^ y ≠ 0 := by
      intro h0
      apply h
      have : x ^^^ (x ^^^ y) = x := by rw [h0, Nat.xor_zero]
      rw [← Nat.xor_assoc, Nat.xor_self, Nat.zero_xor] at this
      exact this.symm
    simp [h, this]

end CB.Shift
