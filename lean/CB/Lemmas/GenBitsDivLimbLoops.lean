/-
  CB.Lemmas.GenBitsDivLimbLoops — where the GENERATED text of the limb loops of division by a limb is read
  (CB/Gen/DivLimbLoops.lean, regenerated from src/uint/div_limb.rs and src/uint/div.rs on every run):
  one round of each translated count-down loop (`*_loop_zero`, `*_loop_succ`), each function as "prologue, loop(s),
  epilogue" (`*_eq_loop`), and the thin wrappers as the calls they are.  Each statement is closed by `rfl` when the
  generated text is the expected one up to `let`s, and otherwise by the congruence tactic of the shift layer
  (`shift_round_eq`: unfolds `gen_defs` at the leaves and decides the words with `bv_decide`), so that a harmless
  rewrite of the Rust source keeps these lemmas and a changed index / operand / shift amount breaks them.
  The inductions over the limb count are in CB/Lemmas/GenDivLimbLoops.lean (no `bv_decide` there).
-/
import CB.Gen.DivLimbLoops
import CB.Lemmas.GenBitsShifts
import CB.Lemmas.GenBitsDiv
namespace CB.GenBits
open CB CB.Gen

/-- closes a round lemma: definitional unfolding, else the congruence tactic of the shift layer -/
macro "dll_round_eq" : tactic => `(tactic| first | rfl | shift_round_eq)

/-! ## `div_rem_limb_with_reciprocal` -/

theorem div_limb_loop_zero (L : Nat) (rc : DivLimb.Reciprocal) (us : List (BitVec 64)) (r : BitVec 64)
    (q : List (BitVec 64)) : DivLimbLoops.div_rem_limb_with_reciprocal_loop1 L rc us 0 r q = (r, q) := by
  rw [DivLimbLoops.div_rem_limb_with_reciprocal_loop1]

/-- round `n + 1` of `while j > 0 { j -= 1; .. }`: `j = n`, one `div2by1` of the running remainder and limb `n`,
    quotient limb `n` written, the remainder carried on -/
theorem div_limb_loop_succ (L : Nat) (rc : DivLimb.Reciprocal) (us : List (BitVec 64)) (n : Nat) (r : BitVec 64)
    (q : List (BitVec 64)) :
    DivLimbLoops.div_rem_limb_with_reciprocal_loop1 L rc us (n + 1) r q =
      DivLimbLoops.div_rem_limb_with_reciprocal_loop1 L rc us n (DivLimb.div2by1 r (us.getD n 0#64) rc).2
        (q.set n (DivLimb.div2by1 r (us.getD n 0#64) rc).1) := by
  rw [DivLimbLoops.div_rem_limb_with_reciprocal_loop1] <;> dll_round_eq

theorem div_rem_limb_eq_loop (L : Nat) (u : List (BitVec 64)) (rc : DivLimb.Reciprocal) :
    DivLimbLoops.div_rem_limb_with_reciprocal L u rc =
      ((DivLimbLoops.div_rem_limb_with_reciprocal_loop1 L rc (Shifts.Uint.shl_limb L u rc.shift).1 L
          (Shifts.Uint.shl_limb L u rc.shift).2 (List.replicate L 0#64)).2,
       (DivLimbLoops.div_rem_limb_with_reciprocal_loop1 L rc (Shifts.Uint.shl_limb L u rc.shift).1 L
          (Shifts.Uint.shl_limb L u rc.shift).2 (List.replicate L 0#64)).1 >>> (rc.shift % 64#32)) := by
  dll_round_eq

/-! ## `rem_limb_with_reciprocal` -/

theorem rem_limb_loop_zero (L : Nat) (rc : DivLimb.Reciprocal) (us : List (BitVec 64)) (r : BitVec 64) :
    DivLimbLoops.rem_limb_with_reciprocal_loop1 L rc us 0 r = r := by
  rw [DivLimbLoops.rem_limb_with_reciprocal_loop1]

theorem rem_limb_loop_succ (L : Nat) (rc : DivLimb.Reciprocal) (us : List (BitVec 64)) (n : Nat) (r : BitVec 64) :
    DivLimbLoops.rem_limb_with_reciprocal_loop1 L rc us (n + 1) r =
      DivLimbLoops.rem_limb_with_reciprocal_loop1 L rc us n (DivLimb.div2by1 r (us.getD n 0#64) rc).2 := by
  rw [DivLimbLoops.rem_limb_with_reciprocal_loop1] <;> dll_round_eq

theorem rem_limb_eq_loop (L : Nat) (u : List (BitVec 64)) (rc : DivLimb.Reciprocal) :
    DivLimbLoops.rem_limb_with_reciprocal L u rc =
      (DivLimbLoops.rem_limb_with_reciprocal_loop1 L rc (Shifts.Uint.shl_limb L u rc.shift).1 L
          (Shifts.Uint.shl_limb L u rc.shift).2) >>> (rc.shift % 64#32) := by
  dll_round_eq

/-! ## `rem_limb_with_reciprocal_wide` (two loops: the hi half, then the lo half) -/

theorem rem_wide_loop1_zero (L : Nat) (rc : DivLimb.Reciprocal) (us : List (BitVec 64)) (r : BitVec 64) :
    DivLimbLoops.rem_limb_with_reciprocal_wide_loop1 L rc us 0 r = r := by
  rw [DivLimbLoops.rem_limb_with_reciprocal_wide_loop1]

theorem rem_wide_loop1_succ (L : Nat) (rc : DivLimb.Reciprocal) (us : List (BitVec 64)) (n : Nat) (r : BitVec 64) :
    DivLimbLoops.rem_limb_with_reciprocal_wide_loop1 L rc us (n + 1) r =
      DivLimbLoops.rem_limb_with_reciprocal_wide_loop1 L rc us n (DivLimb.div2by1 r (us.getD n 0#64) rc).2 := by
  rw [DivLimbLoops.rem_limb_with_reciprocal_wide_loop1] <;> dll_round_eq

theorem rem_wide_loop2_zero (L : Nat) (rc : DivLimb.Reciprocal) (us : List (BitVec 64)) (r : BitVec 64) :
    DivLimbLoops.rem_limb_with_reciprocal_wide_loop2 L rc us 0 r = r := by
  rw [DivLimbLoops.rem_limb_with_reciprocal_wide_loop2]

theorem rem_wide_loop2_succ (L : Nat) (rc : DivLimb.Reciprocal) (us : List (BitVec 64)) (n : Nat) (r : BitVec 64) :
    DivLimbLoops.rem_limb_with_reciprocal_wide_loop2 L rc us (n + 1) r =
      DivLimbLoops.rem_limb_with_reciprocal_wide_loop2 L rc us n (DivLimb.div2by1 r (us.getD n 0#64) rc).2 := by
  rw [DivLimbLoops.rem_limb_with_reciprocal_wide_loop2] <;> dll_round_eq

theorem rem_wide_eq_loop (L : Nat) (lo hi : List (BitVec 64)) (rc : DivLimb.Reciprocal) :
    DivLimbLoops.rem_limb_with_reciprocal_wide L (lo, hi) rc =
      (DivLimbLoops.rem_limb_with_reciprocal_wide_loop2 L rc (Shifts.Uint.shl_limb L lo rc.shift).1 L
        (DivLimbLoops.rem_limb_with_reciprocal_wide_loop1 L rc
          ((Shifts.Uint.shl_limb L hi rc.shift).1.set 0
            (((Shifts.Uint.shl_limb L hi rc.shift).1.getD 0 0#64) ||| (Shifts.Uint.shl_limb L lo rc.shift).2))
          L (Shifts.Uint.shl_limb L hi rc.shift).2)) >>> (rc.shift % 64#32) := by
  dll_round_eq

/-! ## `mul_rem` and the `impl Uint` wrappers of src/uint/div.rs -/

theorem mul_rem_eq (a b d : BitVec 64) :
    DivLimbLoops.MulRem.mul_rem a b d =
      DivLimbLoops.rem_limb_with_reciprocal 2 [(Prim.mulhilo a b).2, (Prim.mulhilo a b).1] (DivLimb.Reciprocal.new d) := by
  dll_round_eq

theorem uint_div_rem_limb_with_reciprocal_eq (L : Nat) (u : List (BitVec 64)) (rc : DivLimb.Reciprocal) :
    DivLimbLoops.Uint.div_rem_limb_with_reciprocal L u rc = DivLimbLoops.div_rem_limb_with_reciprocal L u rc := by
  dll_round_eq
theorem uint_div_rem_limb_eq (L : Nat) (u : List (BitVec 64)) (d : BitVec 64) :
    DivLimbLoops.Uint.div_rem_limb L u d = DivLimbLoops.div_rem_limb_with_reciprocal L u (DivLimb.Reciprocal.new d) := by
  dll_round_eq
theorem uint_rem_limb_with_reciprocal_eq (L : Nat) (u : List (BitVec 64)) (rc : DivLimb.Reciprocal) :
    DivLimbLoops.Uint.rem_limb_with_reciprocal L u rc = DivLimbLoops.rem_limb_with_reciprocal L u rc := by
  dll_round_eq
theorem uint_rem_limb_eq (L : Nat) (u : List (BitVec 64)) (d : BitVec 64) :
    DivLimbLoops.Uint.rem_limb L u d = DivLimbLoops.rem_limb_with_reciprocal L u (DivLimb.Reciprocal.new d) := by
  dll_round_eq

/-! ## `Uint::shl_limb_vartime` / `Uint::shr_limb_vartime` (private helpers of `div_rem_vartime`, src/uint/div.rs) -/

theorem shlvt_loop_zero (L : Nat) (a : List (BitVec 64)) (ls rs : BitVec 32) (limbs : List (BitVec 64)) :
    DivLimbLoops.Vartime.shl_limb_vartime_loop1 L a ls rs 0 limbs = limbs := by
  rw [DivLimbLoops.Vartime.shl_limb_vartime_loop1]

/-- round `n + 1` of `while i > 0 { limbs[i] = ..; i -= 1; }` (the decrement LAST): `i = n + 1` -/
theorem shlvt_loop_succ (L : Nat) (a : List (BitVec 64)) (ls rs : BitVec 32) (n : Nat) (limbs : List (BitVec 64)) :
    DivLimbLoops.Vartime.shl_limb_vartime_loop1 L a ls rs (n + 1) limbs =
      DivLimbLoops.Vartime.shl_limb_vartime_loop1 L a ls rs n
        (limbs.set (n + 1) (((a.getD (n + 1) 0#64) <<< (ls % 64#32)) ||| ((a.getD n 0#64) >>> (rs % 64#32)))) := by
  rw [DivLimbLoops.Vartime.shl_limb_vartime_loop1] <;> dll_round_eq

theorem shl_limb_vartime_zero (L : Nat) (a : List (BitVec 64)) (k : Nat) :
    DivLimbLoops.Vartime.shl_limb_vartime L a 0#32 k = (a, 0#64) := by
  dll_round_eq

theorem shl_limb_vartime_eq_loop (L : Nat) (a : List (BitVec 64)) (s : BitVec 32) (k : Nat) (hs : s ≠ 0#32) :
    DivLimbLoops.Vartime.shl_limb_vartime L a s k =
      ((DivLimbLoops.Vartime.shl_limb_vartime_loop1 L a s (64#32 - s) (k - 1) (List.replicate L 0#64)).set 0
          ((a.getD 0 0#64) <<< (s % 64#32)),
       (a.getD (k - 1) 0#64) >>> ((64#32 - s) % 64#32)) := by
  have h : ¬ ((s == 0#32) = true) := by simpa using hs
  rw [DivLimbLoops.Vartime.shl_limb_vartime, if_neg h] <;> dll_round_eq

theorem shrvt_loop_zero (L : Nat) (a : List (BitVec 64)) (k : Nat) (ls rs : BitVec 32) (i : Nat) (limbs : List (BitVec 64)) :
    DivLimbLoops.Vartime.shr_limb_vartime_loop1 L a k ls rs 0 i limbs = limbs := by
  rw [DivLimbLoops.Vartime.shr_limb_vartime_loop1]

theorem shrvt_loop_succ (L : Nat) (a : List (BitVec 64)) (k : Nat) (ls rs : BitVec 32) (n i : Nat) (limbs : List (BitVec 64))
    (h : i < k - 1) :
    DivLimbLoops.Vartime.shr_limb_vartime_loop1 L a k ls rs (n + 1) i limbs =
      DivLimbLoops.Vartime.shr_limb_vartime_loop1 L a k ls rs n (i + 1)
        (limbs.set i (((a.getD i 0#64) >>> (rs % 64#32)) ||| ((a.getD (i + 1) 0#64) <<< (ls % 64#32)))) := by
  rw [DivLimbLoops.Vartime.shr_limb_vartime_loop1, if_pos h] <;> dll_round_eq

theorem shr_limb_vartime_zero (L : Nat) (a : List (BitVec 64)) (k : Nat) :
    DivLimbLoops.Vartime.shr_limb_vartime L a 0#32 k = a := by
  dll_round_eq

theorem shr_limb_vartime_eq_loop (L : Nat) (a : List (BitVec 64)) (s : BitVec 32) (k : Nat) (hs : s ≠ 0#32) :
    DivLimbLoops.Vartime.shr_limb_vartime L a s k =
      (DivLimbLoops.Vartime.shr_limb_vartime_loop1 L a k (64#32 - s) s (k - 1) 0 (List.replicate L 0#64)).set (k - 1)
          ((a.getD (k - 1) 0#64) >>> (s % 64#32)) := by
  have h : ¬ ((s == 0#32) = true) := by simpa using hs
  rw [DivLimbLoops.Vartime.shr_limb_vartime, if_neg h] <;> dll_round_eq

end CB.GenBits
