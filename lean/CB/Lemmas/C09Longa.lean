/-
  CB.Lemmas.C09Longa — one accumulation window of `impl_longa_monty_lincomb!` (Longa's interleaved sum of
  products, CB.Lincomb.longa) for property C09: the exact value equation of every loop, the absence of
  wrap-around in `hi` / `hi_carry`, and the accumulator bound `u + hi_carry·B^n < 2m` for at most
  `B^n / m` terms (this is the fact DESIGN.md carried as `H_longa_bound`; it is PROVED here).
  Uses C08's `lowlimb_cancel` (the low word of `u[0] + q·m[0]` vanishes).
-/
import CB.Lemmas.C09Pow
import CB.Model.Lincomb
import Mathlib.Tactic.LinearCombination
import Mathlib.Tactic.Ring
import Mathlib.Tactic.Linarith
namespace CB.Lincomb
open CB CB.Monty

/-! ### spec-side sums over the Montgomery-form limbs -/

/-- every term is a pair of `n`-limb values below the modulus `M` (canonical Montgomery forms). -/
def TermsOK (n M : Nat) (terms : List (List Nat × List Nat)) : Prop :=
  ∀ t ∈ terms, WF t.1 ∧ WF t.2 ∧ t.1.length = n ∧ t.2.length = n ∧ val t.1 < M ∧ val t.2 < M

theorem TermsOK.tail {n M t r} (h : TermsOK n M (t :: r)) : TermsOK n M r :=
  fun x hx => h x (List.mem_cons_of_mem _ hx)

theorem TermsOK.head {n M t r} (h : TermsOK n M (t :: r)) :
    WF t.1 ∧ WF t.2 ∧ t.1.length = n ∧ t.2.length = n ∧ val t.1 < M ∧ val t.2 < M :=
  h t (List.mem_cons_self ..)

/-- `Σ aᵢ[j] · bᵢ`: what one pass of the term loop adds. -/
def dotJ (j : Nat) : List (List Nat × List Nat) → Nat
  | [] => 0
  | t :: r => t.1.getD j 0 * val t.2 + dotJ j r

/-- `Σ (aᵢ mod B^j) · bᵢ`: what has been added after `j` outer iterations. -/
def lowDot (j : Nat) : List (List Nat × List Nat) → Nat
  | [] => 0
  | t :: r => (val t.1 % B ^ j) * val t.2 + lowDot j r

/-- `Σ aᵢ · bᵢ` on the stored (Montgomery-form) integers. -/
def valDot : List (List Nat × List Nat) → Nat
  | [] => 0
  | t :: r => val t.1 * val t.2 + valDot r

theorem getD_lt_B {l : List Nat} (h : WF l) (j : Nat) : l.getD j 0 < B := by
  rw [CB.Pow.getD_limb h]; exact Nat.mod_lt _ B_pos

theorem lowDot_zero (terms : List (List Nat × List Nat)) : lowDot 0 terms = 0 := by
  induction terms with
  | nil => rfl
  | cons t r ih => simp [lowDot, ih, Nat.mod_one]

theorem lowDot_succ {n M} (j : Nat) {terms : List (List Nat × List Nat)} (h : TermsOK n M terms) :
    lowDot (j + 1) terms = lowDot j terms + B ^ j * dotJ j terms := by
  induction terms with
  | nil => rfl
  | cons t r ih =>
    have ⟨ha, _, _, _, _, _⟩ := h.head
    simp only [lowDot, dotJ, ih h.tail]
    rw [Nat.mod_pow_succ, CB.Pow.getD_limb ha]
    ring

theorem lowDot_full {n M} {terms : List (List Nat × List Nat)} (h : TermsOK n M terms) :
    lowDot n terms = valDot terms := by
  induction terms with
  | nil => rfl
  | cons t r ih =>
    have ⟨ha, _, hl, _, _, _⟩ := h.head
    simp only [lowDot, valDot, ih h.tail]
    have := val_lt ha
    rw [hl] at this
    rw [Nat.mod_eq_of_lt this]

theorem dotJ_le {n M} (j : Nat) {terms : List (List Nat × List Nat)} (h : TermsOK n M terms) :
    dotJ j terms ≤ terms.length * (B * M) := by
  induction terms with
  | nil => simp [dotJ]
  | cons t r ih =>
    have ⟨ha, _, _, _, _, hb⟩ := h.head
    have h1 : t.1.getD j 0 * val t.2 ≤ B * M :=
      Nat.mul_le_mul (Nat.le_of_lt (getD_lt_B ha j)) (Nat.le_of_lt hb)
    have := ih h.tail
    simp only [dotJ, List.length_cons, Nat.add_mul, Nat.one_mul]
    omega

theorem lowDot_le {n M} (j : Nat) {terms : List (List Nat × List Nat)} (h : TermsOK n M terms) :
    lowDot j terms ≤ terms.length * (B ^ j * M) := by
  induction terms with
  | nil => simp [lowDot]
  | cons t r ih =>
    have ⟨_, _, _, _, _, hb⟩ := h.head
    have h1 : (val t.1 % B ^ j) * val t.2 ≤ B ^ j * M :=
      Nat.mul_le_mul (Nat.le_of_lt (Nat.mod_lt _ (Nat.pow_pos B_pos))) (Nat.le_of_lt hb)
    have := ih h.tail
    simp only [lowDot, List.length_cons, Nat.add_mul, Nat.one_mul]
    omega

theorem valDot_le {n M} {terms : List (List Nat × List Nat)} (h : TermsOK n M terms) :
    valDot terms ≤ terms.length * (M * M) := by
  induction terms with
  | nil => simp [valDot]
  | cons t r ih =>
    have ⟨_, _, _, _, ha, hb⟩ := h.head
    have h1 : val t.1 * val t.2 ≤ M * M := Nat.mul_le_mul (Nat.le_of_lt ha) (Nat.le_of_lt hb)
    have := ih h.tail
    simp only [valDot, List.length_cons, Nat.add_mul, Nat.one_mul]
    omega

theorem valDot_append (l₁ l₂ : List (List Nat × List Nat)) : valDot (l₁ ++ l₂) = valDot l₁ + valDot l₂ := by
  induction l₁ with
  | nil => simp [valDot]
  | cons t r ih => simp only [List.cons_append, valDot, ih]; omega

/-! ### the `mac` chains -/

theorem macChain_cons (aj u b c : Nat) (us bs : List Nat) :
    macChain aj (u :: us) (b :: bs) c =
      ((mac u aj b c).1 :: (macChain aj us bs (mac u aj b c).2).1, (macChain aj us bs (mac u aj b c).2).2) := rfl

theorem macChain_nil (aj c : Nat) (bs : List Nat) : macChain aj [] bs c = ([], c) := by
  cases bs <;> rfl

/-- `u += aj · b` with carry-in `c`: exact, the carry out is a word. -/
theorem macChain_spec {aj : Nat} (haj : aj < B) :
    ∀ (u b : List Nat) (c : Nat), WF u → WF b → u.length = b.length → c < B →
      val (macChain aj u b c).1 + B ^ u.length * (macChain aj u b c).2 = val u + aj * val b + c ∧
      WF (macChain aj u b c).1 ∧ (macChain aj u b c).1.length = u.length ∧ (macChain aj u b c).2 < B := by
  intro u
  induction u with
  | nil =>
    intro b c _ _ hl hc
    have : b = [] := List.length_eq_zero_iff.mp hl.symm
    subst this
    rw [macChain_nil]
    simp [hc, WF_nil]
  | cons x xs ih =>
    intro b c hu hb hl hc
    cases b with
    | nil => simp at hl
    | cons y ys =>
      have ⟨hx, hxs⟩ := WF_cons.mp hu
      have ⟨hy, hys⟩ := WF_cons.mp hb
      have ⟨m1, m2, m3⟩ := mac_spec hx haj hy hc
      have ⟨i1, i2, i3, i4⟩ := ih ys (mac x aj y c).2 hxs hys (by simpa using hl) m3
      rw [macChain_cons]
      refine ⟨?_, WF_cons.mpr ⟨m2, i2⟩, by simp [i3], i4⟩
      simp only [val_cons, List.length_cons, Nat.pow_succ]
      linear_combination m1 + B * i1

theorem shiftChain_eq (q : Nat) : ∀ (u m : List Nat) (c : Nat), shiftChain q u m c = macChain q u m c := by
  intro u
  induction u with
  | nil => intro m c; cases m <;> rfl
  | cons x xs ih =>
    intro m c
    cases m with
    | nil => rfl
    | cons y ys =>
      show ((mac x q y c).1 :: (shiftChain q xs ys (mac x q y c).2).1, (shiftChain q xs ys (mac x q y c).2).2) = _
      rw [ih, macChain_cons]

/-! ### pure arithmetic: the deferred carry cannot wrap -/

theorem carry_lt_of_sum {b K s X0 A : Nat} (hsum : X0 + K * s = A) (hA : A < K * b) : s < b := by
  apply Nat.lt_of_not_le
  intro hge
  have h1 : K * b ≤ K * s := Nat.mul_le_mul_left _ hge
  omega

theorem carry_lt_of_div {b K s X0 A q M : Nat} (hsum : b * (X0 + K * s) = A + q * M) (hq : q < b) (hM : 0 < M)
    (hbound : A + b * M ≤ b * (K * b)) : s < b := by
  apply Nat.lt_of_not_le
  intro hge
  have h1 : b * (K * b) ≤ b * (K * s) := Nat.mul_le_mul_left _ (Nat.mul_le_mul_left _ hge)
  have h2 : b * (K * s) ≤ b * (X0 + K * s) := Nat.mul_le_mul_left _ (Nat.le_add_left _ _)
  have h3 : q * M < b * M := Nat.mul_lt_mul_of_pos_right hq hM
  omega

/-! ### the term loop: no wrap-around in `hi` / `hi_carry` below `B^(n+2)` -/

/-- the integer held by `(u, hi, hi_carry)`. -/
def accT (n : Nat) (acc : Acc) : Nat := val acc.u + B ^ n * acc.hi + B ^ (n + 1) * acc.hiCarry

theorem accT_mk (n : Nat) (u : List Nat) (hi hc : Nat) :
    accT n { u := u, hi := hi, hiCarry := hc } = val u + B ^ n * hi + B ^ (n + 1) * hc := rfl

theorem termsLoop_cons (j : Nat) (ab : List Nat × List Nat) (rest : List (List Nat × List Nat)) (acc : Acc) :
    termsLoop j (ab :: rest) acc =
      termsLoop j rest
        { u := (macChain (ab.1.getD j 0) acc.u ab.2 0).1
          hi := (adc acc.hi (macChain (ab.1.getD j 0) acc.u ab.2 0).2 0).1
          hiCarry := wadd acc.hiCarry (adc acc.hi (macChain (ab.1.getD j 0) acc.u ab.2 0).2 0).2 } := rfl

theorem termsLoop_spec {n M : Nat} (j : Nat) :
    ∀ (terms : List (List Nat × List Nat)) (acc : Acc), TermsOK n M terms → WF acc.u → acc.u.length = n →
      acc.hi < B → accT n acc + dotJ j terms < B ^ (n + 2) →
      accT n (termsLoop j terms acc) = accT n acc + dotJ j terms ∧
      WF (termsLoop j terms acc).u ∧ (termsLoop j terms acc).u.length = n ∧ (termsLoop j terms acc).hi < B := by
  intro terms
  induction terms with
  | nil => intro acc _ hw hl hh _; exact ⟨(Nat.add_zero _).symm, hw, hl, hh⟩
  | cons ab rest ih =>
    intro acc hT hw hl hh hbound
    have ⟨ha, hb, _, hbl, _, _⟩ := hT.head
    have haj := getD_lt_B ha j
    have ⟨m1, m2, m3, m4⟩ := macChain_spec haj acc.u ab.2 0 hw hb (by rw [hl, hbl]) B_pos
    have ⟨a1, a2⟩ := adc_spec acc.hi (macChain (ab.1.getD j 0) acc.u ab.2 0).2 0
    rw [termsLoop_cons]
    generalize hmc : macChain (ab.1.getD j 0) acc.u ab.2 0 = mc at *
    generalize had : adc acc.hi mc.2 0 = ad at *
    rw [hl] at m1
    simp only [dotJ] at hbound ⊢
    -- the true sum, before the wrapping addition into hi_carry
    have hsum : val mc.1 + B ^ n * ad.1 + B ^ (n + 1) * (acc.hiCarry + ad.2) =
        accT n acc + ab.1.getD j 0 * val ab.2 := by
      unfold accT
      rw [Nat.pow_succ]
      linear_combination m1 + B ^ n * a1
    have hlt : acc.hiCarry + ad.2 < B :=
      carry_lt_of_sum hsum (by
        have h2 : B ^ (n + 2) = B ^ (n + 1) * B := Nat.pow_succ ..
        rw [← h2]; omega)
    have hw' : wadd acc.hiCarry ad.2 = acc.hiCarry + ad.2 := Nat.mod_eq_of_lt hlt
    have hT' : accT n { u := mc.1, hi := ad.1, hiCarry := wadd acc.hiCarry ad.2 } =
        accT n acc + ab.1.getD j 0 * val ab.2 := by
      rw [← hsum, hw']; simp only [accT]
    have ⟨r1, r2, r3, r4⟩ := ih { u := mc.1, hi := ad.1, hiCarry := wadd acc.hiCarry ad.2 } hT.tail m2
      (by rw [m3, hl]) a2 (by rw [hT']; omega)
    exact ⟨by rw [r1, hT']; omega, r2, r3, r4⟩

/-! ### the Montgomery step closing an outer iteration -/

theorem reduceStep_cons (m0 k u0 hi hc : Nat) (mt ut : List Nat) :
    reduceStep (m0 :: mt) k { u := u0 :: ut, hi := hi, hiCarry := hc } =
      ((shiftChain (wmul u0 k) ut mt (mac u0 (wmul u0 k) m0 0).2).1 ++
          [(adc hi (shiftChain (wmul u0 k) ut mt (mac u0 (wmul u0 k) m0 0).2).2 0).1],
        wadd hc (adc hi (shiftChain (wmul u0 k) ut mt (mac u0 (wmul u0 k) m0 0).2).2 0).2) := rfl

/-- `B · (u' + hi_carry'·B^n) = (u + hi·B^n + hi_carry·B^(n+1)) + q·m` with `q` a word: the accumulator is
    divided by `B` exactly. -/
theorem reduceStep_spec {ms : List Nat} {k : Nat} (hms : WF ms) (hk : (k * val ms + 1) % B = 0) (acc : Acc)
    (hw : WF acc.u) (hl : acc.u.length = ms.length) (hMpos : 0 < val ms) (hh : acc.hi < B)
    (hbound : accT ms.length acc + B * val ms ≤ B ^ (ms.length + 2)) :
    (∃ q, q < B ∧ B * (val (reduceStep ms k acc).1 + B ^ ms.length * (reduceStep ms k acc).2) =
        accT ms.length acc + q * val ms) ∧
    WF (reduceStep ms k acc).1 ∧ (reduceStep ms k acc).1.length = ms.length := by
  obtain ⟨u, hi, hc⟩ := acc
  cases ms with
  | nil => simp at hMpos
  | cons m0 mt =>
    cases u with
    | nil => simp at hl
    | cons u0 ut =>
      simp only at hw hl hh
      have ⟨hu0, hut⟩ := WF_cons.mp hw
      have ⟨hm0, hmt⟩ := WF_cons.mp hms
      have hlt : ut.length = mt.length := by simpa using hl
      have hk0 : (k * m0 + 1) % B = 0 := by
        rw [val_cons] at hk
        have : k * (m0 + B * val mt) + 1 = (k * m0 + 1) + B * (k * val mt) := by ring
        rw [this, Nat.add_mul_mod_self_left] at hk
        exact hk
      have hq : wmul u0 k < B := Nat.mod_lt _ B_pos
      have hcancel := lowlimb_cancel hu0 hm0 hk0
      have ⟨_, _, hc0⟩ := mac_spec hu0 hq hm0 B_pos
      rw [reduceStep_cons, shiftChain_eq]
      have ⟨s1, s2, s3, s4⟩ := macChain_spec hq ut mt (mac u0 (wmul u0 k) m0 0).2 hut hmt hlt hc0
      generalize (mac u0 (wmul u0 k) m0 0).2 = c0 at *
      generalize macChain (wmul u0 k) ut mt c0 = sh at *
      have ⟨a1, a2⟩ := adc_spec hi sh.2 0
      generalize adc hi sh.2 0 = ad at *
      generalize hqq : wmul u0 k = q at *
      have hval : val (sh.1 ++ [ad.1]) = val sh.1 + B ^ mt.length * ad.1 := by
        rw [val_append, s3, hlt]; simp
      -- the true value before the wrapping addition into hi_carry
      have hsum : B * (val sh.1 + B ^ mt.length * ad.1 + B ^ mt.length * B * (hc + ad.2)) =
          accT (mt.length + 1) { u := u0 :: ut, hi := hi, hiCarry := hc } + q * val (m0 :: mt) := by
        unfold accT
        simp only [val_cons, Nat.pow_succ]
        rw [hlt] at s1
        linear_combination B * s1 + B * B ^ mt.length * a1 + hcancel.symm
      have hlt2 : hc + ad.2 < B := by
        refine carry_lt_of_div hsum hq hMpos ?_
        have h2 : B ^ ((m0 :: mt).length + 2) = B * (B ^ mt.length * B * B) := by
          simp only [List.length_cons, Nat.pow_succ]; ring
        rw [← h2]; exact hbound
      have hw' : wadd hc ad.2 = hc + ad.2 := Nat.mod_eq_of_lt hlt2
      refine ⟨⟨q, hq, ?_⟩, WF_append.mpr ⟨s2, WF_cons.mpr ⟨a2, WF_nil⟩⟩, by simp [s3, hlt]⟩
      simp only [List.length_cons]
      rw [hval, hw', ← hsum, Nat.pow_succ]

/-! ### the outer loop -/

theorem outerLoop_succ (terms : List (List Nat × List Nat)) (ms : List Nat) (k fuel j : Nat) (s : List Nat × Nat) :
    outerLoop terms ms k (fuel + 1) j s =
      outerLoop terms ms k fuel (j + 1)
        (reduceStep ms k (termsLoop j terms { u := s.1, hi := s.2, hiCarry := 0 })) := rfl

/-- pure arithmetic: from `Bj·U = L + Q·M` with `Q < Bj`, `L ≤ t·(Bj·M)`, `t·M ≤ Bn`: `U < Bn + M`. -/
theorem acc_lt {Bj Bn U L Q M t : Nat} (he : Bj * U = L + Q * M) (hQ : Q < Bj) (hL : L ≤ t * (Bj * M))
    (hcap : t * M ≤ Bn) (hM : 0 < M) : U < Bn + M := by
  have h1 : Q * M < Bj * M := Nat.mul_lt_mul_of_pos_right hQ hM
  have h2 : t * (Bj * M) = Bj * (t * M) := by ring
  have h3 : Bj * (t * M) ≤ Bj * Bn := Nat.mul_le_mul_left _ hcap
  have h4 : Bj * U < Bj * (Bn + M) := by rw [Nat.mul_add]; omega
  exact Nat.lt_of_mul_lt_mul_left h4

/-- invariant of `while j < nlimbs`: after `j` iterations `B^j·(u + hi_carry·B^n) = Σ (aᵢ mod B^j)·bᵢ + Q·m`
    with `Q < B^j`; at the end (`j = n`) the right-hand side is `Σ aᵢ·bᵢ + Q·m`. -/
theorem outerLoop_spec {ms : List Nat} {k : Nat} (hm : CB.Pow.ModOK ms k) {terms : List (List Nat × List Nat)}
    (hT : TermsOK ms.length (val ms) terms) (hcap : terms.length * val ms ≤ B ^ ms.length) :
    ∀ (fuel j : Nat) (s : List Nat × Nat), fuel + j = ms.length → WF s.1 → s.1.length = ms.length →
      (∃ Q, Q < B ^ j ∧ B ^ j * (val s.1 + B ^ ms.length * s.2) = lowDot j terms + Q * val ms) →
      WF (outerLoop terms ms k fuel j s).1 ∧ (outerLoop terms ms k fuel j s).1.length = ms.length ∧
      ∃ Q, Q < B ^ ms.length ∧
        B ^ ms.length * (val (outerLoop terms ms k fuel j s).1 + B ^ ms.length * (outerLoop terms ms k fuel j s).2)
          = valDot terms + Q * val ms := by
  intro fuel
  induction fuel with
  | zero =>
    intro j s hj hw hl ⟨Q, hQ, he⟩
    have : j = ms.length := by omega
    subst this
    exact ⟨hw, hl, Q, hQ, by rw [← lowDot_full hT]; exact he⟩
  | succ f ih =>
    intro j s hj hw hl ⟨Q, hQ, he⟩
    rw [outerLoop_succ]
    have hMlt : val ms < B ^ ms.length := val_lt hm.wf
    have hU := acc_lt he hQ (lowDot_le j hT) hcap hm.pos
    have hBn1 : B ^ (ms.length + 1) = B ^ ms.length * B := Nat.pow_succ ..
    have hBn2 : B ^ (ms.length + 2) = B ^ ms.length * B * B := by rw [Nat.pow_succ, Nat.pow_succ]
    have hB4 : 4 ≤ B := by decide
    have hBnpos : 0 < B ^ ms.length := Nat.pow_pos B_pos
    -- s.2 is 0 or 1
    have hs2 : s.2 < B := by
      apply Nat.lt_of_not_le
      intro hge
      have : B ^ ms.length * B ≤ B ^ ms.length * s.2 := Nat.mul_le_mul_left _ hge
      have : B ^ ms.length * 4 ≤ B ^ ms.length * B := Nat.mul_le_mul_left _ hB4
      omega
    have hdot := dotJ_le j hT
    have hdot' : dotJ j terms ≤ B ^ ms.length * B := by
      have : terms.length * (B * val ms) = (terms.length * val ms) * B := by ring
      rw [this] at hdot
      exact Nat.le_trans hdot (Nat.mul_le_mul_right _ hcap)
    have hacc0 : accT ms.length { u := s.1, hi := s.2, hiCarry := 0 } = val s.1 + B ^ ms.length * s.2 := by
      rw [accT_mk, Nat.mul_zero, Nat.add_zero]
    have h44 : 4 * (B ^ ms.length * B) ≤ B ^ ms.length * B * B := by
      rw [Nat.mul_comm 4]; exact Nat.mul_le_mul_left _ hB4
    have hBB : B ^ ms.length ≤ B ^ ms.length * B := Nat.le_mul_of_pos_right _ B_pos
    have ⟨t1, t2, t3, t4⟩ := termsLoop_spec (n := ms.length) (M := val ms) j terms
      { u := s.1, hi := s.2, hiCarry := 0 } hT hw hl hs2 (by rw [hacc0, hBn2]; omega)
    have hBM : B * val ms ≤ B ^ ms.length * B := by
      rw [Nat.mul_comm]; exact Nat.mul_le_mul_right _ (Nat.le_of_lt hMlt)
    have ⟨⟨q, hq, r1⟩, r2, r3⟩ := reduceStep_spec hm.wf hm.k _ t2 t3 hm.pos t4
      (by rw [t1, hacc0, hBn2]; omega)
    refine ih (j + 1) _ (by omega) r2 r3 ⟨Q + B ^ j * q, ?_, ?_⟩
    · have : B ^ j * q + B ^ j ≤ B ^ j * B := by
        have : B ^ j * (q + 1) ≤ B ^ j * B := Nat.mul_le_mul_left _ hq
        rw [Nat.mul_add, Nat.mul_one] at this; exact this
      rw [Nat.pow_succ]; omega
    · rw [lowDot_succ j hT, Nat.pow_succ, Nat.mul_assoc, r1, t1, hacc0]
      linear_combination he

/-- `impl_longa_monty_lincomb!` on at most `B^n / m` terms: the accumulator `U = u + hi_carry·B^n` satisfies
    `U·B^n ≡ Σ aᵢ·bᵢ (mod m)` and `U < 2m` (so `hi_carry ≤ 1`): the premise of `sub_mod_with_carry`. -/
theorem longa_spec {ms : List Nat} {k : Nat} (hm : CB.Pow.ModOK ms k) {terms : List (List Nat × List Nat)}
    (hT : TermsOK ms.length (val ms) terms) (hcap : terms.length * val ms ≤ B ^ ms.length) :
    WF (longa terms ms k).1 ∧ (longa terms ms k).1.length = ms.length ∧ (longa terms ms k).2 ≤ 1 ∧
    val (longa terms ms k).1 + B ^ ms.length * (longa terms ms k).2 < 2 * val ms ∧
    (val (longa terms ms k).1 + B ^ ms.length * (longa terms ms k).2) * B ^ ms.length ≡ valDot terms
      [MOD val ms] := by
  have ⟨hw, hl, Q, hQ, he⟩ := outerLoop_spec hm hT hcap ms.length 0 (uzero ms.length, 0) (by omega)
    (uzero_WF _) (by simp [uzero]) ⟨0, by simp, by simp [lowDot_zero, val_uzero]⟩
  unfold longa
  generalize outerLoop terms ms k ms.length 0 (uzero ms.length, 0) = r at *
  have hMlt : val ms < B ^ ms.length := val_lt hm.wf
  have hBnpos : 0 < B ^ ms.length := Nat.pow_pos B_pos
  have hvd := valDot_le hT
  -- U < 2m
  have hU : val r.1 + B ^ ms.length * r.2 < 2 * val ms := by
    have h1 : Q * val ms < B ^ ms.length * val ms := Nat.mul_lt_mul_of_pos_right hQ hm.pos
    have h2 : terms.length * (val ms * val ms) = (terms.length * val ms) * val ms := by ring
    have h3 : (terms.length * val ms) * val ms ≤ B ^ ms.length * val ms := Nat.mul_le_mul_right _ hcap
    have h4 : B ^ ms.length * (val r.1 + B ^ ms.length * r.2) < B ^ ms.length * (2 * val ms) := by
      have : B ^ ms.length * (2 * val ms) = B ^ ms.length * val ms + B ^ ms.length * val ms := by ring
      rw [this]; omega
    exact Nat.lt_of_mul_lt_mul_left h4
  refine ⟨hw, hl, ?_, hU, ?_⟩
  · apply Nat.le_of_lt_succ
    apply Nat.lt_of_not_le
    intro hge
    have : B ^ ms.length * 2 ≤ B ^ ms.length * r.2 := Nat.mul_le_mul_left _ hge
    omega
  · rw [Nat.mul_comm, he]
    exact (Nat.modEq_iff_dvd' (Nat.le_add_right _ _)).mpr ⟨Q, by rw [Nat.add_sub_cancel_left, Nat.mul_comm]⟩ |>.symm

end CB.Lincomb
