/-
  CB.Lemmas.C10Loop — the outer `divsteps` loop: invariants of `(f, g)` (oddness, gcd, size) and of
  `(d, e)` (range `(-2M, M)`, Bézout congruences) through any number of `jump`/`fg`/`de` trips.
-/
import CB.Lemmas.C10De
import CB.Lemmas.C10Conv
namespace CB.SafeGcd

/-- `gcd_of_matrix` needs only that `gcd(F, G)` is odd -/
theorem gcd_of_matrix' {t00 t01 t10 t11 F G F' G' : Int}
    (h0 : t00 * F + t01 * G = 2 ^ 62 * F') (h1 : t10 * F + t11 * G = 2 ^ 62 * G')
    (hdet : t00 * t11 - t01 * t10 = 2 ^ 62) (hF : F % 2 = 1 ∨ G % 2 = 1) :
    Int.gcd F' G' = Int.gcd F G := by
  have hp : (2 : Int) ^ 62 ≠ 0 := by positivity
  have eF : F = t11 * F' - t01 * G' := by
    apply mul_left_cancel₀ hp; linear_combination (-F) * hdet + t11 * h0 - t01 * h1
  have eG : G = t00 * G' - t10 * F' := by
    apply mul_left_cancel₀ hp; linear_combination (-G) * hdet + t00 * h1 - t10 * h0
  apply Nat.dvd_antisymm
  · have d1 : ((Int.gcd F' G' : Nat) : Int) ∣ F' := Int.gcd_dvd_left _ _
    have d2 : ((Int.gcd F' G' : Nat) : Int) ∣ G' := Int.gcd_dvd_right _ _
    have dF : ((Int.gcd F' G' : Nat) : Int) ∣ F := by
      rw [eF]; exact dvd_sub (Dvd.dvd.mul_left d1 _) (Dvd.dvd.mul_left d2 _)
    have dG : ((Int.gcd F' G' : Nat) : Int) ∣ G := by
      rw [eG]; exact dvd_sub (Dvd.dvd.mul_left d2 _) (Dvd.dvd.mul_left d1 _)
    exact Int.natCast_dvd_natCast.mp (Int.dvd_coe_gcd dF dG)
  · have d1 : ((Int.gcd F G : Nat) : Int) ∣ F := Int.gcd_dvd_left _ _
    have d2 : ((Int.gcd F G : Nat) : Int) ∣ G := Int.gcd_dvd_right _ _
    have hodd : ((Int.gcd F G : Nat) : Int) % 2 = 1 := by
      rcases Int.emod_two_eq_zero_or_one ((Int.gcd F G : Nat) : Int) with h | h
      · exfalso
        rcases hF with hF | hF
        · obtain ⟨c, hc⟩ := d1
          have : F % 2 = 0 := by rw [hc, Int.mul_emod, h]; simp
          omega
        · obtain ⟨c, hc⟩ := d2
          have : G % 2 = 0 := by rw [hc, Int.mul_emod, h]; simp
          omega
      · exact h
    have hcop : IsCoprime ((Int.gcd F G : Nat) : Int) (2 ^ 62) := by
      apply IsCoprime.pow_right
      exact ⟨1, -(((Int.gcd F G : Nat) : Int) / 2), by omega⟩
    have e1 : ((Int.gcd F G : Nat) : Int) ∣ 2 ^ 62 * F' := by
      rw [← h0]; exact dvd_add (Dvd.dvd.mul_left d1 _) (Dvd.dvd.mul_left d2 _)
    have e2 : ((Int.gcd F G : Nat) : Int) ∣ 2 ^ 62 * G' := by
      rw [← h1]; exact dvd_add (Dvd.dvd.mul_left d1 _) (Dvd.dvd.mul_left d2 _)
    exact Int.natCast_dvd_natCast.mp
      (Int.dvd_coe_gcd (hcop.dvd_of_dvd_mul_left e1) (hcop.dvd_of_dvd_mul_left e2))

/-- `jump` seen from the full-width operands `F ≡ fl`, `G ≡ gl (mod 2^62)`, `F` odd -/
theorem jump_on_full (f g : List Nat) (delta : Int) (F G : Int)
    (hfl : f.headD 0 < 2 ^ 62) (hgl : g.headD 0 < 2 ^ 62)
    (hF : ((f.headD 0 : Nat) : Int) ≡ F [ZMOD 2 ^ 62]) (hG : ((g.headD 0 : Nat) : Int) ≡ G [ZMOD 2 ^ 62])
    (hodd : F % 2 = 1) :
    ∃ F' G' : Int,
      (jump f g delta).2.t00 * F + (jump f g delta).2.t01 * G = 2 ^ 62 * F' ∧
      (jump f g delta).2.t10 * F + (jump f g delta).2.t11 * G = 2 ^ 62 * G' ∧
      |(jump f g delta).2.t00| + |(jump f g delta).2.t01| ≤ 2 ^ 62 ∧
      |(jump f g delta).2.t10| + |(jump f g delta).2.t11| ≤ 2 ^ 62 ∧
      F' % 2 = 1 ∧ Int.gcd F' G' = Int.gcd F G := by
  obtain ⟨A, hA⟩ := Int.modEq_iff_dvd.mp hF
  obtain ⟨B, hB⟩ := Int.modEq_iff_dvd.mp hG
  have eF : F = (f.headD 0 : Nat) + 2 ^ 62 * A := by linarith
  have eG : G = (g.headD 0 : Nat) + 2 ^ 62 * B := by linarith
  have hflodd : f.headD 0 % 2 = 1 := by
    have h2 : ((f.headD 0 : Nat) : Int) ≡ F [ZMOD 2] := hF.of_dvd ⟨2 ^ 61, by norm_num⟩
    have : ((f.headD 0 : Nat) : Int) % 2 = 1 := by rw [h2.eq]; exact hodd
    omega
  obtain ⟨_, _, _, _, b0, b1, _, _⟩ := jump_spec f g delta hfl hgl (Or.inl hflodd)
  obtain ⟨F', G', h0, h1, ho, hg⟩ := jump_full f g delta hfl hgl A B hflodd
  rw [← eF, ← eG] at h0 h1 hg
  exact ⟨F', G', h0, h1, b0, b1, ho, hg⟩

/-! ### the `(f, g)` half of a trip -/

structure FGI (n : Nat) (Bd : Int) (gs : Nat) (s : DS) : Prop where
  lf : s.f.length = n
  lg : s.g.length = n
  wf : WF62 s.f
  wg : WF62 s.g
  odd : uval s.f % 2 = 1
  bf : |uval s.f| ≤ Bd
  bg : |uval s.g| ≤ Bd
  gcd : Int.gcd (uval s.f) (uval s.g) = gs

theorem headD_lt_of_WF62 (l : List Nat) (h : WF62 l) : l.headD 0 < 2 ^ 62 := by
  cases l with
  | nil => simp
  | cons x xs => exact (WF62_cons.mp h).1

theorem abs_lincomb_le {a b F G Bd : Int} (hab : |a| + |b| ≤ 2 ^ 62) (hF : |F| ≤ Bd) (hG : |G| ≤ Bd) :
    |a * F + b * G| ≤ 2 ^ 62 * Bd := by
  have hB : 0 ≤ Bd := le_trans (abs_nonneg _) hF
  calc |a * F + b * G| ≤ |a * F| + |b * G| := abs_add_le _ _
    _ = |a| * |F| + |b| * |G| := by rw [abs_mul, abs_mul]
    _ ≤ |a| * Bd + |b| * Bd :=
      add_le_add (mul_le_mul_of_nonneg_left hF (abs_nonneg _)) (mul_le_mul_of_nonneg_left hG (abs_nonneg _))
    _ = (|a| + |b|) * Bd := by ring
    _ ≤ 2 ^ 62 * Bd := mul_le_mul_of_nonneg_right hab hB

theorem dsStep_f (f0 : List Nat) (inverse : Int) (s : DS) :
    (dsStep f0 inverse s).f = (fg s.f s.g (jump s.f s.g s.delta).2).1 := rfl
theorem dsStep_g (f0 : List Nat) (inverse : Int) (s : DS) :
    (dsStep f0 inverse s).g = (fg s.f s.g (jump s.f s.g s.delta).2).2 := rfl
theorem dsStep_d (f0 : List Nat) (inverse : Int) (s : DS) :
    (dsStep f0 inverse s).d = (de f0 inverse (jump s.f s.g s.delta).2 s.d s.e).1 := rfl
theorem dsStep_e (f0 : List Nat) (inverse : Int) (s : DS) :
    (dsStep f0 inverse s).e = (de f0 inverse (jump s.f s.g s.delta).2 s.d s.e).2 := rfl

/-- one trip keeps the `(f, g)` invariant and yields the exact matrix identities -/
theorem fg_step (n : Nat) (Bd : Int) (gs : Nat) (hn : 2 ≤ n) (hcap : 2 ^ 64 * Bd ≤ ((Q ^ n : Nat) : Int))
    (f0 : List Nat) (inverse : Int) (s : DS) (h : FGI n Bd gs s) :
    FGI n Bd gs (dsStep f0 inverse s) ∧
    |(jump s.f s.g s.delta).2.t00| + |(jump s.f s.g s.delta).2.t01| ≤ 2 ^ 62 ∧
    |(jump s.f s.g s.delta).2.t10| + |(jump s.f s.g s.delta).2.t11| ≤ 2 ^ 62 ∧
    (jump s.f s.g s.delta).2.t00 * uval s.f + (jump s.f s.g s.delta).2.t01 * uval s.g
      = 2 ^ 62 * uval (dsStep f0 inverse s).f ∧
    (jump s.f s.g s.delta).2.t10 * uval s.f + (jump s.f s.g s.delta).2.t11 * uval s.g
      = 2 ^ 62 * uval (dsStep f0 inverse s).g := by
  have hnef : s.f ≠ [] := by intro h0; have := h.lf; rw [h0] at this; simp at this; omega
  have hneg : s.g ≠ [] := by intro h0; have := h.lg; rw [h0] at this; simp at this; omega
  have hF := ulowest_modEq s.f h.wf hnef
  have hG := ulowest_modEq s.g h.wg hneg
  rw [Qi_eq] at hF hG
  obtain ⟨F', G', h0, h1, b0, b1, ho, hg⟩ := jump_on_full s.f s.g s.delta (uval s.f) (uval s.g)
    (headD_lt_of_WF62 _ h.wf) (headD_lt_of_WF62 _ h.wg) hF hG h.odd
  have ef := dsStep_f f0 inverse s
  have eg := dsStep_g f0 inverse s
  generalize (jump s.f s.g s.delta).2 = T at *
  have hBd1 : 1 ≤ Bd := by
    have : uval s.f ≠ 0 := by intro h0; have := h.odd; rw [h0] at this; simp at this
    have := abs_pos.mpr this
    linarith [h.bf]
  have hr0 := abs_le.mp (abs_lincomb_le b0 h.bf h.bg)
  have hr1 := abs_le.mp (abs_lincomb_le b1 h.bf h.bg)
  have hlenf : 2 ≤ s.f.length := by rw [h.lf]; exact hn
  obtain ⟨p1, p2, p3, q1, q2, q3⟩ := fg_spec s.f s.g T h.wf h.wg (by rw [h.lf, h.lg]) hlenf b0 b1
    (by rw [h.lf]; linarith [hr0.1]) (by rw [h.lf]; linarith [hr0.2])
    (by rw [h.lf]; linarith [hr1.1]) (by rw [h.lf]; linarith [hr1.2])
  have hdiv0 : (T.t00 * uval s.f + T.t01 * uval s.g) / (Q : Int) = F' := by
    rw [h0, Qi_eq]; exact Int.mul_ediv_cancel_left _ (by norm_num)
  have hdiv1 : (T.t10 * uval s.f + T.t11 * uval s.g) / (Q : Int) = G' := by
    rw [h1, Qi_eq]; exact Int.mul_ediv_cancel_left _ (by norm_num)
  rw [hdiv0] at p3; rw [hdiv1] at q3
  have hbF' : |F'| ≤ Bd := by
    have : |(2 : Int) ^ 62 * F'| ≤ 2 ^ 62 * Bd := by rw [← h0]; exact abs_lincomb_le b0 h.bf h.bg
    rw [abs_mul, abs_of_pos (by positivity : (0 : Int) < 2 ^ 62)] at this
    exact le_of_mul_le_mul_left this (by positivity)
  have hbG' : |G'| ≤ Bd := by
    have : |(2 : Int) ^ 62 * G'| ≤ 2 ^ 62 * Bd := by rw [← h1]; exact abs_lincomb_le b1 h.bf h.bg
    rw [abs_mul, abs_of_pos (by positivity : (0 : Int) < 2 ^ 62)] at this
    exact le_of_mul_le_mul_left this (by positivity)
  refine ⟨⟨by rw [ef, p1, h.lf], by rw [eg, q1, h.lf], by rw [ef]; exact p2,
    by rw [eg]; exact q2, by rw [ef, p3]; exact ho, by rw [ef, p3]; exact hbF',
    by rw [eg, q3]; exact hbG', by rw [ef, eg, p3, q3, hg]; exact h.gcd⟩, b0, b1, ?_, ?_⟩
  · rw [ef, p3]; exact h0
  · rw [eg, q3]; exact h1

/-! ### the `(d, e)` half of a trip -/

structure DEI (n : Nat) (m : List Nat) (x adj : Int) (s : DS) : Prop where
  ld : s.d.length = n
  le : s.e.length = n
  wd : WF62 s.d
  we : WF62 s.e
  d1 : -(2 * uval m) < uval s.d
  d2 : uval s.d < uval m
  e1 : -(2 * uval m) < uval s.e
  e2 : uval s.e < uval m
  cd : uval s.d * x ≡ uval s.f * adj [ZMOD uval m]
  ce : uval s.e * x ≡ uval s.g * adj [ZMOD uval m]

theorem cancel_pow62 {M a b : Int} (hM : M % 2 = 1) (h : 2 ^ 62 * a ≡ 2 ^ 62 * b [ZMOD M]) :
    a ≡ b [ZMOD M] := by
  have hd := Int.modEq_iff_dvd.mp h
  have e : (2 : Int) ^ 62 * b - 2 ^ 62 * a = 2 ^ 62 * (b - a) := by ring
  rw [e] at hd
  have hcop : IsCoprime M (2 ^ 62) := by
    apply IsCoprime.pow_right
    exact ⟨1, -(M / 2), by omega⟩
  exact Int.modEq_iff_dvd.mpr (hcop.dvd_of_dvd_mul_left hd)

theorem de_step (n : Nat) (Bd : Int) (gs : Nat) (hn : 2 ≤ n) (hcap : 2 ^ 64 * Bd ≤ ((Q ^ n : Nat) : Int))
    (m : List Nat) (inverse x adj : Int) (hm : WF62 m) (hlm : m.length = n)
    (hM : 0 < uval m) (hModd : uval m % 2 = 1) (hMB : uval m ≤ Bd)
    (hinv : inverse * uval m ≡ 1 [ZMOD 2 ^ 62])
    (s : DS) (hfg : FGI n Bd gs s) (h : DEI n m x adj s) :
    DEI n m x adj (dsStep m inverse s) := by
  obtain ⟨_, b0, b1, i0, i1⟩ := fg_step n Bd gs hn hcap m inverse s hfg
  have hcapM : 2 ^ 64 * uval m ≤ ((Q ^ s.d.length : Nat) : Int) := by
    rw [h.ld]; nlinarith
  obtain ⟨md, me, a1, a2, a3, a4, a5, a6, a7, a8, a9, a10⟩ := de_spec m s.d s.e inverse
    (jump s.f s.g s.delta).2 h.wd h.we hm (by rw [h.ld, h.le]) (by rw [h.ld, hlm])
    (by rw [h.ld]; exact hn) b0 b1 hM h.d1 h.d2 h.e1 h.e2 hcapM hinv
  have ed := dsStep_d m inverse s
  have ee := dsStep_e m inverse s
  generalize (jump s.f s.g s.delta).2 = T at *
  rw [← ed] at a1 a2 a5 a7 a8
  rw [← ee] at a3 a4 a6 a9 a10
  refine ⟨by rw [a1, h.ld], by rw [a3, h.ld], a2, a4, a7, a8, a9, a10, ?_, ?_⟩
  · apply cancel_pow62 hModd
    have hmz : md * uval m * x ≡ 0 [ZMOD uval m] := Int.modEq_zero_iff_dvd.mpr ⟨md * x, by ring⟩
    calc 2 ^ 62 * (uval (dsStep m inverse s).d * x)
        = T.t00 * (uval s.d * x) + T.t01 * (uval s.e * x) + md * uval m * x := by
          rw [← mul_assoc, a5]; ring
      _ ≡ T.t00 * (uval s.f * adj) + T.t01 * (uval s.g * adj) + 0 [ZMOD uval m] :=
          Int.ModEq.add (Int.ModEq.add (Int.ModEq.mul_left _ h.cd) (Int.ModEq.mul_left _ h.ce)) hmz
      _ = 2 ^ 62 * (uval (dsStep m inverse s).f * adj) := by linear_combination adj * i0
  · apply cancel_pow62 hModd
    have hmz : me * uval m * x ≡ 0 [ZMOD uval m] := Int.modEq_zero_iff_dvd.mpr ⟨me * x, by ring⟩
    calc 2 ^ 62 * (uval (dsStep m inverse s).e * x)
        = T.t10 * (uval s.d * x) + T.t11 * (uval s.e * x) + me * uval m * x := by
          rw [← mul_assoc, a6]; ring
      _ ≡ T.t10 * (uval s.f * adj) + T.t11 * (uval s.g * adj) + 0 [ZMOD uval m] :=
          Int.ModEq.add (Int.ModEq.add (Int.ModEq.mul_left _ h.cd) (Int.ModEq.mul_left _ h.ce)) hmz
      _ = 2 ^ 62 * (uval (dsStep m inverse s).g * adj) := by linear_combination adj * i1

/-- any number of trips keeps both invariants -/
theorem dsLoop_inv (n : Nat) (Bd : Int) (gs : Nat) (hn : 2 ≤ n) (hcap : 2 ^ 64 * Bd ≤ ((Q ^ n : Nat) : Int))
    (m : List Nat) (inverse x adj : Int) (hm : WF62 m) (hlm : m.length = n)
    (hM : 0 < uval m) (hModd : uval m % 2 = 1) (hMB : uval m ≤ Bd)
    (hinv : inverse * uval m ≡ 1 [ZMOD 2 ^ 62]) :
    ∀ k s, FGI n Bd gs s → DEI n m x adj s →
      FGI n Bd gs (dsLoop m inverse k s) ∧ DEI n m x adj (dsLoop m inverse k s) := by
  intro k
  induction k with
  | zero => intro s h1 h2; exact ⟨h1, h2⟩
  | succ j ih =>
    intro s h1 h2
    have e : dsLoop m inverse (j + 1) s = dsLoop m inverse j (dsStep m inverse s) := rfl
    rw [e]
    exact ih _ (fg_step n Bd gs hn hcap m inverse s h1).1
      (de_step n Bd gs hn hcap m inverse x adj hm hlm hM hModd hMB hinv s h1 h2)

/-- the `(f, g)` invariant alone (gcd: `d`, `e` are discarded) -/
theorem dsLoop_fg (n : Nat) (Bd : Int) (gs : Nat) (hn : 2 ≤ n) (hcap : 2 ^ 64 * Bd ≤ ((Q ^ n : Nat) : Int))
    (f0 : List Nat) (inverse : Int) :
    ∀ k s, FGI n Bd gs s → FGI n Bd gs (dsLoop f0 inverse k s) := by
  intro k
  induction k with
  | zero => intro s h1; exact h1
  | succ j ih =>
    intro s h1
    have e : dsLoop f0 inverse (j + 1) s = dsLoop f0 inverse j (dsStep f0 inverse s) := rfl
    rw [e]
    exact ih _ (fg_step n Bd gs hn hcap f0 inverse s h1).1

/-- the vartime loop is the fixed loop for some number of trips -/
theorem dsVtLoop_eq (f0 : List Nat) (inverse : Int) : ∀ fuel s c,
    ∃ k, (dsVtLoop f0 inverse fuel s c).1 = dsLoop f0 inverse k s := by
  intro fuel
  induction fuel with
  | zero => intro s c; exact ⟨0, rfl⟩
  | succ j ih =>
    intro s c
    have e : dsVtLoop f0 inverse (j + 1) s c =
        if ueq s.g (uzero s.g.length) then (s, c)
        else dsVtLoop f0 inverse j (dsStep f0 inverse s) (c + 1) := rfl
    rw [e]
    split
    · exact ⟨0, rfl⟩
    · obtain ⟨k, hk⟩ := ih (dsStep f0 inverse s) (c + 1)
      exact ⟨k + 1, hk⟩

end CB.SafeGcd
