/-
  CB.Lemmas.C02Div3by2 — `div3by2` (Knuth's Algorithm Q step as written in div_limb.rs: capped
  2-by-1 estimate, two masked correction rounds on a wide remainder) returns exactly
  `min(⌊(u2 B² + u1 B + u0) / (v1 B + v0)⌋, B − 1)`.
-/
import CB.Lemmas.C02Div2by1
import Mathlib.Tactic.Linarith
import Mathlib.Tactic.Ring
import Mathlib.Tactic.Zify
namespace CB.Div
open CB

theorem mulB_or {a u0 : Nat} (hu0 : u0 < B) : (a * B) ||| u0 = a * B + u0 := by
  have := Nat.shiftLeft_add_eq_or_of_lt (i := 64) (b := u0) (by rw [← B_eq_pow]; exact hu0) a
  rw [Nat.shiftLeft_eq, ← B_eq_pow] at this
  exact this.symm

theorem fromWordNonzero_eq {x : Nat} (hx : x < B) : fromWordNonzero x = if x = 0 then 0 else WMAX := by
  rw [fromWordNonzero_spec hx]; by_cases h : x = 0 <;> simp [h, mask]

theorem fromWideWordLe_eq {x y : Nat} (hx : x < B * B) (hy : y < B * B) :
    fromWideWordLe x y = if x ≤ y then WMAX else 0 := by
  rw [fromWideWordLe_spec hx hy]; by_cases h : x ≤ y <;> simp [h, mask]

theorem selectWideWord_max {a b : Nat} (ha : a < B * B) (hb : b < B * B) : selectWideWord a b WMAX = b := by
  have := selectWideWord_spec true ha hb; simpa [mask] using this
theorem selectWideWord_zero {a b : Nat} (ha : a < B * B) (hb : b < B * B) : selectWideWord a b 0 = a := by
  have := selectWideWord_spec false ha hb; simpa [mask] using this

theorem B_le_BB : B ≤ B * B := by decide
theorem WMAX_or (x : Nat) (hx : x = 0 ∨ x = WMAX) : WMAX ||| x = WMAX := by
  rcases hx with h | h <;> subst h <;> decide
theorem zero_or' (x : Nat) : 0 ||| x = x := Nat.zero_or x

/-- one correction round: with the invariant `quo·v1 + rem = u2 B + u1`, the round decrements `quo`
    exactly when `quo·(v1 B + v0) > u3`. -/
theorem div3by2Round_spec {u0 v0 v1 num quo rem : Nat} (hu0 : u0 < B) (hv0 : v0 < B) (hv1 : v1 < B)
    (hquo : quo < B) (hrem : rem < 2 * B) (hinv : quo * v1 + rem = num) :
    div3by2Round u0 v0 v1 (quo, rem) =
      if quo * (v1 * B + v0) ≤ num * B + u0 then (quo, rem) else (quo - 1, rem + v1) := by
  have hBB : B * B = B * B := rfl
  have hqy : quo * v0 < B * B := Nat.mul_lt_mul'' hquo hv0
  have hrx : ((rem * B) % (B * B)) ||| u0 < B * B := by
    rw [BB_eq_pow]
    exact Nat.or_lt_two_pow (by rw [← BB_eq_pow]; exact Nat.mod_lt _ (by decide))
      (by rw [← BB_eq_pow]; exact Nat.lt_of_lt_of_le hu0 B_le_BB)
  have hremBB : rem < B * B := by
    have : 2 * B ≤ B * B := by decide
    omega
  have hsumlt : rem + v1 < B * B := by
    have : 3 * B ≤ B * B := by decide
    omega
  have hsum : (rem + v1) % (B * B) = rem + v1 := Nat.mod_eq_of_lt hsumlt
  have hrd : rem / B % B < B := Nat.mod_lt _ B_pos
  have hle := fromWideWordLe_eq hqy hrx
  -- the decision as a proposition
  have key : quo * (v1 * B + v0) ≤ num * B + u0 ↔ (B ≤ rem ∨ quo * v0 ≤ rem * B + u0) := by
    have e : quo * (v1 * B + v0) + rem * B = num * B + quo * v0 := by
      rw [← hinv]; ring
    constructor
    · intro h
      by_cases hb : B ≤ rem
      · exact Or.inl hb
      · right; omega
    · intro h
      rcases h with h | h
      · have : B * B ≤ rem * B := Nat.mul_le_mul_right B h
        omega
      · omega
  unfold div3by2Round
  simp only [hsum]
  by_cases hb : B ≤ rem
  · -- remainder overflowed a word: done
    have h1 : rem / B % B ≠ 0 := by
      have : rem / B = 1 := by
        have h1 : 1 ≤ rem / B := (Nat.le_div_iff_mul_le B_pos).mpr (by omega)
        have h2 : rem / B < 2 := (Nat.div_lt_iff_lt_mul B_pos).mpr hrem
        omega
      rw [this]; decide
    have hm : fromWideWordLe (quo * v0) (rem * B % (B * B) ||| u0) = 0 ∨
        fromWideWordLe (quo * v0) (rem * B % (B * B) ||| u0) = WMAX := by
      rw [hle]; split <;> simp
    rw [fromWordNonzero_eq hrd, if_neg h1, WMAX_or _ hm, selectWord_max (wslt _ _) hquo,
      selectWideWord_max hsumlt hremBB, if_pos (key.mpr (Or.inl hb))]
  · have h1 : rem / B % B = 0 := by
      rw [Nat.div_eq_of_lt (by omega), Nat.zero_mod]
    have hrB : rem * B % (B * B) = rem * B := Nat.mod_eq_of_lt (Nat.mul_lt_mul_of_pos_right (by omega) B_pos)
    rw [fromWordNonzero_eq hrd, if_pos h1, zero_or', hle, hrB, mulB_or hu0]
    by_cases hc : quo * v0 ≤ rem * B + u0
    · rw [if_pos hc, selectWord_max (wslt _ _) hquo, selectWideWord_max hsumlt hremBB,
        if_pos (key.mpr (Or.inr hc))]
    · have hnk : ¬ quo * (v1 * B + v0) ≤ num * B + u0 := by
        rw [key, not_or]; exact ⟨by omega, by omega⟩
      have hq1 : 1 ≤ quo := by
        rcases Nat.eq_zero_or_pos quo with h | h
        · subst h; simp at hc
        · exact h
      have hws : wsub quo 1 = quo - 1 := by
        clear key hle hrx hsum hnk hc hrB h1 hqy hinv
        simp only [wsub, B_def] at *; omega
      rw [if_neg hc, selectWord_zero (wslt _ _) hquo, selectWideWord_zero hsumlt hremBB, if_neg hnk, hws]

/-- Knuth's Theorem B for the capped estimate: it exceeds the 3-by-2 quotient by at most 2. -/
theorem qhat0_le {v1 v0 num u0 quo : Nat} (hv1 : HALF ≤ v1) (hv0 : v0 < B)
    (hquo : quo < B) (hle : quo * v1 ≤ num) :
    quo ≤ min ((num * B + u0) / (v1 * B + v0)) (B - 1) + 2 := by
  have hv2pos : 0 < v1 * B + v0 := by
    have : 0 < v1 := Nat.lt_of_lt_of_le (by decide) hv1
    have := Nat.mul_pos this B_pos
    omega
  by_contra hc
  have hc : min ((num * B + u0) / (v1 * B + v0)) (B - 1) + 3 ≤ quo := by omega
  have hq3 : (num * B + u0) / (v1 * B + v0) + 3 ≤ quo := by
    have : min ((num * B + u0) / (v1 * B + v0)) (B - 1) = (num * B + u0) / (v1 * B + v0) := by
      apply Nat.min_eq_left
      by_contra h
      have : min ((num * B + u0) / (v1 * B + v0)) (B - 1) = B - 1 := Nat.min_eq_right (by omega)
      omega
    omega
  have hlt : num * B + u0 < (v1 * B + v0) * ((num * B + u0) / (v1 * B + v0) + 1) :=
    Nat.lt_mul_div_succ _ hv2pos
  generalize (num * B + u0) / (v1 * B + v0) = t at hq3 hlt
  obtain ⟨a, rfl⟩ : ∃ a, quo = a + 2 := ⟨quo - 2, by omega⟩
  have h1 : (v1 * B + v0) * (t + 1) ≤ (v1 * B + v0) * a := Nat.mul_le_mul_left _ (by omega)
  have e1 : (v1 * B + v0) * a = a * v1 * B + a * v0 := by ring
  have e2 : (a + 2) * v1 * B = a * v1 * B + 2 * (v1 * B) := by ring
  have h2 : (a + 2) * v1 * B ≤ num * B := Nat.mul_le_mul_right B hle
  have h3 : a * v0 < B * B := Nat.mul_lt_mul'' (by omega) hv0
  have h4 : HALF * B ≤ v1 * B := Nat.mul_le_mul_right B hv1
  have h5 : 2 * (HALF * B) = B * B := by decide
  omega

theorem qhat0_ge {v1 v0 num u0 : Nat} (hv1 : 0 < v1) (hu0 : u0 < B) :
    (num * B + u0) / (v1 * B + v0) ≤ num / v1 := by
  have hv2pos : 0 < v1 * B + v0 := by
    have := Nat.mul_pos hv1 B_pos
    omega
  rw [Nat.le_div_iff_mul_le hv1]
  have h1 := Nat.div_mul_le_self (num * B + u0) (v1 * B + v0)
  generalize (num * B + u0) / (v1 * B + v0) = t at *
  have e1 : t * (v1 * B + v0) = t * v1 * B + t * v0 := by ring
  have : t * v1 * B < (num + 1) * B := by
    rw [Nat.add_mul, Nat.one_mul]; omega
  have := Nat.lt_of_mul_lt_mul_right this
  omega

/-- no correction is attempted once the wide remainder exceeds a word -/
theorem rem_lt_of_not_done {v1 v0 num u0 quo rem : Nat} (hv0 : v0 < B) (hquo : quo < B)
    (hinv : quo * v1 + rem = num) (hnd : ¬ quo * (v1 * B + v0) ≤ num * B + u0) : rem < B := by
  by_contra hb
  have e : quo * (v1 * B + v0) + rem * B = num * B + quo * v0 := by rw [← hinv]; ring
  have h1 : B * B ≤ rem * B := Nat.mul_le_mul_right B (by omega)
  have h2 : quo * v0 < B * B := Nat.mul_lt_mul'' hquo hv0
  omega

theorem iter_two {α : Type} (f : α → α) (a : α) : iter f 2 a = f (f a) := rfl

/-- **T02.5** `div3by2` returns `min(⌊u3 / v2⌋, B − 1)` for a normalised divisor and `u2 ≤ v1`. -/
theorem div3by2_exact {rc : Reciprocal} {u2 u1 u0 v0 : Nat}
    (hd1 : HALF ≤ rc.divisorNormalized) (hd2 : rc.divisorNormalized < B)
    (hv : rc.reciprocal = reciprocalSpec rc.divisorNormalized)
    (hu2 : u2 ≤ rc.divisorNormalized) (hu1 : u1 < B) (hu0 : u0 < B) (hv0 : v0 < B) :
    div3by2 u2 u1 u0 rc v0 =
      min (((u2 * B + u1) * B + u0) / (rc.divisorNormalized * B + v0)) (B - 1) := by
  have hdpos : 0 < rc.divisorNormalized := Nat.lt_of_lt_of_le (by decide) hd1
  have hu2B : u2 < B := by omega
  -- the capped initial estimate with its invariant
  have init : ∃ quo rem, (selectWord (div2by1 (selectWord u2 0 (fromWordEq u2 rc.divisorNormalized)) u1 rc).1 WMAX
        (fromWordEq u2 rc.divisorNormalized),
      selectWideWord (div2by1 (selectWord u2 0 (fromWordEq u2 rc.divisorNormalized)) u1 rc).2 (u2 + u1)
        (fromWordEq u2 rc.divisorNormalized)) = (quo, rem) ∧
      quo < B ∧ rem < 2 * B ∧ quo * rc.divisorNormalized + rem = u2 * B + u1 ∧
      min (((u2 * B + u1) * B + u0) / (rc.divisorNormalized * B + v0)) (B - 1) ≤ quo := by
    rw [fromWordEq_eq hu2B hd2]
    by_cases he : u2 = rc.divisorNormalized
    · rw [if_pos he, selectWord_max hu2B (by decide)]
      have hq := div2by1_exact (u1 := 0) (u0 := u1) hd1 hd2 hv hdpos hu1
      rw [hq]
      have hqlt : (0 * B + u1) / rc.divisorNormalized < B := by
        rw [Nat.zero_mul, Nat.zero_add]
        exact Nat.lt_of_le_of_lt (Nat.div_le_self _ _) hu1
      have hrlt : (0 * B + u1) % rc.divisorNormalized < B * B :=
        Nat.lt_of_lt_of_le (Nat.lt_trans (Nat.mod_lt _ hdpos) hd2) B_le_BB
      have hs : u2 + u1 < B * B := by
        have : 2 * B ≤ B * B := by decide
        omega
      rw [selectWord_max hqlt (by decide), selectWideWord_max hrlt hs]
      refine ⟨WMAX, u2 + u1, rfl, by decide, by omega, ?_, ?_⟩
      · rw [← he]
        have : WMAX * u2 + u2 = u2 * B := by
          have : WMAX + 1 = B := by decide
          rw [← this, Nat.mul_add, Nat.mul_one, Nat.mul_comm]
        omega
      · have : WMAX = B - 1 := by decide
        rw [this]; exact Nat.min_le_right _ _
    · have hlt : u2 < rc.divisorNormalized := by omega
      rw [if_neg he, selectWord_zero hu2B (by decide)]
      have hq := div2by1_exact (u1 := u2) (u0 := u1) hd1 hd2 hv hlt hu1
      rw [hq]
      have hqlt : (u2 * B + u1) / rc.divisorNormalized < B := by
        rw [Nat.div_lt_iff_lt_mul hdpos]
        have : (u2 + 1) * B ≤ rc.divisorNormalized * B := Nat.mul_le_mul_right B (by omega)
        rw [Nat.add_mul, Nat.one_mul] at this
        rw [Nat.mul_comm B]; omega
      have hrlt' := Nat.mod_lt (u2 * B + u1) hdpos
      have hrlt : (u2 * B + u1) % rc.divisorNormalized < B * B :=
        Nat.lt_of_lt_of_le (Nat.lt_trans hrlt' hd2) B_le_BB
      have hs : u2 + u1 < B * B := by
        have : 2 * B ≤ B * B := by decide
        omega
      rw [selectWord_zero hqlt (by decide), selectWideWord_zero hrlt hs]
      refine ⟨_, _, rfl, hqlt, by omega, ?_, ?_⟩
      · rw [Nat.mul_comm]; exact Nat.div_add_mod _ _
      · exact Nat.le_trans (Nat.min_le_left _ _) (qhat0_ge hdpos hu0)
  obtain ⟨quo, rem, hinit, hquo, hrem, hinv, hge⟩ := init
  unfold div3by2
  simp only [hinit]
  generalize hd : rc.divisorNormalized = d at *
  generalize hnum : u2 * B + u1 = num at *
  have hv2pos : 0 < d * B + v0 := by
    have := Nat.mul_pos hdpos B_pos
    omega
  have hub := qhat0_le (u0 := u0) hd1 hv0 hquo (by omega : quo * d ≤ num)
  generalize hq3 : min ((num * B + u0) / (d * B + v0)) (B - 1) = q3 at *
  -- a candidate passes the test exactly when it does not exceed q3
  have test : ∀ c, c < B → (c * (d * B + v0) ≤ num * B + u0 ↔ c ≤ q3) := by
    intro c hc
    rw [← hq3, ← Nat.le_div_iff_mul_le hv2pos]
    constructor
    · intro h; exact Nat.le_min.mpr ⟨h, by omega⟩
    · intro h; exact (Nat.le_min.mp h).1
  show (iter (div3by2Round u0 v0 d) div3by2Rounds (quo, rem)).1 = q3
  rw [show div3by2Rounds = 2 from rfl, iter_two]
  rw [div3by2Round_spec hu0 hv0 hd2 hquo hrem hinv]
  by_cases h1 : quo * (d * B + v0) ≤ num * B + u0
  · -- already exact; the second round is a no-op too
    rw [if_pos h1, div3by2Round_spec hu0 hv0 hd2 hquo hrem hinv, if_pos h1]
    have := (test quo hquo).mp h1
    show quo = q3
    omega
  · rw [if_neg h1]
    have hrl := rem_lt_of_not_done hv0 hquo hinv h1
    have hq1 : 1 ≤ quo := by
      rcases Nat.eq_zero_or_pos quo with h | h
      · subst h; simp at h1
      · exact h
    have hinv' : (quo - 1) * d + (rem + d) = num := by
      have : (quo - 1) * d + d = quo * d := by
        have : (quo - 1 + 1) * d = quo * d := by congr 1; omega
        rw [Nat.add_mul, Nat.one_mul] at this; exact this
      omega
    have hnle : ¬ quo ≤ q3 := fun h => h1 ((test quo hquo).mpr h)
    rw [div3by2Round_spec hu0 hv0 hd2 (by omega : quo - 1 < B) (by omega : rem + d < 2 * B) hinv']
    by_cases h2 : (quo - 1) * (d * B + v0) ≤ num * B + u0
    · rw [if_pos h2]
      have := (test (quo - 1) (by omega)).mp h2
      show quo - 1 = q3
      omega
    · rw [if_neg h2]
      have hnle2 : ¬ quo - 1 ≤ q3 := fun h => h2 ((test (quo - 1) (by omega)).mpr h)
      show quo - 1 - 1 = q3
      omega

end CB.Div
