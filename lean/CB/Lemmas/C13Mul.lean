/-
  CB.Lemmas.C13Mul — products of `Int` through magnitudes: the shared tail `mulFinish`, the value-level
  unsigned products, signs of products.
-/
import CB.Lemmas.C13Int
set_option linter.unusedVariables false
namespace CB.SInt
open CB

/-- `Uint::split_mul` at value level: `lo + 2^(64·LIMBS)·hi = a·b` -/
theorem uSplitMul_spec {a b : List Nat} (ha : WF a) (hb : WF b) :
    WF (uSplitMul a b).1 ∧ (uSplitMul a b).1.length = a.length ∧
    WF (uSplitMul a b).2 ∧ (uSplitMul a b).2.length = b.length ∧
    val (uSplitMul a b).1 + B ^ a.length * val (uSplitMul a b).2 = val a * val b := by
  have hva := val_lt ha
  have hvb := val_lt hb
  have hp : val a * val b < B ^ a.length * B ^ b.length := Nat.mul_lt_mul'' hva hvb
  have hhi : val a * val b / B ^ a.length < B ^ b.length :=
    Nat.div_lt_of_lt_mul hp
  refine ⟨toLimbs_WF _ _, toLimbs_length _ _, toLimbs_WF _ _, toLimbs_length _ _, ?_⟩
  show val (toLimbs a.length (val a * val b)) + B ^ a.length * val (toLimbs b.length (val a * val b / B ^ a.length)) = _
  rw [val_toLimbs, val_toLimbs, Nat.mod_eq_of_lt hhi]
  exact Nat.mod_add_div _ _

theorem uIsZero_spec {a : List Nat} (ha : WF a) : uIsZero a = mask (decide (val a = 0)) := by
  unfold uIsZero
  rw [ueq_spec ha (uzero_WF _) (by simp [uzero]), val_uzero]

/-- the shared tail of every `checked_mul*`: with `lo + 2^BITS·hi = P`, the result is `some` exactly when
    `±P ∈ [MIN, MAX]`, and then it is `±P`. -/
theorem mulFinish_spec {lo hi : List Nat} (p : Bool) (hlo : WF lo) (hne : lo ≠ []) (hhi : WF hi) {P : Nat}
    (hP : val lo + B ^ lo.length * val hi = P) :
    (mulFinish lo hi (mask p)).2 = mask (decide (InRange lo.length (if p then -(P : Int) else (P : Int)))) ∧
    (InRange lo.length (if p then -(P : Int) else (P : Int)) →
      toInt (mulFinish lo hi (mask p)).1 = (if p then -(P : Int) else (P : Int))) := by
  obtain ⟨f1, f2⟩ := newFromAbsSign_spec p hlo hne
  have e1 : (mulFinish lo hi (mask p)).2 = cand (newFromAbsSign lo (mask p)).2 (uIsZero hi) := rfl
  have e2 : (mulFinish lo hi (mask p)).1 = (newFromAbsSign lo (mask p)).1 := rfl
  have hv := val_lt hlo
  have key : InRange lo.length (if p then -(P : Int) else (P : Int)) ↔
      (InRange lo.length (if p then -((val lo : Nat) : Int) else ((val lo : Nat) : Int)) ∧ val hi = 0) := by
    unfold InRange
    by_cases h0 : val hi = 0
    · rw [h0, Nat.mul_zero, Nat.add_zero] at hP
      rw [hP]; simp [h0]
    · have h1 : B ^ lo.length * 1 ≤ B ^ lo.length * val hi := Nat.mul_le_mul_left _ (by omega)
      generalize B ^ lo.length * val hi = t at *
      cases p <;> simp only [Bool.false_eq_true, ↓reduceIte] <;> omega
  refine ⟨?_, fun hin => ?_⟩
  · rw [e1, f1, uIsZero_spec hhi, cand_dec]
    exact mask_congr key.symm
  · obtain ⟨k1, k2⟩ := key.mp hin
    rw [e2, f2, wrapS_of_inRange k1]
    rw [k2, Nat.mul_zero, Nat.add_zero] at hP
    rw [hP]

/-- sign and magnitude of a product -/
theorem mul_sign_mag {A D : Int} {an dn : Nat}
    (hA : (A < 0 ∧ A = -(an : Int)) ∨ (0 ≤ A ∧ A = (an : Int)))
    (hD : (D < 0 ∧ D = -(dn : Int)) ∨ (0 ≤ D ∧ D = (dn : Int))) :
    A * D = (if decide (¬(A < 0 ↔ D < 0)) = true then -((an * dn : Nat) : Int) else ((an * dn : Nat) : Int)) := by
  rcases hA with ⟨ca, ea⟩ | ⟨ca, ea⟩ <;> rcases hD with ⟨cd, ed⟩ | ⟨cd, ed⟩
  · have hc : (A < 0 ↔ D < 0) := ⟨fun _ => cd, fun _ => ca⟩
    simp only [hc, not_true_eq_false, decide_false, Bool.false_eq_true, if_false]
    rw [ea, ed]; push_cast; ring
  · have hc : ¬(A < 0 ↔ D < 0) := fun h => absurd (h.mp ca) (by omega)
    simp only [hc, not_false_eq_true, decide_true, if_true]
    rw [ea, ed]; push_cast; ring
  · have hc : ¬(A < 0 ↔ D < 0) := fun h => absurd (h.mpr cd) (by omega)
    simp only [hc, not_false_eq_true, decide_true, if_true]
    rw [ea, ed]; push_cast; ring
  · have hc : (A < 0 ↔ D < 0) := ⟨fun h => by omega, fun h => by omega⟩
    simp only [hc, not_true_eq_false, decide_false, Bool.false_eq_true, if_false]
    rw [ea, ed, Nat.cast_mul]

/-- product with a non-negative factor -/
theorem mul_sign_mag_uint {A : Int} {an u : Nat}
    (hA : (A < 0 ∧ A = -(an : Int)) ∨ (0 ≤ A ∧ A = (an : Int))) :
    A * (u : Int) = (if decide (A < 0) = true then -((an * u : Nat) : Int) else ((an * u : Nat) : Int)) := by
  rcases hA with ⟨ca, ea⟩ | ⟨ca, ea⟩
  · simp only [ca, decide_true, if_true]; rw [ea]; push_cast; ring
  · have : ¬ A < 0 := by omega
    simp only [this, decide_false, Bool.false_eq_true, if_false]; rw [ea, Nat.cast_mul]

/-- `CheckedMul<Int<RHS>> for Int<LIMBS>` -/
theorem checkedMul_spec {a b : List Nat} (ha : WF a) (hb : WF b) (hne : a ≠ []) :
    (iCheckedMul a b).2 = mask (decide (InRange a.length (toInt a * toInt b))) ∧
    (InRange a.length (toInt a * toInt b) → toInt (iCheckedMul a b).1 = toInt a * toInt b) := by
  obtain ⟨wa, la, sa, cA, _, _⟩ := mag_view ha
  obtain ⟨wb, lb, sb, cB, _, _⟩ := mag_view hb
  obtain ⟨u1, u2, u3, u4, u5⟩ := uSplitMul_spec wa wb
  have e : iCheckedMul a b = mulFinish (uSplitMul (absSign a).1 (absSign b).1).1
      (uSplitMul (absSign a).1 (absSign b).1).2 (cxor (absSign a).2 (absSign b).2) := rfl
  have lne : (uSplitMul (absSign a).1 (absSign b).1).1 ≠ [] := by
    intro h; rw [h] at u2; simp at u2; exact hne (List.length_eq_zero_iff.mp (by omega))
  rw [← u2] at u5
  obtain ⟨m1, m2⟩ := mulFinish_spec (decide (¬(toInt a < 0 ↔ toInt b < 0))) u1 lne u3 u5
  rw [e, sa, sb, cxor_dec, mul_sign_mag cA cB]
  rw [u2, la] at m1 m2
  exact ⟨m1, m2⟩

/-- `CheckedMul<Uint<RHS>> for Int<LIMBS>` -/
theorem checkedMulUint_spec {a b : List Nat} (ha : WF a) (hb : WF b) (hne : a ≠ []) :
    (iCheckedMulUint a b).2 = mask (decide (InRange a.length (toInt a * (val b : Int)))) ∧
    (InRange a.length (toInt a * (val b : Int)) → toInt (iCheckedMulUint a b).1 = toInt a * (val b : Int)) := by
  obtain ⟨wa, la, sa, cA, _, _⟩ := mag_view ha
  obtain ⟨u1, u2, u3, u4, u5⟩ := uSplitMul_spec wa hb
  have e : iCheckedMulUint a b = mulFinish (uSplitMul (absSign a).1 b).1
      (uSplitMul (absSign a).1 b).2 (absSign a).2 := rfl
  have lne : (uSplitMul (absSign a).1 b).1 ≠ [] := by
    intro h; rw [h] at u2; simp at u2; exact hne (List.length_eq_zero_iff.mp (by omega))
  rw [← u2] at u5
  obtain ⟨m1, m2⟩ := mulFinish_spec (decide (toInt a < 0)) u1 lne u3 u5
  rw [e, sa, mul_sign_mag_uint cA]
  rw [u2, la] at m1 m2
  exact ⟨m1, m2⟩

/-- `Int::checked_mul_uint_right` (result width = width of `rhs`) -/
theorem checkedMulUintRight_spec {a b : List Nat} (ha : WF a) (hb : WF b) (hne : b ≠ []) :
    (iCheckedMulUintRight a b).2 = mask (decide (InRange b.length (toInt a * (val b : Int)))) ∧
    (InRange b.length (toInt a * (val b : Int)) →
      toInt (iCheckedMulUintRight a b).1 = toInt a * (val b : Int)) := by
  obtain ⟨wa, la, sa, cA, _, _⟩ := mag_view ha
  obtain ⟨u1, u2, u3, u4, u5⟩ := uSplitMul_spec hb wa
  have e : iCheckedMulUintRight a b = mulFinish (uSplitMul b (absSign a).1).1
      (uSplitMul b (absSign a).1).2 (absSign a).2 := rfl
  have lne : (uSplitMul b (absSign a).1).1 ≠ [] := by
    intro h; rw [h] at u2; simp at u2; exact hne (List.length_eq_zero_iff.mp (by omega))
  rw [← u2, Nat.mul_comm (val b)] at u5
  obtain ⟨m1, m2⟩ := mulFinish_spec (decide (toInt a < 0)) u1 lne u3 u5
  rw [e, sa, mul_sign_mag_uint cA]
  rw [u2] at m1 m2
  exact ⟨m1, m2⟩

theorem natAbs_of_view {A : Int} {an : Nat}
    (hA : (A < 0 ∧ A = -(an : Int)) ∨ (0 ≤ A ∧ A = (an : Int))) : A.natAbs = an := by omega

/-- `Int::split_mul`: `(lo, hi)` is the magnitude of the product, `negate` its sign -/
theorem splitMul_spec {a b : List Nat} (ha : WF a) (hb : WF b) :
    WF (iSplitMul a b).1 ∧ (iSplitMul a b).1.length = a.length ∧
    WF (iSplitMul a b).2.1 ∧ (iSplitMul a b).2.1.length = b.length ∧
    val (iSplitMul a b).1 + B ^ a.length * val (iSplitMul a b).2.1 = (toInt a).natAbs * (toInt b).natAbs ∧
    (iSplitMul a b).2.2 = mask (decide (¬(toInt a < 0 ↔ toInt b < 0))) := by
  obtain ⟨wa, la, sa, cA, _, _⟩ := mag_view ha
  obtain ⟨wb, lb, sb, cB, _, _⟩ := mag_view hb
  obtain ⟨u1, u2, u3, u4, u5⟩ := uSplitMul_spec wa wb
  have e1 : (iSplitMul a b).1 = (uSplitMul (absSign a).1 (absSign b).1).1 := rfl
  have e2 : (iSplitMul a b).2.1 = (uSplitMul (absSign a).1 (absSign b).1).2 := rfl
  have e3 : (iSplitMul a b).2.2 = cxor (absSign a).2 (absSign b).2 := rfl
  rw [e1, e2, e3, sa, sb, cxor_dec, natAbs_of_view cA, natAbs_of_view cB]
  rw [la] at u2 u5; rw [lb] at u4
  exact ⟨u1, u2, u3, u4, u5, rfl⟩

/-- `Int::split_mul_uint` / `split_mul_uint_right` -/
theorem splitMulUint_spec {a b : List Nat} (ha : WF a) (hb : WF b) :
    val (iSplitMulUint a b).1 + B ^ a.length * val (iSplitMulUint a b).2.1 = (toInt a).natAbs * val b ∧
    (iSplitMulUint a b).1.length = a.length ∧ (iSplitMulUint a b).2.1.length = b.length ∧
    (iSplitMulUint a b).2.2 = mask (decide (toInt a < 0)) ∧
    val (iSplitMulUintRight a b).1 + B ^ b.length * val (iSplitMulUintRight a b).2.1 = (toInt a).natAbs * val b ∧
    (iSplitMulUintRight a b).1.length = b.length ∧ (iSplitMulUintRight a b).2.1.length = a.length ∧
    (iSplitMulUintRight a b).2.2 = mask (decide (toInt a < 0)) := by
  obtain ⟨wa, la, sa, cA, _, _⟩ := mag_view ha
  obtain ⟨u1, u2, u3, u4, u5⟩ := uSplitMul_spec wa hb
  obtain ⟨v1, v2, v3, v4, v5⟩ := uSplitMul_spec hb wa
  have e1 : (iSplitMulUint a b).1 = (uSplitMul (absSign a).1 b).1 := rfl
  have e2 : (iSplitMulUint a b).2.1 = (uSplitMul (absSign a).1 b).2 := rfl
  have e3 : (iSplitMulUint a b).2.2 = (absSign a).2 := rfl
  have f1 : (iSplitMulUintRight a b).1 = (uSplitMul b (absSign a).1).1 := rfl
  have f2 : (iSplitMulUintRight a b).2.1 = (uSplitMul b (absSign a).1).2 := rfl
  have f3 : (iSplitMulUintRight a b).2.2 = (absSign a).2 := rfl
  rw [e1, e2, e3, f1, f2, f3, sa, natAbs_of_view cA]
  rw [la] at u2 u5 v4
  rw [Nat.mul_comm (val b)] at v5
  exact ⟨u5, u2, u4, rfl, v5, v2, v4, rfl⟩

theorem uWideningMul_spec {a b : List Nat} (ha : WF a) (hb : WF b) :
    WF (uWideningMul a b) ∧ (uWideningMul a b).length = a.length + b.length ∧
    val (uWideningMul a b) = val a * val b := by
  have hp : val a * val b < B ^ (a.length + b.length) := by
    rw [Nat.pow_add]; exact Nat.mul_lt_mul'' (val_lt ha) (val_lt hb)
  exact toLimbs_small hp

/-- `Int::widening_mul`: the exact product in `LIMBS + RHS_LIMBS` limbs -/
theorem wideningMul_spec {a b : List Nat} (ha : WF a) (hb : WF b) :
    toInt (iWideningMul a b) = toInt a * toInt b ∧ (iWideningMul a b).length = a.length + b.length := by
  obtain ⟨wa, la, sa, cA, bA, _⟩ := mag_view ha
  obtain ⟨wb, lb, sb, cB, bB, _⟩ := mag_view hb
  obtain ⟨w1, w2, w3⟩ := uWideningMul_spec wa wb
  have e : iWideningMul a b = wrappingNegIf (uWideningMul (absSign a).1 (absSign b).1)
      (cxor (absSign a).2 (absSign b).2) := rfl
  have h4 : (2 * val (absSign a).1) * (2 * val (absSign b).1) ≤ B ^ a.length * B ^ b.length :=
    Nat.mul_le_mul bA bB
  have hpos : 0 < B ^ a.length * B ^ b.length := Nat.mul_pos (Bpow_pos' _) (Bpow_pos' _)
  have h4' : 4 * (val (absSign a).1 * val (absSign b).1) ≤ B ^ a.length * B ^ b.length := by
    have : (2 * val (absSign a).1) * (2 * val (absSign b).1) = 4 * (val (absSign a).1 * val (absSign b).1) := by ring
    omega
  rw [e, sa, sb, cxor_dec]
  refine ⟨?_, ?_⟩
  · rw [negIf_mag _ w1 (by
      rw [w2, w3, la, lb, Nat.pow_add]
      generalize val (absSign a).1 * val (absSign b).1 = P at *
      generalize B ^ a.length * B ^ b.length = M at *
      split <;> omega), w3, mul_sign_mag cA cB]
  · rw [(wrappingNegIf_spec _ w1).2.1, w2, la, lb]

/-- `Int::widening_mul_uint` -/
theorem wideningMulUint_spec {a b : List Nat} (ha : WF a) (hb : WF b) :
    toInt (iWideningMulUint a b) = toInt a * (val b : Int) ∧
    (iWideningMulUint a b).length = a.length + b.length := by
  obtain ⟨wa, la, sa, cA, bA, _⟩ := mag_view ha
  obtain ⟨w1, w2, w3⟩ := uWideningMul_spec wa hb
  have e : iWideningMulUint a b = wrappingNegIf (uWideningMul (absSign a).1 b) (absSign a).2 := rfl
  have hvb := val_lt hb
  have h1 : (2 * val (absSign a).1) * val b ≤ B ^ a.length * val b := Nat.mul_le_mul_right _ bA
  have h2 : B ^ a.length * (val b + 1) ≤ B ^ a.length * B ^ b.length := Nat.mul_le_mul_left _ hvb
  have hpos := Bpow_pos' a.length
  have h3 : 2 * (val (absSign a).1 * val b) < B ^ a.length * B ^ b.length := by
    have : (2 * val (absSign a).1) * val b = 2 * (val (absSign a).1 * val b) := by ring
    rw [Nat.mul_add] at h2
    omega
  rw [e, sa]
  refine ⟨?_, ?_⟩
  · rw [negIf_mag _ w1 (by
      rw [w2, w3, la, Nat.pow_add]
      split <;> omega), w3, mul_sign_mag_uint cA]
  · rw [(wrappingNegIf_spec _ w1).2.1, w2, la]

/-- squares: `Int::widening_square`, `checked_square`, `wrapping_square`, `saturating_square` -/
theorem squares_spec {a : List Nat} (ha : WF a) :
    val (iWideningSquare a) = (toInt a).natAbs * (toInt a).natAbs ∧
    (iWideningSquare a).length = a.length + a.length ∧
    (iCheckedSquare a).2 = mask (decide ((toInt a).natAbs * (toInt a).natAbs < B ^ a.length)) ∧
    ((toInt a).natAbs * (toInt a).natAbs < B ^ a.length →
      val (iCheckedSquare a).1 = (toInt a).natAbs * (toInt a).natAbs) ∧
    val (iWrappingSquare a) = (toInt a).natAbs * (toInt a).natAbs % B ^ a.length ∧
    val (iSaturatingSquare a) = min ((toInt a).natAbs * (toInt a).natAbs) (B ^ a.length - 1) := by
  obtain ⟨wa, la, sa, cA, bA, _⟩ := mag_view ha
  have hn := natAbs_of_view cA
  have hva := val_lt wa
  have hp : val (absSign a).1 * val (absSign a).1 < B ^ (a.length + a.length) := by
    rw [Nat.pow_add, ← la]; exact Nat.mul_lt_mul'' hva hva
  have hpp : val (absSign a).1 * val (absSign a).1 < B ^ a.length * B ^ a.length := by
    rw [← Nat.pow_add]; exact hp
  have hhi : val (absSign a).1 * val (absSign a).1 / B ^ a.length < B ^ a.length :=
    Nat.div_lt_of_lt_mul hpp
  have e0 : iabs a = (absSign a).1 := rfl
  have lo_val : val (uSquareWide (absSign a).1).1 = val (absSign a).1 * val (absSign a).1 % B ^ a.length := by
    show val (toLimbs (absSign a).1.length _) = _
    rw [val_toLimbs, la]
  have hi_val : val (uSquareWide (absSign a).1).2 = val (absSign a).1 * val (absSign a).1 / B ^ a.length := by
    show val (toLimbs (absSign a).1.length (_ / B ^ (absSign a).1.length)) = _
    rw [val_toLimbs, la, Nat.mod_eq_of_lt hhi]
  have lo_wf : WF (uSquareWide (absSign a).1).1 := toLimbs_WF _ _
  have hi_wf : WF (uSquareWide (absSign a).1).2 := toLimbs_WF _ _
  have lo_len : (uSquareWide (absSign a).1).1.length = a.length := by
    show (toLimbs (absSign a).1.length _).length = _
    rw [toLimbs_length, la]
  have hdiv0 : val (absSign a).1 * val (absSign a).1 / B ^ a.length = 0 ↔
      val (absSign a).1 * val (absSign a).1 < B ^ a.length := Nat.div_eq_zero_iff_lt (Bpow_pos' _)
  rw [hn]
  refine ⟨?_, ?_, ?_, ?_, ?_, ?_⟩
  · show val (toLimbs (a.length + a.length) (val (iabs a) * val (iabs a))) = _
    rw [e0, val_toLimbs, Nat.mod_eq_of_lt hp]
  · exact toLimbs_length _ _
  · show ueq (uSquareWide (iabs a)).2 (uzero (uSquareWide (iabs a)).2.length) = _
    rw [e0, ueq_spec hi_wf (uzero_WF _) (by simp [uzero]), val_uzero, hi_val]
    exact mask_congr hdiv0
  · intro hlt
    show val (uSquareWide (iabs a)).1 = _
    rw [e0, lo_val, Nat.mod_eq_of_lt hlt]
  · show val (uSquareWide (iabs a)).1 = _
    rw [e0, lo_val]
  · show val (uselect (uSquareWide (iabs a)).1 (umax (uSquareWide (iabs a)).1.length)
      (isNonzero (uSquareWide (iabs a)).2)) = _
    rw [e0, isNonzero_spec hi_wf, uselect_spec _ lo_wf (umax_WF _) (by simp [umax]), hi_val, lo_len]
    have hm := val_umax a.length
    by_cases hlt : val (absSign a).1 * val (absSign a).1 < B ^ a.length
    · have : ¬ (val (absSign a).1 * val (absSign a).1 / B ^ a.length ≠ 0) := by
        rw [not_not]; exact hdiv0.mpr hlt
      simp only [this, decide_false, Bool.false_eq_true, if_false]
      rw [lo_val, Nat.mod_eq_of_lt hlt]; omega
    · have : val (absSign a).1 * val (absSign a).1 / B ^ a.length ≠ 0 := fun h => hlt (hdiv0.mp h)
      simp only [this, ne_eq, not_false_eq_true, decide_true, if_true]
      omega

end CB.SInt
