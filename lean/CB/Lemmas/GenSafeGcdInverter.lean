/-
  CB.Lemmas.GenSafeGcdInverter — the hand-written model of the fixed-size inverter (`Inverter.new`, `Inverter.inv`,
  `finishInv` of CB/Model/SafeGcd.lean) IS the translated source (`SafeGcdInverter::{new, inv}` of src/modular/safegcd.rs;
  CB/Gen/SafeGcdLimbs.lean, namespace `CB.Gen.SafeGcdLimbs.InverterApi`, regenerated from /repo's current source on every run),
  for every limb count `SAT_LIMBS ≥ 1` whose unsaturated limb count `UNSAT_LIMBS = safegcd_nlimbs!(64·SAT_LIMBS)` is `≤ 1413748`
  (where the `u32` bit counts of `divsteps` do not wrap), every odd modulus, every adjuster below it and every value.

  `new` is `from_uint` twice (`fromUint_bridge`) and `inv_mod2_62` (G14's `inv_mod2_62_bridge`); `inv` is G18's `divsteps` on the
  initial state `(adjuster, modulus, from_uint(value))`, which satisfies the loop invariants `FGI` / `DEI` of C10Loop.lean
  (`init_invariants`, the first step of `inv_after_loop_sound` of C10Sound.lean, stated on its own), then `eq` against
  `MINUS_ONE` / `ONE` (`ueq_bridge`), `norm` (`norm_bridge`) and `to_uint` (`toUint_bridge`).  No `bv_decide` in this file.
-/
import CB.Lemmas.GenBitsSafeGcdConv
import CB.Lemmas.GenBitsSafeGcd
import CB.Lemmas.GenSafeGcdDivsteps
import CB.Lemmas.C10Sound
namespace CB.GenSafeGcdInverter
open CB CB.Gen CB.Gen.SafeGcdLimbs CB.GenBits CB.SafeGcd CB.GenSafeGcdLimbs
open CB.GenChains (nats)

/-- the inverter's initial state satisfies both loop invariants (model level) -/
theorem init_invariants (sat n : Nat) (hsat : 1 ≤ sat) (hn : 64 * sat + 64 ≤ 62 * n)
    (mw aw vw : List Nat) (hmw : CB.WF mw) (haw : CB.WF aw) (hvw : CB.WF vw)
    (lm : mw.length = sat) (la : aw.length = sat) (lv : vw.length = sat)
    (hodd : CB.val mw % 2 = 1) (hadj : CB.val aw < CB.val mw) :
    FGI n (2 ^ (64 * sat)) (Int.gcd (CB.val mw : Int) (CB.val vw : Int))
      ⟨1, fromUint mw n, fromUint vw n, SafeGcd.uzero n, fromUint aw n⟩ ∧
    DEI n (fromUint mw n) (CB.val vw : Int) (CB.val aw : Int) ⟨1, fromUint mw n, fromUint vw n, SafeGcd.uzero n, fromUint aw n⟩ := by
  have hn1 : 1 ≤ n := by omega
  obtain ⟨lfm, wfm, uvm⟩ := uval_fromUint mw n hmw (by rw [lm]; exact hn)
  obtain ⟨lfv, wfv, uvv⟩ := uval_fromUint vw n hvw (by rw [lv]; exact hn)
  obtain ⟨lfa, wfa, uva⟩ := uval_fromUint aw n haw (by rw [la]; exact hn)
  have hMlt := val_lt_two_pow mw hmw
  have hXlt := val_lt_two_pow vw hvw
  rw [lm] at hMlt; rw [lv] at hXlt
  generalize hM : CB.val mw = M at *
  generalize hX : CB.val vw = X at *
  generalize hA : CB.val aw = A at *
  generalize hmm : fromUint mw n = m at *
  have hMpos : 0 < M := by omega
  have hMi : (0 : Int) < (M : Int) := by exact_mod_cast hMpos
  have hBd : ((M : Nat) : Int) ≤ 2 ^ (64 * sat) := by exact_mod_cast (le_of_lt hMlt)
  have hBdX : ((X : Nat) : Int) ≤ 2 ^ (64 * sat) := by exact_mod_cast (le_of_lt hXlt)
  exact ⟨⟨lfm, lfv, wfm, wfv, by show uval m % 2 = 1; rw [uvm]; exact_mod_cast hodd,
     by show |uval m| ≤ _; rw [uvm, abs_of_nonneg (Int.natCast_nonneg _)]; exact hBd,
     by show |uval (fromUint vw n)| ≤ _; rw [uvv, abs_of_nonneg (Int.natCast_nonneg _)]; exact hBdX,
     by show Int.gcd (uval m) (uval (fromUint vw n)) = _; rw [uvm, uvv]⟩,
    ⟨uzero_length n, lfa, WF62_uzero n, wfa,
     by show -(2 * uval m) < uval (SafeGcd.uzero n); rw [uval_uzero n hn1, uvm]; linarith,
     by show uval (SafeGcd.uzero n) < uval m; rw [uval_uzero n hn1, uvm]; exact hMi,
     by show -(2 * uval m) < uval (fromUint aw n); rw [uva, uvm]; have := Int.natCast_nonneg A; linarith,
     by show uval (fromUint aw n) < uval m; rw [uva, uvm]; exact_mod_cast hadj,
     by show uval (SafeGcd.uzero n) * (X : Int) ≡ uval m * (A : Int) [ZMOD uval m]
        rw [uval_uzero n hn1, zero_mul]
        exact (Int.modEq_zero_iff_dvd.mpr ⟨(A : Int), rfl⟩).symm,
     by show uval (fromUint aw n) * (X : Int) ≡ uval (fromUint vw n) * (A : Int) [ZMOD uval m]
        rw [uva, uvv, mul_comm]⟩⟩

/-- `UnsatInt::MINUS_ONE` / `UnsatInt::ONE` as the translator emits them are the model's constants -/
theorem nats_minusOne (L : Nat) : nats (List.replicate L MASK62) = uminusOne L := by
  unfold nats uminusOne
  rw [List.map_replicate, MASK62_toNat]

theorem nats_one (L : Nat) : nats ((List.replicate L 0#64).set 0 1#64) = SafeGcd.uone L := by
  cases L with
  | zero => simp [nats, SafeGcd.uone]
  | succ k =>
    simp [nats, SafeGcd.uone, List.replicate_succ]
    rfl

/-- `SafeGcdInverter::new` of the source is the model's `Inverter.new` -/
theorem new_bridge (L S : Nat) (mw aw : List (BitVec 64)) :
    (⟨nats (InverterApi.new L S mw aw).1, nats (InverterApi.new L S mw aw).2.1, (InverterApi.new L S mw aw).2.2.toInt⟩ : Inverter) =
      ⟨fromUint (nats mw) L, fromUint (nats aw) L, invMod2_62 (nats mw)⟩ := by
  rw [inverter_new_eq]
  simp only [fromUint_bridge, inv_mod2_62_bridge, nats]

/-- the core of `inv`, on word lists `m`, `a`, `v` that ARE the converted modulus / adjuster / value -/
theorem inv_core (sat : Nat) (hsat : 1 ≤ sat) (mw aw vw : List Nat) (hmw : CB.WF mw) (haw : CB.WF aw) (hvw : CB.WF vw)
    (lm : mw.length = sat) (la : aw.length = sat) (lv : vw.length = sat)
    (hodd : CB.val mw % 2 = 1) (hadj : CB.val aw < CB.val mw)
    (m a vb : List (BitVec 64)) (iv : BitVec 64)
    (hn : 64 * sat + 64 ≤ 62 * m.length) (hL : m.length ≤ 1413748)
    (em : nats m = fromUint mw m.length) (ea : nats a = fromUint aw m.length) (evb : nats vb = vw)
    (eiv : iv.toInt = invMod2_62 mw) (S' : Nat) :
    nats (InverterApi.inv m.length S' (m, a, iv) vb).1 =
        (Inverter.inv ⟨fromUint mw m.length, fromUint aw m.length, invMod2_62 mw⟩ S' vw).value ∧
    (InverterApi.inv m.length S' (m, a, iv) vb).2 =
        ofBool (Inverter.inv ⟨fromUint mw m.length, fromUint aw m.length, invMod2_62 mw⟩ S' vw).isSome := by
  have ev : nats (Convert.from_uint m.length S' vb) = fromUint vw m.length := by rw [fromUint_bridge, evb]
  rw [inverter_inv_eq]
  simp only []
  generalize Convert.from_uint m.length S' vb = v at *
  have hn2 : 2 ≤ m.length := by omega
  obtain ⟨I1, I2⟩ := init_invariants sat m.length hsat hn mw aw vw hmw haw hvw lm la lv hodd hadj
  obtain ⟨lfm, wfm, uvm⟩ := uval_fromUint mw m.length hmw (by rw [lm]; exact hn)
  have hMlt := val_lt_two_pow mw hmw
  rw [lm] at hMlt
  have hcap := cap_of_geometry sat m.length hn
  have hinv0 := inverse_of_words mw hodd
  have h1 : (1#64 : BitVec 64).toInt = 1 := by decide
  have w0 : WFw m := (WFw_iff m).mpr (by rw [em]; exact wfm)
  have hM : 0 < uval (nats m) := by rw [em, uvm]; exact_mod_cast (show 0 < CB.val mw by omega)
  have hModd : uval (nats m) % 2 = 1 := by rw [em, uvm]; exact_mod_cast hodd
  have hMB : uval (nats m) ≤ 2 ^ (64 * sat) := by rw [em, uvm]; exact_mod_cast (le_of_lt hMlt)
  have hinv : iv.toInt * uval (nats m) ≡ 1 [ZMOD 2 ^ 62] := by rw [em, uvm, eiv]; exact hinv0
  have hinit : dsOf a v (List.replicate m.length 0#64) m 1#64 =
      ⟨1, fromUint mw m.length, fromUint vw m.length, SafeGcd.uzero m.length, fromUint aw m.length⟩ := by
    show (⟨(1#64 : BitVec 64).toInt, nats m, nats v, nats (List.replicate m.length 0#64), nats a⟩ : DS) = _
    rw [← em, ← ev, ← ea, h1, CB.GenSafeGcdConv.nats_replicate]
    rfl
  have hb := divsteps_bridge (2 ^ (64 * sat)) (Int.gcd (CB.val mw : Int) (CB.val vw : Int)) (CB.val vw : Int) (CB.val aw : Int)
    a m v iv hn2 hL hcap w0 hM hModd hMB hinv (by rw [hinit]; exact I1) (by rw [hinit, em]; exact I2)
  -- the invariants after the loop, for the model's state
  have hd : CB.SafeGcd.divsteps false (nats a) (nats m) (nats v) iv.toInt =
      dsLoop (nats m) iv.toInt (iterations (ubits (nats m)) (ubits (nats v)))
        ⟨1, nats m, nats v, SafeGcd.uzero (nats m).length, nats a⟩ := by
    simp [CB.SafeGcd.divsteps]
  obtain ⟨i1, i2⟩ := dsLoop_inv m.length (2 ^ (64 * sat)) (Int.gcd (CB.val mw : Int) (CB.val vw : Int)) hn2 hcap (nats m) iv.toInt
    (CB.val vw : Int) (CB.val aw : Int) ((WFw_iff m).mp w0) (CB.GenChains.nats_length m) hM hModd hMB hinv
    (iterations (ubits (nats m)) (ubits (nats v))) ⟨1, nats m, nats v, SafeGcd.uzero (nats m).length, nats a⟩
    (by rw [em, ev, ea, lfm]; exact I1) (by rw [em, ev, ea, lfm]; exact I2)
  rw [← hd] at i1 i2
  -- the model, in terms of `nats m`, `nats a`, `nats v`
  have hmodel : Inverter.inv ⟨fromUint mw m.length, fromUint aw m.length, invMod2_62 mw⟩ S' vw =
      finishInv ⟨nats m, nats a, iv.toInt⟩ S'
        (CB.SafeGcd.divsteps false (nats a) (nats m) (nats v) iv.toInt).d
        (CB.SafeGcd.divsteps false (nats a) (nats m) (nats v) iv.toInt).f
        (CB.SafeGcd.divsteps false (nats a) (nats m) (nats v) iv.toInt).g 0 := by
    simp only [Inverter.inv, lfm]
    rw [← em, ← ea, ← ev, ← eiv]
  rw [hmodel]
  have e1 := congrArg Prod.fst hb
  have e2 := congrArg Prod.snd hb
  simp only at e1 e2
  have wD : WFw (SafeGcdLimbs.divsteps m.length a m v iv).1 := (WFw_iff _).mpr (e1 ▸ i2.wd)
  have lD : (SafeGcdLimbs.divsteps m.length a m v iv).1.length = m.length := by
    have := i2.ld; rw [← e1, CB.GenChains.nats_length] at this; exact this
  have lF : (SafeGcdLimbs.divsteps m.length a m v iv).2.length = m.length := by
    have := i1.lf; rw [← e2, CB.GenChains.nats_length] at this; exact this
  generalize (SafeGcdLimbs.divsteps m.length a m v iv).1 = D at *
  generalize (SafeGcdLimbs.divsteps m.length a m v iv).2 = F at *
  generalize CB.SafeGcd.divsteps false (nats a) (nats m) (nats v) iv.toInt = ds at *
  have q1 := ueq_bridge F (List.replicate m.length MASK62) (by rw [lF, List.length_replicate])
  have q2 := ueq_bridge F ((List.replicate m.length 0#64).set 0 1#64) (by rw [lF, List.length_set, List.length_replicate])
  rw [lF, nats_minusOne] at q1
  rw [lF, nats_one] at q2
  have lfs : ds.f.length = m.length := i1.lf
  rw [q1, q2]
  obtain ⟨n1, _, _⟩ := norm_bridge m a D iv (SafeGcd.ueq (nats F) (uminusOne m.length)) lD.symm wD w0
  rw [lD] at n1
  refine ⟨?_, ?_⟩
  · rw [toUint_bridge, ← n1, e1, e2]
    simp only [finishInv, lfs]
  · rw [(choice_algebra _ _).2.1, e2]
    simp only [finishInv, lfs]

end CB.GenSafeGcdInverter
