/-
  CB.Lemmas.C05Shift — value equations of the shift loops of CB/Model/Shift.lean.
-/
import CB.Lemmas.Chains
import CB.Model.Bits
import Mathlib.Tactic.Ring
import Mathlib.Tactic.Linarith
namespace CB.Shift
open CB CB.Bits

/-! ### limb lists: append / take / drop / replicate -/

theorem val_append (l1 l2 : List Nat) : val (l1 ++ l2) = val l1 + B ^ l1.length * val l2 := by
  induction l1 with
  | nil => simp
  | cons x xs ih =>
    simp only [List.cons_append, val_cons, ih, List.length_cons, Nat.pow_succ]; ring

theorem val_replicate_zero (k : Nat) : val (List.replicate k 0) = 0 := by
  induction k with
  | zero => rfl
  | succ k ih => simp [List.replicate_succ, ih]

theorem val_replicate_max (k : Nat) : val (List.replicate k WMAX) + 1 = B ^ k := by
  induction k with
  | zero => rfl
  | succ k ih =>
    simp only [List.replicate_succ, val_cons, Nat.pow_succ]
    have : B * (val (List.replicate k WMAX) + 1) = B * B ^ k := by rw [ih]
    simp only [WMAX_def, B_def] at *
    omega

theorem WF_append {l1 l2 : List Nat} : WF (l1 ++ l2) ↔ WF l1 ∧ WF l2 := by
  simp only [WF, List.mem_append]
  constructor
  · intro h; exact ⟨fun x hx => h x (Or.inl hx), fun x hx => h x (Or.inr hx)⟩
  · intro ⟨h1, h2⟩ x hx; rcases hx with hx | hx; exact h1 x hx; exact h2 x hx

theorem WF_replicate {k w : Nat} (hw : w < B) : WF (List.replicate k w) := by
  intro x hx; rw [List.mem_replicate] at hx; rw [hx.2]; exact hw

theorem WF_take {l : List Nat} (h : WF l) (k : Nat) : WF (l.take k) :=
  fun x hx => h x (List.mem_of_mem_take hx)
theorem WF_drop {l : List Nat} (h : WF l) (k : Nat) : WF (l.drop k) :=
  fun x hx => h x (List.mem_of_mem_drop hx)

/-- decidable form of `WF` for concrete examples -/
theorem WF_of_all {l : List Nat} (h : l.all (fun x => decide (x < B)) = true) : WF l := by
  intro x hx
  have := List.all_eq_true.mp h x hx
  exact of_decide_eq_true this

theorem Bpow_pos (n : Nat) : 0 < B ^ n := Nat.pow_pos B_pos

theorem val_take_drop {l : List Nat} (h : WF l) {k : Nat} (hk : k ≤ l.length) :
    val (l.take k) = val l % B ^ k ∧ val (l.drop k) = val l / B ^ k := by
  have e : val l = val (l.take k) + B ^ k * val (l.drop k) := by
    conv => lhs; rw [← List.take_append_drop k l]
    rw [val_append, List.length_take, Nat.min_eq_left hk]
  have hlt : val (l.take k) < B ^ k := by
    have := val_lt (WF_take h k)
    rwa [List.length_take, Nat.min_eq_left hk] at this
  rw [e]
  constructor
  · rw [Nat.add_mul_mod_self_left, Nat.mod_eq_of_lt hlt]
  · rw [Nat.add_mul_div_left _ _ (Bpow_pos k), Nat.div_eq_of_lt hlt, Nat.zero_add]

theorem val_take {l : List Nat} (h : WF l) {k : Nat} (hk : k ≤ l.length) :
    val (l.take k) = val l % B ^ k := (val_take_drop h hk).1
theorem val_drop {l : List Nat} (h : WF l) {k : Nat} (hk : k ≤ l.length) :
    val (l.drop k) = val l / B ^ k := (val_take_drop h hk).2

theorem uzero_length (n : Nat) : (uzero n).length = n := by simp [uzero]
theorem umax_length (n : Nat) : (umax n).length = n := by simp [umax]

/-! ### word shifts -/

theorem two_pow_split {r : Nat} (hr : r ≤ 64) : 2 ^ r * 2 ^ (64 - r) = B := by
  rw [← Nat.pow_add, B_eq_pow]; congr 1; omega

/-- `x << r` keeps the low `64 - r` bits of `x`, moved up by `r`. -/
theorem wshl_eq {x r : Nat} (hr : r ≤ 64) : wshl x r = 2 ^ r * (x % 2 ^ (64 - r)) := by
  unfold wshl
  rw [← two_pow_split hr, Nat.mul_comm x, Nat.mul_mod_mul_left]

theorem wshl_lt (x r : Nat) : wshl x r < B := Nat.mod_lt _ B_pos

theorem wshr_lt {x r : Nat} (hx : x < B) (hr : r ≤ 64) : wshr x r < 2 ^ (64 - r) := by
  unfold wshr
  rw [Nat.div_lt_iff_lt_mul (Nat.two_pow_pos r), Nat.mul_comm, two_pow_split hr]; exact hx

theorem wshr_lt_B {x r : Nat} (hx : x < B) : wshr x r < B :=
  Nat.lt_of_le_of_lt (Nat.div_le_self _ _) hx

/-- `(x << r) | c` for a carry `c` below `2^r` is an addition. -/
theorem wshl_or {x r c : Nat} (hr : r ≤ 64) (hc : c < 2 ^ r) :
    wshl x r ||| c = 2 ^ r * (x % 2 ^ (64 - r)) + c := by
  rw [wshl_eq hr, ← Nat.two_pow_add_eq_or_of_lt hc]

/-- `(x >> r) | (t << (64 - r))` for `t < 2^r` is an addition. -/
theorem wshr_or {x r t : Nat} (hx : x < B) (hr : r ≤ 64) :
    wshr x r ||| 2 ^ (64 - r) * t = 2 ^ (64 - r) * t + x / 2 ^ r := by
  rw [Nat.or_comm, ← Nat.two_pow_add_eq_or_of_lt (wshr_lt hx hr)]; rfl

theorem lt_add_mul_mod {a t K : Nat} (ha : a < B) : (a + B * t) % (B * K) = a + B * (t % K) := by
  rw [Nat.mod_mul, Nat.add_mul_mod_self_left, Nat.mod_eq_of_lt ha, Nat.add_mul_div_left _ _ B_pos,
    Nat.div_eq_of_lt ha, Nat.zero_add]

/-! ### the carry pass of the left shift -/

theorem shlCarry_length (r : Nat) (l : List Nat) (c : Nat) : (shlCarry r l c).length = l.length := by
  induction l generalizing c with
  | nil => rfl
  | cons x xs ih => simp [shlCarry, ih]

theorem shlCarry_spec {r : Nat} (hr0 : 0 < r) (hr : r < 64) (l : List Nat) (c : Nat) (hl : WF l)
    (hc : c < 2 ^ r) :
    val (shlCarry r l c) = (val l * 2 ^ r + c) % B ^ l.length ∧ WF (shlCarry r l c) := by
  induction l generalizing c with
  | nil => simp [shlCarry, Nat.mod_one, WF_nil]
  | cons x xs ih =>
    have ⟨hx, hxs⟩ := WF_cons.mp hl
    have hr' : r ≤ 64 := by omega
    have hc' : wshr x (64 - r) < 2 ^ r := by
      have := wshr_lt hx (show 64 - r ≤ 64 by omega)
      rwa [show 64 - (64 - r) = r by omega] at this
    have ⟨ihv, ihw⟩ := ih (wshr x (64 - r)) hxs hc'
    have hP := two_pow_split hr'
    have hxl : x % 2 ^ (64 - r) < 2 ^ (64 - r) := Nat.mod_lt _ (Nat.two_pow_pos _)
    have hxsplit : x = 2 ^ (64 - r) * (x / 2 ^ (64 - r)) + x % 2 ^ (64 - r) := (Nat.div_add_mod x _).symm
    have hhead : 2 ^ r * (x % 2 ^ (64 - r)) + c < B := by
      rw [← hP]
      have : 2 ^ r * (x % 2 ^ (64 - r) + 1) ≤ 2 ^ r * 2 ^ (64 - r) := Nat.mul_le_mul_left _ hxl
      rw [Nat.mul_add, Nat.mul_one] at this
      omega
    simp only [shlCarry]
    refine ⟨?_, WF_cons.mpr ⟨?_, ihw⟩⟩
    · simp only [val_cons, List.length_cons, Nat.pow_succ]
      rw [wshl_or hr' hc, ihv, Nat.mul_comm (B ^ xs.length) B]
      rw [← lt_add_mul_mod hhead]
      congr 1
      unfold wshr
      generalize x / 2 ^ (64 - r) = xh at *
      generalize x % 2 ^ (64 - r) = xl at *
      subst hxsplit
      rw [← hP]
      ring
    · rw [wshl_or hr' hc]; exact hhead

/-! ### the carry pass of the right shift -/

theorem shrCarry_length (r : Nat) (l : List Nat) (c : Nat) : (shrCarry r l c).1.length = l.length := by
  induction l with
  | nil => rfl
  | cons x xs ih => simp [shrCarry, ih]

theorem shrCarry_cons (r x : Nat) (xs : List Nat) (c : Nat) :
    shrCarry r (x :: xs) c =
      ((wshr x r ||| (shrCarry r xs c).2) :: (shrCarry r xs c).1, wshl x (64 - r)) := rfl

/-- Right-shift carry pass with `h < 2^r` entering above the top limb (as `h << (64 - r)`). -/
theorem shrCarry_spec {r : Nat} (hr0 : 0 < r) (hr : r < 64) (l : List Nat) (h : Nat) (hl : WF l)
    (hh : h < 2 ^ r) :
    val (shrCarry r l (2 ^ (64 - r) * h)).1 = (val l + B ^ l.length * h) / 2 ^ r ∧
    (shrCarry r l (2 ^ (64 - r) * h)).2 = 2 ^ (64 - r) * ((val l + B ^ l.length * h) % 2 ^ r) ∧
    WF (shrCarry r l (2 ^ (64 - r) * h)).1 := by
  induction l with
  | nil =>
    simp only [shrCarry, val_nil, List.length_nil, Nat.pow_zero, Nat.one_mul, Nat.zero_add]
    exact ⟨(Nat.div_eq_of_lt hh).symm, by rw [Nat.mod_eq_of_lt hh], WF_nil⟩
  | cons x xs ih =>
    have ⟨hx, hxs⟩ := WF_cons.mp hl
    have ⟨ihv, ihc, ihw⟩ := ih hxs
    have hr' : r ≤ 64 := by omega
    have hP := two_pow_split hr'
    rw [shrCarry_cons]
    simp only [val_cons, List.length_cons, Nat.pow_succ]
    rw [ihc, wshr_or hx hr', ihv]
    have hval : x + B * val xs + B ^ xs.length * B * h = x + 2 ^ r * (2 ^ (64 - r) * (val xs + B ^ xs.length * h)) := by
      rw [← hP]; ring
    have hpos : 0 < 2 ^ r := Nat.two_pow_pos r
    refine ⟨?_, ?_, WF_cons.mpr ⟨?_, ihw⟩⟩
    · rw [hval, Nat.add_mul_div_left _ _ hpos]
      generalize val xs + B ^ xs.length * h = V
      have hV : V = 2 ^ r * (V / 2 ^ r) + V % 2 ^ r := (Nat.div_add_mod V _).symm
      generalize V / 2 ^ r = Vq at *
      generalize V % 2 ^ r = Vr at *
      subst hV
      rw [← hP]; ring
    · rw [hval, Nat.add_comm x, Nat.mul_add_mod_self_left, wshl_eq (show 64 - r ≤ 64 by omega),
        show 64 - (64 - r) = r by omega]
    · have h1 : (val xs + B ^ xs.length * h) % 2 ^ r < 2 ^ r := Nat.mod_lt _ hpos
      have h2 : x / 2 ^ r < 2 ^ (64 - r) := wshr_lt hx hr'
      generalize (val xs + B ^ xs.length * h) % 2 ^ r = t at *
      have : 2 ^ (64 - r) * (t + 1) ≤ 2 ^ (64 - r) * 2 ^ r := Nat.mul_le_mul_left _ h1
      rw [Nat.mul_comm _ (2 ^ r), hP, Nat.mul_add, Nat.mul_one] at this
      omega

/-! ### T05.1 the vartime shifts -/

theorem B_pow_eq (k : Nat) : B ^ k = 2 ^ (64 * k) := by rw [B_eq_pow, ← Nat.pow_mul]

theorem two_pow_shift (s : Nat) : 2 ^ s = B ^ (s / 64) * 2 ^ (s % 64) := by
  rw [B_pow_eq, ← Nat.pow_add, Nat.div_add_mod]

theorem shlMove_eq {a : List Nat} {k : Nat} (hk : k ≤ a.length) :
    shlMove a k = List.replicate k 0 ++ a.take (a.length - k) := by
  unfold shlMove
  rw [List.take_append, List.take_replicate, Nat.min_eq_right hk, List.length_replicate]

theorem overflowingShlVartime_overflow (a : List Nat) {s : Nat} (h : 64 * a.length ≤ s) :
    overflowingShlVartime a s = (uzero a.length, 0) := by
  unfold overflowingShlVartime; simp [h]

theorem overflowingShlVartime_spec {a : List Nat} {s : Nat} (ha : WF a) (h : s < 64 * a.length) :
    (overflowingShlVartime a s).2 = WMAX ∧
    val (overflowingShlVartime a s).1 = (val a * 2 ^ s) % B ^ a.length ∧
    (overflowingShlVartime a s).1.length = a.length ∧ WF (overflowingShlVartime a s).1 := by
  have hk : s / 64 < a.length := by omega
  have hkle : s / 64 ≤ a.length := Nat.le_of_lt hk
  have hn : a.length = s / 64 + (a.length - s / 64) := by omega
  have hmove := shlMove_eq hkle
  have htake : WF (a.take (a.length - s / 64)) := WF_take ha _
  have hvt : val (a.take (a.length - s / 64)) = val a % B ^ (a.length - s / 64) :=
    val_take ha (Nat.sub_le _ _)
  have hlt : (a.take (a.length - s / 64)).length = a.length - s / 64 := by
    rw [List.length_take]; exact Nat.min_eq_left (Nat.sub_le _ _)
  have hsplit : B ^ a.length = B ^ (s / 64) * B ^ (a.length - s / 64) := by
    rw [← Nat.pow_add, ← hn]
  unfold overflowingShlVartime
  simp only [ge_iff_le, Nat.not_le.mpr h, if_false]
  by_cases hrem : s % 64 = 0
  · simp only [hrem, if_true]
    refine ⟨trivial, ?_, ?_, ?_⟩
    · rw [hmove, val_append, val_replicate_zero, List.length_replicate, Nat.zero_add, hvt,
        two_pow_shift s, hrem, Nat.pow_zero, Nat.mul_one, hsplit, Nat.mul_comm (val a),
        Nat.mul_mod_mul_left]
    · rw [hmove, List.length_append, List.length_replicate, hlt]; omega
    · rw [hmove]; exact WF_append.mpr ⟨WF_replicate (by decide), htake⟩
  · simp only [hrem, if_false]
    have hr0 : 0 < s % 64 := Nat.pos_of_ne_zero hrem
    have hr : s % 64 < 64 := Nat.mod_lt _ (by decide)
    have htk : (shlMove a (s / 64)).take (s / 64) = List.replicate (s / 64) 0 := by
      rw [hmove, List.take_left' (List.length_replicate ..)]
    have hdk : (shlMove a (s / 64)).drop (s / 64) = a.take (a.length - s / 64) := by
      rw [hmove, List.drop_left' (List.length_replicate ..)]
    rw [htk, hdk]
    have ⟨hcv, hcw⟩ := shlCarry_spec hr0 hr _ 0 htake (Nat.two_pow_pos _)
    refine ⟨trivial, ?_, ?_, ?_⟩
    · rw [val_append, val_replicate_zero, List.length_replicate, Nat.zero_add, hcv, hlt, hvt,
        Nat.add_zero, Nat.mod_mul_mod, ← Nat.mul_mod_mul_left, ← hsplit]
      congr 1
      conv => rhs; rw [two_pow_shift s]
      ring
    · rw [List.length_append, List.length_replicate, shlCarry_length, hlt]; omega
    · exact WF_append.mpr ⟨WF_replicate (by decide), hcw⟩

theorem overflowingShrVartime_overflow (a : List Nat) {s : Nat} (h : 64 * a.length ≤ s) :
    overflowingShrVartime a s = (uzero a.length, 0) := by
  unfold overflowingShrVartime; simp [h]

theorem overflowingShrVartime_spec {a : List Nat} {s : Nat} (ha : WF a) (h : s < 64 * a.length) :
    (overflowingShrVartime a s).2 = WMAX ∧
    val (overflowingShrVartime a s).1 = val a / 2 ^ s ∧
    (overflowingShrVartime a s).1.length = a.length ∧ WF (overflowingShrVartime a s).1 := by
  have hk : s / 64 < a.length := by omega
  have hkle : s / 64 ≤ a.length := Nat.le_of_lt hk
  have hdrop : WF (a.drop (s / 64)) := WF_drop ha _
  have hvd : val (a.drop (s / 64)) = val a / B ^ (s / 64) := val_drop ha hkle
  have hld : (a.drop (s / 64)).length = a.length - s / 64 := List.length_drop
  unfold overflowingShrVartime
  simp only [ge_iff_le, Nat.not_le.mpr h, if_false]
  have htk : (shrMove a (s / 64) 0).take (a.length - s / 64) = a.drop (s / 64) := by
    unfold shrMove; rw [List.take_left' hld]
  have hdk : (shrMove a (s / 64) 0).drop (a.length - s / 64) = List.replicate (s / 64) 0 := by
    unfold shrMove; rw [List.drop_left' hld]
  by_cases hrem : s % 64 = 0
  · simp only [hrem, if_true]
    refine ⟨trivial, ?_, ?_, ?_⟩
    · unfold shrMove
      rw [val_append, val_replicate_zero, Nat.mul_zero, Nat.add_zero, hvd, two_pow_shift s, hrem,
        Nat.pow_zero, Nat.mul_one]
    · unfold shrMove; rw [List.length_append, List.length_replicate, hld]; omega
    · unfold shrMove; exact WF_append.mpr ⟨hdrop, WF_replicate (by decide)⟩
  · simp only [hrem, if_false]
    have hr0 : 0 < s % 64 := Nat.pos_of_ne_zero hrem
    have hr : s % 64 < 64 := Nat.mod_lt _ (by decide)
    rw [htk, hdk]
    have hsp := shrCarry_spec hr0 hr _ 0 hdrop (Nat.two_pow_pos _)
    rw [Nat.mul_zero] at hsp
    have ⟨hcv, _, hcw⟩ := hsp
    refine ⟨trivial, ?_, ?_, ?_⟩
    · rw [val_append, val_replicate_zero, Nat.mul_zero, Nat.add_zero, hcv, Nat.mul_zero,
        Nat.add_zero, hvd, Nat.div_div_eq_div_mul, ← two_pow_shift]
    · rw [List.length_append, List.length_replicate, shrCarry_length, hld]; omega
    · exact WF_append.mpr ⟨hcw, WF_replicate (by decide)⟩

end CB.Shift
