/-
  CB.Lemmas.GenInt — the hand-written model of the SIGN layer of `Int<LIMBS>` (`msw`, `isNegative`, `isPositive`, `absSign`,
  `iabs`, `newFromAbsSign`, `intMax`, `intMin`, `iOverflowingAdd`, `iCheckedAdd`, `iOverflowingNeg`, … of CB/Model/Int.lean,
  `uselect` / `wrappingNegIf` of CB/Model/Uint.lean) IS the translated source (CB/Gen/IntSign.lean, regenerated on every run),
  for EVERY limb count.  Method: CB/Lemmas/GenChainsSub.lean — the loops by induction on the number of remaining rounds with
  the round lemmas of CB/Lemmas/GenBitsInt.lean, the straight-line functions by the `_eq` lemmas of that file and the bridges of
  the `Uint` chains (CB/Lemmas/GenChains{,Sub,Cmp}.lean).  No `bv_decide` in this file.
-/
import CB.Lemmas.GenChains
import CB.Lemmas.GenChainsCmp
import CB.Lemmas.GenBitsInt
import CB.Model.Bits
import CB.Model.Cmp
namespace CB.GenChains
open CB CB.Gen CB.GenBits CB.SInt CB.Bits

/-! ## `Uint::select`, `Uint::wrapping_neg_if` -/

theorem select_loop_bridge (L : Nat) (a b : List (BitVec 64)) (c : BitVec 64) (ha : a.length = L) (hb : b.length = L) :
    ∀ (n i : Nat) (limbs : List (BitVec 64)), i + n = L → limbs.length = L →
      nats (IntSign.Uint.select_loop1 L a b c n i limbs) =
        nats (limbs.take i) ++ uselect (nats (a.drop i)) (nats (b.drop i)) c.toNat := by
  intro n
  induction n with
  | zero =>
    intro i limbs hi hl
    rw [select_loop_zero, List.drop_of_length_le (by omega), List.drop_of_length_le (by omega),
      List.take_of_length_le (by omega)]
    simp [nats, uselect]
  | succ n ih =>
    intro i limbs hi hl
    have hi' : i < L := by omega
    have ih1 := ih (i + 1) (limbs.set i (a.getD i 0#64 ^^^ (c &&& (a.getD i 0#64 ^^^ b.getD i 0#64))))
      (by omega) (by simpa using hl)
    rw [select_loop_succ L a b c n i limbs hi', drop_eq_getD_cons a i (by omega), drop_eq_getD_cons b i (by omega)]
    simp only [nats, List.map_cons] at ih1 ⊢
    rw [ih1, take_set_succ limbs i _ (by omega), uselect, selectWord_word_bridge]
    simp only [List.map_append, List.map_cons, List.map_nil, List.append_assoc, List.cons_append, List.nil_append]

/-- **`Uint::select`** -/
theorem uselect_bridge (a b : List (BitVec 64)) (c : BitVec 64) (h : a.length = b.length) :
    uselect (nats a) (nats b) c.toNat = nats (IntSign.Uint.select a.length a b c) := by
  have h1 := select_loop_bridge a.length a b c rfl h.symm a.length 0 (List.replicate a.length 0#64) (by omega) (by simp)
  rw [select_eq_loop, h1]
  simp [nats]

theorem select_length (a b : List (BitVec 64)) (c : BitVec 64) (h : a.length = b.length) :
    (IntSign.Uint.select a.length a b c).length = a.length := by
  have := congrArg List.length (uselect_bridge a b c h)
  rw [nats_length] at this
  rw [← this]
  clear this
  induction a generalizing b with
  | nil => simp [nats, uselect]
  | cons x xs ih =>
    cases b with
    | nil => simp at h
    | cons y ys =>
      have := ih ys (by simpa using h)
      simp only [nats, List.map_cons, uselect, List.length_cons] at this ⊢
      omega

theorem wrapping_neg_length (a : List (BitVec 64)) : (Chains.Uint.wrapping_neg a.length a).length = a.length := by
  have := congrArg List.length (wrappingNeg_bridge a)
  rw [nats_length] at this
  rw [← this, wrappingNeg, carryingNeg]
  have : ∀ (l : List Nat) (c : Nat), (negLoop l c).1.length = l.length := by
    intro l
    induction l with
    | nil => intro c; simp [negLoop]
    | cons x xs ih => intro c; simp [negLoop, ih]
  rw [this, nats_length]

/-- **`Uint::wrapping_neg_if`** -/
theorem wrappingNegIf_bridge (a : List (BitVec 64)) (c : BitVec 64) :
    wrappingNegIf (nats a) c.toNat = nats (IntSign.Uint.wrapping_neg_if a.length a c) := by
  rw [uint_wrapping_neg_if_eq, wrappingNegIf, wrappingNeg_bridge,
    uselect_bridge a _ c (wrapping_neg_length a).symm]

/-! ## `Uint::bitxor` -/

theorem bitxor_loop_bridge (L : Nat) (a b : List (BitVec 64)) (ha : a.length = L) (hb : b.length = L) :
    ∀ (n i : Nat) (limbs : List (BitVec 64)), i + n = L → limbs.length = L →
      nats (IntSign.Uint.bitxor_loop1 L a b n i limbs) =
        nats (limbs.take i) ++ ubitxor (nats (a.drop i)) (nats (b.drop i)) := by
  intro n
  induction n with
  | zero =>
    intro i limbs hi hl
    rw [bitxor_loop_zero, List.drop_of_length_le (by omega), List.drop_of_length_le (by omega),
      List.take_of_length_le (by omega)]
    simp [nats, ubitxor]
  | succ n ih =>
    intro i limbs hi hl
    have hi' : i < L := by omega
    have ih1 := ih (i + 1) (limbs.set i (a.getD i 0#64 ^^^ b.getD i 0#64)) (by omega) (by simpa using hl)
    rw [bitxor_loop_succ L a b n i limbs hi', drop_eq_getD_cons a i (by omega), drop_eq_getD_cons b i (by omega)]
    simp only [nats, List.map_cons] at ih1 ⊢
    rw [ih1, take_set_succ limbs i _ (by omega), ubitxor]
    simp only [List.map_append, List.map_cons, List.map_nil, List.append_assoc, List.cons_append, List.nil_append,
      BitVec.toNat_xor]

/-- **`Uint::bitxor`** -/
theorem ubitxor_bridge (a b : List (BitVec 64)) (h : a.length = b.length) :
    ubitxor (nats a) (nats b) = nats (IntSign.Uint.bitxor a.length a b) := by
  have h1 := bitxor_loop_bridge a.length a b rfl h.symm a.length 0 (List.replicate a.length 0#64) (by omega) (by simp)
  rw [bitxor_eq_loop, h1]
  simp [nats]

/-! ## the constants -/

theorem set_replicate_last (x y : BitVec 64) : ∀ n : Nat,
    (List.replicate (n + 2) x).set (n + 2 - 1) y = x :: (List.replicate (n + 1) x).set (n + 1 - 1) y := by
  intro n
  rw [List.replicate_succ, show n + 2 - 1 = n + 1 from rfl, List.set_cons_succ, show n + 1 - 1 = n from rfl]

/-- **`Int::MAX`** -/
theorem intMax_bridge : ∀ L : Nat, intMax L = nats (IntSign.Int.MAX L)
  | 0 => by rw [int_MAX_eq]; rfl
  | 1 => by rw [int_MAX_eq]; decide
  | n + 2 => by
    have ih := intMax_bridge (n + 1)
    rw [int_MAX_eq] at ih ⊢
    rw [set_replicate_last, intMax, ih]
    rfl

/-- **`Int::MIN`** (also `Int::SIGN_MASK`) -/
theorem intMin_bridge : ∀ L : Nat, intMin L = nats (IntSign.Int.MIN L)
  | 0 => by rw [int_MIN_eq]; rfl
  | 1 => by rw [int_MIN_eq]; decide
  | n + 2 => by
    have ih := intMin_bridge (n + 1)
    rw [int_MIN_eq] at ih ⊢
    rw [set_replicate_last, intMin, ih]
    rfl

theorem int_MAX_length (L : Nat) : (IntSign.Int.MAX L).length = L := by
  rw [int_MAX_eq]; simp
theorem int_MIN_length (L : Nat) : (IntSign.Int.MIN L).length = L := by
  rw [int_MIN_eq]; simp

/-- **`Int::ONE`** -/
theorem iOne_bridge (L : Nat) : iOne L = nats (IntSign.Int.ONE L) := by
  rw [int_ONE_eq, iOne]
  cases L with
  | zero => rfl
  | succ n => simp [uone, uzero, nats, List.replicate_succ]

theorem int_ONE_length (L : Nat) : (IntSign.Int.ONE L).length = L := by
  rw [int_ONE_eq]; simp

/-- `self.0.bitxor(&Uint::MAX)` -/
theorem xorMax_bridge (a : List (BitVec 64)) :
    xorMax (nats a) = nats (IntSign.Uint.bitxor a.length a (IntSign.Uint.MAX a.length)) := by
  rw [← ubitxor_bridge a _ (by rw [uint_MAX_eq]; simp), uint_MAX_eq]
  induction a with
  | nil => simp [nats, xorMax, ubitxor]
  | cons x xs ih =>
    simp only [nats, List.map_cons, xorMax, List.length_cons, List.replicate_succ, ubitxor] at ih ⊢
    rw [ih]
    rfl

/-! ## `Int::most_significant_word`, `is_negative`, `is_positive` -/

theorem msw_getD : ∀ a : List (BitVec 64), msw (nats a) = (a.getD (a.length - 1) 0#64).toNat
  | [] => by simp [nats, msw]
  | [x] => by simp [nats, msw]
  | x :: y :: ys => by
    have ih := msw_getD (y :: ys)
    simp only [nats, List.map_cons, msw, List.length_cons] at ih ⊢
    rw [ih]
    simp

/-- **`Int::most_significant_word`** -/
theorem msw_bridge (a : List (BitVec 64)) :
    msw (nats a) = (IntSign.Int.most_significant_word a.length a).toNat := by
  rw [msw_eq, msw_getD]
  split
  · next h =>
    have : a = [] := List.length_eq_zero_iff.mp h
    subst this
    rfl
  · rfl

/-- **`Int::is_negative`** -/
theorem isNegative_bridge (a : List (BitVec 64)) :
    isNegative (nats a) = (IntSign.Int.is_negative a.length a).toNat := by
  rw [is_negative_eq, ← fromWordMsb_bridge, ← msw_bridge, isNegative]

/-- **`Int::is_positive`** -/
theorem isPositive_bridge (a : List (BitVec 64)) :
    isPositive (nats a) = (IntSign.Int.is_positive a.length a).toNat := by
  rw [is_positive_eq, ← cand_bridge, ← cnot_bridge, ← isNegative_bridge, ← isNonzero_bridge, isPositive]

/-! ## `Int::abs_sign`, `abs`, `new_from_abs_sign` -/

/-- **`Int::abs_sign`** -/
theorem absSign_bridge (a : List (BitVec 64)) :
    absSign (nats a) = (nats (IntSign.Int.abs_sign a.length a).1, (IntSign.Int.abs_sign a.length a).2.toNat) := by
  rw [abs_sign_eq, absSign]
  simp only [isNegative_bridge, wrappingNegIf_bridge]

/-- **`Int::abs`** -/
theorem iabs_bridge (a : List (BitVec 64)) : iabs (nats a) = nats (IntSign.Int.abs a.length a) := by
  rw [abs_eq, iabs, absSign_bridge]

/-- **`Int::new_from_abs_sign`**: the value and the `is_some` mask of the `ConstCtOption` -/
theorem newFromAbsSign_bridge (a : List (BitVec 64)) (c : BitVec 64) :
    newFromAbsSign (nats a) c.toNat =
      (nats (IntSign.Int.new_from_abs_sign a.length a c).1, (IntSign.Int.new_from_abs_sign a.length a c).2.toNat) := by
  rw [new_from_abs_sign_eq, newFromAbsSign, nats_length, intMax_bridge, intMin_bridge,
    ulte_bridge a _ (int_MAX_length _).symm, ueq_bridge a _ (int_MIN_length _).symm]
  simp only [wrappingNegIf_bridge, cand_bridge, cor_bridge]

/-! ## `Int::overflowing_add`, `checked_add`, `wrapping_add`; `overflowing_neg`, `wrapping_neg`, `checked_neg`,
`wrapping_neg_if` -/

theorem wrapping_add_length (a b : List (BitVec 64)) (h : a.length = b.length) :
    (Chains.Uint.wrapping_add a.length a b).length = a.length := by
  have := congrArg List.length (wrappingAdd_bridge a b h)
  rw [nats_length] at this
  rw [← this, wrappingAdd]
  have hl : ∀ (x y : List Nat) (c : Nat), x.length = y.length → (uadc x y c).1.length = x.length := by
    intro x
    induction x with
    | nil => intro y c h; cases y <;> simp_all [uadc]
    | cons x xs ih =>
      intro y c h
      cases y with
      | nil => simp at h
      | cons y ys => rw [uadc_cons]; simp [ih ys _ (by simpa using h)]
  rw [hl _ _ _ (by rw [nats_length, nats_length, h]), nats_length]

/-- **`Int::overflowing_add`** -/
theorem iOverflowingAdd_bridge (a b : List (BitVec 64)) (h : a.length = b.length) :
    iOverflowingAdd (nats a) (nats b) =
      (nats (IntSign.Int.overflowing_add a.length a b).1, (IntSign.Int.overflowing_add a.length a b).2.toNat) := by
  have hb := isNegative_bridge b
  have hr := isNegative_bridge (Chains.Uint.wrapping_add a.length a b)
  rw [wrapping_add_length a b h] at hr
  rw [← h] at hb
  rw [overflowing_add_eq, iOverflowingAdd]
  simp only [wrappingAdd_bridge a b h, isNegative_bridge a, hb, hr, ceq_bridge, cne_bridge, cand_bridge]

/-- **`Int::checked_add`** -/
theorem iCheckedAdd_bridge (a b : List (BitVec 64)) (h : a.length = b.length) :
    iCheckedAdd (nats a) (nats b) =
      (nats (IntSign.Int.checked_add a.length a b).1, (IntSign.Int.checked_add a.length a b).2.toNat) := by
  rw [checked_add_eq, iCheckedAdd, iOverflowingAdd_bridge a b h]
  simp only [cnot_bridge]

/-- **`Int::wrapping_add`** -/
theorem iWrappingAdd_bridge (a b : List (BitVec 64)) (h : a.length = b.length) :
    iWrappingAdd (nats a) (nats b) = nats (IntSign.Int.wrapping_add a.length a b) := by
  rw [int_wrapping_add_eq, iWrappingAdd, wrappingAdd_bridge a b h]

theorem bitxor_length (a b : List (BitVec 64)) (h : a.length = b.length) :
    (IntSign.Uint.bitxor a.length a b).length = a.length := by
  have := congrArg List.length (ubitxor_bridge a b h)
  rw [nats_length] at this
  rw [← this]
  clear this
  induction a generalizing b with
  | nil => simp [nats, ubitxor]
  | cons x xs ih =>
    cases b with
    | nil => simp at h
    | cons y ys =>
      have := ih ys (by simpa using h)
      simp only [nats, List.map_cons, ubitxor, List.length_cons] at this ⊢
      omega

/-- **`Int::overflowing_neg`** -/
theorem iOverflowingNeg_bridge (a : List (BitVec 64)) :
    iOverflowingNeg (nats a) =
      (nats (IntSign.Int.overflowing_neg a.length a).1, (IntSign.Int.overflowing_neg a.length a).2.toNat) := by
  have hl : (IntSign.Uint.bitxor a.length a (IntSign.Uint.MAX a.length)).length = a.length :=
    bitxor_length a _ (by rw [uint_MAX_eq]; simp)
  have := iOverflowingAdd_bridge (IntSign.Uint.bitxor a.length a (IntSign.Uint.MAX a.length)) (IntSign.Int.ONE a.length)
    (by rw [hl, int_ONE_length])
  rw [hl] at this
  rw [overflowing_neg_eq, iOverflowingNeg, nats_length, xorMax_bridge, iOne_bridge, this]

/-- **`Int::wrapping_neg`** -/
theorem iWrappingNeg_bridge (a : List (BitVec 64)) :
    iWrappingNeg (nats a) = nats (IntSign.Int.wrapping_neg a.length a) := by
  rw [int_wrapping_neg_eq, iWrappingNeg, iOverflowingNeg_bridge]

/-- **`Int::checked_neg`** -/
theorem iCheckedNeg_bridge (a : List (BitVec 64)) :
    iCheckedNeg (nats a) =
      (nats (IntSign.Int.checked_neg a.length a).1, (IntSign.Int.checked_neg a.length a).2.toNat) := by
  rw [checked_neg_eq, iCheckedNeg, iOverflowingNeg_bridge]
  simp only [cnot_bridge]

/-- **`Int::wrapping_neg_if`** -/
theorem iWrappingNegIf_bridge (a : List (BitVec 64)) (c : BitVec 64) :
    iWrappingNegIf (nats a) c.toNat = nats (IntSign.Int.wrapping_neg_if a.length a c) := by
  rw [int_wrapping_neg_if_eq, iWrappingNegIf, wrappingNegIf_bridge]

/-! ## signed comparison: `Int::invert_msb`, `Int::lt`, `Int::gt`, `Int::eq`, `Int::is_min` -/

theorem invertMsb_eq_ubitxor : ∀ l : List Nat, Cmp.invertMsb l = ubitxor l (intMin l.length)
  | [] => rfl
  | [x] => rfl
  | x :: y :: ys => by
    have ih := invertMsb_eq_ubitxor (y :: ys)
    show x :: Cmp.invertMsb (y :: ys) = (x ^^^ 0) :: ubitxor (y :: ys) (intMin (ys.length + 1))
    rw [ih, Nat.xor_zero]
    rfl

/-- **`Int::invert_msb`** (`self.0.bitxor(&Self::SIGN_MASK.0)`) -/
theorem invertMsb_bridge (a : List (BitVec 64)) :
    Cmp.invertMsb (nats a) = nats (IntSign.Int.invert_msb a.length a) := by
  rw [invert_msb_eq, int_SIGN_MASK_eq, invertMsb_eq_ubitxor, nats_length, intMin_bridge,
    ubitxor_bridge a _ (int_MIN_length _).symm]

theorem invert_msb_length (a : List (BitVec 64)) : (IntSign.Int.invert_msb a.length a).length = a.length := by
  rw [invert_msb_eq, int_SIGN_MASK_eq]
  exact bitxor_length a _ (int_MIN_length _).symm

/-- **`Int::lt`** -/
theorem ilt_bridge (a b : List (BitVec 64)) (h : a.length = b.length) :
    Cmp.ilt (nats a) (nats b) = (IntSign.Int.lt a.length a b).toNat := by
  have hb := invertMsb_bridge b
  rw [← h] at hb
  have := ult_bridge (IntSign.Int.invert_msb a.length a) (IntSign.Int.invert_msb a.length b)
    (by rw [invert_msb_length, h, invert_msb_length])
  rw [invert_msb_length] at this
  rw [int_lt_eq, Cmp.ilt, invertMsb_bridge, hb, this]

/-- **`Int::gt`** -/
theorem igt_bridge (a b : List (BitVec 64)) (h : a.length = b.length) :
    Cmp.igt (nats a) (nats b) = (IntSign.Int.gt a.length a b).toNat := by
  have hb := invertMsb_bridge b
  rw [← h] at hb
  have := ugt_bridge (IntSign.Int.invert_msb a.length a) (IntSign.Int.invert_msb a.length b)
    (by rw [invert_msb_length, h, invert_msb_length])
  rw [invert_msb_length] at this
  rw [int_gt_eq, Cmp.igt, invertMsb_bridge, hb, this]

/-- **`Int::eq`** is `Uint::eq` of the limbs -/
theorem ieq_bridge (a b : List (BitVec 64)) (h : a.length = b.length) :
    ueq (nats a) (nats b) = (IntSign.Int.eq a.length a b).toNat := by
  rw [int_eq_eq, ueq_bridge a b h]

/-- **`Int::is_min`** -/
theorem isMin_bridge (a : List (BitVec 64)) : isMin (nats a) = (IntSign.Int.is_min a.length a).toNat := by
  rw [is_min_eq, isMin, nats_length, intMin_bridge, ueq_bridge a _ (int_MIN_length _).symm]

/-- **`Int::select`**, **`Int::is_nonzero`** -/
theorem iselect_bridge (a b : List (BitVec 64)) (c : BitVec 64) (h : a.length = b.length) :
    uselect (nats a) (nats b) c.toNat = nats (IntSign.Int.select a.length a b c) := by
  rw [int_select_eq, uselect_bridge a b c h]
theorem iIsNonzero_bridge (a : List (BitVec 64)) :
    isNonzero (nats a) = (IntSign.Int.is_nonzero a.length a).toNat := by
  rw [int_is_nonzero_eq, isNonzero_bridge]

end CB.GenChains
