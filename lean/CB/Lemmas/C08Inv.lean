/-
  CB.Lemmas.C08Inv — the history invariant of `CB.Model.Monty.step`: every stored value is the canonical
  Montgomery representative of the residue computed by `stepSpec`.
-/
import CB.Lemmas.C08Ops
import Mathlib.Data.Nat.ModEq
namespace CB.Monty
open CB

/-- parameter set as the property defines it (the part the history needs). `m = 1` is allowed here: what fails
    for modulus 1 is that the constructors do not produce such a parameter set (`one = 1 ≠ R mod 1`). -/
structure Good (p : Params) (n m : Nat) : Prop where
  modulus : p.modulus = toLimbs n m
  mlt : m < B ^ n
  modd : m % 2 = 1
  mpos : 0 < m
  one : p.one = toLimbs n (B ^ n % m)
  r2 : p.r2 = toLimbs n (B ^ (2 * n) % m)
  k : (p.modNegInv * m + 1) % B = 0

/-- what the history needs from the boxed (almost-Montgomery) multiplication: one operand reduced ⇒ the
    result after the single conditional subtraction is canonical. -/
def AmmMulOK (n m k : Nat) : Prop :=
  ∀ a b : List Nat, WF a → WF b → a.length = n → b.length = n → (val a < m ∨ val b < m) →
    val (bMul a b (toLimbs n m) k) < m ∧
    (val (bMul a b (toLimbs n m) k) * B ^ n) % m = (val a * val b) % m ∧
    WF (bMul a b (toLimbs n m) k) ∧ (bMul a b (toLimbs n m) k).length = n

/-- … and from `mul_by_one` (boxed `retrieve`, no final reduction at all). -/
def AmmOneOK (n m k : Nat) : Prop :=
  ∀ a : List Nat, WF a → a.length = n → val a < m →
    val (bRetrieve a (toLimbs n m) k) < m ∧
    (val (bRetrieve a (toLimbs n m) k) * B ^ n) % m = val a % m ∧
    WF (bRetrieve a (toLimbs n m) k) ∧ (bRetrieve a (toLimbs n m) k).length = n

section
variable {n m : Nat}

theorem canon_WF (x : Nat) : WF (canon n m x) := toLimbs_WF _ _
theorem canon_length (x : Nat) : (canon n m x).length = n := toLimbs_length _ _
theorem canon_val (hm : m < B ^ n) (hpos : 0 < m) (x : Nat) : val (canon n m x) = (x * B ^ n) % m := by
  simp only [canon]
  exact val_toLimbs_lt (Nat.lt_trans (Nat.mod_lt _ hpos) hm)
theorem canon_lt (hm : m < B ^ n) (hpos : 0 < m) (x : Nat) : val (canon n m x) < m := by
  rw [canon_val hm hpos]; exact Nat.mod_lt _ hpos
theorem canon_zero : canon n m 0 = uzero n := by
  simp only [canon, Nat.zero_mul, Nat.zero_mod, toLimbs_zero]

/-- a canonical `n`-limb value `r < m` with `r·R ≡ t·R·R`-style congruence is the canonical form -/
theorem eq_canon {l : List Nat} {x : Nat} (_hm : m < B ^ n) (hodd : m % 2 = 1)
    (hw : WF l) (hl : l.length = n) (hlt : val l < m)
    (h : (val l * B ^ n) % m = ((x * B ^ n) % m * B ^ n) % m) : l = canon n m x := by
  have hpos : 0 < m := by omega
  apply eq_toLimbs hw hl
  exact cancel_mod (coprime_Bpow_of_odd hodd n) hlt (Nat.mod_lt _ hpos) h

theorem eq_canon_of_val {l : List Nat} {x : Nat} (hw : WF l) (hl : l.length = n)
    (h : val l = (x * B ^ n) % m) : l = canon n m x := eq_toLimbs hw hl h

/-! ### residue arithmetic on canonical representatives -/

theorem cmod_add (x y R : Nat) : (x * R % m + y * R % m) % m = ((x + y) % m * R) % m := by
  show (x * R % m + y * R % m) ≡ ((x + y) % m * R) [MOD m]
  calc x * R % m + y * R % m ≡ x * R + y * R [MOD m] := (Nat.mod_modEq _ _).add (Nat.mod_modEq _ _)
    _ = (x + y) * R := by ring
    _ ≡ (x + y) % m * R [MOD m] := ((Nat.mod_modEq _ _).mul_right _).symm

theorem cmod_double (x R : Nat) : (2 * (x * R % m)) % m = ((2 * x) % m * R) % m := by
  show (2 * (x * R % m)) ≡ ((2 * x) % m * R) [MOD m]
  calc 2 * (x * R % m) ≡ 2 * (x * R) [MOD m] := (Nat.mod_modEq _ _).mul_left _
    _ = (2 * x) * R := by ring
    _ ≡ (2 * x) % m * R [MOD m] := ((Nat.mod_modEq _ _).mul_right _).symm

theorem cmod_neg (hpos : 0 < m) (y R : Nat) (hy : y < m) :
    (m - y * R % m) % m = ((m - y % m) % m * R) % m := by
  have hb : y * R % m < m := Nat.mod_lt _ hpos
  show (m - y * R % m) ≡ ((m - y % m) % m * R) [MOD m]
  apply Nat.ModEq.add_right_cancel' (y * R)
  calc m - y * R % m + y * R ≡ m - y * R % m + y * R % m [MOD m] :=
        (Nat.ModEq.refl _).add (Nat.mod_modEq _ _).symm
    _ = m := by omega
    _ ≡ 0 [MOD m] := by show m % m = 0 % m; simp
    _ ≡ m * R [MOD m] := by show 0 % m = (m * R) % m; simp
    _ = (m - y % m) * R + y * R := by rw [Nat.mod_eq_of_lt hy, ← Nat.add_mul]; congr 1; omega
    _ ≡ (m - y % m) % m * R + y * R [MOD m] :=
        (((Nat.mod_modEq _ _).mul_right _).symm).add (Nat.ModEq.refl _)

theorem cmod_sub (hpos : 0 < m) (x y R : Nat) (hy : y < m) :
    (x * R % m + (m - y * R % m)) % m = ((x + (m - y % m)) % m * R) % m := by
  have h1 : (x * R % m + (m - y * R % m)) % m = (x * R % m + ((m - y % m) % m) * R % m) % m := by
    rw [Nat.add_mod_mod, Nat.add_mod, cmod_neg hpos y R hy, ← Nat.add_mod]
  rw [h1, cmod_add, Nat.add_mod x, Nat.mod_mod, ← Nat.add_mod]

theorem cmod_mul (x y R : Nat) :
    ((x * R % m) * (y * R % m)) % m = (((x * y) % m * R) % m * R) % m := by
  show ((x * R % m) * (y * R % m)) ≡ (((x * y) % m * R) % m * R) [MOD m]
  calc (x * R % m) * (y * R % m) ≡ (x * R) * (y * R) [MOD m] := (Nat.mod_modEq _ _).mul (Nat.mod_modEq _ _)
    _ = ((x * y) * R) * R := by ring
    _ ≡ ((x * y) % m * R) * R [MOD m] := (((Nat.mod_modEq _ _).mul_right _).mul_right _).symm
    _ ≡ (((x * y) % m * R) % m) * R [MOD m] := ((Nat.mod_modEq _ _).mul_right _).symm

theorem cmod_half (x h R : Nat) : ((x * R % m) * h) % m = ((x * h) % m * R) % m := by
  show ((x * R % m) * h) ≡ ((x * h) % m * R) [MOD m]
  calc (x * R % m) * h ≡ (x * R) * h [MOD m] := (Nat.mod_modEq _ _).mul_right _
    _ = (x * h) * R := by ring
    _ ≡ (x * h) % m * R [MOD m] := ((Nat.mod_modEq _ _).mul_right _).symm

end

/-! ### every operation of the state machine on canonical representatives -/

section
variable {s : State} {n m : Nat}

theorem Good.pos (g : Good s.params n m) : 0 < m := g.mpos
theorem Good.mval (g : Good s.params n m) : val s.params.modulus = m := by
  rw [g.modulus]; exact val_toLimbs_lt g.mlt
theorem Good.mWF (g : Good s.params n m) : WF s.params.modulus := by rw [g.modulus]; exact toLimbs_WF _ _
theorem Good.mlen (g : Good s.params n m) : s.params.modulus.length = n := by
  rw [g.modulus]; exact toLimbs_length _ _
theorem Good.n_eq (g : Good s.params n m) : s.n = n := g.mlen
theorem Good.kval (g : Good s.params n m) : (s.params.modNegInv * val s.params.modulus + 1) % B = 0 := by
  rw [g.mval]; exact g.k

theorem opAdd_canon (g : Good s.params n m) {x y : Nat} (_hx : x < m) (_hy : y < m) :
    opAdd s (canon n m x) (canon n m y) = canon n m ((x + y) % m) := by
  have hp := g.pos
  have ⟨⟨v, w, l⟩, e⟩ := @addMod_spec (canon n m x) (canon n m y) s.params.modulus (canon_WF x) (canon_WF y) g.mWF
    (by rw [canon_length, canon_length]) (by rw [canon_length, g.mlen])
    (by rw [g.mval]; exact canon_lt g.mlt hp x) (by rw [g.mval]; exact canon_lt g.mlt hp y)
  have : opAdd s (canon n m x) (canon n m y) = addMod (canon n m x) (canon n m y) s.params.modulus := by
    simp only [opAdd]; cases s.rep <;> simp only [e]
  rw [this]
  apply eq_canon_of_val w (by rw [l, canon_length])
  rw [v, g.mval, canon_val g.mlt hp, canon_val g.mlt hp, cmod_add]

theorem opSub_canon (g : Good s.params n m) {x y : Nat} (_hx : x < m) (hy : y < m) :
    opSub s (canon n m x) (canon n m y) = canon n m ((x + (m - y % m)) % m) ∧
    opSubAssign s (canon n m x) (canon n m y) = canon n m ((x + (m - y % m)) % m) := by
  have hp := g.pos
  have ⟨⟨v, w, l⟩, e1, e2⟩ := @subMod_spec (canon n m x) (canon n m y) s.params.modulus (canon_WF x) (canon_WF y)
    g.mWF (by rw [canon_length, canon_length]) (by rw [canon_length, g.mlen])
    (by rw [g.mval]; exact canon_lt g.mlt hp x) (by rw [g.mval]; exact canon_lt g.mlt hp y)
  have h1 : opSub s (canon n m x) (canon n m y) = subMod (canon n m x) (canon n m y) s.params.modulus := by
    simp only [opSub]; cases s.rep <;> simp only [e1]
  have h2 : opSubAssign s (canon n m x) (canon n m y) = subMod (canon n m x) (canon n m y) s.params.modulus := by
    simp only [opSubAssign]; cases s.rep <;> simp only [e2]
  rw [h1, h2]
  have : subMod (canon n m x) (canon n m y) s.params.modulus = canon n m ((x + (m - y % m)) % m) := by
    apply eq_canon_of_val w (by rw [l, canon_length])
    rw [v, g.mval, canon_val g.mlt hp, canon_val g.mlt hp, cmod_sub hp x y _ hy]
  exact ⟨this, this⟩

theorem opNeg_canon (g : Good s.params n m) {x : Nat} (hx : x < m) :
    opNeg s (canon n m x) = canon n m ((m - x % m) % m) := by
  have hp := g.pos
  have ⟨⟨v, w, l⟩, e⟩ := @negMod_spec (canon n m x) s.params.modulus (canon_WF x) g.mWF
    (by rw [canon_length, g.mlen]) (by rw [g.mval]; exact canon_lt g.mlt hp x)
  have : opNeg s (canon n m x) = negMod (canon n m x) s.params.modulus := by
    simp only [opNeg]; cases s.rep <;> simp only [e]
  rw [this]
  apply eq_canon_of_val w (by rw [l, canon_length])
  rw [v, g.mval, canon_val g.mlt hp, cmod_neg hp x _ hx]

theorem opDouble_canon (g : Good s.params n m) {x : Nat} (_hx : x < m) :
    opDouble s (canon n m x) = canon n m ((2 * x) % m) := by
  have hp := g.pos
  have ⟨⟨v, w, l⟩, e⟩ := @doubleMod_spec (canon n m x) s.params.modulus (canon_WF x) g.mWF
    (by rw [canon_length, g.mlen]) (by rw [g.mval]; exact canon_lt g.mlt hp x)
  have : opDouble s (canon n m x) = doubleMod (canon n m x) s.params.modulus := by
    simp only [opDouble]; cases s.rep <;> simp only [e]
  rw [this]
  apply eq_canon_of_val w (by rw [l, canon_length])
  rw [v, g.mval, canon_val g.mlt hp, cmod_double]

theorem opDiv2_canon (g : Good s.params n m) {x : Nat} (_hx : x < m) :
    opDiv2 s (canon n m x) = canon n m ((x * ((m + 1) / 2)) % m) := by
  have hp := g.pos
  have ⟨⟨v, w, l⟩, e⟩ := @divBy2_spec (canon n m x) s.params.modulus (canon_WF x) g.mWF
    (by rw [canon_length, g.mlen]) (by rw [g.mval]; exact canon_lt g.mlt hp x) (by rw [g.mval]; exact g.modd)
  have : opDiv2 s (canon n m x) = divBy2 (canon n m x) s.params.modulus := by
    simp only [opDiv2]; cases s.rep <;> simp only [e]
  rw [this]
  apply eq_canon_of_val w (by rw [l, canon_length])
  rw [v, g.mval, canon_val g.mlt hp, cmod_half]

/-- multiplication: `a` canonical for `x`, `b` ANY `n`-limb value congruent to `y·R` (covers `new`). -/
theorem opMul_general (g : Good s.params n m) (hmul : AmmMulOK n m s.params.modNegInv)
    {a b : List Nat} (ha : WF a) (hb : WF b) (hal : a.length = n) (hbl : b.length = n)
    (hab : val a < m ∨ val b < m) :
    val (opMul s a b) < m ∧ (val (opMul s a b) * B ^ n) % m = (val a * val b) % m ∧
    WF (opMul s a b) ∧ (opMul s a b).length = n := by
  have hfix : val a < m ∨ val b < m →
      val (mulMont a b s.params.modulus s.params.modNegInv) < m ∧
      (val (mulMont a b s.params.modulus s.params.modNegInv) * B ^ n) % m = (val a * val b) % m ∧
      WF (mulMont a b s.params.modulus s.params.modNegInv) ∧
      (mulMont a b s.params.modulus s.params.modNegInv).length = n := by
    intro h
    rcases h with h | h
    · have := @mulMont_spec a b s.params.modulus s.params.modNegInv ha hb g.mWF (by rw [hal, g.mlen])
        (by rw [hbl, g.mlen]) g.kval (by rw [g.mval]; exact h)
      rw [g.mval, g.mlen] at this
      exact this
    · -- split_mul is commutative at value level: reduce `a·b` as `b·a`
      have := @mulMont_spec b a s.params.modulus s.params.modNegInv hb ha g.mWF (by rw [hbl, g.mlen])
        (by rw [hal, g.mlen]) g.kval (by rw [g.mval]; exact h)
      have hc : mulMont a b s.params.modulus s.params.modNegInv = mulMont b a s.params.modulus s.params.modNegInv := by
        simp only [mulMont, Nat.mul_comm (val a) (val b)]
      rw [hc]
      rw [g.mval, g.mlen, Nat.mul_comm (val b) (val a)] at this
      exact this
  cases hr : s.rep
  · simp only [opMul, hr]; exact hfix hab
  · simp only [opMul, hr]; exact hfix hab
  · simp only [opMul, hr]
    have := hmul a b ha hb hal hbl hab
    rw [← g.modulus] at this
    exact this

theorem opMul_canon (g : Good s.params n m) (hmul : AmmMulOK n m s.params.modNegInv)
    {x y : Nat} (_hx : x < m) (_hy : y < m) :
    opMul s (canon n m x) (canon n m y) = canon n m ((x * y) % m) := by
  have hp := g.pos
  have ⟨lt, c, w, l⟩ := opMul_general g hmul (@canon_WF n m x) (@canon_WF n m y) (@canon_length n m x)
    (@canon_length n m y) (Or.inl (canon_lt g.mlt hp x))
  apply eq_canon g.mlt g.modd w l lt
  rw [c, canon_val g.mlt hp, canon_val g.mlt hp, cmod_mul]

theorem opSquare_eq (a : List Nat) : opSquare s a = opMul s a a := by
  simp only [opSquare, opMul, squareMont, bSquare, bMul]

theorem opNew_canon (g : Good s.params n m) (hmul : AmmMulOK n m s.params.modNegInv) {v : Nat}
    (hv : v < B ^ n) : opNew s v = canon n m (v % m) := by
  have hp := g.pos
  have hr2lt : B ^ (2 * n) % m < B ^ n := Nat.lt_trans (Nat.mod_lt _ hp) g.mlt
  have hr2 : val s.params.r2 = B ^ (2 * n) % m := by rw [g.r2]; exact val_toLimbs_lt hr2lt
  have ⟨lt, c, w, l⟩ := @opMul_general s n m g hmul (toLimbs s.n v) s.params.r2 (toLimbs_WF _ _)
    (by rw [g.r2]; exact toLimbs_WF _ _) (by rw [toLimbs_length, g.n_eq]) (by rw [g.r2, toLimbs_length])
    (Or.inr (by rw [hr2]; exact Nat.mod_lt _ hp))
  simp only [opNew]
  apply eq_canon g.mlt g.modd w l lt
  rw [c, hr2, val_toLimbs, g.n_eq, Nat.mod_eq_of_lt hv]
  show (v * (B ^ (2 * n) % m)) ≡ ((v % m * B ^ n) % m * B ^ n) [MOD m]
  calc v * (B ^ (2 * n) % m) ≡ v * B ^ (2 * n) [MOD m] := (Nat.mod_modEq _ _).mul_left _
    _ = (v * B ^ n) * B ^ n := by rw [Nat.two_mul, Nat.pow_add]; ring
    _ ≡ (v % m * B ^ n) * B ^ n [MOD m] := (((Nat.mod_modEq _ _).mul_right _).mul_right _).symm
    _ ≡ ((v % m * B ^ n) % m) * B ^ n [MOD m] := ((Nat.mod_modEq _ _).mul_right _).symm

/-- `retrieve()` of a canonical representative is the residue itself. -/
theorem opRetrieve_canon (g : Good s.params n m) (hone : AmmOneOK n m s.params.modNegInv)
    {x : Nat} (hx : x < m) : opRetrieve s (canon n m x) = toLimbs n x := by
  have hp := g.pos
  have key : ∀ r : List Nat, val r < m → (val r * B ^ n) % m = val (canon n m x) % m → WF r → r.length = n →
      r = toLimbs n x := by
    intro r lt c w l
    apply eq_toLimbs w l
    apply cancel_mod (coprime_Bpow_of_odd g.modd n) lt hx
    rw [c, canon_val g.mlt hp, Nat.mod_mod]
  cases hr : s.rep
  · simp only [opRetrieve, hr]
    have := @retrieveMont_spec (canon n m x) s.params.modulus s.params.modNegInv (canon_WF x) g.mWF
      (by rw [canon_length, g.mlen]) g.kval (by rw [g.mval]; exact canon_lt g.mlt hp x)
    rw [g.mval, g.mlen] at this
    exact key _ this.1 this.2.1 this.2.2.1 this.2.2.2
  · simp only [opRetrieve, hr]
    have := @retrieveMont_spec (canon n m x) s.params.modulus s.params.modNegInv (canon_WF x) g.mWF
      (by rw [canon_length, g.mlen]) g.kval (by rw [g.mval]; exact canon_lt g.mlt hp x)
    rw [g.mval, g.mlen] at this
    exact key _ this.1 this.2.1 this.2.2.1 this.2.2.2
  · simp only [opRetrieve, hr]
    have := hone (canon n m x) (canon_WF x) (canon_length x) (canon_lt g.mlt hp x)
    rw [← g.modulus] at this
    exact key _ this.1 this.2.1 this.2.2.1 this.2.2.2

end

/-! ### the invariant -/

/-- well-typedness of an operation: the integer handed to `new` is an `n`-limb value. -/
def wt (n : Nat) : MontyOp → Prop
  | .new v => v < B ^ n
  | _ => True

/-- every stored value is the canonical representative `x·R mod m` (< m) of its residue `x`. -/
def Inv (n m : Nat) (st : State) (sp : List Nat) : Prop :=
  st.store = sp.map (canon n m) ∧ ∀ x ∈ sp, x < m

section
variable {st : State} {sp : List Nat} {n m : Nat}

theorem getD_map_canon (sp : List Nat) (i : Nat) :
    (sp.map (canon n m)).getD i (uzero n) = canon n m (sp.getD i 0) := by
  simp only [List.getD_eq_getElem?_getD, List.getElem?_map]
  cases sp[i]? with
  | none => simp [canon_zero]
  | some x => simp

theorem get_canon (g : Good st.params n m) (h : Inv n m st sp) (i : Nat) :
    st.get i = canon n m (sget sp i) ∧ sget sp i < m := by
  constructor
  · simp only [State.get, g.n_eq, h.1, sget]; exact getD_map_canon sp i
  · simp only [sget, List.getD_eq_getElem?_getD]
    cases hx : sp[i]? with
    | none => exact g.pos
    | some x => exact h.2 x (List.mem_of_getElem? hx)

theorem inv_push (h : Inv n m st sp) {v : List Nat} {x : Nat} (hv : v = canon n m x) (hx : x < m) :
    Inv n m (st.push v) (sp ++ [x]) := by
  constructor
  · simp only [State.push, h.1, hv, List.map_append, List.map_cons, List.map_nil]
  · intro y hy
    rcases List.mem_append.mp hy with h' | h'
    · exact h.2 y h'
    · simp at h'; rw [h']; exact hx

theorem inv_put (h : Inv n m st sp) (i : Nat) {v : List Nat} {x : Nat} (hv : v = canon n m x) (hx : x < m) :
    Inv n m (st.put i v) (sp.set i x) := by
  constructor
  · simp only [State.put, h.1, hv, List.map_set]
  · intro y hy
    rcases List.mem_or_eq_of_mem_set hy with h' | h'
    · exact h.2 y h'
    · rw [h']; exact hx

theorem push_params (v : List Nat) : (st.push v).params = st.params := rfl
theorem put_params (i : Nat) (v : List Nat) : (st.put i v).params = st.params := rfl

theorem step_params (op : MontyOp) : (step st op).params = st.params := by
  cases op <;> simp only [step, push_params, put_params]
  cases st.rep <;> rfl

/-- one step preserves the invariant (T08.3, step case). -/
theorem step_inv (g : Good st.params n m) (hmul : AmmMulOK n m st.params.modNegInv)
    (h : Inv n m st sp) {op : MontyOp} (hw : wt n op) :
    Inv n m (step st op) (stepSpec m sp op) := by
  have hp := g.pos
  cases op with
  | new v => exact inv_push h (opNew_canon g hmul hw) (Nat.mod_lt _ hp)
  | zero => exact inv_push h (by rw [g.n_eq, canon_zero]) hp
  | one =>
    refine inv_push h ?_ (Nat.mod_lt _ hp)
    rw [g.one]; simp only [canon]; rw [Nat.mod_mul_mod, Nat.one_mul]
  | add i j =>
    have ⟨a, ha⟩ := get_canon g h i; have ⟨b, hb⟩ := get_canon g h j
    refine inv_push h ?_ (Nat.mod_lt _ hp)
    rw [a, b]; exact opAdd_canon g ha hb
  | sub i j =>
    have ⟨a, ha⟩ := get_canon g h i; have ⟨b, hb⟩ := get_canon g h j
    refine inv_push h ?_ (Nat.mod_lt _ hp)
    rw [a, b]; exact (opSub_canon g ha hb).1
  | mul i j =>
    have ⟨a, ha⟩ := get_canon g h i; have ⟨b, hb⟩ := get_canon g h j
    refine inv_push h ?_ (Nat.mod_lt _ hp)
    rw [a, b]; exact opMul_canon g hmul ha hb
  | neg i =>
    have ⟨a, ha⟩ := get_canon g h i
    refine inv_push h ?_ (Nat.mod_lt _ hp)
    rw [a]; exact opNeg_canon g ha
  | double i =>
    have ⟨a, ha⟩ := get_canon g h i
    refine inv_push h ?_ (Nat.mod_lt _ hp)
    rw [a]; exact opDouble_canon g ha
  | square i =>
    have ⟨a, ha⟩ := get_canon g h i
    refine inv_push h ?_ (Nat.mod_lt _ hp)
    rw [a, opSquare_eq]; exact opMul_canon g hmul ha ha
  | div2 i =>
    have ⟨a, ha⟩ := get_canon g h i
    refine inv_push h ?_ (Nat.mod_lt _ hp)
    rw [a]; exact opDiv2_canon g ha
  | addAssign i j =>
    have ⟨a, ha⟩ := get_canon g h i; have ⟨b, hb⟩ := get_canon g h j
    refine inv_put h i ?_ (Nat.mod_lt _ hp)
    rw [a, b]; exact opAdd_canon g ha hb
  | subAssign i j =>
    have ⟨a, ha⟩ := get_canon g h i; have ⟨b, hb⟩ := get_canon g h j
    refine inv_put h i ?_ (Nat.mod_lt _ hp)
    rw [a, b]; exact (opSub_canon g ha hb).2
  | mulAssign i j =>
    have ⟨a, ha⟩ := get_canon g h i; have ⟨b, hb⟩ := get_canon g h j
    refine inv_put h i ?_ (Nat.mod_lt _ hp)
    rw [a, b]; exact opMul_canon g hmul ha hb
  | squareAssign i =>
    have ⟨a, ha⟩ := get_canon g h i
    refine inv_put h i ?_ (Nat.mod_lt _ hp)
    rw [a, opSquare_eq]; exact opMul_canon g hmul ha ha
  | div2Assign i =>
    have ⟨a, ha⟩ := get_canon g h i
    refine inv_put h i ?_ (Nat.mod_lt _ hp)
    rw [a]; exact opDiv2_canon g ha
  | select i j c =>
    have ⟨a, ha⟩ := get_canon g h i; have ⟨b, hb⟩ := get_canon g h j
    cases c
    · refine inv_push h ?_ ha
      rw [a, b]
      exact uselect_spec false (canon_WF _) (canon_WF _) (by rw [canon_length, canon_length])
    · refine inv_push h ?_ hb
      rw [a, b]
      exact uselect_spec true (canon_WF _) (canon_WF _) (by rw [canon_length, canon_length])
  | copyFrom i j =>
    have ⟨b, hb⟩ := get_canon g h j
    exact inv_put h i b hb
  | conv =>
    simp only [step, stepSpec]
    cases st.rep <;> exact h

/-- T08.3: the invariant holds after every operation list (hence in every prefix state). -/
theorem run_inv (ops : List MontyOp) :
    ∀ {st : State} {sp : List Nat}, Good st.params n m → AmmMulOK n m st.params.modNegInv →
      Inv n m st sp → (∀ op ∈ ops, wt n op) →
      Inv n m (run st ops) (runSpec m sp ops) ∧ (run st ops).params = st.params := by
  induction ops with
  | nil => intro st sp _ _ h _; exact ⟨h, rfl⟩
  | cons op ops ih =>
    intro st sp g hmul h hw
    have h1 := step_inv g hmul h (hw op (List.mem_cons_self))
    have hpar := step_params (st := st) op
    have ⟨r1, r2⟩ := ih (st := step st op) (sp := stepSpec m sp op) (hpar ▸ g) (hpar ▸ hmul) h1
      (fun o ho => hw o (List.mem_cons_of_mem _ ho))
    exact ⟨r1, r2.trans hpar⟩

end

end CB.Monty
