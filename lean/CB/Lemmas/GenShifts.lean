/-
  CB.Lemmas.GenShifts — the hand-written limb-list model of the crate-internal shifts (`shl1Loop`/`overflowingShl1`,
  `shr1Loop`/`shr1WithCarry`/`ushr1`, `shlLimbLoop`/`shlLimb` of CB/Model/Shift.lean — what T05.8 of CB/Props/C05.lean is
  proved about) IS the translated source (CB/Gen/Shifts.lean, regenerated from src/uint/{shl,shr}.rs on every run), for
  EVERY limb count.

  A `Uint<LIMBS>` of the source is the list of its limbs (`List (BitVec 64)`, little endian) with `LIMBS` an explicit
  argument; the model works on `List Nat`.  Each bridge is an induction over the rounds of the translated loop:
    ascending loops (`while i < LIMBS`, fuel `n` with `i + n = LIMBS`):
        result = (the first `i` positions written so far) ++ (model chain on the limbs from position `i` on);
    the descending loop of `shr1_with_carry` (`while i > 0 { i -= 1; .. }`, recursion on the counter `n` itself):
        result = (model chain on the first `n` limbs, entered with the current carry) ++ (positions `n..` written so far).
  One round of a translated loop is taken from CB/Lemmas/GenBitsShifts.lean (`*_loop_succ`; that is where the generated
  text is read), one word of the model from the word bridges there.  No `bv_decide` in this file.
-/
import CB.Lemmas.GenBitsShifts
import CB.Lemmas.C05Small
namespace CB.GenShifts
open CB CB.Shift CB.Gen CB.Gen.Shifts CB.GenBits

/-- the limbs of a translated value as the model's words (the same abbreviation as `GenChains.nats`) -/
abbrev nats (l : List (BitVec 64)) : List Nat := l.map BitVec.toNat

theorem nats_WF (l : List (BitVec 64)) : WF (nats l) := by
  intro x hx
  obtain ⟨v, _, rfl⟩ := List.mem_map.mp hx
  exact toNat_lt_B v

theorem nats_length (l : List (BitVec 64)) : (nats l).length = l.length := List.length_map _

/-! ## list facts -/

theorem drop_eq_getD_cons (a : List (BitVec 64)) (i : Nat) (h : i < a.length) :
    a.drop i = a.getD i 0#64 :: a.drop (i + 1) := by
  have e : a.getD i 0#64 = a[i] := by simp [List.getD, h]
  rw [e]
  exact List.drop_eq_getElem_cons h

theorem take_set_succ (l : List (BitVec 64)) (i : Nat) (w : BitVec 64) (h : i < l.length) :
    (l.set i w).take (i + 1) = l.take i ++ [w] := by
  induction l generalizing i with
  | nil => simp at h
  | cons x xs ih =>
    cases i with
    | zero => simp
    | succ j =>
      have hj : j < xs.length := by simpa using h
      simp only [List.set_cons_succ, List.take_succ_cons, List.cons_append, ih j hj]

theorem take_succ_getD (a : List (BitVec 64)) (n : Nat) (h : n < a.length) :
    a.take (n + 1) = a.take n ++ [a.getD n 0#64] := by
  have e : a.getD n 0#64 = a[n] := by simp [List.getD, h]
  rw [e, List.take_succ_eq_append_getElem h]

theorem drop_set_self (l : List (BitVec 64)) (n : Nat) (w : BitVec 64) (h : n < l.length) :
    (l.set n w).drop n = w :: l.drop (n + 1) := by
  induction l generalizing n with
  | nil => simp at h
  | cons x xs ih =>
    cases n with
    | zero => simp
    | succ j =>
      have hj : j < xs.length := by simpa using h
      simp only [List.set_cons_succ, List.drop_succ_cons, ih j hj]

/-! ## `Uint::overflowing_shl1` -/

theorem shl1Loop_cons (x : Nat) (xs : List Nat) (c : Nat) :
    shl1Loop (x :: xs) c =
      (((limbShl1 x).1 ||| c) :: (shl1Loop xs (limbShl1 x).2).1, (shl1Loop xs (limbShl1 x).2).2) := by
  rw [shl1Loop]

theorem shl1_loop_bridge (L : Nat) (a : List (BitVec 64)) (ha : a.length = L) :
    ∀ (n i : Nat) (ret : List (BitVec 64)) (c : BitVec 64), i + n = L → ret.length = L →
      nats (Uint.overflowing_shl1_loop1 L a n i ret c).1 =
          nats (ret.take i) ++ (shl1Loop (nats (a.drop i)) c.toNat).1 ∧
      (Uint.overflowing_shl1_loop1 L a n i ret c).2.toNat = (shl1Loop (nats (a.drop i)) c.toNat).2 := by
  intro n
  induction n with
  | zero =>
    intro i ret c hi hl
    have hi' : i = L := by omega
    rw [shl1_loop_zero, List.drop_of_length_le (by omega), List.take_of_length_le (by omega)]
    simp [nats, shl1Loop]
  | succ n ih =>
    intro i ret c hi hl
    have hi' : i < L := by omega
    obtain ⟨ih1, ih2⟩ := ih (i + 1) (ret.set i ((Limb.shl1 (a.getD i 0#64)).1 ||| c)) (Limb.shl1 (a.getD i 0#64)).2
      (by omega) (by simpa using hl)
    rw [shl1_loop_succ L a n i ret c hi', drop_eq_getD_cons a i (by omega)]
    simp only [nats, List.map_cons] at ih1 ih2 ⊢
    rw [shl1Loop_cons, limbShl1_bridge]
    refine ⟨?_, ih2⟩
    rw [ih1, take_set_succ ret i _ (by omega)]
    simp only [List.map_append, List.map_cons, List.map_nil, List.append_assoc, List.cons_append, List.nil_append,
      BitVec.toNat_or]

/-- **`Uint::overflowing_shl1`**: limbs and carry limb, for every limb count -/
theorem overflowingShl1_bridge (a : List (BitVec 64)) :
    overflowingShl1 (nats a) =
      (nats (Uint.overflowing_shl1 a.length a).1, (Uint.overflowing_shl1 a.length a).2.toNat) := by
  obtain ⟨h1, h2⟩ := shl1_loop_bridge a.length a rfl a.length 0 (List.replicate a.length 0#64) 0#64
    (by omega) (by simp)
  rw [shl1_eq_loop, overflowingShl1]
  simp only [List.drop_zero, List.take_zero] at h1 h2
  have e0 : (0#64 : BitVec 64).toNat = 0 := rfl
  rw [e0] at h1 h2
  simp only [nats, List.map_nil, List.nil_append] at h1 ⊢
  rw [h1, h2]

/-! ## `Uint::shr1_with_carry`, `Uint::shr1` -/

theorem shr1Loop_cons (x : Nat) (xs : List Nat) (c : Nat) :
    shr1Loop (x :: xs) c = (((limbShr1 x).1 ||| (shr1Loop xs c).2) :: (shr1Loop xs c).1, (limbShr1 x).2) := by
  rw [shr1Loop]

/-- the model chain on `l ++ [x]`: the top limb `x` takes the incoming carry and hands its own down -/
theorem shr1Loop_snoc (l : List Nat) (x c : Nat) :
    shr1Loop (l ++ [x]) c =
      ((shr1Loop l (limbShr1 x).2).1 ++ [(limbShr1 x).1 ||| c], (shr1Loop l (limbShr1 x).2).2) := by
  induction l with
  | nil => simp [shr1Loop]
  | cons y ys ih =>
    rw [List.cons_append, shr1Loop_cons, ih, shr1Loop_cons]
    simp

theorem shr1_loop_bridge (a : List (BitVec 64)) :
    ∀ (n : Nat) (ret : List (BitVec 64)) (c : BitVec 64), n ≤ a.length → ret.length = a.length →
      nats (Uint.shr1_with_carry_loop1 a.length a n ret c).1 =
          (shr1Loop (nats (a.take n)) c.toNat).1 ++ nats (ret.drop n) ∧
      (Uint.shr1_with_carry_loop1 a.length a n ret c).2.toNat = (shr1Loop (nats (a.take n)) c.toNat).2 := by
  intro n
  induction n with
  | zero =>
    intro ret c _ _
    rw [shr1_loop_zero]
    simp [nats, shr1Loop]
  | succ n ih =>
    intro ret c hn hl
    have hn' : n < a.length := by omega
    obtain ⟨ih1, ih2⟩ := ih (ret.set n ((Limb.shr1 (a.getD n 0#64)).1 ||| c)) (Limb.shr1 (a.getD n 0#64)).2
      (by omega) (by simpa using hl)
    rw [shr1_loop_succ, take_succ_getD a n hn']
    simp only [nats, List.map_append, List.map_cons, List.map_nil] at ih1 ih2 ⊢
    rw [shr1Loop_snoc, limbShr1_bridge]
    refine ⟨?_, ih2⟩
    rw [ih1, drop_set_self ret n _ (by omega)]
    simp only [List.map_cons, List.append_assoc, List.cons_append, List.nil_append, BitVec.toNat_or]

/-- **`Uint::shr1_with_carry`**: limbs and the carry choice, for every limb count -/
theorem shr1WithCarry_bridge (a : List (BitVec 64)) :
    shr1WithCarry (nats a) =
      (nats (Uint.shr1_with_carry a.length a).1, (Uint.shr1_with_carry a.length a).2.toNat) := by
  obtain ⟨h1, h2⟩ := shr1_loop_bridge a a.length (List.replicate a.length 0#64) 0#64 (by omega) (by simp)
  have e0 : (0#64 : BitVec 64).toNat = 0 := rfl
  rw [List.take_of_length_le (by omega), List.drop_of_length_le (by simp), e0] at h1
  rw [List.take_of_length_le (by omega), e0] at h2
  simp only [nats, List.map_nil, List.append_nil] at h1 h2
  rw [shr1_with_carry_eq_loop, shr1WithCarry]
  simp only [nats]
  rw [← fromWordLsb_bridge', ← wshr_bv, h1, h2]

/-- **`Uint::shr1`** -/
theorem ushr1_bridge (a : List (BitVec 64)) : ushr1 (nats a) = nats (Uint.shr1 a.length a) := by
  rw [shr1_eq, ushr1]
  exact congrArg Prod.fst (shr1WithCarry_bridge a)

/-! ## `Uint::shl_limb` -/

theorem shl_limb_loop_bridge (L : Nat) (a : List (BitVec 64)) (ha : a.length = L) (nz : BitVec 64) (ls rs : BitVec 32)
    (hls : ls.toNat < 64) (hrs : rs.toNat < 64) :
    ∀ (n i : Nat) (limbs : List (BitVec 64)), 1 ≤ i → i + n = L → limbs.length = L →
      nats (Uint.shl_limb_loop1 L a nz ls rs n i limbs) =
          nats (limbs.take i) ++ shlLimbLoop ls.toNat rs.toNat nz.toNat (a.getD (i - 1) 0#64).toNat (nats (a.drop i)) := by
  intro n
  induction n with
  | zero =>
    intro i limbs _ hi hl
    rw [shl_limb_loop_zero, List.drop_of_length_le (by omega), List.take_of_length_le (by omega)]
    simp [nats, shlLimbLoop]
  | succ n ih =>
    intro i limbs h1 hi hl
    have hi' : i < L := by omega
    have ih1 := ih (i + 1) (limbs.set i (((a.getD i 0#64) <<< (ls % 64#32)) |||
      Choice.if_true_word nz ((a.getD (i - 1) 0#64) >>> (rs % 64#32)))) (by omega) (by omega) (by simpa using hl)
    rw [shl_limb_loop_succ L a nz ls rs n i limbs hi', drop_eq_getD_cons a i (by omega)]
    simp only [nats, List.map_cons, Nat.add_sub_cancel] at ih1 ⊢
    rw [shlLimbLoop, ih1, take_set_succ limbs i _ (by omega)]
    simp only [List.map_append, List.map_cons, List.map_nil, List.append_assoc, List.cons_append, List.nil_append,
      BitVec.toNat_or]
    rw [← ifTrueWord_bridge, BitVec.shiftLeft_eq', BitVec.ushiftRight_eq', mod64_toNat, mod64_toNat,
      Nat.mod_eq_of_lt hls, Nat.mod_eq_of_lt hrs, ← wshl_bv, ← wshr_bv]

theorem getLastD_nats (a : List (BitVec 64)) : (nats a).getLastD 0 = (a.getD (a.length - 1) 0#64).toNat := by
  induction a with
  | nil => rfl
  | cons x xs ih =>
    cases xs with
    | nil => rfl
    | cons y ys =>
      simp only [nats, List.map_cons, List.getLastD_cons, List.length_cons, Nat.add_sub_cancel] at ih ⊢
      rw [List.getD_cons_succ]
      exact ih

/-- **`Uint::shl_limb(shift)`** for `shift < 64` (the documented range; outside it the model's `Word << shift` differs from
    the release semantics of the source): limbs and carry limb, for every limb count -/
theorem shlLimb_bridge (a : List (BitVec 64)) (s : BitVec 32) (hs : s.toNat < 64) :
    shlLimb (nats a) s.toNat = (nats (Uint.shl_limb a.length a s).1, (Uint.shl_limb a.length a s).2.toNat) := by
  have e64 : (64#32 - s).toNat = 64 - s.toNat := by
    rw [BitVec.toNat_sub]
    have : (64#32 : BitVec 32).toNat = 64 := rfl
    rw [this]; omega
  have hrs : (Choice.if_true_u32 (Choice.from_u32_nonzero s) (64#32 - s)).toNat < 64 := by
    rw [← ifTrueU32_bridge, ← fromU32Nonzero_bridge, fromU32Nonzero_spec s.isLt, e64]
    by_cases h0 : s.toNat = 0
    · rw [h0]; decide
    · have hz : decide (s.toNat ≠ 0) = true := by simp [h0]
      rw [hz, CB.Bits.ifTrueU32_mask (by simp only [TWO32_def]; omega) true]
      simp only [if_true]; omega
  have hcar : ifTrueWord (fromU32Nonzero s.toNat) (wrappingShr ((nats a).getLastD 0) (64 - s.toNat)) =
      (Choice.if_true_word (Choice.from_u32_nonzero s) ((a.getD (a.length - 1) 0#64) >>> ((64#32 - s) % 64#32))).toNat := by
    rw [← ifTrueWord_bridge, ← fromU32Nonzero_bridge, BitVec.ushiftRight_eq', mod64_toNat, e64, ← wshr_bv, getLastD_nats]
    rfl
  rw [shl_limb_eq_loop, shlLimb.eq_def]
  simp only [hcar]
  cases a with
  | nil => simp [nats, Uint.shl_limb_loop1]
  | cons x xs =>
    have hb := shl_limb_loop_bridge (xs.length + 1) (x :: xs) rfl (Choice.from_u32_nonzero s) s
      (Choice.if_true_u32 (Choice.from_u32_nonzero s) (64#32 - s)) hs hrs xs.length 1
      ((List.replicate (xs.length + 1) 0#64).set 0 (((x :: xs).getD 0 0#64) <<< (s % 64#32)))
      (by omega) (by omega) (by simp)
    simp only [List.length_cons, Nat.add_sub_cancel] at hb ⊢
    rw [hb]
    simp only [nats, List.replicate_succ, List.set_cons_zero, List.take_succ_cons, List.take_zero, List.map_cons,
      List.map_nil, List.cons_append, List.nil_append, List.drop_succ_cons, List.drop_zero, List.getD_cons_zero,
      Nat.sub_self]
    rw [← ifTrueU32_bridge, ← fromU32Nonzero_bridge, e64, BitVec.shiftLeft_eq', mod64_toNat, Nat.mod_eq_of_lt hs, ← wshl_bv]

end CB.GenShifts
