/-
  CB.Lemmas.GenBitsMulAdc — what ONE ROUND of each of the two translated loops of `adc_mul_limbs` is
  (src/uint/mul/karatsuba.rs, a non-`const` fn; CB/Gen/MulRows.lean, namespace `CB.Gen.MulRows.Karatsuba`), what the function
  around the loops is, and what the const-generic wrappers `uint_mul_limbs` / `uint_square_limbs` (src/uint/mul.rs; namespace
  `CB.Gen.MulRows.Wrap`) are.  Same method as CB/Lemmas/GenBitsMulRows.lean (tactic `rows_eq`): the only file that looks at the
  generated TEXT of these functions.  The inductions over the limb counts are in CB/Lemmas/GenMulAdc.lean.

  `bv_decide` file: its name matches `*Bits*`.
-/
import CB.Lemmas.GenBitsMulRows
set_option linter.unusedSimpArgs false
set_option linter.unusedVariables false
namespace CB.GenBits
open CB.Gen CB.Gen.Chains

/-! ## the wrappers: zeroed `Uint<LIMBS>` / `Uint<RHS_LIMBS>` handed to the slice function, `(lo, hi)` written back -/

theorem uint_mul_limbs_eq (LIMBS RHS_LIMBS : Nat) (lhs rhs : List (BitVec 64)) :
    MulRows.Wrap.uint_mul_limbs LIMBS RHS_LIMBS lhs rhs =
      MulRows.schoolbook_multiplication lhs rhs (List.replicate LIMBS 0#64) (List.replicate RHS_LIMBS 0#64) := by
  simp only [MulRows.Wrap.uint_mul_limbs]

theorem uint_square_limbs_eq (LIMBS : Nat) (limbs : List (BitVec 64)) :
    MulRows.Wrap.uint_square_limbs LIMBS limbs =
      MulRows.schoolbook_squaring limbs (List.replicate LIMBS 0#64) (List.replicate LIMBS 0#64) := by
  simp only [MulRows.Wrap.uint_square_limbs]

/-! ## `adc_mul_limbs`: the inner loop `while j < rhs.len()` -/

theorem adc_inner_zero (rhs : List (BitVec 64)) (i : Nat) (xi : BitVec 64) (j : Nat) (out : List (BitVec 64)) (c2 : BitVec 64) :
    MulRows.Karatsuba.adc_mul_limbs_loop2 rhs i xi 0 j out c2 = (out, c2) := by
  rw [MulRows.Karatsuba.adc_mul_limbs_loop2]

/-- one round: `(out[k], carry2) = out[k].mac(xi, rhs[j], carry2)` at `k = i + j` -/
theorem adc_inner_succ (rhs : List (BitVec 64)) (i : Nat) (xi : BitVec 64) (n j : Nat) (out : List (BitVec 64))
    (c2 : BitVec 64) (h : j < rhs.length) :
    MulRows.Karatsuba.adc_mul_limbs_loop2 rhs i xi (n + 1) j out c2 =
      MulRows.Karatsuba.adc_mul_limbs_loop2 rhs i xi n (j + 1)
        (out.set (i + j) (Prim.mac (out.getD (i + j) 0#64) xi (rhs.getD j 0#64) c2).1)
        (Prim.mac (out.getD (i + j) 0#64) xi (rhs.getD j 0#64) c2).2 := by
  rw [MulRows.Karatsuba.adc_mul_limbs_loop2, if_pos h] <;> rows_eq

/-! ## the outer loop `while i < lhs.len()` -/

theorem adc_outer_zero (lhs rhs : List (BitVec 64)) (i : Nat) (out : List (BitVec 64)) (c : BitVec 64) :
    MulRows.Karatsuba.adc_mul_limbs_loop1 lhs rhs 0 i out c = (out, c) := by
  rw [MulRows.Karatsuba.adc_mul_limbs_loop1]

/-- one row: `carry2 = 0`, `xi = lhs[i]`, the inner loop from `j = 0` with `rhs.len()` rounds, then the row carry and the
    running carry are ADDED into position `i + rhs.len()`: `(out[i + j], carry) = out[i + j].adc(carry2, carry)` -/
theorem adc_outer_succ (lhs rhs : List (BitVec 64)) (n i : Nat) (out : List (BitVec 64)) (c : BitVec 64) (h : i < lhs.length) :
    MulRows.Karatsuba.adc_mul_limbs_loop1 lhs rhs (n + 1) i out c =
      MulRows.Karatsuba.adc_mul_limbs_loop1 lhs rhs n (i + 1)
        ((MulRows.Karatsuba.adc_mul_limbs_loop2 rhs i (lhs.getD i 0#64) rhs.length 0 out 0#64).1.set (i + rhs.length)
          (Prim.adc ((MulRows.Karatsuba.adc_mul_limbs_loop2 rhs i (lhs.getD i 0#64) rhs.length 0 out 0#64).1.getD (i + rhs.length) 0#64)
            (MulRows.Karatsuba.adc_mul_limbs_loop2 rhs i (lhs.getD i 0#64) rhs.length 0 out 0#64).2 c).1)
        (Prim.adc ((MulRows.Karatsuba.adc_mul_limbs_loop2 rhs i (lhs.getD i 0#64) rhs.length 0 out 0#64).1.getD (i + rhs.length) 0#64)
            (MulRows.Karatsuba.adc_mul_limbs_loop2 rhs i (lhs.getD i 0#64) rhs.length 0 out 0#64).2 c).2 := by
  rw [MulRows.Karatsuba.adc_mul_limbs_loop1, if_pos h] <;> rows_eq

/-- the function around the loops: running carry 0, counter from 0, `lhs.len()` rounds; returns `(out, carry)` -/
theorem adc_mul_limbs_eq_loop (lhs rhs out : List (BitVec 64)) :
    MulRows.Karatsuba.adc_mul_limbs lhs rhs out =
      MulRows.Karatsuba.adc_mul_limbs_loop1 lhs rhs lhs.length 0 out 0#64 := by
  simp only [MulRows.Karatsuba.adc_mul_limbs]

end CB.GenBits
