/-
  CB.Lemmas.C03Kara — building blocks and the carry recombination of the fixed-size Karatsuba
  steps (helper lemmas of property C03).
-/
import CB.Lemmas.AddSub
import CB.Lemmas.C03Api
import CB.Model.Karatsuba
namespace CB.Karatsuba
open CB CB.Mul

/-! ### small facts -/

theorem mask_xor (p q : Bool) : mask p ^^^ mask q = mask (p != q) := by
  cases p <;> cases q <;> decide

theorem mask_lt_B (p : Bool) : mask p < B := by cases p <;> decide

theorem selectWord_01 (p : Bool) : selectWord 0 1 (mask p) = if p then 1 else 0 :=
  selectWord_spec p (by decide) (by decide)

theorem wrappingNeg_spec {a : List Nat} (ha : WF a) :
    WF (wrappingNeg a) ∧ (wrappingNeg a).length = a.length ∧
    (0 < val a → val (wrappingNeg a) + val a = B ^ a.length) := by
  have ⟨n1, n2, n3, n4⟩ := negLoop_spec ha (Nat.le_refl 1)
  have hlt := val_lt n3
  rw [n4] at hlt
  refine ⟨n3, n4, fun hpos => ?_⟩
  show val (negLoop a 1).1 + val a = _
  generalize B ^ a.length = K at *
  generalize (negLoop a 1).2 = c at *
  have hc : c = 0 ∨ c = 1 := by omega
  rcases hc with h | h
  · subst h; omega
  · subst h; omega

/-- `|a - b|` as the code computes it: sbb chain, then select between the difference and its
    wrapping negation by the borrow mask -/
theorem absdiff_spec {a b : List Nat} (ha : WF a) (hb : WF b) (hl : a.length = b.length) :
    (usbb a b 0).2 = mask (decide (val a < val b)) ∧
    WF (uselect (usbb a b 0).1 (wrappingNeg (usbb a b 0).1) (fromWordMask (usbb a b 0).2)) ∧
    (uselect (usbb a b 0).1 (wrappingNeg (usbb a b 0).1) (fromWordMask (usbb a b 0).2)).length = a.length ∧
    (val a < val b →
      val (uselect (usbb a b 0).1 (wrappingNeg (usbb a b 0).1) (fromWordMask (usbb a b 0).2)) + val a = val b) ∧
    (¬ val a < val b →
      val (uselect (usbb a b 0).1 (wrappingNeg (usbb a b 0).1) (fromWordMask (usbb a b 0).2)) + val b = val a) := by
  have ⟨s1, s2⟩ := sub_value_borrow ha hb hl
  have hW := usbb_WF a b 0
  have hL := usbb_length a b 0 hl
  have ⟨w1, w2, w3⟩ := wrappingNeg_spec hW
  have hva := val_lt ha
  have hvb := val_lt hb; rw [← hl] at hvb
  unfold fromWordMask
  rw [s1, uselect_spec _ hW w1 w2.symm]
  by_cases hlt : val a < val b
  · simp only [hlt, decide_true, if_true] at s2 ⊢
    refine ⟨trivial, w1, by rw [w2, hL], fun _ => ?_, fun h => absurd trivial h⟩
    have := w3 (by omega)
    rw [hL] at this
    omega
  · simp only [hlt, decide_false, Bool.false_eq_true, if_false] at s2 ⊢
    refine ⟨trivial, hW, hL, fun h => absurd h (by simp), fun _ => ?_⟩
    omega

theorem unot_spec {a : List Nat} (ha : WF a) :
    WF (unot a) ∧ (unot a).length = a.length ∧ val (unot a) + val a + 1 = B ^ a.length := by
  induction a with
  | nil => simp [unot, WF_nil]
  | cons x xs ih =>
    have ⟨hx, hxs⟩ := WF_cons.mp ha
    have ⟨i1, i2, i3⟩ := ih hxs
    have hn : wnot x + x + 1 = B := by simp only [wnot, WMAX_def, B_def] at *; omega
    have hnl : wnot x < B := by omega
    unfold unot at *
    simp only [List.map_cons, val_cons, List.length_cons, List.length_map, Nat.pow_succ] at *
    refine ⟨WF_cons.mpr ⟨hnl, i1⟩, trivial, ?_⟩
    linear_combination hn + B * i3

/-- the carry-out of a limb-chain addition exceeds the carry-in by at most one -/
theorem uadc_carry_le {a b : List Nat} (c : Nat) (ha : WF a) (hb : WF b) (hl : a.length = b.length) :
    (uadc a b c).2 ≤ c + 1 := by
  have e := uadc_spec a b c hl
  have hva := val_lt ha
  have hvb := val_lt hb; rw [← hl] at hvb
  have hK : 0 < B ^ a.length := Nat.pow_pos B_pos
  generalize B ^ a.length = K at *
  generalize (uadc a b c).2 = co at *
  generalize val (uadc a b c).1 = r at *
  by_contra hcon
  have h2 : c + 2 ≤ co := by omega
  have h3 : K * (c + 2) ≤ K * co := Nat.mul_le_mul_left K h2
  have h4 : c ≤ K * c := Nat.le_mul_of_pos_left c hK
  rw [Nat.mul_add] at h3
  omega

theorem wadd_small {a b : Nat} (h : a + b < B) : wadd a b = a + b := Nat.mod_eq_of_lt h

/-! ### the eight `adc` calls of the multiplication step -/

/-- the recombination part of `karaMulStep`, on its own: `((res.0 ++ res.1, res.2 ++ res.3), final carry)` -/
def addChain (r0 r1 r2 r3 z0l z0h z2l z2h : List Nat) (carry : Nat) : (List Nat × List Nat) × Nat :=
  let a0 := uadc r0 z0l carry
  let a1 := uadc r1 z0h a0.2
  let a2 := uadc a1.1 z0l 0
  let a3 := uadc r2 z0h (wadd a1.2 a2.2)
  let a4 := uadc a2.1 z2l 0
  let a5 := uadc a3.1 z2h a4.2
  let carry' := wadd a3.2 a5.2
  let a6 := uadc a5.1 z2l 0
  let a7 := uadc r3 z2h (wadd carry' a6.2)
  ((a0.1 ++ a4.1, a6.1 ++ a7.1), a7.2)

/-- facts about one `uadc` call on `h`-limb operands -/
theorem uadc_facts {a b : List Nat} {h : Nat} (c : Nat) (ha : WF a) (hb : WF b)
    (hla : a.length = h) (hlb : b.length = h) :
    val (uadc a b c).1 + B ^ h * (uadc a b c).2 = val a + val b + c ∧
    WF (uadc a b c).1 ∧ (uadc a b c).1.length = h ∧ (uadc a b c).2 ≤ c + 1 := by
  have hl : a.length = b.length := by rw [hla, hlb]
  refine ⟨by rw [← hla]; exact uadc_spec a b c hl, uadc_WF a b c, by rw [uadc_length a b c hl, hla],
    uadc_carry_le c ha hb hl⟩

/-- The recombination is exact as a `4h`-limb number plus the final carry; none of the
    `carry.wrapping_add(carry2)` additions wraps (all carries are ≤ 8). -/
theorem addChain_spec {h : Nat} {r0 r1 r2 r3 z0l z0h z2l z2h : List Nat} {carry : Nat}
    (hr0 : WF r0) (hr1 : WF r1) (hr2 : WF r2) (hr3 : WF r3)
    (hz0l : WF z0l) (hz0h : WF z0h) (hz2l : WF z2l) (hz2h : WF z2h)
    (lr0 : r0.length = h) (lr1 : r1.length = h) (lr2 : r2.length = h) (lr3 : r3.length = h)
    (lz0l : z0l.length = h) (lz0h : z0h.length = h) (lz2l : z2l.length = h) (lz2h : z2h.length = h)
    (hc : carry ≤ 1) :
    let res := addChain r0 r1 r2 r3 z0l z0h z2l z2h carry
    val res.1.1 + B ^ (2 * h) * val res.1.2 + B ^ (4 * h) * res.2 =
      (val r0 + B ^ h * val r1 + B ^ (2 * h) * val r2 + B ^ (3 * h) * val r3) + carry
        + (1 + B ^ h) * (val z0l + B ^ h * val z0h) + (B ^ h + B ^ (2 * h)) * (val z2l + B ^ h * val z2h) ∧
    WF res.1.1 ∧ WF res.1.2 ∧ res.1.1.length = 2 * h ∧ res.1.2.length = 2 * h ∧ res.2 ≤ 9 := by
  simp only [addChain]
  have ⟨e0, w0, l0, c0⟩ := uadc_facts carry hr0 hz0l lr0 lz0l
  generalize uadc r0 z0l carry = A0 at *
  have ⟨e1, w1, l1, c1⟩ := uadc_facts A0.2 hr1 hz0h lr1 lz0h
  generalize uadc r1 z0h A0.2 = A1 at *
  have ⟨e2, w2, l2, c2⟩ := uadc_facts 0 w1 hz0l l1 lz0l
  generalize uadc A1.1 z0l 0 = A2 at *
  have n1 : wadd A1.2 A2.2 = A1.2 + A2.2 := wadd_small (by simp only [B_def]; omega)
  rw [n1]
  have ⟨e3, w3, l3, c3⟩ := uadc_facts (A1.2 + A2.2) hr2 hz0h lr2 lz0h
  generalize uadc r2 z0h (A1.2 + A2.2) = A3 at *
  have ⟨e4, w4, l4, c4⟩ := uadc_facts 0 w2 hz2l l2 lz2l
  generalize uadc A2.1 z2l 0 = A4 at *
  have ⟨e5, w5, l5, c5⟩ := uadc_facts A4.2 w3 hz2h l3 lz2h
  generalize uadc A3.1 z2h A4.2 = A5 at *
  have n2 : wadd A3.2 A5.2 = A3.2 + A5.2 := wadd_small (by simp only [B_def]; omega)
  rw [n2]
  have ⟨e6, w6, l6, c6⟩ := uadc_facts 0 w5 hz2l l5 lz2l
  generalize uadc A5.1 z2l 0 = A6 at *
  have n3 : wadd (A3.2 + A5.2) A6.2 = A3.2 + A5.2 + A6.2 := wadd_small (by simp only [B_def]; omega)
  rw [n3]
  have ⟨e7, w7, l7, c7⟩ := uadc_facts (A3.2 + A5.2 + A6.2) hr3 hz2h lr3 lz2h
  generalize uadc r3 z2h (A3.2 + A5.2 + A6.2) = A7 at *
  refine ⟨?_, WF_append.mpr ⟨w0, w4⟩, WF_append.mpr ⟨w6, w7⟩, by rw [List.length_append, l0, l4]; omega,
    by rw [List.length_append, l6, l7]; omega, by omega⟩
  rw [val_append, val_append, l0, l6]
  have p2 : B ^ (2 * h) = B ^ h * B ^ h := by rw [← Nat.pow_add]; congr 1; omega
  have p3 : B ^ (3 * h) = B ^ h * B ^ h * B ^ h := by rw [← Nat.pow_add, ← Nat.pow_add]; congr 1; omega
  have p4 : B ^ (4 * h) = B ^ h * B ^ h * B ^ h * B ^ h := by
    rw [← Nat.pow_add, ← Nat.pow_add, ← Nat.pow_add]; congr 1; omega
  rw [p2, p3, p4]
  generalize B ^ h = K at *
  linear_combination e0 + K * (e1 + e2 + e4) + K * K * (e3 + e5 + e6) + K * K * K * e7

/-! ### the multiplication step -/

/-- a multiplier is exact on `h`-limb operands -/
def ExactMul (h : Nat) (f : List Nat → List Nat → List Nat × List Nat) : Prop :=
  ∀ a b, WF a → WF b → a.length = h → b.length = h → ExactPair (f a b) h h (val a * val b)

/-- `|a - b|` as computed (sbb chain + conditional wrapping negation) -/
def absd (a b : List Nat) : List Nat :=
  uselect (usbb a b 0).1 (wrappingNeg (usbb a b 0).1) (fromWordMask (usbb a b 0).2)

theorem absd_spec {a b : List Nat} (ha : WF a) (hb : WF b) (hl : a.length = b.length) :
    (usbb a b 0).2 = mask (decide (val a < val b)) ∧ WF (absd a b) ∧ (absd a b).length = a.length ∧
    (val a < val b → val (absd a b) + val a = val b) ∧
    (¬ val a < val b → val (absd a b) + val b = val a) := absdiff_spec ha hb hl

/-- `z1_neg` -/
def negm (h : Nat) (lhs rhs : List Nat) : Nat :=
  fromWordMask (usbb (lhs.take h) (lhs.drop h) 0).2 ^^^ fromWordMask (usbb (rhs.drop h) (rhs.take h) 0).2

/-- `Uint::select(&a, &a.not(), m)` -/
def csel (a : List Nat) (m : Nat) : List Nat := uselect a (unot a) m

theorem karaMulStep_eq (h : Nat) (f : List Nat → List Nat → List Nat × List Nat) (lhs rhs : List Nat) :
    karaMulStep h f lhs rhs =
      (addChain (csel (uzero h) (negm h lhs rhs))
        (csel (f (absd (lhs.take h) (lhs.drop h)) (absd (rhs.drop h) (rhs.take h))).1 (negm h lhs rhs))
        (csel (f (absd (lhs.take h) (lhs.drop h)) (absd (rhs.drop h) (rhs.take h))).2 (negm h lhs rhs))
        (csel (uzero h) (negm h lhs rhs))
        (f (lhs.take h) (rhs.take h)).1 (f (lhs.take h) (rhs.take h)).2
        (f (lhs.drop h) (rhs.drop h)).1 (f (lhs.drop h) (rhs.drop h)).2
        (selectWord 0 1 (negm h lhs rhs))).1 := rfl

theorem csel_false {a : List Nat} (ha : WF a) : csel a (mask false) = a := by
  have ⟨u1, u2, _⟩ := unot_spec ha
  unfold csel; rw [uselect_spec false ha u1 u2.symm]; rfl

theorem csel_true {a : List Nat} (ha : WF a) : csel a (mask true) = unot a := by
  have ⟨u1, u2, _⟩ := unot_spec ha
  unfold csel; rw [uselect_spec true ha u1 u2.symm]; rfl

theorem kara_identity_pos (K X0 X1 Y0 Y1 D0 D1 : Nat)
    (h : (D0 + X1 = X0 ∧ D1 + Y0 = Y1) ∨ (D0 + X0 = X1 ∧ D1 + Y1 = Y0)) :
    K * (D0 * D1) + (1 + K) * (X0 * Y0) + (K + K * K) * (X1 * Y1) = (X0 + K * X1) * (Y0 + K * Y1) := by
  rcases h with ⟨h1, h2⟩ | ⟨h1, h2⟩ <;> subst h1 <;> subst h2 <;> ring

theorem kara_identity_neg (K X0 X1 Y0 Y1 D0 D1 : Nat)
    (h : (D0 + X1 = X0 ∧ D1 + Y1 = Y0) ∨ (D0 + X0 = X1 ∧ D1 + Y0 = Y1)) :
    (1 + K) * (X0 * Y0) + (K + K * K) * (X1 * Y1) = (X0 + K * X1) * (Y0 + K * Y1) + K * (D0 * D1) := by
  rcases h with ⟨h1, h2⟩ | ⟨h1, h2⟩ <;> subst h1 <;> subst h2 <;> ring

theorem split_halves {l : List Nat} {h : Nat} (hW : WF l) (hl : l.length = 2 * h) :
    WF (l.take h) ∧ WF (l.drop h) ∧ (l.take h).length = h ∧ (l.drop h).length = h ∧
    val l = val (l.take h) + B ^ h * val (l.drop h) := by
  refine ⟨WF_take hW h, WF_drop hW h, by rw [List.length_take]; omega, by rw [List.length_drop]; omega, ?_⟩
  have e := val_take_drop l h
  rwa [Nat.min_eq_left (by omega)] at e

/-- T03.4 core: one fixed-size Karatsuba level is exact for EVERY half size `h`, given an exact half
    multiplier.  The proof shows that no `carry.wrapping_add(carry2)` wraps (`addChain_spec`) and that the
    final carry, which the code discards, equals the sign bit `z1_neg` (it cancels the `2^(4h·64)` of the
    ones'-complement trick); it is 0 exactly when the middle term is added. -/
theorem karaMulStep_spec (h : Nat) (f : List Nat → List Nat → List Nat × List Nat) (hf : ExactMul h f)
    (lhs rhs : List Nat) (hx : WF lhs) (hy : WF rhs) (hlx : lhs.length = 2 * h) (hly : rhs.length = 2 * h) :
    ExactPair (karaMulStep h f lhs rhs) (2 * h) (2 * h) (val lhs * val rhs) := by
  have ⟨wx0, wx1, lx0, lx1, ex⟩ := split_halves hx hlx
  have ⟨wy0, wy1, ly0, ly1, ey⟩ := split_halves hy hly
  have ⟨bx, wdx, ldx, dx1, dx2⟩ := absd_spec wx0 wx1 (by rw [lx0, lx1])
  have ⟨by_, wdy, ldy, dy1, dy2⟩ := absd_spec wy1 wy0 (by rw [ly1, ly0])
  rw [lx0] at ldx
  rw [ly1] at ldy
  have hz1 := hf _ _ wdx wdy ldx ldy
  have hz0 := hf _ _ wx0 wy0 lx0 ly0
  have hz2 := hf _ _ wx1 wy1 lx1 ly1
  have hm : negm h lhs rhs = mask (decide (val (lhs.take h) < val (lhs.drop h)) !=
      decide (val (rhs.drop h) < val (rhs.take h))) := by
    unfold negm fromWordMask; rw [bx, by_, mask_xor]
  rw [karaMulStep_eq]
  change ExactPair (addChain (csel (uzero h) (negm h lhs rhs))
        (csel (f (absd (lhs.take h) (lhs.drop h)) (absd (rhs.drop h) (rhs.take h))).1 (negm h lhs rhs))
        (csel (f (absd (lhs.take h) (lhs.drop h)) (absd (rhs.drop h) (rhs.take h))).2 (negm h lhs rhs))
        (csel (uzero h) (negm h lhs rhs))
        (f (lhs.take h) (rhs.take h)).1 (f (lhs.take h) (rhs.take h)).2
        (f (lhs.drop h) (rhs.drop h)).1 (f (lhs.drop h) (rhs.drop h)).2
        (selectWord 0 1 (negm h lhs rhs))).1 _ _ _ at *
  have hK : 0 < B ^ h := Nat.pow_pos B_pos
  have p2 : B ^ (2 * h) = B ^ h * B ^ h := by rw [← Nat.pow_add]; congr 1; omega
  have p3 : B ^ (3 * h) = B ^ h * B ^ h * B ^ h := by rw [← Nat.pow_add, ← Nat.pow_add]; congr 1; omega
  have p4 : B ^ (4 * h) = B ^ h * B ^ h * B ^ h * B ^ h := by
    rw [← Nat.pow_add, ← Nat.pow_add, ← Nat.pow_add]; congr 1; omega
  have hX0 := val_lt_pow wx0 lx0
  have hX1 := val_lt_pow wx1 lx1
  have hY0 := val_lt_pow wy0 ly0
  have hY1 := val_lt_pow wy1 ly1
  -- the product fits in 4h limbs
  have hfit : val lhs * val rhs < B ^ (4 * h) := by
    have h1 := val_lt hx; have h2 := val_lt hy
    rw [hlx] at h1; rw [hly] at h2
    have := Nat.mul_lt_mul'' h1 h2
    rwa [← Nat.pow_add, show 2 * h + 2 * h = 4 * h by omega] at this
  rw [hm]
  obtain ⟨z1W1, z1W2, z1L1, z1L2, z1E⟩ := hz1
  obtain ⟨z0W1, z0W2, z0L1, z0L2, z0E⟩ := hz0
  obtain ⟨z2W1, z2W2, z2L1, z2L2, z2E⟩ := hz2
  have zW := uzero_WF h
  have zL := uzero_length h
  -- finishing argument shared by both sign cases
  have finish : ∀ (res : (List Nat × List Nat) × Nat) (ε : Nat),
      WF res.1.1 → WF res.1.2 → res.1.1.length = 2 * h → res.1.2.length = 2 * h →
      val res.1.1 + B ^ (2 * h) * val res.1.2 + B ^ (4 * h) * res.2 = ε * B ^ (4 * h) + val lhs * val rhs →
      ε ≤ 1 → ExactPair res.1 (2 * h) (2 * h) (val lhs * val rhs) := by
    intro res ε w1 w2 l1 l2 e hε
    refine ⟨w1, w2, l1, l2, ?_⟩
    have b1 := val_lt_pow w1 l1
    have b2 := val_lt_pow w2 l2
    have hT : val res.1.1 + B ^ (2 * h) * val res.1.2 < B ^ (4 * h) := by
      have : B ^ (2 * h) * (val res.1.2 + 1) ≤ B ^ (2 * h) * B ^ (2 * h) := Nat.mul_le_mul_left _ b2
      rw [← Nat.pow_add, show 2 * h + 2 * h = 4 * h by omega, Nat.mul_add] at this
      omega
    generalize val res.1.1 + B ^ (2 * h) * val res.1.2 = T at *
    generalize val lhs * val rhs = P at *
    have hpos : 0 < B ^ (4 * h) := Nat.pow_pos B_pos
    generalize B ^ (4 * h) = Q at *
    have hε' : ε = 0 ∨ ε = 1 := by omega
    have hc : res.2 = ε := by
      rcases hε' with h0 | h0 <;> subst h0
      · rcases Nat.eq_zero_or_pos res.2 with h | h
        · exact h
        · have : Q * 1 ≤ Q * res.2 := Nat.mul_le_mul_left _ h
          omega
      · rcases Nat.lt_or_ge res.2 1 with h | h
        · have : res.2 = 0 := by omega
          rw [this] at e; omega
        · rcases Nat.lt_or_ge res.2 2 with h2 | h2
          · omega
          · have : Q * 2 ≤ Q * res.2 := Nat.mul_le_mul_left _ h2
            omega
    rw [hc, Nat.mul_comm Q ε] at e
    omega
  by_cases hneg : (decide (val (lhs.take h) < val (lhs.drop h)) !=
      decide (val (rhs.drop h) < val (rhs.take h))) = true
  · -- z1 is subtracted: ones' complement of (0, z1.0, z1.1, 0) plus carry-in 1
    rw [hneg, csel_true zW, csel_true z1W1, csel_true z1W2, selectWord_01]
    have ⟨n0W, n0L, n0E⟩ := unot_spec zW
    have ⟨n1W, n1L, n1E⟩ := unot_spec z1W1
    have ⟨n2W, n2L, n2E⟩ := unot_spec z1W2
    rw [zL] at n0L n0E; rw [z1L1] at n1L n1E; rw [z1L2] at n2L n2E
    have ⟨t1, t2, t3, t4, t5, _⟩ := addChain_spec n0W n1W n2W n0W z0W1 z0W2 z2W1 z2W2
      n0L n1L n2L n0L z0L1 z0L2 z2L1 z2L2 (carry := if true = true then 1 else 0) (by decide)
    apply finish _ 1 t2 t3 t4 t5 _ (Nat.le_refl 1)
    have hcase : (val (absd (lhs.take h) (lhs.drop h)) + val (lhs.drop h) = val (lhs.take h) ∧
          val (absd (rhs.drop h) (rhs.take h)) + val (rhs.drop h) = val (rhs.take h)) ∨
        (val (absd (lhs.take h) (lhs.drop h)) + val (lhs.take h) = val (lhs.drop h) ∧
          val (absd (rhs.drop h) (rhs.take h)) + val (rhs.take h) = val (rhs.drop h)) := by
      by_cases c1 : val (lhs.take h) < val (lhs.drop h)
      · have c2 : ¬ val (rhs.drop h) < val (rhs.take h) := by
          intro c2; simp [c1, c2] at hneg
        exact Or.inr ⟨dx1 c1, dy2 c2⟩
      · have c2 : val (rhs.drop h) < val (rhs.take h) := by
          by_contra c2; simp [c1, c2] at hneg
        exact Or.inl ⟨dx2 c1, dy1 c2⟩
    have idn := kara_identity_neg (B ^ h) _ _ _ _ _ _ hcase
    rw [t1, ex, ey, p2, p3, p4]
    simp only [val_uzero, if_true] at n0E ⊢
    rw [p2, p3, p4] at *
    generalize B ^ h = K at *
    generalize val (unot (uzero h)) = N0 at *
    linear_combination (1 + K * K * K) * n0E + K * n1E + K * K * n2E + K * z1E.symm + idn
      + (1 + K) * z0E + (K + K * K) * z2E
  · -- z1 is added
    have hneg' : (decide (val (lhs.take h) < val (lhs.drop h)) !=
      decide (val (rhs.drop h) < val (rhs.take h))) = false := by simpa using hneg
    rw [hneg', csel_false zW, csel_false z1W1, csel_false z1W2, selectWord_01]
    have ⟨t1, t2, t3, t4, t5, _⟩ := addChain_spec zW z1W1 z1W2 zW z0W1 z0W2 z2W1 z2W2
      zL z1L1 z1L2 zL z0L1 z0L2 z2L1 z2L2 (carry := if false = true then 1 else 0) (by decide)
    apply finish _ 0 t2 t3 t4 t5 _ (by decide)
    have hcase : (val (absd (lhs.take h) (lhs.drop h)) + val (lhs.drop h) = val (lhs.take h) ∧
          val (absd (rhs.drop h) (rhs.take h)) + val (rhs.take h) = val (rhs.drop h)) ∨
        (val (absd (lhs.take h) (lhs.drop h)) + val (lhs.take h) = val (lhs.drop h) ∧
          val (absd (rhs.drop h) (rhs.take h)) + val (rhs.drop h) = val (rhs.take h)) := by
      by_cases c1 : val (lhs.take h) < val (lhs.drop h)
      · have c2 : val (rhs.drop h) < val (rhs.take h) := by
          by_contra c2; simp [c1, c2] at hneg'
        exact Or.inr ⟨dx1 c1, dy1 c2⟩
      · have c2 : ¬ val (rhs.drop h) < val (rhs.take h) := by
          intro c2; simp [c1, c2] at hneg'
        exact Or.inl ⟨dx2 c1, dy2 c2⟩
    have idp := kara_identity_pos (B ^ h) _ _ _ _ _ _ hcase
    rw [t1, ex, ey]
    simp only [val_uzero, Bool.false_eq_true, if_false]
    rw [p2, p3, p4] at *
    generalize B ^ h = K at *
    linear_combination K * z1E + idp + (1 + K) * z0E + (K + K * K) * z2E

/-! ### the macro chain and the dispatch -/

/-- every size of a macro chain is twice the next one (what the `reduce $full, $half` bodies need) -/
def halvingChain : List Nat → Bool
  | full :: half :: rest => full == 2 * half && halvingChain (half :: rest)
  | _ => true

theorem uintMulLimbs_exactMul (h : Nat) : ExactMul h uintMulLimbs := by
  intro a b ha hb la lb
  have ⟨h1, h2, h3⟩ := schoolbookMul_spec a b ha hb
  have := exactPair_of_list (n := a.length) (m := b.length) h2 h3 h1
  rw [la, lb] at this
  rw [show uintMulLimbs a b = ((schoolbookMul a b).take h, (schoolbookMul a b).drop h) by
    unfold uintMulLimbs; rw [la]]
  exact this

/-- `UintKaratsubaMul::<n>::multiply` generated from a halving chain is exact at its head size -/
theorem karaMulChain_spec : ∀ (chain : List Nat), halvingChain chain = true →
    ∀ n, chain.head? = some n → ExactMul n (karaMulChain chain)
  | [], _, n, hn => by simp at hn
  | [b], _, n, hn => by
    simp only [List.head?_cons, Option.some.injEq] at hn; subst hn
    exact uintMulLimbs_exactMul _
  | full :: half :: rest, hc, n, hn => by
    simp only [List.head?_cons, Option.some.injEq] at hn; subst hn
    simp only [halvingChain, Bool.and_eq_true, beq_iff_eq] at hc
    have ih := karaMulChain_spec (half :: rest) hc.2 half rfl
    intro a b ha hb la lb
    show ExactPair (karaMulStep half (karaMulChain (half :: rest)) a b) _ _ _
    rw [hc.1]
    exact karaMulStep_spec half _ ih a b ha hb (by rw [la, hc.1]) (by rw [lb, hc.1])

theorem chainFrom_spec (n : Nat) : ∀ (chain : List Nat), halvingChain chain = true →
    chainFrom n chain = [] ∨ ((chainFrom n chain).head? = some n ∧ halvingChain (chainFrom n chain) = true)
  | [], _ => Or.inl rfl
  | s :: rest, hc => by
    unfold chainFrom
    by_cases hs : s = n
    · simp only [hs, if_true]; exact Or.inr ⟨rfl, by rw [← hs]; exact hc⟩
    · simp only [hs, if_false]
      have hr : halvingChain rest = true := by
        cases rest with
        | nil => rfl
        | cons t u => simp only [halvingChain, Bool.and_eq_true] at hc; exact hc.2
      exact chainFrom_spec n rest hr

theorem karaMulChain_from_exact {chain : List Nat} (hc : halvingChain chain = true) (n : Nat) :
    ExactMul n (karaMulChain (chainFrom n chain)) := by
  rcases chainFrom_spec n chain hc with h | ⟨h1, h2⟩
  · rw [h]; exact uintMulLimbs_exactMul n
  · exact karaMulChain_spec _ h2 n h1

/-- the extracted macro chain `128, 64, 32, 16, 8` halves at every level -/
theorem karaMulSizes_halving : halvingChain karaMulSizes = true := by decide

/-! ### the squaring step -/

/-- a squaring routine is exact on `h`-limb operands -/
def ExactSq (h : Nat) (f : List Nat → List Nat × List Nat) : Prop :=
  ∀ a, WF a → a.length = h → ExactPair (f a) h h (val a * val a)

/-- the recombination part of `karaSqStep` given the three half squares:
    result and the two carries / borrows the code drops -/
def sqChain (h : Nat) (z0 z2 z1 : List Nat × List Nat) : (List Nat × List Nat) × (Nat × Nat) :=
  let zero := uzero h
  let a0 := uadc z0.2 z0.1 0
  let a1 := uadc z0.2 z2.1 a0.2
  let a2 := uadc a0.1 z2.1 0
  let a3 := uadc a1.1 z2.2 a2.2
  let a4 := uadc z2.2 zero (wadd a1.2 a3.2)
  let b1 := usbb a2.1 z1.1 0
  let b2 := usbb a3.1 z1.2 b1.2
  let b3 := usbb a4.1 zero b2.2
  ((z0.1 ++ b1.1, b2.1 ++ b3.1), (a4.2, b3.2))

theorem karaSqStep_eq (h : Nat) (f : List Nat → List Nat × List Nat) (limbs : List Nat) :
    karaSqStep h f limbs =
      (sqChain h (f (limbs.take h)) (f (limbs.drop h)) (f (absd (limbs.take h) (limbs.drop h)))).1 := rfl

/-- facts about one `usbb` call on `h`-limb operands -/
theorem usbb_facts {a b : List Nat} {h : Nat} {bw : Nat} (ha : WF a) (hb : WF b) (hbw : bw < B)
    (hla : a.length = h) (hlb : b.length = h) :
    val (usbb a b bw).1 + (val b + bw / HALF) = val a + B ^ h * ((usbb a b bw).2 / HALF) ∧
    WF (usbb a b bw).1 ∧ (usbb a b bw).1.length = h ∧ (usbb a b bw).2 < B := by
  have hl : a.length = b.length := by rw [hla, hlb]
  have ⟨s1, s2, _⟩ := usbb_spec ha hb hbw hl
  rw [hla] at s1
  exact ⟨s1, usbb_WF a b bw, by rw [usbb_length a b bw hl, hla], s2⟩

theorem sq_fit {K X0 X1 : Nat} (h0 : X0 < K) (h1 : X1 < K) :
    (1 + K) * (X0 * X0 + K * (X1 * X1)) < K * K * K * K := by
  obtain ⟨k, rfl⟩ : ∃ k, K = k + 1 := ⟨K - 1, by omega⟩
  have a0 : X0 * X0 ≤ k * k := Nat.mul_le_mul (by omega) (by omega)
  have a1 : X1 * X1 ≤ k * k := Nat.mul_le_mul (by omega) (by omega)
  have b1 : (1 + (k + 1)) * (X0 * X0 + (k + 1) * (X1 * X1)) ≤ (1 + (k + 1)) * (k * k + (k + 1) * (k * k)) :=
    Nat.mul_le_mul_left _ (Nat.add_le_add a0 (Nat.mul_le_mul_left _ a1))
  have b2 : (1 + (k + 1)) * (k * k + (k + 1) * (k * k)) = (k * k + 2 * k) ^ 2 := by ring
  have b3 : (k + 1) * (k + 1) * (k + 1) * (k + 1) = (k * k + 2 * k + 1) ^ 2 := by ring
  have b4 : (k * k + 2 * k) ^ 2 < (k * k + 2 * k + 1) ^ 2 := Nat.pow_lt_pow_left (Nat.lt_succ_self _) (by decide)
  omega

theorem sq_identity_halves (K X0 X1 D : Nat) (h : D + X1 = X0 ∨ D + X0 = X1) :
    (1 + K) * (X0 * X0 + K * (X1 * X1)) = (X0 + K * X1) * (X0 + K * X1) + K * (D * D) := by
  rcases h with h | h <;> subst h <;> ring

/-- The recombination of the squaring step is exact; the carry dropped by
    `(res.3, _) = z2.1.adc(&ZERO, carry + carry2)` and the borrow dropped by the last `sbb` are both 0;
    `carry.wrapping_add(carry2)` does not wrap. -/
theorem sqChain_spec {h : Nat} {z0 z2 z1 : List Nat × List Nat} {P0 P2 P1 Q : Nat}
    (hz0 : ExactPair z0 h h P0) (hz2 : ExactPair z2 h h P2) (hz1 : ExactPair z1 h h P1)
    (hfit : (1 + B ^ h) * (P0 + B ^ h * P2) < B ^ h * B ^ h * B ^ h * B ^ h)
    (hid : (1 + B ^ h) * (P0 + B ^ h * P2) = Q + B ^ h * P1) :
    ExactPair (sqChain h z0 z2 z1).1 (2 * h) (2 * h) Q ∧ (sqChain h z0 z2 z1).2.1 = 0 ∧
      (sqChain h z0 z2 z1).2.2 / HALF = 0 := by
  obtain ⟨z0W1, z0W2, z0L1, z0L2, z0E⟩ := hz0
  obtain ⟨z2W1, z2W2, z2L1, z2L2, z2E⟩ := hz2
  obtain ⟨z1W1, z1W2, z1L1, z1L2, z1E⟩ := hz1
  have zW := uzero_WF h
  have zL := uzero_length h
  have zV := val_uzero h
  simp only [sqChain]
  have ⟨e0, w0, l0, c0⟩ := uadc_facts 0 z0W2 z0W1 z0L2 z0L1
  generalize uadc z0.2 z0.1 0 = A0 at *
  have ⟨e1, w1, l1, c1⟩ := uadc_facts A0.2 z0W2 z2W1 z0L2 z2L1
  generalize uadc z0.2 z2.1 A0.2 = A1 at *
  have ⟨e2, w2, l2, c2⟩ := uadc_facts 0 w0 z2W1 l0 z2L1
  generalize uadc A0.1 z2.1 0 = A2 at *
  have ⟨e3, w3, l3, c3⟩ := uadc_facts A2.2 w1 z2W2 l1 z2L2
  generalize uadc A1.1 z2.2 A2.2 = A3 at *
  have n1 : wadd A1.2 A3.2 = A1.2 + A3.2 := wadd_small (by simp only [B_def]; omega)
  rw [n1]
  have ⟨e4, w4, l4, c4⟩ := uadc_facts (A1.2 + A3.2) z2W2 zW z2L2 zL
  generalize uadc z2.2 (uzero h) (A1.2 + A3.2) = A4 at *
  have ⟨f1, v1, m1, d1⟩ := usbb_facts (bw := 0) w2 z1W1 (by decide) l2 z1L1
  generalize usbb A2.1 z1.1 0 = S1 at *
  have ⟨f2, v2, m2, d2⟩ := usbb_facts w3 z1W2 d1 l3 z1L2
  generalize usbb A3.1 z1.2 S1.2 = S2 at *
  have ⟨f3, v3, m3, d3⟩ := usbb_facts w4 zW d2 l4 zL
  generalize usbb A4.1 (uzero h) S2.2 = S3 at *
  have h00 : (0 : Nat) / HALF = 0 := by decide
  rw [h00] at f1
  rw [zV] at e4 f3
  have bz0 := val_lt_pow z0W1 z0L1
  have bS1 := val_lt_pow v1 m1
  have bS2 := val_lt_pow v2 m2
  have bS3 := val_lt_pow v3 m3
  have bz1h := val_lt_pow z1W2 z1L2
  have bz1l := val_lt_pow z1W1 z1L1
  have p2 : B ^ (2 * h) = B ^ h * B ^ h := by rw [← Nat.pow_add]; congr 1; omega
  have hK : 0 < B ^ h := Nat.pow_pos B_pos
  generalize hKe : B ^ h = K at *
  -- the sum z0 + (z0 + z2)•b + z2•b² as computed, with its carry
  have hS : val z0.1 + K * val A2.1 + K * K * val A3.1 + K * K * K * val A4.1 + K * K * K * K * A4.2
      = (1 + K) * (P0 + K * P2) := by
    linear_combination K * (e0 + e2) + K * K * (e1 + e3) + K * K * K * e4 + (1 + K) * z0E
      + (K + K * K) * z2E
  have hA4 : A4.2 = 0 := by
    rcases Nat.eq_zero_or_pos A4.2 with h | h
    · exact h
    · have : K * K * K * K * 1 ≤ K * K * K * K * A4.2 := Nat.mul_le_mul_left _ h
      omega
  rw [hA4, Nat.mul_zero, Nat.add_zero] at hS
  -- subtracting z1•b
  have hV : val z0.1 + K * val S1.1 + K * K * val S2.1 + K * K * K * val S3.1
      = Q + K * K * K * K * (S3.2 / HALF) := by
    have := hS.trans hid
    linear_combination K * f1 + K * K * f2 + K * K * K * f3 + this + K * z1E.symm
  have hlt : val z0.1 + K * val S1.1 + K * K * val S2.1 + K * K * K * val S3.1 < K * K * K * K := by
    have t1 : K * (val S1.1 + 1) ≤ K * K := Nat.mul_le_mul_left _ bS1
    have t2 : K * K * (val S2.1 + 1) ≤ K * K * K := Nat.mul_le_mul_left _ bS2
    have t3 : K * K * K * (val S3.1 + 1) ≤ K * K * K * K := Nat.mul_le_mul_left _ bS3
    simp only [Nat.mul_add, Nat.mul_one] at t1 t2 t3
    omega
  have hb3 : S3.2 / HALF = 0 := by
    rcases Nat.eq_zero_or_pos (S3.2 / HALF) with h | h
    · exact h
    · have : K * K * K * K * 1 ≤ K * K * K * K * (S3.2 / HALF) := Nat.mul_le_mul_left _ h
      omega
  rw [hb3, Nat.mul_zero, Nat.add_zero] at hV
  refine ⟨⟨WF_append.mpr ⟨z0W1, v1⟩, WF_append.mpr ⟨v2, v3⟩, by rw [List.length_append, z0L1, m1]; omega,
    by rw [List.length_append, m2, m3]; omega, ?_⟩, hA4, hb3⟩
  simp only
  rw [val_append, val_append, z0L1, m2, p2, hKe]
  linear_combination hV

/-- T03.6 core: one fixed-size Karatsuba squaring level is exact for every half size `h`, given an
    exact half squaring. -/
theorem karaSqStep_spec (h : Nat) (f : List Nat → List Nat × List Nat) (hf : ExactSq h f)
    (x : List Nat) (hx : WF x) (hlx : x.length = 2 * h) :
    ExactPair (karaSqStep h f x) (2 * h) (2 * h) (val x * val x) := by
  have ⟨wx0, wx1, lx0, lx1, ex⟩ := split_halves hx hlx
  have ⟨_, wd, ld, d1, d2⟩ := absd_spec wx0 wx1 (by rw [lx0, lx1])
  rw [lx0] at ld
  have hz0 := hf _ wx0 lx0
  have hz2 := hf _ wx1 lx1
  have hz1 := hf _ wd ld
  have hX0 := val_lt_pow wx0 lx0
  have hX1 := val_lt_pow wx1 lx1
  have hcase : val (absd (x.take h) (x.drop h)) + val (x.drop h) = val (x.take h) ∨
      val (absd (x.take h) (x.drop h)) + val (x.take h) = val (x.drop h) := by
    by_cases c : val (x.take h) < val (x.drop h)
    · exact Or.inr (d1 c)
    · exact Or.inl (d2 c)
  rw [karaSqStep_eq, ex]
  exact (sqChain_spec hz0 hz2 hz1 (sq_fit hX0 hX1) (sq_identity_halves (B ^ h) _ _ _ hcase)).1

theorem uintSquareLimbs_exactSq (h : Nat) : ExactSq h uintSquareLimbs := by
  intro a ha la
  have ⟨h1, h2, h3⟩ := schoolbookSquare_spec a ha
  have := exactPair_of_list (n := a.length) (m := a.length) h2 (by rw [h3]; omega) h1
  rw [la] at this
  rw [show uintSquareLimbs a = ((schoolbookSquare a).take h, (schoolbookSquare a).drop h) by
    unfold uintSquareLimbs; rw [la]]
  exact this

theorem karaSqChain_spec : ∀ (chain : List Nat), halvingChain chain = true →
    ∀ n, chain.head? = some n → ExactSq n (karaSqChain chain)
  | [], _, n, hn => by simp at hn
  | [b], _, n, hn => by
    simp only [List.head?_cons, Option.some.injEq] at hn; subst hn
    exact uintSquareLimbs_exactSq _
  | full :: half :: rest, hc, n, hn => by
    simp only [List.head?_cons, Option.some.injEq] at hn; subst hn
    simp only [halvingChain, Bool.and_eq_true, beq_iff_eq] at hc
    have ih := karaSqChain_spec (half :: rest) hc.2 half rfl
    intro a ha la
    show ExactPair (karaSqStep half (karaSqChain (half :: rest)) a) _ _ _
    rw [hc.1]
    exact karaSqStep_spec half _ ih a ha (by rw [la, hc.1])

theorem karaSqChain_from_exact {chain : List Nat} (hc : halvingChain chain = true) (n : Nat) :
    ExactSq n (karaSqChain (chainFrom n chain)) := by
  rcases chainFrom_spec n chain hc with h | ⟨h1, h2⟩
  · rw [h]; exact uintSquareLimbs_exactSq n
  · exact karaSqChain_spec _ h2 n h1

/-- the extracted squaring chain `128, 64, 32` halves at every level -/
theorem karaSqSizes_halving : halvingChain karaSqSizes = true := by decide

end CB.Karatsuba
