/-
  CB.Lemmas.GenBitsDiv — the word-level division layer `src/uint/div_limb.rs` (64-bit configuration) as
  tools/translate.py regenerates it from /repo's current source on every run (CB/Gen/DivLimb.lean: `lt`, `select`,
  `short_div` with its loop as a structurally recursive auxiliary, `reciprocal`, `div2by1`, `div3by2`,
  `Reciprocal::{new, default}`, `struct Reciprocal`) is tied to the hand-written `Nat` model CB/Model/DivLimb.lean,
  on which every C02 theorem is built.

  Each bridge `model (toNat of the words) = toNat (translated source on the words)` is proved in two steps:

  (1) model = `bvF` — a hand-written copy of the function over `BitVec`, kept in THIS file — by per-operator
      transport lemmas (`wadd x.toNat y.toNat = (x + y).toNat`, shifts, `mulhilo`, `addhilo`, selects and
      predicates through the bridges of GenBitsChoice).  Both sides are hand-written: this step does not depend
      on the generated text.
  (2) `bvF = Gen.DivLimb.F` — by unfolding the generated definitions (`simp only [gen_defs, bvF]`) and, when the two
      terms are not already identical, `bv_decide` (through `bv_congr`, which keeps function boundaries — the
      translated loops, `div2by1` — folded and compares their arguments).  This is the step that looks at what the
      source says NOW: a changed constant / comparison / operand makes it fail (counterexample or solver timeout);
      an equivalent rewrite of `div2by1`, `div3by2`, `short_div`, `lt`, `select`, `Reciprocal::new` is decided.
      For `reciprocal` (one straight line through eight multipliers) the step only succeeds when the two terms
      coincide after inlining: restructured / renamed `let`s pass, an operator-level rewrite fails by timeout
      (see notes/C02.md, "translator round", for what was tried).

  `bv_decide` file: its name matches `*Bits*`.
-/
import CB.Gen.DivLimb
import CB.Lemmas.GenBitsChoice
import CB.Lemmas.GenBitsMul
import CB.Model.DivLimb
import Std.Tactic.BVDecide
set_option linter.unusedSimpArgs false
namespace CB.GenBits
open CB.Gen CB.Div

/-- `bv_decide` modulo congruence: decide the goal; where that fails because the two sides apply a function that is
    kept folded (a translated loop, `div2by1`) to differently written arguments, compare the arguments instead
    (at most `n` levels down; when everything fails the error shown is `bv_decide`'s, i.e. its counterexample) -/
syntax "bv_congr " num : tactic
macro_rules | `(tactic| bv_congr $n) => do
  match n.getNat with
  | 0 => `(tactic| first | with_reducible rfl | bv_decide | (simp only [gen_defs] <;> (try simp only [BitVec.mul_comm]) <;> bv_decide) | bv_decide)
  | k + 1 =>
    let m := Lean.Syntax.mkNumLit (toString k)
    `(tactic| first | with_reducible rfl | bv_decide | (with_reducible congr 1 <;> bv_congr $m) | (simp only [gen_defs] <;> (try simp only [BitVec.mul_comm]) <;> bv_decide) | bv_decide)

/-! ## transport of the model's word operations (64-bit, 32-bit, 128-bit) -/

theorem wadd_bv (x y : BitVec 64) : wadd x.toNat y.toNat = (x + y).toNat := by
  simp only [wadd, BitVec.toNat_add, B_def]
theorem wadd1_bv (x : BitVec 64) : wadd x.toNat 1 = (x + 1#64).toNat := wadd_bv x 1#64
theorem wsub1_bv (x : BitVec 64) : wsub x.toNat 1 = (x - 1#64).toNat := wsub_bv x 1#64
theorem wmul_bv (x y : BitVec 64) : wmul x.toNat y.toNat = (x * y).toNat := by
  simp only [wmul, BitVec.toNat_mul, B_def]
theorem and1_bv (x : BitVec 64) : x.toNat &&& 1 = (x &&& 1#64).toNat := by
  simp only [BitVec.toNat_and]; rfl
theorem shr_bv (x : BitVec 64) (k : Nat) : x.toNat >>> k = (x >>> k).toNat := (BitVec.toNat_ushiftRight x k).symm
theorem shl_bv (x : BitVec 64) (k : Nat) : (x.toNat <<< k) % B = (x <<< k).toNat := by
  simp only [BitVec.toNat_shiftLeft, B_def]
theorem wsubMax_bv (x : BitVec 64) : wsub WMAX x.toNat = (~~~0#64 - x).toNat := wsub_bv (~~~0#64) x
theorem wsubP60_bv (x : BitVec 64) : wsub (1 <<< 60) x.toNat = ((1#64 <<< 60) - x).toNat := wsub_bv (1#64 <<< 60) x
theorem low32_bv (x : BitVec 64) : x.toNat % U32 = (x.setWidth 32).toNat := by
  simp only [BitVec.toNat_setWidth, U32]
theorem up64_bv (y : BitVec 32) : y.toNat = (y.setWidth 64).toNat := by
  simp only [BitVec.toNat_setWidth]
  exact (Nat.mod_eq_of_lt (Nat.lt_trans y.isLt (by decide))).symm
theorem up128_bv (y : BitVec 64) : y.toNat = (y.setWidth 128).toNat := by
  simp only [BitVec.toNat_setWidth]
  exact (Nat.mod_eq_of_lt (Nat.lt_trans y.isLt (by decide))).symm

/-- the model's `mulhilo` (CB.Div) is the translated `primitives::mulhilo` -/
theorem mulhilo_bridge (x y : BitVec 64) :
    CB.Div.mulhilo x.toNat y.toNat = ((Prim.mulhilo x y).1.toNat, (Prim.mulhilo x y).2.toNat) := by
  have h := congrArg BitVec.toNat (mulhilo_meaning x y)
  rw [cat_toNat] at h
  have h1 := (Prim.mulhilo x y).1.isLt; have h2 := (Prim.mulhilo x y).2.isLt
  have hp : x.toNat * y.toNat < 2 ^ 128 := by
    have := Nat.mul_lt_mul'' x.isLt y.isLt
    simpa [← Nat.pow_add] using this
  simp only [BitVec.toNat_mul, BitVec.toNat_setWidth, Nat.mod_eq_of_lt (Nat.lt_trans x.isLt (by decide : 2 ^ 64 < 2 ^ 128)),
    Nat.mod_eq_of_lt (Nat.lt_trans y.isLt (by decide : 2 ^ 64 < 2 ^ 128)), Nat.mod_eq_of_lt hp] at h
  simp only [CB.Div.mulhilo, B_def]
  generalize x.toNat * y.toNat = p at *
  generalize (Prim.mulhilo x y).1.toNat = hi at *
  generalize (Prim.mulhilo x y).2.toNat = lo at *
  ext <;> simp only <;> omega
theorem mulhilo1_bv (x y : BitVec 64) : (CB.Div.mulhilo x.toNat y.toNat).1 = (Prim.mulhilo x y).1.toNat := by
  rw [mulhilo_bridge]
theorem mulhilo2_bv (x y : BitVec 64) : (CB.Div.mulhilo x.toNat y.toNat).2 = (Prim.mulhilo x y).2.toNat := by
  rw [mulhilo_bridge]

/-- the model's `addhilo` (CB.Div) is the translated `primitives::addhilo` -/
theorem addhilo_bridge (xh xl yh yl : BitVec 64) :
    CB.Div.addhilo xh.toNat xl.toNat yh.toNat yl.toNat =
      ((Prim.addhilo xh xl yh yl).1.toNat, (Prim.addhilo xh xl yh yl).2.toNat) := by
  have h := congrArg BitVec.toNat (addhilo_meaning xh xl yh yl)
  rw [cat_toNat, BitVec.toNat_add, cat_toNat, cat_toNat] at h
  have h1 := (Prim.addhilo xh xl yh yl).1.isLt; have h2 := (Prim.addhilo xh xl yh yl).2.isLt
  have a1 := xh.isLt; have a2 := xl.isLt; have a3 := yh.isLt; have a4 := yl.isLt
  simp only [CB.Div.addhilo, B_def]
  generalize (Prim.addhilo xh xl yh yl).1.toNat = hi at *
  generalize (Prim.addhilo xh xl yh yl).2.toNat = lo at *
  ext <;> simp only <;> omega
theorem addhilo1_bv (xh xl yh yl : BitVec 64) :
    (CB.Div.addhilo xh.toNat xl.toNat yh.toNat yl.toNat).1 = (Prim.addhilo xh xl yh yl).1.toNat := by
  rw [addhilo_bridge]
theorem addhilo2_bv (xh xl yh yl : BitVec 64) :
    (CB.Div.addhilo xh.toNat xl.toNat yh.toNat yl.toNat).2 = (Prim.addhilo xh xl yh yl).2.toNat := by
  rw [addhilo_bridge]

/-- `select_word` for ANY choice word (the model and the source are the same bitwise mux) -/
theorem selectWord_bv (a b c : BitVec 64) : selectWord a.toNat b.toNat c.toNat = (Choice.select_word c a b).toNat := by
  have e : Choice.select_word c a b = a ^^^ (c &&& (a ^^^ b)) := by simp only [gen_defs] <;> bv_decide
  simp only [e, selectWord, BitVec.toNat_xor, BitVec.toNat_and]
theorem selectWord0_bv (a c : BitVec 64) : selectWord a.toNat 0 c.toNat = (Choice.select_word c a 0#64).toNat :=
  selectWord_bv a 0#64 c
theorem selectWordMax_bv (a c : BitVec 64) : selectWord a.toNat WMAX c.toNat = (Choice.select_word c a (~~~0#64)).toNat :=
  selectWord_bv a (~~~0#64) c
theorem choiceOr_bv (a b : BitVec 64) : a.toNat ||| b.toNat = (Choice.or a b).toNat := by
  have e : Choice.or a b = a ||| b := by simp only [gen_defs] <;> bv_decide
  simp only [e, BitVec.toNat_or]

/-! ### 32-bit helpers of `div_limb.rs` -/
theorem not32_bv (x : BitVec 32) : not32 x.toNat = (~~~x).toNat := by
  simp only [not32, U32, BitVec.toNat_not]
  rw [Nat.mod_eq_of_lt x.isLt]
theorem wsub32_bv (x y : BitVec 32) : wsub32 x.toNat y.toNat = (x - y).toNat := by
  have hx := x.isLt; have hy := y.isLt
  simp only [wsub32, U32, BitVec.toNat_sub] at *
  omega
theorem shr31_bv (x : BitVec 32) : x.toNat / 2147483648 = (x >>> 31).toNat := by
  simp only [BitVec.toNat_ushiftRight, Nat.shiftRight_eq_div_pow]
theorem neg32_bv (x : BitVec 32) : (U32 - x.toNat) % U32 = (-x).toNat := by
  simp only [U32, BitVec.toNat_neg]
theorem shl32_bv (x : BitVec 32) (n : Nat) (hn : n < 32) :
    (x.toNat <<< n) % U32 = (x <<< (BitVec.ofNat 32 n % 32#32)).toNat := by
  have e : (BitVec.ofNat 32 n % 32#32).toNat = n := by
    simp only [BitVec.toNat_umod, BitVec.toNat_ofNat]
    rw [Nat.mod_eq_of_lt (by omega : n < 2 ^ 32), Nat.mod_eq_of_lt (by decide : 32 < 2 ^ 32), Nat.mod_eq_of_lt hn]
  rw [BitVec.shiftLeft_eq', e, BitVec.toNat_shiftLeft]; rfl

/-- `lt` of the source: all-ones iff `a < b` -/
theorem lt_meaning (a b : BitVec 32) : DivLimb.lt a b = if a < b then ~~~0#32 else 0#32 := by
  simp only [gen_defs]; (try simp only [BitVec.mul_comm]); bv_decide
/-- `select` of the source: `b` iff the mask is all-ones, `a` iff it is zero -/
theorem select_meaning32 (a b : BitVec 32) :
    DivLimb.select a b 0#32 = a ∧ DivLimb.select a b (~~~0#32) = b := by
  simp only [gen_defs]; constructor <;> bv_decide

/-- the model's `lt32` is the translated `lt` -/
theorem lt32_bridge (a b : BitVec 32) : lt32 a.toNat b.toNat = (DivLimb.lt a b).toNat := by
  have e : DivLimb.lt a b = -((((~~~a) &&& b) ||| (((~~~a) ||| b) &&& (a - b))) >>> 31) := by
    simp only [gen_defs] <;> bv_decide
  simp only [e, lt32, not32_bv, wsub32_bv, ← BitVec.toNat_and, ← BitVec.toNat_or, shr31_bv, neg32_bv]
/-- the model's `select32` is the translated `select` (for any mask word) -/
theorem select32_bridge (a b c : BitVec 32) : select32 a.toNat b.toNat c.toNat = (DivLimb.select a b c).toNat := by
  have e : DivLimb.select a b c = a ^^^ (c &&& (a ^^^ b)) := by simp only [gen_defs] <;> bv_decide
  simp only [e, select32, BitVec.toNat_xor, BitVec.toNat_and]

/-! ## `short_div` -/

/-- one round of the `short_div` loop over `BitVec 32` with counter `i` (hand-written copy) -/
def bvShortDivStep (i a b q : BitVec 32) : BitVec 32 × BitVec 32 × BitVec 32 :=
  let bit := -((((~~~a) &&& b) ||| (((~~~a) ||| b) &&& (a - b))) >>> 31)
  ((a - b) ^^^ (bit &&& ((a - b) ^^^ a)), b >>> 1, q ||| (((~~~bit) >>> 31) <<< (i % 32#32)))

/-- round `n + 1` of the translated loop (counter value `n` after the decrement) is `bvShortDivStep` followed by the
    remaining `n` rounds; the body of the source loop is compared by `bv_decide`, with the counter abstracted -/
theorem short_div_loop_succ (n : Nat) (a b q : BitVec 32) :
    DivLimb.short_div_loop1 (n + 1) a b q =
      DivLimb.short_div_loop1 n (bvShortDivStep (BitVec.ofNat 32 n) a b q).1
        (bvShortDivStep (BitVec.ofNat 32 n) a b q).2.1 (bvShortDivStep (BitVec.ofNat 32 n) a b q).2.2 := by
  rw [DivLimb.short_div_loop1]
  generalize BitVec.ofNat 32 n = i
  simp only [gen_defs, bvShortDivStep] <;> bv_congr 8

theorem shortDivLoop_succ (i a b q : Nat) : shortDivLoop (i + 1) a b q =
    shortDivLoop i (select32 (wsub32 a b) a (lt32 a b)) (b / 2)
      (q ||| (((not32 (lt32 a b) / 2147483648) <<< i) % U32)) := rfl

theorem lt32_bv (a b : BitVec 32) :
    lt32 a.toNat b.toNat = (-((((~~~a) &&& b) ||| (((~~~a) ||| b) &&& (a - b))) >>> 31)).toNat := by
  simp only [lt32, not32_bv, wsub32_bv, ← BitVec.toNat_and, ← BitVec.toNat_or, shr31_bv, neg32_bv]
theorem select32_bv (a b c : BitVec 32) : select32 a.toNat b.toNat c.toNat = (a ^^^ (c &&& (a ^^^ b))).toNat := by
  simp only [select32, BitVec.toNat_xor, BitVec.toNat_and]

/-- the model's `while i > 0` loop is the translated loop, for every trip count the 32-bit shift allows -/
theorem shortDivLoop_bridge (n : Nat) (hn : n ≤ 32) (a b q : BitVec 32) :
    shortDivLoop n a.toNat b.toNat q.toNat = (DivLimb.short_div_loop1 n a b q).2.2.toNat := by
  induction n generalizing a b q with
  | zero => rfl
  | succ n ih =>
    have hn' : n < 32 := hn
    have e2 : b.toNat / 2 = (b >>> 1).toNat := by
      simp only [BitVec.toNat_ushiftRight, Nat.shiftRight_eq_div_pow]
    rw [shortDivLoop_succ, short_div_loop_succ, lt32_bv, wsub32_bv, select32_bv, not32_bv, shr31_bv,
      shl32_bv _ n hn', e2, ← BitVec.toNat_or, ih (Nat.le_of_lt hn')]
    rfl

/-- **`short_div`**: the model is the translated source on the function's domain (`divisor_bits ≤ dividend_bits`,
    `dividend_bits − divisor_bits < 32`; outside it the Rust panics in debug builds on the subtraction / shift) -/
theorem shortDiv_bridge (x db y vb : BitVec 32) (h1 : vb.toNat ≤ db.toNat) (h2 : db.toNat - vb.toNat < 32) :
    shortDiv x.toNat db.toNat y.toNat vb.toNat = (DivLimb.short_div x db y vb).toNat := by
  have e : DivLimb.short_div x db y vb =
      (DivLimb.short_div_loop1 ((db - vb) + 1#32).toNat x (y <<< ((db - vb) % 32#32)) 0#32).2.2 := by
    simp only [DivLimb.short_div] <;> bv_congr 8
  have hs : (db - vb).toNat = db.toNat - vb.toNat := BitVec.toNat_sub_of_le (BitVec.le_def.mpr h1)
  have hi : ((db - vb) + 1#32).toNat = db.toNat - vb.toNat + 1 := by
    rw [BitVec.toNat_add, hs]
    exact Nat.mod_eq_of_lt (by simp only [BitVec.toNat_ofNat]; omega)
  have hsh : (y.toNat <<< (db.toNat - vb.toNat)) % U32 = (y <<< ((db - vb) % 32#32)).toNat := by
    have := shl32_bv y (db.toNat - vb.toNat) h2
    rw [this, ← hs, BitVec.ofNat_toNat, BitVec.setWidth_eq]
  rw [e, hi, shortDiv, hsh]
  exact shortDivLoop_bridge _ (by omega) x _ 0#32

/-- the one call `reciprocal` makes: dividend `2^19 − 3·2^8` of 19 bits by a 9-bit divisor -/
theorem shortDiv_recip_bv (y : BitVec 32) : shortDiv recipV0Dividend 19 y.toNat 9 =
    ((DivLimb.short_div ((1#32 <<< 19) - 3#32 * (1#32 <<< 8)) 19#32 y 9#32).setWidth 64).toNat := by
  rw [← up64_bv]
  exact shortDiv_bridge ((1#32 <<< 19) - 3#32 * (1#32 <<< 8)) 19#32 y 9#32 (by decide) (by decide)

/-! ## `reciprocal` -/

/-- hand-written copy of the 64-bit `reciprocal` over `BitVec` (the model `reciprocalImpl`, operator for operator) -/
def bvReciprocal (d : BitVec 64) : BitVec 64 :=
  let d0 := d &&& 1#64
  let d9 := d >>> 55
  let d40 := (d >>> 24) + 1#64
  let d63 := (d >>> 1) + d0
  let v0 := (DivLimb.short_div ((1#32 <<< 19) - 3#32 * (1#32 <<< 8)) 19#32 (d9.setWidth 32) 9#32).setWidth 64
  let v1 := ((v0 <<< 11) - ((v0 * v0 * d40) >>> 40)) - 1#64
  let v2 := (v1 <<< 13) + ((v1 * ((1#64 <<< 60) - v1 * d40)) >>> 47)
  let e := ((~~~0#64 - v2 * d63) + 1#64) + (v2 >>> 1) * d0
  let hi := (Prim.mulhilo v2 e).1
  let v3 := (v2 <<< 31) + (hi >>> 1)
  let x := v3 + 1#64
  let hi2 := (Prim.mulhilo x d).1
  let hi3 := Choice.select_word (Choice.from_word_nonzero x) d hi2
  (v3 - hi3) - d

/-- step (1): the `Nat` model is the `BitVec` copy -/
theorem reciprocalImpl_bv (d : BitVec 64) : reciprocalImpl d.toNat = (bvReciprocal d).toNat := by
  simp only [reciprocalImpl, bvReciprocal, and1_bv, shr_bv, wadd1_bv, wadd_bv, low32_bv, shortDiv_recip_bv, shl_bv,
    wmul_bv, wsub_bv, wsub1_bv, wsubP60_bv, wsubMax_bv, mulhilo1_bv, fromWordNonzero_bridge, selectWord_bv]

/-- step (2): the `BitVec` copy is what the source says now (the 11 rounds of `short_div` are unrolled on both sides) -/
theorem bvReciprocal_eq_src (d : BitVec 64) : bvReciprocal d = DivLimb.reciprocal d := by
  simp only [gen_defs, bvReciprocal] <;> bv_decide

/-- **`reciprocal`**: the hand-written model is the translated source, on every word -/
theorem reciprocal_bridge (d : BitVec 64) : reciprocalImpl d.toNat = (DivLimb.reciprocal d).toNat := by
  rw [reciprocalImpl_bv, bvReciprocal_eq_src]

/-! ## `div2by1` -/

/-- the model's view of a translated `Reciprocal` (field by field) -/
def rcNat (rc : DivLimb.Reciprocal) : CB.Div.Reciprocal :=
  { divisorNormalized := rc.divisor_normalized.toNat, shift := rc.shift.toNat, reciprocal := rc.reciprocal.toNat }

/-- hand-written copy of `div2by1` over `BitVec` (the model `CB.Div.div2by1`, operator for operator) -/
def bvDiv2by1 (u1 u0 : BitVec 64) (rc : DivLimb.Reciprocal) : BitVec 64 × BitVec 64 :=
  let d := rc.divisor_normalized
  let m := Prim.mulhilo rc.reciprocal u1
  let s := Prim.addhilo m.1 m.2 u1 u0
  let q1 := s.1 + 1#64
  let q0 := s.2
  let r := u0 - q1 * d
  let rGtQ0 := Choice.from_word_lt q0 r
  let q1' := Choice.select_word rGtQ0 q1 (q1 - 1#64)
  let r' := Choice.select_word rGtQ0 r (r + d)
  let rGeD := Choice.from_word_le d r'
  (Choice.select_word rGeD q1' (q1' + 1#64), Choice.select_word rGeD r' (r' - d))

/-- step (1): the `Nat` model is the `BitVec` copy -/
theorem div2by1_bv (u1 u0 : BitVec 64) (rc : DivLimb.Reciprocal) :
    CB.Div.div2by1 u1.toNat u0.toNat (rcNat rc) = ((bvDiv2by1 u1 u0 rc).1.toNat, (bvDiv2by1 u1 u0 rc).2.toNat) := by
  simp only [CB.Div.div2by1, bvDiv2by1, rcNat, mulhilo1_bv, mulhilo2_bv, addhilo1_bv, addhilo2_bv, wadd1_bv, wadd_bv,
    wmul_bv, wsub_bv, wsub1_bv, fromWordLt_bridge, fromWordLe_bridge, selectWord_bv]

/-- step (2): the `BitVec` copy is what the source says now -/
theorem bvDiv2by1_eq_src (u1 u0 : BitVec 64) (rc : DivLimb.Reciprocal) :
    bvDiv2by1 u1 u0 rc = DivLimb.div2by1 u1 u0 rc := by
  rcases rc with ⟨dn, sh, v⟩
  simp only [gen_defs, bvDiv2by1, Prod.mk.injEq] <;> bv_decide

/-- **`div2by1`**: the hand-written model is the translated source, on all words (no precondition) -/
theorem div2by1_bridge (u1 u0 : BitVec 64) (rc : DivLimb.Reciprocal) :
    CB.Div.div2by1 u1.toNat u0.toNat (rcNat rc) =
      ((DivLimb.div2by1 u1 u0 rc).1.toNat, (DivLimb.div2by1 u1 u0 rc).2.toNat) := by
  rw [div2by1_bv, bvDiv2by1_eq_src]

/-! ## `div3by2` -/

theorem BB_pow : B * B = 2 ^ 128 := by decide
theorem wideNot_bv (x : BitVec 128) : wwnot x.toNat = (~~~x).toNat := by
  simp only [wwnot, BitVec.toNat_not, BB_pow]
  rw [Nat.mod_eq_of_lt x.isLt]
theorem wideSub_bv (x y : BitVec 128) : wwsub x.toNat y.toNat = (x - y).toNat := by
  have hx := x.isLt; have hy := y.isLt
  simp only [wwsub, BitVec.toNat_sub, BB_pow] at *
  omega
theorem wideMul_bv (x y : BitVec 64) : x.toNat * y.toNat = (x.setWidth 128 * y.setWidth 128).toNat := by
  have hp : x.toNat * y.toNat < 2 ^ 128 := by
    have := Nat.mul_lt_mul'' x.isLt y.isLt
    simpa [← Nat.pow_add] using this
  simp only [BitVec.toNat_mul, ← up128_bv, Nat.mod_eq_of_lt hp]
theorem wideAdd64_bv (x y : BitVec 64) : x.toNat + y.toNat = (x.setWidth 128 + y.setWidth 128).toNat := by
  have hx := x.isLt; have hy := y.isLt
  simp only [BitVec.toNat_add, ← up128_bv]
  omega
theorem wideAddWord_bv (r : BitVec 128) (d : BitVec 64) : (r.toNat + d.toNat) % (B * B) = (r + d.setWidth 128).toNat := by
  simp only [BitVec.toNat_add, ← up128_bv, BB_pow]
theorem wideShl64_bv (r : BitVec 128) : (r.toNat * B) % (B * B) = (r <<< 64).toNat := by
  simp only [BitVec.toNat_shiftLeft, Nat.shiftLeft_eq, BB_pow, B_eq_pow]
theorem wideOrWord_bv (r : BitVec 128) (u : BitVec 64) : r.toNat ||| u.toNat = (r ||| u.setWidth 128).toNat := by
  simp only [BitVec.toNat_or, ← up128_bv]
theorem wideHi_bv (r : BitVec 128) : (r.toNat / B) % B = ((r >>> 64).setWidth 64).toNat := by
  simp only [BitVec.toNat_setWidth, BitVec.toNat_ushiftRight, Nat.shiftRight_eq_div_pow, B_eq_pow]

/-- the model's `selectWideWord` is the translated `select_wide_word`, for any choice word -/
theorem selectWideWord_bv (a b : BitVec 128) (c : BitVec 64) :
    selectWideWord a.toNat b.toNat c.toNat = (Choice.select_wide_word c a b).toNat := by
  have e : Choice.select_wide_word c a b = a ^^^ (((c.setWidth 128 <<< 64) ||| c.setWidth 128) &&& (a ^^^ b)) := by
    simp only [gen_defs] <;> bv_decide
  have hm : c.toNat * B ||| c.toNat = ((c.setWidth 128 <<< 64) ||| c.setWidth 128).toNat := by
    rw [cat_toNat, B_eq_pow, ← Nat.shiftLeft_eq, Nat.shiftLeft_add_eq_or_of_lt c.isLt]
  simp only [e, selectWideWord, hm, BitVec.toNat_xor, BitVec.toNat_and]

/-- the model's `fromWideWordLe` is the translated `from_wide_word_le` -/
theorem fromWideWordLe_bv (x y : BitVec 128) : fromWideWordLe x.toNat y.toNat = (Choice.from_wide_word_le x y).toNat := by
  have e : Choice.from_wide_word_le x y =
      (-((((~~~x) ||| y) &&& ((x ^^^ y) ||| ~~~(y - x))) >>> 127)).setWidth 64 := by
    simp only [gen_defs] <;> bv_decide
  have h127 : HALF * B = 2 ^ 127 := by decide
  have hneg (t : BitVec 128) : (B * B - t.toNat % (B * B)) % (B * B) = (-t).toNat := by
    simp only [BitVec.toNat_neg, BB_pow, Nat.mod_eq_of_lt t.isLt]
  have hlow (t : BitVec 128) : t.toNat % B = (t.setWidth 64).toNat := by
    simp only [BitVec.toNat_setWidth, B_eq_pow]
  have hshr (t : BitVec 128) : t.toNat / (HALF * B) = (t >>> 127).toNat := by
    simp only [BitVec.toNat_ushiftRight, Nat.shiftRight_eq_div_pow, h127]
  simp only [e, fromWideWordLe, wideNot_bv, wideSub_bv, ← BitVec.toNat_xor, ← BitVec.toNat_or, ← BitVec.toNat_and,
    hshr, hneg, hlow]

/-- hand-written copy of one correction round of `div3by2` (the model `div3by2Round`) -/
def bvDiv3by2Round (u0 v0 d : BitVec 64) (st : BitVec 64 × BitVec 128) : BitVec 64 × BitVec 128 :=
  let quo := st.1
  let rem := st.2
  let qy := quo.setWidth 128 * v0.setWidth 128
  let rx := (rem <<< 64) ||| u0.setWidth 128
  let done := Choice.or (Choice.from_word_nonzero ((rem >>> 64).setWidth 64)) (Choice.from_wide_word_le qy rx)
  (Choice.select_word done (quo - 1#64) quo, Choice.select_wide_word done (rem + d.setWidth 128) rem)

theorem div3by2Round_bv (u0 v0 d quo : BitVec 64) (rem : BitVec 128) :
    div3by2Round u0.toNat v0.toNat d.toNat (quo.toNat, rem.toNat) =
      ((bvDiv3by2Round u0 v0 d (quo, rem)).1.toNat, (bvDiv3by2Round u0 v0 d (quo, rem)).2.toNat) := by
  simp only [div3by2Round, bvDiv3by2Round, wideMul_bv, wideShl64_bv, wideOrWord_bv, wideHi_bv, fromWordNonzero_bridge,
    fromWideWordLe_bv, choiceOr_bv, wsub1_bv, selectWord_bv, wideAddWord_bv, selectWideWord_bv]

/-- one round of the translated `while i < 2` loop is `bvDiv3by2Round` followed by the remaining rounds; the body of
    the source loop is compared by `bv_decide` -/
theorem div3by2_loop_succ (u0 v0 : BitVec 64) (rc : DivLimb.Reciprocal) (n : Nat) (quo : BitVec 64) (rem : BitVec 128) :
    DivLimb.div3by2_loop1 v0 u0 rc (n + 1) quo rem =
      DivLimb.div3by2_loop1 v0 u0 rc n (bvDiv3by2Round u0 v0 rc.divisor_normalized (quo, rem)).1
        (bvDiv3by2Round u0 v0 rc.divisor_normalized (quo, rem)).2 := by
  rw [DivLimb.div3by2_loop1]
  rcases rc with ⟨dn, sh, v⟩
  simp only [gen_defs, bvDiv3by2Round] <;> bv_congr 8

theorem iter_zero {α : Type} (f : α → α) (a : α) : iter f 0 a = a := rfl
theorem iter_succ {α : Type} (f : α → α) (n : Nat) (a : α) : iter f (n + 1) a = iter f n (f a) := rfl

/-- the model's `iter (div3by2Round ..) n` is the translated correction loop, for every number of rounds -/
theorem div3by2Iter_bridge (u0 v0 : BitVec 64) (rc : DivLimb.Reciprocal) (n : Nat) (quo : BitVec 64) (rem : BitVec 128) :
    iter (div3by2Round u0.toNat v0.toNat rc.divisor_normalized.toNat) n (quo.toNat, rem.toNat) =
      ((DivLimb.div3by2_loop1 v0 u0 rc n quo rem).1.toNat, (DivLimb.div3by2_loop1 v0 u0 rc n quo rem).2.toNat) := by
  induction n generalizing quo rem with
  | zero => rw [iter_zero, DivLimb.div3by2_loop1]
  | succ n ih => rw [iter_succ, div3by2Round_bv, ih, div3by2_loop_succ]

/-- hand-written copy of `div3by2` over `BitVec` (the model `CB.Div.div3by2`: the cap, then the correction rounds); its
    2-by-1 division and its loop are the translated `div2by1` / `div3by2_loop1` themselves (tied to the model by
    `div2by1_bridge` / `div3by2Iter_bridge`), kept folded in step (2) -/
def bvDiv3by2 (u2 u1 u0 : BitVec 64) (rc : DivLimb.Reciprocal) (v0 : BitVec 64) : BitVec 64 :=
  let d := rc.divisor_normalized
  let qMaxed := Choice.from_word_eq u2 d
  let qr := DivLimb.div2by1 (Choice.select_word qMaxed u2 0#64) u1 rc
  let quo := Choice.select_word qMaxed qr.1 (~~~0#64)
  let rem := Choice.select_wide_word qMaxed (qr.2.setWidth 128) (u2.setWidth 128 + u1.setWidth 128)
  (DivLimb.div3by2_loop1 v0 u0 rc 2 quo rem).1

/-- step (1): the `Nat` model is the `BitVec` copy -/
theorem div3by2_bv (u2 u1 u0 : BitVec 64) (rc : DivLimb.Reciprocal) (v0 : BitVec 64) :
    CB.Div.div3by2 u2.toNat u1.toNat u0.toNat (rcNat rc) v0.toNat = (bvDiv3by2 u2 u1 u0 rc v0).toNat := by
  have hd : (rcNat rc).divisorNormalized = rc.divisor_normalized.toNat := rfl
  simp only [CB.Div.div3by2, bvDiv3by2, div3by2Rounds, hd, fromWordEq_bridge, selectWord0_bv, div2by1_bridge,
    selectWordMax_bv, wideAdd64_bv, up128_bv (DivLimb.div2by1 _ _ _).2, selectWideWord_bv, div3by2Iter_bridge]

attribute [-gen_defs] DivLimb.div2by1 DivLimb.div3by2_loop1 in
/-- step (2): the `BitVec` copy is what the source says now (`div2by1` and the loop stay folded; where their arguments
    are written differently, `bv_congr` compares the arguments) -/
theorem bvDiv3by2_eq_src (u2 u1 u0 : BitVec 64) (rc : DivLimb.Reciprocal) (v0 : BitVec 64) :
    bvDiv3by2 u2 u1 u0 rc v0 = DivLimb.div3by2 u2 u1 u0 rc v0 := by
  rcases rc with ⟨dn, sh, v⟩
  simp only [gen_defs, bvDiv3by2] <;> bv_congr 8

/-- **`div3by2`**: the hand-written model is the translated source, on all words (no precondition) -/
theorem div3by2_bridge (u2 u1 u0 : BitVec 64) (rc : DivLimb.Reciprocal) (v0 : BitVec 64) :
    CB.Div.div3by2 u2.toNat u1.toNat u0.toNat (rcNat rc) v0.toNat = (DivLimb.div3by2 u2 u1 u0 rc v0).toNat := by
  rw [div3by2_bv, bvDiv3by2_eq_src]

/-! ## `Reciprocal::new`, `Reciprocal::default` -/

/-- the model's `leadingZeros` is `u64::leading_zeros` (`BitVec.clz`) -/
theorem clz_bv (x : BitVec 64) : leadingZeros x.toNat = (BitVec.clz x).toNat := by
  by_cases h0 : x = 0#64
  · subst h0; decide
  · have hx : x.toNat ≠ 0 := fun h => h0 (BitVec.eq_of_toNat_eq (by simpa using h))
    have hlt : (BitVec.clz x).toNat < 64 := by
      have := (BitVec.clz_lt_iff_ne_zero (x := x)).mpr h0
      simpa [BitVec.lt_def] using this
    have h1 := BitVec.two_pow_sub_clz_le_toNat_of_ne_zero (x := x) (by decide) h0
    have h2 := BitVec.toNat_lt_two_pow_sub_clz (x := x)
    have hl : Nat.log2 x.toNat = 63 - (BitVec.clz x).toNat := by
      rw [Nat.log2_eq_iff hx]
      refine ⟨h1, ?_⟩
      have e : 63 - (BitVec.clz x).toNat + 1 = 64 - (BitVec.clz x).toNat := by omega
      rw [e]; exact h2
    simp only [leadingZeros, hx, if_false, hl]
    omega

/-- what `Reciprocal::new` of the source computes, field by field (the shift amount taken modulo 64 — release
    semantics of `<<` — is the leading-zero count itself, also for the excluded divisor 0) -/
theorem new_fields (x : BitVec 64) :
    (DivLimb.Reciprocal.new x).shift = (BitVec.clz x).setWidth 32 ∧
    (DivLimb.Reciprocal.new x).divisor_normalized = x <<< (BitVec.clz x) ∧
    (DivLimb.Reciprocal.new x).reciprocal = DivLimb.reciprocal (DivLimb.Reciprocal.new x).divisor_normalized := by
  simp only [DivLimb.Reciprocal.new, true_and, and_true] <;> bv_decide

/-- **`Reciprocal::new`**: the hand-written model is the translated source, on every word -/
theorem new_bridge (x : BitVec 64) : CB.Div.Reciprocal.new x.toNat = rcNat (DivLimb.Reciprocal.new x) := by
  obtain ⟨h1, h2, h3⟩ := new_fields x
  have hc : (BitVec.clz x).toNat ≤ 64 := by
    have := BitVec.clz_le (x := x); simpa [BitVec.le_def] using this
  have hdn : (x.toNat <<< leadingZeros x.toNat) % B = (DivLimb.Reciprocal.new x).divisor_normalized.toNat := by
    rw [h2, clz_bv, BitVec.shiftLeft_eq', BitVec.toNat_shiftLeft, B_eq_pow]
  have hsh : leadingZeros x.toNat = (DivLimb.Reciprocal.new x).shift.toNat := by
    rw [h1, clz_bv, BitVec.toNat_setWidth, Nat.mod_eq_of_lt (by omega)]
  simp only [CB.Div.Reciprocal.new, rcNat, hdn, reciprocal_bridge, ← h3]
  rw [← hsh]

/-- **`Reciprocal::default`**: the model's constant is the translated one -/
theorem default_bridge : CB.Div.Reciprocal.dflt = rcNat DivLimb.Reciprocal.default := by
  have e : DivLimb.Reciprocal.default = ⟨~~~0#64, 0#32, 1#64⟩ := by
    simp only [DivLimb.Reciprocal.default, DivLimb.Reciprocal.mk.injEq] <;> bv_decide
  rw [e]; rfl

end CB.GenBits
