/-
  CB.Lemmas.C17Old — HISTORICAL: the radix code before /repo commits 4206d22 and a47b355.
  Nothing here describes the current code; the definitions are kept so that the two defects that
  were found stay machine-checked.

  (1) `RadixDivisionParams::encode_limbs` tested `limbs[limb_count - 1] << lshift < div_limb` with a
      WRAPPING shift (now: `limbs[limb_count - 1] < div_limb`). The old loop is the generic loop of
      C17Div with `wrapTest`; it was correct when the limb divisor needs no normalising shift
      (radix 3, 9, 10, 19, 23, 29, 30) and dropped a digit otherwise (witness: radix 31, 14 limbs).
  (2) `BoxedUint::from_str_radix_vartime` returned the pushed limbs without the one-limb padding of
      `From<Vec<Limb>>`: a zero numeral gave a zero-limb value, which formatted as `""`.
-/
import CB.Lemmas.C17Div
namespace CB.Radix
open CB

/-- the test as written before 4206d22 -/
def wrapTest (p : DivParams) (top : Nat) : Prop := (top * 2 ^ p.shift) % B < p.divisor
instance (p : DivParams) : DecidablePred (wrapTest p) := fun _ => Nat.decLt _ _

/-- `encode_limbs` before 4206d22 -/
def oldEncodeLimbs (p : DivParams) (limbs : List Nat) (outLen : Nat) : List Nat :=
  encodeLimbsT (wrapTest p) p limbs outLen

/-- `radix_encode_limbs_mut_to_string` before 4206d22 (division path) -/
def oldEncodeToString (radix : Nat) (limbs : List Nat) : Except Err (List Nat) :=
  match forRadix radix with
  | .error e => .error e
  | .ok p => .ok (skipZeros (oldEncodeLimbs p limbs (limbs.length * (p.digitsLimb + 1))))

/-- the old code was correct whenever the normalising shift is zero: the wrapping shift is then the
identity -/
theorem oldEncodeLimbs_spec_shift0 {p : DivParams} (hg : GoodParams p) (h0 : p.shift = 0)
    {limbs : List Nat} (hw : WF limbs) (outLen : Nat) :
    oldEncodeLimbs p limbs outLen = (digitsPad p.radix outLen (val limbs)).map digitChar := by
  unfold oldEncodeLimbs
  apply encodeLimbsT_spec hg _ hw
  intro top htop
  unfold wrapTest
  rw [hg.2.2.2.2.2.2.2.1, h0, Nat.pow_zero, Nat.mul_one, Nat.mod_eq_of_lt htop]

/-- the old code agreed with the current code on every input on which the wrapping test never decided
differently (stated for the whole run) -/
theorem oldEncodeLimbs_eq_of_nowrap {p : DivParams} (hg : GoodParams p) {limbs : List Nat}
    (hw : WF limbs) (outLen : Nat) (H_nowrap : oldEncodeLimbs p limbs outLen = encodeLimbs p limbs outLen) :
    oldEncodeLimbs p limbs outLen = (digitsPad p.radix outLen (val limbs)).map digitChar := by
  rw [H_nowrap, encodeLimbs_spec hg hw]

/-- the 14-limb value on which the old `to_string_radix_vartime(31)` lost its leading digit -/
def wrapWitness : Nat := 0x13c4348132f0ae20bc4e1e1dd7a8c71526e185780bb5c91686df58d9fc90c3440be592dd5a1c54b2f9fc1085cc6f2bc343b805e056492684f7992bed4957b27c9638c0e2a67542a6b11f318f6cccfda8a457a18a37e9a11739c61ec820325f4b0f71eda9082af1b01000000000003039

def okLen : Except Err (List Nat) → Nat
  | .ok l => l.length
  | .error _ => 0

/-- NEGATION for the old code (finding C17-encode-wrapped-shift): the numeral is one digit SHORTER
than the canonical numeral of the value -/
theorem old_encode_wrapped_shift_witness :
    okLen (oldEncodeToString 31 (toLimbs 14 wrapWitness)) + 1 = (specFormat 31 wrapWitness).length ∧
    wrapWitness < B ^ 14 := by decide +kernel

/-- `BoxedUint::from_str_radix_vartime` before a47b355 -/
def oldBoxedFromStr (radix : Nat) (s : List Nat) : Except Err (List Nat) :=
  match decodeStr radix s { cap := none, limbs := [] } with
  | .error e => .error e
  | .ok t => .ok t.limbs

/-- NEGATION for the old code (DESIGN §7 row 5): `"0"` parsed to a value with no limbs, which the
encoder turns into the empty string -/
theorem old_boxed_parse_zero_has_no_limbs :
    oldBoxedFromStr 10 [48] = .ok [] ∧ encodeToString 10 [] = .ok [] ∧ specFormat 10 0 = [48] :=
  ⟨rfl, rfl, rfl⟩

end CB.Radix
