/-
  CB.Lemmas.GenBitsInt — what the translated SIGN layer of `Int<LIMBS>` says (CB/Gen/IntSign.lean, regenerated from
  src/int/{sign,neg,cmp,add}.rs, src/int.rs, src/uint/{cmp,neg,bit_xor}.rs, src/limb/{cmp,bit_xor}.rs on every run by
  tools/translate.py): one round of the translated loops of `Uint::select` / `Uint::bitxor`, the functions around them, the
  straight-line `Int` functions as compositions of the translated `Uint` / `ConstChoice` functions, the constants, and the
  word-level bridges of the `ConstChoice` combinators to the `Nat` model of CB/Model/Int.lean.
  This is the only file that looks at the generated TEXT of that unit (method: CB/Lemmas/GenBitsChains.lean — `round_eq`
  unfolds the generated definitions and decides the words with `bv_decide`, keeping recursive calls and `List.set` folded).
  The inductions over the limb count are in CB/Lemmas/GenInt.lean (no `bv_decide`).

  `bv_decide` file: its name matches `*Bits*`.
-/
import CB.Gen.IntSign
import CB.Lemmas.GenBitsChainsAdd
import CB.Lemmas.GenBitsChainsCmp
import CB.Model.Int
namespace CB.GenBits
open CB CB.Gen

/-! ## `impl Limb`: `select`, `bitxor` -/

theorem limb_select_eq (a b c : BitVec 64) : IntSign.Limb.select a b c = a ^^^ (c &&& (a ^^^ b)) := by
  round_eq
theorem limb_bitxor_eq (a b : BitVec 64) : IntSign.Limb.bitxor a b = a ^^^ b := by
  round_eq

/-! ## `Uint::select`, `Uint::wrapping_neg_if`, `Uint::bitxor` -/

theorem select_loop_zero (L : Nat) (a b : List (BitVec 64)) (c : BitVec 64) (i : Nat) (limbs : List (BitVec 64)) :
    IntSign.Uint.select_loop1 L a b c 0 i limbs = limbs := by
  rw [IntSign.Uint.select_loop1]

theorem select_loop_succ (L : Nat) (a b : List (BitVec 64)) (c : BitVec 64) (n i : Nat) (limbs : List (BitVec 64))
    (h : i < L) :
    IntSign.Uint.select_loop1 L a b c (n + 1) i limbs =
      IntSign.Uint.select_loop1 L a b c n (i + 1)
        (limbs.set i (a.getD i 0#64 ^^^ (c &&& (a.getD i 0#64 ^^^ b.getD i 0#64)))) := by
  rw [IntSign.Uint.select_loop1, if_pos h] <;> round_eq

theorem select_eq_loop (L : Nat) (a b : List (BitVec 64)) (c : BitVec 64) :
    IntSign.Uint.select L a b c = IntSign.Uint.select_loop1 L a b c L 0 (List.replicate L 0#64) := by
  round_eq

theorem uint_wrapping_neg_if_eq (L : Nat) (a : List (BitVec 64)) (c : BitVec 64) :
    IntSign.Uint.wrapping_neg_if L a c = IntSign.Uint.select L a (Chains.Uint.wrapping_neg L a) c := by
  round_eq

theorem bitxor_loop_zero (L : Nat) (a b : List (BitVec 64)) (i : Nat) (limbs : List (BitVec 64)) :
    IntSign.Uint.bitxor_loop1 L a b 0 i limbs = limbs := by
  rw [IntSign.Uint.bitxor_loop1]

theorem bitxor_loop_succ (L : Nat) (a b : List (BitVec 64)) (n i : Nat) (limbs : List (BitVec 64)) (h : i < L) :
    IntSign.Uint.bitxor_loop1 L a b (n + 1) i limbs =
      IntSign.Uint.bitxor_loop1 L a b n (i + 1) (limbs.set i (a.getD i 0#64 ^^^ b.getD i 0#64)) := by
  rw [IntSign.Uint.bitxor_loop1, if_pos h] <;> round_eq

theorem bitxor_eq_loop (L : Nat) (a b : List (BitVec 64)) :
    IntSign.Uint.bitxor L a b = IntSign.Uint.bitxor_loop1 L a b L 0 (List.replicate L 0#64) := by
  round_eq

/-! ## the constants (fixed text of the translator, checked against the defining text in the source) -/

theorem uint_MAX_eq (L : Nat) : IntSign.Uint.MAX L = List.replicate L (~~~0#64) := by
  round_eq
theorem int_MAX_eq (L : Nat) :
    IntSign.Int.MAX L = (List.replicate L (~~~0#64)).set (L - 1) 0x7FFFFFFFFFFFFFFF#64 := by
  round_eq
theorem int_MIN_eq (L : Nat) :
    IntSign.Int.MIN L = (List.replicate L 0#64).set (L - 1) 0x8000000000000000#64 := by
  round_eq
theorem int_SIGN_MASK_eq (L : Nat) : IntSign.Int.SIGN_MASK L = IntSign.Int.MIN L := by
  round_eq
theorem int_ONE_eq (L : Nat) : IntSign.Int.ONE L = (List.replicate L 0#64).set 0 1#64 := by
  round_eq

/-! ## `impl Int`: every function as the composition the source writes -/

theorem msw_eq (L : Nat) (a : List (BitVec 64)) :
    IntSign.Int.most_significant_word L a = if L = 0 then 0#64 else a.getD (L - 1) 0#64 := by
  round_eq

theorem is_negative_eq (L : Nat) (a : List (BitVec 64)) :
    IntSign.Int.is_negative L a = Choice.from_word_msb (IntSign.Int.most_significant_word L a) := by
  round_eq

theorem is_positive_eq (L : Nat) (a : List (BitVec 64)) :
    IntSign.Int.is_positive L a =
      Choice.and (Choice.not (IntSign.Int.is_negative L a)) (Chains.Uint.is_nonzero L a) := by
  round_eq

theorem int_wrapping_neg_if_eq (L : Nat) (a : List (BitVec 64)) (c : BitVec 64) :
    IntSign.Int.wrapping_neg_if L a c = IntSign.Uint.wrapping_neg_if L a c := by
  round_eq

theorem abs_sign_eq (L : Nat) (a : List (BitVec 64)) :
    IntSign.Int.abs_sign L a =
      (IntSign.Uint.wrapping_neg_if L a (IntSign.Int.is_negative L a), IntSign.Int.is_negative L a) := by
  round_eq

theorem abs_eq (L : Nat) (a : List (BitVec 64)) : IntSign.Int.abs L a = (IntSign.Int.abs_sign L a).1 := by
  round_eq

theorem new_from_abs_sign_eq (L : Nat) (a : List (BitVec 64)) (c : BitVec 64) :
    IntSign.Int.new_from_abs_sign L a c =
      (IntSign.Uint.wrapping_neg_if L a c,
       Choice.or (Chains.Uint.lte L a (IntSign.Int.MAX L)) (Choice.and c (Chains.Uint.eq L a (IntSign.Int.MIN L)))) := by
  round_eq

theorem int_select_eq (L : Nat) (a b : List (BitVec 64)) (c : BitVec 64) :
    IntSign.Int.select L a b c = IntSign.Uint.select L a b c := by
  round_eq
theorem int_is_nonzero_eq (L : Nat) (a : List (BitVec 64)) :
    IntSign.Int.is_nonzero L a = Chains.Uint.is_nonzero L a := by
  round_eq
theorem int_eq_eq (L : Nat) (a b : List (BitVec 64)) : IntSign.Int.eq L a b = Chains.Uint.eq L a b := by
  round_eq
theorem is_min_eq (L : Nat) (a : List (BitVec 64)) :
    IntSign.Int.is_min L a = Chains.Uint.eq L a (IntSign.Int.MIN L) := by
  round_eq
theorem invert_msb_eq (L : Nat) (a : List (BitVec 64)) :
    IntSign.Int.invert_msb L a = IntSign.Uint.bitxor L a (IntSign.Int.SIGN_MASK L) := by
  round_eq
theorem int_lt_eq (L : Nat) (a b : List (BitVec 64)) :
    IntSign.Int.lt L a b = Chains.Uint.lt L (IntSign.Int.invert_msb L a) (IntSign.Int.invert_msb L b) := by
  round_eq
theorem int_gt_eq (L : Nat) (a b : List (BitVec 64)) :
    IntSign.Int.gt L a b = Chains.Uint.gt L (IntSign.Int.invert_msb L a) (IntSign.Int.invert_msb L b) := by
  round_eq

theorem overflowing_add_eq (L : Nat) (a b : List (BitVec 64)) :
    IntSign.Int.overflowing_add L a b =
      (Chains.Uint.wrapping_add L a b,
       Choice.and (Choice.eq (IntSign.Int.is_negative L a) (IntSign.Int.is_negative L b))
         (Choice.ne (IntSign.Int.is_negative L a) (IntSign.Int.is_negative L (Chains.Uint.wrapping_add L a b)))) := by
  round_eq
theorem checked_add_eq (L : Nat) (a b : List (BitVec 64)) :
    IntSign.Int.checked_add L a b =
      ((IntSign.Int.overflowing_add L a b).1, Choice.not (IntSign.Int.overflowing_add L a b).2) := by
  round_eq
theorem int_wrapping_add_eq (L : Nat) (a b : List (BitVec 64)) :
    IntSign.Int.wrapping_add L a b = Chains.Uint.wrapping_add L a b := by
  round_eq
theorem overflowing_neg_eq (L : Nat) (a : List (BitVec 64)) :
    IntSign.Int.overflowing_neg L a =
      IntSign.Int.overflowing_add L (IntSign.Uint.bitxor L a (IntSign.Uint.MAX L)) (IntSign.Int.ONE L) := by
  round_eq
theorem int_wrapping_neg_eq (L : Nat) (a : List (BitVec 64)) :
    IntSign.Int.wrapping_neg L a = (IntSign.Int.overflowing_neg L a).1 := by
  round_eq
theorem checked_neg_eq (L : Nat) (a : List (BitVec 64)) :
    IntSign.Int.checked_neg L a =
      ((IntSign.Int.overflowing_neg L a).1, Choice.not (IntSign.Int.overflowing_neg L a).2) := by
  round_eq

/-! ## the `ConstChoice` combinators of the source on words are the model's (CB/Model/Int.lean) -/

theorem selectWord_word_bridge (a b c : BitVec 64) :
    selectWord a.toNat b.toNat c.toNat = (a ^^^ (c &&& (a ^^^ b))).toNat := by
  simp only [selectWord, BitVec.toNat_xor, BitVec.toNat_and]

theorem fromWordMsb_bridge (x : BitVec 64) : SInt.fromWordMsb x.toNat = (Choice.from_word_msb x).toNat := by
  have e : Choice.from_word_msb x = Choice.from_word_lsb (x >>> 63) := by simp only [gen_defs] <;> bv_decide
  rw [e, ← fromWordLsb_bridge, SInt.fromWordMsb, BitVec.toNat_ushiftRight, Nat.shiftRight_eq_div_pow]
  rfl

theorem cand_bridge (a b : BitVec 64) : SInt.cand a.toNat b.toNat = (Choice.and a b).toNat := by
  have e : Choice.and a b = a &&& b := by simp only [gen_defs] <;> bv_decide
  rw [e, SInt.cand, BitVec.toNat_and]

theorem cor_bridge (a b : BitVec 64) : SInt.cor a.toNat b.toNat = (Choice.or a b).toNat := by
  have e : Choice.or a b = a ||| b := by simp only [gen_defs] <;> bv_decide
  rw [e, SInt.cor, BitVec.toNat_or]

theorem cne_bridge (a b : BitVec 64) : SInt.cne a.toNat b.toNat = (Choice.ne a b).toNat := by
  have e : Choice.ne a b = a ^^^ b := by simp only [gen_defs] <;> bv_decide
  rw [e, SInt.cne, SInt.cxor, BitVec.toNat_xor]

theorem ceq_bridge (a b : BitVec 64) : SInt.ceq a.toNat b.toNat = (Choice.eq a b).toNat := by
  have e : Choice.eq a b = ~~~(a ^^^ b) := by simp only [gen_defs] <;> bv_decide
  rw [e, SInt.ceq, SInt.cnot, SInt.cne, SInt.cxor, ← BitVec.toNat_xor, choiceNot, wnot_bv]

theorem cnot_bridge (a : BitVec 64) : SInt.cnot a.toNat = (Choice.not a).toNat := by
  rw [SInt.cnot, choiceNot_bridge]

end CB.GenBits
