/-
  CB.Lemmas.GenBitsSafeGcdLimbs — what ONE ROUND of each translated limb loop of `impl UnsatInt<LIMBS>`
  (src/modular/safegcd.rs; CB/Gen/SafeGcdLimbs.lean, regenerated from /repo's current source on every run by
  tools/translate.py) is, what the functions around the loops are, and what the word arithmetic of a round means on
  `Nat`s (the form in which the hand-written model CB/Model/SafeGcd.lean states it).

  This is the only file that looks at the generated TEXT of these functions: every `*_loop_succ` / `*_eq_loop` lemma
  unfolds the generated definition once and compares it with the round written here (`round_eq` of GenBitsChains.lean:
  identical sides close by `rfl`, otherwise the words are decided with `bv_decide`, the recursive call and `List.set`
  staying folded).  The 64×64→128-bit product of `mul` is written here exactly as the translator emits it, so it is
  compared syntactically (modulo `BitVec.mul_comm`) and never bit-blasted; its `Nat` meaning is derived from
  `BitVec.toNat_mul` / `toNat_add` with a no-overflow bound.
  The inductions over the limb count are in CB/Lemmas/GenSafeGcdLimbs.lean (no `bv_decide`).

  `bv_decide` file: its name matches `*Bits*`.
-/
import CB.Gen.SafeGcdLimbs
import CB.Lemmas.GenBitsChains
import CB.Lemmas.C10Unsat
import Std.Tactic.BVDecide
-- the fallback branches of `first | .. | ..` run only after a rewrite of the source
set_option linter.unusedTactic false
set_option linter.unreachableTactic false
namespace CB.GenBits
open CB.Gen CB.Gen.SafeGcdLimbs

/-- `UnsatInt::MASK = u64::MAX >> (64 - LIMB_BITS)`, in the form the translator emits it -/
@[gen_defs] abbrev MASK62 : BitVec 64 := (~~~0#64) >>> 2

theorem MASK62_toNat : MASK62.toNat = CB.SafeGcd.MASK := by decide
theorem MASK62_half_toNat : (MASK62 >>> 1).toNat = CB.SafeGcd.MASK >>> 1 := by decide

/-! ## `add` -/

theorem unsat_add_loop_zero (L : Nat) (a b : List (BitVec 64)) (i : Nat) (ret : List (BitVec 64)) (c : BitVec 64) :
    UnsatInt.add_loop1 L a b 0 i ret c = (ret, c) := by
  rw [UnsatInt.add_loop1]

theorem unsat_add_loop_succ (L : Nat) (a b : List (BitVec 64)) (n i : Nat) (ret : List (BitVec 64)) (c : BitVec 64)
    (h : i < L) :
    UnsatInt.add_loop1 L a b (n + 1) i ret c =
      UnsatInt.add_loop1 L a b n (i + 1)
        (ret.set i ((a.getD i 0#64 + b.getD i 0#64 + c) &&& MASK62))
        ((a.getD i 0#64 + b.getD i 0#64 + c) >>> 62) := by
  rw [UnsatInt.add_loop1, if_pos h] <;> round_eq

theorem unsat_add_eq_loop (L : Nat) (a b : List (BitVec 64)) :
    UnsatInt.add L a b = (UnsatInt.add_loop1 L a b L 0 (List.replicate L 0#64) 0#64).1 := by
  round_eq

/-! ## `neg` -/

theorem unsat_neg_loop_zero (L : Nat) (a : List (BitVec 64)) (i : Nat) (ret : List (BitVec 64)) (c : BitVec 64) :
    UnsatInt.neg_loop1 L a 0 i ret c = (ret, c) := by
  rw [UnsatInt.neg_loop1]

theorem unsat_neg_loop_succ (L : Nat) (a : List (BitVec 64)) (n i : Nat) (ret : List (BitVec 64)) (c : BitVec 64)
    (h : i < L) :
    UnsatInt.neg_loop1 L a (n + 1) i ret c =
      UnsatInt.neg_loop1 L a n (i + 1)
        (ret.set i (((a.getD i 0#64 ^^^ MASK62) + c) &&& MASK62))
        (((a.getD i 0#64 ^^^ MASK62) + c) >>> 62) := by
  rw [UnsatInt.neg_loop1, if_pos h] <;> round_eq

theorem unsat_neg_eq_loop (L : Nat) (a : List (BitVec 64)) :
    UnsatInt.neg L a = (UnsatInt.neg_loop1 L a L 0 (List.replicate L 0#64) 1#64).1 := by
  round_eq

/-! ## `mul` by an `i64` -/

/-- the double-width sum of one round of `mul`, exactly as emitted: `carry as u128 + ((x ^ mask) as u128) * (other as u128)`
    (`other: i64`, so `as u128` sign-extends) -/
@[gen_defs] abbrev mulSum (x o mask c : BitVec 64) : BitVec 128 :=
  c.setWidth 128 + ((x ^^^ mask).setWidth 128 * o.signExtend 128)

theorem unsat_mul_loop_zero (L : Nat) (a : List (BitVec 64)) (o mask : BitVec 64) (i : Nat) (ret : List (BitVec 64))
    (c : BitVec 64) : UnsatInt.mul_loop1 L a o mask 0 i ret c = (ret, c) := by
  rw [UnsatInt.mul_loop1]

theorem unsat_mul_loop_succ (L : Nat) (a : List (BitVec 64)) (o mask : BitVec 64) (n i : Nat) (ret : List (BitVec 64))
    (c : BitVec 64) (h : i < L) :
    UnsatInt.mul_loop1 L a o mask (n + 1) i ret c =
      UnsatInt.mul_loop1 L a o mask n (i + 1)
        (ret.set i ((mulSum (a.getD i 0#64) o mask c).setWidth 64 &&& MASK62))
        ((mulSum (a.getD i 0#64) o mask c >>> 62).setWidth 64) := by
  rw [UnsatInt.mul_loop1, if_pos h] <;> round_eq

/-- the function around the loop: the sign split `if other < 0 { (-other, -other as u64, MASK) } else { (other, 0, 0) }` -/
theorem unsat_mul_eq_loop (L : Nat) (a : List (BitVec 64)) (o : BitVec 64) :
    UnsatInt.mul L a o =
      (if BitVec.slt o 0#64 = true
        then UnsatInt.mul_loop1 L a (-o) MASK62 L 0 (List.replicate L 0#64) (-o)
        else UnsatInt.mul_loop1 L a o 0#64 L 0 (List.replicate L 0#64) 0#64).1 := by
  simp only [UnsatInt.mul]
  split <;> round_eq

/-! ## `shr`, `is_negative`, `lowest` -/

theorem unsat_shr_loop_zero (L : Nat) (a : List (BitVec 64)) (i : Nat) (ret : List (BitVec 64)) :
    UnsatInt.shr_loop1 L a 0 i ret = ret := by
  rw [UnsatInt.shr_loop1]

theorem unsat_shr_loop_succ (L : Nat) (a : List (BitVec 64)) (n i : Nat) (ret : List (BitVec 64)) (h : i < L - 1) :
    UnsatInt.shr_loop1 L a (n + 1) i ret = UnsatInt.shr_loop1 L a n (i + 1) (ret.set i (a.getD (i + 1) 0#64)) := by
  rw [UnsatInt.shr_loop1, if_pos h] <;> round_eq

theorem unsat_shr_loop_stop (L : Nat) (a : List (BitVec 64)) (n i : Nat) (ret : List (BitVec 64)) (h : ¬ i < L - 1) :
    UnsatInt.shr_loop1 L a n i ret = ret := by
  cases n with
  | zero => rw [UnsatInt.shr_loop1]
  | succ n => rw [UnsatInt.shr_loop1, if_neg h]

theorem unsat_is_negative_eq (L : Nat) (a : List (BitVec 64)) :
    UnsatInt.is_negative L a = ofBool (decide (MASK62 >>> 1 < a.getD (L - 1) 0#64)) := by
  rw [← from_u64_gt_meaning]
  round_eq

theorem unsat_shr_eq_loop (L : Nat) (a : List (BitVec 64)) :
    UnsatInt.shr L a =
      UnsatInt.shr_loop1 L a (L - 1) 0
        ((List.replicate L 0#64).set (L - 1)
          (Choice.select_u64 (UnsatInt.is_negative L a) ((List.replicate L 0#64).getD (L - 1) 0#64) MASK62)) := by
  simp only [UnsatInt.shr] <;> round_eq

theorem unsat_lowest_eq (L : Nat) (a : List (BitVec 64)) : UnsatInt.lowest L a = a.getD 0 0#64 := by
  round_eq

/-! ## `leading_zeros`, `bits` -/

theorem unsat_lz_loop_zero (L : Nat) (a : List (BitVec 64)) (count : BitVec 32) (fl : BitVec 64) :
    UnsatInt.leading_zeros_loop1 L a 0 count fl = (count, fl) := by
  rw [UnsatInt.leading_zeros_loop1]

/-- one round of the count-down loop `while i > 0 { i -= 1; .. }`: round `n + 1` reads limb `n` -/
theorem unsat_lz_loop_succ (L : Nat) (a : List (BitVec 64)) (n : Nat) (count : BitVec 32) (fl : BitVec 64) :
    UnsatInt.leading_zeros_loop1 L a (n + 1) count fl =
      UnsatInt.leading_zeros_loop1 L a n
        (count + Choice.if_true_u32 fl ((BitVec.clz (a.getD n 0#64)).setWidth 32 - 2#32))
        (Choice.and fl (Choice.not (Choice.from_u64_nonzero (a.getD n 0#64)))) := by
  rw [UnsatInt.leading_zeros_loop1] <;> round_eq

theorem unsat_lz_eq_loop (L : Nat) (a : List (BitVec 64)) :
    UnsatInt.leading_zeros L a = (UnsatInt.leading_zeros_loop1 L a L 0#32 (~~~0#64)).1 := by
  round_eq

theorem unsat_bits_eq (L : Nat) (a : List (BitVec 64)) :
    UnsatInt.bits L a = BitVec.ofNat 32 L * 62#32 - UnsatInt.leading_zeros L a := by
  simp only [UnsatInt.bits] <;> chain_congr 4

/-! ## `select`, `eq` -/

theorem unsat_select_loop_zero (L : Nat) (a b : List (BitVec 64)) (ch : BitVec 64) (i : Nat) (ret : List (BitVec 64)) :
    UnsatInt.select_loop1 L a b ch 0 i ret = ret := by
  rw [UnsatInt.select_loop1]

theorem unsat_select_loop_succ (L : Nat) (a b : List (BitVec 64)) (ch : BitVec 64) (n i : Nat) (ret : List (BitVec 64))
    (h : i < L) :
    UnsatInt.select_loop1 L a b ch (n + 1) i ret =
      UnsatInt.select_loop1 L a b ch n (i + 1) (ret.set i (Choice.select_u64 ch (a.getD i 0#64) (b.getD i 0#64))) := by
  rw [UnsatInt.select_loop1, if_pos h] <;> round_eq

theorem unsat_select_eq_loop (L : Nat) (a b : List (BitVec 64)) (ch : BitVec 64) :
    UnsatInt.select L a b ch = UnsatInt.select_loop1 L a b ch L 0 (List.replicate L 0#64) := by
  round_eq

theorem unsat_eq_loop_zero (L : Nat) (a b : List (BitVec 64)) (i : Nat) (ret : BitVec 64) :
    UnsatInt.eq_loop1 L a b 0 i ret = ret := by
  rw [UnsatInt.eq_loop1]

theorem unsat_eq_loop_succ (L : Nat) (a b : List (BitVec 64)) (n i : Nat) (ret : BitVec 64) (h : i < L) :
    UnsatInt.eq_loop1 L a b (n + 1) i ret =
      UnsatInt.eq_loop1 L a b n (i + 1) (Choice.and ret (Choice.from_u64_eq (a.getD i 0#64) (b.getD i 0#64))) := by
  rw [UnsatInt.eq_loop1, if_pos h] <;> round_eq

theorem unsat_eq_eq_loop (L : Nat) (a b : List (BitVec 64)) :
    UnsatInt.eq L a b = UnsatInt.eq_loop1 L a b L 0 (~~~0#64) := by
  round_eq

/-! ## `fg`, `de`: compositions -/

theorem fg_eq (L : Nat) (f g : List (BitVec 64)) (t : (BitVec 64 × BitVec 64) × (BitVec 64 × BitVec 64)) :
    fg L f g t =
      (UnsatInt.shr L (UnsatInt.add L (UnsatInt.mul L f t.1.1) (UnsatInt.mul L g t.1.2)),
       UnsatInt.shr L (UnsatInt.add L (UnsatInt.mul L f t.2.1) (UnsatInt.mul L g t.2.2))) := by
  simp only [fg] <;> chain_congr 8

/-- the sign bit of an operand of `de` as an `i64`: `x.is_negative().to_u8() as i64` -/
@[gen_defs] abbrev deSign (L : Nat) (x : List (BitVec 64)) : BitVec 64 := (Choice.to_u8 (UnsatInt.is_negative L x)).setWidth 64
/-- `md` / `me` before the correction: `t[r][0] * sign(d) + t[r][1] * sign(e)` (wrapping `i64`) -/
@[gen_defs] abbrev deM (a b dn en : BitVec 64) : BitVec 64 := a * dn + b * en
/-- `cd` / `ce`: `t[r][0].wrapping_mul(d.lowest() as i64).wrapping_add(t[r][1].wrapping_mul(e.lowest() as i64)) & mask` -/
@[gen_defs] abbrev deC (a b dl el : BitVec 64) : BitVec 64 := (a * dl + b * el) &&& MASK62
/-- the correction `md -= (inverse.wrapping_mul(cd).wrapping_add(md)) & mask` -/
@[gen_defs] abbrev deM1 (inv md cd : BitVec 64) : BitVec 64 := md - ((inv * cd + md) &&& MASK62)

theorem de_eq (L : Nat) (m : List (BitVec 64)) (inv : BitVec 64) (t : (BitVec 64 × BitVec 64) × (BitVec 64 × BitVec 64))
    (d e : List (BitVec 64)) :
    de L m inv t d e =
      (UnsatInt.shr L (UnsatInt.add L (UnsatInt.add L (UnsatInt.mul L d t.1.1) (UnsatInt.mul L e t.1.2))
        (UnsatInt.mul L m (deM1 inv (deM t.1.1 t.1.2 (deSign L d) (deSign L e))
          (deC t.1.1 t.1.2 (UnsatInt.lowest L d) (UnsatInt.lowest L e))))),
       UnsatInt.shr L (UnsatInt.add L (UnsatInt.add L (UnsatInt.mul L d t.2.1) (UnsatInt.mul L e t.2.2))
        (UnsatInt.mul L m (deM1 inv (deM t.2.1 t.2.2 (deSign L d) (deSign L e))
          (deC t.2.1 t.2.2 (UnsatInt.lowest L d) (UnsatInt.lowest L e)))))) := by
  simp only [de, deM1, deM, deC, deSign, MASK62] <;> chain_congr 8

/-! ## `divsteps`: the outer loop -/

theorem divsteps_loop_zero (L : Nat) (f0 : List (BitVec 64)) (inv m : BitVec 64) (i : Nat)
    (e g d f : List (BitVec 64)) (delta : BitVec 64) :
    divsteps_loop1 L f0 inv m 0 i e g d f delta = (e, g, d, f, delta) := by
  rw [divsteps_loop1]

/-- one trip of `while i < m { (delta, matrix) = jump(&f.0, &g.0, delta); (f, g) = fg(f, g, matrix);
    (d, e) = de(&f_0, inverse, matrix, d, e); i += 1; }` -/
theorem divsteps_loop_succ (L : Nat) (f0 : List (BitVec 64)) (inv m : BitVec 64) (n i : Nat)
    (e g d f : List (BitVec 64)) (delta : BitVec 64) (h : i < m.toNat) :
    divsteps_loop1 L f0 inv m (n + 1) i e g d f delta =
      divsteps_loop1 L f0 inv m n (i + 1)
        (de L f0 inv (Gen.SafeGcd.jump f g delta).2 d e).2 (fg L f g (Gen.SafeGcd.jump f g delta).2).2
        (de L f0 inv (Gen.SafeGcd.jump f g delta).2 d e).1 (fg L f g (Gen.SafeGcd.jump f g delta).2).1
        (Gen.SafeGcd.jump f g delta).1 := by
  rw [divsteps_loop1, if_pos h] <;> chain_congr 8

theorem divsteps_eq_loop (L : Nat) (e f0 g : List (BitVec 64)) (inv : BitVec 64) :
    divsteps L e f0 g inv =
      ((divsteps_loop1 L f0 inv (Gen.SafeGcd.iterations (UnsatInt.bits L f0) (UnsatInt.bits L g))
          (Gen.SafeGcd.iterations (UnsatInt.bits L f0) (UnsatInt.bits L g)).toNat 0 e g (List.replicate L 0#64) f0 1#64).2.2.1,
       (divsteps_loop1 L f0 inv (Gen.SafeGcd.iterations (UnsatInt.bits L f0) (UnsatInt.bits L g))
          (Gen.SafeGcd.iterations (UnsatInt.bits L f0) (UnsatInt.bits L g)).toNat 0 e g (List.replicate L 0#64) f0 1#64).2.2.2.1) := by
  simp only [divsteps] <;> chain_congr 8

/-! ## `SafeGcdInverter::norm` -/

/-- `norm(&self, value, negate)`: `&self` is the tuple of the fields (modulus, adjuster, inverse); three conditional
    corrections -/
theorem inverter_norm_eq (L : Nat) (s : List (BitVec 64) × List (BitVec 64) × BitVec 64) (v : List (BitVec 64))
    (ng : BitVec 64) :
    Inverter.norm L s v ng =
      UnsatInt.select L
        (UnsatInt.select L (UnsatInt.select L v (UnsatInt.add L v s.1) (UnsatInt.is_negative L v))
          (UnsatInt.neg L (UnsatInt.select L v (UnsatInt.add L v s.1) (UnsatInt.is_negative L v))) ng)
        (UnsatInt.add L
          (UnsatInt.select L (UnsatInt.select L v (UnsatInt.add L v s.1) (UnsatInt.is_negative L v))
            (UnsatInt.neg L (UnsatInt.select L v (UnsatInt.add L v s.1) (UnsatInt.is_negative L v))) ng) s.1)
        (UnsatInt.is_negative L
          (UnsatInt.select L (UnsatInt.select L v (UnsatInt.add L v s.1) (UnsatInt.is_negative L v))
            (UnsatInt.neg L (UnsatInt.select L v (UnsatInt.add L v s.1) (UnsatInt.is_negative L v))) ng)) := by
  simp only [Inverter.norm] <;> chain_congr 8

/-! ## the word arithmetic of a round on `Nat`s -/

open CB.SafeGcd in
/-- one word of `add`: for 62-bit operands and a carry below `2^62` the `u64` sum does not wrap; the limb is the sum
    `& MASK`, the carry the sum `>> 62` (again below `2^62`) -/
theorem unsat_add_word (x y c : BitVec 64) (hx : x.toNat < Q) (hy : y.toNat < Q) (hc : c.toNat < Q) :
    ((x + y + c) &&& MASK62).toNat = (x.toNat + y.toNat + c.toNat) &&& MASK ∧
    ((x + y + c) >>> 62).toNat = (x.toNat + y.toNat + c.toNat) >>> LB ∧
    ((x + y + c) >>> 62).toNat < Q := by
  rw [Q_def] at hx hy hc
  have hs : (x + y + c).toNat = x.toNat + y.toNat + c.toNat := by
    rw [BitVec.toNat_add, BitVec.toNat_add]; omega
  have e1 : ((x + y + c) &&& MASK62).toNat = (x.toNat + y.toNat + c.toNat) &&& MASK := by
    rw [BitVec.toNat_and, hs, MASK62_toNat]
  have e2 : ((x + y + c) >>> 62).toNat = (x.toNat + y.toNat + c.toNat) >>> LB := by
    rw [BitVec.toNat_ushiftRight, hs, LB_eq]
  refine ⟨e1, e2, ?_⟩
  rw [e2, shr_LB, Q_def]
  omega

open CB.SafeGcd in
/-- one word of `neg` -/
theorem unsat_neg_word (x c : BitVec 64) (hx : x.toNat < Q) (hc : c.toNat < Q) :
    (((x ^^^ MASK62) + c) &&& MASK62).toNat = ((x.toNat ^^^ MASK) + c.toNat) &&& MASK ∧
    (((x ^^^ MASK62) + c) >>> 62).toNat = ((x.toNat ^^^ MASK) + c.toNat) >>> LB ∧
    (((x ^^^ MASK62) + c) >>> 62).toNat < Q := by
  have hxm : (x ^^^ MASK62).toNat = x.toNat ^^^ MASK := by rw [BitVec.toNat_xor, MASK62_toNat]
  have hxv := xor_mask62 hx
  rw [Q_def] at hx hc hxv
  have hs : ((x ^^^ MASK62) + c).toNat = (x.toNat ^^^ MASK) + c.toNat := by
    rw [BitVec.toNat_add, hxm, hxv]; omega
  have e1 : (((x ^^^ MASK62) + c) &&& MASK62).toNat = ((x.toNat ^^^ MASK) + c.toNat) &&& MASK := by
    rw [BitVec.toNat_and, hs, MASK62_toNat]
  have e2 : (((x ^^^ MASK62) + c) >>> 62).toNat = ((x.toNat ^^^ MASK) + c.toNat) >>> LB := by
    rw [BitVec.toNat_ushiftRight, hs, LB_eq]
  refine ⟨e1, e2, ?_⟩
  rw [e2, shr_LB, Q_def, hxv]
  omega

open CB.SafeGcd in
/-- one word of `mul`: for a non-negative short multiplicand (`other` after the sign split) the `u128` sum does not wrap -/
theorem unsat_mul_word (x o mask c : BitVec 64) (ho : o.toNat < 2 ^ 63) :
    ((mulSum x o mask c).setWidth 64 &&& MASK62).toNat
      = ((c.toNat + (x.toNat ^^^ mask.toNat) * o.toNat) % U64) &&& MASK ∧
    ((mulSum x o mask c >>> 62).setWidth 64).toNat
      = ((c.toNat + (x.toNat ^^^ mask.toNat) * o.toNat) >>> LB) % U64 := by
  have hmsb : o.msb = false := by
    rw [BitVec.msb_eq_decide]; simp only [decide_eq_false_iff_not, not_le]; simpa using ho
  have hse : (o.signExtend 128).toNat = o.toNat := by
    rw [BitVec.signExtend_eq_setWidth_of_msb_false hmsb, BitVec.toNat_setWidth]
    exact Nat.mod_eq_of_lt (by omega)
  have hxl : (x.toNat ^^^ mask.toNat) < 2 ^ 64 := Nat.xor_lt_two_pow x.isLt mask.isLt
  have hcl := c.isLt
  have hprod : (x.toNat ^^^ mask.toNat) * o.toNat < 2 ^ 64 * 2 ^ 63 :=
    Nat.mul_lt_mul'' hxl ho
  have hs : (mulSum x o mask c).toNat = c.toNat + (x.toNat ^^^ mask.toNat) * o.toNat := by
    simp only [mulSum]
    rw [BitVec.toNat_add, BitVec.toNat_mul, hse, BitVec.toNat_setWidth, BitVec.toNat_setWidth, BitVec.toNat_xor,
      Nat.mod_eq_of_lt (by omega : c.toNat < 2 ^ 128), Nat.mod_eq_of_lt (by omega : (x.toNat ^^^ mask.toNat) < 2 ^ 128)]
    rw [Nat.mod_eq_of_lt (a := (x.toNat ^^^ mask.toNat) * o.toNat) (by omega)]
    exact Nat.mod_eq_of_lt (by omega)
  constructor
  · rw [BitVec.toNat_and, BitVec.toNat_setWidth, hs, MASK62_toNat]; rfl
  · rw [BitVec.toNat_setWidth, BitVec.toNat_ushiftRight, hs, LB_eq]; rfl

end CB.GenBits
