/-
  CB.Lemmas.GenShiftsLadder — the hand-written model of `Uint::select`, of the constant-time shift ladder
  (`shlLadder`/`overflowingShl`, `shrLadder`/`overflowingShr`) and of the thin wrappers (`ushl`, `ushlVartime`,
  `wrappingShlU`, `wrappingShlVartimeU`, .. of CB/Model/Shift.lean — what T05.2 of CB/Props/C05.lean is proved about) IS the
  translated source (CB/Gen/Shifts.lean), for EVERY limb count `1 ≤ LIMBS`, `64·LIMBS < 2^32`, and EVERY shift amount.

  The model carries panics as an outer `Option` (`expect` on a false mask = `none`); the translation of `.expect(msg)` is the
  value component.  The bridges have the form `model = some (translated)`: the assertion of every `expect` reached holds
  (each ladder step `1 << i`, `i < shift_bits`, is a legal shift: `step_lt_bits` of C05Ladder.lean) AND the values agree.
  Induction over the rounds of the translated `while i < shift_bits` loop; one round from CB/Lemmas/GenBitsShifts.lean, the
  inner variable-time shift from CB/Lemmas/GenShiftsVar.lean.  No `bv_decide` in this file.
-/
import CB.Lemmas.GenShiftsVar
namespace CB.GenShifts
open CB CB.Shift CB.Gen CB.Gen.Shifts CB.GenBits

/-! ## `Uint::select` -/

theorem uselect_cons (x y : Nat) (xs ys : List Nat) (c : Nat) :
    uselect (x :: xs) (y :: ys) c = selectWord x y c :: uselect xs ys c := by
  rw [uselect]

theorem uselect_len (a b : List Nat) (c : Nat) (h : a.length = b.length) : (uselect a b c).length = a.length := by
  induction a generalizing b with
  | nil => cases b <;> simp_all [uselect]
  | cons x xs ih =>
    cases b with
    | nil => simp at h
    | cons y ys => simp only [uselect_cons, List.length_cons, ih ys (by simpa using h)]

theorem selectWord_bv (a b c : BitVec 64) : selectWord a.toNat b.toNat c.toNat = (a ^^^ (c &&& (a ^^^ b))).toNat := by
  simp only [selectWord, BitVec.toNat_xor, BitVec.toNat_and]

theorem select_loop_bridge (L : Nat) (a b : List (BitVec 64)) (ha : a.length = L) (hb : b.length = L) (c : BitVec 64) :
    ∀ (n i : Nat) (limbs : List (BitVec 64)), i + n = L → limbs.length = L →
      nats (Uint.select_loop1 L a b c n i limbs) =
        nats (limbs.take i) ++ uselect (nats (a.drop i)) (nats (b.drop i)) c.toNat := by
  intro n
  induction n with
  | zero =>
    intro i limbs hi hl
    rw [select_loop_zero, List.drop_of_length_le (by omega), List.drop_of_length_le (by omega),
      List.take_of_length_le (by omega)]
    simp [nats, uselect]
  | succ n ih =>
    intro i limbs hi hl
    have hi' : i < L := by omega
    rw [select_loop_succ L a b c n i limbs hi', ih (i + 1) _ (by omega) (by simpa using hl),
      take_set_succ limbs i _ (by omega), drop_eq_getD_cons a i (by omega), drop_eq_getD_cons b i (by omega)]
    simp only [nats, List.map_append, List.map_cons, List.map_nil, List.append_assoc, List.cons_append, List.nil_append,
      uselect_cons, selectWord_bv]

/-- **`Uint::select`**: for every limb count and EVERY choice word (mask or not) -/
theorem uselect_bridge (a b : List (BitVec 64)) (c : BitVec 64) (h : a.length = b.length) :
    uselect (nats a) (nats b) c.toNat = nats (Uint.select a.length a b c) := by
  rw [select_eq_loop, select_loop_bridge a.length a b rfl h.symm c a.length 0 _ (by omega) (by simp)]
  simp [nats]

theorem select_length (a b : List (BitVec 64)) (c : BitVec 64) (h : a.length = b.length) :
    (Uint.select a.length a b c).length = a.length := by
  have e := congrArg List.length (uselect_bridge a b c h)
  rw [uselect_len _ _ _ (by rw [nats_length, nats_length, h]), nats_length, nats_length] at e
  exact e.symm

/-! ## lengths of the variable-time shifts (from the model) -/

theorem shlv_length (a : List (BitVec 64)) (s : BitVec 32) (hL : 64 * a.length < 2 ^ 32) :
    (Uint.overflowing_shl_vartime a.length a s).1.length = a.length := by
  have h := (shlV_val (nats_WF a) s.toNat).2.1
  rw [overflowingShlVartime_bridge a s hL, nats_length] at h
  simpa [nats] using h

theorem shrv_length (a : List (BitVec 64)) (s : BitVec 32) (hL : 64 * a.length < 2 ^ 32) :
    (Uint.overflowing_shr_vartime a.length a s).1.length = a.length := by
  have h := (shrV_val (nats_WF a) s.toNat).2.1
  rw [overflowingShrVartime_bridge a s hL, nats_length] at h
  simpa [nats] using h

/-! ## word facts of a ladder round -/

theorem shiftBits_le (bits : Nat) : shiftBits bits ≤ 32 := by
  unfold shiftBits; omega

theorem step_toNat (i : Nat) (hi : i < 32) : ((1#32 : BitVec 32) <<< (i % 32)).toNat = 2 ^ i := by
  rw [BitVec.toNat_shiftLeft, Nat.mod_eq_of_lt hi, Nat.shiftLeft_eq]
  have e : (1#32 : BitVec 32).toNat = 1 := rfl
  rw [e, Nat.one_mul, Nat.mod_eq_of_lt (Nat.pow_lt_pow_right (by decide) hi)]

theorem bit_toNat (sh : BitVec 32) (i : Nat) (hi : i < 32) :
    ((sh >>> (i % 32)) &&& 1#32).toNat = (sh.toNat / 2 ^ i) % 2 := by
  rw [BitVec.toNat_and, BitVec.toNat_ushiftRight, Nat.mod_eq_of_lt hi, Nat.shiftRight_eq_div_pow]
  have e : (1#32 : BitVec 32).toNat = 1 := rfl
  rw [e, Nat.and_one_is_mod]

theorem ofNat_bits_toNat (L : Nat) (hL : 64 * L < 2 ^ 32) : (BitVec.ofNat 32 (64 * L)).toNat = 64 * L := by
  rw [BitVec.toNat_ofNat, Nat.mod_eq_of_lt hL]

theorem expect_some {α : Type} {o : α × Nat} (h : o.2 = WMAX) : expect o = some o.1 := by
  simp [expect, h]

theorem shiftBits_bridge (L : Nat) (h0 : 0 < L) (hL : 64 * L < 2 ^ 32) :
    (32#32 - BitVec.clz (BitVec.ofNat 32 (64 * L) - 1#32)).toNat = shiftBits (64 * L) := by
  have e1 : (BitVec.ofNat 32 (64 * L) - 1#32).toNat = 64 * L - 1 := by
    have e : (1#32 : BitVec 32).toNat = 1 := rfl
    rw [BitVec.toNat_sub, ofNat_bits_toNat L hL, e]; omega
  have hc : (BitVec.clz (BitVec.ofNat 32 (64 * L) - 1#32)).toNat ≤ 32 := by
    have := BitVec.clz_le (x := BitVec.ofNat 32 (64 * L) - 1#32); simpa [BitVec.le_def] using this
  have e32 : (32#32 : BitVec 32).toNat = 32 := rfl
  rw [BitVec.toNat_sub, e32, shiftBits, ← e1, u32lz_bv]
  omega

/-! ## the ladders -/

theorem shlLadder_bridge (L : Nat) (h0 : 0 < L) (hL : 64 * L < 2 ^ 32) (sh sb : BitVec 32)
    (hsb : sb.toNat = shiftBits (64 * L)) :
    ∀ (k i : Nat) (r : List (BitVec 64)), i + k = sb.toNat → r.length = L →
      shlLadder sh.toNat k i (nats r) = some (nats (Uint.overflowing_shl_loop1 L sh sb k i r)) ∧
      (Uint.overflowing_shl_loop1 L sh sb k i r).length = L := by
  intro k
  induction k with
  | zero =>
    intro i r _ hl
    rw [oshl_loop_zero]
    exact ⟨rfl, hl⟩
  | succ k ih =>
    intro i r hi hl
    have hisb : i < sb.toNat := by omega
    have hi32 : i < 32 := by have := shiftBits_le (64 * L); omega
    have hstep : 2 ^ i < 64 * L :=
      step_lt_bits (by omega) (by simp only [TWO32_def]; omega) (by rw [← hsb]; exact hisb)
    subst hl
    have hb := overflowingShlVartime_bridge r (1#32 <<< (i % 32)) hL
    rw [step_toNat i hi32] at hb
    have hm : (overflowingShlVartime (nats r) (2 ^ i)).2 = WMAX :=
      (overflowingShlVartime_spec (nats_WF r) (by rw [nats_length]; exact hstep)).1
    have hexp : expect (overflowingShlVartime (nats r) (2 ^ i)) =
        some (nats (Uint.overflowing_shl_vartime r.length r (1#32 <<< (i % 32))).1) := by
      rw [expect_some hm, hb]
    have hvl := shlv_length r (1#32 <<< (i % 32)) hL
    have hsel := uselect_bridge r (Uint.overflowing_shl_vartime r.length r (1#32 <<< (i % 32))).1
      (Choice.from_u32_lsb ((sh >>> (i % 32)) &&& 1#32)) hvl.symm
    rw [← fromU32Lsb_bridge, bit_toNat sh i hi32] at hsel
    have hsl := select_length r (Uint.overflowing_shl_vartime r.length r (1#32 <<< (i % 32))).1
      (Choice.from_u32_lsb ((sh >>> (i % 32)) &&& 1#32)) hvl.symm
    rw [oshl_loop_succ r.length sh sb k i r hisb, shlLadder, hexp]
    simp only
    rw [hsel]
    exact ih (i + 1) _ (by omega) hsl

theorem shrLadder_bridge (L : Nat) (h0 : 0 < L) (hL : 64 * L < 2 ^ 32) (sh sb : BitVec 32)
    (hsb : sb.toNat = shiftBits (64 * L)) :
    ∀ (k i : Nat) (r : List (BitVec 64)), i + k = sb.toNat → r.length = L →
      shrLadder sh.toNat k i (nats r) = some (nats (Uint.overflowing_shr_loop1 L sh sb k i r)) ∧
      (Uint.overflowing_shr_loop1 L sh sb k i r).length = L := by
  intro k
  induction k with
  | zero =>
    intro i r _ hl
    rw [oshr_loop_zero]
    exact ⟨rfl, hl⟩
  | succ k ih =>
    intro i r hi hl
    have hisb : i < sb.toNat := by omega
    have hi32 : i < 32 := by have := shiftBits_le (64 * L); omega
    have hstep : 2 ^ i < 64 * L :=
      step_lt_bits (by omega) (by simp only [TWO32_def]; omega) (by rw [← hsb]; exact hisb)
    subst hl
    have hb := overflowingShrVartime_bridge r (1#32 <<< (i % 32)) hL
    rw [step_toNat i hi32] at hb
    have hm : (overflowingShrVartime (nats r) (2 ^ i)).2 = WMAX :=
      (overflowingShrVartime_spec (nats_WF r) (by rw [nats_length]; exact hstep)).1
    have hexp : expect (overflowingShrVartime (nats r) (2 ^ i)) =
        some (nats (Uint.overflowing_shr_vartime r.length r (1#32 <<< (i % 32))).1) := by
      rw [expect_some hm, hb]
    have hvl := shrv_length r (1#32 <<< (i % 32)) hL
    have hsel := uselect_bridge r (Uint.overflowing_shr_vartime r.length r (1#32 <<< (i % 32))).1
      (Choice.from_u32_lsb ((sh >>> (i % 32)) &&& 1#32)) hvl.symm
    rw [← fromU32Lsb_bridge, bit_toNat sh i hi32] at hsel
    have hsl := select_length r (Uint.overflowing_shr_vartime r.length r (1#32 <<< (i % 32))).1
      (Choice.from_u32_lsb ((sh >>> (i % 32)) &&& 1#32)) hvl.symm
    rw [oshr_loop_succ r.length sh sb k i r hisb, shrLadder, hexp]
    simp only
    rw [hsel]
    exact ih (i + 1) _ (by omega) hsl

/-- **`Uint::overflowing_shl`** (the constant-time ladder): the model does not panic and is the translated source — value
    limbs and `is_some` mask — for every limb count `≥ 1` and every shift -/
theorem overflowingShl_bridge (a : List (BitVec 64)) (hne : a ≠ []) (s : BitVec 32) (hL : 64 * a.length < 2 ^ 32) :
    overflowingShl (nats a) s.toNat =
      some (nats (Uint.overflowing_shl a.length a s).1, (Uint.overflowing_shl a.length a s).2.toNat) := by
  have h0 : 0 < a.length := List.length_pos_iff.mpr hne
  have eB := ofNat_bits_toNat a.length hL
  have ⟨hlad, hlen⟩ := shlLadder_bridge a.length h0 hL (s % BitVec.ofNat 32 (64 * a.length))
    (32#32 - BitVec.clz (BitVec.ofNat 32 (64 * a.length) - 1#32)) (shiftBits_bridge a.length h0 hL)
    (32#32 - BitVec.clz (BitVec.ofNat 32 (64 * a.length) - 1#32)).toNat 0 a (by omega) rfl
  rw [BitVec.toNat_umod, eB] at hlad
  rw [oshl_eq, overflowingShl]
  simp only [nats_length]
  rw [← shiftBits_bridge a.length h0 hL, hlad]
  simp only
  have hsel := uselect_bridge _ (List.replicate a.length 0#64)
    (~~~(Choice.from_u32_lt s (BitVec.ofNat 32 (64 * a.length)))) (by rw [hlen]; simp)
  rw [hlen, nats_replicate_zero, ← choiceNot_bridge', ← fromU32Lt_bridge, eB] at hsel
  rw [hsel]
  congr 2
  rw [← fromU32Lt_bridge, eB, fromU32Lt_spec s.isLt (by simp only [TWO32_def]; omega), choiceNot_mask, choiceNot_mask,
    Bool.not_not]

theorem overflowingShr_bridge (a : List (BitVec 64)) (hne : a ≠ []) (s : BitVec 32) (hL : 64 * a.length < 2 ^ 32) :
    overflowingShr (nats a) s.toNat =
      some (nats (Uint.overflowing_shr a.length a s).1, (Uint.overflowing_shr a.length a s).2.toNat) := by
  have h0 : 0 < a.length := List.length_pos_iff.mpr hne
  have eB := ofNat_bits_toNat a.length hL
  have ⟨hlad, hlen⟩ := shrLadder_bridge a.length h0 hL (s % BitVec.ofNat 32 (64 * a.length))
    (32#32 - BitVec.clz (BitVec.ofNat 32 (64 * a.length) - 1#32)) (shiftBits_bridge a.length h0 hL)
    (32#32 - BitVec.clz (BitVec.ofNat 32 (64 * a.length) - 1#32)).toNat 0 a (by omega) rfl
  rw [BitVec.toNat_umod, eB] at hlad
  rw [oshr_eq, overflowingShr]
  simp only [nats_length]
  rw [← shiftBits_bridge a.length h0 hL, hlad]
  simp only
  have hsel := uselect_bridge _ (List.replicate a.length 0#64)
    (~~~(Choice.from_u32_lt s (BitVec.ofNat 32 (64 * a.length)))) (by rw [hlen]; simp)
  rw [hlen, nats_replicate_zero, ← choiceNot_bridge', ← fromU32Lt_bridge, eB] at hsel
  rw [hsel]
  congr 2
  rw [← fromU32Lt_bridge, eB, fromU32Lt_spec s.isLt (by simp only [TWO32_def]; omega), choiceNot_mask, choiceNot_mask,
    Bool.not_not]

/-! ## the thin wrappers -/

/-- **`wrapping_shl_vartime` / `wrapping_shr_vartime`** (`unwrap_or(ZERO)` = `Uint::select(&ZERO, &value, is_some)`) -/
theorem wrappingShlVartimeU_bridge (a : List (BitVec 64)) (s : BitVec 32) (hL : 64 * a.length < 2 ^ 32) :
    wrappingShlVartimeU (nats a) s.toNat = nats (Uint.wrapping_shl_vartime a.length a s) := by
  have hvl := shlv_length a s hL
  have hsel := uselect_bridge (List.replicate a.length 0#64) (Uint.overflowing_shl_vartime a.length a s).1
    (Uint.overflowing_shl_vartime a.length a s).2 (by rw [hvl]; simp)
  rw [List.length_replicate, nats_replicate_zero] at hsel
  rw [wrapping_shl_vartime_eq, wrappingShlVartimeU, unwrapOr, overflowingShlVartime_bridge a s hL, nats_length, hsel]

theorem wrappingShrVartimeU_bridge (a : List (BitVec 64)) (s : BitVec 32) (hL : 64 * a.length < 2 ^ 32) :
    wrappingShrVartimeU (nats a) s.toNat = nats (Uint.wrapping_shr_vartime a.length a s) := by
  have hvl := shrv_length a s hL
  have hsel := uselect_bridge (List.replicate a.length 0#64) (Uint.overflowing_shr_vartime a.length a s).1
    (Uint.overflowing_shr_vartime a.length a s).2 (by rw [hvl]; simp)
  rw [List.length_replicate, nats_replicate_zero] at hsel
  rw [wrapping_shr_vartime_eq, wrappingShrVartimeU, unwrapOr, overflowingShrVartime_bridge a s hL, nats_length, hsel]

/-! ## consequences on the translated functions themselves -/

theorem nats_injective {x y : List (BitVec 64)} (h : nats x = nats y) : x = y := by
  induction x generalizing y with
  | nil => cases y with
    | nil => rfl
    | cons _ _ => simp [nats] at h
  | cons u us ih => cases y with
    | nil => simp [nats] at h
    | cons v vs =>
      simp only [nats, List.map_cons, List.cons.injEq] at h
      rw [BitVec.eq_of_toNat_eq h.1, ih h.2]

/-- the TRANSLATED ladder computes exactly what the TRANSLATED variable-time shift computes (value limbs and mask): T05.2b
    transported through the bridges -/
theorem oshl_eq_shlv (a : List (BitVec 64)) (hne : a ≠ []) (s : BitVec 32) (hL : 64 * a.length < 2 ^ 32) :
    Uint.overflowing_shl a.length a s = Uint.overflowing_shl_vartime a.length a s := by
  have hne' : nats a ≠ [] := by cases a with
    | nil => exact absurd rfl hne
    | cons _ _ => simp [nats]
  have h := overflowingShl_eq_vartime (nats_WF a) hne' (by rw [nats_length]; simpa [TWO32_def] using hL) s.isLt
  rw [overflowingShl_bridge a hne s hL, overflowingShlVartime_bridge a s hL] at h
  have h' := Option.some.inj h
  exact Prod.ext (nats_injective (congrArg Prod.fst h')) (BitVec.eq_of_toNat_eq (congrArg Prod.snd h'))

theorem oshr_eq_shrv (a : List (BitVec 64)) (hne : a ≠ []) (s : BitVec 32) (hL : 64 * a.length < 2 ^ 32) :
    Uint.overflowing_shr a.length a s = Uint.overflowing_shr_vartime a.length a s := by
  have hne' : nats a ≠ [] := by cases a with
    | nil => exact absurd rfl hne
    | cons _ _ => simp [nats]
  have h := overflowingShr_eq_vartime (nats_WF a) hne' (by rw [nats_length]; simpa [TWO32_def] using hL) s.isLt
  rw [overflowingShr_bridge a hne s hL, overflowingShrVartime_bridge a s hL] at h
  have h' := Option.some.inj h
  exact Prod.ext (nats_injective (congrArg Prod.fst h')) (BitVec.eq_of_toNat_eq (congrArg Prod.snd h'))

/-- **`wrapping_shl` / `wrapping_shr`** (constant time): the model does not panic and is the translated source -/
theorem wrappingShlU_bridge (a : List (BitVec 64)) (hne : a ≠ []) (s : BitVec 32) (hL : 64 * a.length < 2 ^ 32) :
    wrappingShlU (nats a) s.toNat = some (nats (Uint.wrapping_shl a.length a s)) := by
  rw [wrappingShlU, overflowingShl_bridge a hne s hL, Option.map_some, unwrapOr, nats_length, wrapping_shl_eq,
    oshl_eq_shlv a hne s hL, ← wrapping_shl_vartime_eq, ← wrappingShlVartimeU_bridge a s hL, wrappingShlVartimeU, unwrapOr,
    overflowingShlVartime_bridge a s hL, nats_length]

theorem wrappingShrU_bridge (a : List (BitVec 64)) (hne : a ≠ []) (s : BitVec 32) (hL : 64 * a.length < 2 ^ 32) :
    wrappingShrU (nats a) s.toNat = some (nats (Uint.wrapping_shr a.length a s)) := by
  rw [wrappingShrU, overflowingShr_bridge a hne s hL, Option.map_some, unwrapOr, nats_length, wrapping_shr_eq,
    oshr_eq_shrv a hne s hL, ← wrapping_shr_vartime_eq, ← wrappingShrVartimeU_bridge a s hL, wrappingShrVartimeU, unwrapOr,
    overflowingShrVartime_bridge a s hL, nats_length]

end CB.GenShifts
