/-
  CB.Lemmas.C01Leak — trace calculus for the leakage monad `CB.Leak.L` (property C01).

  The workhorse is `forN_tr_congr`: two runs of a public-trip-count loop, with DIFFERENT bodies (closures
  over different secrets) and different states, have the same trace as soon as the bodies' traces agree
  pointwise for all states.  Every algorithm `f` of `CB/Model/LeakOps.lean` gets
      fT pub      := (f pub <all secrets zero>).tr                 -- its public trace
      f_tr        :  (f pub secrets).tr = fT pub                    -- for ALL secrets
  which is a rewrite rule usable inside the callers of `f`.
-/
import CB.Model.LeakOps
namespace CB.Leak

@[simp] theorem pure_tr {α : Type} (a : α) : (pure a : L α).tr = [] := rfl
@[simp] theorem pure_val {α : Type} (a : α) : (pure a : L α).val = a := rfl
@[simp] theorem bind_tr {α β : Type} (m : L α) (k : α → L β) : (m >>= k).tr = m.tr ++ (k m.val).tr := rfl
@[simp] theorem bind_val {α β : Type} (m : L α) (k : α → L β) : (m >>= k).val = (k m.val).val := rfl
@[simp] theorem emit_tr (e : Event) : (emit e).tr = [e] := rfl
@[simp] theorem pubBranch_tr (v : Nat) : (pubBranch v).tr = [.pubBranch v] := rfl
@[simp] theorem pubIndex_tr (i : Nat) : (pubIndex i).tr = [.pubIndex i] := rfl

theorem forN_succ {σ : Type} (n : Nat) (b : Nat → σ → L σ) (s : σ) :
    forN (n + 1) b s = (forN n b s >>= b n) := rfl

/-- Loops with pointwise-equal body traces have equal traces, whatever the bodies compute. -/
theorem forN_tr_congr {σ σ' : Type} (b : Nat → σ → L σ) (b' : Nat → σ' → L σ')
    (h : ∀ i s s', (b i s).tr = (b' i s').tr) :
    ∀ n s s', (forN n b s).tr = (forN n b' s').tr := by
  intro n
  induction n with
  | zero => intro s s'; rfl
  | succ n ih =>
    intro s s'
    rw [forN_succ, forN_succ, bind_tr, bind_tr, ih s s', h n]

theorem forRange_tr_congr {σ σ' : Type} (lo hi : Nat) (b : Nat → σ → L σ) (b' : Nat → σ' → L σ')
    (h : ∀ i s s', (b i s).tr = (b' i s').tr) (s : σ) (s' : σ') :
    (forRange lo hi b s).tr = (forRange lo hi b' s').tr :=
  forN_tr_congr _ _ (fun i s s' => h (lo + i) s s') _ s s'

theorem forDown_tr_congr {σ σ' : Type} (n : Nat) (b : Nat → σ → L σ) (b' : Nat → σ' → L σ')
    (h : ∀ i s s', (b i s).tr = (b' i s').tr) (s : σ) (s' : σ') :
    (forDown n b s).tr = (forDown n b' s').tr :=
  forN_tr_congr _ _ (fun i s s' => h (n - 1 - i) s s') _ s s'


@[simp] theorem pubCond_tr (c : Bool) : (pubCond c).tr = [.pubBranch c.toNat] := rfl
theorem ite_tr {α : Type} (c : Prop) [Decidable c] (a b : L α) : (if c then a else b).tr = if c then a.tr else b.tr := by
  split <;> rfl
theorem bite_tr {α : Type} (c : Bool) (a b : L α) : (if c then a else b).tr = if c then a.tr else b.tr := by
  cases c <;> rfl

/-- normal form of traces of straight-line code -/
macro "leak_simp" : tactic =>
  `(tactic| simp only [bind_tr, pure_tr, emit_tr, pubBranch_tr, pubIndex_tr, pubCond_tr, ite_tr, bite_tr,
      List.append_nil, List.nil_append, List.append_assoc, List.cons_append])

/-- a loop whose body trace does not depend on the secrets: close the goal `(forN …).tr = (forN …).tr` -/
macro "leak_loop" : tactic =>
  `(tactic| (first | apply forN_tr_congr | apply forRange_tr_congr | apply forDown_tr_congr) <;> (intro i s s'; leak_simp))

open Sec

/-! ### limb -/
@[simp] theorem limbEq_tr (a b : Sec) : (limbEq a b).tr = [] := rfl
@[simp] theorem limbLt_tr (a b : Sec) : (limbLt a b).tr = [] := rfl
@[simp] theorem limbSelect_tr (a b c : Sec) : (limbSelect a b c).tr = [] := rfl
@[simp] theorem limbAdc_tr (a b c : Sec) : (limbAdc a b c).tr = [] := rfl
@[simp] theorem limbSbb_tr (a b c : Sec) : (limbSbb a b c).tr = [] := rfl
@[simp] theorem limbMac_tr (a b c d : Sec) : (limbMac a b c d).tr = [] := rfl
@[simp] theorem limbBits_tr (a : Sec) : (limbBits a).tr = [] := rfl

/-! ### selection, comparison, add/sub/neg chains -/
def uselectT (n : Nat) : Trace := (uselect n [] [] zero).tr
@[simp] theorem uselect_tr (n : Nat) (a b : List Sec) (c : Sec) : (uselect n a b c).tr = uselectT n := by
  unfold uselectT uselect; leak_loop

def isNonzeroT (n : Nat) : Trace := (isNonzero n []).tr
@[simp] theorem isNonzero_tr (n : Nat) (a : List Sec) : (isNonzero n a).tr = isNonzeroT n := by
  unfold isNonzeroT isNonzero; leak_simp; leak_loop

def ueqT (n : Nat) : Trace := (ueq n [] []).tr
@[simp] theorem ueq_tr (n : Nat) (a b : List Sec) : (ueq n a b).tr = ueqT n := by
  unfold ueqT ueq; leak_simp; leak_loop

def usbbT (n : Nat) : Trace := (usbb n [] [] zero).tr
@[simp] theorem usbb_tr (n : Nat) (a b : List Sec) (c : Sec) : (usbb n a b c).tr = usbbT n := by
  unfold usbbT usbb; leak_loop

def uadcT (n : Nat) : Trace := (uadc n [] [] zero).tr
@[simp] theorem uadc_tr (n : Nat) (a b : List Sec) (c : Sec) : (uadc n a b c).tr = uadcT n := by
  unfold uadcT uadc; leak_loop

@[simp] theorem ult_tr (n : Nat) (a b : List Sec) : (ult n a b).tr = usbbT n := by
  unfold ult; leak_simp; rw [usbb_tr]
@[simp] theorem ugt_tr (n : Nat) (a b : List Sec) : (ugt n a b).tr = usbbT n := by
  unfold ugt; leak_simp; rw [usbb_tr]

def ucmpT (n : Nat) : Trace := (ucmp n [] []).tr
@[simp] theorem ucmp_tr (n : Nat) (a b : List Sec) : (ucmp n a b).tr = ucmpT n := by
  unfold ucmpT ucmp; leak_simp; leak_loop

def unegT (n : Nat) : Trace := (uneg n []).tr
@[simp] theorem uneg_tr (n : Nat) (a : List Sec) : (uneg n a).tr = unegT n := by
  unfold unegT uneg; leak_loop

@[simp] theorem wrappingAdd_tr (n : Nat) (a b : List Sec) : (wrappingAdd n a b).tr = uadcT n := by
  unfold wrappingAdd; leak_simp; rw [uadc_tr]

def bitandLimbT (n : Nat) : Trace := (bitandLimb n [] zero).tr
@[simp] theorem bitandLimb_tr (n : Nat) (a : List Sec) (m : Sec) : (bitandLimb n a m).tr = bitandLimbT n := by
  unfold bitandLimbT bitandLimb; leak_loop

/-! ### shifts -/
def shlMoveLoopT (n k : Nat) : Trace := (shlMoveLoop n k []).tr
@[simp] theorem shlMoveLoop_tr (n k : Nat) (a : List Sec) : (shlMoveLoop n k a).tr = shlMoveLoopT n k := by
  unfold shlMoveLoopT shlMoveLoop; leak_loop

def shlCarryLoopT (n k r : Nat) : Trace := (shlCarryLoop n k r []).tr
@[simp] theorem shlCarryLoop_tr (n k r : Nat) (a : List Sec) : (shlCarryLoop n k r a).tr = shlCarryLoopT n k r := by
  unfold shlCarryLoopT shlCarryLoop; leak_loop

def shlVartimeT (n shift : Nat) : Trace := (shlVartime n [] shift).tr
@[simp] theorem shlVartime_tr (n : Nat) (a : List Sec) (shift : Nat) : (shlVartime n a shift).tr = shlVartimeT n shift := by
  unfold shlVartimeT shlVartime; leak_simp; simp only [shlMoveLoop_tr, shlCarryLoop_tr]

def shrMoveLoopT (n k : Nat) : Trace := (shrMoveLoop n k []).tr
@[simp] theorem shrMoveLoop_tr (n k : Nat) (a : List Sec) : (shrMoveLoop n k a).tr = shrMoveLoopT n k := by
  unfold shrMoveLoopT shrMoveLoop; leak_loop

def shrCarryLoopT (n k r : Nat) : Trace := (shrCarryLoop n k r []).tr
@[simp] theorem shrCarryLoop_tr (n k r : Nat) (a : List Sec) : (shrCarryLoop n k r a).tr = shrCarryLoopT n k r := by
  unfold shrCarryLoopT shrCarryLoop; leak_loop

def shrVartimeT (n shift : Nat) : Trace := (shrVartime n [] shift).tr
@[simp] theorem shrVartime_tr (n : Nat) (a : List Sec) (shift : Nat) : (shrVartime n a shift).tr = shrVartimeT n shift := by
  unfold shrVartimeT shrVartime; leak_simp; simp only [shrMoveLoop_tr, shrCarryLoop_tr]

def shlLadderT (n : Nat) : Trace := (shlLadder n zero []).tr
@[simp] theorem shlLadder_tr (n : Nat) (s : Sec) (a : List Sec) : (shlLadder n s a).tr = shlLadderT n := by
  unfold shlLadderT shlLadder
  apply forN_tr_congr; intro i s s'; leak_simp; simp only [shlVartime_tr, uselect_tr]

def overflowingShlT (n : Nat) : Trace := (overflowingShl n [] zero).tr
@[simp] theorem overflowingShl_tr (n : Nat) (a : List Sec) (s : Sec) : (overflowingShl n a s).tr = overflowingShlT n := by
  unfold overflowingShlT overflowingShl; leak_simp; simp only [shlLadder_tr, uselect_tr]

def shrLadderT (n : Nat) : Trace := (shrLadder n zero []).tr
@[simp] theorem shrLadder_tr (n : Nat) (s : Sec) (a : List Sec) : (shrLadder n s a).tr = shrLadderT n := by
  unfold shrLadderT shrLadder
  apply forN_tr_congr; intro i s s'; leak_simp; simp only [shrVartime_tr, uselect_tr]

def overflowingShrT (n : Nat) : Trace := (overflowingShr n [] zero).tr
@[simp] theorem overflowingShr_tr (n : Nat) (a : List Sec) (s : Sec) : (overflowingShr n a s).tr = overflowingShrT n := by
  unfold overflowingShrT overflowingShr; leak_simp; simp only [shrLadder_tr, uselect_tr]

def shlLimbLoopT (n : Nat) : Trace := (shlLimbLoop n [] zero zero zero).tr
@[simp] theorem shlLimbLoop_tr (n : Nat) (a : List Sec) (x y z : Sec) : (shlLimbLoop n a x y z).tr = shlLimbLoopT n := by
  unfold shlLimbLoopT shlLimbLoop; leak_loop

@[simp] theorem shlLimb_tr (n : Nat) (a : List Sec) (s : Sec) : (shlLimb n a s).tr = shlLimbLoopT n := by
  unfold shlLimb; leak_simp; rw [shlLimbLoop_tr]

def shr1T (n : Nat) : Trace := (shr1 n []).tr
@[simp] theorem shr1_tr (n : Nat) (a : List Sec) : (shr1 n a).tr = shr1T n := by
  unfold shr1T shr1; leak_simp; leak_loop

def ubitorT (n : Nat) : Trace := (ubitor n [] []).tr
@[simp] theorem ubitor_tr (n : Nat) (a b : List Sec) : (ubitor n a b).tr = ubitorT n := by
  unfold ubitorT ubitor; leak_loop

/-! ### bit queries -/
def bitLoopT (n : Nat) : Trace := (bitLoop n [] zero zero).tr
@[simp] theorem bitLoop_tr (n : Nat) (a : List Sec) (x y : Sec) : (bitLoop n a x y).tr = bitLoopT n := by
  unfold bitLoopT bitLoop; leak_loop
@[simp] theorem bit_tr (n : Nat) (a : List Sec) (i : Sec) : (bit n a i).tr = bitLoopT n := by
  unfold bit; leak_simp; rw [bitLoop_tr]

def bitVartimeT (n index : Nat) : Trace := (bitVartime n [] index).tr
@[simp] theorem bitVartime_tr (n : Nat) (a : List Sec) (index : Nat) : (bitVartime n a index).tr = bitVartimeT n index := by
  unfold bitVartimeT bitVartime; leak_simp

def lzLoopT (n : Nat) : Trace := (lzLoop n []).tr
@[simp] theorem lzLoop_tr (n : Nat) (a : List Sec) : (lzLoop n a).tr = lzLoopT n := by
  unfold lzLoopT lzLoop; leak_loop
@[simp] theorem leadingZeros_tr (n : Nat) (a : List Sec) : (leadingZeros n a).tr = lzLoopT n := by
  unfold leadingZeros; leak_simp; rw [lzLoop_tr]
@[simp] theorem bits_tr (n : Nat) (a : List Sec) : (bits n a).tr = lzLoopT n := by
  unfold bits; leak_simp; rw [leadingZeros_tr]

def tzLoopT (n : Nat) : Trace := (tzLoop n []).tr
@[simp] theorem tzLoop_tr (n : Nat) (a : List Sec) : (tzLoop n a).tr = tzLoopT n := by
  unfold tzLoopT tzLoop; leak_loop
@[simp] theorem trailingZeros_tr (n : Nat) (a : List Sec) : (trailingZeros n a).tr = tzLoopT n := by
  unfold trailingZeros; leak_simp; rw [tzLoop_tr]

def setBitT (n : Nat) : Trace := (setBit n [] zero zero).tr
@[simp] theorem setBit_tr (n : Nat) (a : List Sec) (i v : Sec) : (setBit n a i v).tr = setBitT n := by
  unfold setBitT setBit; leak_loop

/-! ### modular add / sub / neg -/
def addModT (n : Nat) : Trace := (addMod n [] [] []).tr
@[simp] theorem addMod_tr (n : Nat) (a b p : List Sec) : (addMod n a b p).tr = addModT n := by
  unfold addModT addMod; leak_simp; simp only [uadc_tr, usbb_tr, bitandLimb_tr, wrappingAdd_tr]

def subModT (n : Nat) : Trace := (subMod n [] [] []).tr
@[simp] theorem subMod_tr (n : Nat) (a b p : List Sec) : (subMod n a b p).tr = subModT n := by
  unfold subModT subMod; leak_simp; simp only [usbb_tr, bitandLimb_tr, wrappingAdd_tr]

def subModWithCarryT (n : Nat) : Trace := (subModWithCarry n [] zero [] []).tr
@[simp] theorem subModWithCarry_tr (n : Nat) (a : List Sec) (c : Sec) (b p : List Sec) :
    (subModWithCarry n a c b p).tr = subModWithCarryT n := by
  unfold subModWithCarryT subModWithCarry; leak_simp; simp only [usbb_tr, bitandLimb_tr, wrappingAdd_tr]

def negModT (n : Nat) : Trace := (negMod n [] []).tr
@[simp] theorem negMod_tr (n : Nat) (a p : List Sec) : (negMod n a p).tr = negModT n := by
  unfold negModT negMod; leak_simp; simp only [isNonzero_tr, usbb_tr, bitandLimb_tr]

/-! ### multiplication -/
def mulInnerT (n m i : Nat) : Trace := (mulInner n m i zero [] ([], [])).tr
@[simp] theorem mulInner_tr (n m i : Nat) (x : Sec) (b : List Sec) (lh : List Sec × List Sec) :
    (mulInner n m i x b lh).tr = mulInnerT n m i := by
  unfold mulInnerT mulInner; leak_loop

def mulSchoolbookT (n m : Nat) : Trace := (mulSchoolbook n m [] []).tr
@[simp] theorem mulSchoolbook_tr (n m : Nat) (a b : List Sec) : (mulSchoolbook n m a b).tr = mulSchoolbookT n m := by
  unfold mulSchoolbookT mulSchoolbook
  apply forN_tr_congr; intro i s s'; leak_simp; simp only [mulInner_tr]

/-! ### single-limb division -/
def shortDivT (db vb : Nat) : Trace := (shortDiv zero db zero vb).tr
@[simp] theorem shortDiv_tr (x : Sec) (db : Nat) (y : Sec) (vb : Nat) : (shortDiv x db y vb).tr = shortDivT db vb := by
  unfold shortDivT shortDiv; leak_simp; leak_loop

def reciprocalT : Trace := (reciprocal zero).tr
@[simp] theorem reciprocal_tr (d : Sec) : (reciprocal d).tr = reciprocalT := by
  unfold reciprocalT reciprocal; leak_simp; simp only [shortDiv_tr]

def div3by2T : Trace := (div3by2 zero zero zero zero zero zero).tr
@[simp] theorem div3by2_tr (a b c d e f : Sec) : (div3by2 a b c d e f).tr = div3by2T := by
  unfold div3by2T div3by2; leak_simp; leak_loop

def divRemLimbLoopT (n : Nat) : Trace := (divRemLimbLoop n [] zero zero zero).tr
@[simp] theorem divRemLimbLoop_tr (n : Nat) (u : List Sec) (d r x : Sec) : (divRemLimbLoop n u d r x).tr = divRemLimbLoopT n := by
  unfold divRemLimbLoopT divRemLimbLoop; leak_loop

def divRemLimbT (n : Nat) : Trace := (divRemLimb n [] zero).tr
@[simp] theorem divRemLimb_tr (n : Nat) (u : List Sec) (d : Sec) : (divRemLimb n u d).tr = divRemLimbT n := by
  unfold divRemLimbT divRemLimb; leak_simp; simp only [reciprocal_tr, shlLimb_tr, divRemLimbLoop_tr]

/-! ### constant-time Knuth division -/
def divSubLoopT (n xi : Nat) : Trace := (divSubLoop n xi [] zero []).tr
@[simp] theorem divSubLoop_tr (n xi : Nat) (y : List Sec) (q : Sec) (x : List Sec) : (divSubLoop n xi y q x).tr = divSubLoopT n xi := by
  unfold divSubLoopT divSubLoop; leak_loop

def divAddBackLoopT (n xi : Nat) : Trace := (divAddBackLoop n xi [] zero []).tr
@[simp] theorem divAddBackLoop_tr (n xi : Nat) (y : List Sec) (q : Sec) (x : List Sec) :
    (divAddBackLoop n xi y q x).tr = divAddBackLoopT n xi := by
  unfold divAddBackLoopT divAddBackLoop; leak_loop

def divRemStepT (n xi : Nat) : Trace := (divRemStep n xi [] zero zero zero ([], zero, zero)).tr
@[simp] theorem divRemStep_tr (n xi : Nat) (y : List Sec) (a b c : Sec) (st : List Sec × Sec × Sec) :
    (divRemStep n xi y a b c st).tr = divRemStepT n xi := by
  unfold divRemStepT divRemStep; leak_simp; simp only [div3by2_tr, divSubLoop_tr, divAddBackLoop_tr]

def divRemLoopT (n : Nat) : Trace := (divRemLoop n [] zero zero zero ([], zero, zero)).tr
@[simp] theorem divRemLoop_tr (n : Nat) (y : List Sec) (a b c : Sec) (st : List Sec × Sec × Sec) :
    (divRemLoop n y a b c st).tr = divRemLoopT n := by
  unfold divRemLoopT divRemLoop
  apply forDown_tr_congr; intro i s s'; simp only [divRemStep_tr]

def divRemCopyLoopT (n : Nat) : Trace := (divRemCopyLoop n [] zero zero []).tr
@[simp] theorem divRemCopyLoop_tr (n : Nat) (x : List Sec) (a b : Sec) (y : List Sec) :
    (divRemCopyLoop n x a b y).tr = divRemCopyLoopT n := by
  unfold divRemCopyLoopT divRemCopyLoop; leak_loop

def divRemT (n : Nat) : Trace := (divRem n [] []).tr
@[simp] theorem divRem_tr (n : Nat) (a d : List Sec) : (divRem n a d).tr = divRemT n := by
  unfold divRemT divRem; leak_simp
  simp only [bits_tr, overflowingShl_tr, shlLimb_tr, reciprocal_tr, divRemLoop_tr, divRemCopyLoop_tr, overflowingShr_tr]

/-! ### inversion mod 2^k -/
def invStepBT (n : Nat) : Trace := (invStepB n [] []).tr
@[simp] theorem invStepB_tr (n : Nat) (a b : List Sec) : (invStepB n a b).tr = invStepBT n := by
  unfold invStepBT invStepB; leak_simp; simp only [usbb_tr, uselect_tr, shr1_tr]

def invMod2kT (n : Nat) : Trace := (invMod2k n [] zero).tr
@[simp] theorem invMod2k_tr (n : Nat) (a : List Sec) (k : Sec) : (invMod2k n a k).tr = invMod2kT n := by
  unfold invMod2kT invMod2k; leak_simp
  apply forN_tr_congr; intro i s s'; leak_simp; simp only [invStepB_tr, setBit_tr]

def invMod2kVartimeT (n k : Nat) : Trace := (invMod2kVartime n [] k).tr
@[simp] theorem invMod2kVartime_tr (n : Nat) (a : List Sec) (k : Nat) : (invMod2kVartime n a k).tr = invMod2kVartimeT n k := by
  unfold invMod2kVartimeT invMod2kVartime; leak_simp
  apply forN_tr_congr; intro i s s'; leak_simp; simp only [invStepB_tr, shlVartime_tr, uselect_tr, ubitor_tr]

/-! ### Montgomery reduction -/
def redcLowerLoopT (n i : Nat) : Trace := (redcLowerLoop n i zero [] [] zero).tr
@[simp] theorem redcLowerLoop_tr (n i : Nat) (u : Sec) (m l : List Sec) (c : Sec) : (redcLowerLoop n i u m l c).tr = redcLowerLoopT n i := by
  unfold redcLowerLoopT redcLowerLoop; leak_loop
def redcUpperLoopT (n i : Nat) : Trace := (redcUpperLoop n i zero [] [] zero).tr
@[simp] theorem redcUpperLoop_tr (n i : Nat) (u : Sec) (m l : List Sec) (c : Sec) : (redcUpperLoop n i u m l c).tr = redcUpperLoopT n i := by
  unfold redcUpperLoopT redcUpperLoop; leak_loop

def redcInnerT (n : Nat) : Trace := (redcInner n [] [] [] zero).tr
@[simp] theorem redcInner_tr (n : Nat) (l u m : List Sec) (x : Sec) : (redcInner n l u m x).tr = redcInnerT n := by
  unfold redcInnerT redcInner
  apply forN_tr_congr; intro i s s'; leak_simp; simp only [redcLowerLoop_tr, redcUpperLoop_tr]

def montgomeryReductionT (n : Nat) : Trace := (montgomeryReduction n [] [] [] zero).tr
@[simp] theorem montgomeryReduction_tr (n : Nat) (l u m : List Sec) (x : Sec) :
    (montgomeryReduction n l u m x).tr = montgomeryReductionT n := by
  unfold montgomeryReductionT montgomeryReduction; leak_simp; simp only [redcInner_tr, subModWithCarry_tr]

/-! ### square root -/
def sqrtRoundT (n : Nat) : Trace := (sqrtRound n [] ([], [])).tr
@[simp] theorem sqrtRound_tr (n : Nat) (a : List Sec) (st : List Sec × List Sec) : (sqrtRound n a st).tr = sqrtRoundT n := by
  unfold sqrtRoundT sqrtRound; leak_simp
  simp only [isNonzero_tr, uselect_tr, divRem_tr, wrappingAdd_tr, shr1_tr]

def sqrtLoopT (n : Nat) : Trace := (sqrtLoop n [] ([], [])).tr
@[simp] theorem sqrtLoop_tr (n : Nat) (a : List Sec) (st : List Sec × List Sec) : (sqrtLoop n a st).tr = sqrtLoopT n := by
  unfold sqrtLoopT sqrtLoop
  apply forN_tr_congr; intro i s s'; simp only [sqrtRound_tr]

def sqrtT (n : Nat) : Trace := (sqrt n []).tr
@[simp] theorem sqrt_tr (n : Nat) (a : List Sec) : (sqrt n a).tr = sqrtT n := by
  unfold sqrtT sqrt; leak_simp; simp only [bits_tr, overflowingShl_tr, sqrtLoop_tr, ugt_tr, uselect_tr]

/-! ### boxed helpers -/
def boxedCtAssignT (n : Nat) : Trace := (boxedCtAssign n [] [] zero).tr
@[simp] theorem boxedCtAssign_tr (n : Nat) (a b : List Sec) (c : Sec) : (boxedCtAssign n a b c).tr = boxedCtAssignT n := by
  unfold boxedCtAssignT boxedCtAssign; leak_loop
def boxedCtSwapT (n : Nat) : Trace := (boxedCtSwap n [] [] zero).tr
@[simp] theorem boxedCtSwap_tr (n : Nat) (a b : List Sec) (c : Sec) : (boxedCtSwap n a b c).tr = boxedCtSwapT n := by
  unfold boxedCtSwapT boxedCtSwap; leak_loop

end CB.Leak
