/-
  CB.Lemmas.C07Bits — word-level bit facts used by the C07 model (shift-and-or carry insertion,
  top-bit set/clear, masks), by transport to `BitVec 64` and `bv_decide` (allowed in `*Bits*` files).
-/
import CB.Lemmas.WordBits
import CB.Model.ModArith
namespace CB.ModArith
open CB

theorem and_WMAX {x : Nat} (hx : x < B) : x &&& WMAX = x := by
  have h : WMAX = 2 ^ 64 - 1 := by decide
  rw [h, Nat.and_two_pow_sub_one_eq_mod, Nat.mod_eq_of_lt (by rw [← B_eq_pow]; exact hx)]

theorem WMAX_and {x : Nat} (hx : x < B) : WMAX &&& x = x := by
  rw [Nat.and_comm]; exact and_WMAX hx

/-- `(x << 1) | (y >> 63)` is an addition: the or-ed bit is free. -/
theorem shl1_or_bv (x y : BitVec 64) : (x <<< 1) ||| (y >>> 63) = (x <<< 1) + (y >>> 63) := by
  bv_decide

/-- `(x >> 1) | (y << 63)` is an addition. -/
theorem shr1_or_bv (x y : BitVec 64) : (x >>> 1) ||| (y <<< 63) = (x >>> 1) + (y <<< 63) := by
  bv_decide

theorem setclr_top_bv (x : BitVec 64) (h : x >>> 63 = 0#64) :
    x ||| (1#64 <<< 63) = x + (1#64 <<< 63) ∧ x &&& ~~~(1#64 <<< 63) = x := by
  constructor <;> bv_decide

/-- `overflowing_shl1` limb step: `(a << 1) | carry = (2a mod B) + carry` for `carry = a' >> 63`. -/
theorem shl1_or {a y : Nat} (ha : a < B) (hy : y < B) :
    ((a * 2) % B) ||| (y / HALF) = (a * 2) % B + y / HALF := by
  have e1 : (a * 2) % B = (bv a <<< 1).toNat := by
    simp only [BitVec.toNat_shiftLeft, bv_toNat ha, Nat.shiftLeft_eq, B_eq_pow]
  have e2 : y / HALF = (bv y >>> 63).toNat := by rw [← shr63_bv, bv_toNat hy]
  have hsum : (a * 2) % B + y / HALF < B := by
    simp only [B_def, HALF_def] at *; omega
  rw [e1, e2, ← BitVec.toNat_or, shl1_or_bv, BitVec.toNat_add, ← e1, ← e2]
  exact Nat.mod_eq_of_lt (by rw [← B_eq_pow]; exact hsum)

/-- `shr1` limb step: `(x >> 1) | (y << 63) = x/2 + (y mod 2)·2^63`. -/
theorem shr1_or {x y : Nat} (hx : x < B) (hy : y < B) :
    (x / 2) ||| ((y * HALF) % B) = x / 2 + (y % 2) * HALF := by
  have e1 : x / 2 = (bv x >>> 1).toNat := by
    simp only [BitVec.toNat_ushiftRight, bv_toNat hx, Nat.shiftRight_eq_div_pow]
  have e2 : (y * HALF) % B = (bv y <<< 63).toNat := by
    simp only [BitVec.toNat_shiftLeft, bv_toNat hy, Nat.shiftLeft_eq, B_eq_pow, HALF_def]
  have e3 : (y * HALF) % B = (y % 2) * HALF := by
    simp only [B_def, HALF_def]; omega
  have hsum : x / 2 + (y * HALF) % B < B := by
    rw [e3]; simp only [B_def, HALF_def] at *; omega
  rw [← e3, e1, e2, ← BitVec.toNat_or, shr1_or_bv, BitVec.toNat_add, ← e1, ← e2]
  exact Nat.mod_eq_of_lt (by rw [← B_eq_pow]; exact hsum)

/-- setting / clearing bit 63 of a limb whose bit 63 is clear. -/
theorem set_top {x : Nat} (hx : x < HALF) : x ||| HALF = x + HALF ∧ x &&& wnot HALF = x := by
  have hxB : x < B := by simp only [B_def, HALF_def] at *; omega
  have hh : (bv x >>> 63) = 0#64 := by
    apply BitVec.eq_of_toNat_eq
    rw [← shr63_bv, bv_toNat hxB]
    simp only [HALF_def] at *; simp; omega
  have ⟨s1, s2⟩ := setclr_top_bv (bv x) hh
  have eH : HALF = (1#64 <<< 63).toNat := by decide
  have eN : wnot HALF = (~~~(1#64 <<< 63)).toNat := by decide
  constructor
  · have := congrArg BitVec.toNat s1
    rw [BitVec.toNat_or, BitVec.toNat_add, bv_toNat hxB, ← eH] at this
    rw [this]; exact Nat.mod_eq_of_lt (by simp only [HALF_def] at *; omega)
  · have := congrArg BitVec.toNat s2
    rw [BitVec.toNat_and, bv_toNat hxB, ← eN] at this
    exact this

end CB.ModArith
