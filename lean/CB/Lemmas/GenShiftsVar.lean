/-
  CB.Lemmas.GenShiftsVar — the hand-written model of the variable-time shifts (`shlMove`/`shlCarry`/`overflowingShlVartime`,
  `shrMove`/`shrCarry`/`overflowingShrVartime` of CB/Model/Shift.lean — what T05.1 of CB/Props/C05.lean is proved about) IS
  the translated source (`Uint::overflowing_shl_vartime` / `overflowing_shr_vartime` of CB/Gen/Shifts.lean, regenerated from
  src/uint/{shl,shr}.rs on every run), for EVERY limb count with `64·LIMBS < 2^32` (so that `Self::BITS` fits its `u32`)
  and EVERY shift amount.

  Each function is two loops.  The limb move is shown, on the translated lists themselves, to build
      shl: `limbs.take i ++ (self.drop (i - shift_num)).take n`            (ascending from `shift_num`, `i + n = LIMBS`)
      shr: `limbs.take i ++ (self.drop (i + shift_num)).take n ++ limbs.drop (LIMBS - shift_num)`   (`i + n = LIMBS - shift_num`)
  which at the start is the model's `shlMove` / `shrMove`.  The carry pass is the model's `shlCarry` (ascending; invariant as in
  GenShifts.lean) resp. `shrCarry` (descending, recursion on the counter; invariant: model pass on the first `n` limbs ++ the
  limbs from `n` on).  One round of a translated loop comes from CB/Lemmas/GenBitsShifts.lean.  No `bv_decide` in this file.
-/
import CB.Lemmas.GenShifts
namespace CB.GenShifts
open CB CB.Shift CB.Gen CB.Gen.Shifts CB.GenBits

/-! ## word facts -/

theorem div64_toNat (s : BitVec 32) : (s / 64#32).toNat = s.toNat / 64 := by
  rw [BitVec.toNat_udiv]; rfl

theorem sub64_mod_toNat (r : BitVec 32) (h0 : 0 < r.toNat) (h64 : r.toNat < 64) :
    ((64#32 - r) % 64#32).toNat = 64 - r.toNat := by
  rw [mod64_toNat, BitVec.toNat_sub]
  have : (64#32 : BitVec 32).toNat = 64 := rfl
  rw [this]; omega

theorem shl_word (x : BitVec 64) (r : BitVec 32) (h64 : r.toNat < 64) :
    (x <<< (r % 64#32)).toNat = wshl x.toNat r.toNat := by
  rw [BitVec.shiftLeft_eq', mod64_toNat, Nat.mod_eq_of_lt h64, wshl_bv]
theorem shr_word (x : BitVec 64) (r : BitVec 32) (h64 : r.toNat < 64) :
    (x >>> (r % 64#32)).toNat = wshr x.toNat r.toNat := by
  rw [BitVec.ushiftRight_eq', mod64_toNat, Nat.mod_eq_of_lt h64, wshr_bv]
theorem shl_word_co (x : BitVec 64) (r : BitVec 32) (h0 : 0 < r.toNat) (h64 : r.toNat < 64) :
    (x <<< ((64#32 - r) % 64#32)).toNat = wshl x.toNat (64 - r.toNat) := by
  rw [BitVec.shiftLeft_eq', sub64_mod_toNat r h0 h64, wshl_bv]
theorem shr_word_co (x : BitVec 64) (r : BitVec 32) (h0 : 0 < r.toNat) (h64 : r.toNat < 64) :
    (x >>> ((64#32 - r) % 64#32)).toNat = wshr x.toNat (64 - r.toNat) := by
  rw [BitVec.ushiftRight_eq', sub64_mod_toNat r h0 h64, wshr_bv]

theorem nats_replicate_zero (n : Nat) : nats (List.replicate n 0#64) = uzero n := by
  simp [nats, uzero]

/-! ## `Uint::overflowing_shl_vartime` -/

/-- the limb move, on the translated lists -/
theorem shlv_loop1_eq (L : Nat) (a : List (BitVec 64)) (ha : a.length = L) (k : Nat) :
    ∀ (n i : Nat) (limbs : List (BitVec 64)), k ≤ i → i + n = L → limbs.length = L →
      Uint.overflowing_shl_vartime_loop1 L a k n i limbs = limbs.take i ++ (a.drop (i - k)).take n := by
  intro n
  induction n with
  | zero =>
    intro i limbs _ hi hl
    rw [shlv_loop1_zero, List.take_of_length_le (by omega)]
    simp
  | succ n ih =>
    intro i limbs hk hi hl
    have hi' : i < L := by omega
    have e : i + 1 - k = i - k + 1 := by omega
    rw [shlv_loop1_succ L a k n i limbs hi', ih (i + 1) _ (by omega) (by omega) (by simpa using hl),
      take_set_succ limbs i _ (by omega), drop_eq_getD_cons a (i - k) (by omega), e]
    simp

theorem shlMove_bridge (a : List (BitVec 64)) (k : Nat) (hk : k ≤ a.length) :
    nats (Uint.overflowing_shl_vartime_loop1 a.length a k (a.length - k) k (List.replicate a.length 0#64)) =
      shlMove (nats a) k := by
  rw [shlv_loop1_eq a.length a rfl k (a.length - k) k _ (Nat.le_refl k) (by omega) (by simp),
    shlMove_eq (by rw [nats_length]; exact hk), nats_length]
  simp [nats, Nat.min_eq_left hk]

/-- the carry pass: positions below `i` stay, the model pass runs on the limbs from `i` on -/
theorem shlv_loop2_bridge (L : Nat) (rem : BitVec 32) (h0 : 0 < rem.toNat) (h64 : rem.toNat < 64) :
    ∀ (n i : Nat) (limbs : List (BitVec 64)) (c : BitVec 64), i + n = L → limbs.length = L →
      nats (Uint.overflowing_shl_vartime_loop2 L rem n i limbs c).1 =
        nats (limbs.take i) ++ shlCarry rem.toNat (nats (limbs.drop i)) c.toNat := by
  intro n
  induction n with
  | zero =>
    intro i limbs c hi hl
    rw [shlv_loop2_zero, List.drop_of_length_le (by omega), List.take_of_length_le (by omega)]
    simp [nats, shlCarry]
  | succ n ih =>
    intro i limbs c hi hl
    have hi' : i < L := by omega
    rw [shlv_loop2_succ L rem n i limbs c hi', ih (i + 1) _ _ (by omega) (by simpa using hl),
      take_set_succ limbs i _ (by omega), List.drop_set_of_lt (Nat.lt_succ_self i),
      drop_eq_getD_cons limbs i (by omega)]
    simp only [nats, List.map_append, List.map_cons, List.map_nil, List.append_assoc, List.cons_append, List.nil_append,
      BitVec.toNat_or, shlCarry, shl_word _ rem h64, shr_word_co _ rem h0 h64]

/-- **`Uint::overflowing_shl_vartime`**: value limbs and the `is_some` mask, for every limb count and every shift -/
theorem overflowingShlVartime_bridge (a : List (BitVec 64)) (s : BitVec 32) (hL : 64 * a.length < 2 ^ 32) :
    overflowingShlVartime (nats a) s.toNat =
      (nats (Uint.overflowing_shl_vartime a.length a s).1, (Uint.overflowing_shl_vartime a.length a s).2.toNat) := by
  have eB : (BitVec.ofNat 32 (64 * a.length)).toNat = 64 * a.length := by
    rw [BitVec.toNat_ofNat, Nat.mod_eq_of_lt hL]
  have eT : (~~~0#64 : BitVec 64).toNat = WMAX := by decide
  rw [shlv_eq, overflowingShlVartime]
  simp only [nats_length, BitVec.le_def, ge_iff_le, eB]
  by_cases hov : 64 * a.length ≤ s.toNat
  · rw [if_pos hov, if_pos hov]
    simp only [nats_replicate_zero]
    rfl
  · rw [if_neg hov, if_neg hov]
    have hk : s.toNat / 64 ≤ a.length := by omega
    have hrem : (s % 64#32 = 0#32) ↔ s.toNat % 64 = 0 := by
      constructor
      · intro h; rw [← mod64_toNat, h]; rfl
      · intro h; exact BitVec.eq_of_toNat_eq (by rw [mod64_toNat, h]; rfl)
    by_cases hr : s.toNat % 64 = 0
    · rw [if_pos hr, if_pos (hrem.mpr hr)]
      simp only [div64_toNat, eT, shlMove_bridge a _ hk]
    · rw [if_neg hr, if_neg (fun h => hr (hrem.mp h))]
      have h0 : 0 < (s % 64#32).toNat := by rw [mod64_toNat]; omega
      have h64 : (s % 64#32).toNat < 64 := by rw [mod64_toNat]; omega
      simp only [div64_toNat, eT]
      rw [shlv_loop2_bridge a.length (s % 64#32) h0 h64 (a.length - s.toNat / 64) (s.toNat / 64) _ 0#64 (by omega)
        (by rw [shlv_loop1_eq a.length a rfl _ _ _ _ (Nat.le_refl _) (by omega) (by simp)]; simp; omega)]
      have hm := shlMove_bridge a _ hk
      simp only [nats] at hm
      simp only [nats, List.map_take, List.map_drop, hm, mod64_toNat]
      rfl

/-! ## `Uint::overflowing_shr_vartime` -/

theorem shrv_loop1_eq (L : Nat) (a : List (BitVec 64)) (ha : a.length = L) (k : Nat) (hk : k ≤ L) :
    ∀ (n i : Nat) (limbs : List (BitVec 64)), i + n = L - k → limbs.length = L →
      Uint.overflowing_shr_vartime_loop1 L a k n i limbs =
        limbs.take i ++ (a.drop (i + k)).take n ++ limbs.drop (L - k) := by
  intro n
  induction n with
  | zero =>
    intro i limbs hi hl
    have : i = L - k := by omega
    subst this
    rw [shrv_loop1_zero]
    simp
  | succ n ih =>
    intro i limbs hi hl
    have hi' : i < L - k := by omega
    have e : i + 1 + k = i + k + 1 := by omega
    rw [shrv_loop1_succ L a k n i limbs hi', ih (i + 1) _ (by omega) (by simpa using hl),
      take_set_succ limbs i _ (by omega), List.drop_set_of_lt hi', drop_eq_getD_cons a (i + k) (by omega), e]
    simp

theorem shrMove_bridge (a : List (BitVec 64)) (k : Nat) (hk : k ≤ a.length) :
    nats (Uint.overflowing_shr_vartime_loop1 a.length a k (a.length - k) 0 (List.replicate a.length 0#64)) =
      shrMove (nats a) k 0 := by
  rw [shrv_loop1_eq a.length a rfl k hk (a.length - k) 0 _ (by omega) (by simp), shrMove]
  have e : a.length - (a.length - k) = k := by omega
  rw [Nat.zero_add, List.take_of_length_le (l := a.drop k) (by simp)]
  simp [nats, e]

theorem shrCarry_snoc (r : Nat) (l : List Nat) (x c : Nat) :
    shrCarry r (l ++ [x]) c =
      ((shrCarry r l (wshl x (64 - r))).1 ++ [wshr x r ||| c], (shrCarry r l (wshl x (64 - r))).2) := by
  induction l with
  | nil => simp [shrCarry]
  | cons y ys ih =>
    rw [List.cons_append, shrCarry_cons, ih, shrCarry_cons]
    simp

theorem shrv_loop2_bridge (L : Nat) (rem : BitVec 32) (h0 : 0 < rem.toNat) (h64 : rem.toNat < 64) :
    ∀ (n : Nat) (limbs : List (BitVec 64)) (c : BitVec 64), n ≤ limbs.length →
      nats (Uint.overflowing_shr_vartime_loop2 L rem n limbs c).1 =
        (shrCarry rem.toNat (nats (limbs.take n)) c.toNat).1 ++ nats (limbs.drop n) := by
  intro n
  induction n with
  | zero =>
    intro limbs c _
    rw [shrv_loop2_zero]
    simp [nats, shrCarry]
  | succ n ih =>
    intro limbs c hn
    have hn' : n < limbs.length := by omega
    rw [shrv_loop2_succ, ih _ _ (by simpa using Nat.le_of_lt hn'), List.take_set_of_le (Nat.le_refl n),
      drop_set_self limbs n _ hn', take_succ_getD limbs n hn']
    simp only [nats, List.map_append, List.map_cons, List.map_nil, shrCarry_snoc, List.append_assoc, List.cons_append,
      List.nil_append, BitVec.toNat_or, shr_word _ rem h64, shl_word_co _ rem h0 h64]

/-- **`Uint::overflowing_shr_vartime`**: value limbs and the `is_some` mask, for every limb count and every shift -/
theorem overflowingShrVartime_bridge (a : List (BitVec 64)) (s : BitVec 32) (hL : 64 * a.length < 2 ^ 32) :
    overflowingShrVartime (nats a) s.toNat =
      (nats (Uint.overflowing_shr_vartime a.length a s).1, (Uint.overflowing_shr_vartime a.length a s).2.toNat) := by
  have eB : (BitVec.ofNat 32 (64 * a.length)).toNat = 64 * a.length := by
    rw [BitVec.toNat_ofNat, Nat.mod_eq_of_lt hL]
  have eT : (~~~0#64 : BitVec 64).toNat = WMAX := by decide
  rw [shrv_eq, overflowingShrVartime]
  simp only [nats_length, BitVec.le_def, ge_iff_le, eB]
  by_cases hov : 64 * a.length ≤ s.toNat
  · rw [if_pos hov, if_pos hov]
    simp only [nats_replicate_zero]
    rfl
  · rw [if_neg hov, if_neg hov]
    have hk : s.toNat / 64 ≤ a.length := by omega
    have hrem : (s % 64#32 = 0#32) ↔ s.toNat % 64 = 0 := by
      constructor
      · intro h; rw [← mod64_toNat, h]; rfl
      · intro h; exact BitVec.eq_of_toNat_eq (by rw [mod64_toNat, h]; rfl)
    by_cases hr : s.toNat % 64 = 0
    · rw [if_pos hr, if_pos (hrem.mpr hr)]
      simp only [div64_toNat, eT, shrMove_bridge a _ hk]
    · rw [if_neg hr, if_neg (fun h => hr (hrem.mp h))]
      have h0 : 0 < (s % 64#32).toNat := by rw [mod64_toNat]; omega
      have h64 : (s % 64#32).toNat < 64 := by rw [mod64_toNat]; omega
      simp only [div64_toNat, eT]
      rw [shrv_loop2_bridge a.length (s % 64#32) h0 h64 (a.length - s.toNat / 64) _ 0#64
        (by rw [shrv_loop1_eq a.length a rfl _ hk _ _ _ (by omega) (by simp)]; simp)]
      have hm := shrMove_bridge a _ hk
      simp only [nats] at hm
      simp only [nats, List.map_take, List.map_drop, hm, mod64_toNat]
      rfl

end CB.GenShifts
