/-
  CB.Lemmas.GenSafeGcdLimbs — the hand-written model of the LIMB arithmetic of safegcd (`uadd`, `umul`, `uneg`, `ushr`,
  `uisNeg`, `ulowest`, `uselect`, `ueq`, `fg` of CB/Model/SafeGcd.lean, lists of 62-bit words as `Nat`s) IS the translated
  source (`impl UnsatInt<LIMBS>` and `fg` of src/modular/safegcd.rs; CB/Gen/SafeGcdLimbs.lean, regenerated from /repo's
  current source on every run), for EVERY limb count.

  An `UnsatInt<LIMBS>` of the source is the list of its words (`List (BitVec 64)`, little endian) with `LIMBS` an explicit
  argument.  Each bridge is an induction over the remaining rounds of the translated `while i < LIMBS` loop (its fuel; the
  invariant `i + fuel = LIMBS` makes the loop test of every round true) with the invariant
      result array = (the first `i` positions written so far) ++ (model chain on the words from position `i` on),
  one round of the translated loop and the `Nat` meaning of its word arithmetic being taken from
  CB/Lemmas/GenBitsSafeGcdLimbs.lean (the only file that reads the generated text).  The representation invariant of the
  model — every word below `2^62` (`WFw`, the model's `WF62` on the values) — is what keeps the `u64` sums of `add` / `neg`
  from wrapping; `mul` needs no invariant on the words (its sum is a `u128`), only `other ≠ i64::MIN` (Rust's `-other`).
  No `bv_decide` in this file.
-/
import CB.Lemmas.GenBitsSafeGcdLimbs
import CB.Lemmas.GenChainsSub
import CB.Lemmas.GenSafeGcdJump
import CB.Lemmas.GenBitsDiv
import CB.Lemmas.GenBitsShifts
namespace CB.GenSafeGcdLimbs
open CB CB.Gen CB.Gen.SafeGcdLimbs CB.GenBits CB.SafeGcd
open CB.GenChains (nats drop_eq_getD_cons take_set_succ)

/-- the representation invariant of an `UnsatInt`: every word is below `2^62` -/
def WFw (a : List (BitVec 64)) : Prop := ∀ x ∈ a, x.toNat < Q

theorem WFw_iff (a : List (BitVec 64)) : WFw a ↔ WF62 (nats a) := by
  constructor
  · intro h x hx
    obtain ⟨v, hv, rfl⟩ := List.mem_map.mp hx
    exact h v hv
  · intro h x hx
    exact h x.toNat (List.mem_map.mpr ⟨x, hx, rfl⟩)

theorem WFw_getD {a : List (BitVec 64)} (h : WFw a) (i : Nat) : (a.getD i 0#64).toNat < Q := by
  by_cases hi : i < a.length
  · have e : a.getD i 0#64 = a[i] := by simp [List.getD, hi]
    rw [e]; exact h _ (List.getElem_mem hi)
  · have e : a.getD i 0#64 = 0#64 := by simp [List.getD, List.getElem?_eq_none (Nat.le_of_not_lt hi)]
    rw [e]; exact Q_pos

theorem nats_length (l : List (BitVec 64)) : (nats l).length = l.length := List.length_map _

/-! ## `add` -/

theorem add_loop_bridge (L : Nat) (a b : List (BitVec 64)) (ha : a.length = L) (hb : b.length = L)
    (wa : WFw a) (wb : WFw b) :
    ∀ (n i : Nat) (ret : List (BitVec 64)) (c : BitVec 64), i + n = L → ret.length = L → c.toNat < Q →
      nats (UnsatInt.add_loop1 L a b n i ret c).1 =
        nats (ret.take i) ++ uaddC (nats (a.drop i)) (nats (b.drop i)) c.toNat := by
  intro n
  induction n with
  | zero =>
    intro i ret c hi hl _
    rw [unsat_add_loop_zero, List.drop_of_length_le (by omega), List.drop_of_length_le (by omega),
      List.take_of_length_le (by omega)]
    simp [nats, uaddC]
  | succ n ih =>
    intro i ret c hi hl hc
    have hi' : i < L := by omega
    obtain ⟨w1, w2, w3⟩ := unsat_add_word (a.getD i 0#64) (b.getD i 0#64) c (WFw_getD wa i) (WFw_getD wb i) hc
    rw [unsat_add_loop_succ L a b n i ret c hi', ih (i + 1) _ _ (by omega) (by simpa using hl) w3,
      drop_eq_getD_cons a i (by omega), drop_eq_getD_cons b i (by omega), take_set_succ ret i _ (by omega)]
    simp only [nats, List.map_cons, List.map_append, List.map_nil, uaddC_cons, w1, w2, List.append_assoc,
      List.cons_append, List.nil_append]

/-- **`UnsatInt::add`**: for every limb count, on well-formed operands -/
theorem uadd_bridge (a b : List (BitVec 64)) (h : a.length = b.length) (wa : WFw a) (wb : WFw b) :
    uadd (nats a) (nats b) = nats (UnsatInt.add a.length a b) := by
  have := add_loop_bridge a.length a b rfl h.symm wa wb a.length 0 (List.replicate a.length 0#64) 0#64
    (by omega) (by simp) Q_pos
  rw [unsat_add_eq_loop, this]
  simp [uadd, nats]

/-! ## `neg` -/

theorem neg_loop_bridge (L : Nat) (a : List (BitVec 64)) (ha : a.length = L) (wa : WFw a) :
    ∀ (n i : Nat) (ret : List (BitVec 64)) (c : BitVec 64), i + n = L → ret.length = L → c.toNat < Q →
      nats (UnsatInt.neg_loop1 L a n i ret c).1 = nats (ret.take i) ++ unegC (nats (a.drop i)) c.toNat := by
  intro n
  induction n with
  | zero =>
    intro i ret c hi hl _
    rw [unsat_neg_loop_zero, List.drop_of_length_le (by omega), List.take_of_length_le (by omega)]
    simp [nats, unegC]
  | succ n ih =>
    intro i ret c hi hl hc
    have hi' : i < L := by omega
    obtain ⟨w1, w2, w3⟩ := unsat_neg_word (a.getD i 0#64) c (WFw_getD wa i) hc
    rw [unsat_neg_loop_succ L a n i ret c hi', ih (i + 1) _ _ (by omega) (by simpa using hl) w3,
      drop_eq_getD_cons a i (by omega), take_set_succ ret i _ (by omega)]
    simp only [nats, List.map_cons, List.map_append, List.map_nil, unegC_cons, w1, w2, List.append_assoc,
      List.cons_append, List.nil_append]

/-- **`UnsatInt::neg`** -/
theorem uneg_bridge (a : List (BitVec 64)) (wa : WFw a) : uneg (nats a) = nats (UnsatInt.neg a.length a) := by
  have := neg_loop_bridge a.length a rfl wa a.length 0 (List.replicate a.length 0#64) 1#64
    (by omega) (by simp) (by decide)
  rw [unsat_neg_eq_loop, this]
  simp [uneg, nats]

/-! ## `mul` by an `i64` -/

theorem mul_loop_bridge (L : Nat) (a : List (BitVec 64)) (o mask : BitVec 64) (ha : a.length = L)
    (ho : o.toNat < 2 ^ 63) :
    ∀ (n i : Nat) (ret : List (BitVec 64)) (c : BitVec 64), i + n = L → ret.length = L →
      nats (UnsatInt.mul_loop1 L a o mask n i ret c).1 =
        nats (ret.take i) ++ umulC (nats (a.drop i)) o.toNat mask.toNat c.toNat := by
  intro n
  induction n with
  | zero =>
    intro i ret c hi hl
    rw [unsat_mul_loop_zero, List.drop_of_length_le (by omega), List.take_of_length_le (by omega)]
    simp [nats, umulC]
  | succ n ih =>
    intro i ret c hi hl
    have hi' : i < L := by omega
    obtain ⟨w1, w2⟩ := unsat_mul_word (a.getD i 0#64) o mask c ho
    rw [unsat_mul_loop_succ L a o mask n i ret c hi', ih (i + 1) _ _ (by omega) (by simpa using hl),
      drop_eq_getD_cons a i (by omega), take_set_succ ret i _ (by omega)]
    simp only [nats, List.map_cons, List.map_append, List.map_nil, umulC_cons, w1, w2, List.append_assoc,
      List.cons_append, List.nil_append]

/-- **`UnsatInt::mul`** by an `i64`: for every limb count, every word list and every `other` except `i64::MIN` (where
    the source's `-other` overflows) -/
theorem umul_bridge (a : List (BitVec 64)) (o : BitVec 64) (ho : -(2 ^ 63) < o.toInt) :
    umul (nats a) o.toInt = nats (UnsatInt.mul a.length a o) := by
  have hlt := BitVec.toInt_lt (x := o)
  have hge := BitVec.le_toInt (x := o)
  simp only [Nat.add_one_sub_one] at hlt hge
  have hslt : (BitVec.slt o 0#64 = true) ↔ o.toInt < 0 := by
    rw [BitVec.slt_iff_toInt_lt]; simp
  rw [unsat_mul_eq_loop, umul]
  by_cases hneg : o.toInt < 0
  · rw [if_pos hneg, if_pos (hslt.mpr hneg)]
    have hne : o ≠ BitVec.intMin 64 := by
      intro h; rw [h, BitVec.toInt_intMin] at ho; simp at ho
    have hni : (-o).toInt = -o.toInt := BitVec.toInt_neg_of_ne_intMin hne
    have hnn : ((-o).toNat : Int) = -o.toInt := by
      have hc := BitVec.toInt_eq_toNat_cond (-o)
      have hlt' := (-o).isLt
      rw [hni] at hc
      split at hc <;> omega
    have h1 : (-o.toInt).toNat = (-o).toNat := by omega
    have h2 : toU64 (-o.toInt) = (-o).toNat := by
      unfold toU64
      rw [Int.emod_eq_of_lt (by omega) (by omega)]
      exact h1
    have hb : (-o).toNat < 2 ^ 63 := by omega
    have := mul_loop_bridge a.length a (-o) MASK62 rfl hb a.length 0 (List.replicate a.length 0#64) (-o)
      (by omega) (by simp)
    rw [this, h1, h2, MASK62_toNat]
    simp [nats]
  · rw [if_neg hneg, if_neg (fun h => hneg (hslt.mp h))]
    have hnn : (o.toNat : Int) = o.toInt := by
      have hc := BitVec.toInt_eq_toNat_cond o
      have hlt' := o.isLt
      split at hc <;> omega
    have h1 : o.toInt.toNat = o.toNat := by omega
    have hb : o.toNat < 2 ^ 63 := by omega
    have := mul_loop_bridge a.length a o 0#64 rfl hb a.length 0 (List.replicate a.length 0#64) 0#64
      (by omega) (by simp)
    rw [this, h1]
    simp [nats]

/-! ## `is_negative`, `lowest` -/

theorem getLastD_nats (a : List (BitVec 64)) : (nats a).getLastD 0 = (a.getD (a.length - 1) 0#64).toNat := by
  rw [List.getLastD_eq_getLast?, List.getLast?_eq_getElem?, List.getD_eq_getElem?_getD, nats_length]
  simp only [nats, List.getElem?_map]
  cases a[a.length - 1]? <;> simp

/-- **`UnsatInt::is_negative`**: the mask of the model's sign test -/
theorem uisNeg_bridge (a : List (BitVec 64)) : UnsatInt.is_negative a.length a = ofBool (uisNeg (nats a)) := by
  rw [unsat_is_negative_eq, uisNeg, getLastD_nats]
  congr 1

/-- **`UnsatInt::lowest`** -/
theorem ulowest_bridge (a : List (BitVec 64)) : ulowest (nats a) = (UnsatInt.lowest a.length a).toNat := by
  rw [unsat_lowest_eq, ulowest]
  cases a <;> simp [nats]

/-! ## `shr` -/

theorem shr_loop_bridge (L : Nat) (a : List (BitVec 64)) (ha : a.length = L) :
    ∀ (n i : Nat) (ret : List (BitVec 64)), i + n = L - 1 → ret.length = L →
      UnsatInt.shr_loop1 L a n i ret = ret.take i ++ a.drop (i + 1) ++ ret.drop (L - 1) := by
  intro n
  induction n with
  | zero =>
    intro i ret hi hl
    have hi' : i = L - 1 := by omega
    rw [unsat_shr_loop_zero, List.drop_of_length_le (l := a) (by omega), hi']
    simp
  | succ n ih =>
    intro i ret hi hl
    have hi' : i < L - 1 := by omega
    rw [unsat_shr_loop_succ L a n i ret hi', ih (i + 1) _ (by omega) (by simpa using hl),
      take_set_succ ret i _ (by omega), drop_eq_getD_cons a (i + 1) (by omega),
      List.drop_set_of_lt (by omega)]
    simp

theorem drop_set_replicate_last (z t : BitVec 64) : ∀ (L : Nat), 1 ≤ L →
    ((List.replicate L z).set (L - 1) t).drop (L - 1) = [t] := by
  intro L
  induction L with
  | zero => intro h; omega
  | succ k ih =>
    intro _
    cases k with
    | zero => simp
    | succ j =>
      have := ih (by omega)
      simp only [Nat.add_sub_cancel] at this ⊢
      rw [List.replicate_succ, List.set_cons_succ, List.drop_succ_cons]
      exact this

/-- **`UnsatInt::shr`** (the 62-bit arithmetic shift): for every limb count `≥ 1` (the source indexes `LIMBS - 1`) -/
theorem ushr_bridge (a : List (BitVec 64)) (hne : a ≠ []) : ushr (nats a) = nats (UnsatInt.shr a.length a) := by
  have hL : 1 ≤ a.length := by
    cases a with
    | nil => exact absurd rfl hne
    | cons _ _ => simp
  rw [unsat_shr_eq_loop, shr_loop_bridge a.length a rfl (a.length - 1) 0 _ (by omega) (by simp),
    drop_set_replicate_last _ _ _ hL, uisNeg_bridge, (select_meaning _).2.2.2.1]
  have hg : (List.replicate a.length 0#64).getD (a.length - 1) 0#64 = 0#64 := by
    simp [List.getD, List.getElem?_replicate]
    split <;> rfl
  rw [hg, ushr]
  simp only [nats, List.take_zero, List.nil_append, List.map_append, List.map_drop, List.map_cons, List.map_nil]
  congr 2
  cases uisNeg (List.map BitVec.toNat a)
  · rfl
  · exact MASK62_toNat.symm

/-! ## `leading_zeros`, `bits` -/

/-- one word of `leading_zeros`: for a 62-bit word `l.leading_zeros() - 2` does not underflow -/
theorem lz_word (x : BitVec 64) (hx : x.toNat < Q) :
    ((BitVec.clz x).setWidth 32 - 2#32).toNat = lz64 x.toNat - 2 ∧ lz64 x.toNat - 2 ≤ 62 := by
  have hc : lz64 x.toNat = (BitVec.clz x).toNat := clz_bv x
  have h64 := clz_le_64 x
  have h2 : 2 ≤ lz64 x.toNat := by
    unfold lz64
    split
    · omega
    · rename_i h0
      have : Nat.log2 x.toNat < 62 := (Nat.log2_lt h0).mpr (by rw [Q_def] at hx; omega)
      omega
  rw [hc] at h2 ⊢
  constructor
  · rw [BitVec.toNat_sub, BitVec.toNat_setWidth]
    simp only [BitVec.toNat_ofNat]
    omega
  · omega

theorem lz_loop_bridge (L : Nat) (a : List (BitVec 64)) (wa : WFw a) :
    ∀ (n : Nat) (count : BitVec 32) (p : Bool), n ≤ a.length → count.toNat + 62 * n < 2 ^ 32 →
      (UnsatInt.leading_zeros_loop1 L a n count (ofBool p)).1.toNat = ulzGo (nats (a.take n)).reverse p count.toNat ∧
      (UnsatInt.leading_zeros_loop1 L a n count (ofBool p)).1.toNat ≤ count.toNat + 62 * n := by
  intro n
  induction n with
  | zero =>
    intro count p _ _
    rw [unsat_lz_loop_zero]
    simp [nats, ulzGo]
  | succ n ih =>
    intro count p hn hc
    have hlt : n < a.length := by omega
    obtain ⟨w1, w2⟩ := lz_word (a.getD n 0#64) (WFw_getD wa n)
    have hg : a.getD n 0#64 = a[n] := by simp [List.getD, hlt]
    have htake : (nats (a.take (n + 1))).reverse = (a.getD n 0#64).toNat :: (nats (a.take n)).reverse := by
      rw [List.take_succ, List.getElem?_eq_getElem hlt, hg]
      simp only [nats, Option.toList, List.map_append, List.map_cons, List.map_nil, List.reverse_append,
        List.reverse_cons, List.reverse_nil, List.nil_append, List.cons_append]
    have hcount : (count + Choice.if_true_u32 (ofBool p) ((BitVec.clz (a.getD n 0#64)).setWidth 32 - 2#32)).toNat =
        count.toNat + (if p then lz64 (a.getD n 0#64).toNat - 2 else 0) := by
      rw [(select_meaning p).2.2.2.2.2, BitVec.toNat_add]
      have hcl := count.isLt
      cases p
      · simp only [Bool.false_eq_true, if_false, BitVec.toNat_ofNat]; omega
      · simp only [if_true, w1]; omega
    have hflag : Choice.and (ofBool p) (Choice.not (Choice.from_u64_nonzero (a.getD n 0#64))) =
        ofBool (p && ((a.getD n 0#64).toNat == 0)) := by
      rw [from_u64_nonzero_meaning, (choice_algebra _ false).1, (choice_algebra _ _).2.2.1]
      congr 2
      rw [Bool.eq_iff_iff]
      simp [← BitVec.toNat_inj]
    rw [unsat_lz_loop_succ, hflag, htake]
    obtain ⟨i1, i2⟩ := ih _ (p && ((a.getD n 0#64).toNat == 0)) (by omega) (by rw [hcount]; split <;> omega)
    rw [hcount] at i1 i2
    refine ⟨by rw [i1]; simp only [ulzGo], ?_⟩
    split at i2 <;> omega

/-- **`UnsatInt::leading_zeros`** / **`UnsatInt::bits`**: the model's `ulz` / `ubits`, for every limb count whose bit length
    `62·LIMBS` fits the `u32` the source computes in -/
theorem ulz_bridge (a : List (BitVec 64)) (wa : WFw a) (hL : 62 * a.length < 2 ^ 32) :
    (UnsatInt.leading_zeros a.length a).toNat = ulz (nats a) ∧ (UnsatInt.bits a.length a).toNat = ubits (nats a) := by
  obtain ⟨h1, h2⟩ := lz_loop_bridge a.length a wa a.length 0#32 true (le_refl _) (by simpa using hL)
  have e : (~~~0#64) = ofBool true := by decide
  have hlz : (UnsatInt.leading_zeros a.length a).toNat = ulz (nats a) := by
    rw [unsat_lz_eq_loop, e, h1, ulz]
    simp
  refine ⟨hlz, ?_⟩
  have hle : (UnsatInt.leading_zeros a.length a).toNat ≤ 62 * a.length := by
    rw [unsat_lz_eq_loop, e]; simpa using h2
  rw [unsat_bits_eq, BitVec.toNat_sub, BitVec.toNat_mul, hlz, ubits, nats_length, LB_eq]
  rw [hlz] at hle
  simp only [BitVec.toNat_ofNat]
  have : a.length % 2 ^ 32 = a.length := Nat.mod_eq_of_lt (by omega)
  rw [this]
  omega

/-! ## `select`, `eq` -/

theorem select_loop_bridge (L : Nat) (a b : List (BitVec 64)) (p : Bool) (ha : a.length = L) (hb : b.length = L) :
    ∀ (n i : Nat) (ret : List (BitVec 64)), i + n = L → ret.length = L →
      UnsatInt.select_loop1 L a b (ofBool p) n i ret = ret.take i ++ (if p then b else a).drop i := by
  intro n
  induction n with
  | zero =>
    intro i ret hi hl
    rw [unsat_select_loop_zero, List.drop_of_length_le (by split <;> omega), List.take_of_length_le (by omega)]
    simp
  | succ n ih =>
    intro i ret hi hl
    have hi' : i < L := by omega
    rw [unsat_select_loop_succ L a b _ n i ret hi', ih (i + 1) _ (by omega) (by simpa using hl),
      take_set_succ ret i _ (by omega), (select_meaning p).2.2.2.1]
    cases p
    · simp only [Bool.false_eq_true, if_false]
      rw [drop_eq_getD_cons a i (by omega)]; simp
    · simp only [if_true]
      rw [drop_eq_getD_cons b i (by omega)]; simp

/-- **`UnsatInt::select`** -/
theorem uselect_bridge (a b : List (BitVec 64)) (p : Bool) (h : a.length = b.length) :
    CB.SafeGcd.uselect (nats a) (nats b) p = nats (UnsatInt.select a.length a b (ofBool p)) := by
  rw [unsat_select_eq_loop, select_loop_bridge a.length a b p rfl h.symm a.length 0 _ (by omega) (by simp), CB.SafeGcd.uselect]
  cases p <;> simp

theorem eq_loop_bridge (L : Nat) (a b : List (BitVec 64)) (ha : a.length = L) (hb : b.length = L) :
    ∀ (n i : Nat) (p : Bool), i + n = L →
      UnsatInt.eq_loop1 L a b n i (ofBool p) = ofBool (p && CB.SafeGcd.ueq (nats (a.drop i)) (nats (b.drop i))) := by
  intro n
  induction n with
  | zero =>
    intro i p hi
    rw [unsat_eq_loop_zero, List.drop_of_length_le (by omega), List.drop_of_length_le (by omega)]
    simp [nats, CB.SafeGcd.ueq]
  | succ n ih =>
    intro i p hi
    have hi' : i < L := by omega
    rw [unsat_eq_loop_succ L a b n i _ hi', from_u64_eq_meaning, (choice_algebra _ _).2.2.1, ih (i + 1) _ (by omega),
      drop_eq_getD_cons a i (by omega), drop_eq_getD_cons b i (by omega)]
    simp only [nats, List.map_cons, CB.SafeGcd.ueq]
    congr 1
    have : (a.getD i 0#64 == b.getD i 0#64) = ((a.getD i 0#64).toNat == (b.getD i 0#64).toNat) := by
      rw [Bool.eq_iff_iff]; simp [BitVec.toNat_inj]
    rw [this, Bool.and_assoc]

/-- **`UnsatInt::eq`** -/
theorem ueq_bridge (a b : List (BitVec 64)) (h : a.length = b.length) :
    UnsatInt.eq a.length a b = ofBool (CB.SafeGcd.ueq (nats a) (nats b)) := by
  have e : (~~~0#64) = ofBool true := by decide
  rw [unsat_eq_eq_loop, e, eq_loop_bridge a.length a b rfl h.symm a.length 0 true (by omega)]
  simp

/-! ## `fg` -/

/-- the `Matrix` of the source (`[[i64; 2]; 2]`, a pair of pairs of patterns) as the model's integer matrix -/
def matOf (t : (BitVec 64 × BitVec 64) × (BitVec 64 × BitVec 64)) : Mat :=
  ⟨t.1.1.toInt, t.1.2.toInt, t.2.1.toInt, t.2.2.toInt⟩

theorem toInt_bounds (o : BitVec 64) : -(2 ^ 63) ≤ o.toInt ∧ o.toInt ≤ 2 ^ 63 := by
  have hlt := BitVec.toInt_lt (x := o)
  have hge := BitVec.le_toInt (x := o)
  simp only [Nat.add_one_sub_one] at hlt hge
  omega

/-- `x.mul(p).add(&y.mul(q)).shr()` -/
theorem row_bridge (x y : List (BitVec 64)) (p q : BitVec 64) (hl : x.length = y.length) (hne : x ≠ [])
    (wx : WFw x) (wy : WFw y) (hp : -(2 ^ 63) < p.toInt) (hq : -(2 ^ 63) < q.toInt) :
    ushr (uadd (umul (nats x) p.toInt) (umul (nats y) q.toInt)) =
      nats (UnsatInt.shr x.length (UnsatInt.add x.length (UnsatInt.mul x.length x p) (UnsatInt.mul x.length y q))) := by
  obtain ⟨m1, m2, _⟩ := umul_spec (nats x) p.toInt ((WFw_iff x).mp wx) (toInt_bounds p).1 (toInt_bounds p).2
  obtain ⟨n1, n2, _⟩ := umul_spec (nats y) q.toInt ((WFw_iff y).mp wy) (toInt_bounds q).1 (toInt_bounds q).2
  rw [umul_bridge x p hp] at m1 m2
  rw [umul_bridge y q hq] at n1 n2
  rw [nats_length, nats_length] at m1 n1
  have hmx : (UnsatInt.mul x.length x p).length = x.length := m1
  have hmy : (UnsatInt.mul y.length y q).length = x.length := by rw [n1, hl]
  rw [umul_bridge x p hp, umul_bridge y q hq]
  have hadd := uadd_bridge (UnsatInt.mul x.length x p) (UnsatInt.mul y.length y q) (by rw [hmx, hmy])
    ((WFw_iff _).mpr m2) ((WFw_iff _).mpr n2)
  rw [hmx] at hadd
  rw [hadd]
  have hal : (UnsatInt.add x.length (UnsatInt.mul x.length x p) (UnsatInt.mul y.length y q)).length = x.length := by
    have := (uadd_spec (nats (UnsatInt.mul x.length x p)) (nats (UnsatInt.mul y.length y q))
      (by rw [nats_length, nats_length, hmx, hmy])).1
    rw [hadd, nats_length, nats_length, hmx] at this
    exact this
  have hne' : UnsatInt.add x.length (UnsatInt.mul x.length x p) (UnsatInt.mul y.length y q) ≠ [] := by
    intro h0
    rw [h0] at hal
    exact hne (List.length_eq_zero_iff.mp hal.symm)
  have hs := ushr_bridge _ hne'
  rw [hal] at hs
  rw [hs, hl]

/-- **`fg`**: the model's `fg` on the values IS the translated `fg`, for every limb count `≥ 1`, well-formed `f`, `g`
    and every matrix without an `i64::MIN` entry -/
theorem fg_bridge (f g : List (BitVec 64)) (t : (BitVec 64 × BitVec 64) × (BitVec 64 × BitVec 64))
    (hl : f.length = g.length) (hne : f ≠ []) (wf : WFw f) (wg : WFw g)
    (h00 : -(2 ^ 63) < t.1.1.toInt) (h01 : -(2 ^ 63) < t.1.2.toInt)
    (h10 : -(2 ^ 63) < t.2.1.toInt) (h11 : -(2 ^ 63) < t.2.2.toInt) :
    CB.SafeGcd.fg (nats f) (nats g) (matOf t) =
      (nats (SafeGcdLimbs.fg f.length f g t).1, nats (SafeGcdLimbs.fg f.length f g t).2) := by
  rw [fg_eq]
  simp only [CB.SafeGcd.fg, matOf]
  rw [row_bridge f g t.1.1 t.1.2 hl hne wf wg h00 h01, row_bridge f g t.2.1 t.2.2 hl hne wf wg h10 h11]

/-! ## `SafeGcdInverter::norm` -/

theorem select_eq (a b : List (BitVec 64)) (p : Bool) (h : a.length = b.length) :
    UnsatInt.select a.length a b (ofBool p) = if p then b else a := by
  rw [unsat_select_eq_loop, select_loop_bridge a.length a b p rfl h.symm a.length 0 _ (by omega) (by simp)]
  simp

theorem neg_ok (a : List (BitVec 64)) (wa : WFw a) :
    nats (UnsatInt.neg a.length a) = uneg (nats a) ∧ WFw (UnsatInt.neg a.length a) ∧
    (UnsatInt.neg a.length a).length = a.length := by
  obtain ⟨m1, m2, _⟩ := uneg_spec (nats a) ((WFw_iff a).mp wa)
  rw [uneg_bridge a wa] at m1 m2
  rw [nats_length, nats_length] at m1
  exact ⟨(uneg_bridge a wa).symm, (WFw_iff _).mpr m2, m1⟩

theorem add_ok' (a b : List (BitVec 64)) (h : a.length = b.length) (wa : WFw a) (wb : WFw b) :
    nats (UnsatInt.add a.length a b) = uadd (nats a) (nats b) ∧ WFw (UnsatInt.add a.length a b) ∧
    (UnsatInt.add a.length a b).length = a.length := by
  obtain ⟨m1, m2, _⟩ := uadd_spec (nats a) (nats b) (by rw [nats_length, nats_length, h])
  rw [uadd_bridge a b h wa wb] at m1 m2
  rw [nats_length, nats_length] at m1
  exact ⟨(uadd_bridge a b h wa wb).symm, (WFw_iff _).mpr m2, m1⟩

/-- `select(&v, &v.add(&m), v.is_negative())` -/
theorem norm_step_add (v m : List (BitVec 64)) (hm : m.length = v.length) (wv : WFw v) (wm : WFw m) :
    nats (UnsatInt.select v.length v (UnsatInt.add v.length v m) (UnsatInt.is_negative v.length v)) =
      CB.SafeGcd.uselect (nats v) (uadd (nats v) (nats m)) (uisNeg (nats v)) ∧
    WFw (UnsatInt.select v.length v (UnsatInt.add v.length v m) (UnsatInt.is_negative v.length v)) ∧
    (UnsatInt.select v.length v (UnsatInt.add v.length v m) (UnsatInt.is_negative v.length v)).length = v.length := by
  obtain ⟨a1, a2, a3⟩ := add_ok' v m hm.symm wv wm
  rw [uisNeg_bridge, select_eq v _ _ a3.symm, CB.SafeGcd.uselect]
  cases uisNeg (nats v)
  · exact ⟨rfl, wv, rfl⟩
  · exact ⟨a1, a2, a3⟩

/-- `select(&v, &v.neg(), negate)` -/
theorem norm_step_neg (v : List (BitVec 64)) (p : Bool) (wv : WFw v) :
    nats (UnsatInt.select v.length v (UnsatInt.neg v.length v) (ofBool p)) =
      CB.SafeGcd.uselect (nats v) (uneg (nats v)) p ∧
    WFw (UnsatInt.select v.length v (UnsatInt.neg v.length v) (ofBool p)) ∧
    (UnsatInt.select v.length v (UnsatInt.neg v.length v) (ofBool p)).length = v.length := by
  obtain ⟨a1, a2, a3⟩ := neg_ok v wv
  rw [select_eq v _ _ a3.symm, CB.SafeGcd.uselect]
  cases p
  · exact ⟨rfl, wv, rfl⟩
  · exact ⟨a1, a2, a3⟩

/-- **`SafeGcdInverter::norm`**: the model's `norm` IS the translated method, for every limb count, every well-formed
    `value` and `modulus` of that many limbs and both values of `negate` (the other fields of `self` are not read) -/
theorem norm_bridge (m adj v : List (BitVec 64)) (inv : BitVec 64) (p : Bool) (hm : m.length = v.length)
    (wv : WFw v) (wm : WFw m) :
    norm (nats m) (nats v) p = nats (Inverter.norm v.length (m, adj, inv) v (ofBool p)) ∧
    WFw (Inverter.norm v.length (m, adj, inv) v (ofBool p)) ∧
    (Inverter.norm v.length (m, adj, inv) v (ofBool p)).length = v.length := by
  rw [inverter_norm_eq]
  simp only
  obtain ⟨a1, a2, a3⟩ := norm_step_add v m hm wv wm
  generalize UnsatInt.select v.length v (UnsatInt.add v.length v m) (UnsatInt.is_negative v.length v) = v1 at a1 a2 a3 ⊢
  rw [← a3] at hm ⊢
  obtain ⟨b1, b2, b3⟩ := norm_step_neg v1 p a2
  generalize UnsatInt.select v1.length v1 (UnsatInt.neg v1.length v1) (ofBool p) = v2 at b1 b2 b3 ⊢
  rw [← b3] at hm ⊢
  obtain ⟨c1, c2, c3⟩ := norm_step_add v2 m hm b2 wm
  refine ⟨?_, c2, c3⟩
  rw [c1, b1, a1]
  rfl

/-! ## `de` -/

theorem mul_ok (x : List (BitVec 64)) (o : BitVec 64) (wx : WFw x) (ho : -(2 ^ 63) < o.toInt) :
    nats (UnsatInt.mul x.length x o) = umul (nats x) o.toInt ∧ WFw (UnsatInt.mul x.length x o) ∧
    (UnsatInt.mul x.length x o).length = x.length := by
  obtain ⟨m1, m2, _⟩ := umul_spec (nats x) o.toInt ((WFw_iff x).mp wx) (toInt_bounds o).1 (toInt_bounds o).2
  rw [umul_bridge x o ho] at m1 m2
  rw [nats_length, nats_length] at m1
  exact ⟨(umul_bridge x o ho).symm, (WFw_iff _).mpr m2, m1⟩

theorem add_ok (a b : List (BitVec 64)) (h : a.length = b.length) (wa : WFw a) (wb : WFw b) :
    nats (UnsatInt.add a.length a b) = uadd (nats a) (nats b) ∧ WFw (UnsatInt.add a.length a b) ∧
    (UnsatInt.add a.length a b).length = a.length := by
  obtain ⟨m1, m2, _⟩ := uadd_spec (nats a) (nats b) (by rw [nats_length, nats_length, h])
  rw [uadd_bridge a b h wa wb] at m1 m2
  rw [nats_length, nats_length] at m1
  exact ⟨(uadd_bridge a b h wa wb).symm, (WFw_iff _).mpr m2, m1⟩

/-- `x.mul(p).add(&y.mul(q)).add(&z.mul(r)).shr()` -/
theorem row3_bridge (L : Nat) (x y z : List (BitVec 64)) (p q r : BitVec 64) (hx : x.length = L) (hy : y.length = L)
    (hz : z.length = L) (hL : 1 ≤ L) (wx : WFw x) (wy : WFw y) (wz : WFw z)
    (hp : -(2 ^ 63) < p.toInt) (hq : -(2 ^ 63) < q.toInt) (hr : -(2 ^ 63) < r.toInt) :
    ushr (uadd (uadd (umul (nats x) p.toInt) (umul (nats y) q.toInt)) (umul (nats z) r.toInt)) =
      nats (UnsatInt.shr L (UnsatInt.add L (UnsatInt.add L (UnsatInt.mul L x p) (UnsatInt.mul L y q))
        (UnsatInt.mul L z r))) := by
  subst hx
  obtain ⟨a1, a2, a3⟩ := mul_ok x p wx hp
  obtain ⟨b1, b2, b3⟩ := mul_ok y q wy hq
  obtain ⟨c1, c2, c3⟩ := mul_ok z r wz hr
  rw [hy] at b1 b2 b3
  rw [hz] at c1 c2 c3
  obtain ⟨d1, d2, d3⟩ := add_ok _ _ (a3.trans b3.symm) a2 b2
  rw [a3] at d1 d2 d3
  obtain ⟨e1, e2, e3⟩ := add_ok _ _ (d3.trans c3.symm) d2 c2
  rw [d3] at e1 e2 e3
  have hne : UnsatInt.add x.length (UnsatInt.add x.length (UnsatInt.mul x.length x p) (UnsatInt.mul x.length y q))
      (UnsatInt.mul x.length z r) ≠ [] := by
    intro h0
    rw [h0] at e3
    simp at e3
    omega
  have hs := ushr_bridge _ hne
  rw [e3] at hs
  rw [← hs, e1, d1, a1, b1, c1]

theorem toU64_toInt (x : BitVec 64) : toU64 x.toInt = x.toNat := by
  rw [← CB.GenSafeGcd.toNat_ofInt64, BitVec.ofInt_toInt]

theorem toInt_add_of_range (x y : BitVec 64) (h1 : -(2 ^ 63) ≤ x.toInt + y.toInt) (h2 : x.toInt + y.toInt < 2 ^ 63) :
    (x + y).toInt = x.toInt + y.toInt := by
  rw [BitVec.toInt_add]; apply Int.bmod_eq_of_le <;> omega

theorem toInt_sub_of_range (x y : BitVec 64) (h1 : -(2 ^ 63) ≤ x.toInt - y.toInt) (h2 : x.toInt - y.toInt < 2 ^ 63) :
    (x - y).toInt = x.toInt - y.toInt := by
  rw [BitVec.toInt_sub]; apply Int.bmod_eq_of_le <;> omega

theorem toInt_of_small (x : BitVec 64) (h : x.toNat < 2 ^ 63) : x.toInt = (x.toNat : Int) := by
  have hc := BitVec.toInt_eq_toNat_cond x
  split at hc <;> omega

theorem and_MASK62_lt (x : BitVec 64) : (x &&& MASK62).toNat < 2 ^ 62 := by
  rw [BitVec.toNat_and, MASK62_toNat, and_MASK, Q_def]
  omega

/-- the `i64` word computations of one row of `de` (sign term, low-word term, correction) agree with the model's `Int` /
    `Nat` computations when the row of the matrix has absolute sum `≤ 2^62`; the corrected multiplier is not `i64::MIN` -/
theorem deM1_bridge (a b inv dl el : BitVec 64) (p q : Bool) (hb : |a.toInt| + |b.toInt| ≤ 2 ^ 62) :
    (deM1 inv (deM a b (if p then 1#64 else 0#64) (if q then 1#64 else 0#64)) (deC a b dl el)).toInt =
      (a.toInt * (if p then 1 else 0) + b.toInt * (if q then 1 else 0)) -
        (((((toU64 inv.toInt * ((((toU64 a.toInt * dl.toNat) % U64 + (toU64 b.toInt * el.toNat) % U64) % U64) &&& MASK))
          % U64 + toU64 (a.toInt * (if p then 1 else 0) + b.toInt * (if q then 1 else 0))) % U64) &&& MASK : Nat) : Int) ∧
    -(2 ^ 63) < (deM1 inv (deM a b (if p then 1#64 else 0#64) (if q then 1#64 else 0#64)) (deC a b dl el)).toInt := by
  have ha := abs_le.mp (le_trans (le_add_of_nonneg_right (abs_nonneg b.toInt)) hb)
  have hb' := abs_le.mp (le_trans (le_add_of_nonneg_left (abs_nonneg a.toInt)) hb)
  have hab1 : -(2 ^ 62) ≤ a.toInt + b.toInt := by
    have := neg_abs_le a.toInt; have := neg_abs_le b.toInt; omega
  have hab2 : a.toInt + b.toInt ≤ 2 ^ 62 := by
    have := le_abs_self a.toInt; have := le_abs_self b.toInt; omega
  -- the sign term
  have hmd : (deM a b (if p then 1#64 else 0#64) (if q then 1#64 else 0#64)).toInt =
      a.toInt * (if p then 1 else 0) + b.toInt * (if q then 1 else 0) ∧
      -(2 ^ 62) ≤ (deM a b (if p then 1#64 else 0#64) (if q then 1#64 else 0#64)).toInt ∧
      (deM a b (if p then 1#64 else 0#64) (if q then 1#64 else 0#64)).toInt ≤ 2 ^ 62 := by
    cases p <;> cases q <;>
      simp only [deM, Bool.false_eq_true, if_false, if_true, BitVec.mul_zero, BitVec.mul_one, BitVec.add_zero,
        BitVec.zero_add, mul_zero, mul_one, add_zero, zero_add, BitVec.toInt_zero]
    · exact ⟨trivial, by omega, by omega⟩
    · exact ⟨trivial, by omega, by omega⟩
    · exact ⟨trivial, by omega, by omega⟩
    · rw [toInt_add_of_range a b (by omega) (by omega)]; omega
  obtain ⟨hmd1, hmd2, hmd3⟩ := hmd
  generalize deM a b (if p then 1#64 else 0#64) (if q then 1#64 else 0#64) = md at hmd1 hmd2 hmd3 ⊢
  -- the low-word term
  have hcd : (deC a b dl el).toNat =
      (((toU64 a.toInt * dl.toNat) % U64 + (toU64 b.toInt * el.toNat) % U64) % U64) &&& MASK := by
    simp only [deC]
    rw [BitVec.toNat_and, BitVec.toNat_add, BitVec.toNat_mul, BitVec.toNat_mul, MASK62_toNat, toU64_toInt, toU64_toInt]
    rfl
  generalize deC a b dl el = cd at hcd ⊢
  -- the correction
  have hx : ((inv * cd + md) &&& MASK62).toNat =
      (((toU64 inv.toInt * cd.toNat) % U64 + toU64 md.toInt) % U64) &&& MASK := by
    rw [BitVec.toNat_and, BitVec.toNat_add, BitVec.toNat_mul, MASK62_toNat, toU64_toInt, toU64_toInt]
    rfl
  have hxl := and_MASK62_lt (inv * cd + md)
  have hxi := toInt_of_small _ (by omega : ((inv * cd + md) &&& MASK62).toNat < 2 ^ 63)
  have hsub : (deM1 inv md cd).toInt = md.toInt - (((inv * cd + md) &&& MASK62).toNat : Int) := by
    simp only [deM1]
    rw [toInt_sub_of_range _ _ (by omega) (by omega), hxi]
  rw [hsub, hx, ← hcd, ← hmd1]
  refine ⟨rfl, ?_⟩
  rw [← hx]
  omega

theorem deSign_eq (x : List (BitVec 64)) :
    deSign x.length x = if uisNeg (nats x) then 1#64 else 0#64 := by
  simp only [deSign]
  rw [uisNeg_bridge, (to_bool_meaning _).2.2.1]
  cases uisNeg (nats x) <;> rfl

/-- **`de`**: the model's `de` on the values IS the translated `de`, for every limb count `≥ 1`, well-formed `modulus`,
    `d`, `e`, every `inverse`, and every matrix whose rows have absolute sum `≤ 2^62` (what `jump` returns:
    `src_jump_matrix`) -/
theorem de_bridge (m d e : List (BitVec 64)) (inv : BitVec 64) (t : (BitVec 64 × BitVec 64) × (BitVec 64 × BitVec 64))
    (hle : e.length = d.length) (hlm : m.length = d.length) (hne : d ≠ [])
    (wm : WFw m) (wd : WFw d) (we : WFw e)
    (hb0 : |t.1.1.toInt| + |t.1.2.toInt| ≤ 2 ^ 62) (hb1 : |t.2.1.toInt| + |t.2.2.toInt| ≤ 2 ^ 62) :
    CB.SafeGcd.de (nats m) inv.toInt (matOf t) (nats d) (nats e) =
      (nats (SafeGcdLimbs.de d.length m inv t d e).1, nats (SafeGcdLimbs.de d.length m inv t d e).2) := by
  have hL : 1 ≤ d.length := by
    cases d with
    | nil => exact absurd rfl hne
    | cons _ _ => simp
  have e00 := abs_le.mp (le_trans (le_add_of_nonneg_right (abs_nonneg t.1.2.toInt)) hb0)
  have e01 := abs_le.mp (le_trans (le_add_of_nonneg_left (abs_nonneg t.1.1.toInt)) hb0)
  have e10 := abs_le.mp (le_trans (le_add_of_nonneg_right (abs_nonneg t.2.2.toInt)) hb1)
  have e11 := abs_le.mp (le_trans (le_add_of_nonneg_left (abs_nonneg t.2.1.toInt)) hb1)
  have hse : deSign d.length e = if uisNeg (nats e) then 1#64 else 0#64 := by rw [← hle]; exact deSign_eq e
  have hle' : UnsatInt.lowest d.length e = UnsatInt.lowest e.length e := by rw [hle]
  obtain ⟨r0, s0⟩ := deM1_bridge t.1.1 t.1.2 inv (UnsatInt.lowest d.length d) (UnsatInt.lowest d.length e)
    (uisNeg (nats d)) (uisNeg (nats e)) hb0
  obtain ⟨r1, s1⟩ := deM1_bridge t.2.1 t.2.2 inv (UnsatInt.lowest d.length d) (UnsatInt.lowest d.length e)
    (uisNeg (nats d)) (uisNeg (nats e)) hb1
  rw [de_eq, deSign_eq d, hse]
  rw [← row3_bridge d.length d e m _ _ _ rfl hle hlm hL wd we wm (by omega) (by omega) s0,
    ← row3_bridge d.length d e m _ _ _ rfl hle hlm hL wd we wm (by omega) (by omega) s1, r0, r1]
  simp only [CB.SafeGcd.de, matOf, ulowest_bridge, hle']

end CB.GenSafeGcdLimbs
