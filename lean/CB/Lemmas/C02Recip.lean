/-
  CB.Lemmas.C02Recip — **H_recip discharged**: the 64-bit `reciprocal` of `src/uint/div_limb.rs`
  (Möller–Granlund Algorithm 3: table value by `short_div`, three Newton steps in wrapping `u64`
  arithmetic, final adjustment with the `x == 0` select) returns `⌊(2^128 − 1)/d⌋ − 2^64` for every
  normalised `d`.

  Layers: `C02RecipTable` (the 256-entry `short_div` table, kernel evaluation), `C02RecipMath`
  (exact residual identities and bounds over ℤ), and here the wrapping layer: each machine expression
  of `reciprocalImpl` equals the exact integer it stands for, because the bounds exclude overflow (or,
  for `e`, `v3`, `x` and the result, because the wrap is the intended reduction mod 2^64).
-/
import CB.Lemmas.C02LimbDiv
import CB.Lemmas.C02RecipTable
import CB.Lemmas.C02RecipMath
import Mathlib.Tactic.Zify
import Mathlib.Tactic.Ring
namespace CB.Div
open CB

/-- `v0 → v1` as computed: no intermediate overflows, and the residual `2^60 − v1·d40 ∈ (0, 2^43)`. -/
theorem recip_w1 {d9 d40 : ℕ} (h9l : 256 ≤ d9) (h9u : d9 ≤ 511)
    (hl : d9 * 2 ^ 31 < d40) (hu : d40 ≤ (d9 + 1) * 2 ^ 31) :
    ∃ v1, wsub (wsub (((523520 / d9) <<< 11) % B)
        ((wmul (wmul (523520 / d9) (523520 / d9)) d40) >>> 40)) 1 = v1 ∧
      v1 * d40 < 2 ^ 60 ∧ 2 ^ 60 < v1 * d40 + 2 ^ 43 := by
  generalize hv0 : 523520 / d9 = v0
  have hd9pos : 0 < d9 := by omega
  have h1 : v0 * d9 ≤ 523520 := by rw [← hv0]; exact Nat.div_mul_le_self _ _
  have h2 : 523520 < v0 * d9 + d9 := by
    rw [← hv0]
    have := Nat.div_add_mod 523520 d9
    have := Nat.mod_lt 523520 hd9pos
    rw [Nat.mul_comm]; omega
  obtain ⟨q1, hq1d⟩ : ∃ q1, q1 = v0 * v0 * d40 / 2 ^ 40 := ⟨_, rfl⟩
  obtain ⟨ρ, hρd⟩ : ∃ ρ, ρ = v0 * v0 * d40 % 2 ^ 40 := ⟨_, rfl⟩
  have ha : v0 * v0 * d40 = 2 ^ 40 * q1 + ρ := by
    rw [hq1d, hρd]; exact (Nat.div_add_mod _ _).symm
  have hρ : ρ < 2 ^ 40 := by rw [hρd]; exact Nat.mod_lt _ (by norm_num)
  have S := @RecipMath.step1 (v0 : ℤ) d9 d40 q1 ρ (by exact_mod_cast h9l) (by exact_mod_cast h9u)
    (by exact_mod_cast h1) (by exact_mod_cast h2) (by exact_mod_cast hl) (by exact_mod_cast hu)
    (by exact_mod_cast ha) (by positivity) (by exact_mod_cast hρ)
  obtain ⟨_, hv0u, _, hq1, hr1p, hr1u⟩ := S
  have hv0u' : v0 ≤ 2045 := by exact_mod_cast hv0u
  have hq1' : q1 + 1 ≤ 2 ^ 11 * v0 := by exact_mod_cast hq1
  have key : ((2 ^ 11 * v0 - q1 - 1 : ℕ) : ℤ) = 2 ^ 11 * (v0 : ℤ) - q1 - 1 := by omega
  have hd40u : d40 ≤ 2 ^ 40 := by omega
  have hvv : v0 * v0 ≤ 2045 * 2045 := Nat.mul_le_mul hv0u' hv0u'
  have hvvd : v0 * v0 * d40 ≤ 2045 * 2045 * 2 ^ 40 := Nat.mul_le_mul hvv hd40u
  refine ⟨2 ^ 11 * v0 - q1 - 1, ?_, ?_, ?_⟩
  · have e1 : wmul v0 v0 = v0 * v0 := Nat.mod_eq_of_lt (by simp only [B_def]; omega)
    have e2 : wmul (v0 * v0) d40 = v0 * v0 * d40 := Nat.mod_eq_of_lt (by simp only [B_def]; omega)
    rw [e1, e2, Nat.shiftRight_eq_div_pow, Nat.shiftLeft_eq, ← hq1d]
    simp only [wsub, B_def]; omega
  · zify; rw [key]; linarith
  · zify; rw [key]; linarith

/-- `v1 → v2` as computed. -/
theorem recip_w2 {v1 d40 : ℕ} (hdl : 2 ^ 39 < d40)
    (h1 : v1 * d40 < 2 ^ 60) (h2 : 2 ^ 60 < v1 * d40 + 2 ^ 43) :
    ∃ v2, wadd ((v1 <<< 13) % B) ((wmul v1 (wsub (1 <<< 60) (wmul v1 d40))) >>> 47) = v2 ∧
      2 ≤ v2 ∧ v2 * d40 ≤ 2 ^ 73 ∧ 2 ^ 73 < v2 * d40 + 2 ^ 39 + d40 := by
  obtain ⟨r1, hr1d⟩ : ∃ r1, r1 = 2 ^ 60 - v1 * d40 := ⟨_, rfl⟩
  obtain ⟨t, htd⟩ : ∃ t, t = v1 * r1 / 2 ^ 47 := ⟨_, rfl⟩
  obtain ⟨σ, hσd⟩ : ∃ σ, σ = v1 * r1 % 2 ^ 47 := ⟨_, rfl⟩
  have ht : v1 * r1 = 2 ^ 47 * t + σ := by rw [htd, hσd]; exact (Nat.div_add_mod _ _).symm
  have hσ : σ < 2 ^ 47 := by rw [hσd]; exact Nat.mod_lt _ (by norm_num)
  have hr1z : (r1 : ℤ) = 2 ^ 60 - (v1 : ℤ) * d40 := by
    rw [hr1d, Nat.cast_sub h1.le]; push_cast; ring
  have hr1p : 0 < r1 := by omega
  have hr1u : r1 < 2 ^ 43 := by omega
  have S := @RecipMath.step2 (v1 : ℤ) d40 r1 t σ hr1z (by exact_mod_cast hr1p) (by exact_mod_cast hr1u)
    (by exact_mod_cast hdl) (by exact_mod_cast ht) (by positivity) (by exact_mod_cast hσ)
  obtain ⟨hv1p, hv1u, _, htu, hr2l, hr2u⟩ := S
  have hv1p' : 0 < v1 := by exact_mod_cast hv1p
  have hv1u' : v1 < 2 ^ 21 := by exact_mod_cast hv1u
  have htu' : t < 2 ^ 17 := by exact_mod_cast htu
  have hprod : v1 * r1 < 2 ^ 21 * 2 ^ 43 := Nat.mul_lt_mul'' hv1u' hr1u
  refine ⟨2 ^ 13 * v1 + t, ?_, by omega, ?_, ?_⟩
  · have e1 : wmul v1 d40 = v1 * d40 := Nat.mod_eq_of_lt (by simp only [B_def]; omega)
    have e2 : wsub (1 <<< 60) (v1 * d40) = r1 := by
      rw [hr1d, Nat.shiftLeft_eq]; simp only [wsub, B_def]; omega
    have e3 : wmul v1 r1 = v1 * r1 := Nat.mod_eq_of_lt (by simp only [B_def]; omega)
    rw [e1, e2, e3, Nat.shiftRight_eq_div_pow, Nat.shiftLeft_eq, ← htd]
    simp only [wadd, B_def]; omega
  · zify; push_cast at hr2l ⊢; norm_num at hr2l ⊢; linarith
  · zify; push_cast at hr2u ⊢; linarith


/-- `v2 → v3` as computed: `e` is the exact `2^96 − v2·d63 + ⌊v2/2⌋·d0` (the wrap removes `2^96`),
    and `v3 = V3 − 2^64` with `1 ≤ 2^128 − V3·d ≤ 2d`. -/
theorem recip_w3 {d v2 : ℕ} (hd1 : 2 ^ 63 ≤ d) (hd2 : d < 2 ^ 64) (hv2 : 2 ≤ v2)
    (h1 : v2 * (d / 2 ^ 24 + 1) ≤ 2 ^ 73)
    (h2 : 2 ^ 73 < v2 * (d / 2 ^ 24 + 1) + 2 ^ 39 + (d / 2 ^ 24 + 1)) :
    ∃ e V3, wadd (wadd (wsub WMAX (wmul v2 (d / 2 + d % 2))) 1) (wmul (v2 >>> 1) (d % 2)) = e ∧
      wadd ((v2 <<< 31) % B) ((mulhilo v2 e).1 >>> 1) = V3 - 2 ^ 64 ∧
      2 ^ 64 ≤ V3 ∧ V3 < 2 ^ 65 ∧ V3 * d + 1 ≤ 2 ^ 128 ∧ 2 ^ 128 ≤ V3 * d + 2 * d := by
  obtain ⟨d40, hd40⟩ : ∃ d40, d40 = d / 2 ^ 24 + 1 := ⟨_, rfl⟩
  obtain ⟨c, hc⟩ : ∃ c, c = 2 ^ 24 * d40 - d := ⟨_, rfl⟩
  rw [← hd40] at h1 h2
  have hc1 : 1 ≤ c := by omega
  have hc2 : c ≤ 2 ^ 24 := by omega
  have hdz : (d : ℤ) = 2 ^ 24 * (d40 : ℤ) - c := by omega
  have hdl : 2 ^ 39 < d40 := by omega
  have h0z : (0 : ℤ) ≤ 2 ^ 47 * (2 ^ 73 - (v2 : ℤ) * d40) := by
    have : ((v2 * d40 : ℕ) : ℤ) ≤ 2 ^ 73 := by exact_mod_cast h1
    push_cast at this; linarith
  have h1z : (2 : ℤ) ^ 47 * (2 ^ 73 - (v2 : ℤ) * d40) < 2 ^ 86 + 2 ^ 47 * d40 := by
    have : (2 ^ 73 : ℤ) < ((v2 * d40 + 2 ^ 39 + d40 : ℕ) : ℤ) := by exact_mod_cast h2
    push_cast at this; linarith
  have S3 := @RecipMath.step3 (v2 : ℤ) d40 d c hdz (by exact_mod_cast hc1) (by exact_mod_cast hc2)
    (by exact_mod_cast hdl) (by exact_mod_cast hv2) h0z h1z
  obtain ⟨hv2u, hRl, hRu⟩ := S3
  have hv2u' : v2 < 2 ^ 34 := by exact_mod_cast hv2u
  -- the exact `e`
  obtain ⟨d0, hd0⟩ : ∃ d0, d0 = d % 2 := ⟨_, rfl⟩
  obtain ⟨d63, hd63⟩ : ∃ d63, d63 = d / 2 + d0 := ⟨_, rfl⟩
  obtain ⟨h, hh⟩ : ∃ h, h = v2 / 2 := ⟨_, rfl⟩
  obtain ⟨b, hb⟩ : ∃ b, b = v2 % 2 := ⟨_, rfl⟩
  have hd0u : d0 ≤ 1 := by omega
  have hbu : b ≤ 1 := by omega
  have hsu : b * d0 ≤ 1 * 1 := Nat.mul_le_mul hbu hd0u
  have hdd : (d : ℤ) = 2 * (d63 : ℤ) - d0 := by omega
  have hvv : (v2 : ℤ) = 2 * (h : ℤ) + b := by omega
  have hE : 2 * ((2 : ℤ) ^ 96 + h * d0 - v2 * d63) = (2 ^ 97 - v2 * d) - b * d0 := by
    rw [hdd, hvv]; ring
  have hsz : ((b : ℤ) * d0) ≤ 1 := by exact_mod_cast hsu
  have hs0 : (0 : ℤ) ≤ (b : ℤ) * d0 := by positivity
  have hEpos : (0 : ℤ) < 2 ^ 96 + h * d0 - v2 * d63 := by linarith
  have hEu : (2 : ℤ) ^ 96 + h * d0 - v2 * d63 < 2 ^ 64 := by
    have : (d : ℤ) < 2 ^ 64 := by exact_mod_cast hd2
    norm_num at this hRu ⊢; linarith
  obtain ⟨E, hEd⟩ : ∃ E : ℕ, (E : ℤ) = 2 ^ 96 + h * d0 - v2 * d63 :=
    ⟨(2 ^ 96 + (h : ℤ) * d0 - v2 * d63).toNat, Int.toNat_of_nonneg hEpos.le⟩
  have hEu' : E < 2 ^ 64 := by
    have : (E : ℤ) < 2 ^ 64 := by rw [hEd]; exact hEu
    exact_mod_cast this
  have hEn : E + v2 * d63 = 2 ^ 96 + h * d0 := by
    have : (E : ℤ) + v2 * d63 = 2 ^ 96 + h * d0 := by rw [hEd]; ring
    exact_mod_cast this
  have he2 : 2 * (E : ℤ) = (2 ^ 97 - v2 * d) - b * d0 := by rw [hEd]; exact hE
  -- `u`, `τ`
  obtain ⟨u, hu⟩ : ∃ u, u = v2 * E / 2 ^ 65 := ⟨_, rfl⟩
  obtain ⟨τ, hτd⟩ : ∃ τ, τ = v2 * E % 2 ^ 65 := ⟨_, rfl⟩
  have hut : v2 * E = 2 ^ 65 * u + τ := by rw [hu, hτd]; exact (Nat.div_add_mod _ _).symm
  have hτ : τ < 2 ^ 65 := by rw [hτd]; exact Nat.mod_lt _ (by norm_num)
  have S4 := @RecipMath.step4 (v2 : ℤ) d (2 ^ 97 - v2 * d) (b * d0) E u τ rfl he2 hs0 hsz
    (by exact_mod_cast hut) (by positivity) (by exact_mod_cast hτ) (by exact_mod_cast hd1)
    (by exact_mod_cast hd2) hRl hRu
  obtain ⟨hD1, hD2⟩ := S4
  have hn1 : (2 ^ 31 * v2 + u) * d + 1 ≤ 2 ^ 128 := by
    zify; linarith
  have hn2 : 2 ^ 128 ≤ (2 ^ 31 * v2 + u) * d + 2 * d := by
    zify; linarith
  obtain ⟨hVl, hVu, _⟩ := RecipMath.final hd1 hd2 hn1 hn2
  refine ⟨E, 2 ^ 31 * v2 + u, ?_, ?_, hVl, hVu, hn1, hn2⟩
  · rw [Nat.shiftRight_eq_div_pow, ← hd0, ← hd63, Nat.pow_one, ← hh]
    simp only [wadd, wsub, wmul, B_def, WMAX_def]
    generalize v2 * d63 = m at hEn ⊢
    generalize h * d0 = n at hEn ⊢
    omega
  · have e1 : (mulhilo v2 E).1 >>> 1 = u := by
      simp only [mulhilo, Nat.shiftRight_eq_div_pow, B_def, Nat.pow_one]
      rw [hu, Nat.div_div_eq_div_mul]; norm_num
    rw [e1, Nat.shiftLeft_eq]
    simp only [wadd, B_def]; omega

/-- `ConstChoice::from_word_nonzero` on a word, by arithmetic (no bit-blasting): `x | -x` has its top
    bit set exactly when `x ≠ 0`. -/
theorem fromWordNonzero_word {x : ℕ} (hx : x < B) :
    fromWordNonzero x = if x = 0 then 0 else WMAX := by
  by_cases h0 : x = 0
  · subst h0; simp only [if_true]; decide
  · simp only [h0, if_false]
    have hneg : wneg x = B - x := by
      simp only [wneg, B_def] at hx ⊢; omega
    have hub : x ||| wneg x < 2 ^ 64 := by
      apply Nat.or_lt_two_pow
      · simp only [B_def] at hx; omega
      · rw [hneg]; simp only [B_def] at hx ⊢; omega
    have hlb : 2 ^ 63 ≤ x ||| wneg x := by
      by_cases hh : 2 ^ 63 ≤ x
      · exact Nat.le_trans hh Nat.left_le_or
      · refine Nat.le_trans ?_ Nat.right_le_or
        rw [hneg]; simp only [B_def]; omega
    have : (x ||| wneg x) / HALF = 1 := by
      simp only [HALF_def]; omega
    simp only [fromWordNonzero, this]; decide

/-- `select_word(a, b)` under the all-zeros / all-ones mask, by arithmetic. -/
theorem selectWord_zero_arith (a b : ℕ) : selectWord a b 0 = a := by
  simp only [selectWord, Nat.zero_and, Nat.xor_zero]
theorem selectWord_wmax_arith {a b : ℕ} (ha : a < B) (hb : b < B) : selectWord a b WMAX = b := by
  have hx : a ^^^ b < 2 ^ 64 := by
    rw [B_eq_pow] at ha hb; exact Nat.xor_lt_two_pow ha hb
  have e : WMAX &&& (a ^^^ b) = a ^^^ b := by
    rw [Nat.and_comm, show WMAX = 2 ^ 64 - 1 by decide, Nat.and_two_pow_sub_one_eq_mod,
      Nat.mod_eq_of_lt hx]
  simp only [selectWord, e]
  rw [← Nat.xor_assoc, Nat.xor_self, Nat.zero_xor]

/-- the final adjustment as computed, including the `x == 0` select. -/
theorem recip_w4 {d V3 : ℕ} (hd1 : 2 ^ 63 ≤ d) (hd2 : d < 2 ^ 64)
    (hn1 : V3 * d + 1 ≤ 2 ^ 128) (hn2 : 2 ^ 128 ≤ V3 * d + 2 * d) :
    wsub (wsub (V3 - 2 ^ 64)
        (selectWord d (mulhilo (wadd (V3 - 2 ^ 64) 1) d).1 (fromWordNonzero (wadd (V3 - 2 ^ 64) 1)))) d
      = (2 ^ 128 - 1) / d - 2 ^ 64 := by
  obtain ⟨hVl, hVu, hfin⟩ := RecipMath.final hd1 hd2 hn1 hn2
  obtain ⟨x, hx⟩ : ∃ x, x = wadd (V3 - 2 ^ 64) 1 := ⟨_, rfl⟩
  rw [← hx]
  have hxB : x < B := by rw [hx]; exact Nat.mod_lt _ (by decide)
  have hdB : d < B := by simp only [B_def]; omega
  have hhiB : (mulhilo x d).1 < B := by
    simp only [mulhilo]
    apply Nat.div_lt_of_lt_mul
    exact Nat.mul_lt_mul_of_lt_of_le hxB hdB.le (by omega)
  rw [fromWordNonzero_word hxB]
  by_cases hx0 : x = 0
  · have hV : V3 = 2 ^ 65 - 1 := by
      rw [hx0] at hx; simp only [wadd, B_def] at hx; omega
    subst hV
    simp only [hx0, if_true, selectWord_zero_arith]
    simp only [wsub, B_def]
    generalize (2 ^ 128 - 1) / d = T at hfin ⊢
    omega
  · have hxv : x = V3 + 1 - 2 ^ 64 := by
      rw [hx]; simp only [wadd, B_def] at hx hx0 ⊢; omega
    obtain ⟨H, hH⟩ : ∃ H, H = (mulhilo x d).1 := ⟨_, rfl⟩
    have hG : (V3 + 1) * d / 18446744073709551616 = H + d := by
      have : (V3 + 1) * d = x * d + 18446744073709551616 * d := by
        have : V3 + 1 = x + 18446744073709551616 := by omega
        rw [this]; ring
      rw [this, Nat.add_mul_div_left _ _ (by norm_num : 0 < 18446744073709551616), hH]
      simp only [mulhilo, B_def]
    simp only [hx0, if_false]
    rw [selectWord_wmax_arith hdB hhiB, ← hH]
    simp only [Nat.reducePow] at hfin hVl hVu ⊢
    simp only [wsub, B_def] at hxB hdB hhiB ⊢
    generalize (340282366920938463463374607431768211456 - 1) / d = T at hfin ⊢
    generalize (V3 + 1) * d / 18446744073709551616 = G at hfin hG
    omega

/-- **H_recip**: `reciprocal(d) = ⌊(2^128 − 1)/d⌋ − 2^64` for every normalised word `d`. -/
theorem hrecip : HRecip := by
  intro d hd1 hd2
  simp only [HALF_def, B_def] at hd1 hd2
  have hd1' : 2 ^ 63 ≤ d := by omega
  have hd2' : d < 2 ^ 64 := by omega
  have e0 : d &&& 1 = d % 2 := Nat.and_one_is_mod d
  have e40 : wadd (d / 2 ^ 24) 1 = d / 2 ^ 24 + 1 := by simp only [wadd, B_def]; omega
  have e63 : wadd (d / 2 ^ 1) (d % 2) = d / 2 + d % 2 := by simp only [wadd, B_def]; omega
  have ev0 : shortDiv recipV0Dividend 19 ((d / 2 ^ 55) % U32) 9 = 523520 / (d / 2 ^ 55) :=
    shortDiv_table (d / 2 ^ 55) (by omega) (by omega)
  obtain ⟨v1, hv1, h11, h12⟩ := recip_w1 (d9 := d / 2 ^ 55) (d40 := d / 2 ^ 24 + 1)
    (by omega) (by omega) (by omega) (by omega)
  obtain ⟨v2, hv2, h21, h22, h23⟩ := recip_w2 (v1 := v1) (d40 := d / 2 ^ 24 + 1) (by omega) h11 h12
  obtain ⟨e, V3, he, hv3, _, _, hn1, hn2⟩ := recip_w3 hd1' hd2' h21 h22 h23
  have hfin := recip_w4 hd1' hd2' hn1 hn2
  unfold reciprocalImpl
  simp only []
  rw [e0, Nat.shiftRight_eq_div_pow d 55, Nat.shiftRight_eq_div_pow d 24,
    Nat.shiftRight_eq_div_pow d 1, e40, e63, ev0, hv1, hv2, he, hv3, hfin]
  simp only [reciprocalSpec, B_def]; norm_num

/-- the hypotheses are satisfiable: the two extreme divisors (`v3` wraps for `d = 2^63`). -/
example : reciprocalImpl HALF = WMAX ∧ reciprocalImpl WMAX = 1 :=
  ⟨(hrecip HALF (by decide) (by decide)).trans (by decide),
   (hrecip WMAX (by decide) (by decide)).trans (by decide)⟩

end CB.Div
