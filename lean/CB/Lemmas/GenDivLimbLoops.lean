/-
  CB.Lemmas.GenDivLimbLoops — the hand-written `Nat`/list model of division by a LIMB (`divLimbLoopRev`, `remLimbLoopRev`,
  `divRemLimbWithReciprocal`, `remLimbWithReciprocal`, `remLimbWithReciprocalWide`, `divRemLimb`, `remLimb` of
  CB/Model/DivLimb.lean — what T02.3 / T02.9 of CB/Props/C02.lean are proved about) IS the translated source
  (CB/Gen/DivLimbLoops.lean, regenerated from src/uint/div_limb.rs and src/uint/div.rs on every run), for EVERY limb count.

  The translated loops count DOWN (`while j > 0 { j -= 1; .. }`, recursion on the counter `n` itself): after the rounds
  `n-1, .., 0` the remainder is the model's loop on the first `n` limbs read most significant first, and the quotient
  array is (the model's quotient limbs of those rounds, reversed) ++ (the positions `n..`, untouched).  One round of a
  translated loop is taken from CB/Lemmas/GenBitsDivLimbLoops.lean (that is where the generated text is read), one
  `div2by1` from `GenBits.div2by1_bridge`, the normalising shift from `GenShifts.shlLimb_bridge`.  No `bv_decide` here.
-/
import CB.Lemmas.GenBitsDivLimbLoops
import CB.Lemmas.GenShifts
import CB.Lemmas.C02LimbDiv
import CB.Lemmas.C02Wide
namespace CB.GenDivLimbLoops
open CB CB.Div CB.Gen CB.GenBits CB.GenShifts

/-! ## the two models of `Uint::shl_limb` (CB.Div, used by the division model, and CB.Shift, bridged in GenShifts) agree -/

theorem shlLimbLoop_models_eq (l r nz prev : Nat) (xs : List Nat) :
    Div.shlLimbLoop l r nz prev xs = Shift.shlLimbLoop l r nz prev xs := by
  induction xs generalizing prev with
  | nil => rfl
  | cons x xs ih =>
    simp only [Div.shlLimbLoop, Shift.shlLimbLoop, ih, Shift.wshl, Shift.wshr, Shift.ifTrueWord, Nat.shiftLeft_eq,
      Nat.shiftRight_eq_div_pow]

theorem shlLimb_models_eq (a : List Nat) {s : Nat} (hs : s < 64) : Div.shlLimb a s = Shift.shlLimb a s := by
  have hs32 : s < Shift.TWO32 := Nat.lt_trans hs (by decide)
  have hnz : Shift.fromU32Nonzero s = Div.nzMask s := by
    rw [CB.Shift.fromU32Nonzero_spec hs32]
    unfold Div.nzMask mask
    by_cases h : s = 0 <;> simp [h, WMAX]
  have hrs : Shift.ifTrueU32 (Div.nzMask s) (64 - s) = if s = 0 then 0 else 64 - s := by
    rw [← hnz, CB.Shift.fromU32Nonzero_spec hs32, CB.Bits.ifTrueU32_mask (by simp only [CB.Shift.TWO32_def]; omega)]
    by_cases h : s = 0 <;> simp [h]
  cases a with
  | nil =>
    simp only [Div.shlLimb, Shift.shlLimb, List.getLastD_nil, Shift.wrappingShr, Shift.ifTrueWord, Nat.zero_div,
      Nat.zero_and]
  | cons x xs =>
    simp only [Div.shlLimb, Shift.shlLimb, hnz, hrs, shlLimbLoop_models_eq, Shift.wshl, Shift.wrappingShr,
      Shift.ifTrueWord, Nat.shiftLeft_eq, Nat.shiftRight_eq_div_pow]

/-- the division model's `shlLimb` IS the translated `Uint::shl_limb`, for a shift below 64 -/
theorem shl_limb_src (u : List (BitVec 64)) (s : BitVec 32) (hs : s.toNat < 64) :
    Div.shlLimb (nats u) s.toNat = (nats (Shifts.Uint.shl_limb u.length u s).1, (Shifts.Uint.shl_limb u.length u s).2.toNat) := by
  rw [shlLimb_models_eq _ hs]; exact shlLimb_bridge u s hs

theorem shl_limb_length (u : List (BitVec 64)) (s : BitVec 32) (hs : s.toNat < 64) :
    (Shifts.Uint.shl_limb u.length u s).1.length = u.length := by
  have h := (Div.shlLimb_spec hs (nats_WF u)).2.2.1
  rw [shl_limb_src u s hs] at h
  simpa [nats] using h

/-- `r >> reciprocal.shift` of the source (release semantics: amount modulo 64) for a shift below 64 -/
theorem unshift_toNat (r : BitVec 64) (s : BitVec 32) (hs : s.toNat < 64) :
    (r >>> (s % 64#32)).toNat = r.toNat >>> s.toNat := by
  rw [BitVec.ushiftRight_eq', BitVec.toNat_ushiftRight, mod64_toNat, Nat.mod_eq_of_lt hs]

/-! ## the loops -/

/-- the count-down loop of `div_rem_limb_with_reciprocal`, started at `j = n`: the model's loop on the first `n` limbs, most
    significant first; quotient limbs `0..n` written, the others untouched -/
theorem div_loop_bridge (L : Nat) (rc : DivLimb.Reciprocal) (us : List (BitVec 64)) :
    ∀ (n : Nat) (r : BitVec 64) (q : List (BitVec 64)), n ≤ us.length → n ≤ q.length →
      (DivLimbLoops.div_rem_limb_with_reciprocal_loop1 L rc us n r q).1.toNat =
          (divLimbLoopRev (rcNat rc) (nats (us.take n)).reverse r.toNat).2 ∧
      nats (DivLimbLoops.div_rem_limb_with_reciprocal_loop1 L rc us n r q).2 =
          (divLimbLoopRev (rcNat rc) (nats (us.take n)).reverse r.toNat).1.reverse ++ nats (q.drop n) := by
  intro n
  induction n with
  | zero =>
    intro r q _ _
    rw [div_limb_loop_zero]
    simp [nats, divLimbLoopRev_nil]
  | succ n ih =>
    intro r q hu hq
    rw [div_limb_loop_succ]
    have hb := div2by1_bridge r (us.getD n 0#64) rc
    obtain ⟨i1, i2⟩ := ih (DivLimb.div2by1 r (us.getD n 0#64) rc).2 (q.set n (DivLimb.div2by1 r (us.getD n 0#64) rc).1)
      (by omega) (by rw [List.length_set]; omega)
    have ht : (nats (us.take (n + 1))).reverse = (us.getD n 0#64).toNat :: (nats (us.take n)).reverse := by
      rw [take_succ_getD us n (by omega)]
      simp [nats]
    rw [ht, divLimbLoopRev_cons, hb]
    refine ⟨i1, ?_⟩
    rw [i2, drop_set_self q n _ (by omega)]
    simp [nats]

/-- a remainder-only count-down loop (the loop of `rem_limb_with_reciprocal` and both loops of the wide form have this
    shape): the model's fold on the first `n` limbs, most significant first -/
theorem rem_loop_generic (rc : DivLimb.Reciprocal) (us : List (BitVec 64)) (f : Nat → BitVec 64 → BitVec 64)
    (h0 : ∀ r, f 0 r = r) (hs : ∀ n r, f (n + 1) r = f n (DivLimb.div2by1 r (us.getD n 0#64) rc).2) :
    ∀ (n : Nat) (r : BitVec 64), n ≤ us.length →
      (f n r).toNat = remLimbLoopRev (rcNat rc) (nats (us.take n)).reverse r.toNat := by
  intro n
  induction n with
  | zero => intro r _; rw [h0]; simp [nats, remLimbLoopRev_nil]
  | succ n ih =>
    intro r hu
    have hb := div2by1_bridge r (us.getD n 0#64) rc
    have ht : (nats (us.take (n + 1))).reverse = (us.getD n 0#64).toNat :: (nats (us.take n)).reverse := by
      rw [take_succ_getD us n (by omega)]
      simp [nats]
    rw [hs, ih _ (by omega), ht, remLimbLoopRev_cons, hb]

theorem rem_loop_bridge (L : Nat) (rc : DivLimb.Reciprocal) (us : List (BitVec 64)) (r : BitVec 64) :
    (DivLimbLoops.rem_limb_with_reciprocal_loop1 L rc us us.length r).toNat =
      remLimbLoopRev (rcNat rc) (nats us).reverse r.toNat := by
  have h := rem_loop_generic rc us (DivLimbLoops.rem_limb_with_reciprocal_loop1 L rc us) (rem_limb_loop_zero L rc us)
    (rem_limb_loop_succ L rc us) us.length r (Nat.le_refl _)
  rwa [List.take_length] at h

theorem rem_wide_loop1_bridge (L : Nat) (rc : DivLimb.Reciprocal) (us : List (BitVec 64)) (r : BitVec 64) :
    (DivLimbLoops.rem_limb_with_reciprocal_wide_loop1 L rc us us.length r).toNat =
      remLimbLoopRev (rcNat rc) (nats us).reverse r.toNat := by
  have h := rem_loop_generic rc us (DivLimbLoops.rem_limb_with_reciprocal_wide_loop1 L rc us) (rem_wide_loop1_zero L rc us)
    (rem_wide_loop1_succ L rc us) us.length r (Nat.le_refl _)
  rwa [List.take_length] at h

theorem rem_wide_loop2_bridge (L : Nat) (rc : DivLimb.Reciprocal) (us : List (BitVec 64)) (r : BitVec 64) :
    (DivLimbLoops.rem_limb_with_reciprocal_wide_loop2 L rc us us.length r).toNat =
      remLimbLoopRev (rcNat rc) (nats us).reverse r.toNat := by
  have h := rem_loop_generic rc us (DivLimbLoops.rem_limb_with_reciprocal_wide_loop2 L rc us) (rem_wide_loop2_zero L rc us)
    (rem_wide_loop2_succ L rc us) us.length r (Nat.le_refl _)
  rwa [List.take_length] at h

/-! ## the functions -/

/-- **`div_rem_limb_with_reciprocal(u, reciprocal)`** — quotient limbs and remainder limb, for every limb count and every
    reciprocal whose `shift` is below 64 (what `Reciprocal::new` produces for a non-zero divisor) -/
theorem divRemLimbWithReciprocal_bridge (u : List (BitVec 64)) (rc : DivLimb.Reciprocal) (hs : rc.shift.toNat < 64) :
    divRemLimbWithReciprocal (nats u) (rcNat rc) =
      (nats (DivLimbLoops.div_rem_limb_with_reciprocal u.length u rc).1,
       (DivLimbLoops.div_rem_limb_with_reciprocal u.length u rc).2.toNat) := by
  have hsh := shl_limb_src u rc.shift hs
  have hl := shl_limb_length u rc.shift hs
  rw [div_rem_limb_eq_loop]
  show ((divLimbLoopRev (rcNat rc) (Div.shlLimb (nats u) rc.shift.toNat).1.reverse
      (Div.shlLimb (nats u) rc.shift.toNat).2).1.reverse,
    (divLimbLoopRev (rcNat rc) (Div.shlLimb (nats u) rc.shift.toNat).1.reverse
      (Div.shlLimb (nats u) rc.shift.toNat).2).2 >>> rc.shift.toNat) = _
  rw [hsh]
  generalize Shifts.Uint.shl_limb u.length u rc.shift = S at hl ⊢
  obtain ⟨b1, b2⟩ := div_loop_bridge u.length rc S.1 u.length S.2 (List.replicate u.length 0#64) (by omega) (by simp)
  rw [List.take_of_length_le (by omega)] at b1 b2
  simp only [unshift_toNat _ _ hs, b1, b2]
  simp [nats]

/-- **`rem_limb_with_reciprocal(u, reciprocal)`** -/
theorem remLimbWithReciprocal_bridge (u : List (BitVec 64)) (rc : DivLimb.Reciprocal) (hs : rc.shift.toNat < 64) :
    remLimbWithReciprocal (nats u) (rcNat rc) = (DivLimbLoops.rem_limb_with_reciprocal u.length u rc).toNat := by
  have hsh := shl_limb_src u rc.shift hs
  have hl := shl_limb_length u rc.shift hs
  rw [rem_limb_eq_loop]
  show (remLimbLoopRev (rcNat rc) (Div.shlLimb (nats u) rc.shift.toNat).1.reverse
      (Div.shlLimb (nats u) rc.shift.toNat).2) >>> rc.shift.toNat = _
  rw [hsh]
  generalize Shifts.Uint.shl_limb u.length u rc.shift = S at hl ⊢
  have b := rem_loop_bridge u.length rc S.1 S.2
  rw [hl] at b
  rw [unshift_toNat _ _ hs, b]

theorem orLimb0_nats (l : List (BitVec 64)) (c : BitVec 64) :
    orLimb0 (nats l) c.toNat = nats (l.set 0 ((l.getD 0 0#64) ||| c)) := by
  cases l with
  | nil => rfl
  | cons h t => simp [orLimb0, nats]

/-- **`rem_limb_with_reciprocal_wide((lo, hi), reciprocal)`** — both halves of one limb count -/
theorem remLimbWide_bridge (lo hi : List (BitVec 64)) (rc : DivLimb.Reciprocal) (hs : rc.shift.toNat < 64)
    (hlen : hi.length = lo.length) :
    remLimbWithReciprocalWide (nats lo) (nats hi) (rcNat rc) =
      (DivLimbLoops.rem_limb_with_reciprocal_wide lo.length (lo, hi) rc).toNat := by
  have hlo := shl_limb_src lo rc.shift hs
  have hhi := shl_limb_src hi rc.shift hs
  have llo := shl_limb_length lo rc.shift hs
  have lhi := shl_limb_length hi rc.shift hs
  rw [hlen] at hhi lhi
  rw [rem_wide_eq_loop]
  show (remLimbLoopRev (rcNat rc) (Div.shlLimb (nats lo) rc.shift.toNat).1.reverse
      (remLimbLoopRev (rcNat rc)
        (orLimb0 (Div.shlLimb (nats hi) rc.shift.toNat).1 (Div.shlLimb (nats lo) rc.shift.toNat).2).reverse
        (Div.shlLimb (nats hi) rc.shift.toNat).2)) >>> rc.shift.toNat = _
  rw [hlo, hhi]
  generalize Shifts.Uint.shl_limb lo.length lo rc.shift = LS at llo ⊢
  generalize Shifts.Uint.shl_limb lo.length hi rc.shift = HS at lhi ⊢
  have b1 := rem_wide_loop1_bridge lo.length rc (HS.1.set 0 ((HS.1.getD 0 0#64) ||| LS.2)) HS.2
  rw [List.length_set, lhi] at b1
  have b2 := rem_wide_loop2_bridge lo.length rc LS.1
    (DivLimbLoops.rem_limb_with_reciprocal_wide_loop1 lo.length rc (HS.1.set 0 ((HS.1.getD 0 0#64) ||| LS.2)) lo.length HS.2)
  rw [llo] at b2
  rw [unshift_toNat _ _ hs, b2, b1, orLimb0_nats]

/-! ## `Reciprocal::new`, the `impl Uint` wrappers, `mul_rem` -/

theorem toNat_pos_of_ne (x : BitVec 64) (hx : x ≠ 0#64) : 0 < x.toNat := by
  rcases Nat.eq_zero_or_pos x.toNat with h | h
  · exact absurd (BitVec.eq_of_toNat_eq (by simpa using h)) hx
  · exact h

/-- the `shift` of the translated `Reciprocal::new(d)` is below 64 for a non-zero divisor -/
theorem new_shift_lt (x : BitVec 64) (hx : x ≠ 0#64) : (DivLimb.Reciprocal.new x).shift.toNat < 64 := by
  have e : (rcNat (DivLimb.Reciprocal.new x)).shift = leadingZeros x.toNat := by rw [← new_bridge]; rfl
  have h := (leadingZeros_spec (toNat_pos_of_ne x hx) (toNat_lt_B x)).1
  rw [← e] at h
  exact h

/-- **`Uint::div_rem_limb(rhs)`** for a non-zero limb -/
theorem divRemLimb_bridge (u : List (BitVec 64)) (d : BitVec 64) (hd : d ≠ 0#64) :
    divRemLimb (nats u) d.toNat =
      (nats (DivLimbLoops.Uint.div_rem_limb u.length u d).1, (DivLimbLoops.Uint.div_rem_limb u.length u d).2.toNat) := by
  rw [uint_div_rem_limb_eq, ← divRemLimbWithReciprocal_bridge u _ (new_shift_lt d hd), ← new_bridge]
  rfl

/-- **`Uint::rem_limb(rhs)`** for a non-zero limb -/
theorem remLimb_bridge (u : List (BitVec 64)) (d : BitVec 64) (hd : d ≠ 0#64) :
    remLimb (nats u) d.toNat = (DivLimbLoops.Uint.rem_limb u.length u d).toNat := by
  rw [uint_rem_limb_eq, ← remLimbWithReciprocal_bridge u _ (new_shift_lt d hd), ← new_bridge]
  rfl

/-- **`mul_rem(a, b, d)`**: `rem_limb` of the two-limb product `[lo, hi]` of `mulhilo` -/
theorem mulRem_bridge (a b d : BitVec 64) (hd : d ≠ 0#64) :
    remLimb [(mulhilo a.toNat b.toNat).2, (mulhilo a.toNat b.toNat).1] d.toNat =
      (DivLimbLoops.MulRem.mul_rem a b d).toNat := by
  rw [mul_rem_eq]
  have h := remLimbWithReciprocal_bridge [(Prim.mulhilo a b).2, (Prim.mulhilo a b).1] _ (new_shift_lt d hd)
  rw [← new_bridge] at h
  rw [mulhilo_bridge]
  exact h

end CB.GenDivLimbLoops
