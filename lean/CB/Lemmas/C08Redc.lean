/-
  CB.Lemmas.C08Redc — value equations of the Montgomery reduction loops of `CB.Model.Monty`
  (`lowerChain`, `upperChain`, `redcLoop`) and of the final `sub_mod_with_carry`.
-/
import CB.Model.Monty
import CB.Lemmas.Chains
import Mathlib.Tactic.LinearCombination
import Mathlib.Tactic.Ring
namespace CB.Monty
open CB

/-! ### generic list/value facts -/

theorem val_append (a b : List Nat) : val (a ++ b) = val a + B ^ a.length * val b := by
  induction a with
  | nil => simp
  | cons x xs ih =>
    simp only [List.cons_append, val_cons, ih, List.length_cons, Nat.pow_succ]
    ring

theorem WF_append {a b : List Nat} : WF (a ++ b) ↔ WF a ∧ WF b := by
  constructor
  · intro h
    exact ⟨fun x hx => h x (List.mem_append_left _ hx), fun x hx => h x (List.mem_append_right _ hx)⟩
  · intro ⟨h1, h2⟩ x hx
    rcases List.mem_append.mp hx with h | h
    · exact h1 x h
    · exact h2 x h

theorem WF_take {a : List Nat} (h : WF a) (n : Nat) : WF (a.take n) :=
  fun x hx => h x (List.mem_of_mem_take hx)
theorem WF_drop {a : List Nat} (h : WF a) (n : Nat) : WF (a.drop n) :=
  fun x hx => h x (List.mem_of_mem_drop hx)

theorem val_take_drop (a : List Nat) (n : Nat) (h : n ≤ a.length) :
    val a = val (a.take n) + B ^ n * val (a.drop n) := by
  have := val_append (a.take n) (a.drop n)
  rw [List.take_append_drop, List.length_take, Nat.min_eq_left h] at this
  exact this

/-- decidable well-formedness for concrete lists (non-vacuity examples) -/
theorem WF_of_all (l : List Nat) (h : l.all (fun x => decide (x < B)) = true) : WF l := by
  intro x hx
  have := List.all_eq_true.mp h x hx
  simpa using this

theorem Bpow_pos (n : Nat) : 0 < B ^ n := Nat.pow_pos B_pos

/-! ### the two inner loops -/

theorem lowerChain_cons (u x m c : Nat) (xs ms : List Nat) :
    lowerChain u (x :: xs) (m :: ms) c =
      ((mac x u m c).1 :: (lowerChain u xs ms (mac x u m c).2).1,
       (lowerChain u xs ms (mac x u m c).2).2.1, (lowerChain u xs ms (mac x u m c).2).2.2) := rfl

theorem lowerChain_nil (u c : Nat) (ms : List Nat) : lowerChain u [] ms c = ([], c, ms) := by
  cases ms <;> rfl

/-- first inner loop: exact value equation, carry is a word, the unconsumed modulus limbs come back. -/
theorem lowerChain_spec (u : Nat) (hu : u < B) :
    ∀ (xs ms : List Nat) (c : Nat), WF xs → WF ms → c < B → xs.length ≤ ms.length →
      val (lowerChain u xs ms c).1 + B ^ xs.length * (lowerChain u xs ms c).2.1
          = val xs + u * val (ms.take xs.length) + c ∧
      WF (lowerChain u xs ms c).1 ∧ (lowerChain u xs ms c).1.length = xs.length ∧
      (lowerChain u xs ms c).2.1 < B ∧ (lowerChain u xs ms c).2.2 = ms.drop xs.length := by
  intro xs
  induction xs with
  | nil =>
    intro ms c _ _ hc _
    rw [lowerChain_nil]
    simp [hc, WF_nil]
  | cons x xs ih =>
    intro ms c hxs hms hc hl
    cases ms with
    | nil => simp at hl
    | cons m ms =>
      have ⟨hx, hxs'⟩ := WF_cons.mp hxs
      have ⟨hm, hms'⟩ := WF_cons.mp hms
      have ⟨m1, m2, m3⟩ := mac_spec hx hu hm hc
      have ⟨i1, i2, i3, i4, i5⟩ := ih ms (mac x u m c).2 hxs' hms' m3 (by simpa using hl)
      rw [lowerChain_cons]
      refine ⟨?_, WF_cons.mpr ⟨m2, i2⟩, by simp [i3], i4, by simpa using i5⟩
      simp only [val_cons, List.length_cons, List.take_succ_cons, Nat.pow_succ]
      linear_combination m1 + B * i1

theorem upperChain_cons (u x m c mc : Nat) (xs ms : List Nat) :
    upperChain u (x :: xs) (m :: ms) c mc =
      ((mac x u m c).1 :: (upperChain u xs ms (mac x u m c).2 mc).1,
       (upperChain u xs ms (mac x u m c).2 mc).2) := rfl

theorem upperChain_last (u x c mc : Nat) (xs : List Nat) :
    upperChain u (x :: xs) [] c mc = ((adc x c mc).1 :: xs, (adc x c mc).2) := rfl

/-- second inner loop plus the `adc` into `upper[i]`: the carry out of that limb is deferred as `meta_carry`. -/
theorem upperChain_spec (u : Nat) (hu : u < B) :
    ∀ (ms xs : List Nat) (c mc : Nat), WF xs → WF ms → c < B → mc ≤ 1 → ms.length < xs.length →
      val (upperChain u xs ms c mc).1 + B ^ (ms.length + 1) * (upperChain u xs ms c mc).2
          = val xs + u * val ms + c + B ^ ms.length * mc ∧
      WF (upperChain u xs ms c mc).1 ∧ (upperChain u xs ms c mc).1.length = xs.length ∧
      (upperChain u xs ms c mc).2 ≤ 1 := by
  intro ms
  induction ms with
  | nil =>
    intro xs c mc hxs _ hc hmc hl
    cases xs with
    | nil => simp at hl
    | cons x xs =>
      have ⟨hx, hxs'⟩ := WF_cons.mp hxs
      have ⟨a1, a2⟩ := adc_spec x c mc
      rw [upperChain_last]
      refine ⟨?_, WF_cons.mpr ⟨a2, hxs'⟩, by simp, ?_⟩
      · simp only [val_cons, val_nil, List.length_nil, Nat.pow_zero, Nat.zero_add, Nat.pow_one]
        linear_combination a1
      · simp only [adc, B_def] at *; omega
  | cons m ms ih =>
    intro xs c mc hxs hms hc hmc hl
    cases xs with
    | nil => simp at hl
    | cons x xs =>
      have ⟨hx, hxs'⟩ := WF_cons.mp hxs
      have ⟨hm, hms'⟩ := WF_cons.mp hms
      have ⟨m1, m2, m3⟩ := mac_spec hx hu hm hc
      have ⟨i1, i2, i3, i4⟩ := ih xs (mac x u m c).2 mc hxs' hms' m3 hmc (by simpa using hl)
      rw [upperChain_cons]
      refine ⟨?_, WF_cons.mpr ⟨m2, i2⟩, by simp [i3], i4⟩
      simp only [val_cons, List.length_cons, Nat.pow_succ]
      linear_combination m1 + B * i1

/-! ### one outer iteration -/

/-- `lower[i] + u·modulus[0]` is a multiple of `B` when `u = lower[i]·k mod B` and `k·m₀ ≡ −1 (mod B)`. -/
theorem lowlimb_cancel {x k m0 : Nat} (hx : x < B) (hm0 : m0 < B) (hk : (k * m0 + 1) % B = 0) :
    x + wmul x k * m0 = B * (mac x (wmul x k) m0 0).2 := by
  have hu : wmul x k < B := Nat.mod_lt _ B_pos
  have ⟨m1, _, _⟩ := mac_spec hx hu hm0 (show 0 < B from B_pos)
  -- the low word of the mac is 0
  have hlow : (mac x (wmul x k) m0 0).1 = 0 := by
    have e : (mac x (wmul x k) m0 0).1 = (x + wmul x k * m0) % B := by
      simp only [mac, Nat.add_zero, Nat.mod_mod]
    rw [e]
    simp only [wmul]
    have h1 : (x + x * k % B * m0) % B = (x * (k * m0 + 1)) % B := by
      rw [Nat.add_mod, Nat.mul_mod (x * k % B) m0 B, Nat.mod_mod, ← Nat.mul_mod, ← Nat.add_mod]
      congr 1; ring
    rw [h1, Nat.mul_mod, hk, Nat.mul_zero, Nat.zero_mod]
  rw [hlow] at m1
  omega

/-- the quantity one outer iteration divides by `B`: live lower limbs, `upper`, deferred carry. -/
def W (lo up : List Nat) (mc : Nat) : Nat := val lo + B ^ lo.length * val up + B ^ up.length * mc

theorem redcLoop_zero (k : Nat) (ms lo up : List Nat) (mc : Nat) :
    redcLoop k ms 0 lo up mc = (up, mc) := rfl
theorem redcLoop_succ (k : Nat) (ms lo up : List Nat) (x mc fuel : Nat) :
    redcLoop k ms (fuel + 1) (x :: lo) up mc =
      redcLoop k ms fuel
        (lowerChain (wmul x k) lo ms.tail (mac x (wmul x k) (ms.headD 0) 0).2).1
        (upperChain (wmul x k) up (lowerChain (wmul x k) lo ms.tail (mac x (wmul x k) (ms.headD 0) 0).2).2.2
          (lowerChain (wmul x k) lo ms.tail (mac x (wmul x k) (ms.headD 0) 0).2).2.1 mc).1
        (upperChain (wmul x k) up (lowerChain (wmul x k) lo ms.tail (mac x (wmul x k) (ms.headD 0) 0).2).2.2
          (lowerChain (wmul x k) lo ms.tail (mac x (wmul x k) (ms.headD 0) 0).2).2.1 mc).2 := rfl

/-- The whole outer loop: after `fuel = |lower|` iterations
    `(upper' + B^n·meta_carry)·B^fuel = W + U·M` for some `U < B^fuel`. -/
theorem redcLoop_spec (k m0 : Nat) (mt : List Nat) (hm0 : m0 < B) (hmt : WF mt)
    (hk : (k * m0 + 1) % B = 0) :
    ∀ (fuel : Nat) (lo up : List Nat) (mc : Nat), lo.length = fuel → fuel ≤ mt.length + 1 →
      up.length = mt.length + 1 → WF lo → WF up → mc ≤ 1 →
      ∃ U, U < B ^ fuel ∧
        (val (redcLoop k (m0 :: mt) fuel lo up mc).1 + B ^ up.length * (redcLoop k (m0 :: mt) fuel lo up mc).2)
            * B ^ fuel = W lo up mc + U * val (m0 :: mt) ∧
        WF (redcLoop k (m0 :: mt) fuel lo up mc).1 ∧
        (redcLoop k (m0 :: mt) fuel lo up mc).1.length = up.length ∧
        (redcLoop k (m0 :: mt) fuel lo up mc).2 ≤ 1 := by
  intro fuel
  induction fuel with
  | zero =>
    intro lo up mc hl _ _ _ hup hmc
    have : lo = [] := List.length_eq_zero_iff.mp hl
    subst this
    refine ⟨0, by simp, ?_, hup, rfl, hmc⟩
    simp [redcLoop_zero, W]
  | succ fuel ih =>
    intro lo up mc hl hfl hul hlo hup hmc
    cases lo with
    | nil => simp at hl
    | cons x lo =>
      have ⟨hx, hlo'⟩ := WF_cons.mp hlo
      have hll : lo.length = fuel := by simpa using hl
      have hu : wmul x k < B := Nat.mod_lt _ B_pos
      have ⟨_, _, c0lt⟩ := mac_spec hx hu hm0 (show 0 < B from B_pos)
      have hcancel := lowlimb_cancel hx hm0 hk
      rw [redcLoop_succ]
      simp only [List.headD_cons, List.tail_cons] at *
      generalize hc0 : (mac x (wmul x k) m0 0).2 = c0 at *
      have hle : lo.length ≤ mt.length := by omega
      have ⟨l1, l2, l3, l4, l5⟩ := lowerChain_spec (wmul x k) hu lo mt c0 hlo' hmt c0lt hle
      generalize hL : lowerChain (wmul x k) lo mt c0 = L at *
      obtain ⟨lo', c1, msRest⟩ := L
      simp only at l1 l2 l3 l4 l5 ⊢
      have hrl : msRest.length < up.length := by
        rw [l5, List.length_drop]; omega
      have ⟨u1, u2, u3, u4⟩ := upperChain_spec (wmul x k) hu msRest up c1 mc hup (l5 ▸ WF_drop hmt _) l4 hmc hrl
      generalize hU : upperChain (wmul x k) up msRest c1 mc = Up at *
      obtain ⟨up', mc'⟩ := Up
      simp only at u1 u2 u3 u4 ⊢
      have ⟨U, hUlt, e, w, len, mcle⟩ :=
        ih lo' up' mc' (by rw [l3, hll]) (by omega) (by rw [u3, hul]) l2 u2 u4
      refine ⟨wmul x k + B * U, ?_, ?_, w, by rw [len, u3], mcle⟩
      · rw [Nat.pow_succ]
        have : B * (U + 1) ≤ B * B ^ fuel := Nat.mul_le_mul_left B hUlt
        rw [Nat.mul_comm (B ^ fuel) B]
        rw [Nat.mul_add] at this
        omega
      · -- W' · B = W + u·M
        have hsplit := val_take_drop mt lo.length hle
        rw [← l5] at hsplit
        have hrest : msRest.length + lo.length = mt.length := by
          rw [l5, List.length_drop]; omega
        have hstep : W lo' up' mc' * B = W (x :: lo) up mc + wmul x k * val (m0 :: mt) := by
          simp only [W, val_cons, List.length_cons, l3, u3]
          rw [hsplit]
          have e1 : B ^ up.length = B ^ lo.length * B ^ msRest.length * B := by
            rw [← Nat.pow_add, ← Nat.pow_succ]; congr 1; omega
          rw [e1]
          rw [Nat.pow_succ] at u1
          linear_combination hcancel.symm + B * l1 + B ^ lo.length * B * u1
        rw [u3] at e
        rw [Nat.pow_succ, ← Nat.mul_assoc, e, Nat.add_mul, hstep]
        ring

/-! ### `sub_mod_with_carry` -/

theorem bitandLimb_zero (p : List Nat) : bitandLimb p 0 = uzero p.length := by
  induction p with
  | nil => rfl
  | cons x xs ih =>
    simp only [bitandLimb, List.map_cons, Nat.and_zero, List.length_cons, uzero, List.replicate_succ] at *
    rw [ih]

theorem bitandLimb_max {p : List Nat} (hp : WF p) : bitandLimb p WMAX = p := by
  induction p with
  | nil => rfl
  | cons x xs ih =>
    have ⟨hx, hxs⟩ := WF_cons.mp hp
    simp only [bitandLimb, List.map_cons] at *
    rw [ih hxs]
    congr 1
    have : WMAX = 2 ^ 64 - 1 := by decide
    rw [this, Nat.and_two_pow_sub_one_eq_mod, ← B_eq_pow, Nat.mod_eq_of_lt hx]

theorem bitandLimb_mask {p : List Nat} (hp : WF p) (b : Bool) :
    bitandLimb p (mask b) = if b then p else uzero p.length := by
  cases b
  · simp [mask, bitandLimb_zero]
  · simp [mask, bitandLimb_max hp]

/-- the mask of `sub_mod_with_carry`: `(!(-carry)) & borrow` for `carry ∈ {0,1}`, `borrow ∈ {0,MAX}`. -/
theorem carry_mask (c : Bool) (bw : Bool) :
    (wnot (wneg (if c then 1 else 0))) &&& (mask bw) = mask (!c && bw) := by
  cases c <;> cases bw <;> decide

theorem wrappingAdd_val {a b : List Nat} (h : a.length = b.length) :
    val (wrappingAdd a b) = (val a + val b) % B ^ a.length ∧ WF (wrappingAdd a b) ∧
    (wrappingAdd a b).length = a.length := by
  have s := uadc_spec a b 0 h
  have w := uadc_WF a b 0
  have l := uadc_length a b 0 h
  have lt := val_lt w
  rw [l] at lt
  refine ⟨?_, w, l⟩
  simp only [wrappingAdd]
  have hp := Bpow_pos a.length
  rw [Nat.add_zero] at s
  rw [← s, Nat.add_mul_mod_self_left, Nat.mod_eq_of_lt lt]

theorem wnot_wneg_zero : wnot (wneg 0) = WMAX := by decide
theorem wnot_wneg_one : wnot (wneg 1) = 0 := by decide
theorem WMAX_and_self : WMAX &&& WMAX = WMAX := by decide

/-- `sub_mod_with_carry(carry, p, p)` on `X = a + carry·2^BITS < 2p`: the result is `X − p` if `X ≥ p`, else `X`. -/
theorem subModWithCarry_spec {a p : List Nat} {carry : Nat} (ha : WF a) (hp : WF p)
    (hl : a.length = p.length) (hc : carry ≤ 1) (hX : val a + B ^ a.length * carry < 2 * val p) :
    val (subModWithCarry a carry p p) = (if val p ≤ val a + B ^ a.length * carry
        then val a + B ^ a.length * carry - val p else val a + B ^ a.length * carry) ∧
    val (subModWithCarry a carry p p) < val p ∧
    WF (subModWithCarry a carry p p) ∧ (subModWithCarry a carry p p).length = a.length := by
  have ⟨s1, _, s3⟩ := usbb_spec ha hp B_pos hl
  have sl := usbb_length a p 0 hl
  have sw := usbb_WF a p 0
  simp only [subModWithCarry]
  generalize usbb a p 0 = S at *
  obtain ⟨out, bw⟩ := S
  simp only at s1 s3 sl sw ⊢
  have hne : a ≠ [] := by
    intro h; subst h
    have : p = [] := List.length_eq_zero_iff.mp hl.symm
    subst this; simp at hX
  have hplt := val_lt hp
  have halt := val_lt ha
  have holt := val_lt sw
  rw [sl] at holt
  rw [← hl] at hplt
  have h0 : (0 : Nat) / HALF = 0 := by decide
  have h1 : WMAX / HALF = 1 := by decide
  rw [h0, Nat.add_zero] at s1
  have lz : out.length = (uzero p.length).length := by simp [sl, hl, uzero]
  have lp : out.length = p.length := by rw [sl, hl]
  have ⟨z1, z2, z3⟩ := wrappingAdd_val lz
  have ⟨p1, p2, p3⟩ := wrappingAdd_val lp
  rw [val_uzero, Nat.add_zero, sl, Nat.mod_eq_of_lt holt] at z1
  rw [sl] at p1 z3 p3
  generalize B ^ a.length = K at *
  rcases Nat.le_one_iff_eq_zero_or_eq_one.mp hc with h | h <;> subst h <;>
    rcases s3 hne with hb | hb <;> subst hb
  · -- carry 0, no borrow: result a − p
    rw [wnot_wneg_zero, Nat.and_zero, bitandLimb_zero]
    rw [h0] at s1
    refine ⟨?_, ?_, z2, z3⟩
    · rw [z1, if_pos (by omega)]; omega
    · rw [z1]; omega
  · -- carry 0, borrow: add p back, result a
    rw [wnot_wneg_zero, WMAX_and_self, bitandLimb_max hp]
    rw [h1] at s1
    have e : (val out + val p) % K = val a := by
      rw [s1, Nat.mul_one, Nat.add_mod_right, Nat.mod_eq_of_lt halt]
    refine ⟨?_, ?_, p2, p3⟩
    · rw [p1, e, if_neg (by omega)]; omega
    · rw [p1, e]; omega
  · -- carry 1, no borrow: impossible (a ≥ p and a + 2^BITS < 2p)
    rw [h0] at s1
    exfalso; omega
  · -- carry 1, borrow absorbed: result a + 2^BITS − p
    rw [wnot_wneg_one, Nat.zero_and, bitandLimb_zero]
    rw [h1] at s1
    refine ⟨?_, ?_, z2, z3⟩
    · rw [z1, if_pos (by omega)]; omega
    · rw [z1]; omega

/-! ### the whole reduction -/

/-- `k·m ≡ −1 (mod B)` only depends on the lowest limb. -/
theorem negInv_low {k m0 : Nat} {mt : List Nat} (hk : (k * val (m0 :: mt) + 1) % B = 0) :
    (k * m0 + 1) % B = 0 := by
  rw [val_cons] at hk
  have : k * (m0 + B * val mt) + 1 = (k * m0 + 1) + B * (k * val mt) := by ring
  rw [this, Nat.add_mul_mod_self_left] at hk
  exact hk

/-- `montgomery_reduction_inner`: for `T = lower + B^n·upper < m·B^n` the pair `(upper', meta_carry)` satisfies
    `X·B^n = T + U·m` with `X = upper' + B^n·meta_carry < 2m` — one conditional subtraction suffices. -/
theorem redcInner_spec_n {lo hi ms : List Nat} {k n : Nat} (hlo : WF lo) (hhi : WF hi) (hms : WF ms)
    (hll : lo.length = n) (hhl : hi.length = n) (hn : ms.length = n)
    (hk : (k * val ms + 1) % B = 0)
    (hT : val lo + B ^ n * val hi < val ms * B ^ n) :
    ∃ U, U < B ^ n ∧
      (val (redcInner hi lo ms k).1 + B ^ n * (redcInner hi lo ms k).2) * B ^ n
        = val lo + B ^ n * val hi + U * val ms ∧
      val (redcInner hi lo ms k).1 + B ^ n * (redcInner hi lo ms k).2 < 2 * val ms ∧
      WF (redcInner hi lo ms k).1 ∧ (redcInner hi lo ms k).1.length = n ∧
      (redcInner hi lo ms k).2 ≤ 1 := by
  cases ms with
  | nil => simp at hT
  | cons m0 mt =>
    have ⟨hm0, hmt⟩ := WF_cons.mp hms
    have hk0 := negInv_low hk
    have hn' : mt.length + 1 = n := by simpa using hn
    have ⟨U, hU, e, w, len, mcle⟩ := redcLoop_spec k m0 mt hm0 hmt hk0 n lo hi 0
      hll (by omega) (by omega) hlo hhi (by omega)
    simp only [redcInner, hn]
    rw [hhl] at e len
    simp only [W, Nat.mul_zero, Nat.add_zero, hll, hhl] at e
    refine ⟨U, hU, e, ?_, w, len, mcle⟩
    have hK := Bpow_pos n
    generalize B ^ n = K at *
    generalize val (m0 :: mt) = M at *
    generalize val (redcLoop k (m0 :: mt) n lo hi 0).1 +
      K * (redcLoop k (m0 :: mt) n lo hi 0).2 = X at *
    have h2 : U * M ≤ K * M := Nat.mul_le_mul_right M (Nat.le_of_lt hU)
    have h3 : X * K < 2 * M * K := by
      have : 2 * M * K = M * K + K * M := by ring
      omega
    exact Nat.lt_of_mul_lt_mul_right h3

theorem redcInner_spec {lo hi ms : List Nat} {k : Nat} (hlo : WF lo) (hhi : WF hi) (hms : WF ms)
    (hll : lo.length = ms.length) (hhl : hi.length = ms.length)
    (hk : (k * val ms + 1) % B = 0)
    (hT : val lo + B ^ ms.length * val hi < val ms * B ^ ms.length) :
    ∃ U, U < B ^ ms.length ∧
      (val (redcInner hi lo ms k).1 + B ^ ms.length * (redcInner hi lo ms k).2) * B ^ ms.length
        = val lo + B ^ ms.length * val hi + U * val ms ∧
      val (redcInner hi lo ms k).1 + B ^ ms.length * (redcInner hi lo ms k).2 < 2 * val ms ∧
      WF (redcInner hi lo ms k).1 ∧ (redcInner hi lo ms k).1.length = ms.length ∧
      (redcInner hi lo ms k).2 ≤ 1 :=
  redcInner_spec_n hlo hhi hms hll hhl rfl hk hT

/-- T08.1 on the model: the public `montgomery_reduction`. -/
theorem montgomeryReduction_spec {lo hi ms : List Nat} {k : Nat} (hlo : WF lo) (hhi : WF hi) (hms : WF ms)
    (hll : lo.length = ms.length) (hhl : hi.length = ms.length)
    (hk : (k * val ms + 1) % B = 0)
    (hT : val lo + B ^ ms.length * val hi < val ms * B ^ ms.length) :
    val (montgomeryReduction lo hi ms k) < val ms ∧
    (val (montgomeryReduction lo hi ms k) * B ^ ms.length) % val ms
      = (val lo + B ^ ms.length * val hi) % val ms ∧
    WF (montgomeryReduction lo hi ms k) ∧ (montgomeryReduction lo hi ms k).length = ms.length := by
  have ⟨U, _, e, hX, w, len, mcle⟩ := redcInner_spec hlo hhi hms hll hhl hk hT
  simp only [montgomeryReduction]
  generalize redcInner hi lo ms k = R at *
  obtain ⟨up, mc⟩ := R
  simp only at e hX w len mcle ⊢
  rw [← len] at hX
  have ⟨r1, r2, r3, r4⟩ := subModWithCarry_spec w hms len mcle hX
  rw [len] at r1 r4 hX
  refine ⟨r2, ?_, r3, r4⟩
  generalize val (subModWithCarry up mc ms ms) = r at *
  generalize B ^ ms.length = K at *
  generalize val ms = M at *
  generalize val lo + K * val hi = T at *
  generalize val up + K * mc = X at *
  have hXT : (X * K) % M = T % M := by rw [e, Nat.add_mul_mod_self_right]
  rw [← hXT]
  split at r1
  · -- r = X − M
    have : X = r + M := by omega
    rw [this, Nat.add_mul, Nat.add_mod, Nat.mul_mod_right, Nat.add_zero, Nat.mod_mod]
  · rw [r1]

end CB.Monty
