/-
  CB.Lemmas.C01Leak6 — trace lemmas of property C01: Montgomery multiplication / squaring on top of `split_mul` /
  `square_wide` (Karatsuba sizes included), the window exponentiation, multi-exponentiation, linear combinations,
  `mul_mod` and the special-modulus forms, `div_by_2`.
-/
import CB.Lemmas.C01Leak3
namespace CB.Leak
open Sec

/-! ### Montgomery multiplication, exponentiation -/
def mulMontT (n : Nat) : Trace := (mulMont n [] [] [] zero).tr
@[simp] theorem mulMont_tr (n : Nat) (a b m : List Sec) (x : Sec) : (mulMont n a b m x).tr = mulMontT n := by
  unfold mulMontT mulMont; leak_simp; simp only [splitMul_tr, montgomeryReduction_tr]

def squareMontT (n : Nat) : Trace := (squareMont n [] [] zero).tr
@[simp] theorem squareMont_tr (n : Nat) (a m : List Sec) (x : Sec) : (squareMont n a m x).tr = squareMontT n := by
  unfold squareMontT squareMont; leak_simp; simp only [squareWide_tr, montgomeryReduction_tr]

def computePowersT (n : Nat) : Trace := (computePowers n [] [] [] zero).tr
@[simp] theorem computePowers_tr (n : Nat) (x m o : List Sec) (v : Sec) : (computePowers n x m o v).tr = computePowersT n := by
  unfold computePowersT computePowers
  apply forRange_tr_congr; intro i s s'; leak_simp; simp only [mulMont_tr]

def powLookupT (n : Nat) : Trace := (powLookup n [] zero).tr
@[simp] theorem powLookup_tr (n : Nat) (ps : List (List Sec)) (i : Sec) : (powLookup n ps i).tr = powLookupT n := by
  unfold powLookupT powLookup
  apply forRange_tr_congr; intro i s s'; leak_simp; simp only [uselect_tr]

def squaringsT (n : Nat) : Trace := (squarings n [] [] zero).tr
@[simp] theorem squarings_tr (n : Nat) (z m : List Sec) (v : Sec) : (squarings n z m v).tr = squaringsT n := by
  unfold squaringsT squarings
  apply forN_tr_congr; intro i s s'; simp only [squareMont_tr]

def powWindowT (n limbNum : Nat) (first : Bool) : Trace := (powWindow n [] [] [] zero limbNum 0 first 0 []).tr
@[simp] theorem powWindow_tr (n : Nat) (ps : List (List Sec)) (e m : List Sec) (v : Sec) (ln wn : Nat) (first : Bool) (fm : Nat)
    (z : List Sec) : (powWindow n ps e m v ln wn first fm z).tr = powWindowT n ln first := by
  unfold powWindowT powWindow; leak_simp; simp only [squarings_tr, powLookup_tr, mulMont_tr]

def powLoopT (n sl sw : Nat) : Trace := (powLoop n [] [] [] zero sl sw 0 []).tr
@[simp] theorem powLoop_tr (n : Nat) (ps : List (List Sec)) (e m : List Sec) (v : Sec) (sl sw fm : Nat) (z : List Sec) :
    (powLoop n ps e m v sl sw fm z).tr = powLoopT n sl sw := by
  unfold powLoopT powLoop
  apply forDown_tr_congr; intro i s s'
  apply forDown_tr_congr; intro j t t'
  simp only [powWindow_tr]

def powBoundedExpT (n ebits : Nat) : Trace := (powBoundedExp n [] [] ebits [] [] zero).tr
@[simp] theorem powBoundedExp_tr (n : Nat) (x e : List Sec) (ebits : Nat) (m o : List Sec) (v : Sec) :
    (powBoundedExp n x e ebits m o v).tr = powBoundedExpT n ebits := by
  unfold powBoundedExpT powBoundedExp; leak_simp; simp only [computePowers_tr, powLoop_tr]

@[simp] theorem pow_tr (n : Nat) (x e m o : List Sec) (v : Sec) : (pow n x e m o v).tr = powBoundedExpT n (64 * n) := by
  unfold pow; rw [powBoundedExp_tr]



/-! ### special-modulus forms, double_mod, mul_mod, div_by_2 -/
def addModSpecialT (n : Nat) : Trace := (addModSpecial n [] [] zero).tr
@[simp] theorem addModSpecial_tr (n : Nat) (a b : List Sec) (c : Sec) : (addModSpecial n a b c).tr = addModSpecialT n := by
  unfold addModSpecialT addModSpecial; leak_simp; simp only [uadc_tr, wrappingSub_tr]

def subModSpecialT (n : Nat) : Trace := (subModSpecial n [] [] zero).tr
@[simp] theorem subModSpecial_tr (n : Nat) (a b : List Sec) (c : Sec) : (subModSpecial n a b c).tr = subModSpecialT n := by
  unfold subModSpecialT subModSpecial; leak_simp; simp only [usbb_tr, wrappingSub_tr]

def overflowingShl1T (n : Nat) : Trace := (overflowingShl1 n []).tr
@[simp] theorem overflowingShl1_tr (n : Nat) (a : List Sec) : (overflowingShl1 n a).tr = overflowingShl1T n := by
  unfold overflowingShl1T overflowingShl1; leak_loop

def doubleModT (n : Nat) : Trace := (doubleMod n [] []).tr
@[simp] theorem doubleMod_tr (n : Nat) (a p : List Sec) : (doubleMod n a p).tr = doubleModT n := by
  unfold doubleModT doubleMod; leak_simp; simp only [overflowingShl1_tr, usbb_tr, bitandLimb_tr, wrappingAdd_tr]

def macByLimbT (n : Nat) : Trace := (macByLimb n [] [] zero zero).tr
@[simp] theorem macByLimb_tr (n : Nat) (a b : List Sec) (c d : Sec) : (macByLimb n a b c d).tr = macByLimbT n := by
  unfold macByLimbT macByLimb; leak_loop

def remLimbLoopT (n : Nat) : Trace := (remLimbLoop n [] zero zero zero).tr
@[simp] theorem remLimbLoop_tr (n : Nat) (u : List Sec) (d r x : Sec) : (remLimbLoop n u d r x).tr = remLimbLoopT n := by
  unfold remLimbLoopT remLimbLoop; leak_loop

def remLimbT (n : Nat) : Trace := (remLimb n [] zero).tr
@[simp] theorem remLimb_tr (n : Nat) (u : List Sec) (d : Sec) : (remLimb n u d).tr = remLimbT n := by
  unfold remLimbT remLimb; leak_simp; simp only [reciprocal_tr, shlLimb_tr, remLimbLoop_tr]

@[simp] theorem mulRem_tr (a b d : Sec) : (mulRem a b d).tr = remLimbT 2 := by
  unfold mulRem; rw [remLimb_tr]

def mulModSpecialT (n : Nat) : Trace := (mulModSpecial n [] [] zero).tr
@[simp] theorem mulModSpecial_tr (n : Nat) (a b : List Sec) (c : Sec) : (mulModSpecial n a b c).tr = mulModSpecialT n := by
  unfold mulModSpecialT mulModSpecial; leak_simp; simp only [mulRem_tr, splitMul_tr, macByLimb_tr, uadc_tr, usbb_tr]

def montyParamsNewT (n : Nat) : Trace := (montyParamsNew n []).tr
@[simp] theorem montyParamsNew_tr (n : Nat) (m : List Sec) : (montyParamsNew n m).tr = montyParamsNewT n := by
  unfold montyParamsNewT montyParamsNew; leak_simp
  simp only [udivRem_tr, addMod_tr, squareWide_tr, concatMixed_tr, splitMixed_tr, invMod2kVartime_tr, leadingZeros_tr,
    montgomeryReduction_tr]

def montyFormNewT (n : Nat) : Trace := (montyFormNew n [] [] [] zero).tr
@[simp] theorem montyFormNew_tr (n : Nat) (x r m : List Sec) (v : Sec) : (montyFormNew n x r m v).tr = montyFormNewT n := by
  unfold montyFormNewT montyFormNew; leak_simp; simp only [splitMul_tr, montgomeryReduction_tr]

@[simp] theorem montyRetrieve_tr (n : Nat) (x m : List Sec) (v : Sec) : (montyRetrieve n x m v).tr = montgomeryReductionT n := by
  unfold montyRetrieve; rw [montgomeryReduction_tr]

def mulModT (n : Nat) : Trace := (mulMod n [] [] []).tr
@[simp] theorem mulMod_tr (n : Nat) (a b p : List Sec) : (mulMod n a b p).tr = mulModT n := by
  unfold mulModT mulMod; leak_simp; simp only [montyParamsNew_tr, montyFormNew_tr, mulMont_tr, montyRetrieve_tr]

def divBy2T (n : Nat) : Trace := (divBy2 n [] []).tr
@[simp] theorem divBy2_tr (n : Nat) (a m : List Sec) : (divBy2 n a m).tr = divBy2T n := by
  unfold divBy2T divBy2; leak_simp; simp only [uadc_tr, uselect_tr, shr1_tr, setBit_tr]

/-! ### linear combination -/
def longaInnerT (n j : Nat) : Trace := (longaInner n j [] [] []).tr
@[simp] theorem longaInner_tr (n j : Nat) (a b u : List Sec) : (longaInner n j a b u).tr = longaInnerT n j := by
  unfold longaInnerT longaInner; leak_loop

def longaProductsT (n j len : Nat) : Trace := (longaProducts n j len [] [] zero).tr
@[simp] theorem longaProducts_tr (n j len : Nat) (ab : List (List Sec × List Sec)) (u : List Sec) (h : Sec) :
    (longaProducts n j len ab u h).tr = longaProductsT n j len := by
  unfold longaProductsT longaProducts
  apply forN_tr_congr; intro i s s'; leak_simp; simp only [longaInner_tr]

def longaReduceT (n : Nat) : Trace := (longaReduce n [] [] zero zero).tr
@[simp] theorem longaReduce_tr (n : Nat) (u m : List Sec) (q c : Sec) : (longaReduce n u m q c).tr = longaReduceT n := by
  unfold longaReduceT longaReduce; leak_loop

def longaLincombT (n len : Nat) : Trace := (longaLincomb n len [] [] [] zero).tr
@[simp] theorem longaLincomb_tr (n len : Nat) (ab : List (List Sec × List Sec)) (u m : List Sec) (v : Sec) :
    (longaLincomb n len ab u m v).tr = longaLincombT n len := by
  unfold longaLincombT longaLincomb
  apply forN_tr_congr; intro i s s'; leak_simp; simp only [longaProducts_tr, longaReduce_tr]

def lincombWindowsT (n len mlz : Nat) : Trace := (lincombWindows n len [] [] zero mlz).tr
@[simp] theorem lincombWindows_tr (n len : Nat) (ab : List (List Sec × List Sec)) (m : List Sec) (v : Sec) (mlz : Nat) :
    (lincombWindows n len ab m v mlz).tr = lincombWindowsT n len mlz := by
  unfold lincombWindowsT lincombWindows
  apply forN_tr_congr; intro i s s'; leak_simp; simp only [longaLincomb_tr, subModWithCarry_tr, addMod_tr]

def lincombMontyT (n len mlz : Nat) : Trace := (lincombMonty n len [] [] zero mlz).tr
@[simp] theorem lincombMonty_tr (n len : Nat) (ab : List (List Sec × List Sec)) (m : List Sec) (v : Sec) (mlz : Nat) :
    (lincombMonty n len ab m v mlz).tr = lincombMontyT n len mlz := by
  unfold lincombMontyT lincombMonty; leak_simp; simp only [longaLincomb_tr, subModWithCarry_tr, lincombWindows_tr]

/-! ### multi-exponentiation -/
def multiPowEntryT (n limbNum : Nat) : Trace := (multiPowEntry n ([], []) [] zero limbNum 0 false 0 []).tr
@[simp] theorem multiPowEntry_tr (n : Nat) (pe : List (List Sec) × List Sec) (m : List Sec) (v : Sec) (ln wn : Nat) (first : Bool)
    (fm : Nat) (z : List Sec) : (multiPowEntry n pe m v ln wn first fm z).tr = multiPowEntryT n ln := by
  unfold multiPowEntryT multiPowEntry; leak_simp; simp only [powLookup_tr, mulMont_tr]

def multiPowEntriesT (n cnt limbNum : Nat) : Trace := (multiPowEntries n cnt [] [] zero limbNum 0 false 0 []).tr
@[simp] theorem multiPowEntries_tr (n cnt : Nat) (pes : List (List (List Sec) × List Sec)) (m : List Sec) (v : Sec) (ln wn : Nat)
    (first : Bool) (fm : Nat) (z : List Sec) : (multiPowEntries n cnt pes m v ln wn first fm z).tr = multiPowEntriesT n cnt ln := by
  unfold multiPowEntriesT multiPowEntries
  apply forN_tr_congr; intro i s s'; leak_simp; simp only [multiPowEntry_tr]

def multiPowWindowT (n cnt limbNum : Nat) (first : Bool) : Trace := (multiPowWindow n cnt [] [] zero limbNum 0 first 0 []).tr
@[simp] theorem multiPowWindow_tr (n cnt : Nat) (pes : List (List (List Sec) × List Sec)) (m : List Sec) (v : Sec) (ln wn : Nat)
    (first : Bool) (fm : Nat) (z : List Sec) : (multiPowWindow n cnt pes m v ln wn first fm z).tr = multiPowWindowT n cnt ln first := by
  unfold multiPowWindowT multiPowWindow; leak_simp; simp only [squarings_tr, multiPowEntries_tr]

def multiPowLoopT (n cnt sl sw : Nat) : Trace := (multiPowLoop n cnt [] [] zero sl sw 0 []).tr
@[simp] theorem multiPowLoop_tr (n cnt : Nat) (pes : List (List (List Sec) × List Sec)) (m : List Sec) (v : Sec) (sl sw fm : Nat)
    (z : List Sec) : (multiPowLoop n cnt pes m v sl sw fm z).tr = multiPowLoopT n cnt sl sw := by
  unfold multiPowLoopT multiPowLoop
  apply forDown_tr_congr; intro i s s'
  apply forDown_tr_congr; intro j t t'
  simp only [multiPowWindow_tr]

def multiPowersT (n cnt : Nat) : Trace := (multiPowers n cnt [] [] [] zero).tr
@[simp] theorem multiPowers_tr (n cnt : Nat) (bes : List (List Sec × List Sec)) (m o : List Sec) (v : Sec) :
    (multiPowers n cnt bes m o v).tr = multiPowersT n cnt := by
  unfold multiPowersT multiPowers
  apply forN_tr_congr; intro i s s'; leak_simp; simp only [computePowers_tr]

def multiExpT (n cnt ebits : Nat) : Trace := (multiExp n cnt [] ebits [] [] zero).tr
@[simp] theorem multiExp_tr (n cnt : Nat) (bes : List (List Sec × List Sec)) (ebits : Nat) (m o : List Sec) (v : Sec) :
    (multiExp n cnt bes ebits m o v).tr = multiExpT n cnt ebits := by
  unfold multiExpT multiExp; leak_simp; simp only [multiPowers_tr, multiPowLoop_tr]


/-! ### `rem_wide_vartime`, `mul_mod_vartime` (= the `MulMod` trait form): a function of the MODULUS, not of the factors -/
def shlLimbVartimeLoopT (n shift k : Nat) : Trace := (shlLimbVartimeLoop n [] shift k).tr
@[simp] theorem shlLimbVartimeLoop_tr (n : Nat) (a : List Sec) (shift k : Nat) :
    (shlLimbVartimeLoop n a shift k).tr = shlLimbVartimeLoopT n shift k := by
  unfold shlLimbVartimeLoopT shlLimbVartimeLoop; leak_loop

def shlLimbVartimeT (n shift k : Nat) : Trace := (shlLimbVartime n [] shift k).tr
@[simp] theorem shlLimbVartime_tr (n : Nat) (a : List Sec) (shift k : Nat) : (shlLimbVartime n a shift k).tr = shlLimbVartimeT n shift k := by
  unfold shlLimbVartimeT shlLimbVartime; leak_simp; simp only [shlLimbVartimeLoop_tr]

def shrLimbVartimeLoopT (n shift k : Nat) : Trace := (shrLimbVartimeLoop n [] shift k).tr
@[simp] theorem shrLimbVartimeLoop_tr (n : Nat) (a : List Sec) (shift k : Nat) :
    (shrLimbVartimeLoop n a shift k).tr = shrLimbVartimeLoopT n shift k := by
  unfold shrLimbVartimeLoopT shrLimbVartimeLoop; leak_loop

def shrLimbVartimeT (n shift k : Nat) : Trace := (shrLimbVartime n [] shift k).tr
@[simp] theorem shrLimbVartime_tr (n : Nat) (a : List Sec) (shift k : Nat) : (shrLimbVartime n a shift k).tr = shrLimbVartimeT n shift k := by
  unfold shrLimbVartimeT shrLimbVartime; leak_simp; simp only [shrLimbVartimeLoop_tr]

def remLimbWideT (n : Nat) : Trace := (remLimbWide n [] [] zero).tr
@[simp] theorem remLimbWide_tr (n : Nat) (lo hi : List Sec) (d : Sec) : (remLimbWide n lo hi d).tr = remLimbWideT n := by
  unfold remLimbWideT remLimbWide; leak_simp; simp only [reciprocal_tr, shlLimb_tr, remLimbLoop_tr]

def rwSubLoopT (xi yc : Nat) : Trace := (rwSubLoop xi yc [] zero []).tr
@[simp] theorem rwSubLoop_tr (xi yc : Nat) (y : List Sec) (q : Sec) (x : List Sec) : (rwSubLoop xi yc y q x).tr = rwSubLoopT xi yc := by
  unfold rwSubLoopT rwSubLoop; leak_loop

def rwAddLoopT (xi yc : Nat) : Trace := (rwAddLoop xi yc [] zero []).tr
@[simp] theorem rwAddLoop_tr (xi yc : Nat) (y : List Sec) (q : Sec) (x : List Sec) : (rwAddLoop xi yc y q x).tr = rwAddLoopT xi yc := by
  unfold rwAddLoopT rwAddLoop; leak_loop

def rwShiftLoopT (n : Nat) : Trace := (rwShiftLoop n []).tr
@[simp] theorem rwShiftLoop_tr (n : Nat) (x : List Sec) : (rwShiftLoop n x).tr = rwShiftLoopT n := by
  unfold rwShiftLoopT rwShiftLoop; leak_loop

def rwShiftInT (n : Nat) : Trace := (rwShiftIn n [] zero).tr
@[simp] theorem rwShiftIn_tr (n : Nat) (x : List Sec) (w : Sec) : (rwShiftIn n x w).tr = rwShiftInT n := by
  unfold rwShiftInT rwShiftIn; leak_simp; simp only [rwShiftLoop_tr]

def rwTripT (n yc t : Nat) : Trace := (rwTrip n yc t [] [] zero ([], zero)).tr
@[simp] theorem rwTrip_tr (n yc t : Nat) (y xlo : List Sec) (r : Sec) (st : List Sec × Sec) : (rwTrip n yc t y xlo r st).tr = rwTripT n yc t := by
  unfold rwTripT rwTrip; leak_simp; simp only [div3by2_tr, rwSubLoop_tr, rwAddLoop_tr, rwShiftIn_tr]

def rwLoopT (n yc : Nat) : Trace := (rwLoop n yc [] [] zero ([], zero)).tr
@[simp] theorem rwLoop_tr (n yc : Nat) (y xlo : List Sec) (r : Sec) (st : List Sec × Sec) : (rwLoop n yc y xlo r st).tr = rwLoopT n yc := by
  unfold rwLoopT rwLoop
  apply forN_tr_congr; intro i s s'; simp only [rwTrip_tr]

def remWideBodyT (n dbits : Nat) : Trace := (remWideBody n dbits [] [] []).tr
@[simp] theorem remWideBody_tr (n dbits : Nat) (lo hi d : List Sec) : (remWideBody n dbits lo hi d).tr = remWideBodyT n dbits := by
  unfold remWideBodyT remWideBody; leak_simp
  simp only [remLimbWide_tr, shlLimbVartime_tr, reciprocal_tr, rwLoop_tr, shrLimbVartime_tr]

/-- the trace of `rem_wide_vartime` for a divisor `d`: the events of `bits_vartime(d)`, the declassified bit length, and a
trace that is a function of that bit length only -/
def remWideVartimeT (n : Nat) (d : List Sec) : Trace := (remWideVartime n [] [] d).tr
theorem remWideVartime_tr (n : Nat) (lo hi d : List Sec) : (remWideVartime n lo hi d).tr = remWideVartimeT n d := by
  unfold remWideVartimeT remWideVartime; leak_simp; simp only [remWideBody_tr]

def mulModVartimeT (n : Nat) (p : List Sec) : Trace := splitMulT n n ++ remWideVartimeT n p
theorem mulModVartime_tr (n : Nat) (a b p : List Sec) : (mulModVartime n a b p).tr = mulModVartimeT n p := by
  unfold mulModVartimeT mulModVartime; leak_simp; simp only [splitMul_tr, remWideVartime_tr]

/-! ### `div_rem_vartime` -/
def dvTripT (yc xi : Nat) : Trace := (dvTrip yc xi [] zero ([], zero)).tr
@[simp] theorem dvTrip_tr (yc xi : Nat) (y : List Sec) (r : Sec) (st : List Sec × Sec) : (dvTrip yc xi y r st).tr = dvTripT yc xi := by
  unfold dvTripT dvTrip; leak_simp; simp only [div3by2_tr, rwSubLoop_tr, rwAddLoop_tr]

def dvLoopT (n yc : Nat) : Trace := (dvLoop n yc [] zero ([], zero)).tr
@[simp] theorem dvLoop_tr (n yc : Nat) (y : List Sec) (r : Sec) (st : List Sec × Sec) : (dvLoop n yc y r st).tr = dvLoopT n yc := by
  unfold dvLoopT dvLoop
  apply forN_tr_congr; intro i s s'; simp only [dvTrip_tr]

def dvCopyRemT (yc : Nat) : Trace := (dvCopyRem yc [] zero []).tr
@[simp] theorem dvCopyRem_tr (yc : Nat) (x : List Sec) (h : Sec) (y : List Sec) : (dvCopyRem yc x h y).tr = dvCopyRemT yc := by
  unfold dvCopyRemT dvCopyRem; leak_simp
  have : ∀ (x y : List Sec), (forN (yc - 1) (fun i r => do pubIndex i; pure (r.set i (limb x i))) y).tr =
      (forN (yc - 1) (fun i r => do pubIndex i; pure (r.set i (limb ([] : List Sec) i))) ([] : List Sec)).tr := by
    intro x y; leak_loop
  rw [this]

def dvShiftQuoT (n yc : Nat) : Trace := (dvShiftQuo n yc []).tr
@[simp] theorem dvShiftQuo_tr (n yc : Nat) (x : List Sec) : (dvShiftQuo n yc x).tr = dvShiftQuoT n yc := by
  unfold dvShiftQuoT dvShiftQuo; leak_loop

def divRemVartimeBodyT (n dbits : Nat) : Trace := (divRemVartimeBody n dbits [] []).tr
@[simp] theorem divRemVartimeBody_tr (n dbits : Nat) (a d : List Sec) : (divRemVartimeBody n dbits a d).tr = divRemVartimeBodyT n dbits := by
  unfold divRemVartimeBodyT divRemVartimeBody; leak_simp
  simp only [divRemLimb_tr, resize_tr, shlLimbVartime_tr, reciprocal_tr, dvLoop_tr, dvCopyRem_tr, shrLimbVartime_tr, dvShiftQuo_tr]

def divRemVartimeT (n : Nat) (d : List Sec) : Trace := (divRemVartime n [] d).tr
theorem divRemVartime_tr (n : Nat) (a d : List Sec) : (divRemVartime n a d).tr = divRemVartimeT n d := by
  unfold divRemVartimeT divRemVartime; leak_simp; simp only [divRemVartimeBody_tr]

/-! ### `random_mod` -/
def rmLowLoopT (nl : Nat) : Trace := (rmLowLoop nl [] []).tr
@[simp] theorem rmLowLoop_tr (nl : Nat) (s c : List Sec) : (rmLowLoop nl s c).tr = rmLowLoopT nl := by
  unfold rmLowLoopT rmLowLoop; leak_loop

/-- one trip of the outer loop of `random_mod_core` that is not already finished: the trace of the high-word loop, the
public copy loop, the comparison `n < modulus` and the declassified verdict -/
theorem rmTrip_tr (n nl fuel : Nat) (modulus : List Sec) (mask : Sec) (st : List Sec × Sec × List Sec × Bool) (h : st.2.2.2 = false) :
    (rmTrip n nl fuel modulus mask st).tr =
      Event.pubIndex (nl - 1) :: ((rmHiLoop fuel (limb modulus (nl - 1)) mask st.2.1 st.2.2.1).tr ++
        (rmLowLoopT nl ++ (usbbT n ++
          (declassify (ult n (rmLowLoop nl (rmHiLoop fuel (limb modulus (nl - 1)) mask st.2.1 st.2.2.1).val.2
              ((zeros n).set (nl - 1) (rmHiLoop fuel (limb modulus (nl - 1)) mask st.2.1 st.2.2.1).val.1)).val modulus).val).tr))) := by
  unfold rmTrip; rw [h]; leak_simp; simp only [rmLowLoop_tr, ult_tr]
  simp

end CB.Leak
