/-
  CB.Lemmas.C02KnuthCt — the constant-time Knuth loop of `Uint::div_rem` / `BoxedUint::div_rem_unchecked`:
  `done` iterations are no-ops, an active iteration is one exact digit, the loop invariant, the
  single-limb tail through `div2by1`, the copy-out loop and the final shifts.
-/
import CB.Lemmas.C02Knuth
namespace CB.Div
open CB

theorem ctLoop_zero (rc : Reciprocal) (y : List Nat) (L dwords : Nat) (st : CtState) :
    ctLoop rc y L dwords 0 st = st := rfl
theorem ctLoop_succ (rc : Reciprocal) (y : List Nat) (L dwords xi : Nat) (st : CtState) :
    ctLoop rc y L dwords (xi + 1) st = ctLoop rc y L dwords xi (ctStep rc y L dwords (xi + 1) st) := rfl

theorem getD_drop' (l : List Nat) (j i : Nat) : (l.drop j).getD i 0 = l.getD (j + i) 0 := by
  simp [List.getD_eq_getElem?_getD]

theorem set_getD_self (l : List Nat) (i : Nat) : l.set i (l.getD i 0) = l := by
  apply List.ext_getElem
  · simp
  · intro j h1 h2
    by_cases hij : i = j
    · subst hij; simp [List.getD_eq_getElem?_getD, List.getElem?_eq_getElem h2]
    · simp [List.getElem_set_ne hij]

theorem selectWord_lt {a b : Nat} (c : Nat) (ha : a < B) (hb : b < B) : selectWord a b c < B := by
  unfold selectWord
  exact xor_lt_B ha (by rw [Nat.and_comm]; exact and_lt_B (xor_lt_B ha hb))

theorem div2by1_fst_lt (u1 u0 : Nat) (rc : Reciprocal) : (div2by1 u1 u0 rc).1 < B := by
  unfold div2by1
  exact selectWord_lt _ (selectWord_lt _ (wlt _ _) (wslt _ _)) (wlt _ _)

theorem div3by2Round_fst_lt (u0 v0 d : Nat) (st : Nat × Nat) (h : st.1 < B) :
    (div3by2Round u0 v0 d st).1 < B := by
  unfold div3by2Round
  exact selectWord_lt _ (wslt _ _) h

/-- the digit estimate is a word, whatever the inputs (it is a `u64` in the crate) -/
theorem div3by2_lt (u2 u1 u0 : Nat) (rc : Reciprocal) (v0 : Nat) : div3by2 u2 u1 u0 rc v0 < B := by
  unfold div3by2
  simp only [show div3by2Rounds = 2 from rfl, iter_two]
  exact div3by2Round_fst_lt _ _ _ _ (div3by2Round_fst_lt _ _ _ _ (selectWord_lt _ (div2by1_fst_lt _ _ _) (by decide)))

theorem ltMask_lt {x y : Nat} (h : x < y) : ltMask x y = WMAX := by simp [ltMask, h]
theorem ltMask_ge {x y : Nat} (h : ¬ x < y) : ltMask x y = 0 := by simp [ltMask, h]

/-- a `done` iteration of the constant-time loop changes nothing -/
theorem ctStep_done {rc : Reciprocal} {y : List Nat} {L dwords xi : Nat} {st : CtState}
    (hy : WF y) (hyl : y.length = L) (hx : WF st.x) (hxl : st.x.length = L) (hxHi : st.xHi < B)
    (hxLo : st.xLo < B) (hxi : xi < dwords - 1) (hxiL : xi + 1 ≤ L) :
    ctStep rc y L dwords xi st = st := by
  have hd : ltMask xi (dwords - 1) = WMAX := ltMask_lt hxi
  have hxs : WF (st.x.take (xi + 1)) := WF_take hx _
  have hys : WF (y.drop (L - xi - 1)) := WF_drop hy _
  have hlen : (st.x.take (xi + 1)).length = (y.drop (L - xi - 1)).length := by
    simp [hxl, hyl]; omega
  have hq0 : ∀ q, q < B → selectWord q 0 WMAX = 0 := fun q hq => selectWord_max hq (by decide)
  have hquo := hq0 _ (div3by2_lt st.xHi st.xLo (st.x.getD (xi - 1) 0) rc (y.getD (L - 2) 0))
  unfold ctStep
  simp only [hd, hquo, knuthRow_zero hxs hys hlen hxHi, List.take_append_drop]
  have h00 : selectWord 0 (0 - 1) 0 = 0 := by decide
  rw [h00, selectWord_max (getD_lt hx xi) hxHi, selectWord_max (by decide) (getD_lt hx xi), set_getD_self,
    selectWord_max (getD_lt hx _) hxLo]


/-- an active iteration of the constant-time loop is one exact Knuth digit -/
theorem ctStep_active {rc : Reciprocal} (ok : RcOK rc) {y win Q : List Nat} {L dwords xi xHi : Nat}
    (hy : WF y) (hyl : y.length = L) (hv1 : y.getD (L - 1) 0 = rc.divisorNormalized)
    (hxi1 : 1 ≤ xi) (hxiL : xi + 1 ≤ L) (hact : ¬ xi < dwords - 1)
    (hwin : win.length = xi + 1) (hw : WF win) (hxHi : xHi < B)
    (hW : val win + B ^ (xi + 1) * xHi < val (y.drop (L - xi - 1)) * B) :
    ∃ rl rt, rl.length = xi ∧ WF rl ∧ rt < B ∧
      val rl + B ^ xi * rt = (val win + B ^ (xi + 1) * xHi) % val (y.drop (L - xi - 1)) ∧
      ctStep rc y L dwords xi ⟨win ++ Q, xHi, win.getD xi 0⟩ =
        ⟨rl ++ ((val win + B ^ (xi + 1) * xHi) / val (y.drop (L - xi - 1))) :: Q, rt, rl.getD (xi - 1) 0⟩ := by
  have hysl : (y.drop (L - xi - 1)).length = xi + 1 := by simp [hyl]; omega
  have hys : WF (y.drop (L - xi - 1)) := WF_drop hy _
  have g1 : (y.drop (L - xi - 1)).getD (xi + 1 - 1) 0 = rc.divisorNormalized := by
    rw [getD_drop', ← hv1]; congr 1; omega
  have g2 : (y.drop (L - xi - 1)).getD (xi + 1 - 2) 0 = y.getD (L - 2) 0 := by
    rw [getD_drop']; congr 1; omega
  obtain ⟨d1, d2, d3, _, d5⟩ := knuth_digit ok (m := xi + 1) (by omega) hwin hysl hw hys hxHi g1 hW
  rw [g2] at d1 d2 d3 d5
  have e1 : xi + 1 - 1 = xi := by omega
  have e2 : xi + 1 - 2 = xi - 1 := by omega
  rw [e1, e2] at d1 d2 d3 d5
  have t1 : (win ++ Q).take (xi + 1) = win := List.take_left' hwin
  have t3 : (win ++ Q).drop (xi + 1) = Q := List.drop_left' hwin
  have g3 : (win ++ Q).getD (xi - 1) 0 = win.getD (xi - 1) 0 := by
    have := getD_mid [] win Q (xi - 1) (by omega)
    simpa using this
  have hquolt := div3by2_lt xHi (win.getD xi 0) (win.getD (xi - 1) 0) rc (y.getD (L - 2) 0)
  generalize hquo : div3by2 xHi (win.getD xi 0) (win.getD (xi - 1) 0) rc (y.getD (L - 2) 0) = quo at *
  have hs0 : selectWord quo 0 0 = quo := selectWord_zero hquolt (by decide)
  generalize hrow : knuthRow win (y.drop (L - xi - 1)) xHi quo = row at *
  have hdec := snoc_decomp (l := row.1) (n := xi) d3
  generalize hq : (val win + B ^ (xi + 1) * xHi) / val (y.drop (L - xi - 1)) = q at *
  have hqlt : q < B := by
    rw [← d5]; exact selectWord_lt _ hquolt (Nat.lt_of_le_of_lt (Nat.sub_le _ _) hquolt)
  have hrl : (row.1.take xi).length = xi := by simp [d3]
  have hrt := getD_lt d2 xi
  refine ⟨row.1.take xi, row.1.getD xi 0, hrl, WF_take d2 _, hrt, ?_, ?_⟩
  · rw [← d1]
    conv => rhs; rw [hdec]
    rw [val_append]; simp [val, d3]
  · have hx2 : (row.1 ++ Q).getD xi 0 = row.1.getD xi 0 := by
      have := getD_mid [] row.1 Q xi (by omega)
      simpa using this
    have hset : (row.1 ++ Q).set xi q = row.1.take xi ++ q :: Q := by
      have := set_mid_last [] (row.1.take xi) Q (row.1.getD xi 0) q
      simp only [List.nil_append, List.length_nil, Nat.zero_add, hrl, ← hdec] at this
      rw [this]; simp
    have hx3 : (row.1.take xi ++ q :: Q).getD (xi - 1) 0 = (row.1.take xi).getD (xi - 1) 0 := by
      have := getD_mid [] (row.1.take xi) (q :: Q) (xi - 1) (by omega)
      simpa using this
    unfold ctStep
    simp only [ltMask_ge hact, t1, t3, g3, hquo, hs0, hrow, d5, hx2,
      selectWord_zero hrt hxHi, selectWord_zero hqlt hrt, hset, hx3,
      selectWord_zero (getD_lt (WF_take d2 xi) (xi - 1)) (getD_lt hw xi)]


/-- the `done` phase of the constant-time loop leaves the state untouched -/
theorem ctLoop_done {rc : Reciprocal} {y : List Nat} {L dwords : Nat} (hy : WF y) (hyl : y.length = L) :
    ∀ (xi : Nat) (st : CtState), xi < dwords - 1 → xi + 1 ≤ L → WF st.x → st.x.length = L → st.xHi < B →
      st.xLo < B → ctLoop rc y L dwords xi st = st := by
  intro xi
  induction xi with
  | zero => intros; rfl
  | succ xi ih =>
    intro st h1 h2 h3 h4 h5 h6
    rw [ctLoop_succ, ctStep_done hy hyl h3 h4 h5 h6 h1 h2]
    exact ih st (by omega) (by omega) h3 h4 h5 h6

/-- **T02.4 (loop, constant time)** the active phase of `while xi > 0` from `xi = low + j` down to `low`. -/
theorem ctLoop_active {rc : Reciprocal} (ok : RcOK rc) {y : List Nat} {L dwords low Ylow : Nat}
    (hy : WF y) (hyl : y.length = L) (hv1 : y.getD (L - 1) 0 = rc.divisorNormalized)
    (hlow1 : 1 ≤ low) (hlowd : dwords - 1 ≤ low)
    (hY : ∀ xi, low ≤ xi → xi + 1 ≤ L → val (y.drop (L - xi - 1)) = Ylow * B ^ (xi - low)) :
    ∀ (j : Nat) (win Q : List Nat) (xHi : Nat), low + j + 1 ≤ L → win.length = low + j + 1 → WF win →
      xHi < B → val win + B ^ (low + j + 1) * xHi < Ylow * B ^ j * B →
      ∃ r ds xHi', ctLoop rc y L dwords (low + j) ⟨win ++ Q, xHi, win.getD (low + j) 0⟩ =
          ctLoop rc y L dwords (low - 1) ⟨r ++ ds ++ Q, xHi', r.getD (low - 1) 0⟩ ∧
        r.length = low ∧ ds.length = j + 1 ∧ WF r ∧ WF ds ∧ xHi' < B ∧
        val r + B ^ low * xHi' < Ylow ∧
        val win + B ^ (low + j + 1) * xHi = val r + B ^ low * xHi' + Ylow * val ds := by
  obtain ⟨l', rfl⟩ : ∃ l', low = l' + 1 := ⟨low - 1, by omega⟩
  intro j
  induction j with
  | zero =>
    intro win Q xHi hL hwin hw hxHi hW
    have hYx := hY (l' + 1) (Nat.le_refl _) (by omega)
    simp only [Nat.sub_self, Nat.pow_zero, Nat.mul_one] at hYx
    simp only [Nat.pow_zero, Nat.mul_one, Nat.add_zero] at hW hwin ⊢
    have hYpos : 0 < Ylow := by
      rcases Nat.eq_zero_or_pos Ylow with h | h
      · rw [h] at hW; simp at hW
      · exact h
    obtain ⟨rl, rt, a1, a2, a3, a4, a5⟩ := ctStep_active (Q := Q) (dwords := dwords) ok hy hyl hv1
      (xi := l' + 1) (by omega) (by omega) (by omega) hwin hw hxHi (by rw [hYx]; exact hW)
    rw [hYx] at a4 a5
    have hq : (val win + B ^ (l' + 1 + 1) * xHi) / Ylow < B := by
      rw [Nat.div_lt_iff_lt_mul hYpos, Nat.mul_comm B Ylow]; exact hW
    refine ⟨rl, [(val win + B ^ (l' + 1 + 1) * xHi) / Ylow], rt, ?_, a1, rfl, a2,
      WF_cons.mpr ⟨hq, WF_nil⟩, a3, ?_, ?_⟩
    · rw [ctLoop_succ, a5]; simp
    · rw [a4]; exact Nat.mod_lt _ hYpos
    · rw [a4]; simp only [val_cons, val_nil, Nat.mul_zero, Nat.add_zero]
      exact (Nat.mod_add_div _ _).symm
  | succ j ih =>
    intro win Q xHi hL hwin hw hxHi hW
    have hYx := hY (l' + 1 + (j + 1)) (by omega) (by omega)
    have e0 : l' + 1 + (j + 1) - (l' + 1) = j + 1 := by omega
    rw [e0] at hYx
    have hYpos : 0 < Ylow * B ^ (j + 1) := by
      rcases Nat.eq_zero_or_pos (Ylow * B ^ (j + 1)) with h | h
      · rw [h] at hW; simp at hW
      · exact h
    obtain ⟨rl, rt, a1, a2, a3, a4, a5⟩ := ctStep_active (Q := Q) (dwords := dwords) ok hy hyl hv1
      (xi := l' + 1 + (j + 1)) (by omega) (by omega) (by omega) hwin hw hxHi (by rw [hYx]; exact hW)
    rw [hYx] at a4 a5
    generalize hq : (val win + B ^ (l' + 1 + (j + 1) + 1) * xHi) / (Ylow * B ^ (j + 1)) = q at *
    have hqlt : q < B := by
      rw [← hq, Nat.div_lt_iff_lt_mul hYpos, Nat.mul_comm B]; exact hW
    have hmod := Nat.mod_lt (val win + B ^ (l' + 1 + (j + 1) + 1) * xHi) hYpos
    have e1 : l' + 1 + (j + 1) - 1 = l' + 1 + j := by omega
    rw [e1] at a5
    obtain ⟨r, ds, xHi', i1, i2, i3, i4, i5, i6, i7, i8⟩ := ih rl (q :: Q) rt (by omega) (by rw [a1]; omega) a2 a3
      (by
        have e2 : l' + 1 + j + 1 = l' + 1 + (j + 1) := by omega
        rw [e2, a4]
        have e3 : Ylow * B ^ j * B = Ylow * B ^ (j + 1) := by rw [Nat.pow_succ, Nat.mul_assoc]
        rw [e3]; exact hmod)
    refine ⟨r, ds ++ [q], xHi', ?_, i2, by simp [i3], i4, WF_append.mpr ⟨i5, WF_cons.mpr ⟨hqlt, WF_nil⟩⟩, i6, i7, ?_⟩
    · have e2 : l' + 1 + (j + 1) = (l' + 1 + j) + 1 := by omega
      rw [e2, ctLoop_succ, ← e2, a5, i1]; simp
    · have hdm := Nat.mod_add_div (val win + B ^ (l' + 1 + (j + 1) + 1) * xHi) (Ylow * B ^ (j + 1))
      have e2 : l' + 1 + j + 1 = l' + 1 + (j + 1) := by omega
      rw [e2, a4] at i8
      rw [← hdm, i8, hq, val_append, i3]
      have hv1q : val [q] = q := by simp [val]
      rw [hv1q]
      generalize val r + B ^ (l' + 1) * xHi' = R
      generalize B ^ (j + 1) = K
      generalize val ds = V
      rw [Nat.mul_add, Nat.add_assoc, Nat.mul_assoc]


theorem ctCopyOut_cons (xHi dwords i x : Nat) (rest : List Nat) :
    ctCopyOut xHi dwords i (x :: rest) =
      selectWord (selectWord 0 x (ltMask i dwords)) xHi (eqMask i (dwords - 1)) ::
        ctCopyOut xHi dwords (i + 1) rest := rfl

theorem zeros_succ (n : Nat) : zeros (n + 1) = 0 :: zeros n := rfl

/-- copy-out beyond the divisor's words: zeros -/
theorem ctCopyOut_zeros {xHi dwords : Nat} (hxHi : xHi < B) (hdw : 1 ≤ dwords) :
    ∀ (b : List Nat) (i : Nat), dwords ≤ i → WF b → ctCopyOut xHi dwords i b = zeros b.length := by
  intro b
  induction b with
  | nil => intros; rfl
  | cons x xs ih =>
    intro i hi hb
    have ⟨hx0, hxs⟩ := WF_cons.mp hb
    have h1 : ltMask i dwords = 0 := ltMask_ge (by omega)
    have h2 : eqMask i (dwords - 1) = 0 := by simp [eqMask]; omega
    rw [ctCopyOut_cons, h1, h2, selectWord_zero (by decide) hx0, selectWord_zero (by decide) hxHi,
      ih (i + 1) (by omega) hxs]
    rfl

/-- the `while i < LIMBS` copy-out loop: remainder limbs below `dwords - 1`, `x_hi` at `dwords - 1`,
    zeros above -/
theorem ctCopyOut_spec {xHi dwords : Nat} (hxHi : xHi < B) (hdw : 1 ≤ dwords) :
    ∀ (a : List Nat) (c : Nat) (b : List Nat) (i : Nat), WF a → c < B → WF b → i + a.length = dwords - 1 →
      ctCopyOut xHi dwords i (a ++ c :: b) = a ++ xHi :: zeros b.length := by
  intro a
  induction a with
  | nil =>
    intro c b i _ hc hb hi
    simp only [List.length_nil, Nat.add_zero] at hi
    have h1 : ltMask i dwords = WMAX := ltMask_lt (by omega)
    have h2 : eqMask i (dwords - 1) = WMAX := by simp [eqMask, hi]
    rw [List.nil_append, ctCopyOut_cons, h1, h2, selectWord_max (by decide) hc, selectWord_max hc hxHi,
      ctCopyOut_zeros hxHi hdw b (i + 1) (by omega) hb]
    rfl
  | cons a0 a ih =>
    intro c b i ha hc hb hi
    have ⟨ha0, has⟩ := WF_cons.mp ha
    simp only [List.length_cons] at hi
    have h1 : ltMask i dwords = WMAX := ltMask_lt (by omega)
    have h2 : eqMask i (dwords - 1) = 0 := by simp [eqMask]; omega
    rw [List.cons_append, ctCopyOut_cons, h1, h2, selectWord_max (by decide) ha0, selectWord_zero ha0 hxHi,
      ih c b (i + 1) has hc hb (by omega)]
    rfl

theorem div2by1_snd_lt (u1 u0 : Nat) (rc : Reciprocal) : (div2by1 u1 u0 rc).2 < B := by
  unfold div2by1
  exact selectWord_lt _ (selectWord_lt _ (wslt _ _) (wlt _ _)) (wslt _ _)

theorem drop_zeros_append (z j : Nat) (yd : List Nat) (h : j ≤ z) :
    (zeros z ++ yd).drop j = zeros (z - j) ++ yd := by
  unfold zeros
  rw [List.drop_append_of_le_length (by simp; exact h), List.drop_replicate]

theorem val_zeros_append (z : Nat) (yd : List Nat) : val (zeros z ++ yd) = B ^ z * val yd := by
  rw [val_append, val_zeros, zeros_length, Nat.zero_add]

/-- `rhs.shl(BITS - dbits)`: the divisor top-aligned in `L` limbs is `L - dwords` zero limbs followed
    by the normalised `dwords`-limb divisor -/
theorem y_structure {d : List Nat} {L dbits dwords s : Nat} (hd : WF d) (hd0 : val d ≠ 0)
    (hdb : dbits = bitLen (val d)) (hdw : dwords = (dbits + 63) / 64) (hs : s = (64 - dbits % 64) % 64)
    (hL : dwords ≤ L) :
    toLimbs L (val d * 2 ^ (64 * L - dbits)) = zeros (L - dwords) ++ toLimbs dwords (val d * 2 ^ s) := by
  obtain ⟨n1, n2, n3, n4⟩ := norm_facts hd0 hdb hdw hs
  obtain ⟨b1, b2, b3⟩ := bitLen_spec hd0
  rw [← hdb] at b1 b2 b3
  have e1 : 64 * L - dbits = s + 64 * (L - dwords) := by omega
  have e2 : val d * 2 ^ (64 * L - dbits) = B ^ (L - dwords) * (val d * 2 ^ s) := by
    rw [e1, Nat.pow_add, ← B_pow_eq]; ring
  have hlt : B ^ (L - dwords) * (val d * 2 ^ s) < B ^ L := by
    have : B ^ L = B ^ (L - dwords) * B ^ dwords := by rw [← Nat.pow_add]; congr 1; omega
    rw [this]; exact Nat.mul_lt_mul_of_pos_left n4 (Nat.pow_pos B_pos)
  apply val_inj (toLimbs_WF _ _) (WF_append.mpr ⟨zeros_WF _, toLimbs_WF _ _⟩)
  · rw [toLimbs_length, List.length_append, zeros_length, toLimbs_length]; omega
  · rw [val_toLimbs, val_zeros_append, val_toLimbs, e2, Nat.mod_eq_of_lt hlt, Nat.mod_eq_of_lt n4]


theorem eqMask_eq {x y : Nat} (h : x = y) : eqMask x y = WMAX := by simp [eqMask, h]
theorem eqMask_ne {x y : Nat} (h : x ≠ y) : eqMask x y = 0 := by simp [eqMask, h]

/-- final division arithmetic: `N = R + D·Q`, `R < D` -/
theorem div_mod_of_decomp {N R D Q : Nat} (h : N = R + D * Q) (hR : R < D) : N / D = Q ∧ N % D = R := by
  have := div_mod_of_eq (q := Q) (r := R) (u := N) (d := D) (by rw [h]; ring) hR
  exact this

/-- **T02.6 (core)** `Uint::div_rem` for `LIMBS ≥ 2` -/
theorem divRemCtCore_spec (H : HRecip) {n d : List Nat} (hn : WF n) (hd : WF d) (hl : d.length = n.length)
    (hL : 2 ≤ n.length) (hd0 : val d ≠ 0) :
    divRemCtCore n d = (toLimbs n.length (val n / val d), toLimbs n.length (val n % val d)) := by
  obtain ⟨dbits, hdb⟩ : ∃ dbits, dbits = bitLen (val d) := ⟨_, rfl⟩
  obtain ⟨dw, hdw⟩ : ∃ dw, dw = (dbits + 63) / 64 := ⟨_, rfl⟩
  obtain ⟨s, hs⟩ : ∃ s, s = (64 - dbits % 64) % 64 := ⟨_, rfl⟩
  obtain ⟨n1, n2, n3, n4⟩ := norm_facts hd0 hdb hdw hs
  obtain ⟨f1, f2, _, _⟩ := yc_facts hd hd0 hdb hdw
  rw [hl] at f2
  have hpos : 0 < 2 ^ s := Nat.pow_pos (by decide)
  have hys := y_structure (L := n.length) hd hd0 hdb hdw hs f2
  generalize hD : val d * 2 ^ s = D at *
  have hyd : val (toLimbs dw D) = D := by rw [val_toLimbs, Nat.mod_eq_of_lt n4]
  have hydl : (toLimbs dw D).length = dw := toLimbs_length _ _
  have hydw : WF (toLimbs dw D) := toLimbs_WF _ _
  generalize hYD : toLimbs dw D = yd at *
  -- the top limb and the reciprocal
  have hyw : WF (zeros (n.length - dw) ++ yd) := WF_append.mpr ⟨zeros_WF _, hydw⟩
  have hyl : (zeros (n.length - dw) ++ yd).length = n.length := by
    rw [List.length_append, zeros_length, hydl]; omega
  have hytop : (zeros (n.length - dw) ++ yd).getD (n.length - 1) 0 = yd.getD (dw - 1) 0 := by
    have := getD_mid (zeros (n.length - dw)) yd [] (dw - 1) (by omega)
    rw [zeros_length, List.append_nil] at this
    rw [← this]; congr 1; omega
  have htop := top_limb_normalized f1 hydl hydw (by rw [hyd]; exact n3)
  obtain ⟨ok, hdn⟩ := Reciprocal_new_normalized H htop (getD_lt hydw _)
  -- the normalised dividend
  obtain ⟨c1, c2, c3, c4⟩ := shlLimb_spec n1 hn
  have hHB : 2 ^ s ≤ HALF := by
    have : HALF = 2 ^ 63 := by decide
    rw [this]; exact Nat.pow_le_pow_right (by decide) (by omega)
  -- divisor rows
  have hYdrop : ∀ xi, dw - 1 ≤ xi → xi + 1 ≤ n.length →
      val ((zeros (n.length - dw) ++ yd).drop (n.length - xi - 1)) = D * B ^ (xi + 1 - dw) := by
    intro xi h1 h2
    rw [drop_zeros_append _ _ _ (by omega), val_zeros_append, hyd, Nat.mul_comm]
    congr 2; omega
  unfold divRemCtCore
  simp only [← hdb, ← hdw, ← hs, hys, hytop]
  generalize hsh : shlLimb n s = sh at *
  generalize hrc : Reciprocal.new (yd.getD (dw - 1) 0) = rc at *
  have hN : val sh.1 + B ^ n.length * sh.2 = val n * 2 ^ s := c1
  have hshHi : sh.2 < B := Nat.lt_of_lt_of_le c4 (Nat.le_trans hHB (by decide))
  have hstart : ({ x := sh.1, xHi := sh.2, xLo := sh.1.getD (n.length - 1) 0 } : CtState) =
      ⟨sh.1 ++ [], sh.2, sh.1.getD (n.length - 1) 0⟩ := by simp
  rw [hstart]
  have hDpos : 0 < D := Nat.lt_of_lt_of_le (Nat.mul_pos (by decide) (Nat.pow_pos B_pos)) n3
  have hBL : B ^ n.length = B ^ (dw - 1) * B ^ (n.length - dw) * B := by
    rw [← Nat.pow_add, ← Nat.pow_succ]; congr 1; omega
  -- N < D * B^(L - dw) * B
  have hNlt : val sh.1 + B ^ n.length * sh.2 < D * B ^ (n.length - dw) * B := by
    have h1 : val sh.1 < B ^ n.length := by have := val_lt c2; rwa [c3] at this
    have h2 : B ^ n.length * (sh.2 + 1) ≤ B ^ n.length * HALF := Nat.mul_le_mul_left _ (by omega)
    have h3 : HALF * B ^ (dw - 1) * (B ^ (n.length - dw) * B) ≤ D * (B ^ (n.length - dw) * B) :=
      Nat.mul_le_mul_right _ n3
    have e : HALF * B ^ (dw - 1) * (B ^ (n.length - dw) * B) = B ^ n.length * HALF := by rw [hBL]; ring
    rw [Nat.mul_add, Nat.mul_one] at h2
    rw [Nat.mul_assoc]
    omega
  by_cases hdw1 : dw = 1
  · -- single-limb divisor: all iterations active, last digit through div2by1
    subst hdw1
    have e : n.length - 1 = 1 + (n.length - 2) := by omega
    have hYA : ∀ xi, 1 ≤ xi → xi + 1 ≤ n.length →
        val ((zeros (n.length - 1) ++ yd).drop (n.length - xi - 1)) = D * B * B ^ (xi - 1) := by
      intro xi h1 h2
      rw [hYdrop xi (by omega) h2, Nat.mul_assoc, ← Nat.pow_succ']; congr 2; omega
    obtain ⟨r, ds, xHi', i1, i2, i3, i4, i5, i6, i7, i8⟩ :=
      ctLoop_active (dwords := 1) (low := 1) (Ylow := D * B) ok hyw hyl (by rw [hytop]; exact hdn.symm)
        (Nat.le_refl 1) (by omega) hYA (n.length - 2) sh.1 [] sh.2 (by omega) (by rw [c3]; omega) c2 hshHi
        (by
          have e2 : 1 + (n.length - 2) + 1 = n.length := by omega
          have e3 : D * B * B ^ (n.length - 2) * B = D * B ^ (n.length - 1) * B := by
            have : n.length - 1 = (n.length - 2) + 1 := by omega
            rw [this, Nat.pow_succ]; ring
          rw [e2, e3]; exact hNlt)
    have e2 : 1 + (n.length - 2) + 1 = n.length := by omega
    rw [e2] at i8
    rw [← e] at i1
    obtain ⟨r0, rfl⟩ : ∃ r0, r = [r0] := List.length_eq_one_iff.mp i2
    have hr0 : r0 < B := (WF_cons.mp i4).1
    have hfin : ctLoop rc (zeros (n.length - 1) ++ yd) n.length 1 (n.length - 1)
        ⟨sh.1 ++ [], sh.2, sh.1.getD (n.length - 1) 0⟩ = ⟨[r0] ++ ds ++ [], xHi', r0⟩ := by
      rw [i1]; rfl
    rw [hfin]
    dsimp only
    -- the tail division
    have hDyd : yd.getD (1 - 1) 0 = D := by
      rw [← hyd]; exact (single_limb_val hydw (by rw [hyd]; simpa using n4) (by
        intro h; rw [h] at hydl; simp at hydl)).symm
    rw [hDyd] at hdn
    simp only [val_cons, val_nil, Nat.mul_zero, Nat.add_zero, Nat.pow_one] at i7 i8
    have hxlt : xHi' < rc.divisorNormalized := by
      rw [hdn]
      by_contra hc
      have : D * B ≤ xHi' * B := Nat.mul_le_mul_right B (by omega)
      rw [Nat.mul_comm B xHi'] at i7
      omega
    have hdiv := div2by1_exact ok.h1 ok.h2 ok.hv hxlt hr0
    rw [hdn] at hdiv
    rw [eqMask_eq rfl, selectWord_max (by decide) i6, hdiv]
    dsimp only
    have hdm := Nat.div_add_mod (xHi' * B + r0) D
    generalize hq0 : (xHi' * B + r0) / D = q0 at *
    generalize hrem : (xHi' * B + r0) % D = rem at *
    have hremlt : rem < D := by rw [← hrem]; exact Nat.mod_lt _ hDpos
    have hDB : D < B := by rw [← hdn]; exact ok.h2
    have hq0lt : q0 < B := by
      rw [← hq0, Nat.div_lt_iff_lt_mul hDpos, Nat.mul_comm B D]
      rw [Nat.mul_comm B xHi'] at i7; omega
    have hx0 : ([r0] ++ ds ++ []).getD 0 0 = r0 := by simp
    have hset : ([r0] ++ ds ++ []).set 0 q0 = q0 :: ds := by simp
    rw [hx0, selectWord_max hr0 hq0lt, hset, selectWord_max hq0lt (Nat.lt_trans hremlt hDB)]
    have hcopy : ctCopyOut xHi' 1 1 ((q0 :: ds).drop 1) = zeros ds.length := by
      simp only [List.drop_succ_cons, List.drop_zero]
      exact ctCopyOut_zeros i6 (Nat.le_refl 1) ds 1 (Nat.le_refl 1) i5
    rw [hcopy]
    -- arithmetic
    have hdec : val n * 2 ^ s = rem + D * (q0 + B * val ds) := by
      rw [← hN, i8]
      have : r0 + B * xHi' = D * q0 + rem := by rw [hdm, Nat.mul_comm B]; ring
      rw [this]; ring
    obtain ⟨hQ, hR⟩ := div_mod_of_decomp hdec hremlt
    rw [← hD, Nat.mul_div_mul_right _ _ hpos] at hQ
    rw [← hD, Nat.mul_mod_mul_right] at hR
    have e5 : (1 - 1) * 64 = 0 := by omega
    rw [e5, Nat.pow_zero, Nat.div_one, val_cons, hQ, val_cons, val_zeros, Nat.mul_zero, Nat.add_zero,
      ← hR, Nat.mul_div_cancel _ hpos]
  · have hdw2 : 2 ≤ dw := by omega
    have e : n.length - 1 = (dw - 1) + (n.length - dw) := by omega
    have hYB : ∀ xi, dw - 1 ≤ xi → xi + 1 ≤ n.length →
        val ((zeros (n.length - dw) ++ yd).drop (n.length - xi - 1)) = D * B ^ (xi - (dw - 1)) := by
      intro xi h1 h2
      rw [hYdrop xi h1 h2]; congr 2; omega
    have e2 : dw - 1 + (n.length - dw) + 1 = n.length := by omega
    obtain ⟨r, ds, xHi', i1, i2, i3, i4, i5, i6, i7, i8⟩ :=
      ctLoop_active (dwords := dw) (low := dw - 1) (Ylow := D) ok hyw hyl (by rw [hytop]; exact hdn.symm)
        (by omega) (Nat.le_refl _) hYB (n.length - dw) sh.1 [] sh.2 (by omega) (by rw [c3]; omega) c2 hshHi
        (by rw [e2]; exact hNlt)
    rw [e2] at i8
    rw [← e] at i1
    have hxw : WF (r ++ ds ++ []) := WF_append.mpr ⟨WF_append.mpr ⟨i4, i5⟩, WF_nil⟩
    have hxl : (r ++ ds ++ []).length = n.length := by simp [i2, i3]; omega
    have hfin : ctLoop rc (zeros (n.length - dw) ++ yd) n.length dw (n.length - 1)
        ⟨sh.1 ++ [], sh.2, sh.1.getD (n.length - 1) 0⟩ = ⟨r ++ ds ++ [], xHi', r.getD (dw - 1 - 1) 0⟩ := by
      rw [i1]
      exact ctLoop_done hyw hyl (dw - 1 - 1) _ (by omega) (by omega) hxw hxl i6 (getD_lt i4 _)
    rw [hfin]
    dsimp only
    rw [eqMask_ne (by omega), selectWord_zero (by decide) i6]
    have hq1 := div2by1_fst_lt 0 (r.getD (dw - 1 - 1) 0) rc
    have hq2 := div2by1_snd_lt 0 (r.getD (dw - 1 - 1) 0) rc
    generalize div2by1 0 (r.getD (dw - 1 - 1) 0) rc = qr at *
    have hx0 := getD_lt hxw 0
    rw [selectWord_zero hx0 hq1, set_getD_self, selectWord_zero hx0 hq2]
    -- shapes
    obtain ⟨r0, r', rfl⟩ : ∃ r0 r', r = r0 :: r' := by
      cases r with
      | nil => simp at i2; omega
      | cons a b => exact ⟨a, b, rfl⟩
    obtain ⟨ds0, ds', rfl⟩ : ∃ ds0 ds', ds = ds0 :: ds' := by
      cases ds with
      | nil => simp at i3
      | cons a b => exact ⟨a, b, rfl⟩
    have ⟨hr0, hr'⟩ := WF_cons.mp i4
    have ⟨hds0, hds'⟩ := WF_cons.mp i5
    simp only [List.length_cons] at i2 i3
    have hx0e : (r0 :: r' ++ ds0 :: ds' ++ []).getD 0 0 = r0 := by simp
    have hdrop : (r0 :: r' ++ ds0 :: ds' ++ []).drop 1 = r' ++ ds0 :: ds' := by simp
    rw [hx0e, hdrop, ctCopyOut_spec i6 f1 r' ds0 ds' 1 hr' hds0 hds' (by omega)]
    -- arithmetic
    obtain ⟨hQ, hR⟩ := div_mod_of_decomp (hN ▸ i8) i7
    rw [← hD, Nat.mul_div_mul_right _ _ hpos] at hQ
    rw [← hD, Nat.mul_mod_mul_right] at hR
    have hK : 2 ^ ((dw - 1) * 64) = B ^ (dw - 1) := by rw [B_pow_eq, Nat.mul_comm]
    have hrlt : val (r0 :: r') < B ^ (dw - 1) := by
      have := val_lt i4; simp only [List.length_cons] at this; rwa [i2] at this
    have hvx : val (r0 :: r' ++ ds0 :: ds' ++ []) = val (r0 :: r') + B ^ (dw - 1) * val (ds0 :: ds') := by
      rw [List.append_nil, val_append]; simp only [List.length_cons]; rw [i2]
    have hvy : val (r0 :: (r' ++ xHi' :: zeros ds'.length)) = val (r0 :: r') + B ^ (dw - 1) * xHi' := by
      have : r0 :: (r' ++ xHi' :: zeros ds'.length) = (r0 :: r') ++ xHi' :: zeros ds'.length := rfl
      rw [this, val_append]; simp only [List.length_cons]
      rw [i2]; simp only [val_cons, val_zeros, Nat.mul_zero, Nat.add_zero]
    rw [hK, hvx, hvy, Nat.add_mul_div_left _ _ (Nat.pow_pos B_pos), Nat.div_eq_of_lt hrlt, Nat.zero_add,
      ← hQ, ← hR, Nat.mul_div_cancel _ hpos]



/-- **T02.6** `Uint::div_rem` / `BoxedUint::div_rem_unchecked` (equal limb counts, any `LIMBS ≥ 1`). -/
theorem divRemCt_spec (H : HRecip) {n d : List Nat} (hn : WF n) (hd : WF d) (hl : d.length = n.length)
    (hd0 : val d ≠ 0) :
    divRemCt n d = (toLimbs n.length (val n / val d), toLimbs n.length (val n % val d)) := by
  unfold divRemCt
  by_cases h1 : n.length = 1
  · rw [if_pos h1]
    have hne : d ≠ [] := by intro h; rw [h] at hd0; exact hd0 rfl
    have hv := single_limb_val hd (by have := val_lt hd; rw [hl, h1] at this; simpa using this) hne
    have hd0' : 0 < d.getD 0 0 := by omega
    obtain ⟨e1, e2, _⟩ := divRemLimb_spec H hd0' (getD_lt hd 0) hn
    dsimp only
    rw [e1, e2, hv, h1]
    congr 1
    have hlt : val n % d.getD 0 0 < B := Nat.lt_trans (Nat.mod_lt _ hd0') (getD_lt hd 0)
    have : toLimbs 1 (val n % d.getD 0 0) = [val n % d.getD 0 0 % B] := rfl
    rw [this, Nat.mod_eq_of_lt hlt]
  · rw [if_neg h1]
    have hL : 2 ≤ n.length := by
      have : n.length ≠ 0 := by
        intro h0
        have : d = [] := List.length_eq_zero_iff.mp (by omega)
        rw [this] at hd0; exact hd0 rfl
      omega
    exact divRemCtCore_spec H hn hd hl hL hd0

end CB.Div
