/-
  CB.Lemmas.C08Ops — value-level specifications of the modular helpers of `CB.Model.Monty`
  (add_mod, double_mod, sub_mod, neg_mod, div_by_2, Montgomery multiplication/retrieve and the boxed duplicates).
-/
import CB.Lemmas.C08Redc
namespace CB.Monty
open CB

/-! ### arithmetic helpers -/

theorem coprime_two_of_odd {M : Nat} (h : M % 2 = 1) : Nat.Coprime 2 M := by
  have h1 : Nat.gcd 2 M ∣ 2 := Nat.gcd_dvd_left 2 M
  have h2 : Nat.gcd 2 M ∣ M := Nat.gcd_dvd_right 2 M
  have : Nat.gcd 2 M ≤ 2 := Nat.le_of_dvd (by decide) h1
  unfold Nat.Coprime
  have h3 : Nat.gcd 2 M ≠ 0 := by
    intro h0; rw [h0] at h2; have := Nat.eq_zero_of_zero_dvd h2; omega
  have h4 : Nat.gcd 2 M ≠ 2 := by
    intro h0; rw [h0] at h2; omega
  omega

theorem coprime_Bpow_of_odd {M : Nat} (h : M % 2 = 1) (n : Nat) : Nat.Coprime (B ^ n) M := by
  rw [B_eq_pow, ← Nat.pow_mul]
  exact Nat.Coprime.pow_left _ (coprime_two_of_odd h)

/-- cancellation of a unit modulo `M` between canonical residues -/
theorem cancel_mod {r s c M : Nat} (hc : Nat.Coprime c M) (hr : r < M) (hs : s < M)
    (h : (r * c) % M = (s * c) % M) : r = s := by
  have key : ∀ {r s : Nat}, s ≤ r → r < M → (r * c) % M = (s * c) % M → r = s := by
    intro r s hle hr h
    have h0 : (r * c - s * c) % M = 0 := Nat.sub_mod_eq_zero_of_mod_eq h
    rw [← Nat.sub_mul] at h0
    have hd : M ∣ (r - s) * c := Nat.dvd_of_mod_eq_zero h0
    have hd' : M ∣ r - s := Nat.Coprime.dvd_of_dvd_mul_right hc.symm hd
    have : r - s = 0 := Nat.eq_zero_of_dvd_of_lt hd' (by omega)
    omega
  rcases Nat.le_total s r with hle | hle
  · exact key hle hr h
  · exact (key hle hs h.symm).symm

theorem toLimbs_zero (n : Nat) : toLimbs n 0 = uzero n := by
  induction n with
  | zero => rfl
  | succ n ih =>
    simp only [toLimbs, Nat.zero_mod, Nat.zero_div, ih, uzero, List.replicate_succ]

theorem val_toLimbs_lt {n x : Nat} (h : x < B ^ n) : val (toLimbs n x) = x := by
  rw [val_toLimbs, Nat.mod_eq_of_lt h]

/-- a well-formed `n`-limb list is determined by its value -/
theorem eq_toLimbs {l : List Nat} {n v : Nat} (hw : WF l) (hl : l.length = n) (hv : val l = v) :
    l = toLimbs n v := by
  rw [← hv, ← hl, toLimbs_val hw]

theorem toLimbs_take (n k x : Nat) : (toLimbs (n + k) x).take n = toLimbs n x := by
  induction n generalizing x with
  | zero => simp [toLimbs]
  | succ n ih =>
    rw [show n + 1 + k = (n + k) + 1 by omega]
    simp only [toLimbs, List.take_succ_cons, ih]

theorem toLimbs_drop (n k x : Nat) : (toLimbs (n + k) x).drop n = toLimbs k (x / B ^ n) := by
  induction n generalizing x with
  | zero => simp
  | succ n ih =>
    rw [show n + 1 + k = (n + k) + 1 by omega]
    simp only [toLimbs, List.drop_succ_cons, ih, Nat.pow_succ]
    rw [Nat.div_div_eq_div_mul, Nat.mul_comm]

/-! ### is_nonzero / is_odd -/

theorem orAll_lt' {l : List Nat} (h : WF l) : orAll l < B := by
  induction l with
  | nil => exact B_pos
  | cons x xs ih =>
    have ⟨hx, hxs⟩ := WF_cons.mp h
    exact or_lt_B hx (ih hxs)

theorem orAll_eq_zero' {l : List Nat} : orAll l = 0 ↔ val l = 0 := by
  induction l with
  | nil => simp [orAll]
  | cons x xs ih =>
    simp only [orAll, val_cons, Nat.or_eq_zero_iff, ih]
    have := B_pos
    constructor
    · intro ⟨h1, h2⟩; rw [h1, h2]; simp
    · intro h
      have h1 : x = 0 := by omega
      have h2 : B * val xs = 0 := by omega
      exact ⟨h1, (Nat.mul_eq_zero.mp h2).resolve_left (by omega)⟩

theorem isNonzero_spec' {l : List Nat} (h : WF l) : isNonzero l = mask (decide (val l ≠ 0)) := by
  simp only [isNonzero, fromWordNonzero_spec (orAll_lt' h)]
  congr 1
  simp [orAll_eq_zero']

theorem val_mod_two (x : Nat) (xs : List Nat) : val (x :: xs) % 2 = x % 2 := by
  rw [val_cons]
  have : B * val xs = 2 * (9223372036854775808 * val xs) := by rw [B_def]; ring
  rw [this, Nat.add_mul_mod_self_left]

theorem isOdd_spec {l : List Nat} (_h : WF l) : isOdd l = mask (decide (val l % 2 = 1)) := by
  cases l with
  | nil => decide
  | cons x xs =>
    rw [val_mod_two]
    simp only [isOdd, List.headD_cons, Nat.and_one_is_mod]
    rcases Nat.mod_two_eq_zero_or_one x with h | h <;> rw [h] <;> decide

/-! ### add_mod / double_mod / sub_mod / neg_mod (fixed and boxed) -/

theorem mod_of_lt_two {X P : Nat} (h : X < 2 * P) :
    X % P = if P ≤ X then X - P else X := by
  split
  · rw [Nat.mod_eq_sub_mod (by assumption), Nat.mod_eq_of_lt (by omega)]
  · exact Nat.mod_eq_of_lt (by omega)

theorem sbb_mask_eq {c : Nat} (hc : c ≤ 1) (b : Bool) :
    (sbb c 0 (mask b)).2 = wnot (wneg c) &&& mask b := by
  rcases Nat.le_one_iff_eq_zero_or_eq_one.mp hc with h | h <;> subst h <;> cases b <;> decide

theorem sbb_mask_is_mask {c : Nat} (hc : c ≤ 1) (b : Bool) :
    (sbb c 0 (mask b)).2 = mask (decide (c = 0) && b) := by
  rcases Nat.le_one_iff_eq_zero_or_eq_one.mp hc with h | h <;> subst h <;> cases b <;> decide

theorem nzMask_mask (b : Bool) : nzMask (mask b) = mask b := by cases b <;> decide

theorem borrow_is_mask {bw : Nat} (h : bw = 0 ∨ bw = WMAX) : ∃ b : Bool, bw = mask b := by
  rcases h with h | h
  · exact ⟨false, h⟩
  · exact ⟨true, h⟩

theorem condAdc_fst (w p m : List Nat) (k : Nat) (_ : m = m) :
    (conditionalAdc w p k).1 = wrappingAdd w (bitandLimb p k) := rfl

/-- shared core of `add_mod` and `double_mod`: given the exact sum `(w, carry)`, both the fixed and the boxed
    tail compute `sub_mod_with_carry(carry, p, p)`. -/
theorem addTail_eq {w p : List Nat} {c : Nat} (hw : WF w) (hp : WF p) (hl : w.length = p.length)
    (hne : w ≠ []) (hc : c ≤ 1) :
    wrappingAdd (usbb w p 0).1 (bitandLimb p (sbb c 0 (usbb w p 0).2).2) = subModWithCarry w c p p ∧
    (conditionalAdc (usbb w p 0).1 p (nzMask (sbb c 0 (usbb w p 0).2).2)).1 = subModWithCarry w c p p := by
  have ⟨_, _, s3⟩ := usbb_spec hw hp B_pos hl
  obtain ⟨b, hb⟩ := borrow_is_mask (s3 hne)
  simp only [subModWithCarry, condAdc_fst _ _ p _ rfl]
  rw [hb, sbb_mask_eq hc, ← sbb_mask_eq hc, sbb_mask_is_mask hc, nzMask_mask]
  exact ⟨rfl, rfl⟩

theorem addMod_unfold (a b p : List Nat) :
    addMod a b p = wrappingAdd (usbb (uadc a b 0).1 p 0).1
      (bitandLimb p (sbb (uadc a b 0).2 0 (usbb (uadc a b 0).1 p 0).2).2) := rfl
theorem bAddMod_unfold (a b p : List Nat) :
    bAddMod a b p = (conditionalAdc (usbb (uadc a b 0).1 p 0).1 p
      (nzMask (sbb (uadc a b 0).2 0 (usbb (uadc a b 0).1 p 0).2).2)).1 := rfl
theorem doubleMod_unfold (a p : List Nat) :
    doubleMod a p = wrappingAdd (usbb (shl1 a).1 p 0).1
      (bitandLimb p (sbb (shl1 a).2 0 (usbb (shl1 a).1 p 0).2).2) := rfl
theorem bDoubleMod_unfold (a p : List Nat) :
    bDoubleMod a p = (conditionalAdc (usbb (shl1 a).1 p 0).1 p
      (nzMask (sbb (shl1 a).2 0 (usbb (shl1 a).1 p 0).2).2)).1 := rfl

/-- value spec shared by the four functions: exact sum `S = w + K·c < 2P` gives `S mod P`. -/
theorem addTail_spec {w p : List Nat} {c : Nat} (hw : WF w) (hp : WF p) (hl : w.length = p.length)
    (hc : c ≤ 1) (hS : val w + B ^ w.length * c < 2 * val p) :
    val (subModWithCarry w c p p) = (val w + B ^ w.length * c) % val p ∧
    WF (subModWithCarry w c p p) ∧ (subModWithCarry w c p p).length = w.length := by
  have ⟨r1, _, r3, r4⟩ := subModWithCarry_spec hw hp hl hc hS
  exact ⟨by rw [r1, mod_of_lt_two hS], r3, r4⟩

theorem ne_nil_of_val_lt {a p : List Nat} (hl : a.length = p.length) (h : val a < val p) : a ≠ [] := by
  intro h0; subst h0
  have : p = [] := List.length_eq_zero_iff.mp hl.symm
  subst this; simp at h

/-- `add_mod` is exact as soon as the exact sum is below `2p` (`b < p` is not needed: `add_mod(x, 1, 1)` is fine). -/
theorem addMod_spec_sum {a b p : List Nat} (ha : WF a) (hb : WF b) (hp : WF p)
    (hab : a.length = b.length) (hap : a.length = p.length)
    (hav : val a < val p) (hsum : val a + val b < 2 * val p) :
    (val (addMod a b p) = (val a + val b) % val p ∧ WF (addMod a b p) ∧ (addMod a b p).length = a.length) ∧
    bAddMod a b p = addMod a b p := by
  have s := uadc_spec a b 0 hab
  have sw := uadc_WF a b 0
  have sl := uadc_length a b 0 hab
  have sc : (uadc a b 0).2 ≤ 1 := uadc_carry_le_one ha hb (by omega)
  have hne : (uadc a b 0).1 ≠ [] := by
    intro h0
    have := ne_nil_of_val_lt hap hav
    rw [h0] at sl; simp at sl; exact this (List.length_eq_zero_iff.mp sl.symm)
  have ⟨e1, e2⟩ := addTail_eq sw hp (sl.trans hap) hne sc
  rw [addMod_unfold, bAddMod_unfold, e1, e2]
  refine ⟨?_, rfl⟩
  have := addTail_spec sw hp (sl.trans hap) sc (by rw [sl]; omega)
  rw [sl] at this
  rw [Nat.add_zero] at s
  rw [s] at this
  exact this

theorem addMod_spec {a b p : List Nat} (ha : WF a) (hb : WF b) (hp : WF p)
    (hab : a.length = b.length) (hap : a.length = p.length)
    (hav : val a < val p) (hbv : val b < val p) :
    (val (addMod a b p) = (val a + val b) % val p ∧ WF (addMod a b p) ∧ (addMod a b p).length = a.length) ∧
    bAddMod a b p = addMod a b p :=
  addMod_spec_sum ha hb hp hab hap hav (by omega)

theorem shl1_spec {a : List Nat} (ha : WF a) :
    val (shl1 a).1 + B ^ a.length * (shl1 a).2 = 2 * val a ∧ WF (shl1 a).1 ∧
    (shl1 a).1.length = a.length ∧ (shl1 a).2 ≤ 1 := by
  simp only [shl1]
  refine ⟨?_, toLimbs_WF _ _, toLimbs_length _ _, ?_⟩
  · rw [val_toLimbs]; exact Nat.mod_add_div _ _
  · have := val_lt ha
    have hK := Bpow_pos a.length
    have : 2 * val a < 2 * B ^ a.length := by omega
    exact Nat.le_of_lt_succ ((Nat.div_lt_iff_lt_mul hK).mpr (by omega))

theorem doubleMod_spec {a p : List Nat} (ha : WF a) (hp : WF p) (hap : a.length = p.length)
    (hav : val a < val p) :
    (val (doubleMod a p) = (2 * val a) % val p ∧ WF (doubleMod a p) ∧ (doubleMod a p).length = a.length) ∧
    bDoubleMod a p = doubleMod a p := by
  have ⟨s, sw, sl, sc⟩ := shl1_spec ha
  have hne : (shl1 a).1 ≠ [] := by
    intro h0
    have := ne_nil_of_val_lt hap hav
    rw [h0] at sl; simp at sl; exact this (List.length_eq_zero_iff.mp sl.symm)
  have ⟨e1, e2⟩ := addTail_eq sw hp (sl.trans hap) hne sc
  rw [doubleMod_unfold, bDoubleMod_unfold, e1, e2]
  refine ⟨?_, rfl⟩
  have := addTail_spec sw hp (sl.trans hap) sc (by rw [sl]; omega)
  rw [sl] at this
  rw [s] at this
  exact this

theorem subMod_unfold (a b p : List Nat) :
    subMod a b p = wrappingAdd (usbb a b 0).1 (bitandLimb p (usbb a b 0).2) := rfl
theorem bSubMod_unfold (a b p : List Nat) :
    bSubMod a b p = (conditionalAdc (usbb a b 0).1 p (nzMask (usbb a b 0).2)).1 := rfl
theorem bSubAssign_unfold (a b p : List Nat) (c : Nat) :
    bSubAssignModWithCarry a c b p =
      (conditionalAdc (usbb a b 0).1 p (nzMask (wnot (wneg c) &&& (usbb a b 0).2))).1 := rfl

theorem subMod_spec {a b p : List Nat} (ha : WF a) (hb : WF b) (hp : WF p)
    (hab : a.length = b.length) (hap : a.length = p.length)
    (hav : val a < val p) (hbv : val b < val p) :
    (val (subMod a b p) = (val a + (val p - val b)) % val p ∧ WF (subMod a b p) ∧
      (subMod a b p).length = a.length) ∧
    bSubMod a b p = subMod a b p ∧ bSubAssignModWithCarry a 0 b p = subMod a b p := by
  have ⟨s1, _, s3⟩ := usbb_spec ha hb B_pos hab
  have sl := usbb_length a b 0 hab
  have sw := usbb_WF a b 0
  have hne := ne_nil_of_val_lt hap hav
  rw [subMod_unfold, bSubMod_unfold, bSubAssign_unfold, condAdc_fst _ _ p _ rfl, condAdc_fst _ _ p _ rfl]
  have h0 : (0 : Nat) / HALF = 0 := by decide
  have h1 : WMAX / HALF = 1 := by decide
  rw [h0, Nat.add_zero] at s1
  have holt := val_lt sw
  rw [sl] at holt
  have hplt := val_lt hp
  rw [← hap] at hplt
  have halt := val_lt ha
  rcases s3 hne with hbw | hbw
  · -- no borrow
    rw [hbw] at s1 ⊢
    rw [wnot_wneg_zero, Nat.and_zero, show nzMask 0 = 0 from rfl, bitandLimb_zero]
    have ⟨z1, z2, z3⟩ := @wrappingAdd_val (usbb a b 0).1 (uzero p.length) (by simp [sl, hap, uzero])
    rw [val_uzero, Nat.add_zero, sl, Nat.mod_eq_of_lt holt] at z1
    rw [h0] at s1
    refine ⟨⟨?_, z2, by rw [z3, sl]⟩, rfl, rfl⟩
    rw [z1]
    have : val a + (val p - val b) = (val a - val b) + val p := by omega
    rw [this, Nat.add_mod_right, Nat.mod_eq_of_lt (by omega)]; omega
  · -- borrow: add p back
    rw [hbw] at s1 ⊢
    rw [wnot_wneg_zero, WMAX_and_self, show nzMask WMAX = WMAX from rfl, bitandLimb_max hp]
    have ⟨p1, p2, p3⟩ := @wrappingAdd_val (usbb a b 0).1 p (by rw [sl, hap])
    rw [h1] at s1
    rw [sl] at p1 p3
    refine ⟨⟨?_, p2, p3⟩, rfl, rfl⟩
    rw [p1]
    generalize B ^ a.length = K at *
    have e : val (usbb a b 0).1 + val p = (val a + (val p - val b)) + K := by omega
    rw [e, Nat.add_mod_right, Nat.mod_eq_of_lt (by omega), Nat.mod_eq_of_lt (by omega)]

theorem all_zero_iff {a : List Nat} : (a.all (· == 0)) = true ↔ val a = 0 := by
  induction a with
  | nil => simp
  | cons x xs ih =>
    simp only [List.all_cons, Bool.and_eq_true, beq_iff_eq, ih, val_cons]
    have := B_pos
    constructor
    · intro ⟨h1, h2⟩; rw [h1, h2]; simp
    · intro h
      have h1 : x = 0 := by omega
      have h2 : B * val xs = 0 := by omega
      exact ⟨h1, (Nat.mul_eq_zero.mp h2).resolve_left (by omega)⟩

theorem negMod_spec {a p : List Nat} (ha : WF a) (hp : WF p) (hap : a.length = p.length)
    (hav : val a < val p) :
    (val (negMod a p) = (val p - val a) % val p ∧ WF (negMod a p) ∧ (negMod a p).length = a.length) ∧
    bNegMod a p = negMod a p := by
  have ⟨s1, _, s3⟩ := usbb_spec hp ha B_pos hap.symm
  have sl := usbb_length p a 0 hap.symm
  have sw := usbb_WF p a 0
  have hne : p ≠ [] := by
    intro h0; subst h0; simp at hav
  have h0 : (0 : Nat) / HALF = 0 := by decide
  have h1 : WMAX / HALF = 1 := by decide
  rw [h0, Nat.add_zero] at s1
  have hplt := val_lt hp
  have holt := val_lt sw
  rw [sl] at holt
  -- p ≥ a: no borrow
  have hnb : (usbb p a 0).2 = 0 := by
    rcases s3 hne with h | h
    · exact h
    · rw [h, h1] at s1; omega
  rw [hnb, h0] at s1
  have hfix : negMod a p = bitandLimb (usbb p a 0).1 (mask (decide (val a ≠ 0))) := by
    simp only [negMod, isNonzero_spec' ha]; rfl
  have hbox : bNegMod a p = if val a = 0 then uzero p.length else (usbb p a 0).1 := by
    simp only [bNegMod]
    by_cases hz : val a = 0
    · have : (a.all (· == 0)) = true := all_zero_iff.mpr hz
      rw [this, if_pos hz]
      simp only [if_true]
      rw [← sl]
      generalize (usbb p a 0).1 = l
      induction l with
      | nil => rfl
      | cons x xs ih => simp only [List.map_cons, List.length_cons, uzero, List.replicate_succ] at *; rw [ih]
    · have : (a.all (· == 0)) = false := by
        rcases h : a.all (· == 0) with _ | _
        · rfl
        · exact absurd (all_zero_iff.mp h) hz
      rw [this, if_neg hz]
      simp
  by_cases hz : val a = 0
  · have hfix' : negMod a p = uzero p.length := by
      rw [hfix]; simp only [hz, ne_eq, not_true_eq_false, decide_false]
      rw [show mask false = 0 from rfl, bitandLimb_zero, sl]
    rw [hbox, if_pos hz, hfix']
    refine ⟨⟨?_, uzero_WF _, by simp [uzero, hap]⟩, rfl⟩
    rw [val_uzero, hz, Nat.sub_zero, Nat.mod_self]
  · have hfix' : negMod a p = (usbb p a 0).1 := by
      rw [hfix]; simp only [hz, ne_eq, not_false_eq_true, decide_true]
      rw [show mask true = WMAX from rfl, bitandLimb_max sw]
    rw [hbox, if_neg hz, hfix']
    refine ⟨⟨?_, sw, by rw [sl, hap]⟩, rfl⟩
    rw [Nat.mod_eq_of_lt (by omega)]; omega

/-! ### div_by_2 -/

theorem divBy2_unfold (a m : List Nat) :
    divBy2 a m = toLimbs a.length (val (uselect a (uadc a m 0).1 (isOdd a)) / 2 +
      (if selectWord 0 (uadc a m 0).2 (isOdd a) = 0 then 0 else B ^ a.length / 2)) := rfl
theorem bDivBy2_unfold (a m : List Nat) :
    bDivBy2 a m = toLimbs a.length (val (uadc a (bitandLimb m (isOdd a)) 0).1 / 2 +
      ((uadc a (bitandLimb m (isOdd a)) 0).2 % 2) * (B ^ a.length / 2)) := rfl

theorem Bpow_even {n : Nat} (hn : 0 < n) : B ^ n = 2 * (B ^ n / 2) := by
  obtain ⟨k, rfl⟩ : ∃ k, n = k + 1 := ⟨n - 1, by omega⟩
  have : B ^ (k + 1) = 2 * (HALF * B ^ k) := by rw [Nat.pow_succ, B_def, HALF_def]; ring
  rw [this, Nat.mul_div_cancel_left _ (by decide : 0 < 2)]

theorem half_sum_a {K c w S : Nat} (hc : c ≤ 1) (hK : K = 2 * (K / 2)) (h : w + K * c = S) (hS : S % 2 = 0) :
    w / 2 + (if c = 0 then 0 else K / 2) = S / 2 := by
  rcases Nat.le_one_iff_eq_zero_or_eq_one.mp hc with h0 | h0 <;> subst h0 <;> simp at h ⊢ <;> omega

theorem half_sum_b {K c w S : Nat} (hc : c ≤ 1) (hK : K = 2 * (K / 2)) (h : w + K * c = S) (hS : S % 2 = 0) :
    w / 2 + c % 2 * (K / 2) = S / 2 := by
  rcases Nat.le_one_iff_eq_zero_or_eq_one.mp hc with h0 | h0 <;> subst h0 <;> simp at h ⊢ <;> omega

theorem no_carry {K c w A : Nat} (hc : c ≤ 1) (h : w + K * c = A) (hA : A < K) : w = A ∧ c = 0 := by
  rcases Nat.le_one_iff_eq_zero_or_eq_one.mp hc with h0 | h0 <;> subst h0 <;> simp at h ⊢ <;> omega

/-- halving in ℤ/M for odd `M`: the value `v` the code computes equals `a·(M+1)/2 mod M`. -/
theorem half_mod {a M v : Nat} (hM : M % 2 = 1) (hv : v < M) (h2 : (v * 2) % M = a % M) :
    v = (a * ((M + 1) / 2)) % M := by
  have hMpos : 0 < M := by omega
  apply cancel_mod (coprime_two_of_odd hM) hv (Nat.mod_lt _ hMpos)
  rw [h2, Nat.mod_mul_mod, Nat.mul_assoc]
  have : (M + 1) / 2 * 2 = M + 1 := by omega
  rw [this, Nat.mul_add, Nat.mul_one, Nat.add_comm, Nat.add_mul_mod_self_right]

theorem divBy2_spec {a m : List Nat} (ha : WF a) (hm : WF m) (hl : a.length = m.length)
    (hav : val a < val m) (hodd : val m % 2 = 1) :
    (val (divBy2 a m) = (val a * ((val m + 1) / 2)) % val m ∧ WF (divBy2 a m) ∧
      (divBy2 a m).length = a.length) ∧
    bDivBy2 a m = divBy2 a m := by
  have hne := ne_nil_of_val_lt hl hav
  have hn : 0 < a.length := List.length_pos_iff.mpr hne
  have hKe := Bpow_even hn
  have hmlt := val_lt hm
  rw [← hl] at hmlt
  have halt := val_lt ha
  have s := uadc_spec a m 0 hl
  have sw := uadc_WF a m 0
  have sl := uadc_length a m 0 hl
  have sc : (uadc a m 0).2 ≤ 1 := uadc_carry_le_one ha hm (by omega)
  have solt := val_lt sw
  rw [sl] at solt
  rw [Nat.add_zero] at s
  rw [divBy2_unfold, bDivBy2_unfold, isOdd_spec ha]
  by_cases hb : val a % 2 = 1
  · -- odd: (a + M)/2
    simp only [hb, decide_true]
    rw [uselect_spec true ha sw sl.symm, selectWord_spec true B_pos (Nat.lt_of_le_of_lt sc (by decide)),
      show mask true = WMAX from rfl, bitandLimb_max hm]
    simp only [if_true]
    have hS : (val a + val m) % 2 = 0 := by omega
    have hv := half_sum_a sc hKe s hS
    have hv2 := half_sum_b sc hKe s hS
    rw [hv, hv2]
    refine ⟨⟨?_, toLimbs_WF _ _, toLimbs_length _ _⟩, rfl⟩
    rw [val_toLimbs_lt (by omega)]
    apply half_mod hodd (by omega)
    have : (val a + val m) / 2 * 2 = val a + val m := by omega
    rw [this, Nat.add_mod_right]
  · -- even: a/2
    simp only [hb, decide_false]
    rw [uselect_spec false ha sw sl.symm, selectWord_spec false B_pos (Nat.lt_of_le_of_lt sc (by decide)),
      show mask false = 0 from rfl, bitandLimb_zero]
    simp only [Bool.false_eq_true, if_false, if_true, Nat.add_zero]
    have z := uadc_spec a (uzero m.length) 0 (by simp [uzero, hl])
    have zw := uadc_WF a (uzero m.length) 0
    have zl := uadc_length a (uzero m.length) 0 (by simp [uzero, hl])
    have zc : (uadc a (uzero m.length) 0).2 ≤ 1 := uadc_carry_le_one ha (uzero_WF _) (by omega)
    have zlt := val_lt zw
    rw [zl] at zlt
    rw [val_uzero, Nat.add_zero] at z
    have hz := no_carry zc z halt
    rw [hz.1, hz.2]
    simp only [Nat.zero_mod, Nat.zero_mul, Nat.add_zero]
    refine ⟨⟨?_, toLimbs_WF _ _, toLimbs_length _ _⟩, by trivial⟩
    rw [val_toLimbs_lt (by omega)]
    apply half_mod hodd (by omega)
    have : val a / 2 * 2 = val a := by omega
    rw [this]

/-! ### Montgomery multiplication / retrieve (fixed width) -/

theorem split_wide (n v : Nat) (hv : v < B ^ n * B ^ n) :
    val ((toLimbs (2 * n) v).take n) + B ^ n * val ((toLimbs (2 * n) v).drop n) = v ∧
    WF ((toLimbs (2 * n) v).take n) ∧ WF ((toLimbs (2 * n) v).drop n) ∧
    ((toLimbs (2 * n) v).take n).length = n ∧ ((toLimbs (2 * n) v).drop n).length = n := by
  rw [show 2 * n = n + n by omega, toLimbs_take, toLimbs_drop]
  refine ⟨?_, toLimbs_WF _ _, toLimbs_WF _ _, toLimbs_length _ _, toLimbs_length _ _⟩
  rw [val_toLimbs, val_toLimbs]
  have hK := Bpow_pos n
  have : v / B ^ n < B ^ n := (Nat.div_lt_iff_lt_mul hK).mpr hv
  rw [Nat.mod_eq_of_lt this]
  exact Nat.mod_add_div _ _

theorem mulMont_spec {a b ms : List Nat} {k : Nat} (ha : WF a) (hb : WF b) (hms : WF ms)
    (_hal : a.length = ms.length) (hbl : b.length = ms.length)
    (hk : (k * val ms + 1) % B = 0) (hav : val a < val ms) :
    val (mulMont a b ms k) < val ms ∧
    (val (mulMont a b ms k) * B ^ ms.length) % val ms = (val a * val b) % val ms ∧
    WF (mulMont a b ms k) ∧ (mulMont a b ms k).length = ms.length := by
  have hblt := val_lt hb
  have halt := val_lt ha
  have hmlt := val_lt hms
  rw [hbl] at hblt
  have hK := Bpow_pos ms.length
  have hprod : val a * val b < val ms * B ^ ms.length := by
    have h1 : val a * val b < val ms * val b + val ms := by
      have : (val a + 1) * val b ≤ val ms * val b := Nat.mul_le_mul_right _ hav
      rw [Nat.add_mul, Nat.one_mul] at this
      omega
    have h2 : val ms * (val b + 1) ≤ val ms * B ^ ms.length := Nat.mul_le_mul_left _ hblt
    rw [Nat.mul_add, Nat.mul_one] at h2
    omega
  have hwide : val a * val b < B ^ ms.length * B ^ ms.length := by
    have : val ms * B ^ ms.length ≤ B ^ ms.length * B ^ ms.length :=
      Nat.mul_le_mul_right _ (Nat.le_of_lt hmlt)
    omega
  have ⟨e, w1, w2, l1, l2⟩ := split_wide ms.length (val a * val b) hwide
  simp only [mulMont]
  have := montgomeryReduction_spec w1 w2 hms l1 l2 hk (by rw [e]; exact hprod)
  rw [e] at this
  exact this

theorem retrieveMont_spec {a ms : List Nat} {k : Nat} (ha : WF a) (hms : WF ms)
    (hal : a.length = ms.length) (hk : (k * val ms + 1) % B = 0) (hav : val a < val ms) :
    val (retrieveMont a ms k) < val ms ∧
    (val (retrieveMont a ms k) * B ^ ms.length) % val ms = val a % val ms ∧
    WF (retrieveMont a ms k) ∧ (retrieveMont a ms k).length = ms.length := by
  simp only [retrieveMont]
  have hK := Bpow_pos ms.length
  have := montgomeryReduction_spec ha (uzero_WF ms.length) hms hal (by simp [uzero]) hk
    (by rw [val_uzero, Nat.mul_zero, Nat.add_zero]
        calc val a < val ms := hav
          _ = val ms * 1 := (Nat.mul_one _).symm
          _ ≤ val ms * B ^ ms.length := Nat.mul_le_mul_left _ hK)
  rw [val_uzero, Nat.mul_zero, Nat.add_zero] at this
  exact this

end CB.Monty
