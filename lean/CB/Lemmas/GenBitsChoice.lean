/- part of the word-level meaning theorems (see CB/Lemmas/GenBits.lean for the explanation); `bv_decide` file -/
import CB.Lemmas.GenBits
namespace CB.GenBits
open CB.Gen

theorem from_word_mask_meaning (p : Bool) : Choice.from_word_mask (ofBool p) = ofBool p := by
  simp only [gen_defs]

theorem from_word_lsb_meaning (p : Bool) : Choice.from_word_lsb (if p then 1#64 else 0#64) = ofBool p := by
  simp only [gen_defs, ofBool, T64]; bv_decide

theorem from_u32_lsb_meaning (p : Bool) : Choice.from_u32_lsb (if p then 1#32 else 0#32) = ofBool p := by
  simp only [gen_defs, ofBool, T64]; bv_decide

theorem from_u64_lsb_meaning (p : Bool) : Choice.from_u64_lsb (if p then 1#64 else 0#64) = ofBool p := by
  simp only [gen_defs, ofBool, T64]; bv_decide

theorem from_wide_word_lsb_meaning (p : Bool) : Choice.from_wide_word_lsb (if p then 1#128 else 0#128) = ofBool p := by
  simp only [gen_defs, ofBool, T64]; bv_decide

theorem from_word_msb_meaning (v : BitVec 64) : Choice.from_word_msb v = ofBool v.msb := by
  simp only [gen_defs, ofBool, T64]; bv_decide

theorem from_word_nonzero_meaning (v : BitVec 64) : Choice.from_word_nonzero v = ofBool (v != 0#64) := by
  simp only [gen_defs, ofBool, T64]; bv_decide

theorem from_u32_nonzero_meaning (v : BitVec 32) : Choice.from_u32_nonzero v = ofBool (v != 0#32) := by
  simp only [gen_defs, ofBool, T64]; bv_decide

theorem from_u64_nonzero_meaning (v : BitVec 64) : Choice.from_u64_nonzero v = ofBool (v != 0#64) := by
  simp only [gen_defs, ofBool, T64]; bv_decide

theorem from_word_eq_meaning (x y : BitVec 64) : Choice.from_word_eq x y = ofBool (x == y) := by
  simp only [gen_defs, ofBool, T64]; bv_decide

theorem from_u32_eq_meaning (x y : BitVec 32) : Choice.from_u32_eq x y = ofBool (x == y) := by
  simp only [gen_defs, ofBool, T64]; bv_decide

theorem from_u64_eq_meaning (x y : BitVec 64) : Choice.from_u64_eq x y = ofBool (x == y) := by
  simp only [gen_defs, ofBool, T64]; bv_decide

theorem from_word_lt_meaning (x y : BitVec 64) : Choice.from_word_lt x y = ofBool (decide (x < y)) := by
  simp only [gen_defs, ofBool, T64]; bv_decide

theorem from_word_gt_meaning (x y : BitVec 64) : Choice.from_word_gt x y = ofBool (decide (y < x)) := by
  simp only [gen_defs, ofBool, T64]; bv_decide

theorem from_word_le_meaning (x y : BitVec 64) : Choice.from_word_le x y = ofBool (decide (x ≤ y)) := by
  simp only [gen_defs, ofBool, T64]; bv_decide

theorem from_u32_lt_meaning (x y : BitVec 32) : Choice.from_u32_lt x y = ofBool (decide (x < y)) := by
  simp only [gen_defs, ofBool, T64]; bv_decide

theorem from_u32_le_meaning (x y : BitVec 32) : Choice.from_u32_le x y = ofBool (decide (x ≤ y)) := by
  simp only [gen_defs, ofBool, T64]; bv_decide

theorem from_u64_lt_meaning (x y : BitVec 64) : Choice.from_u64_lt x y = ofBool (decide (x < y)) := by
  simp only [gen_defs, ofBool, T64]; bv_decide

theorem from_u64_gt_meaning (x y : BitVec 64) : Choice.from_u64_gt x y = ofBool (decide (y < x)) := by
  simp only [gen_defs, ofBool, T64]; bv_decide

theorem from_wide_word_le_meaning (x y : BitVec 128) : Choice.from_wide_word_le x y = ofBool (decide (x ≤ y)) := by
  simp only [gen_defs, ofBool, T64]; bv_decide

/-- the boolean algebra of choices -/
theorem choice_algebra (p q : Bool) :
    Choice.not (ofBool p) = ofBool (!p) ∧ Choice.or (ofBool p) (ofBool q) = ofBool (p || q) ∧
    Choice.and (ofBool p) (ofBool q) = ofBool (p && q) ∧ Choice.xor (ofBool p) (ofBool q) = ofBool (p != q) ∧
    Choice.ne (ofBool p) (ofBool q) = ofBool (p != q) ∧ Choice.eq (ofBool p) (ofBool q) = ofBool (p == q) := by
  simp only [gen_defs, ofBool, T64]
  cases p <;> cases q <;> decide

/-- selection: `b` if the choice is truthy, else `a` — for words, wide words, u32, u64 -/
theorem select_meaning (p : Bool) :
    (∀ a b : BitVec 64, Choice.select_word (ofBool p) a b = if p then b else a) ∧
    (∀ a b : BitVec 128, Choice.select_wide_word (ofBool p) a b = if p then b else a) ∧
    (∀ a b : BitVec 32, Choice.select_u32 (ofBool p) a b = if p then b else a) ∧
    (∀ a b : BitVec 64, Choice.select_u64 (ofBool p) a b = if p then b else a) ∧
    (∀ x : BitVec 64, Choice.if_true_word (ofBool p) x = if p then x else 0#64) ∧
    (∀ x : BitVec 32, Choice.if_true_u32 (ofBool p) x = if p then x else 0#32) := by
  simp only [gen_defs, ofBool, T64]
  refine ⟨?_, ?_, ?_, ?_, ?_, ?_⟩ <;> intros <;> bv_decide

theorem to_bool_meaning (p : Bool) :
    Choice.is_true_vartime (ofBool p) = p ∧ Choice.to_bool_vartime (ofBool p) = p ∧
    Choice.to_u8 (ofBool p) = (if p then 1#8 else 0#8) ∧ Choice.as_u32_mask (ofBool p) = (if p then ~~~0#32 else 0#32) ∧
    Choice.as_u64_mask (ofBool p) = ofBool p := by
  simp only [gen_defs, ofBool, T64]
  cases p <;> decide

theorem fromWordLt_bridge (x y : BitVec 64) : fromWordLt x.toNat y.toNat = (Choice.from_word_lt x y).toNat := by
  rw [fromWordLt_spec (toNat_lt_B x) (toNat_lt_B y), from_word_lt_meaning, ofBool_toNat]
  simp only [BitVec.lt_def]

theorem fromWordLe_bridge (x y : BitVec 64) : fromWordLe x.toNat y.toNat = (Choice.from_word_le x y).toNat := by
  rw [fromWordLe_spec (toNat_lt_B x) (toNat_lt_B y), from_word_le_meaning, ofBool_toNat]
  simp only [BitVec.le_def]

theorem fromWordNonzero_bridge (x : BitVec 64) : fromWordNonzero x.toNat = (Choice.from_word_nonzero x).toNat := by
  rw [fromWordNonzero_spec (toNat_lt_B x), from_word_nonzero_meaning, ofBool_toNat]
  congr 1
  by_cases h : x = 0#64
  · subst h; rfl
  · have : x.toNat ≠ 0 := fun h0 => h (BitVec.eq_of_toNat_eq (by simpa using h0))
    simp [h, this]

theorem fromWordEq_bridge (x y : BitVec 64) : fromWordEq x.toNat y.toNat = (Choice.from_word_eq x y).toNat := by
  rw [fromWordEq_spec (toNat_lt_B x) (toNat_lt_B y), from_word_eq_meaning, ofBool_toNat]
  congr 1
  by_cases h : x = y
  · subst h; simp
  · have : x.toNat ≠ y.toNat := fun h0 => h (BitVec.eq_of_toNat_eq h0)
    simp [h, this]

theorem selectWord_bridge (p : Bool) (a b : BitVec 64) :
    selectWord a.toNat b.toNat (mask p) = (Choice.select_word (ofBool p) a b).toNat := by
  rw [selectWord_spec p (toNat_lt_B a) (toNat_lt_B b), (select_meaning p).1]
  cases p <;> rfl

end CB.GenBits
