/-
  CB.Lemmas.C10Conv — `impl_limb_convert!` (CB.Model.SafeGcd.limbConvert): re-chunking a limb
  string of width `ib` into limbs of width `ob` preserves the value modulo `2^total`; hence
  `from_uint` / `to_uint` are value preserving and mutually inverse.
-/
import CB.Lemmas.C10Unsat
import CB.Lemmas.Limbs
namespace CB.SafeGcd

/-- value of a little-endian string of `w`-bit limbs -/
def valW (w : Nat) : List Nat → Nat
  | [] => 0
  | x :: xs => x + 2 ^ w * valW w xs

def WFw (w : Nat) (l : List Nat) : Prop := ∀ x ∈ l, x < 2 ^ w

theorem WFw_cons {w x : Nat} {xs : List Nat} : WFw w (x :: xs) ↔ x < 2 ^ w ∧ WFw w xs := by
  constructor
  · intro h; exact ⟨h x List.mem_cons_self, fun y hy => h y (List.mem_cons_of_mem _ hy)⟩
  · rintro ⟨h1, h2⟩ y hy
    rcases List.mem_cons.mp hy with rfl | hy
    · exact h1
    · exact h2 y hy

theorem getD_lt_of_WFw {w : Nat} {l : List Nat} (h : WFw w l) (i : Nat) : l.getD i 0 < 2 ^ w := by
  rw [List.getD_eq_getElem?_getD]
  by_cases hi : i < l.length
  · rw [List.getElem?_eq_getElem hi]; exact h _ (List.getElem_mem hi)
  · rw [List.getElem?_eq_none (by omega)]; exact Nat.two_pow_pos w

/-- bit `p` of the value is bit `p % w` of limb `p / w` -/
theorem valW_testBit {w : Nat} (hw : 0 < w) : ∀ (l : List Nat), WFw w l → ∀ p,
    (valW w l).testBit p = (l.getD (p / w) 0).testBit (p % w) := by
  intro l
  induction l with
  | nil => intro _ p; simp [valW]
  | cons x xs ih =>
    intro h p
    obtain ⟨hx, hxs⟩ := WFw_cons.mp h
    have e : valW w (x :: xs) = 2 ^ w * valW w xs + x := by rw [valW, Nat.add_comm]
    rw [e, Nat.testBit_two_pow_mul_add _ hx]
    by_cases hp : p < w
    · rw [if_pos hp, Nat.div_eq_of_lt hp, Nat.mod_eq_of_lt hp]; rfl
    · rw [if_neg hp, ih hxs]
      have h1 : p / w = (p - w) / w + 1 := by
        have : p = (p - w) + w := by omega
        conv_lhs => rw [this]
        rw [Nat.add_div_right _ hw]
      have h2 : p % w = (p - w) % w := by
        have : p = (p - w) + w := by omega
        conv_lhs => rw [this]
        rw [Nat.add_mod_right]
      rw [h1, h2]; rfl

theorem valW_lt {w : Nat} : ∀ (l : List Nat), WFw w l → valW w l < 2 ^ (w * l.length) := by
  intro l
  induction l with
  | nil => intro _; simp [valW]
  | cons x xs ih =>
    intro h
    obtain ⟨hx, hxs⟩ := WFw_cons.mp h
    have := ih hxs
    rw [valW, List.length_cons, Nat.mul_succ, Nat.pow_add]
    have h1 : 2 ^ w * valW w xs ≤ 2 ^ w * (2 ^ (w * xs.length) - 1) := Nat.mul_le_mul_left _ (by omega)
    have h2 : 2 ^ w * (2 ^ (w * xs.length) - 1) = 2 ^ w * 2 ^ (w * xs.length) - 2 ^ w := by
      rw [Nat.mul_sub, Nat.mul_one]
    have h3 : 2 ^ w ≤ 2 ^ w * 2 ^ (w * xs.length) := Nat.le_mul_of_pos_right _ (Nat.two_pow_pos _)
    rw [Nat.mul_comm (2 ^ (w * xs.length))]
    omega

/-! ### the conversion loop -/

theorem getD_set (l : List Nat) (i j a : Nat) (hi : i < l.length) :
    (l.set i a).getD j 0 = if i = j then a else l.getD j 0 := by
  rw [List.getD_eq_getElem?_getD, List.getElem?_set, List.getD_eq_getElem?_getD]
  by_cases h : i = j
  · rw [if_pos h, if_pos hi, if_pos h]; rfl
  · rw [if_neg h, if_neg h]

/-- input bit `p` -/
def inBit (inp : List Nat) (ib p : Nat) : Bool := (inp.getD (p / ib) 0).testBit (p % ib)

/-- invariant of the `while bits < total` loop -/
structure CInv (inp : List Nat) (ib ob olen : Nat) (bits : Nat) (out : List Nat) : Prop where
  len : out.length = olen
  low : ∀ j t, j < olen → t < ob →
    (out.getD j 0).testBit t = (decide (ob * j + t < bits) && inBit inp ib (ob * j + t))
  zero : ∀ j, bits ≤ ob * j → out.getD j 0 = 0

theorem convLoop_step (inp : List Nat) (ib ob olen total : Nat) (hib : 0 < ib) (hob : 0 < ob) (hob64 : ob ≤ 64)
    (hin : WFw ib inp) (htot : total = min (inp.length * ib) (olen * ob))
    (bits : Nat) (out : List Nat) (hlt : bits < total) (h : CInv inp ib ob olen bits out) :
    CInv inp ib ob olen (bits + min (ib - bits % ib) (ob - bits % ob))
      (out.set (bits / ob) (out.getD (bits / ob) 0 |||
        (((inp.getD (bits / ib) 0) >>> (bits % ib)) <<< (bits % ob)) % 2 ^ 64)) ∧
    bits + min (ib - bits % ib) (ob - bits % ob) ≤ total := by
  have ht1 : total ≤ inp.length * ib := by rw [htot]; exact Nat.min_le_left _ _
  have ht2 : total ≤ olen * ob := by rw [htot]; exact Nat.min_le_right _ _
  have hi := Nat.mod_lt bits hib
  have ho := Nat.mod_lt bits hob
  have hdi := Nat.div_add_mod bits ib
  have hdo := Nat.div_add_mod bits ob
  generalize hq : bits / ib = q at *
  generalize hj0 : bits / ob = j0 at *
  generalize hiv : bits % ib = i at *
  generalize hov : bits % ob = o at *
  generalize hc : min (ib - i) (ob - o) = c
  have hc1 : 1 ≤ c := by rw [← hc]; omega
  have hci : c ≤ ib - i := by rw [← hc]; exact Nat.min_le_left _ _
  have hco : c ≤ ob - o := by rw [← hc]; exact Nat.min_le_right _ _
  have hceq : c = ib - i ∨ c = ob - o := by rw [← hc]; omega
  have hj0lt : j0 < olen := by
    by_contra hcon
    have : olen * ob ≤ j0 * ob := Nat.mul_le_mul_right ob (by omega)
    rw [Nat.mul_comm j0 ob] at this; omega
  have hqlt : q < inp.length := by
    by_contra hcon
    have : inp.length * ib ≤ q * ib := Nat.mul_le_mul_right ib (by omega)
    rw [Nat.mul_comm q ib] at this; omega
  have h1 : ob * (j0 + 1) ≤ olen * ob := by
    rw [Nat.mul_comm olen ob]; exact Nat.mul_le_mul_left ob (by omega)
  have h2 : ib * (q + 1) ≤ inp.length * ib := by
    rw [Nat.mul_comm inp.length ib]; exact Nat.mul_le_mul_left ib (by omega)
  have e1 : ob * (j0 + 1) = ob * j0 + ob := by ring
  have e2 : ib * (q + 1) = ib * q + ib := by ring
  have hle : bits + c ≤ total := by
    rw [htot]; apply Nat.le_min.mpr; constructor <;> omega
  refine ⟨⟨by rw [List.length_set]; exact h.len, ?_, ?_⟩, hle⟩
  · -- the low bits
    intro j t hj ht
    rw [getD_set _ _ _ _ (by rw [h.len]; exact hj0lt)]
    by_cases hjj : j0 = j
    · subst hjj
      rw [if_pos rfl, Nat.testBit_or, h.low j0 t hj ht, Nat.testBit_mod_two_pow, Nat.testBit_shiftLeft,
        Nat.testBit_shiftRight]
      have ht64 : t < 64 := by omega
      simp only [ht64, decide_true, Bool.true_and]
      by_cases hto : t < o
      · -- already written
        have : ¬ t ≥ o := by omega
        simp only [this, decide_false, Bool.false_and, Bool.or_false]
        have a1 : ob * j0 + t < bits := by omega
        have a2 : ob * j0 + t < bits + c := by omega
        simp only [a1, a2, decide_true]
      · have hge : t ≥ o := by omega
        have a1 : ¬ ob * j0 + t < bits := by omega
        simp only [hge, a1, decide_true, decide_false, Bool.true_and, Bool.false_and, Bool.false_or]
        by_cases htc : t < o + c
        · -- the freshly written chunk
          have a2 : ob * j0 + t < bits + c := by omega
          simp only [a2, decide_true, Bool.true_and]
          unfold inBit
          have hp : ob * j0 + t = ib * q + (i + (t - o)) := by omega
          have hlt' : i + (t - o) < ib := by omega
          have d1 : (ob * j0 + t) / ib = q := by
            rw [hp, Nat.mul_add_div hib, Nat.div_eq_of_lt hlt', Nat.add_zero]
          have d2 : (ob * j0 + t) % ib = i + (t - o) := by
            rw [hp, Nat.mul_add_mod, Nat.mod_eq_of_lt hlt']
          rw [d1, d2]
        · -- beyond the chunk: the input limb has no such bit
          have a2 : ¬ ob * j0 + t < bits + c := by omega
          simp only [a2, decide_false, Bool.false_and]
          have hcib : c = ib - i := by omega
          have hbig : ib ≤ i + (t - o) := by omega
          have hlimb := getD_lt_of_WFw hin q
          exact Nat.testBit_lt_two_pow (lt_of_lt_of_le hlimb (Nat.pow_le_pow_right (by omega) hbig))
    · rw [if_neg hjj, h.low j t hj ht]
      congr 1
      by_cases hjl : j < j0
      · have : ob * (j + 1) ≤ ob * j0 := Nat.mul_le_mul_left ob (by omega)
        have e3 : ob * (j + 1) = ob * j + ob := by ring
        have a1 : ob * j + t < bits := by omega
        have a2 : ob * j + t < bits + c := by omega
        simp only [a1, a2]
      · have : ob * (j0 + 1) ≤ ob * j := Nat.mul_le_mul_left ob (by omega)
        have a1 : ¬ ob * j + t < bits := by omega
        have a2 : ¬ ob * j + t < bits + c := by omega
        simp only [a1, a2]
  · -- untouched limbs stay zero
    intro j hj
    rw [getD_set _ _ _ _ (by rw [h.len]; exact hj0lt)]
    have hne : j0 ≠ j := by
      intro he; subst he; omega
    rw [if_neg hne]
    exact h.zero j (by omega)

theorem convLoop_spec (inp : List Nat) (ib ob olen total : Nat) (hib : 0 < ib) (hob : 0 < ob) (hob64 : ob ≤ 64)
    (hin : WFw ib inp) (htot : total = min (inp.length * ib) (olen * ob)) :
    ∀ fuel bits out, CInv inp ib ob olen bits out → bits ≤ total → total < bits + fuel →
    CInv inp ib ob olen total (convLoop inp ib ob 64 total fuel bits out) := by
  intro fuel
  induction fuel with
  | zero => intro bits out _ h1 h2; omega
  | succ n ih =>
    intro bits out h hb hf
    have e : convLoop inp ib ob 64 total (n + 1) bits out =
        if bits < total then
          convLoop inp ib ob 64 total n (bits + min (ib - bits % ib) (ob - bits % ob))
            (out.set (bits / ob) (out.getD (bits / ob) 0 |||
              (((inp.getD (bits / ib) 0) >>> (bits % ib)) <<< (bits % ob)) % 2 ^ 64))
        else out := rfl
    rw [e]
    by_cases hlt : bits < total
    · rw [if_pos hlt]
      obtain ⟨hinv, hle⟩ := convLoop_step inp ib ob olen total hib hob hob64 hin htot bits out hlt h
      have hi := Nat.mod_lt bits hib
      have ho := Nat.mod_lt bits hob
      have hc1 : 1 ≤ min (ib - bits % ib) (ob - bits % ob) := by omega
      exact ih _ _ hinv hle (by omega)
    · rw [if_neg hlt]
      have : bits = total := by omega
      rw [← this]; exact h

theorem maskLoop_spec (mask : Nat) : ∀ (n : Nat) (out : List Nat), n ≤ out.length →
    (maskLoop mask n out).length = out.length ∧
    ∀ j, (maskLoop mask n out).getD j 0 = if j < n then out.getD j 0 &&& mask else out.getD j 0 := by
  intro n
  induction n with
  | zero => intro out _; exact ⟨rfl, fun j => by rw [if_neg (by omega)]; rfl⟩
  | succ k ih =>
    intro out hk
    have e : maskLoop mask (k + 1) out = maskLoop mask k (out.set k (out.getD k 0 &&& mask)) := rfl
    rw [e]
    obtain ⟨l1, l2⟩ := ih (out.set k (out.getD k 0 &&& mask)) (by rw [List.length_set]; omega)
    refine ⟨by rw [l1, List.length_set], ?_⟩
    intro j
    rw [l2 j, getD_set _ _ _ _ (by omega)]
    by_cases hjk : j < k
    · have : k ≠ j := by omega
      rw [if_pos hjk, if_neg this, if_pos (by omega)]
    · by_cases hjeq : k = j
      · subst hjeq; rw [if_neg hjk, if_pos rfl, if_pos (by omega)]
      · rw [if_neg hjk, if_neg hjeq, if_neg (by omega)]

theorem mask_eq (ob : Nat) (hob : ob ≤ 64) : ((2 ^ 64 - 1) >>> (64 - ob) : Nat) = 2 ^ ob - 1 := by
  apply Nat.eq_of_testBit_eq
  intro i
  rw [Nat.testBit_shiftRight, Nat.testBit_two_pow_sub_one, Nat.testBit_two_pow_sub_one]
  congr 1
  apply propext
  omega

theorem WFw_of_getD {w : Nat} {l : List Nat} (h : ∀ j, j < l.length → l.getD j 0 < 2 ^ w) : WFw w l := by
  intro x hx
  obtain ⟨j, hj, rfl⟩ := List.mem_iff_getElem.mp hx
  have := h j hj
  rw [List.getD_eq_getElem?_getD, List.getElem?_eq_getElem hj] at this
  exact this

theorem getD_replicate_zero (n j : Nat) : (List.replicate n 0).getD j 0 = 0 := by
  rw [List.getD_eq_getElem?_getD]
  by_cases h : j < n
  · rw [List.getElem?_eq_getElem (by simpa using h)]; simp
  · rw [List.getElem?_eq_none (by simpa using h)]; rfl

/-- `impl_limb_convert!`: the output has `olen` limbs below `2^ob` and represents the input value
    modulo `2^total`, `total = min(inp.len·ib, olen·ob)` -/
theorem limbConvert_spec (inp : List Nat) (ib ob olen : Nat) (hib : 0 < ib) (hob : 0 < ob) (hob64 : ob ≤ 64)
    (hin : WFw ib inp) :
    (limbConvert inp ib ob olen).length = olen ∧ WFw ob (limbConvert inp ib ob olen) ∧
    valW ob (limbConvert inp ib ob olen) = valW ib inp % 2 ^ (min (inp.length * ib) (olen * ob)) := by
  generalize htot : min (inp.length * ib) (olen * ob) = total
  have ht2 : total ≤ olen * ob := by rw [← htot]; exact Nat.min_le_right _ _
  have h0 : CInv inp ib ob olen 0 (List.replicate olen 0) := by
    refine ⟨by simp, ?_, ?_⟩
    · intro j t _ _; rw [getD_replicate_zero]; simp
    · intro j _; exact getD_replicate_zero _ _
  have h1 := convLoop_spec inp ib ob olen total hib hob hob64 hin htot.symm (total + 1) 0 _ h0 (Nat.zero_le _) (by omega)
  generalize hout : convLoop inp ib ob 64 total (total + 1) 0 (List.replicate olen 0) = out1 at h1
  generalize hfilled : total / ob + (if total % ob > 0 then 1 else 0) = filled
  have hfl : filled ≤ olen := by
    rw [← hfilled]
    have hdm := Nat.div_add_mod total ob
    have hml := Nat.mod_lt total hob
    by_contra hc
    have : olen + 1 ≤ total / ob + (if total % ob > 0 then 1 else 0) := by omega
    have h2 : ob * (olen + 1) ≤ ob * (total / ob + (if total % ob > 0 then 1 else 0)) := Nat.mul_le_mul_left ob this
    rw [Nat.mul_add, Nat.mul_add, Nat.mul_comm ob olen] at h2
    split at h2 <;> omega
  have hft : total ≤ ob * filled := by
    rw [← hfilled]
    have hdm := Nat.div_add_mod total ob
    have hml := Nat.mod_lt total hob
    rw [Nat.mul_add]
    split <;> omega
  have hfin : limbConvert inp ib ob olen = maskLoop (2 ^ ob - 1) filled out1 := by
    unfold limbConvert
    simp only [htot, hout, hfilled, mask_eq ob hob64]
  obtain ⟨m1, m2⟩ := maskLoop_spec (2 ^ ob - 1) filled out1 (by rw [h1.len]; exact hfl)
  rw [hfin]
  have hget : ∀ j, (maskLoop (2 ^ ob - 1) filled out1).getD j 0 =
      if j < filled then out1.getD j 0 % 2 ^ ob else 0 := by
    intro j
    rw [m2 j]
    by_cases hj : j < filled
    · rw [if_pos hj, if_pos hj, Nat.and_two_pow_sub_one_eq_mod]
    · rw [if_neg hj, if_neg hj]
      apply h1.zero
      have : ob * filled ≤ ob * j := Nat.mul_le_mul_left ob (by omega)
      omega
  have hW : WFw ob (maskLoop (2 ^ ob - 1) filled out1) := by
    apply WFw_of_getD
    intro j _
    rw [hget j]
    split
    · exact Nat.mod_lt _ (Nat.two_pow_pos ob)
    · exact Nat.two_pow_pos ob
  refine ⟨by rw [m1, h1.len], hW, ?_⟩
  apply Nat.eq_of_testBit_eq
  intro p
  rw [valW_testBit hob _ hW, Nat.testBit_mod_two_pow, valW_testBit hib _ hin, hget]
  have hdm := Nat.div_add_mod p ob
  have hml := Nat.mod_lt p hob
  by_cases hj : p / ob < filled
  · rw [if_pos hj, Nat.testBit_mod_two_pow, h1.low _ _ (by omega) hml]
    simp only [hml, decide_true, Bool.true_and, hdm]
    rfl
  · rw [if_neg hj]
    have : ob * filled ≤ ob * (p / ob) := Nat.mul_le_mul_left ob (by omega)
    have hp : ¬ p < total := by omega
    simp [hp]

/-! ### `from_uint` / `to_uint` -/

theorem uvalN_eq_valW (l : List Nat) : uvalN l = valW 62 l := by
  induction l with
  | nil => rfl
  | cons x xs ih => rw [uvalN_cons, valW, ih]; rfl

theorem val_eq_valW (l : List Nat) : CB.val l = valW 64 l := by
  induction l with
  | nil => rfl
  | cons x xs ih => rw [CB.val_cons, valW, ih, CB.B_eq_pow]

theorem WF_iff_WFw (l : List Nat) : CB.WF l ↔ WFw 64 l := by
  unfold CB.WF WFw; rw [CB.B_eq_pow]

theorem WF62_iff_WFw (l : List Nat) : WF62 l ↔ WFw 62 l := Iff.rfl

/-- `UnsatInt::from_uint`: value preserving when the unsaturated limbs can hold the input -/
theorem fromUint_spec (x : List Nat) (n : Nat) (hx : CB.WF x) (hfit : 64 * x.length ≤ 62 * n) :
    (fromUint x n).length = n ∧ WF62 (fromUint x n) ∧ uvalN (fromUint x n) = CB.val x := by
  have hxw := (WF_iff_WFw x).mp hx
  obtain ⟨h1, h2, h3⟩ := limbConvert_spec x 64 62 n (by omega) (by omega) (by omega) hxw
  have hm : min (x.length * 64) (n * 62) = 64 * x.length := by omega
  have hlt := valW_lt x hxw
  rw [hm, Nat.mod_eq_of_lt hlt] at h3
  exact ⟨h1, h2, by rw [uvalN_eq_valW, val_eq_valW]; exact h3⟩

/-- `UnsatInt::to_uint`: the low `64·sat` bits of the (unsigned) limb value -/
theorem toUint_spec (u : List Nat) (sat : Nat) (hu : WF62 u) (hfit : 64 * sat ≤ 62 * u.length) :
    (toUint u sat).length = sat ∧ CB.WF (toUint u sat) ∧
    CB.val (toUint u sat) = uvalN u % 2 ^ (64 * sat) := by
  obtain ⟨h1, h2, h3⟩ := limbConvert_spec u 62 64 sat (by omega) (by omega) (by omega) hu
  have hm : min (u.length * 62) (sat * 64) = 64 * sat := by omega
  rw [hm] at h3
  exact ⟨h1, (WF_iff_WFw _).mpr h2, by rw [uvalN_eq_valW, val_eq_valW]; exact h3⟩

theorem valW_inj {w : Nat} : ∀ (a b : List Nat), WFw w a → WFw w b → a.length = b.length →
    valW w a = valW w b → a = b := by
  intro a
  induction a with
  | nil => intro b _ _ hl _; cases b with
    | nil => rfl
    | cons _ _ => simp at hl
  | cons x xs ih =>
    intro b ha hb hl hv
    cases b with
    | nil => simp at hl
    | cons y ys =>
      obtain ⟨hx, hxs⟩ := WFw_cons.mp ha
      obtain ⟨hy, hys⟩ := WFw_cons.mp hb
      rw [valW, valW] at hv
      have hp := Nat.two_pow_pos w
      have hxy : x = y := by
        have h1 : (x + 2 ^ w * valW w xs) % 2 ^ w = x := by
          rw [Nat.add_mul_mod_self_left]; exact Nat.mod_eq_of_lt hx
        have h2 : (y + 2 ^ w * valW w ys) % 2 ^ w = y := by
          rw [Nat.add_mul_mod_self_left]; exact Nat.mod_eq_of_lt hy
        rw [← h1, ← h2, hv]
      subst hxy
      have hv2 : valW w xs = valW w ys := by
        have : 2 ^ w * valW w xs = 2 ^ w * valW w ys := by omega
        exact Nat.eq_of_mul_eq_mul_left hp this
      rw [ih ys hxs hys (by simpa using hl) hv2]

/-- T10.4(a): the two conversions are mutually inverse -/
theorem toUint_fromUint (x : List Nat) (n : Nat) (hx : CB.WF x) (hfit : 64 * x.length ≤ 62 * n) :
    toUint (fromUint x n) x.length = x := by
  obtain ⟨f1, f2, f3⟩ := fromUint_spec x n hx hfit
  obtain ⟨t1, t2, t3⟩ := toUint_spec (fromUint x n) x.length f2 (by rw [f1]; exact hfit)
  have hxw := (WF_iff_WFw x).mp hx
  apply valW_inj _ _ ((WF_iff_WFw _).mp t2) hxw t1
  rw [← val_eq_valW, ← val_eq_valW, t3, f3]
  have := valW_lt x hxw
  rw [← val_eq_valW] at this
  exact Nat.mod_eq_of_lt this

theorem fromUint_toUint (u : List Nat) (sat : Nat) (hu : WF62 u) (hfit : 64 * sat ≤ 62 * u.length)
    (hval : uvalN u < 2 ^ (64 * sat)) : fromUint (toUint u sat) u.length = u := by
  obtain ⟨t1, t2, t3⟩ := toUint_spec u sat hu hfit
  obtain ⟨f1, f2, f3⟩ := fromUint_spec (toUint u sat) u.length t2 (by rw [t1]; exact hfit)
  apply valW_inj _ _ f2 hu f1
  rw [← uvalN_eq_valW, ← uvalN_eq_valW, f3, t3]
  exact Nat.mod_eq_of_lt hval

/-- `safegcd_nlimbs!`: the unsaturated limbs hold `bits + 64` bits -/
theorem nlimbs_geometry (bits : Nat) : bits + 64 ≤ 62 * nlimbsFor bits := by
  unfold nlimbsFor
  simp only [CB.Extracted.safegcdNlimbsPad, CB.Extracted.safegcdNlimbsDiv]
  omega

end CB.SafeGcd
