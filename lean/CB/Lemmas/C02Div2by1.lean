/-
  CB.Lemmas.C02Div2by1 — `div2by1` (Möller–Granlund Algorithm 4 as written in div_limb.rs, with
  both masked corrections and wrapping arithmetic) returns the exact quotient and remainder
  whenever the stored reciprocal is `reciprocalSpec d`.
-/
import CB.Lemmas.C02MG
import CB.Lemmas.C02Bits
import Mathlib.Tactic.Zify
import Mathlib.Tactic.Push
namespace CB.Div
open CB

theorem HALF_two : B = 2 * HALF := by decide

/-- what `reciprocalSpec` gives: `t = B + v`, `t*d + k = B²`, `1 ≤ k ≤ d`, `v < B`. -/
theorem recip_facts {d : Nat} (hd1 : HALF ≤ d) (hd2 : d < B) :
    ∃ k, 1 ≤ k ∧ k ≤ d ∧ (B + reciprocalSpec d) * d + k = B * B ∧ reciprocalSpec d < B := by
  have hdpos : 0 < d := Nat.lt_of_lt_of_le (by decide) hd1
  have hdm := Nat.div_add_mod (B * B - 1) d
  have hml := Nat.mod_lt (B * B - 1) hdpos
  have hBB : 1 ≤ B * B := by decide
  have htB : B ≤ (B * B - 1) / d := by
    rw [Nat.le_div_iff_mul_le hdpos]
    have : B * d ≤ B * (B - 1) := Nat.mul_le_mul_left B (by omega)
    have e : B * (B - 1) = B * B - B := by decide
    have : B ≤ B * B := by decide
    have : (1:Nat) ≤ B := by decide
    omega
  have ht2 : (B * B - 1) / d < 2 * B := by
    rw [Nat.div_lt_iff_lt_mul hdpos]
    have : 2 * B * HALF ≤ 2 * B * d := Nat.mul_le_mul_left _ hd1
    have e : 2 * B * HALF = B * B := by decide
    omega
  refine ⟨(B * B - 1) % d + 1, by omega, by omega, ?_, ?_⟩
  · have : B + reciprocalSpec d = (B * B - 1) / d := by unfold reciprocalSpec; omega
    rw [this, Nat.mul_comm]; omega
  · unfold reciprocalSpec; omega

theorem div_mod_of_eq {q r u d : Nat} (h : q * d + r = u) (hr : r < d) : u / d = q ∧ u % d = r := by
  subst h
  have hd : 0 < d := by omega
  constructor
  · rw [Nat.mul_comm, Nat.mul_add_div hd, Nat.div_eq_of_lt hr, Nat.add_zero]
  · rw [Nat.mul_comm, Nat.mul_add_mod, Nat.mod_eq_of_lt hr]

theorem fromWordLt_eq {x y : Nat} (hx : x < B) (hy : y < B) :
    fromWordLt x y = if x < y then WMAX else 0 := by
  rw [fromWordLt_spec hx hy]; by_cases h : x < y <;> simp [h, mask]
theorem fromWordLe_eq {x y : Nat} (hx : x < B) (hy : y < B) :
    fromWordLe x y = if x ≤ y then WMAX else 0 := by
  rw [fromWordLe_spec hx hy]; by_cases h : x ≤ y <;> simp [h, mask]
theorem fromWordEq_eq {x y : Nat} (hx : x < B) (hy : y < B) :
    fromWordEq x y = if x = y then WMAX else 0 := by
  rw [fromWordEq_spec hx hy]; by_cases h : x = y <;> simp [h, mask]
theorem selectWord_max {a b : Nat} (ha : a < B) (hb : b < B) : selectWord a b WMAX = b := by
  have := selectWord_spec true ha hb; simpa [mask] using this
theorem selectWord_zero {a b : Nat} (ha : a < B) (hb : b < B) : selectWord a b 0 = a := by
  have := selectWord_spec false ha hb; simpa [mask] using this

/-- the part of `div2by1` after the 128-bit sum `(q1, q0)` -/
def d2tail (d u0 Q q0 : Nat) : Nat × Nat :=
  let q1 := wadd Q 1
  let r := wsub u0 (wmul q1 d)
  let rGtQ0 := fromWordLt q0 r
  let q1' := selectWord q1 (wsub q1 1) rGtQ0
  let r' := selectWord r (wadd r d) rGtQ0
  let rGeD := fromWordLe d r'
  (selectWord q1' (wadd q1' 1) rGeD, selectWord r' (wsub r' d) rGeD)

theorem div2by1_eq_tail (u1 u0 : Nat) (rc : Reciprocal) :
    div2by1 u1 u0 rc = d2tail rc.divisorNormalized u0
      (addhilo (mulhilo rc.reciprocal u1).1 (mulhilo rc.reciprocal u1).2 u1 u0).1
      (addhilo (mulhilo rc.reciprocal u1).1 (mulhilo rc.reciprocal u1).2 u1 u0).2 := rfl

theorem wlt (a b : Nat) : wadd a b < B := Nat.mod_lt _ B_pos
theorem wslt (a b : Nat) : wsub a b < B := Nat.mod_lt _ B_pos

/-- word-level case analysis of the two masked corrections, given the Möller–Granlund bounds
    on the candidate remainder `U - (Q+1) d` (`U = u1*B + u0` as an atom). -/
theorem d2tail_cases {d u0 U Q q0 Qd : Nat} (hd1 : HALF ≤ d) (hd2 : d < B) (hu0 : u0 < B)
    (hU0 : U % B = u0) (hUlt : U < d * B)
    (hQ : Q < B) (hq0 : q0 < B) (hQd : Q * d = Qd)
    (ca : Qd + d ≤ U + d) (cb : Qd + d + q0 < U + B)
    (cc : U + d < Qd + d + B ∨ U < Qd + d + q0) :
    d2tail d u0 Q q0 = (U / d, U % d) := by
  have hwm : wmul (wadd Q 1) d = (Qd + d) % B := by
    simp only [wmul, wadd, Nat.mod_mul_mod]; rw [Nat.add_mul, Nat.one_mul, hQd]
  have hdB : d * B = B * d := Nat.mul_comm _ _
  unfold d2tail
  simp only [hwm]
  have hr_lt : wsub u0 ((Qd + d) % B) < B := wslt _ _
  have hw1 : wadd Q 1 < B := wlt _ _
  have hw2 : wsub (wadd Q 1) 1 < B := wslt _ _
  have hw3 : wadd (wsub u0 ((Qd + d) % B)) d < B := wlt _ _
  have hq1 : wsub (wadd Q 1) 1 = Q := by
    clear hwm cc cb ca hUlt hU0 hr_lt hw1 hw2 hw3
    simp only [wsub, wadd, B_def] at *; omega
  rw [fromWordLt_eq hq0 hr_lt]
  by_cases hneg : U < Qd + d
  · -- r̃ < 0 : first correction taken, no second correction
    have hr : wsub u0 ((Qd + d) % B) = U + B - (Qd + d) := by
      clear hwm hw1 hw2 hw3 hq1 hr_lt hUlt hdB
      simp only [wsub, B_def] at *; omega
    have hc1 : q0 < wsub u0 ((Qd + d) % B) := by rw [hr]; omega
    rw [if_pos hc1, selectWord_max hw1 hw2, selectWord_max hr_lt hw3]
    have hr' : wadd (wsub u0 ((Qd + d) % B)) d = U - Qd := by
      rw [hr]; clear hwm hw1 hw2 hw3 hq1 hr_lt hUlt hdB hr hc1
      simp only [wadd, B_def] at *; omega
    rw [hq1, hr']
    have hlt : U - Qd < d := by omega
    have hlt' : U - Qd < B := by omega
    rw [fromWordLe_eq hd2 hlt', if_neg (by omega), selectWord_zero hQ (wlt _ _),
      selectWord_zero hlt' (wslt _ _)]
    have := div_mod_of_eq (q := Q) (r := U - Qd) (u := U) (d := d) (by rw [hQd]; omega) hlt
    rw [this.1, this.2]
  · -- r̃ ≥ 0
    have hQ1 : Q + 1 < B := by
      have : (Q + 1) * d < B * d := by rw [Nat.add_mul, Nat.one_mul, hQd]; omega
      exact Nat.lt_of_mul_lt_mul_right this
    have hr : wsub u0 ((Qd + d) % B) = U - (Qd + d) := by
      clear hwm hw1 hw2 hw3 hq1 hUlt hdB
      simp only [wsub, B_def] at *; omega
    have hrB : U - (Qd + d) < B := by rw [← hr]; exact hr_lt
    have hw0 : wadd Q 1 = Q + 1 := by
      clear hwm hw1 hw2 hw3 hq1 hUlt hdB hr hrB hr_lt cc cb ca
      simp only [wadd, B_def] at *; omega
    by_cases hc1 : q0 < wsub u0 ((Qd + d) % B)
    · -- first correction taken although r̃ ≥ 0; the second one undoes it
      rw [if_pos hc1, selectWord_max hw1 hw2, selectWord_max hr_lt hw3]
      rw [hr] at hc1 ⊢
      have hsm : U - (Qd + d) + d < B := by
        clear hwm hw1 hw2 hw3 hq1 hUlt hdB hr hr_lt hw0
        simp only [B_def, HALF_def] at *; omega
      have hr' : wadd (U - (Qd + d)) d = U - Qd := by
        clear hwm hw1 hw2 hw3 hq1 hUlt hdB hr hr_lt hw0 cc cb ca hc1
        simp only [wadd, B_def] at *; omega
      rw [hq1, hr']
      have hlt' : U - Qd < B := by omega
      rw [fromWordLe_eq hd2 hlt', if_pos (by omega), selectWord_max hQ (wlt _ _),
        selectWord_max hlt' (wslt _ _)]
      have hlt : U - (Qd + d) < d := by
        clear hwm hw1 hw2 hw3 hq1 hUlt hdB hr hr_lt hw0 hr'
        simp only [B_def, HALF_def] at *; omega
      have := div_mod_of_eq (q := Q + 1) (r := U - (Qd + d)) (u := U) (d := d)
        (by rw [Nat.add_mul, Nat.one_mul, hQd]; omega) hlt
      have e1 : wsub (U - Qd) d = U - (Qd + d) := by
        clear hwm hw1 hw2 hw3 hq1 hUlt hdB hr hr_lt hw0 hr' this cc cb ca hc1
        simp only [wsub, B_def] at *; omega
      rw [this.1, this.2, hw0, e1]
    · rw [if_neg hc1, selectWord_zero hw1 hw2, selectWord_zero hr_lt hw3, fromWordLe_eq hd2 hr_lt]
      rw [hr] at hc1 ⊢
      by_cases hc2 : d ≤ U - (Qd + d)
      · rw [if_pos hc2, selectWord_max hw1 (wlt _ _), selectWord_max hrB (wslt _ _)]
        have hQ2 : Q + 2 < B := by
          have : (Q + 2) * d < B * d := by rw [Nat.add_mul, hQd]; omega
          exact Nat.lt_of_mul_lt_mul_right this
        have hlt : U - (Qd + d) - d < d := by
          clear hwm hw1 hw2 hw3 hq1 hUlt hdB hr hr_lt hw0
          simp only [B_def, HALF_def] at *; omega
        have := div_mod_of_eq (q := Q + 2) (r := U - (Qd + d) - d) (u := U) (d := d)
          (by rw [Nat.add_mul, hQd]; omega) hlt
        have e1 : wadd (Q + 1) 1 = Q + 2 := by
          clear hwm hw1 hw2 hw3 hq1 hUlt hdB hr hr_lt hw0 this cc cb ca hc1 hc2 hlt
          simp only [wadd, B_def] at *; omega
        have e2 : wsub (U - (Qd + d)) d = U - (Qd + d) - d := by
          clear hwm hw1 hw2 hw3 hq1 hUlt hdB hr hr_lt hw0 this cc cb ca hc1 hlt
          simp only [wsub, B_def] at *; omega
        rw [this.1, this.2, hw0, e1, e2]
      · rw [if_neg hc2, selectWord_zero hw1 (wlt _ _), selectWord_zero hrB (wslt _ _)]
        have := div_mod_of_eq (q := Q + 1) (r := U - (Qd + d)) (u := U) (d := d)
          (by rw [Nat.add_mul, Nat.one_mul, hQd]; omega) (by omega)
        rw [this.1, this.2, hw0]

/-- **T02.2** `div2by1` is exact (Möller–Granlund Theorem 2), including the two masked
    corrections computed with wrapping arithmetic. -/
theorem div2by1_exact {rc : Reciprocal} {u1 u0 : Nat}
    (hd1 : HALF ≤ rc.divisorNormalized) (hd2 : rc.divisorNormalized < B)
    (hv : rc.reciprocal = reciprocalSpec rc.divisorNormalized)
    (hu1 : u1 < rc.divisorNormalized) (hu0 : u0 < B) :
    div2by1 u1 u0 rc = ((u1 * B + u0) / rc.divisorNormalized, (u1 * B + u0) % rc.divisorNormalized) := by
  rw [div2by1_eq_tail]
  obtain ⟨d, sh, v⟩ := rc
  simp only at hd1 hd2 hv hu1 ⊢
  obtain ⟨k, hk1, hkd, htk, hvB⟩ := recip_facts hd1 hd2
  rw [← hv] at htk hvB
  clear hv
  have hdpos : 0 < d := Nat.lt_of_lt_of_le (by decide) hd1
  -- the 128-bit sum does not overflow
  have hSlt : (B + v) * u1 + u0 < B * B := by
    have h1 : (B + v) * u1 ≤ (B + v) * (d - 1) := Nat.mul_le_mul_left _ (by omega)
    have h2 : (B + v) * (d - 1) + (B + v) = (B + v) * d := by
      have : (B + v) * (d - 1) + (B + v) * 1 = (B + v) * (d - 1 + 1) := (Nat.mul_add _ _ _).symm
      rw [Nat.mul_one] at this; rw [this]; congr 1; omega
    omega
  have hsum : (v * u1 / B * B + v * u1 % B + (u1 * B + u0)) = (B + v) * u1 + u0 := by
    have := Nat.div_add_mod (v * u1) B
    rw [Nat.add_mul, Nat.mul_comm u1 B]
    rw [Nat.mul_comm (v * u1 / B) B]; omega
  obtain ⟨S, hSdef⟩ : ∃ S, S = (B + v) * u1 + u0 := ⟨_, rfl⟩
  have hadd : addhilo (mulhilo v u1).1 (mulhilo v u1).2 u1 u0 = (S / B, S % B) := by
    simp only [addhilo, mulhilo, hsum, ← hSdef, Nat.mod_eq_of_lt (hSdef ▸ hSlt)]
  rw [hadd]
  have hQ : S / B < B := Nat.div_lt_of_lt_mul (hSdef ▸ hSlt)
  have hq0 : S % B < B := Nat.mod_lt _ B_pos
  have hSeq := Nat.div_add_mod S B
  -- the Möller–Granlund bounds, over ℤ
  have core := @mg_core (B:ℤ) d u1 u0 ((B + v : Nat):ℤ) ((S / B : Nat):ℤ) ((S % B : Nat):ℤ) k
    (by exact_mod_cast hd2) (by rw [HALF_two]; push_cast; exact_mod_cast (by omega : 2 * HALF ≤ 2 * d))
    (by positivity) (by exact_mod_cast hu1) (by positivity) (by exact_mod_cast hu0) (by positivity)
    (by exact_mod_cast hq0) (by exact_mod_cast hk1) (by exact_mod_cast hkd) (by exact_mod_cast htk)
    (by rw [hSdef] at hSeq ⊢; push_cast at hSeq ⊢; linarith)
  generalize S / B = Q at *
  generalize S % B = q0 at *
  obtain ⟨ca, cb, cc⟩ := core
  have hP : (Q + 1) * d = Q * d + d := by rw [Nat.add_mul, Nat.one_mul]
  have ca' : Q * d + d ≤ u1 * B + u0 + d := by rw [← hP]; zify; linarith
  have cb' : Q * d + d + q0 < u1 * B + u0 + B := by rw [← hP]; zify; linarith
  have cc' : u1 * B + u0 + d < Q * d + d + B ∨ u1 * B + u0 < Q * d + d + q0 := by
    rw [← hP]
    rcases cc with h | h
    · left; zify; linarith
    · right; zify; linarith
  have hUlt : u1 * B + u0 < d * B := by
    have : (u1 + 1) * B ≤ d * B := Nat.mul_le_mul_right B (by omega)
    rw [Nat.add_mul, Nat.one_mul] at this; omega
  have hU0 : (u1 * B + u0) % B = u0 := by
    rw [Nat.mul_comm, Nat.mul_add_mod, Nat.mod_eq_of_lt hu0]
  exact d2tail_cases hd1 hd2 hu0 hU0 hUlt hQ hq0 rfl ca' cb' cc'

end CB.Div
