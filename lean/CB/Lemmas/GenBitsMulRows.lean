/-
  CB.Lemmas.GenBitsMulRows — what ONE ROUND of each translated loop of `schoolbook_multiplication` is
  (CB/Gen/MulRows.lean, regenerated from src/uint/mul.rs and src/limb/mul.rs on every run by tools/translate.py), what
  the function around the loops is, and the meaning of the thin `impl Limb` multiplications.
  Same method as CB/Lemmas/GenBitsChains.lean (whose tactics `round_eq` / `chain_congr` are used): this is the only file
  that looks at the generated TEXT of the multiplication rows; every lemma unfolds the generated definitions and, where
  the two sides are not already identical, decides the words with `bv_decide` modulo congruence (the recursive calls,
  `List.set`, `List.getD` stay folded).  The inductions over the limb counts are in CB/Lemmas/GenMulRows.lean.

  `bv_decide` file: its name matches `*Bits*`.
-/
import CB.Gen.MulRows
import CB.Lemmas.GenBitsChainsAdd
import CB.Lemmas.GenBitsMul
/- the round lemmas name both spellings of each address test; the one the source does not use is an unused `simp` argument -/
set_option linter.unusedSimpArgs false
namespace CB.GenBits
open CB.Gen CB.Gen.Chains

/-- `chain_congr` with index arithmetic: a leaf may also be an equation between `Nat` indices (`j + i` for `i + j`) -/
syntax "rows_congr " num : tactic
macro_rules | `(tactic| rows_congr $n) => do
  match n.getNat with
  | 0 => `(tactic| first | with_reducible rfl | omega | bv_decide | (simp only [gen_defs] <;> (try simp only [BitVec.mul_comm]) <;> bv_decide) | bv_decide)
  | k + 1 =>
    let m := Lean.Syntax.mkNumLit (toString k)
    `(tactic| first | with_reducible rfl | omega | bv_decide | (with_reducible congr 1 <;> rows_congr $m) | (simp only [gen_defs] <;> (try simp only [BitVec.mul_comm]) <;> bv_decide) | bv_decide)

/-- closes a round lemma after the generated loop has been unfolded once: unfold the generated word functions, bring the
    index sums into one order, compare (deciding the words, keeping the recursive call / `List.set` / `List.getD` folded) -/
macro "rows_eq" : tactic =>
  `(tactic| ((try simp only [gen_defs]) <;> (try simp only [Nat.add_comm, Nat.add_left_comm, Nat.add_assoc]) <;> (try simp only [BitVec.mul_comm]) <;> rows_congr 6))

/-- the same when the round still contains the address test `if k >= lhs.len()` in whatever spelling: take the branch the
    hypotheses in the context select (the other one is contradictory) -/
macro "addr_eq" : tactic =>
  `(tactic| ((try dsimp only) <;> first | rows_eq | (split <;> first | (exfalso; omega) | rows_eq)))

/-! ## `impl Limb` (src/limb/mul.rs) -/

theorem limb_wrapping_mul_eq (a b : BitVec 64) : MulRows.Limb.wrapping_mul a b = a * b := by
  round_eq
theorem limb_mul_wide_eq (a b : BitVec 64) : MulRows.Limb.mul_wide a b = Prim.mul_wide a b := by
  round_eq
/-- `Limb::saturating_mul` (= `Word::saturating_mul`, translated as "the 128-bit product has a zero high half, else MAX") -/
theorem limb_saturating_mul_eq (a b : BitVec 64) :
    MulRows.Limb.saturating_mul a b =
      if (a.setWidth 128 * b.setWidth 128) >>> 64 == 0#128 then a * b else ~~~0#64 := by
  round_eq

/-! ## the inner loop `while j < rhs.len()` of `schoolbook_multiplication` -/

theorem mul_inner_zero (lhs rhs : List (BitVec 64)) (i : Nat) (xi : BitVec 64) (j : Nat) (lo hi : List (BitVec 64))
    (c : BitVec 64) :
    MulRows.schoolbook_multiplication_loop2 lhs rhs i xi 0 j lo hi c = (lo, hi, c) := by
  rw [MulRows.schoolbook_multiplication_loop2]

/-- the inner loop stops when `j` has reached `rhs.len()`, whatever fuel is left -/
theorem mul_inner_done (lhs rhs : List (BitVec 64)) (i : Nat) (xi : BitVec 64) (n j : Nat) (lo hi : List (BitVec 64))
    (c : BitVec 64) (h : ¬ j < rhs.length) :
    MulRows.schoolbook_multiplication_loop2 lhs rhs i xi n j lo hi c = (lo, hi, c) := by
  cases n with
  | zero => rw [MulRows.schoolbook_multiplication_loop2]
  | succ n => rw [MulRows.schoolbook_multiplication_loop2, if_neg h]

/-- one round, position `k = i + j` in `hi` (`k >= lhs.len()`): `(hi[k - lhs.len()], carry) = hi[k - lhs.len()].mac(xi, rhs[j], carry)` -/
theorem mul_inner_succ_hi (lhs rhs : List (BitVec 64)) (i : Nat) (xi : BitVec 64) (n j : Nat) (lo hi : List (BitVec 64))
    (c : BitVec 64) (h : j < rhs.length) (hk : i + j ≥ lhs.length) :
    MulRows.schoolbook_multiplication_loop2 lhs rhs i xi (n + 1) j lo hi c =
      MulRows.schoolbook_multiplication_loop2 lhs rhs i xi n (j + 1) lo
        (hi.set (i + j - lhs.length) (Prim.mac (hi.getD (i + j - lhs.length) 0#64) xi (rhs.getD j 0#64) c).1)
        (Prim.mac (hi.getD (i + j - lhs.length) 0#64) xi (rhs.getD j 0#64) c).2 := by
  rw [MulRows.schoolbook_multiplication_loop2, if_pos h]
  -- the address test, however the source spells it (`k >= lhs.len()`, `k < lhs.len()` with the branches swapped, ..)
  (try simp only [if_pos hk, if_neg (show ¬ i + j < lhs.length by omega)]) <;> addr_eq

/-- one round, position `k = i + j` in `lo` (`k < lhs.len()`): `(lo[k], carry) = lo[k].mac(xi, rhs[j], carry)` -/
theorem mul_inner_succ_lo (lhs rhs : List (BitVec 64)) (i : Nat) (xi : BitVec 64) (n j : Nat) (lo hi : List (BitVec 64))
    (c : BitVec 64) (h : j < rhs.length) (hk : ¬ i + j ≥ lhs.length) :
    MulRows.schoolbook_multiplication_loop2 lhs rhs i xi (n + 1) j lo hi c =
      MulRows.schoolbook_multiplication_loop2 lhs rhs i xi n (j + 1)
        (lo.set (i + j) (Prim.mac (lo.getD (i + j) 0#64) xi (rhs.getD j 0#64) c).1) hi
        (Prim.mac (lo.getD (i + j) 0#64) xi (rhs.getD j 0#64) c).2 := by
  rw [MulRows.schoolbook_multiplication_loop2, if_pos h]
  (try simp only [if_neg hk, if_pos (show i + j < lhs.length by omega)]) <;> addr_eq

/-! ## the outer loop `while i < lhs.len()` -/

theorem mul_outer_zero (lhs rhs : List (BitVec 64)) (i : Nat) (lo hi : List (BitVec 64)) :
    MulRows.schoolbook_multiplication_loop1 lhs rhs 0 i lo hi = (lo, hi) := by
  rw [MulRows.schoolbook_multiplication_loop1]

/-- one row: carry 0, `xi = lhs[i]`, the inner loop from `j = 0` with `rhs.len()` rounds, then the carry is STORED (not
    added) at position `i + rhs.len()` — in `hi` when that is `>= lhs.len()`, else in `lo` -/
theorem mul_outer_succ (lhs rhs : List (BitVec 64)) (n i : Nat) (lo hi : List (BitVec 64)) (h : i < lhs.length) :
    MulRows.schoolbook_multiplication_loop1 lhs rhs (n + 1) i lo hi =
      MulRows.schoolbook_multiplication_loop1 lhs rhs n (i + 1)
        (if i + rhs.length ≥ lhs.length then
            (MulRows.schoolbook_multiplication_loop2 lhs rhs i (lhs.getD i 0#64) rhs.length 0 lo hi 0#64).1
          else (MulRows.schoolbook_multiplication_loop2 lhs rhs i (lhs.getD i 0#64) rhs.length 0 lo hi 0#64).1.set
            (i + rhs.length) (MulRows.schoolbook_multiplication_loop2 lhs rhs i (lhs.getD i 0#64) rhs.length 0 lo hi 0#64).2.2)
        (if i + rhs.length ≥ lhs.length then
            (MulRows.schoolbook_multiplication_loop2 lhs rhs i (lhs.getD i 0#64) rhs.length 0 lo hi 0#64).2.1.set
              (i + rhs.length - lhs.length) (MulRows.schoolbook_multiplication_loop2 lhs rhs i (lhs.getD i 0#64) rhs.length 0 lo hi 0#64).2.2
          else (MulRows.schoolbook_multiplication_loop2 lhs rhs i (lhs.getD i 0#64) rhs.length 0 lo hi 0#64).2.1) := by
  rw [MulRows.schoolbook_multiplication_loop1, if_pos h]
  by_cases hk : i + rhs.length ≥ lhs.length
  · (try simp only [if_pos hk, if_neg (show ¬ i + rhs.length < lhs.length by omega)]) <;> addr_eq
  · (try simp only [if_neg hk, if_pos (show i + rhs.length < lhs.length by omega)]) <;> addr_eq

/-- the function around the loops: counter from 0, `lhs.len()` rounds, returns the final `(lo, hi)` -/
theorem schoolbook_multiplication_eq_loop (lhs rhs lo hi : List (BitVec 64)) :
    MulRows.schoolbook_multiplication lhs rhs lo hi =
      MulRows.schoolbook_multiplication_loop1 lhs rhs lhs.length 0 lo hi := by
  simp only [MulRows.schoolbook_multiplication]

end CB.GenBits
