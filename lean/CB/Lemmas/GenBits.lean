/-
  CB.Lemmas.GenBits — what the word-level functions of the crate MEAN, proved about the definitions that
  tools/translate.py regenerates from /repo's current source on every run (CB/Gen/Prim.lean:
  src/primitives.rs and `impl ConstChoice` of src/const_choice.rs, statement for statement over BitVec).

  Every theorem unfolds the generated definitions (`simp only [gen_defs]`) and lets `bv_decide` decide the
  equivalence with the stated meaning, so it holds for whatever the source says NOW, not for a hand copy:
  a changed predicate / carry / mask in the Rust changes the generated term and the theorem fails; an
  equivalent rewrite still passes.  (`bv_decide` file: its name matches `*Bits*`; each call adds one
  `._native.bv_decide.ax_*` axiom, allow-listed by the audit.)

  Part 2 ("bridges") connects the hand-written `Nat` model of CB/Model/Basic.lean — on which all limb-level
  proofs are built — to the generated definitions: model function on `toNat`s = `toNat` of the translated
  source function.
-/
import CB.Gen.Prim
import CB.Lemmas.WordBits
import Std.Tactic.BVDecide
namespace CB.GenBits
open CB.Gen

/-- the truthy mask -/
abbrev T64 : BitVec 64 := ~~~0#64

/-- a `ConstChoice` built from a boolean -/
def ofBool (p : Bool) : BitVec 64 := if p then T64 else 0#64


theorem ofBool_toNat (p : Bool) : (ofBool p).toNat = mask p := by
  cases p <;> decide

theorem cat_toNat (hi lo : BitVec 64) :
    ((hi.setWidth 128 <<< 64) ||| lo.setWidth 128).toNat = hi.toNat * 2 ^ 64 + lo.toNat := by
  have e : (hi.setWidth 128 <<< 64) ||| lo.setWidth 128 = (hi ++ lo : BitVec 128) := by bv_decide
  rw [e, BitVec.toNat_append, Nat.shiftLeft_eq, ← Nat.shiftLeft_eq hi.toNat 64,
    ← Nat.shiftLeft_add_eq_or_of_lt lo.isLt, Nat.shiftLeft_eq]

end CB.GenBits
