/-
  CB.Lemmas.C05Int — `Int::overflowing_shr_vartime` (sign-filling arithmetic right shift) and its ladder.
  `toInt` = two's complement reading of a limb list.
-/
import CB.Lemmas.C05Ladder
namespace CB.Shift
open CB CB.Bits

/-- two's complement value of an `n`-limb word (negative iff the top bit is set) -/
def toInt (a : List Nat) : Int :=
  if B ^ a.length ≤ 2 * val a then (val a : Int) - ((B ^ a.length : Nat) : Int) else (val a : Int)

/-! ### the sign -/

theorem fromWordMsb_spec {w : Nat} (hw : w < B) : fromWordMsb w = mask (decide (HALF ≤ w)) := by
  unfold fromWordMsb fromWordLsb wneg
  have h : w / HALF = 0 ∨ w / HALF = 1 := by simp only [HALF_def, B_def] at *; omega
  rcases h with h | h
  · have : ¬ (HALF ≤ w) := by simp only [HALF_def, B_def] at *; omega
    rw [h]; simp [this, mask]
  · have : HALF ≤ w := by simp only [HALF_def, B_def] at *; omega
    rw [h]; simp [this, mask]; decide

theorem msb_iff {a : List Nat} (ha : WF a) (hne : a ≠ []) :
    HALF ≤ a.getLastD 0 ↔ B ^ a.length ≤ 2 * val a := by
  induction a with
  | nil => exact absurd rfl hne
  | cons x xs ih =>
    have ⟨hx, hxs⟩ := WF_cons.mp ha
    cases xs with
    | nil =>
      simp only [List.getLastD_cons, List.getLastD_nil, List.length_cons, List.length_nil, val_cons, val_nil,
        Nat.mul_zero, Nat.add_zero, Nat.zero_add, Nat.pow_one]
      simp only [HALF_def, B_def]; omega
    | cons y ys =>
      have ih' := ih hxs (by simp)
      have e : (x :: y :: ys).getLastD 0 = (y :: ys).getLastD 0 := by simp only [List.getLastD_cons]
      rw [e, ih']
      have hlt := val_lt hxs
      have hv : val (x :: y :: ys) = x + B * val (y :: ys) := rfl
      have hl1 : (x :: y :: ys).length = ys.length + 2 := rfl
      have hl2 : (y :: ys).length = ys.length + 1 := rfl
      rw [hv, hl1, hl2]
      rw [hl2] at hlt
      simp only [Nat.pow_succ] at hlt ⊢
      generalize val (y :: ys) = v at hlt ⊢
      generalize B ^ ys.length = K at hlt ⊢
      simp only [B_def] at hx hlt ⊢
      omega

theorem isNegative_spec {a : List Nat} (ha : WF a) (hne : a ≠ []) :
    isNegative a = mask (decide (B ^ a.length ≤ 2 * val a)) := by
  unfold isNegative
  have hlast : a.getLastD 0 < B := by
    rw [List.getLastD_eq_getLast?]
    cases h : a.getLast? with
    | none => exact B_pos
    | some v => exact ha v (List.mem_of_getLast? h)
  rw [fromWordMsb_spec hlast]
  congr 1
  exact decide_eq_decide.mpr (msb_iff ha hne)

/-! ### value of the arithmetic right shift -/

/-- sign indicator: 1 for a negative word -/
def negF (a : List Nat) : Nat := if B ^ a.length ≤ 2 * val a then 1 else 0

theorem negF_cases (a : List Nat) : negF a = 0 ∨ negF a = 1 := by
  unfold negF; by_cases h : B ^ a.length ≤ 2 * val a <;> simp [h]

theorem sign_carry_all : ∀ r, r < 64 → 0 < r → WMAX ^^^ (WMAX / 2 ^ r) = 2 ^ (64 - r) * (2 ^ r - 1) := by
  decide

theorem int_shr_arith {V K R N : Nat} (hK : 0 < K) (hR : 0 < R) {F : Nat} (hF : F = 0 ∨ F = 1) :
    (V / K + N * ((R - 1) * F)) / R + N * ((K - 1) * F) = (V + K * N * ((K * R - 1) * F)) / (K * R) := by
  rcases hF with hF | hF
  · subst hF; simp [Nat.div_div_eq_div_mul]
  · subst hF
    simp only [Nat.mul_one]
    obtain ⟨k, rfl⟩ : ∃ k, K = k + 1 := ⟨K - 1, by omega⟩
    obtain ⟨r, rfl⟩ : ∃ r, R = r + 1 := ⟨R - 1, by omega⟩
    have e : (k + 1) * (r + 1) = (r + (r + 1) * k) + 1 := by ring
    rw [e, Nat.add_sub_cancel, Nat.add_sub_cancel, Nat.add_sub_cancel, ← e, ← Nat.div_div_eq_div_mul,
      Nat.mul_assoc, Nat.add_mul_div_left _ _ (Nat.succ_pos k)]
    have e2 : N * (r + (r + 1) * k) = N * r + (r + 1) * (N * k) := by ring
    rw [e2, ← Nat.add_assoc, Nat.add_mul_div_left _ _ (Nat.succ_pos r)]

theorem val_replicate_sel (k : Nat) (p : Bool) :
    val (List.replicate k (if p then WMAX else 0)) = (B ^ k - 1) * (if p then 1 else 0) := by
  cases p
  · simp [val_replicate_zero]
  · simp only [if_true, Nat.mul_one]
    have := val_replicate_max k; omega

theorem sel_lt_B (p : Bool) : (if p then WMAX else 0) < B := by cases p <;> decide

theorem intShrV_inrange {a : List Nat} (ha : WF a) (hne : a ≠ []) {s : Nat} (h : s < 64 * a.length) :
    (intOverflowingShrVartime a s).2 = WMAX ∧
    val (intOverflowingShrVartime a s).1 =
      (val a + B ^ a.length * ((2 ^ s - 1) * negF a)) / 2 ^ s ∧
    (intOverflowingShrVartime a s).1.length = a.length ∧ WF (intOverflowingShrVartime a s).1 := by
  have hk : s / 64 < a.length := by omega
  have hkle : s / 64 ≤ a.length := Nat.le_of_lt hk
  have hdrop : WF (a.drop (s / 64)) := WF_drop ha _
  have hvd : val (a.drop (s / 64)) = val a / B ^ (s / 64) := val_drop ha hkle
  have hld : (a.drop (s / 64)).length = a.length - s / 64 := List.length_drop
  have hsplit : B ^ a.length = B ^ (s / 64) * B ^ (a.length - s / 64) := by
    rw [← Nat.pow_add]; congr 1; omega
  have hF := negF_cases a
  have hFdef : negF a = if decide (B ^ a.length ≤ 2 * val a) then 1 else 0 := by
    unfold negF; by_cases hh : B ^ a.length ≤ 2 * val a <;> simp [hh]
  unfold intOverflowingShrVartime
  simp only [ge_iff_le, Nat.not_le.mpr h, if_false]
  rw [isNegative_spec ha hne, selectWord_spec _ (by decide : (0 : Nat) < B) (by decide : WMAX < B)]
  generalize hp : decide (B ^ a.length ≤ 2 * val a) = p at hFdef ⊢
  have hbase := sel_lt_B p
  have htk : (shrMove a (s / 64) (if p then WMAX else 0)).take (a.length - s / 64) = a.drop (s / 64) := by
    unfold shrMove; rw [List.take_left' hld]
  have hdk : (shrMove a (s / 64) (if p then WMAX else 0)).drop (a.length - s / 64) =
      List.replicate (s / 64) (if p then WMAX else 0) := by
    unfold shrMove; rw [List.drop_left' hld]
  have harith := fun (R : Nat) (hR : 0 < R) =>
    int_shr_arith (V := val a) (K := B ^ (s / 64)) (R := R) (N := B ^ (a.length - s / 64)) (Bpow_pos _) hR hF
  by_cases hrem : s % 64 = 0
  · simp only [hrem, if_true]
    refine ⟨trivial, ?_, ?_, ?_⟩
    · unfold shrMove
      rw [val_append, hld, hvd, val_replicate_sel, ← hFdef, two_pow_shift s, hrem, Nat.pow_zero, hsplit]
      have := harith 1 (by decide)
      simp only [Nat.sub_self, Nat.zero_mul, Nat.mul_zero, Nat.add_zero, Nat.div_one, Nat.mul_one] at this ⊢
      exact this
    · unfold shrMove; rw [List.length_append, List.length_replicate, hld]; omega
    · unfold shrMove; exact WF_append.mpr ⟨hdrop, WF_replicate hbase⟩
  · simp only [hrem, if_false]
    have hr0 : 0 < s % 64 := Nat.pos_of_ne_zero hrem
    have hr : s % 64 < 64 := Nat.mod_lt _ (by decide)
    rw [htk, hdk]
    have hcarry : (if p then WMAX else 0) ^^^ wshr (if p then WMAX else 0) (s % 64) =
        2 ^ (64 - s % 64) * ((2 ^ (s % 64) - 1) * negF a) := by
      rw [hFdef]
      cases p
      · simp [wshr]
      · simp only [if_true, Nat.mul_one]; exact sign_carry_all _ hr hr0
    have hh : (2 ^ (s % 64) - 1) * negF a < 2 ^ (s % 64) := by
      have := Nat.two_pow_pos (s % 64)
      rcases hF with h0 | h1
      · rw [h0]; omega
      · rw [h1]; omega
    rw [hcarry]
    have ⟨hcv, _, hcw⟩ := shrCarry_spec hr0 hr _ _ hdrop hh
    refine ⟨trivial, ?_, ?_, ?_⟩
    · rw [val_append, shrCarry_length, hld, hcv, hld, hvd, val_replicate_sel, ← hFdef]
      conv => rhs; rw [two_pow_shift s, hsplit]
      exact harith _ (Nat.two_pow_pos _)
    · rw [List.length_append, List.length_replicate, shrCarry_length, hld]; omega
    · exact WF_append.mpr ⟨hcw, WF_replicate hbase⟩

theorem signFill_eq {a : List Nat} (ha : WF a) (hne : a ≠ []) :
    signFill a = (if decide (B ^ a.length ≤ 2 * val a) then umax a.length else uzero a.length) := by
  unfold signFill
  rw [isNegative_spec ha hne, uselect_spec _ (uzero_WF _) (umax_WF _) (by rw [uzero_length, umax_length])]

theorem intShrV_overflow (a : List Nat) {s : Nat} (h : 64 * a.length ≤ s) :
    intOverflowingShrVartime a s = (signFill a, 0) := by
  unfold intOverflowingShrVartime signFill; simp [h]

theorem signFill_val {a : List Nat} (ha : WF a) (hne : a ≠ []) {s : Nat} (h : 64 * a.length ≤ s) :
    val (signFill a) = (val a + B ^ a.length * ((2 ^ s - 1) * negF a)) / 2 ^ s ∧
    (signFill a).length = a.length ∧ WF (signFill a) := by
  rw [signFill_eq ha hne]
  have hlt := val_lt ha
  have hP : B ^ a.length ≤ 2 ^ s := by rw [B_pow_eq]; exact Nat.pow_le_pow_right (by decide) h
  unfold negF
  by_cases hp : B ^ a.length ≤ 2 * val a
  · simp only [hp, decide_true, if_true, Nat.mul_one]
    refine ⟨?_, umax_length _, umax_WF _⟩
    have hm := val_umax a.length
    symm
    apply Nat.div_eq_of_lt_le
    · generalize B ^ a.length = N at *
      generalize 2 ^ s = P at *
      obtain ⟨m, rfl⟩ : ∃ m, N = m + 1 := ⟨N - 1, by omega⟩
      obtain ⟨q, rfl⟩ : ∃ q, P = q + 1 := ⟨P - 1, by omega⟩
      have e1 : val (umax a.length) = m := by omega
      rw [e1, Nat.add_sub_cancel]
      have e2 : m * (q + 1) = m * q + m := by ring
      have e3 : (m + 1) * q = m * q + q := by ring
      rw [e2, e3]; omega
    · generalize B ^ a.length = N at *
      generalize 2 ^ s = P at *
      obtain ⟨m, rfl⟩ : ∃ m, N = m + 1 := ⟨N - 1, by omega⟩
      obtain ⟨q, rfl⟩ : ∃ q, P = q + 1 := ⟨P - 1, by omega⟩
      have e1 : val (umax a.length) = m := by omega
      rw [e1, Nat.add_sub_cancel]
      have e2 : (m + 1) * (q + 1) = m * q + m + q + 1 := by ring
      have e3 : (m + 1) * q = m * q + q := by ring
      rw [e2, e3]; omega
  · simp only [hp, decide_false, Bool.false_eq_true, if_false, Nat.mul_zero, Nat.add_zero]
    refine ⟨?_, uzero_length _, uzero_WF _⟩
    rw [val_uzero, Nat.div_eq_of_lt (Nat.lt_of_lt_of_le hlt hP)]

/-- value of the arithmetic right shift for EVERY `s` (sign fill on overflow) -/
theorem intShrV_val {a : List Nat} (ha : WF a) (hne : a ≠ []) (s : Nat) :
    val (intOverflowingShrVartime a s).1 = (val a + B ^ a.length * ((2 ^ s - 1) * negF a)) / 2 ^ s ∧
    (intOverflowingShrVartime a s).1.length = a.length ∧ WF (intOverflowingShrVartime a s).1 := by
  by_cases h : s < 64 * a.length
  · exact (intShrV_inrange ha hne h).2
  · rw [intShrV_overflow a (Nat.not_lt.mp h)]
    exact signFill_val ha hne (Nat.not_lt.mp h)

/-! ### the signed reading -/

theorem toInt_eq (a : List Nat) : toInt a = (val a : Int) - ((B ^ a.length : Nat) : Int) * (negF a : Int) := by
  unfold toInt negF
  by_cases h : B ^ a.length ≤ 2 * val a <;> simp [h]

/-- T05.4 core: the arithmetic shift is `⌊x / 2^s⌋` on the two's complement value, for every `s`. -/
theorem toInt_intShrV {a : List Nat} (ha : WF a) (hne : a ≠ []) (s : Nat) :
    toInt (intOverflowingShrVartime a s).1 = toInt a / ((2 ^ s : Nat) : Int) ∧
    negF (intOverflowingShrVartime a s).1 = negF a := by
  have ⟨hv, hl, hw⟩ := intShrV_val ha hne s
  have hlt := val_lt ha
  have hrlt := val_lt hw
  rw [hl] at hrlt
  have hPpos : 0 < 2 ^ s := Nat.two_pow_pos s
  have hNeven : ∃ H, B ^ a.length = 2 * H := by
    obtain ⟨m, hm⟩ : ∃ m, a.length = m + 1 := ⟨a.length - 1, by
      have := List.length_pos_iff.mpr hne; omega⟩
    exact ⟨B ^ m * (B / 2), by rw [hm, Nat.pow_succ]; simp only [B_def]; omega⟩
  obtain ⟨H, hH⟩ := hNeven
  -- sign of the result
  have hsign : negF (intOverflowingShrVartime a s).1 = negF a := by
    by_cases hp : B ^ a.length ≤ 2 * val a
    · have hnf : negF a = 1 := by unfold negF; simp [hp]
      rw [hnf, Nat.mul_one] at hv
      rw [hnf]
      have : B ^ a.length ≤ 2 * ((val a + B ^ a.length * (2 ^ s - 1)) / 2 ^ s) := by
        have h1 : H ≤ (val a + B ^ a.length * (2 ^ s - 1)) / 2 ^ s := by
          rw [Nat.le_div_iff_mul_le hPpos]
          rw [hH] at hp ⊢
          generalize 2 ^ s = P at *
          obtain ⟨q, rfl⟩ : ∃ q, P = q + 1 := ⟨P - 1, by omega⟩
          rw [Nat.add_sub_cancel]
          have e2 : H * (q + 1) = H * q + H := by ring
          have e3 : 2 * H * q = 2 * (H * q) := by ring
          rw [e2, e3]; omega
        omega
      unfold negF
      rw [hl, hv]
      simp [this]
    · have hnf : negF a = 0 := by unfold negF; simp [hp]
      rw [hnf, Nat.mul_zero, Nat.mul_zero, Nat.add_zero] at hv
      rw [hnf]
      have : ¬ (B ^ a.length ≤ 2 * (val a / 2 ^ s)) := by
        have := Nat.div_le_self (val a) (2 ^ s); omega
      unfold negF
      rw [hl, hv]
      simp [this]
  refine ⟨?_, hsign⟩
  rw [toInt_eq, toInt_eq, hsign, hl, hv]
  rcases negF_cases a with h0 | h1
  · rw [h0]; simp
  · rw [h1]
    simp only [Nat.mul_one, Nat.cast_one, Int.mul_one]
    have e : ((val a : Int) - ((B ^ a.length : Nat) : Int)) =
        ((val a + B ^ a.length * (2 ^ s - 1) : Nat) : Int) + (-((B ^ a.length : Nat) : Int)) * ((2 ^ s : Nat) : Int) := by
      obtain ⟨q, hq⟩ : ∃ q, 2 ^ s = q + 1 := ⟨2 ^ s - 1, by omega⟩
      rw [hq, Nat.add_sub_cancel]; push_cast; ring
    rw [e, Int.add_mul_ediv_right _ _ (by exact_mod_cast (Nat.ne_of_gt hPpos))]
    push_cast
    ring

theorem toInt_inj {a b : List Nat} (ha : WF a) (hb : WF b) (hl : a.length = b.length)
    (h : toInt a = toInt b) : a = b := by
  apply val_inj ha hb hl
  have h1 := val_lt ha
  have h2 := val_lt hb
  unfold toInt at h
  rw [hl] at h h1
  generalize B ^ b.length = N at *
  by_cases p : N ≤ 2 * val a <;> by_cases q : N ≤ 2 * val b <;> simp only [p, q, if_true, if_false] at h <;> omega

/-! ### the ladder of `Int::overflowing_shr` -/

theorem ne_nil_of_length {n : Nat} (hn : 0 < n) {r : List Nat} (h : r.length = n) : r ≠ [] := by
  intro e; rw [e] at h; simp at h; omega

theorem intShrV_add {n : Nat} (hn : 0 < n) {r : List Nat} (hr : WF r ∧ r.length = n) (t1 t2 : Nat) :
    (intOverflowingShrVartime (intOverflowingShrVartime r t1).1 t2).1 =
      (intOverflowingShrVartime r (t1 + t2)).1 := by
  have hne := ne_nil_of_length hn hr.2
  have ⟨_, l1, w1⟩ := intShrV_val hr.1 hne t1
  have hne1 := ne_nil_of_length hn (l1.trans hr.2)
  have ⟨_, l2, w2⟩ := intShrV_val w1 hne1 t2
  have ⟨_, l3, w3⟩ := intShrV_val hr.1 hne (t1 + t2)
  apply toInt_inj w2 w3 (by omega)
  rw [(toInt_intShrV w1 hne1 t2).1, (toInt_intShrV hr.1 hne t1).1, (toInt_intShrV hr.1 hne (t1 + t2)).1,
    Int.ediv_ediv_of_nonneg (by exact_mod_cast Nat.zero_le _), Nat.pow_add]
  push_cast; rfl

theorem intShrV_zero {r : List Nat} (hr : WF r) (hne : r ≠ []) : (intOverflowingShrVartime r 0).1 = r := by
  have ⟨_, l1, w1⟩ := intShrV_val hr hne 0
  apply toInt_inj w1 hr l1
  rw [(toInt_intShrV hr hne 0).1]; simp

theorem intShrLadder_spec {n : Nat} (hn : 0 < n) (shift k i : Nat) (r : List Nat)
    (hr : WF r ∧ r.length = n) (hsteps : ∀ j, i ≤ j → j < i + k → 2 ^ j < 64 * n) :
    intShrLadder shift k i r = some (intOverflowingShrVartime r ((shift / 2 ^ i % 2 ^ k) * 2 ^ i)).1 := by
  refine ladder_generic (L := intShrLadder) (fun t r => (intOverflowingShrVartime r t).1)
    (fun r => WF r ∧ r.length = n) (64 * n) (fun _ _ _ => rfl) ?_
    (fun r hr => intShrV_zero hr.1 (ne_nil_of_length hn hr.2))
    (fun r t1 t2 hr => intShrV_add hn hr t1 t2)
    (fun r t hr => by
      have := intShrV_val hr.1 (ne_nil_of_length hn hr.2) t
      exact ⟨this.2.2, by rw [this.2.1, hr.2]⟩) k i r shift hr hsteps
  intro shift k i r hr hi
  have hspec := intShrV_inrange hr.1 (ne_nil_of_length hn hr.2) (s := 2 ^ i) (by rw [hr.2]; exact hi)
  show (match expect (intOverflowingShrVartime r (2 ^ i)) with
    | none => none
    | some sh => intShrLadder shift k (i + 1) (uselect r sh (fromU32Lsb ((shift / 2 ^ i) % 2)))) = _
  unfold expect
  rw [if_pos hspec.1]
  simp only
  rw [ladder_select hr.1 hspec.2.2.2 hspec.2.2.1.symm]

/-- `Int::overflowing_shr` (ladder): the value is the vartime shift by `s % BITS` (NOT cleared on
    overflow), `is_some` exactly when `s < BITS`. -/
theorem intOverflowingShr_spec {a : List Nat} (ha : WF a) (hn0 : a ≠ []) (hn : 64 * a.length < TWO32)
    {s : Nat} (hs : s < TWO32) :
    intOverflowingShr a s = some ((intOverflowingShrVartime a (s % (64 * a.length))).1,
      mask (decide (s < 64 * a.length))) := by
  have hlen : 0 < a.length := List.length_pos_iff.mpr hn0
  have hbits : 0 < 64 * a.length := by omega
  have hn' := Nat.le_of_lt hn
  unfold intOverflowingShr
  simp only
  have hl := intShrLadder_spec hlen (s % (64 * a.length)) (shiftBits (64 * a.length)) 0 a ⟨ha, rfl⟩
    (fun j _ hj => step_lt_bits hbits hn' (by omega))
  rw [Nat.pow_zero, Nat.div_one, Nat.mul_one, Nat.mod_eq_of_lt (reduced_lt hbits hn')] at hl
  rw [hl]
  simp only
  rw [fromU32Lt_spec hs hn, choiceNot_mask, choiceNot_mask]
  simp

end CB.Shift
