/-
  CB.Lemmas.C02Shift — the sub-limb shifts used for normalisation (`shl_limb`, `shl_limb_vartime`,
  `shr_limb_vartime`), modelled limb by limb with `<<`, `>>`, `|`, proved equal to multiplication /
  division by `2^s` on values.
-/
import CB.Lemmas.C02Div2by1
import CB.Model.Div
import Mathlib.Tactic.Ring
import Mathlib.Tactic.LinearCombination
import Mathlib.Tactic.Zify
namespace CB.Div
open CB

theorem B_split {s : Nat} (hs : s ≤ 64) : B = 2 ^ (64 - s) * 2 ^ s := by
  rw [← Nat.pow_add, B_eq_pow]; congr 1; omega

/-- one limb of a left shift by `0 < s < 64`: `(x << s) | (prev >> (64-s))`. -/
theorem shl_limb_word {x p s : Nat} (hs : s < 64) (hp : p < B) :
    ((x <<< s) % B) ||| (p >>> (64 - s)) = (x % 2 ^ (64 - s)) * 2 ^ s + p / 2 ^ (64 - s) ∧
    (x % 2 ^ (64 - s)) * 2 ^ s + p / 2 ^ (64 - s) < B := by
  have hB := B_split (Nat.le_of_lt hs)
  have h1 : (x <<< s) % B = (x % 2 ^ (64 - s)) <<< s := by
    rw [Nat.shiftLeft_eq, Nat.shiftLeft_eq, hB, Nat.mul_mod_mul_right]
  have hp' : p / 2 ^ (64 - s) < 2 ^ s := by
    rw [Nat.div_lt_iff_lt_mul (Nat.pow_pos (by decide))]
    rw [Nat.mul_comm, ← hB]; exact hp
  rw [h1, Nat.shiftRight_eq_div_pow, ← Nat.shiftLeft_add_eq_or_of_lt hp', Nat.shiftLeft_eq]
  refine ⟨rfl, ?_⟩
  have h2 : x % 2 ^ (64 - s) + 1 ≤ 2 ^ (64 - s) := Nat.mod_lt _ (Nat.pow_pos (by decide))
  have h3 := Nat.mul_le_mul_right (2 ^ s) h2
  rw [Nat.add_mul, Nat.one_mul, ← hB] at h3
  omega

theorem shlVtLoop_cons (l r prev x : Nat) (xs : List Nat) :
    shlVtLoop l r prev (x :: xs) = (((x <<< l) % B) ||| (prev >>> r)) :: shlVtLoop l r x xs := rfl

theorem split_mul {x s : Nat} (hs : s ≤ 64) :
    (x % 2 ^ (64 - s)) * 2 ^ s + B * (x / 2 ^ (64 - s)) = x * 2 ^ s := by
  have h := Nat.div_add_mod x (2 ^ (64 - s))
  have hB := B_split hs
  calc (x % 2 ^ (64 - s)) * 2 ^ s + B * (x / 2 ^ (64 - s))
      = (2 ^ (64 - s) * (x / 2 ^ (64 - s)) + x % 2 ^ (64 - s)) * 2 ^ s := by rw [hB]; ring
    _ = x * 2 ^ s := by rw [h]

/-- value of the vartime left-shift loop: the limbs hold `val xs * 2^s + prev >> (64-s)` except for
    the bits shifted out of the top limb. -/
theorem shlVtLoop_spec {xs : List Nat} {prev s : Nat} (hs : s < 64) (hp : prev < B) (hx : WF xs) :
    val (shlVtLoop s (64 - s) prev xs) + B ^ xs.length * (xs.getLastD prev / 2 ^ (64 - s)) =
      val xs * 2 ^ s + prev / 2 ^ (64 - s) ∧
    WF (shlVtLoop s (64 - s) prev xs) ∧ (shlVtLoop s (64 - s) prev xs).length = xs.length := by
  induction xs generalizing prev with
  | nil => simp [shlVtLoop, WF_nil]
  | cons x xs ih =>
    have ⟨hx0, hxs⟩ := WF_cons.mp hx
    have ⟨i1, i2, i3⟩ := ih (prev := x) hx0 hxs
    have ⟨w1, w2⟩ := shl_limb_word (x := x) hs hp
    rw [shlVtLoop_cons]
    refine ⟨?_, WF_cons.mpr ⟨by rw [w1]; exact w2, i2⟩, by simp [i3]⟩
    simp only [val_cons, List.length_cons, Nat.pow_succ, List.getLastD_cons]
    rw [w1]
    have hsm := split_mul (x := x) (Nat.le_of_lt hs)
    generalize shlVtLoop s (64 - s) x xs = R at *
    generalize xs.getLastD x / 2 ^ (64 - s) = c at *
    generalize x % 2 ^ (64 - s) = xl at *
    generalize x / 2 ^ (64 - s) = xh at *
    generalize prev / 2 ^ (64 - s) = ph at *
    generalize 2 ^ s = T at *
    zify at i1 hsm ⊢
    linear_combination (B:ℤ) * i1 + hsm

theorem and_WMAX {x : Nat} (hx : x < B) : x &&& WMAX = x := by
  have : WMAX = 2 ^ 64 - 1 := by decide
  rw [this, Nat.and_two_pow_sub_one_eq_mod, ← B_eq_pow, Nat.mod_eq_of_lt hx]

theorem shlLimbLoop_cons (l r nz prev x : Nat) (xs : List Nat) :
    shlLimbLoop l r nz prev (x :: xs) =
      (((x <<< l) % B) ||| ((prev >>> r) &&& nz)) :: shlLimbLoop l r nz x xs := rfl

theorem shr_lt_B {p r : Nat} (hp : p < B) : p >>> r < B := by
  rw [Nat.shiftRight_eq_div_pow]; exact Nat.lt_of_le_of_lt (Nat.div_le_self _ _) hp

theorem shlLimbLoop_nz {xs : List Nat} {prev l r : Nat} (hp : prev < B) (hx : WF xs) :
    shlLimbLoop l r WMAX prev xs = shlVtLoop l r prev xs := by
  induction xs generalizing prev with
  | nil => rfl
  | cons x xs ih =>
    have ⟨hx0, hxs⟩ := WF_cons.mp hx
    rw [shlLimbLoop_cons, shlVtLoop_cons, and_WMAX (shr_lt_B hp), ih hx0 hxs]

theorem shlLimbLoop_zero {xs : List Nat} {prev : Nat} (hx : WF xs) :
    shlLimbLoop 0 0 0 prev xs = xs := by
  induction xs generalizing prev with
  | nil => rfl
  | cons x xs ih =>
    have ⟨hx0, hxs⟩ := WF_cons.mp hx
    rw [shlLimbLoop_cons, ih hxs]
    simp [Nat.mod_eq_of_lt hx0]

theorem getLastD_lt {xs : List Nat} {d : Nat} (hd : d < B) (hx : WF xs) : xs.getLastD d < B := by
  induction xs generalizing d with
  | nil => simpa using hd
  | cons x xs ih =>
    have ⟨hx0, hxs⟩ := WF_cons.mp hx
    rw [List.getLastD_cons]; exact ih hx0 hxs

/-- **`Uint::shl_limb`** (constant-time form, masks as written): `x·2^s = shifted + Bⁿ·carry`. -/
theorem shlLimb_spec {a : List Nat} {s : Nat} (hs : s < 64) (ha : WF a) :
    val (shlLimb a s).1 + B ^ a.length * (shlLimb a s).2 = val a * 2 ^ s ∧
    WF (shlLimb a s).1 ∧ (shlLimb a s).1.length = a.length ∧ (shlLimb a s).2 < 2 ^ s := by
  cases a with
  | nil => simp [shlLimb, WF_nil]
  | cons x0 xs =>
    have ⟨hx0, hxs⟩ := WF_cons.mp ha
    by_cases h0 : s = 0
    · subst h0
      have : shlLimb (x0 :: xs) 0 = (x0 :: xs, 0) := by
        simp only [shlLimb, nzMask, if_true, Nat.shiftLeft_zero, Nat.mod_eq_of_lt hx0, Nat.and_zero,
          shlLimbLoop_zero hxs]
      rw [this]
      exact ⟨by simp, ha, rfl, by simp⟩
    · have hs0 : 0 < s := Nat.pos_of_ne_zero h0
      have hlast : (x0 :: xs).getLastD 0 < B := getLastD_lt (by decide) ha
      have e : shlLimb (x0 :: xs) s =
          (shlVtLoop s (64 - s) 0 (x0 :: xs), (x0 :: xs).getLastD 0 / 2 ^ (64 - s)) := by
        have hm : (64 - s) % 64 = 64 - s := Nat.mod_eq_of_lt (by omega)
        have hc := and_WMAX (shr_lt_B (r := 64 - s) hlast)
        rw [Nat.shiftRight_eq_div_pow] at hc
        simp only [shlLimb, nzMask, if_neg h0, hm, shlVtLoop_cons, shlLimbLoop_nz hx0 hxs,
          Nat.shiftRight_eq_div_pow, hc, Nat.zero_div, Nat.or_zero]
      rw [e]
      have ⟨i1, i2, i3⟩ := shlVtLoop_spec (prev := 0) hs (by decide) ha
      simp only [Nat.zero_div, Nat.add_zero] at i1
      refine ⟨i1, i2, i3, ?_⟩
      rw [Nat.div_lt_iff_lt_mul (Nat.pow_pos (by decide)), Nat.mul_comm, ← B_split (Nat.le_of_lt hs)]
      exact hlast

end CB.Div
