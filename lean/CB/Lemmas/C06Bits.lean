/-
  CB.Lemmas.C06Bits — word-level facts for C06 proved through `BitVec 64` (`bv_decide`).
-/
import CB.Lemmas.WordBits
namespace CB

theorem xor_half_bv (x : BitVec 64) :
    x ^^^ 9223372036854775808#64 = if x < 9223372036854775808#64 then x + 9223372036854775808#64 else x - 9223372036854775808#64 := by
  bv_decide

/-- flipping the sign bit of a word adds or removes `2^63` -/
theorem xor_HALF {x : Nat} (hx : x < B) :
    x ^^^ HALF = if x < HALF then x + HALF else x - HALF := by
  have e : x ^^^ HALF = (bv x ^^^ 9223372036854775808#64).toNat := by
    simp only [BitVec.toNat_xor, bv_toNat hx]; rfl
  rw [e, xor_half_bv]
  have hlt : (bv x < 9223372036854775808#64) ↔ x < HALF := by
    rw [BitVec.lt_def, bv_toNat hx]; rfl
  by_cases h : x < HALF
  · rw [if_pos (hlt.mpr h), if_pos h, BitVec.toNat_add, bv_toNat hx]
    simp only [HALF_def, B_def] at *
    simp only [BitVec.toNat_ofNat]; omega
  · rw [if_neg (mt hlt.mp h), if_neg h, BitVec.toNat_sub, bv_toNat hx]
    simp only [HALF_def, B_def] at *
    simp only [BitVec.toNat_ofNat]; omega

theorem and_two_bv (x : BitVec 64) (h : x = 0#64 ∨ x = ~~~0#64) :
    x &&& 2#64 = if x = 0#64 then 0#64 else 2#64 := by
  rcases h with h | h <;> subst h <;> decide

end CB
