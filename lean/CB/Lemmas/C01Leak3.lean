/-
  CB.Lemmas.C01Leak3 — trace lemmas for the extension round of property C01: `Int` operations (src/int/*.rs).
  Scheme as in C01Leak.lean: `fT pub := (f pub <no secrets>).tr`, `f_tr : (f pub secrets).tr = fT pub`.
-/
import CB.Lemmas.C01Leak2
namespace CB.Leak
open Sec

def intIsNegativeT (n : Nat) : Trace := (intIsNegative n []).tr
@[simp] theorem intIsNegative_tr (n : Nat) (a : List Sec) : (intIsNegative n a).tr = intIsNegativeT n := by
  unfold intIsNegativeT intIsNegative; leak_simp

def intAbsSignT (n : Nat) : Trace := (intAbsSign n []).tr
@[simp] theorem intAbsSign_tr (n : Nat) (a : List Sec) : (intAbsSign n a).tr = intAbsSignT n := by
  unfold intAbsSignT intAbsSign; leak_simp; simp only [intIsNegative_tr, wrappingNegIf_tr]

def intNewFromAbsSignT (n : Nat) : Trace := (intNewFromAbsSign n [] zero).tr
@[simp] theorem intNewFromAbsSign_tr (n : Nat) (a : List Sec) (c : Sec) :
    (intNewFromAbsSign n a c).tr = intNewFromAbsSignT n := by
  unfold intNewFromAbsSignT intNewFromAbsSign; leak_simp; simp only [wrappingNegIf_tr, ulte_tr, ueq_tr]

def intOverflowingAddT (n : Nat) : Trace := (intOverflowingAdd n [] []).tr
@[simp] theorem intOverflowingAdd_tr (n : Nat) (a b : List Sec) : (intOverflowingAdd n a b).tr = intOverflowingAddT n := by
  unfold intOverflowingAddT intOverflowingAdd; leak_simp; simp only [wrappingAdd_tr, intIsNegative_tr]

@[simp] theorem intCheckedAdd_tr (n : Nat) (a b : List Sec) : (intCheckedAdd n a b).tr = intOverflowingAddT n := by
  unfold intCheckedAdd; leak_simp; rw [intOverflowingAdd_tr]

def intCheckedSubT (n : Nat) : Trace := (intCheckedSub n [] []).tr
@[simp] theorem intCheckedSub_tr (n : Nat) (a b : List Sec) : (intCheckedSub n a b).tr = intCheckedSubT n := by
  unfold intCheckedSubT intCheckedSub; leak_simp; simp only [wrappingSub_tr, intIsNegative_tr]

def intOverflowingNegT (n : Nat) : Trace := (intOverflowingNeg n []).tr
@[simp] theorem intOverflowingNeg_tr (n : Nat) (a : List Sec) : (intOverflowingNeg n a).tr = intOverflowingNegT n := by
  unfold intOverflowingNegT intOverflowingNeg; leak_simp; simp only [ubitxor_tr, intOverflowingAdd_tr]

@[simp] theorem intCheckedNeg_tr (n : Nat) (a : List Sec) : (intCheckedNeg n a).tr = intOverflowingNegT n := by
  unfold intCheckedNeg; leak_simp; rw [intOverflowingNeg_tr]

@[simp] theorem intInvertMsb_tr (n : Nat) (a : List Sec) : (intInvertMsb n a).tr = ubitxorT n := by
  unfold intInvertMsb; rw [ubitxor_tr]

def intLtT (n : Nat) : Trace := (intLt n [] []).tr
@[simp] theorem intLt_tr (n : Nat) (a b : List Sec) : (intLt n a b).tr = intLtT n := by
  unfold intLtT intLt; leak_simp; simp only [intInvertMsb_tr, ult_tr]
@[simp] theorem intGt_tr (n : Nat) (a b : List Sec) : (intGt n a b).tr = intLtT n := by
  unfold intLtT intLt intGt; leak_simp; simp only [intInvertMsb_tr, ult_tr, ugt_tr]

def intCmpT (n : Nat) : Trace := (intCmp n [] []).tr
@[simp] theorem intCmp_tr (n : Nat) (a b : List Sec) : (intCmp n a b).tr = intCmpT n := by
  unfold intCmpT intCmp; leak_simp; simp only [intInvertMsb_tr, ucmp_tr]

def intSplitMulT (n m : Nat) : Trace := (intSplitMul n m [] []).tr
@[simp] theorem intSplitMul_tr (n m : Nat) (a b : List Sec) : (intSplitMul n m a b).tr = intSplitMulT n m := by
  unfold intSplitMulT intSplitMul; leak_simp; simp only [intAbsSign_tr, splitMul_tr]

def intCheckedFromSplitT (n m : Nat) : Trace := (intCheckedFromSplit n m [] [] zero).tr
@[simp] theorem intCheckedFromSplit_tr (n m : Nat) (a b : List Sec) (c : Sec) :
    (intCheckedFromSplit n m a b c).tr = intCheckedFromSplitT n m := by
  unfold intCheckedFromSplitT intCheckedFromSplit; leak_simp; simp only [intNewFromAbsSign_tr, uselect_tr, isNonzero_tr]

def intCheckedMulT (n m : Nat) : Trace := (intCheckedMul n m [] []).tr
@[simp] theorem intCheckedMul_tr (n m : Nat) (a b : List Sec) : (intCheckedMul n m a b).tr = intCheckedMulT n m := by
  unfold intCheckedMulT intCheckedMul; leak_simp; simp only [intSplitMul_tr, intCheckedFromSplit_tr]

def intCheckedMulUintT (n m : Nat) : Trace := (intCheckedMulUint n m [] []).tr
@[simp] theorem intCheckedMulUint_tr (n m : Nat) (a b : List Sec) : (intCheckedMulUint n m a b).tr = intCheckedMulUintT n m := by
  unfold intCheckedMulUintT intCheckedMulUint; leak_simp; simp only [intAbsSign_tr, splitMul_tr, intCheckedFromSplit_tr]

def intWideningMulT (n m : Nat) : Trace := (intWideningMul n m [] []).tr
@[simp] theorem intWideningMul_tr (n m : Nat) (a b : List Sec) : (intWideningMul n m a b).tr = intWideningMulT n m := by
  unfold intWideningMulT intWideningMul; leak_simp
  simp only [intAbsSign_tr, splitMul_tr, concatMixed_tr, wrappingNegIf_tr]

def intShrMoveLoopT (n k : Nat) : Trace := (intShrMoveLoop n k [] zero).tr
@[simp] theorem intShrMoveLoop_tr (n k : Nat) (a : List Sec) (b : Sec) : (intShrMoveLoop n k a b).tr = intShrMoveLoopT n k := by
  unfold intShrMoveLoopT intShrMoveLoop; leak_loop

def intShrCarryLoopT (n k r : Nat) : Trace := (intShrCarryLoop n k r [] zero).tr
@[simp] theorem intShrCarryLoop_tr (n k r : Nat) (l : List Sec) (c : Sec) :
    (intShrCarryLoop n k r l c).tr = intShrCarryLoopT n k r := by
  unfold intShrCarryLoopT intShrCarryLoop; leak_loop

def intShrVartimeT (n shift : Nat) : Trace := (intShrVartime n [] shift).tr
@[simp] theorem intShrVartime_tr (n : Nat) (a : List Sec) (shift : Nat) : (intShrVartime n a shift).tr = intShrVartimeT n shift := by
  unfold intShrVartimeT intShrVartime; leak_simp
  simp only [intIsNegative_tr, uselect_tr, intShrMoveLoop_tr, intShrCarryLoop_tr]

def intOverflowingShrT (n : Nat) : Trace := (intOverflowingShr n [] zero).tr
@[simp] theorem intOverflowingShr_tr (n : Nat) (a : List Sec) (s : Sec) : (intOverflowingShr n a s).tr = intOverflowingShrT n := by
  unfold intOverflowingShrT intOverflowingShr; leak_simp
  apply forN_tr_congr; intro i s s'; leak_simp; simp only [intShrVartime_tr, uselect_tr]

def intWrappingShrT (n : Nat) : Trace := (intWrappingShr n [] zero).tr
@[simp] theorem intWrappingShr_tr (n : Nat) (a : List Sec) (s : Sec) : (intWrappingShr n a s).tr = intWrappingShrT n := by
  unfold intWrappingShrT intWrappingShr; leak_simp; simp only [intIsNegative_tr, uselect_tr, intOverflowingShr_tr]

def udivRemT (n : Nat) : Trace := (udivRem n [] []).tr
@[simp] theorem udivRem_tr (n : Nat) (a d : List Sec) : (udivRem n a d).tr = udivRemT n := by
  unfold udivRemT udivRem; leak_simp; simp only [divRemLimb_tr, divRem_tr]

def intCheckedDivRemT (n : Nat) : Trace := (intCheckedDivRem n [] []).tr
@[simp] theorem intCheckedDivRem_tr (n : Nat) (a d : List Sec) : (intCheckedDivRem n a d).tr = intCheckedDivRemT n := by
  unfold intCheckedDivRemT intCheckedDivRem; leak_simp
  simp only [intAbsSign_tr, udivRem_tr, intNewFromAbsSign_tr, wrappingNegIf_tr]

def intCheckedDivT (n : Nat) : Trace := (intCheckedDiv n [] []).tr
@[simp] theorem intCheckedDiv_tr (n : Nat) (a d : List Sec) : (intCheckedDiv n a d).tr = intCheckedDivT n := by
  unfold intCheckedDivT intCheckedDiv; leak_simp; simp only [ueq_tr, uselect_tr, intCheckedDivRem_tr]

def intCheckedDivRemFloorT (n : Nat) : Trace := (intCheckedDivRemFloor n [] []).tr
@[simp] theorem intCheckedDivRemFloor_tr (n : Nat) (a d : List Sec) : (intCheckedDivRemFloor n a d).tr = intCheckedDivRemFloorT n := by
  unfold intCheckedDivRemFloorT intCheckedDivRemFloor; leak_simp
  simp only [intAbsSign_tr, udivRem_tr, isNonzero_tr, wrappingAdd_tr, uselect_tr, wrappingSub_tr, intNewFromAbsSign_tr, wrappingNegIf_tr]

def intDivRemUintT (n : Nat) : Trace := (intDivRemUint n [] []).tr
@[simp] theorem intDivRemUint_tr (n : Nat) (a d : List Sec) : (intDivRemUint n a d).tr = intDivRemUintT n := by
  unfold intDivRemUintT intDivRemUint; leak_simp; simp only [intAbsSign_tr, udivRem_tr, wrappingNegIf_tr]

def intDivRemFloorUintT (n : Nat) : Trace := (intDivRemFloorUint n [] []).tr
@[simp] theorem intDivRemFloorUint_tr (n : Nat) (a d : List Sec) : (intDivRemFloorUint n a d).tr = intDivRemFloorUintT n := by
  unfold intDivRemFloorUintT intDivRemFloorUint; leak_simp
  simp only [intAbsSign_tr, udivRem_tr, isNonzero_tr, wrappingAdd_tr, uselect_tr, wrappingSub_tr, wrappingNegIf_tr]

end CB.Leak
