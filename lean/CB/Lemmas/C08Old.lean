/-
  CB.Lemmas.C08Old — HISTORICAL: the Montgomery parameter `one` as every constructor computed it before /repo
  commit b15470f (`Uint::MAX.rem(modulus).wrapping_add(&Uint::ONE)`, never reduced; `oneOfOld` in
  `CB/Lemmas/C08Params.lean`). Nothing here describes the current constructors; the statements are kept so that the
  defect that was found (DESIGN §7 row 14, finding C08-modulus-one-not-canonical) stays machine-checked:
  the old formula is right for every odd `m > 1`, and for `m = 1` it yields the modulus itself at every width,
  which is not a canonical representative, and the boxed `retrieve()` of it is 1 instead of 0.
-/
import CB.Lemmas.C08Params
namespace CB.Monty
open CB

/-- the four constructors with the old `one` yield the defined constants for odd `m > 1` … -/
theorem old_constructors_yield_constants (n m : Nat) (hm : m < B ^ n) (hodd : m % 2 = 1) (hgt : 1 < m) :
    paramsNewWith (oneOfOld (toLimbs n m)) (toLimbs n m) = paramsSpec n m ∧
    paramsNewVartimeWith (oneOfOld (toLimbs n m)) (toLimbs n m) = paramsSpec n m ∧
    paramsConstWith (oneOfOld (toLimbs n m)) (toLimbs n m) = paramsSpec n m ∧
    paramsBoxedWith (oneOfOld (toLimbs n m)) (toLimbs n m) = paramsSpec n m :=
  old_params_eq_spec hm hodd hgt

/-- … but for modulus 1, at EVERY width, the old `one` is the modulus itself (value 1), not `R mod 1 = 0`:
    not `< m`. -/
theorem old_one_is_modulus_for_modulus_one (n : Nat) (hn : 0 < n) :
    (paramsNewWith (oneOfOld (toLimbs n 1)) (toLimbs n 1)).one = toLimbs n 1 ∧
    (paramsBoxedWith (oneOfOld (toLimbs n 1)) (toLimbs n 1)).one = toLimbs n 1 ∧
    val (oneOfOld (toLimbs n 1)) = 1 ∧ ¬ val (oneOfOld (toLimbs n 1)) < val (toLimbs n 1) := by
  have h1 : (1 : Nat) < B ^ n := Nat.one_lt_pow (by omega) (by decide)
  have e := oneOfOld_modulus_one hn
  have v : val (toLimbs n 1) = 1 := val_toLimbs_lt h1
  refine ⟨e, e, by rw [e, v], by rw [e, v]; omega⟩

/-- the observable consequence (one limb): boxed `retrieve()` of the old `one` returned 1, not the residue 0, while the
    fixed-width `retrieve()` still reduced it to 0. -/
theorem old_retrieve_one_modulus_one :
    bRetrieve (oneOfOld [1]) [1] (negInvOf [1]) = [1] ∧ retrieveMont (oneOfOld [1]) [1] (negInvOf [1]) = [0] := by
  decide +kernel

/-- with the current constructors the same calls return 0. -/
theorem new_retrieve_one_modulus_one :
    (paramsBoxed [1]).one = [0] ∧ (paramsNew [1]).one = [0] ∧
    bRetrieve (paramsBoxed [1]).one [1] (paramsBoxed [1]).modNegInv = [0] := by
  decide +kernel

end CB.Monty
