/-
  CB.Lemmas.C11Div — the checked twins of `div2by1` and `div3by2` (src/uint/div_limb.rs) never trap on
  their documented domain: the three debug assertions of `div2by1` (incl. `r < d || q1 < Word::MAX`,
  which guards the discarded side of the second masked correction), the two of `div3by2`, the
  `from_word_lsb` / `from_wide_word_lsb` assertions behind every mask and the plain `WideWord`
  `+` / `*` of the correction loop.
  The arithmetic facts are those of C02 (`CB/Lemmas/C02Div2by1.lean`: Möller–Granlund bounds).
-/
import CB.Lemmas.C11Twins
import CB.Lemmas.C02Div2by1
import CB.Lemmas.C02Div3by2
namespace CB.Panic
open CB CB.Div

/-- `selectWord` of two words is a word, whatever the mask -/
theorem selectWord_lt {a b : Nat} (c : Nat) (ha : a < B) (hb : b < B) : selectWord a b c < B :=
  xor_lt_B ha (Nat.lt_of_le_of_lt Nat.and_le_right (xor_lt_B ha hb))

/-- state `(q1, r)` of `div2by1` after the FIRST masked correction (where the debug assertion sits) -/
def d2mid (d u0 Q q0 : Nat) : Nat × Nat :=
  (selectWord (wadd Q 1) (wsub (wadd Q 1) 1) (fromWordLt q0 (wsub u0 (wmul (wadd Q 1) d))),
   selectWord (wsub u0 (wmul (wadd Q 1) d)) (wadd (wsub u0 (wmul (wadd Q 1) d)) d)
     (fromWordLt q0 (wsub u0 (wmul (wadd Q 1) d))))

/-- the part of `div2by1D` after the 128-bit sum `(Q, q0)` -/
def d2tailD (p : Profile) (d u0 Q q0 : Nat) : Chk (Nat × Nat) := do
  let q1 := wadd Q 1
  let r := wsub u0 (wmul q1 d)
  let rGtQ0 ← fromWordLtD p q0 r
  let q1' := selectWord q1 (wsub q1 1) rGtQ0
  let r' := selectWord r (wadd r d) rGtQ0
  dassert p (decide (r' < d) || decide (q1' < WMAX)) "div2by1: r < d || q1 < Word::MAX"
  let rGeD ← fromWordLeD p d r'
  pure (selectWord q1' (wadd q1' 1) rGeD, selectWord r' (wsub r' d) rGeD)

theorem div2by1D_eq (p : Profile) (u1 u0 : Nat) (rc : Reciprocal) :
    div2by1D p u1 u0 rc = (do
      dassert p (decide (HALF ≤ rc.divisorNormalized)) "div2by1: d >= 1 << 63"
      dassert p (decide (u1 < rc.divisorNormalized)) "div2by1: u1 < d"
      d2tailD p rc.divisorNormalized u0
        (addhilo (mulhilo rc.reciprocal u1).1 (mulhilo rc.reciprocal u1).2 u1 u0).1
        (addhilo (mulhilo rc.reciprocal u1).1 (mulhilo rc.reciprocal u1).2 u1 u0).2) := rfl

/-- given the assertion's condition, the checked tail returns what the unchecked one computes -/
theorem d2tailD_ok (p : Profile) {d u0 Q q0 : Nat} (hd : d < B)
    (hA : (d2mid d u0 Q q0).2 < d ∨ (d2mid d u0 Q q0).1 < WMAX) :
    d2tailD p d u0 Q q0 = .ok (d2tail d u0 Q q0) := by
  have hr : wsub u0 (wmul (wadd Q 1) d) < B := wsub_lt _ _
  have hr' : (d2mid d u0 Q q0).2 < B := selectWord_lt _ hr (wadd_lt _ _)
  simp only [d2mid] at hr' hA
  simp only [d2tailD, fromWordLtD_total p hr, bind, Except.bind, pure, Except.pure,
    fromWordLeD_total p hr', d2tail]
  rcases hA with h | h <;> simp [dassert, h]

/-- the debug assertion `r < d || q1 < Word::MAX` of `div2by1` holds (same hypotheses as
    `CB.Div.d2tail_cases`: the Möller–Granlund bounds on the candidate remainder) -/
theorem d2mid_assert {d u0 U Q q0 Qd : Nat} (_hd1 : HALF ≤ d) (hd2 : d < B) (hu0 : u0 < B)
    (hU0 : U % B = u0) (hUlt : U < d * B)
    (hQ : Q < B) (hq0 : q0 < B) (hQd : Q * d = Qd)
    (ca : Qd + d ≤ U + d) (cb : Qd + d + q0 < U + B)
    (cc : U + d < Qd + d + B ∨ U < Qd + d + q0) :
    (d2mid d u0 Q q0).2 < d ∨ (d2mid d u0 Q q0).1 < WMAX := by
  have hwm : wmul (wadd Q 1) d = (Qd + d) % B := by
    simp only [wmul, wadd, Nat.mod_mul_mod]; rw [Nat.add_mul, Nat.one_mul, hQd]
  have hdB : d * B = B * d := Nat.mul_comm _ _
  unfold d2mid
  simp only [hwm]
  have hr_lt : wsub u0 ((Qd + d) % B) < B := wslt _ _
  have hw1 : wadd Q 1 < B := wlt _ _
  have hw2 : wsub (wadd Q 1) 1 < B := wslt _ _
  have hw3 : wadd (wsub u0 ((Qd + d) % B)) d < B := wlt _ _
  have hq1 : wsub (wadd Q 1) 1 = Q := by
    clear hwm cc cb ca hUlt hU0 hr_lt hw1 hw2 hw3
    simp only [wsub, wadd, B_def] at *; omega
  rw [fromWordLt_eq hq0 hr_lt]
  by_cases hneg : U < Qd + d
  · -- candidate remainder negative: first correction taken, `r' = U - Q d < d`
    have hr : wsub u0 ((Qd + d) % B) = U + B - (Qd + d) := by
      clear hwm hw1 hw2 hw3 hq1 hr_lt hUlt hdB
      simp only [wsub, B_def] at *; omega
    have hc1 : q0 < wsub u0 ((Qd + d) % B) := by rw [hr]; omega
    rw [if_pos hc1, selectWord_max hw1 hw2, selectWord_max hr_lt hw3]
    have hr' : wadd (wsub u0 ((Qd + d) % B)) d = U - Qd := by
      rw [hr]; clear hwm hw1 hw2 hw3 hq1 hr_lt hUlt hdB hr hc1
      simp only [wadd, B_def] at *; omega
    left; rw [hr']; omega
  · have hQ1 : Q + 1 < B := by
      have : (Q + 1) * d < B * d := by rw [Nat.add_mul, Nat.one_mul, hQd]; omega
      exact Nat.lt_of_mul_lt_mul_right this
    have hr : wsub u0 ((Qd + d) % B) = U - (Qd + d) := by
      clear hwm hw1 hw2 hw3 hq1 hUlt hdB
      simp only [wsub, B_def] at *; omega
    have hw0 : wadd Q 1 = Q + 1 := by
      clear hwm hw1 hw2 hw3 hq1 hUlt hdB hr hr_lt cc cb ca
      simp only [wadd, B_def] at *; omega
    by_cases hc1 : q0 < wsub u0 ((Qd + d) % B)
    · -- first correction taken although the candidate was non-negative: `q1' = Q < MAX`
      rw [if_pos hc1, selectWord_max hw1 hw2, selectWord_max hr_lt hw3]
      right; rw [hq1]; simp only [WMAX_def, B_def] at *; omega
    · rw [if_neg hc1, selectWord_zero hw1 hw2, selectWord_zero hr_lt hw3]
      rw [hr]
      by_cases hc2 : d ≤ U - (Qd + d)
      · -- the second correction will fire: then `Q + 2 < B`, so `q1' = Q + 1 < MAX`
        have hQ2 : Q + 2 < B := by
          have : (Q + 2) * d < B * d := by rw [Nat.add_mul, hQd]; omega
          exact Nat.lt_of_mul_lt_mul_right this
        right; rw [hw0]; simp only [WMAX_def, B_def] at *; omega
      · left; omega

/-- the Möller–Granlund set-up of `CB.Div.div2by1_exact`, packaged: the 128-bit sum `(Q, q0)` and the
    bounds both `d2tail_cases` and `d2mid_assert` need -/
theorem d2_setup {rc : Reciprocal} {u1 u0 : Nat}
    (hd1 : HALF ≤ rc.divisorNormalized) (hd2 : rc.divisorNormalized < B)
    (hv : rc.reciprocal = reciprocalSpec rc.divisorNormalized)
    (hu1 : u1 < rc.divisorNormalized) (hu0 : u0 < B) :
    ∃ Q q0, addhilo (mulhilo rc.reciprocal u1).1 (mulhilo rc.reciprocal u1).2 u1 u0 = (Q, q0) ∧
      Q < B ∧ q0 < B ∧ (u1 * B + u0) % B = u0 ∧ u1 * B + u0 < rc.divisorNormalized * B ∧
      Q * rc.divisorNormalized + rc.divisorNormalized ≤ u1 * B + u0 + rc.divisorNormalized ∧
      Q * rc.divisorNormalized + rc.divisorNormalized + q0 < u1 * B + u0 + B ∧
      (u1 * B + u0 + rc.divisorNormalized < Q * rc.divisorNormalized + rc.divisorNormalized + B ∨
        u1 * B + u0 < Q * rc.divisorNormalized + rc.divisorNormalized + q0) := by
  obtain ⟨d, sh, v⟩ := rc
  simp only at hd1 hd2 hv hu1 ⊢
  obtain ⟨k, hk1, hkd, htk, hvB⟩ := recip_facts hd1 hd2
  rw [← hv] at htk hvB
  clear hv
  have hdpos : 0 < d := Nat.lt_of_lt_of_le (by decide) hd1
  have hSlt : (B + v) * u1 + u0 < B * B := by
    have h1 : (B + v) * u1 ≤ (B + v) * (d - 1) := Nat.mul_le_mul_left _ (by omega)
    have h2 : (B + v) * (d - 1) + (B + v) = (B + v) * d := by
      have : (B + v) * (d - 1) + (B + v) * 1 = (B + v) * (d - 1 + 1) := (Nat.mul_add _ _ _).symm
      rw [Nat.mul_one] at this; rw [this]; congr 1; omega
    omega
  have hsum : (v * u1 / B * B + v * u1 % B + (u1 * B + u0)) = (B + v) * u1 + u0 := by
    have := Nat.div_add_mod (v * u1) B
    rw [Nat.add_mul, Nat.mul_comm u1 B]
    rw [Nat.mul_comm (v * u1 / B) B]; omega
  obtain ⟨S, hSdef⟩ : ∃ S, S = (B + v) * u1 + u0 := ⟨_, rfl⟩
  have hadd : addhilo (mulhilo v u1).1 (mulhilo v u1).2 u1 u0 = (S / B, S % B) := by
    simp only [addhilo, mulhilo, hsum, ← hSdef, Nat.mod_eq_of_lt (hSdef ▸ hSlt)]
  refine ⟨S / B, S % B, hadd, ?_⟩
  have hQ : S / B < B := Nat.div_lt_of_lt_mul (hSdef ▸ hSlt)
  have hq0 : S % B < B := Nat.mod_lt _ B_pos
  have hSeq := Nat.div_add_mod S B
  have core := @mg_core (B:ℤ) d u1 u0 ((B + v : Nat):ℤ) ((S / B : Nat):ℤ) ((S % B : Nat):ℤ) k
    (by exact_mod_cast hd2) (by rw [HALF_two]; push_cast; exact_mod_cast (by omega : 2 * HALF ≤ 2 * d))
    (by positivity) (by exact_mod_cast hu1) (by positivity) (by exact_mod_cast hu0) (by positivity)
    (by exact_mod_cast hq0) (by exact_mod_cast hk1) (by exact_mod_cast hkd) (by exact_mod_cast htk)
    (by rw [hSdef] at hSeq ⊢; push_cast at hSeq ⊢; linarith)
  generalize S / B = Q at *
  generalize S % B = q0 at *
  obtain ⟨ca, cb, cc⟩ := core
  have hP : (Q + 1) * d = Q * d + d := by rw [Nat.add_mul, Nat.one_mul]
  have ca' : Q * d + d ≤ u1 * B + u0 + d := by rw [← hP]; zify; linarith
  have cb' : Q * d + d + q0 < u1 * B + u0 + B := by rw [← hP]; zify; linarith
  have cc' : u1 * B + u0 + d < Q * d + d + B ∨ u1 * B + u0 < Q * d + d + q0 := by
    rw [← hP]
    rcases cc with h | h
    · left; zify; linarith
    · right; zify; linarith
  have hUlt : u1 * B + u0 < d * B := by
    have : (u1 + 1) * B ≤ d * B := Nat.mul_le_mul_right B (by omega)
    rw [Nat.add_mul, Nat.one_mul] at this; omega
  have hU0 : (u1 * B + u0) % B = u0 := by
    rw [Nat.mul_comm, Nat.mul_add_mod, Nat.mod_eq_of_lt hu0]
  exact ⟨hQ, hq0, hU0, hUlt, ca', cb', cc'⟩

/-- `div2by1D` does not trap on the domain of `div2by1`, in either build, and returns `div2by1` -/
theorem div2by1D_ok (p : Profile) {rc : Reciprocal} {u1 u0 : Nat}
    (hd1 : HALF ≤ rc.divisorNormalized) (hd2 : rc.divisorNormalized < B)
    (hv : rc.reciprocal = reciprocalSpec rc.divisorNormalized)
    (hu1 : u1 < rc.divisorNormalized) (hu0 : u0 < B) :
    div2by1D p u1 u0 rc = .ok (div2by1 u1 u0 rc) := by
  obtain ⟨Q, q0, hadd, hQ, hq0, hU0, hUlt, ca, cb, cc⟩ := d2_setup hd1 hd2 hv hu1 hu0
  have hA := d2mid_assert hd1 hd2 hu0 hU0 hUlt hQ hq0 rfl ca cb cc
  rw [div2by1D_eq, div2by1_eq_tail, hadd]
  simp only [dassert_of p (decide_eq_true hd1), dassert_of p (decide_eq_true hu1), bind, Except.bind]
  exact d2tailD_ok p hd2 hA

end CB.Panic
