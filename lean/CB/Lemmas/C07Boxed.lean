/-
  CB.Lemmas.C07Boxed — the `BoxedUint` duplicates compute the same limbs as the fixed-width
  functions when all operands have the precision of the modulus (which the crate debug-asserts).
-/
import CB.Lemmas.C07Mul
import CB.Lemmas.C07Half
namespace CB.ModArith
open CB

theorem condAdcLoop_eq {a m : List Nat} (k c : Nat) (h : a.length = m.length) :
    condAdcLoop a m k c = uadc a (bitandLimb m k) c := by
  induction a generalizing m c with
  | nil => cases m <;> simp [condAdcLoop, uadc]
  | cons x xs ih =>
    cases m with
    | nil => simp at h
    | cons y ys =>
      have hl : xs.length = ys.length := by simpa using h
      rw [bitandLimb, uadc_cons]
      simp only [condAdcLoop, List.headD_cons, List.tail_cons]
      rw [ih _ hl]

theorem fromWordNonzero_mask (t : Bool) : fromWordNonzero (mask t) = mask t := by
  cases t <;> decide

theorem bSbb_eq {a b : List Nat} (bw : Nat) (h : a.length = b.length) : bSbb a b bw = usbb a b bw := by
  show usbb (padTo (max a.length b.length) a) (padTo (max a.length b.length) b) bw = _
  rw [← h, Nat.max_self, padTo_self]
  conv => lhs; arg 2; rw [h, padTo_self]

theorem bAdc_eq {a b : List Nat} (c : Nat) (h : a.length = b.length) : bAdc a b c = uadc a b c := by
  show uadc (padTo (max a.length b.length) a) (padTo (max a.length b.length) b) c = _
  rw [← h, Nat.max_self, padTo_self]
  conv => lhs; arg 2; rw [h, padTo_self]

theorem padTo_one {n l : Nat} (hn : 1 ≤ n) : padTo n [l] = fromWord n l := by
  obtain ⟨k, rfl⟩ : ∃ k, n = k + 1 := ⟨n - 1, by omega⟩
  simp [padTo, fromWord]

theorem padTo_two {n w : Nat} (hn : 2 ≤ n) : padTo n (toLimbs 2 w) = fromWideWord n w := by
  obtain ⟨k, rfl⟩ : ∃ k, n = k + 2 := ⟨n - 2, by omega⟩
  simp [padTo, fromWideWord, toLimbs]

/-- `x.sbb(&BoxedUint::from(word))` with a one-limb right operand, zero-extended by `fold_limbs` -/
theorem bSbb_one {a : List Nat} (l bw : Nat) (hn : 1 ≤ a.length) :
    bSbb a [l] bw = usbb a (fromWord a.length l) bw := by
  show usbb (padTo (max a.length [l].length) a) (padTo (max a.length [l].length) [l]) bw = _
  have : max a.length [l].length = a.length := by simp only [List.length_cons, List.length_nil]; omega
  rw [this, padTo_self, padTo_one hn]

theorem bAdc_two {a : List Nat} (w c : Nat) (hn : 2 ≤ a.length) :
    bAdc a (toLimbs 2 w) c = uadc a (fromWideWord a.length w) c := by
  show uadc (padTo (max a.length (toLimbs 2 w).length) a)
    (padTo (max a.length (toLimbs 2 w).length) (toLimbs 2 w)) c = _
  have : max a.length (toLimbs 2 w).length = a.length := by rw [toLimbs_length]; omega
  rw [this, padTo_self, padTo_two hn]

/-! ### add / double / sub -/

theorem bAddModTail_eq {w p : List Nat} {carry : Nat} (hw : WF w) (hp : WF p)
    (h : w.length = p.length) (hc : carry < B) :
    bAddModTail w carry p = addModTail w carry p := by
  have ⟨_, hbw, _⟩ := usbb_spec hw hp (show 0 < B by decide) h
  have ⟨_, hm, _⟩ := sbb_spec hc (show 0 < B by decide) hbw
  have hl := usbb_length w p 0 h
  unfold bAddModTail addModTail
  simp only []
  have hnz : fromWordNonzero (sbb carry 0 (usbb w p 0).2).2 = (sbb carry 0 (usbb w p 0).2).2 := by
    rcases hm with h0 | h1
    · rw [h0]; decide
    · rw [h1]; decide
  rw [hnz, condAdcLoop_eq _ _ (by rw [hl, h])]
  rfl

theorem bAddMod_eq {a b p : List Nat} (ha : WF a) (hb : WF b) (hp : WF p)
    (hab : a.length = b.length) (hap : a.length = p.length) : bAddMod a b p = addMod a b p := by
  have hc := uadc_carry_le_one ha hb (Nat.le_of_lt Nat.zero_lt_one)
  unfold bAddMod addMod
  exact bAddModTail_eq (uadc_WF a b 0) hp (by rw [uadc_length a b 0 hab, hap])
    (Nat.lt_of_le_of_lt hc (by decide))

theorem bDoubleMod_eq {a p : List Nat} (ha : WF a) (hp : WF p) (hap : a.length = p.length) :
    bDoubleMod a p = doubleMod a p := by
  have ⟨_, hc, hw, hl⟩ := overflowingShl1_spec ha
  unfold bDoubleMod doubleMod
  exact bAddModTail_eq hw hp (by rw [hl, hap]) (Nat.lt_of_le_of_lt hc (by decide))

theorem bSubMod_eq {a b p : List Nat} (ha : WF a) (hb : WF b)
    (hab : a.length = b.length) (hap : a.length = p.length) : bSubMod a b p = subMod a b p := by
  have ⟨hbw, _⟩ := sub_value_borrow ha hb hab
  have hl := usbb_length a b 0 hab
  unfold bSubMod subMod
  simp only []
  rw [bSbb_eq 0 hab, hbw, fromWordNonzero_mask, condAdcLoop_eq _ _ (by rw [hl, hap])]
  rfl

theorem bSubModSpecial_eq {a b : List Nat} (c : Nat) (hab : a.length = b.length)
    (hn : 1 ≤ a.length) : bSubModSpecial a b c = subModSpecial a b c := by
  have hl := usbb_length a b 0 hab
  unfold bSubModSpecial subModSpecial
  simp only []
  rw [bSbb_eq 0 hab, bSbb_one _ _ (by rw [hl]; exact hn), hl]
  rfl

theorem bNegModSpecial_eq (a : List Nat) (c : Nat) (hn : 1 ≤ a.length) :
    bNegModSpecial a c = negModSpecial a c := by
  unfold bNegModSpecial negModSpecial
  exact bSubModSpecial_eq c (uzero_length _) (by rw [uzero_length]; exact hn)

/-! ### neg -/

theorem zeroIf_mask {x : List Nat} (hx : WF x) (z : Bool) :
    zeroIf x (mask z) = if z then uzero x.length else x := by
  induction x with
  | nil => cases z <;> rfl
  | cons y ys ih =>
    have ⟨hy, hys⟩ := WF_cons.mp hx
    simp only [zeroIf, selectWord_spec z hy (show 0 < B by decide), ih hys]
    cases z <;> simp [uzero, List.replicate_succ]

theorem bNegMod_eq {a p : List Nat} (ha : WF a) (_hp : WF p) (hap : a.length = p.length) :
    bNegMod a p = negMod a p := by
  have hwf := usbb_WF p a 0
  unfold bNegMod negMod
  simp only []
  rw [bSbb_eq 0 hap.symm, bIsZero_spec ha, zeroIf_mask hwf, isNonzero_spec ha, bitandLimb_mask hwf]
  by_cases hz : val a = 0 <;> simp [hz]

/-! ### mul_mod_special -/

theorem toLimbs_take (n k v : Nat) : (toLimbs (n + k) v).take n = toLimbs n v := by
  induction n generalizing v with
  | zero => simp [toLimbs]
  | succ n ih =>
    rw [Nat.succ_add]
    simp only [toLimbs, List.take_succ_cons, ih]

theorem toLimbs_drop (n k v : Nat) : (toLimbs (n + k) v).drop n = toLimbs k (v / B ^ n) := by
  induction n generalizing v with
  | zero => simp
  | succ n ih =>
    rw [Nat.succ_add]
    simp only [toLimbs, List.drop_succ_cons, ih]
    rw [Nat.div_div_eq_div_mul, Nat.pow_succ, Nat.mul_comm]

theorem bMulModSpecial_eq {a b : List Nat} (c : Nat) (hab : a.length = b.length) (hc : c < B)
    (hpos : 1 ≤ a.length) :
    bMulModSpecial a b c = mulModSpecial a b c := by
  unfold bMulModSpecial mulModSpecial
  by_cases h1 : a.length = 1
  · rw [if_pos h1, if_pos h1]
  · rw [if_neg h1, if_neg h1]
    simp only []
    rw [← hab, toLimbs_take, toLimbs_drop]
    unfold specialReduce
    simp only []
    have hml := (macByLimb_spec (toLimbs_WF a.length (val a * val b))
      (toLimbs_WF a.length (val a * val b / B ^ a.length))
      (by rw [toLimbs_length, toLimbs_length]) hc (show 0 < B by decide)).2.2.2
    rw [toLimbs_length] at hml ⊢
    · have hn : 2 ≤ a.length := by omega
      rw [bAdc_two _ _ (by rw [hml]; exact hn), hml]
      have hl2 := uadc_length (macByLimb (toLimbs a.length (val a * val b))
        (toLimbs a.length (val a * val b / B ^ a.length)) c 0).1
        (fromWideWord a.length (((macByLimb (toLimbs a.length (val a * val b))
        (toLimbs a.length (val a * val b / B ^ a.length)) c 0).2 + 1) * c)) 0
        (by rw [hml, fromWideWord_length _ hn])
      rw [bSbb_one _ _ (by rw [hl2, hml]; omega), hl2, hml]

end CB.ModArith
