/-
  CB.Lemmas.GenEncodingFrom — the hand-written model of the primitive conversions (`fromWord`, `fromU128` of
  CB/Model/Encoding.lean: `Uint::from_u8/u16/u32/u64/from_word`, `from_wide_word`) IS the translated source
  (CB/Gen/Encoding.lean, namespace CB.Gen.Encoding.Uint, regenerated from src/uint/from.rs on every run), for EVERY limb
  count: the model returns `none` exactly when the translated `assert!`s (`<fn>_asserts`) are false, and otherwise the
  limbs the translated body builds.  No `bv_decide` in this file.
-/
import CB.Gen.Encoding
import CB.Lemmas.GenChainsSub
import CB.Lemmas.C16Prim
namespace CB.GenEncoding
open CB CB.Gen CB.Gen.Encoding CB.Encoding CB.GenChains

/-- the statement shape shared by the one-word conversions -/
theorem fromWord_eq (L : Nat) (w : BitVec 64) :
    fromWord L w.toNat =
      if decide (L ≥ 1) then some (nats ((List.replicate L 0#64).set 0 w)) else none := by
  cases L with
  | zero => rfl
  | succ L =>
    have h : decide (L + 1 ≥ 1) = true := by simp
    rw [h, List.replicate_succ, List.set_cons_zero]
    simp [fromWord, nats]

/-- the two-word conversion -/
theorem fromU128_eq (L : Nat) (x : BitVec 128) :
    fromU128 L x.toNat =
      if decide (L ≥ 2) then
        some (nats (((List.replicate L 0#64).set 0 (x.setWidth 64)).set 1 ((x >>> 64).setWidth 64)))
      else none := by
  match L with
  | 0 => rfl
  | 1 => rfl
  | L + 2 =>
    have h : decide (L + 2 ≥ 2) = true := by simp
    rw [h, List.replicate_succ, List.replicate_succ, List.set_cons_zero, List.set_cons_succ, List.set_cons_zero]
    simp [fromU128, nats, B_def, Nat.shiftRight_eq_div_pow]

theorem setWidth64_toNat_of_le {w : Nat} (n : BitVec w) (h : w ≤ 64) : (n.setWidth 64).toNat = n.toNat := by
  rw [BitVec.toNat_setWidth]
  exact Nat.mod_eq_of_lt (Nat.lt_of_lt_of_le n.isLt (Nat.pow_le_pow_right (by decide) h))

/-- **`Uint::from_u8`** -/
theorem from_u8_bridge (L : Nat) (n : BitVec 8) :
    fromWord L n.toNat = if Uint.from_u8_asserts L n then some (nats (Uint.from_u8 L n)) else none := by
  rw [← setWidth64_toNat_of_le n (by decide), fromWord_eq]; rfl

/-- **`Uint::from_u16`** -/
theorem from_u16_bridge (L : Nat) (n : BitVec 16) :
    fromWord L n.toNat = if Uint.from_u16_asserts L n then some (nats (Uint.from_u16 L n)) else none := by
  rw [← setWidth64_toNat_of_le n (by decide), fromWord_eq]; rfl

/-- **`Uint::from_u32`** -/
theorem from_u32_bridge (L : Nat) (n : BitVec 32) :
    fromWord L n.toNat = if Uint.from_u32_asserts L n then some (nats (Uint.from_u32 L n)) else none := by
  rw [← setWidth64_toNat_of_le n (by decide), fromWord_eq]; rfl

/-- **`Uint::from_u64`** (64-bit configuration) -/
theorem from_u64_bridge (L : Nat) (n : BitVec 64) :
    fromWord L n.toNat = if Uint.from_u64_asserts L n then some (nats (Uint.from_u64 L n)) else none := by
  rw [fromWord_eq]; rfl

/-- **`Uint::from_word`** -/
theorem from_word_bridge (L : Nat) (n : BitVec 64) :
    fromWord L n.toNat = if Uint.from_word_asserts L n then some (nats (Uint.from_word L n)) else none := by
  rw [fromWord_eq]; rfl

/-- **`Uint::from_wide_word`** -/
theorem from_wide_word_bridge (L : Nat) (n : BitVec 128) :
    fromU128 L n.toNat =
      if Uint.from_wide_word_asserts L n then some (nats (Uint.from_wide_word L n)) else none := by
  rw [fromU128_eq]; rfl

end CB.GenEncoding
