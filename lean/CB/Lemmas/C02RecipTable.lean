/-
  CB.Lemmas.C02RecipTable — `short_div((1<<19) - 3*(1<<8), 19, d9, 9)` (the constant-time
  shift-and-subtract replacement of the paper's table lookup) is `⌊(2^19 − 3·2^8)/d9⌋` for each of
  the 256 possible values of `d9`, by kernel evaluation of the model's loop.
-/
import CB.Model.DivLimb
namespace CB.Div
open CB

theorem shortDiv_table : ∀ d9, d9 < 512 → 256 ≤ d9 →
    shortDiv recipV0Dividend 19 (d9 % U32) 9 = 523520 / d9 := by
  decide +kernel

end CB.Div
