/-
  CB.Lemmas.C09Digits — exponent-window arithmetic for property C09: the window index the ladder extracts
  (`(w >> (window_num * 4)) & 15`, masked in the first window) is the base-16 digit of `e mod 2^k`.
-/
import CB.Lemmas.Chains
import CB.Model.Pow
import Mathlib.Tactic.Ring
namespace CB.Pow
open CB

theorem WINDOW_eq : WINDOW = 4 := rfl
theorem WINDOW_MASK_eq : WINDOW_MASK = 15 := rfl
theorem TABLE_eq : TABLE = 16 := rfl
theorem BWINDOW_eq : BWINDOW = 4 := rfl
theorem BWINDOW_MASK_eq : BWINDOW_MASK = 15 := rfl
theorem BTABLE_eq : BTABLE = 16 := rfl
theorem LIMB_BITS_eq : LIMB_BITS = 64 := rfl

/-- the part of `e mod 2^k` above bit position `p`: what the ladder has consumed once it reaches `p`. -/
def pre (e k p : Nat) : Nat := (e % 2 ^ k) / 2 ^ p

theorem pre_zero_pos (e k : Nat) : pre e k 0 = e % 2 ^ k := by simp [pre]

theorem pre_eq_zero {e k p : Nat} (h : k ≤ p) : pre e k p = 0 := by
  unfold pre
  apply Nat.div_eq_of_lt
  calc e % 2 ^ k < 2 ^ k := Nat.mod_lt _ (Nat.two_pow_pos k)
    _ ≤ 2 ^ p := Nat.pow_le_pow_right (by decide) h

/-- one window step: `pre p = 16 · pre (p + 4) + digit`. -/
theorem pre_step (e k p : Nat) : pre e k p = 16 * pre e k (p + 4) + pre e k p % 16 := by
  unfold pre
  have : (e % 2 ^ k) / 2 ^ (p + 4) = (e % 2 ^ k) / 2 ^ p / 16 := by
    rw [Nat.pow_add, Nat.div_div_eq_div_mul]
  rw [this]
  exact (Nat.div_add_mod _ 16).symm

/-- a window entirely below bit `k` is a digit of `e` itself. -/
theorem digit_full {e k p : Nat} (h : p + 4 ≤ k) : pre e k p % 16 = (e / 2 ^ p) % 16 := by
  unfold pre
  have hk : 2 ^ k = 2 ^ p * 2 ^ (k - p) := by rw [← Nat.pow_add]; congr 1; omega
  rw [hk, Nat.mod_mul_right_div_self]
  have : (16 : Nat) ∣ 2 ^ (k - p) := by
    have : k - p = 4 + (k - p - 4) := by omega
    rw [this, Nat.pow_add]; exact Dvd.intro _ rfl
  exact Nat.mod_mod_of_dvd _ this

/-- the top (partial) window: `k = p + s + 1`, `s ≤ 3`. -/
theorem digit_top {e k p s : Nat} (hk : k = p + s + 1) (hs : s ≤ 3) :
    pre e k p % 16 = ((e / 2 ^ p) % 16) % 2 ^ (s + 1) := by
  unfold pre
  have hk' : 2 ^ k = 2 ^ p * 2 ^ (s + 1) := by rw [hk, Nat.add_assoc, Nat.pow_add]
  rw [hk', Nat.mod_mul_right_div_self]
  have hd : 2 ^ (s + 1) ∣ 16 := by
    have : (16 : Nat) = 2 ^ (s + 1) * 2 ^ (3 - s) := by
      rw [← Nat.pow_add]; have : s + 1 + (3 - s) = 4 := by omega
      rw [this]
    exact Dvd.intro _ this.symm
  rw [Nat.mod_mod_of_dvd _ hd]
  apply Nat.mod_eq_of_lt
  calc (e / 2 ^ p) % 2 ^ (s + 1) < 2 ^ (s + 1) := Nat.mod_lt _ (Nat.two_pow_pos _)
    _ ≤ 2 ^ 4 := Nat.pow_le_pow_right (by decide) (by omega)

/-- limb `i` of a well-formed limb list. -/
theorem getD_limb {e : List Nat} (he : WF e) (i : Nat) : e.getD i 0 = (val e / B ^ i) % B := by
  induction e generalizing i with
  | nil => simp [val]
  | cons x xs ih =>
    have ⟨hx, hxs⟩ := WF_cons.mp he
    cases i with
    | zero =>
      simp only [List.getD_cons_zero, Nat.pow_zero, Nat.div_one, val_cons]
      rw [Nat.add_mul_mod_self_left, Nat.mod_eq_of_lt hx]
    | succ j =>
      simp only [List.getD_cons_succ, val_cons]
      rw [ih hxs j, Nat.pow_succ, Nat.mul_comm (B ^ j) B, ← Nat.div_div_eq_div_mul]
      have : (x + B * val xs) / B = val xs := by
        rw [Nat.add_mul_div_left _ _ B_pos, Nat.div_eq_of_lt hx, Nat.zero_add]
      rw [this]

/-- the unmasked window index is the base-16 digit of `val e` at position `64·ln + 4·wn`. -/
theorem window_digit {e : List Nat} (he : WF e) (ln wn : Nat) (hwn : wn ≤ 15) :
    ((e.getD ln 0) >>> (wn * 4)) &&& 15 = (val e / 2 ^ (64 * ln + 4 * wn)) % 16 := by
  rw [getD_limb he, Nat.shiftRight_eq_div_pow]
  have h15 : (15 : Nat) = 2 ^ 4 - 1 := rfl
  rw [h15, Nat.and_two_pow_sub_one_eq_mod]
  have hB : B ^ ln = 2 ^ (64 * ln) := by rw [B_eq_pow, ← Nat.pow_mul]
  rw [hB]
  have h64 : B = 2 ^ (wn * 4) * 2 ^ (64 - wn * 4) := by
    rw [B_eq_pow, ← Nat.pow_add]; congr 1; omega
  rw [h64, Nat.mod_mul_right_div_self]
  have hd : (2 ^ 4 : Nat) ∣ 2 ^ (64 - wn * 4) := by
    have : 64 - wn * 4 = 4 + (60 - wn * 4) := by omega
    rw [this, Nat.pow_add]; exact Dvd.intro _ rfl
  rw [Nat.mod_mod_of_dvd _ hd, Nat.div_div_eq_div_mul, ← Nat.pow_add]
  have : 64 * ln + wn * 4 = 64 * ln + 4 * wn := by omega
  rw [this]
  rfl

theorem mask_eq (s : Nat) : (1 <<< (s + 1)) - 1 = 2 ^ (s + 1) - 1 := by
  rw [Nat.shiftLeft_eq, Nat.one_mul]

end CB.Pow
