/-
  CB.Lemmas.GenChains — the hand-written limb-chain model of addition, subtraction and negation (`uadc`, `wrappingAdd`,
  `usbb`, `wrappingSub`, `negLoop`/`carryingNeg`/`wrappingNeg` of CB/Model/Uint.lean) IS the translated source
  (CB/Gen/Chains.lean, regenerated from src/uint/{add,sub,neg}.rs on every run), for EVERY limb count.
  The method, the list facts and the `Uint::sbb` bridges (`usbb_bridge`, `wrappingSub_bridge`; shared with the comparisons
  of C06) are in CB/Lemmas/GenChainsSub.lean, which this file re-exports; here: `Uint::adc`, `wrapping_add`,
  `carrying_neg`, `wrapping_neg`.  No `bv_decide` in this file.
-/
import CB.Lemmas.GenChainsSub
import CB.Lemmas.GenBitsChainsAdd
namespace CB.GenChains
open CB CB.Gen CB.Gen.Chains CB.GenBits

/-! ## `Uint::adc` -/

/-- the translated loop from position `i` with `n` rounds to go: keeps the first `i` positions, writes the model chain
    on the remaining limbs behind them, and ends with the model's carry -/
theorem adc_loop_bridge (L : Nat) (a b : List (BitVec 64)) (ha : a.length = L) (hb : b.length = L) :
    ∀ (n i : Nat) (c : BitVec 64) (limbs : List (BitVec 64)), i + n = L → limbs.length = L →
      nats (Uint.adc_loop1 L a b n i c limbs).2 =
          nats (limbs.take i) ++ (uadc (nats (a.drop i)) (nats (b.drop i)) c.toNat).1 ∧
      (Uint.adc_loop1 L a b n i c limbs).1.toNat = (uadc (nats (a.drop i)) (nats (b.drop i)) c.toNat).2 := by
  intro n
  induction n with
  | zero =>
    intro i c limbs hi hl
    have hi' : i = L := by omega
    rw [adc_loop_zero, List.drop_of_length_le (by omega), List.drop_of_length_le (by omega),
      List.take_of_length_le (by omega)]
    simp [nats, uadc]
  | succ n ih =>
    intro i c limbs hi hl
    have hi' : i < L := by omega
    obtain ⟨ih1, ih2⟩ := ih (i + 1) (Prim.adc (a.getD i 0#64) (b.getD i 0#64) c).2
      (limbs.set i (Prim.adc (a.getD i 0#64) (b.getD i 0#64) c).1) (by omega) (by simpa using hl)
    rw [adc_loop_succ L a b n i c limbs hi', drop_eq_getD_cons a i (by omega), drop_eq_getD_cons b i (by omega)]
    simp only [nats, List.map_cons] at ih1 ih2 ⊢
    rw [uadc_cons, adc_bridge]
    refine ⟨?_, ih2⟩
    rw [ih1, take_set_succ limbs i _ (by omega)]
    simp only [List.map_append, List.map_cons, List.map_nil, List.append_assoc, List.cons_append, List.nil_append]

/-- **`Uint::adc`**: the model chain on the limbs' values is the translated source, for every limb count and every
    carry-in word -/
theorem uadc_bridge (a b : List (BitVec 64)) (c : BitVec 64) (h : a.length = b.length) :
    uadc (nats a) (nats b) c.toNat =
      (nats (Uint.adc a.length a b c).1, (Uint.adc a.length a b c).2.toNat) := by
  obtain ⟨h1, h2⟩ := adc_loop_bridge a.length a b rfl h.symm a.length 0 c (List.replicate a.length 0#64)
    (by omega) (by simp)
  rw [adc_eq_loop]
  simp only [List.drop_zero, List.take_zero] at h1 h2
  simp only [h1, h2, nats, List.map_nil, List.nil_append]

/-- **`Uint::wrapping_add`** -/
theorem wrappingAdd_bridge (a b : List (BitVec 64)) (h : a.length = b.length) :
    wrappingAdd (nats a) (nats b) = nats (Uint.wrapping_add a.length a b) := by
  rw [wrapping_add_eq, wrappingAdd]
  exact congrArg Prod.fst (uadc_bridge a b 0#64 h)

/-! ## `Uint::carrying_neg`, `Uint::wrapping_neg` -/

/-- the wide carry of the source stays a word (in fact a bit); under that invariant each round is the model's -/
theorem neg_loop_bridge (L : Nat) (a : List (BitVec 64)) (ha : a.length = L) :
    ∀ (n i : Nat) (ret : List (BitVec 64)) (c : BitVec 128), i + n = L → ret.length = L → c.toNat < 2 ^ 64 →
      nats (Uint.carrying_neg_loop1 L a n i ret c).1 =
          nats (ret.take i) ++ (negLoop (nats (a.drop i)) c.toNat).1 ∧
      (Uint.carrying_neg_loop1 L a n i ret c).2.toNat = (negLoop (nats (a.drop i)) c.toNat).2 ∧
      (Uint.carrying_neg_loop1 L a n i ret c).2.toNat < 2 ^ 64 := by
  intro n
  induction n with
  | zero =>
    intro i ret c hi hl hc
    have hi' : i = L := by omega
    rw [neg_loop_zero, List.drop_of_length_le (by omega), List.take_of_length_le (by omega)]
    simp [nats, negLoop, hc]
  | succ n ih =>
    intro i ret c hi hl hc
    have hi' : i < L := by omega
    obtain ⟨r1, r2⟩ := neg_round_toNat (a.getD i 0#64) c hc
    have hc' : (((~~~(a.getD i 0#64)).setWidth 128 + c) >>> 64).toNat < 2 ^ 64 := by
      rw [r2]
      have := toNat_lt_B (a.getD i 0#64)
      simp only [wnot, B_def, WMAX_def] at *
      omega
    obtain ⟨ih1, ih2, ih3⟩ := ih (i + 1) (ret.set i (((~~~(a.getD i 0#64)).setWidth 128 + c).setWidth 64))
      (((~~~(a.getD i 0#64)).setWidth 128 + c) >>> 64) (by omega) (by simpa using hl) hc'
    rw [neg_loop_succ L a n i ret c hi', drop_eq_getD_cons a i (by omega)]
    simp only [nats, List.map_cons] at ih1 ih2 ⊢
    rw [negLoop, ← r1, ← r2]
    refine ⟨?_, ih2, ih3⟩
    rw [ih1, take_set_succ ret i _ (by omega)]
    simp only [List.map_append, List.map_cons, List.map_nil, List.append_assoc, List.cons_append, List.nil_append]

/-- **`Uint::carrying_neg`**: limbs and the carry choice, for every limb count -/
theorem carryingNeg_bridge (a : List (BitVec 64)) :
    carryingNeg (nats a) =
      (nats (Uint.carrying_neg a.length a).1, (Uint.carrying_neg a.length a).2.toNat) := by
  obtain ⟨h1, h2, h3⟩ := neg_loop_bridge a.length a rfl a.length 0 (List.replicate a.length 0#64) 1#128
    (by omega) (by simp) (by decide)
  rw [carrying_neg_eq_loop, carryingNeg]
  simp only [List.drop_zero, List.take_zero] at h1 h2
  have e1 : (1#128 : BitVec 128).toNat = 1 := by decide
  rw [e1] at h1 h2
  simp only [nats, List.map_nil, List.nil_append] at h1 ⊢
  rw [← fromWordLsb_bridge, BitVec.toNat_setWidth, Nat.mod_eq_of_lt h3, h1, h2]

/-- **`Uint::wrapping_neg`** -/
theorem wrappingNeg_bridge (a : List (BitVec 64)) :
    wrappingNeg (nats a) = nats (Uint.wrapping_neg a.length a) := by
  rw [wrapping_neg_eq, wrappingNeg]
  exact congrArg Prod.fst (carryingNeg_bridge a)

end CB.GenChains
