/-
  CB.Lemmas.C05BitForms — (coverage round) `Int` / `Limb` bitwise operators: the signed reading of `!`.
-/
import CB.Lemmas.C05Int
import CB.Lemmas.C05BitOps
import CB.Model.BitForms
namespace CB.BitForms
open CB CB.Shift CB.Bits

/-- `2^BITS` is even for at least one limb -/
theorem Bpow_even {n : Nat} (hn : 0 < n) : ∃ K, B ^ n = 2 * K := by
  cases n with
  | zero => omega
  | succ n => exact ⟨HALF * B ^ n, by rw [Nat.pow_succ, Nat.mul_comm, ← Nat.mul_assoc]; rfl⟩

/-- two's complement: `!x = -x - 1` -/
theorem toInt_intNot {a : List Nat} (ha : WF a) (hne : a ≠ []) :
    toInt (intNot a) = - toInt a - 1 := by
  have ⟨hv, _, hl⟩ := val_unot ha
  have hlt := val_lt ha
  have hpos : 0 < a.length := List.length_pos_iff.mpr hne
  obtain ⟨K, hK⟩ := Bpow_even hpos
  unfold toInt intNot
  rw [hl]
  generalize B ^ a.length = N at *
  generalize val (unot a) = u at *
  generalize val a = v at *
  subst hK
  by_cases h : 2 * K ≤ 2 * v
  · have h' : ¬ 2 * K ≤ 2 * u := by omega
    simp only [h, h', if_true, if_false]
    push_cast; omega
  · have h' : 2 * K ≤ 2 * u := by omega
    simp only [h, h', if_true, if_false]
    push_cast; omega

end CB.BitForms
