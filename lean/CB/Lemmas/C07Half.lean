/-
  CB.Lemmas.C07Half — `shr1`, `set_bit(BITS-1, ·)` and the halving core of `div_by_2`.
-/
import CB.Lemmas.C07
namespace CB.ModArith
open CB

theorem shr1_cons2 (x y : Nat) (ys : List Nat) :
    shr1 (x :: y :: ys) = ((x / 2) ||| ((y * HALF) % B)) :: shr1 (y :: ys) := rfl

theorem shr1_spec {l : List Nat} (hl : WF l) :
    val (shr1 l) = val l / 2 ∧ WF (shr1 l) ∧ (shr1 l).length = l.length := by
  induction l with
  | nil => exact ⟨rfl, WF_nil, rfl⟩
  | cons x xs ih =>
    have ⟨hx, hxs⟩ := WF_cons.mp hl
    cases xs with
    | nil =>
      refine ⟨by simp [shr1], WF_cons.mpr ⟨?_, WF_nil⟩, rfl⟩
      simp only [B_def] at *; omega
    | cons y ys =>
      have ⟨hy, _⟩ := WF_cons.mp hxs
      have ⟨i1, i2, i3⟩ := ih hxs
      rw [shr1_cons2, shr1_or hx hy]
      have hlt : x / 2 + y % 2 * HALF < B := by simp only [B_def, HALF_def] at *; omega
      refine ⟨?_, WF_cons.mpr ⟨hlt, i2⟩, by simp only [List.length_cons] at i3 ⊢; omega⟩
      simp only [val_cons] at i1 ⊢
      rw [i1]
      generalize val ys = W
      simp only [B_def, HALF_def] at *
      omega

theorem selectWord_zero (a b : Nat) : selectWord a b 0 = a := by
  simp [selectWord]

/-- `set_bit` on the top bit of the top limb, when that bit is clear beforehand. -/
theorem setBitLoop_top {l : List Nat} (b : Bool) (hl : WF l) (hne : l ≠ [])
    (htop : val l < B ^ (l.length - 1) * HALF) (i ln : Nat) (hln : ln = i + l.length - 1) :
    val (setBitLoop l i ln HALF (mask b)) = val l + (if b then B ^ (l.length - 1) * HALF else 0) ∧
    WF (setBitLoop l i ln HALF (mask b)) ∧ (setBitLoop l i ln HALF (mask b)).length = l.length := by
  induction l generalizing i with
  | nil => exact absurd rfl hne
  | cons x xs ih =>
    have ⟨hx, hxs⟩ := WF_cons.mp hl
    cases xs with
    | nil =>
      have hxh : x < HALF := by
        simp only [List.length_cons, List.length_nil, Nat.zero_add, Nat.sub_self, Nat.pow_zero,
          Nat.one_mul, val_cons, val_nil, Nat.mul_zero, Nat.add_zero] at htop
        exact htop
      have ⟨s1, s2⟩ := set_top hxh
      have hi : i = ln := by simp only [List.length_cons, List.length_nil] at hln; omega
      have hm : (WMAX : Nat) = mask true := rfl
      have hb1 : x + HALF < B := by simp only [B_def, HALF_def] at *; omega
      have hnew : selectWord x (x + HALF) (mask b) = if b then x + HALF else x :=
        selectWord_spec b hx hb1
      have hd : setBitLoop [x] i ln HALF (mask b) = [if b then x + HALF else x] := by
        show [selectWord x (selectWord (x &&& wnot HALF) (x ||| HALF) (mask b))
          (if i = ln then WMAX else 0)] = _
        rw [if_pos hi, s1, s2, hnew, hm]
        cases b
        · simp only [Bool.false_eq_true, if_false]
          rw [selectWord_spec true hx hx]; rfl
        · simp only [if_true]
          rw [selectWord_spec true hx hb1]; rfl
      rw [hd]
      cases b
      · refine ⟨?_, WF_cons.mpr ⟨hx, WF_nil⟩, rfl⟩
        simp only [Bool.false_eq_true, if_false, val_cons, val_nil, Nat.add_zero]
      · refine ⟨?_, WF_cons.mpr ⟨hb1, WF_nil⟩, rfl⟩
        simp only [if_true, val_cons, val_nil, Nat.mul_zero, Nat.add_zero, List.length_cons,
          List.length_nil, Nat.zero_add, Nat.sub_self, Nat.pow_zero, Nat.one_mul]
    | cons y ys =>
      have hne' : i ≠ ln := by simp only [List.length_cons] at hln; omega
      have htop' : val (y :: ys) < B ^ ((y :: ys).length - 1) * HALF := by
        simp only [List.length_cons, Nat.add_sub_cancel, val_cons] at htop ⊢
        rw [Nat.pow_succ, Nat.mul_comm (B ^ ys.length) B, Nat.mul_assoc] at htop
        have : B * (y + B * val ys) < B * (B ^ ys.length * HALF) := by omega
        exact Nat.lt_of_mul_lt_mul_left this
      have ⟨i1, i2, i3⟩ := ih hxs (List.cons_ne_nil _ _) htop' (i + 1)
        (by simp only [List.length_cons] at hln ⊢; omega)
      have hd : setBitLoop (x :: y :: ys) i ln HALF (mask b) =
          x :: setBitLoop (y :: ys) (i + 1) ln HALF (mask b) := by
        simp only [setBitLoop, hne', if_false, selectWord_zero]
      rw [hd]
      refine ⟨?_, WF_cons.mpr ⟨hx, i2⟩, by simp only [List.length_cons] at i3 ⊢; omega⟩
      rw [val_cons, i1]
      simp only [List.length_cons, Nat.add_sub_cancel, val_cons]
      cases b
      · simp only [Bool.false_eq_true, if_false, Nat.add_zero]
      · simp only [if_true]
        rw [Nat.pow_succ, Nat.mul_comm (B ^ ys.length) B, Nat.mul_assoc, Nat.mul_add]
        omega

/-- shift right by one, then put `carry` into the top bit: exact halving of `sel + 2^BITS·carry`. -/
theorem halve_core {sel : List Nat} {carry : Nat} (hs : WF sel) (hne : sel ≠ []) (hc : carry ≤ 1) :
    val (setBit (shr1 sel) (64 * sel.length - 1) (mask (decide (carry = 1))))
      = (val sel + B ^ sel.length * carry) / 2 ∧
    WF (setBit (shr1 sel) (64 * sel.length - 1) (mask (decide (carry = 1)))) ∧
    (setBit (shr1 sel) (64 * sel.length - 1) (mask (decide (carry = 1)))).length = sel.length := by
  have ⟨r1, r2, r3⟩ := shr1_spec hs
  have hn : 0 < sel.length := by
    cases sel with
    | nil => exact absurd rfl hne
    | cons _ _ => simp only [List.length_cons]; omega
  have hne' : shr1 sel ≠ [] := by
    intro h; rw [h] at r3; simp only [List.length_nil] at r3; omega
  have hidx : (64 * sel.length - 1) / 64 = sel.length - 1 := by omega
  have hbit : 2 ^ ((64 * sel.length - 1) % 64) = HALF := by
    have : (64 * sel.length - 1) % 64 = 63 := by omega
    rw [this]; decide
  have hpow : B ^ sel.length = 2 * (B ^ (sel.length - 1) * HALF) := by
    obtain ⟨k, hk⟩ : ∃ k, sel.length = k + 1 := ⟨sel.length - 1, by omega⟩
    rw [hk, Nat.pow_succ, Nat.add_sub_cancel]
    have h2 : B = HALF * 2 := by decide
    calc B ^ k * B = B ^ k * (HALF * 2) := congrArg _ h2
      _ = 2 * (B ^ k * HALF) := by rw [← Nat.mul_assoc, Nat.mul_comm]
  have hvs := val_lt hs
  have htop : val (shr1 sel) < B ^ ((shr1 sel).length - 1) * HALF := by
    rw [r1, r3]; omega
  have ⟨t1, t2, t3⟩ := setBitLoop_top (decide (carry = 1)) r2 hne' htop 0 (sel.length - 1)
    (by rw [r3]; omega)
  have hd : setBit (shr1 sel) (64 * sel.length - 1) (mask (decide (carry = 1)))
      = setBitLoop (shr1 sel) 0 (sel.length - 1) HALF (mask (decide (carry = 1))) := by
    unfold setBit; rw [hidx, hbit]
  rw [hd]
  refine ⟨?_, t2, by rw [t3, r3]⟩
  rw [t1, r1, r3, hpow]
  rcases (show carry = 0 ∨ carry = 1 by omega) with h0 | h1
  · have hdec : decide (carry = 1) = false := by rw [h0]; rfl
    rw [hdec, h0, if_neg (by decide), Nat.mul_zero, Nat.add_zero, Nat.add_zero]
  · have hdec : decide (carry = 1) = true := by rw [h1]; rfl
    rw [hdec, h1, if_pos rfl, Nat.mul_one, Nat.add_mul_div_left _ _ (by decide : 0 < 2)]

theorem isOdd_spec {a : List Nat} (ha : WF a) : isOdd a = mask (decide (val a % 2 = 1)) := by
  unfold isOdd
  rw [Nat.and_one_is_mod]
  have hv : a.headD 0 % 2 = val a % 2 := by
    cases a with
    | nil => rfl
    | cons x xs => simp only [List.headD_cons, val_cons, B_def]; omega
  rw [hv, ← fromWordLsb_01]
  congr 1
  by_cases h : val a % 2 = 1
  · simp [h]
  · have : val a % 2 = 0 := by omega
    simp [this]

end CB.ModArith
