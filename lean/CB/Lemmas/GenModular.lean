/-
  CB.Lemmas.GenModular — the hand-written model of the modular add / sub / neg layer (`bitandLimb`, `fromWord`,
  `overflowingShl1`, `addMod`, `doubleMod`, `addModSpecial`, `subMod`, `subModWithCarry`, `subModSpecial`, `negMod`,
  `negModSpecial` of CB/Model/ModArith.lean — what every theorem of CB/Props/C07.lean is proved about) IS the translated
  source (CB/Gen/Modular.lean, regenerated from src/uint/{bit_and,from,shl,add_mod,sub_mod,neg_mod}.rs and
  src/modular/{add,sub}.rs on every run), for EVERY limb count and every operand.

  Method (see CB/Lemmas/GenChainsSub.lean): each loop bridge is an induction over the fuel of the translated
  `while i < LIMBS` loop with the invariant  result = (first `i` positions written so far) ++ (model on the limbs from `i`);
  one round of the translated loop and the unfolding of each straight-line composition come from
  CB/Lemmas/GenBitsModular.lean (the only file that reads the generated text), the limb chains inside the compositions
  from the chain bridges `uadc_bridge`, `usbb_bridge`, `wrappingAdd_bridge`, `wrappingSub_bridge`, `isNonzero_bridge`
  of GenChains{Sub,,Cmp}.lean, one word of the model from `sbb_bridge` / `wnot_bv` / `wneg_bv` / `wsub_bv`.
  No `bv_decide` in this file.
-/
import CB.Lemmas.GenBitsModular
import CB.Lemmas.GenChains
import CB.Lemmas.GenChainsCmp
import CB.Lemmas.C07
namespace CB.GenModular
open CB CB.Gen CB.GenBits CB.GenChains CB.ModArith

/-! ## lengths of the translated chains (read off the bridges) -/

theorem length_of_nats_eq {x : List (BitVec 64)} {m : List Nat} (h : m = nats x) : x.length = m.length := by
  rw [h, nats_length]

theorem adc_length (a b : List (BitVec 64)) (c : BitVec 64) (h : a.length = b.length) :
    (Chains.Uint.adc a.length a b c).1.length = a.length := by
  have e := congrArg Prod.fst (uadc_bridge a b c h)
  rw [length_of_nats_eq e, uadc_length _ _ _ (by rw [nats_length, nats_length, h]), nats_length]

theorem sbb_length (a b : List (BitVec 64)) (c : BitVec 64) (h : a.length = b.length) :
    (Chains.Uint.sbb a.length a b c).1.length = a.length := by
  have e := congrArg Prod.fst (usbb_bridge a b c h)
  rw [length_of_nats_eq e, usbb_length _ _ _ (by rw [nats_length, nats_length, h]), nats_length]

/-! ## `Uint::bitand_limb` -/

theorem bitandLimb_nil (m : Nat) : bitandLimb [] m = [] := rfl
theorem bitandLimb_cons (x m : Nat) (xs : List Nat) : bitandLimb (x :: xs) m = (x &&& m) :: bitandLimb xs m := rfl

theorem bitand_limb_loop_bridge (L : Nat) (a : List (BitVec 64)) (m : BitVec 64) (ha : a.length = L) :
    ∀ (n i : Nat) (limbs : List (BitVec 64)), i + n = L → limbs.length = L →
      nats (Modular.Uint.bitand_limb_loop1 L a m n i limbs) =
        nats (limbs.take i) ++ bitandLimb (nats (a.drop i)) m.toNat := by
  intro n
  induction n with
  | zero =>
    intro i limbs hi hl
    rw [bitand_limb_loop_zero, List.drop_of_length_le (by omega), List.take_of_length_le (by omega)]
    simp [nats, bitandLimb_nil]
  | succ n ih =>
    intro i limbs hi hl
    have hi' : i < L := by omega
    rw [bitand_limb_loop_succ L a m n i limbs hi', ih (i + 1) _ (by omega) (by simpa using hl),
      drop_eq_getD_cons a i (by omega), take_set_succ limbs i _ (by omega)]
    simp only [nats, List.map_cons, bitandLimb_cons, List.map_append, List.map_nil, List.append_assoc,
      List.cons_append, List.nil_append, BitVec.toNat_and]

/-- **`Uint::bitand_limb`**: every limb `& rhs`, for every limb count -/
theorem bitandLimb_bridge (a : List (BitVec 64)) (m : BitVec 64) :
    bitandLimb (nats a) m.toNat = nats (Modular.Uint.bitand_limb a.length a m) := by
  have h := bitand_limb_loop_bridge a.length a m rfl a.length 0 (List.replicate a.length 0#64) (by omega) (by simp)
  rw [bitand_limb_eq_loop, h]
  simp

theorem bitand_limb_length (a : List (BitVec 64)) (m : BitVec 64) :
    (Modular.Uint.bitand_limb a.length a m).length = a.length := by
  rw [length_of_nats_eq (bitandLimb_bridge a m), bitandLimb_length, nats_length]

/-! ## `Uint::bitand` (limb-wise `&`; the model of C05 is `List.zipWith`) -/

theorem bitand_loop_bridge (L : Nat) (a b : List (BitVec 64)) (ha : a.length = L) (hb : b.length = L) :
    ∀ (n i : Nat) (limbs : List (BitVec 64)), i + n = L → limbs.length = L →
      Modular.Uint.bitand_loop1 L a b n i limbs =
        limbs.take i ++ List.zipWith (· &&& ·) (a.drop i) (b.drop i) := by
  intro n
  induction n with
  | zero =>
    intro i limbs hi hl
    rw [bitand_loop_zero, List.drop_of_length_le (by omega), List.take_of_length_le (by omega)]
    simp
  | succ n ih =>
    intro i limbs hi hl
    have hi' : i < L := by omega
    rw [bitand_loop_succ L a b n i limbs hi', ih (i + 1) _ (by omega) (by simpa using hl),
      drop_eq_getD_cons a i (by omega), drop_eq_getD_cons b i (by omega), take_set_succ limbs i _ (by omega)]
    simp only [List.zipWith_cons_cons, List.append_assoc, List.cons_append, List.nil_append]

/-- **`Uint::bitand`** of the source is the limb-wise `&` -/
theorem bitand_meaning (a b : List (BitVec 64)) (h : a.length = b.length) :
    Modular.Uint.bitand a.length a b = List.zipWith (· &&& ·) a b := by
  have e := bitand_loop_bridge a.length a b rfl h.symm a.length 0 (List.replicate a.length 0#64) (by omega) (by simp)
  rw [bitand_eq_loop, e]
  simp

/-! ## `Uint::from_word` -/

/-- **`Uint::from_word`** (`LIMBS ≥ 1` is asserted by the crate; for `LIMBS = 0` both sides are the empty value) -/
theorem fromWord_bridge (L : Nat) (w : BitVec 64) :
    fromWord L w.toNat = nats (Modular.Uint.from_word L w) := by
  rw [from_word_eq]
  cases L with
  | zero => rfl
  | succ n => simp [fromWord, uzero, List.replicate_succ, nats]

theorem from_word_length (L : Nat) (w : BitVec 64) : (Modular.Uint.from_word L w).length = L := by
  rw [from_word_eq]; simp

/-! ## `Uint::overflowing_shl1` -/

theorem shl1Loop_nil (c : Nat) : shl1Loop [] c = ([], c) := rfl

theorem shl1_loop_bridge (L : Nat) (a : List (BitVec 64)) (ha : a.length = L) :
    ∀ (n i : Nat) (ret : List (BitVec 64)) (c : BitVec 64), i + n = L → ret.length = L →
      nats (Modular.Uint.overflowing_shl1_loop1 L a n i ret c).1 =
          nats (ret.take i) ++ (shl1Loop (nats (a.drop i)) c.toNat).1 ∧
      (Modular.Uint.overflowing_shl1_loop1 L a n i ret c).2.toNat = (shl1Loop (nats (a.drop i)) c.toNat).2 := by
  intro n
  induction n with
  | zero =>
    intro i ret c hi hl
    rw [shl1_loop_zero, List.drop_of_length_le (by omega), List.take_of_length_le (by omega)]
    simp [nats, shl1Loop_nil]
  | succ n ih =>
    intro i ret c hi hl
    have hi' : i < L := by omega
    obtain ⟨ih1, ih2⟩ := ih (i + 1) (ret.set i ((a.getD i 0#64 <<< 1) ||| c)) (a.getD i 0#64 >>> 63)
      (by omega) (by simpa using hl)
    rw [shl1_loop_succ L a n i ret c hi', drop_eq_getD_cons a i (by omega)]
    simp only [nats, List.map_cons] at ih1 ih2 ⊢
    rw [shl1Loop_cons, shl1_word_bv, shr63_bv]
    refine ⟨?_, ih2⟩
    rw [ih1, take_set_succ ret i _ (by omega)]
    simp only [List.map_append, List.map_cons, List.map_nil, List.append_assoc, List.cons_append, List.nil_append,
      BitVec.toNat_or]

/-- **`Uint::overflowing_shl1`**: the doubled value and the shifted-out bit, for every limb count -/
theorem overflowingShl1_bridge (a : List (BitVec 64)) :
    overflowingShl1 (nats a) =
      (nats (Modular.Uint.overflowing_shl1 a.length a).1, (Modular.Uint.overflowing_shl1 a.length a).2.toNat) := by
  obtain ⟨h1, h2⟩ := shl1_loop_bridge a.length a rfl a.length 0 (List.replicate a.length 0#64) 0#64
    (by omega) (by simp)
  rw [overflowing_shl1_eq_loop, overflowingShl1]
  simp only [List.drop_zero, List.take_zero] at h1 h2
  simp only [h1, h2, nats, List.map_nil, List.nil_append]
  rfl

theorem overflowing_shl1_length (a : List (BitVec 64)) :
    (Modular.Uint.overflowing_shl1 a.length a).1.length = a.length := by
  have e := congrArg Prod.fst (overflowingShl1_bridge a)
  rw [length_of_nats_eq e, (overflowingShl1_spec (nats_WF a)).2.2.2, nats_length]

/-! ## the common tail of `add_mod` / `double_mod` -/

theorem addModTail_bridge (w p : List (BitVec 64)) (carry : BitVec 64) (h : w.length = p.length) :
    addModTail (nats w) carry.toNat (nats p) = nats (addModTailG w.length w carry p) := by
  have hs := usbb_bridge w p 0#64 h
  have hl := sbb_length w p 0#64 h
  have hb := bitand_limb_length p (Prim.sbb carry 0#64 (Chains.Uint.sbb w.length w p 0#64).2).2
  rw [← h] at hb
  have hw := wrappingAdd_bridge (Chains.Uint.sbb w.length w p 0#64).1
    (Modular.Uint.bitand_limb w.length p (Prim.sbb carry 0#64 (Chains.Uint.sbb w.length w p 0#64).2).2)
    (by rw [hl, hb])
  rw [hl] at hw
  unfold addModTailG addModTail
  rw [← hw]
  have e0 : (0#64).toNat = 0 := rfl
  rw [e0] at hs
  rw [hs]
  dsimp only
  have es := sbb_bridge carry 0#64 (Chains.Uint.sbb w.length w p 0#64).2
  rw [e0] at es
  rw [es]
  dsimp only
  have eb := bitandLimb_bridge p (Prim.sbb carry 0#64 (Chains.Uint.sbb w.length w p 0#64).2).2
  rw [← h] at eb
  rw [eb]

/-! ## the compositions -/

/-- **`Uint::add_mod`** -/
theorem addMod_bridge (a b p : List (BitVec 64)) (hab : a.length = b.length) (hap : a.length = p.length) :
    addMod (nats a) (nats b) (nats p) = nats (Modular.Uint.add_mod a.length a b p) := by
  have hs := uadc_bridge a b 0#64 hab
  have hl := adc_length a b 0#64 hab
  have ht := addModTail_bridge (Chains.Uint.adc a.length a b 0#64).1 p (Chains.Uint.adc a.length a b 0#64).2
    (by rw [hl, hap])
  rw [hl] at ht
  rw [add_mod_eq, ← ht]
  unfold addMod
  have e0 : (0#64).toNat = 0 := rfl
  rw [e0] at hs
  rw [hs]

/-- **`Uint::double_mod`** -/
theorem doubleMod_bridge (a p : List (BitVec 64)) (hap : a.length = p.length) :
    doubleMod (nats a) (nats p) = nats (Modular.Uint.double_mod a.length a p) := by
  have hs := overflowingShl1_bridge a
  have hl := overflowing_shl1_length a
  have ht := addModTail_bridge (Modular.Uint.overflowing_shl1 a.length a).1 p
    (Modular.Uint.overflowing_shl1 a.length a).2 (by rw [hl, hap])
  rw [hl] at ht
  rw [double_mod_eq, ← ht]
  unfold doubleMod
  rw [hs]

/-- **`Uint::add_mod_special`** -/
theorem addModSpecial_bridge (a b : List (BitVec 64)) (c : BitVec 64) (hab : a.length = b.length) :
    addModSpecial (nats a) (nats b) c.toNat = nats (Modular.Uint.add_mod_special a.length a b c) := by
  have hs := uadc_bridge a b c hab
  have hl := adc_length a b c hab
  have hw := wrappingSub_bridge (Chains.Uint.adc a.length a b c).1
    (Modular.Uint.from_word a.length (((Chains.Uint.adc a.length a b c).2 - 1#64) &&& c))
    (by rw [hl, from_word_length])
  rw [hl] at hw
  rw [add_mod_special_eq, ← hw]
  unfold addModSpecial
  rw [hs, nats_length]
  dsimp only
  rw [addspecial_word_bv, fromWord_bridge]

/-- **`Uint::sub_mod`** -/
theorem subMod_bridge (a b p : List (BitVec 64)) (hab : a.length = b.length) (hap : a.length = p.length) :
    subMod (nats a) (nats b) (nats p) = nats (Modular.Uint.sub_mod a.length a b p) := by
  have hs := usbb_bridge a b 0#64 hab
  have hl := sbb_length a b 0#64 hab
  have hb := bitand_limb_length p (Chains.Uint.sbb a.length a b 0#64).2
  rw [← hap] at hb
  have hw := wrappingAdd_bridge (Chains.Uint.sbb a.length a b 0#64).1
    (Modular.Uint.bitand_limb a.length p (Chains.Uint.sbb a.length a b 0#64).2) (by rw [hl, hb])
  rw [hl] at hw
  rw [sub_mod_eq, ← hw]
  unfold subMod
  have e0 : (0#64).toNat = 0 := rfl
  rw [e0] at hs
  rw [hs]
  dsimp only
  have eb := bitandLimb_bridge p (Chains.Uint.sbb a.length a b 0#64).2
  rw [← hap] at eb
  rw [eb]

/-- **`Uint::sub_mod_with_carry`** (crate-internal; the final step of Montgomery reduction) -/
theorem subModWithCarry_bridge (a : List (BitVec 64)) (carry : BitVec 64) (b p : List (BitVec 64))
    (hab : a.length = b.length) (hap : a.length = p.length) :
    subModWithCarry (nats a) carry.toNat (nats b) (nats p) =
      nats (Modular.Uint.sub_mod_with_carry a.length a carry b p) := by
  have hs := usbb_bridge a b 0#64 hab
  have hl := sbb_length a b 0#64 hab
  have hb := bitand_limb_length p ((~~~(-carry)) &&& (Chains.Uint.sbb a.length a b 0#64).2)
  rw [← hap] at hb
  have hw := wrappingAdd_bridge (Chains.Uint.sbb a.length a b 0#64).1
    (Modular.Uint.bitand_limb a.length p ((~~~(-carry)) &&& (Chains.Uint.sbb a.length a b 0#64).2)) (by rw [hl, hb])
  rw [hl] at hw
  rw [sub_mod_with_carry_eq, ← hw]
  unfold subModWithCarry
  have e0 : (0#64).toNat = 0 := rfl
  rw [e0] at hs
  rw [hs]
  dsimp only
  rw [subcarry_mask_bv]
  have eb := bitandLimb_bridge p ((~~~(-carry)) &&& (Chains.Uint.sbb a.length a b 0#64).2)
  rw [← hap] at eb
  rw [eb]

/-- **`Uint::sub_mod_special`** -/
theorem subModSpecial_bridge (a b : List (BitVec 64)) (c : BitVec 64) (hab : a.length = b.length) :
    subModSpecial (nats a) (nats b) c.toNat = nats (Modular.Uint.sub_mod_special a.length a b c) := by
  have hs := usbb_bridge a b 0#64 hab
  have hl := sbb_length a b 0#64 hab
  have hw := wrappingSub_bridge (Chains.Uint.sbb a.length a b 0#64).1
    (Modular.Uint.from_word a.length ((Chains.Uint.sbb a.length a b 0#64).2 &&& c))
    (by rw [hl, from_word_length])
  rw [hl] at hw
  rw [sub_mod_special_eq, ← hw]
  unfold subModSpecial
  have e0 : (0#64).toNat = 0 := rfl
  rw [e0] at hs
  rw [hs, nats_length]
  dsimp only
  rw [← BitVec.toNat_and, fromWord_bridge]

/-! ## `Uint::neg_mod`, `neg_mod_special` -/

theorem neg_mod_loop_bridge (L : Nat) (z : BitVec 64) :
    ∀ (n i : Nat) (ret : List (BitVec 64)), i + n = L → ret.length = L →
      nats (Modular.Uint.neg_mod_loop1 L z n i ret) =
        nats (ret.take i) ++ bitandLimb (nats (ret.drop i)) z.toNat := by
  intro n
  induction n with
  | zero =>
    intro i ret hi hl
    rw [neg_mod_loop_zero, List.drop_of_length_le (by omega), List.take_of_length_le (by omega)]
    simp [nats, bitandLimb_nil]
  | succ n ih =>
    intro i ret hi hl
    have hi' : i < L := by omega
    rw [neg_mod_loop_succ L z n i ret hi', ih (i + 1) _ (by omega) (by simpa using hl),
      drop_eq_getD_cons ret i (by omega), take_set_succ ret i _ (by omega),
      List.drop_set_of_lt (by omega : i < i + 1)]
    simp only [nats, List.map_cons, bitandLimb_cons, List.map_append, List.map_nil, List.append_assoc,
      List.cons_append, List.nil_append, BitVec.toNat_and]

/-- **`Uint::neg_mod`**: `p - a` masked limb by limb with `is_nonzero(a)` -/
theorem negMod_bridge (a p : List (BitVec 64)) (hap : a.length = p.length) :
    negMod (nats a) (nats p) = nats (Modular.Uint.neg_mod a.length a p) := by
  have hs := usbb_bridge p a 0#64 hap.symm
  have hl := sbb_length p a 0#64 hap.symm
  rw [← hap] at hs hl
  have h := neg_mod_loop_bridge a.length (Chains.Uint.is_nonzero a.length a) a.length 0
    (Chains.Uint.sbb a.length p a 0#64).1 (by omega) hl
  rw [neg_mod_eq_loop, h]
  unfold negMod
  have e0 : (0#64).toNat = 0 := rfl
  rw [e0] at hs
  rw [hs, isNonzero_bridge]
  simp

/-- **`Uint::neg_mod_special`** -/
theorem negModSpecial_bridge (a : List (BitVec 64)) (c : BitVec 64) :
    negModSpecial (nats a) c.toNat = nats (Modular.Uint.neg_mod_special a.length a c) := by
  have h := subModSpecial_bridge (List.replicate a.length 0#64) a c (by simp)
  rw [List.length_replicate] at h
  rw [neg_mod_special_eq, ← h]
  unfold negModSpecial
  simp [uzero, nats]

end CB.GenModular
