/-
  CB.Lemmas.C05Wide — double-width shifts `overflowing_sh{l,r}_vartime_wide` by case split on the shift.
-/
import CB.Lemmas.C05Ladder
import CB.Lemmas.C05BitOps
namespace CB.Shift
open CB CB.Bits

theorem expect_some {α : Type} (v : α) : expect (v, WMAX) = some v := by simp [expect]
theorem expect_mk {α : Type} {o : α × Nat} (h : o.2 = WMAX) : expect o = some o.1 := by
  simp [expect, h]
theorem expect_none {α : Type} {o : α × Nat} (h : o.2 = 0) : expect o = none := by
  unfold expect; rw [h]; simp [WMAX_def]

theorem lt_sq {a b M : Nat} (ha : a < M) (hb : b < M) : a + M * b < M * M := by nlinarith

theorem bits_split {n s : Nat} (h : s ≤ 64 * n) : 2 ^ s * 2 ^ (64 * n - s) = B ^ n := by
  rw [B_pow_eq, ← Nat.pow_add]; congr 1; omega

/-- the arithmetic core of the `0 < s < BITS` case of the wide left shift (`P = 2^s`, `P*Q = 2^BITS`) -/
theorem wide_shl_arith {L H P Q : Nat} (hP : 0 < P) (hQ : 0 < Q) (hL : L < P * Q) :
    L * P % (P * Q) + P * Q * (L / Q + H * P % (P * Q)) = (L + P * Q * H) * P % (P * Q * (P * Q)) := by
  rw [Nat.mul_comm L P, Nat.mul_comm H P, Nat.mul_mod_mul_left, Nat.mul_mod_mul_left]
  have hLs : L = Q * (L / Q) + L % Q := (Nat.div_add_mod L Q).symm
  have hHs : H = Q * (H / Q) + H % Q := (Nat.div_add_mod H Q).symm
  have hlr : L % Q < Q := Nat.mod_lt _ hQ
  have hhr : H % Q < Q := Nat.mod_lt _ hQ
  have hlq : L / Q < P := by rw [Nat.div_lt_iff_lt_mul hQ]; exact hL
  generalize L / Q = lq at *
  generalize L % Q = lr at *
  generalize H / Q = hq at *
  generalize H % Q = hr at *
  subst hLs hHs
  have e : (Q * lq + lr + P * Q * (Q * hq + hr)) * P =
      (P * lr + P * Q * (lq + P * hr)) + P * Q * (P * Q) * hq := by ring
  have b1 : P * lr < P * Q := Nat.mul_lt_mul_of_pos_left hlr hP
  have b2 : lq + P * hr < P * Q := by nlinarith
  rw [e, Nat.add_mul_mod_self_left, Nat.mod_eq_of_lt (lt_sq b1 b2)]

/-- T05.3 (left, every `s < 2·BITS`: `BITS ≤ s`, `0 < s < BITS` and `s = 0`) -/
theorem shlVartimeWide_spec {lo hi : List Nat} (hlo : WF lo) (hhi : WF hi) (hl : hi.length = lo.length)
    {s : Nat} (hs : s < 2 * (64 * lo.length)) :
    ∃ rl rh, shlVartimeWide lo hi s = some ((rl, rh), WMAX) ∧
      val rl + B ^ lo.length * val rh = ((val lo + B ^ lo.length * val hi) * 2 ^ s) % (B ^ lo.length * B ^ lo.length) ∧
      WF rl ∧ WF rh ∧ rl.length = lo.length ∧ rh.length = lo.length := by
  unfold shlVartimeWide
  simp only [ge_iff_le, Nat.not_le.mpr hs, if_false]
  by_cases hge : 64 * lo.length ≤ s
  · simp only [hge, if_true]
    have hlt : s - 64 * lo.length < 64 * lo.length := by omega
    have ⟨h1, h2, h3, h4⟩ := overflowingShlVartime_spec hlo hlt
    rw [expect_mk h1]
    refine ⟨_, _, rfl, ?_, uzero_WF _, h4, uzero_length _, h3⟩
    rw [val_uzero, Nat.zero_add, h2]
    have e : 2 ^ s = B ^ lo.length * 2 ^ (s - 64 * lo.length) := by
      rw [B_pow_eq, ← Nat.pow_add]; congr 1; omega
    rw [e, ← Nat.mul_assoc, Nat.mul_comm _ (B ^ lo.length), Nat.mul_assoc, Nat.mul_mod_mul_left,
      Nat.add_mul, Nat.mul_assoc, Nat.add_mul_mod_self_left]
  · simp only [hge, if_false]
    have hlt : s < 64 * lo.length := Nat.not_le.mp hge
    have ⟨a1, a2, a3, a4⟩ := overflowingShlVartime_spec hlo hlt
    have ⟨b2, b3, b4⟩ := shrV_val hlo (64 * lo.length - s)
    have ⟨c1, c2, c3, c4⟩ := overflowingShlVartime_spec (s := s) hhi (by rw [hl]; exact hlt)
    rw [expect_mk a1, expect_mk c1, wrappingShrVartimeU_eq hlo]
    have ⟨ov, ow, ol⟩ := val_ubitor b4 c4 (by rw [b3, c3, hl])
    refine ⟨_, _, rfl, ?_, a4, ow, a3, by rw [ol, b3]⟩
    rw [ov, a2, b2, c2, hl]
    have hM := bits_split (Nat.le_of_lt hlt)
    have hlolt := val_lt hlo
    have hQpos : 0 < 2 ^ (64 * lo.length - s) := Nat.two_pow_pos _
    -- the two parts of the upper half occupy disjoint bits: OR is addition
    have hor : val lo / 2 ^ (64 * lo.length - s) ||| (val hi * 2 ^ s) % B ^ lo.length =
        val lo / 2 ^ (64 * lo.length - s) + (val hi * 2 ^ s) % B ^ lo.length := by
      have h1 : val lo / 2 ^ (64 * lo.length - s) < 2 ^ s := by
        rw [Nat.div_lt_iff_lt_mul hQpos, hM]; exact hlolt
      rw [← hM, Nat.mul_comm (val hi), Nat.mul_mod_mul_left, Nat.or_comm,
        ← Nat.two_pow_add_eq_or_of_lt h1, Nat.add_comm]
    rw [hor, ← hM]
    exact wide_shl_arith (Nat.two_pow_pos s) hQpos (by rw [hM]; exact hlolt)

theorem shlVartimeWide_overflow (lo hi : List Nat) {s : Nat} (h : 2 * (64 * lo.length) ≤ s) :
    shlVartimeWide lo hi s = some ((uzero lo.length, uzero lo.length), 0) := by
  unfold shlVartimeWide; simp [h]

/-- the arithmetic core of the `0 < s < BITS` case of the wide right shift -/
theorem wide_shr_arith {L H P Q : Nat} (hP : 0 < P) :
    L / P + H * Q % (P * Q) + P * Q * (H / P) = (L + P * Q * H) / P := by
  rw [Nat.mul_comm H Q, Nat.mul_comm P Q, Nat.mul_mod_mul_left]
  have hHs : H = P * (H / P) + H % P := (Nat.div_add_mod H P).symm
  generalize H / P = hq at *
  generalize H % P = hr at *
  subst hHs
  have e : L + Q * P * (P * hq + hr) = L + P * (Q * (P * hq + hr)) := by ring
  rw [e, Nat.add_mul_div_left _ _ hP]
  ring

/-- T05.3 (right, every `s < 2·BITS`) -/
theorem shrVartimeWide_spec {lo hi : List Nat} (hlo : WF lo) (hhi : WF hi) (hl : hi.length = lo.length)
    {s : Nat} (hs : s < 2 * (64 * lo.length)) :
    ∃ rl rh, shrVartimeWide lo hi s = some ((rl, rh), WMAX) ∧
      val rl + B ^ lo.length * val rh = (val lo + B ^ lo.length * val hi) / 2 ^ s ∧
      WF rl ∧ WF rh ∧ rl.length = lo.length ∧ rh.length = lo.length := by
  have hlolt := val_lt hlo
  unfold shrVartimeWide
  simp only [ge_iff_le, Nat.not_le.mpr hs, if_false]
  by_cases hge : 64 * lo.length ≤ s
  · simp only [hge, if_true]
    have hlt : s - 64 * hi.length < 64 * hi.length := by omega
    have ⟨h1, h2, h3, h4⟩ := overflowingShrVartime_spec hhi hlt
    rw [hl] at h1 h2 h3 h4
    rw [expect_mk h1]
    refine ⟨_, _, rfl, ?_, h4, uzero_WF _, h3, uzero_length _⟩
    rw [val_uzero, Nat.mul_zero, Nat.add_zero, h2]
    have e : 2 ^ s = B ^ lo.length * 2 ^ (s - 64 * lo.length) := by
      rw [B_pow_eq, ← Nat.pow_add]; congr 1; omega
    rw [e, ← Nat.div_div_eq_div_mul, Nat.add_mul_div_left _ _ (Bpow_pos _), Nat.div_eq_of_lt hlolt,
      Nat.zero_add]
  · simp only [hge, if_false]
    have hlt : s < 64 * lo.length := Nat.not_le.mp hge
    have ⟨a1, a2, a3, a4⟩ := overflowingShrVartime_spec (s := s) hhi (by rw [hl]; exact hlt)
    have ⟨b2, b3, b4⟩ := shlV_val hhi (64 * lo.length - s)
    have ⟨c1, c2, c3, c4⟩ := overflowingShrVartime_spec hlo hlt
    rw [expect_mk a1, expect_mk c1, wrappingShlVartimeU_eq hhi]
    have ⟨ov, ow, ol⟩ := val_ubitor c4 b4 (by rw [b3, c3, hl])
    refine ⟨_, _, rfl, ?_, ow, a4, by rw [ol, c3], by rw [a3, hl]⟩
    rw [ov, a2, b2, c2, hl]
    have hM := bits_split (Nat.le_of_lt hlt)
    have hPpos : 0 < 2 ^ s := Nat.two_pow_pos _
    have hor : val lo / 2 ^ s ||| (val hi * 2 ^ (64 * lo.length - s)) % B ^ lo.length =
        val lo / 2 ^ s + (val hi * 2 ^ (64 * lo.length - s)) % B ^ lo.length := by
      have h1 : val lo / 2 ^ s < 2 ^ (64 * lo.length - s) := by
        rw [Nat.div_lt_iff_lt_mul hPpos, Nat.mul_comm, hM]; exact hlolt
      rw [← hM, Nat.mul_comm (val hi), Nat.mul_comm (2 ^ s), Nat.mul_mod_mul_left, Nat.or_comm,
        ← Nat.two_pow_add_eq_or_of_lt h1, Nat.add_comm]
    rw [hor, ← hM]
    exact wide_shr_arith hPpos

theorem shrVartimeWide_overflow (lo hi : List Nat) {s : Nat} (h : 2 * (64 * lo.length) ≤ s) :
    shrVartimeWide lo hi s = some ((uzero lo.length, uzero lo.length), 0) := by
  unfold shrVartimeWide; simp [h]

end CB.Shift
