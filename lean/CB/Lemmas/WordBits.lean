/-
  CB.Lemmas.WordBits — the branch-free bit tricks of `src/const_choice.rs`, modelled as written
  on `Nat` words, are proved equal to their meaning by transport to `BitVec 64` and `bv_decide`.
  This is the only file using `bv_decide` (each call adds one `._native.bv_decide.ax_*` axiom).
-/
import CB.Lemmas.Limbs
import Std.Tactic.BVDecide
namespace CB

/-- word as bitvector -/
abbrev bv (x : Nat) : BitVec 64 := BitVec.ofNat 64 x

theorem bv_toNat {x : Nat} (h : x < B) : (bv x).toNat = x := by
  simp only [bv, BitVec.toNat_ofNat]; exact Nat.mod_eq_of_lt (by rw [← B_eq_pow]; exact h)

theorem toNat_lt_B (v : BitVec 64) : v.toNat < B := by
  rw [B_eq_pow]; exact v.isLt

/-! transport of the model's word operations -/
theorem wnot_bv (x : BitVec 64) : wnot x.toNat = (~~~x).toNat := by
  simp only [wnot, BitVec.toNat_not, WMAX_def]
  have := toNat_lt_B x; rw [Nat.mod_eq_of_lt this]
theorem wsub_bv (x y : BitVec 64) : wsub x.toNat y.toNat = (x - y).toNat := by
  have hx := toNat_lt_B x; have hy := toNat_lt_B y
  simp only [wsub, BitVec.toNat_sub, B_def] at *
  omega
theorem wneg_bv (x : BitVec 64) : wneg x.toNat = (-x).toNat := by
  have hx := toNat_lt_B x
  simp only [wneg, BitVec.toNat_neg, B_def] at *
  omega
theorem shr63_bv (x : BitVec 64) : x.toNat / HALF = (x >>> 63).toNat := by
  simp only [BitVec.toNat_ushiftRight, Nat.shiftRight_eq_div_pow, HALF_def]

theorem lt_bv (x y : BitVec 64) :
    (((~~~x) &&& y) ||| (((~~~x) ||| y) &&& (x - y))) >>> 63 = if x < y then 1#64 else 0#64 := by
  bv_decide
theorem le_bv (x y : BitVec 64) :
    (((~~~x) ||| y) &&& ((x ^^^ y) ||| ~~~(y - x))) >>> 63 = if x ≤ y then 1#64 else 0#64 := by
  bv_decide
theorem nonzero_bv (x : BitVec 64) :
    (x ||| (-x)) >>> 63 = if x = 0#64 then 0#64 else 1#64 := by
  bv_decide
theorem select_bv (a b c : BitVec 64) (hc : c = 0#64 ∨ c = ~~~0#64) :
    a ^^^ (c &&& (a ^^^ b)) = if c = 0#64 then a else b := by
  rcases hc with h | h <;> subst h <;> bv_decide

/-- mask: `0` or `WMAX` -/
def mask (p : Bool) : Nat := if p then WMAX else 0

theorem fromWordLsb_01 (b : Bool) : fromWordLsb (if b then 1 else 0) = mask b := by
  cases b <;> decide

theorem fromWordLt_spec {x y : Nat} (hx : x < B) (hy : y < B) :
    fromWordLt x y = mask (decide (x < y)) := by
  have e : fromWordLt x y =
      fromWordLsb (((((~~~bv x) &&& bv y) ||| (((~~~bv x) ||| bv y) &&& (bv x - bv y))) >>> 63).toNat) := by
    simp only [fromWordLt, ← shr63_bv, BitVec.toNat_or, BitVec.toNat_and, ← wnot_bv, ← wsub_bv,
      bv_toNat hx, bv_toNat hy]
  rw [e, lt_bv]
  have : (bv x < bv y) ↔ x < y := by
    rw [BitVec.lt_def, bv_toNat hx, bv_toNat hy]
  by_cases h : x < y
  · simp [this.mpr h, h, mask]; decide
  · simp [mt this.mp h, h, mask]; decide

theorem fromWordLe_spec {x y : Nat} (hx : x < B) (hy : y < B) :
    fromWordLe x y = mask (decide (x ≤ y)) := by
  have e : fromWordLe x y =
      fromWordLsb (((((~~~bv x) ||| bv y) &&& ((bv x ^^^ bv y) ||| ~~~(bv y - bv x))) >>> 63).toNat) := by
    simp only [fromWordLe, ← shr63_bv, BitVec.toNat_or, BitVec.toNat_and, BitVec.toNat_xor, ← wnot_bv,
      ← wsub_bv, bv_toNat hx, bv_toNat hy]
  rw [e, le_bv]
  have : (bv x ≤ bv y) ↔ x ≤ y := by
    rw [BitVec.le_def, bv_toNat hx, bv_toNat hy]
  by_cases h : x ≤ y
  · simp [this.mpr h, h, mask]; decide
  · simp [mt this.mp h, h, mask]; decide

theorem fromWordNonzero_spec {x : Nat} (hx : x < B) :
    fromWordNonzero x = mask (decide (x ≠ 0)) := by
  have e : fromWordNonzero x = fromWordLsb (((bv x ||| (-bv x)) >>> 63).toNat) := by
    simp only [fromWordNonzero, ← shr63_bv, BitVec.toNat_or, ← wneg_bv, bv_toNat hx]
  rw [e, nonzero_bv]
  have : bv x = 0#64 ↔ x = 0 := by
    constructor
    · intro h; have := congrArg BitVec.toNat h; rw [bv_toNat hx] at this; simpa using this
    · intro h; subst h; rfl
  by_cases h : x = 0
  · simp [h, mask]; decide
  · simp [mt this.mp h, h, mask]; decide

theorem choiceNot_mask (p : Bool) : choiceNot (mask p) = mask (!p) := by
  cases p <;> decide

theorem xor_lt_B {x y : Nat} (hx : x < B) (hy : y < B) : x ^^^ y < B := by
  rw [B_eq_pow] at *; exact Nat.xor_lt_two_pow hx hy
theorem or_lt_B {x y : Nat} (hx : x < B) (hy : y < B) : x ||| y < B := by
  rw [B_eq_pow] at *; exact Nat.or_lt_two_pow hx hy
theorem and_lt_B {x y : Nat} (hx : x < B) : x &&& y < B :=
  Nat.lt_of_le_of_lt Nat.and_le_left hx

theorem fromWordEq_spec {x y : Nat} (hx : x < B) (hy : y < B) :
    fromWordEq x y = mask (decide (x = y)) := by
  simp only [fromWordEq, fromWordNonzero_spec (xor_lt_B hx hy), choiceNot_mask]
  congr 1
  by_cases h : x = y
  · subst h; simp
  · have : x ^^^ y ≠ 0 := by
      intro h0
      apply h
      have : x ^^^ (x ^^^ y) = x := by rw [h0, Nat.xor_zero]
      rw [← Nat.xor_assoc, Nat.xor_self, Nat.zero_xor] at this
      exact this.symm
    simp [h, this]

theorem selectWord_spec {a b : Nat} (p : Bool) (ha : a < B) (hb : b < B) :
    selectWord a b (mask p) = if p then b else a := by
  have e : selectWord a b (mask p) = (bv a ^^^ (bv (mask p) &&& (bv a ^^^ bv b))).toNat := by
    have hm : mask p < B := by cases p <;> decide
    simp only [selectWord, BitVec.toNat_xor, BitVec.toNat_and, bv_toNat ha, bv_toNat hb, bv_toNat hm]
  cases p
  all_goals rw [e, select_bv _ _ _ (by decide)]
  · have : bv (mask false) = 0#64 := by decide
    simp [this, bv_toNat ha]
  · have : bv (mask true) ≠ 0#64 := by decide
    simp [this, bv_toNat hb]

end CB
