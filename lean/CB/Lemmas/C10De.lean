/-
  CB.Lemmas.C10De — `de`: the update of the Bézout coefficients modulo `M` on unsaturated limbs is
  an exact integer identity `2^62·d' = t00·d + t01·e + md·M` and keeps `d', e' ∈ (-2M, M)`.
-/
import CB.Lemmas.C10Unsat
namespace CB.SafeGcd

/-- `cd` / `ce`: low 62 bits of the row applied to the low limbs -/
def deC (a b : Int) (dl el : Nat) : Nat :=
  ((toU64 a * dl) % U64 + (toU64 b * el) % U64) % U64 &&& MASK

/-- `md` / `me` after the correction -/
def deM (inverse a b dn en : Int) (dl el : Nat) : Int :=
  (a * dn + b * en) -
    ((((toU64 inverse * deC a b dl el) % U64 + toU64 (a * dn + b * en)) % U64 &&& MASK : Nat) : Int)

theorem de_unfold (modulus : List Nat) (inverse : Int) (t : Mat) (d e : List Nat) :
    de modulus inverse t d e =
      (ushr (uadd (uadd (umul d t.t00) (umul e t.t01))
          (umul modulus (deM inverse t.t00 t.t01 (if uisNeg d then 1 else 0) (if uisNeg e then 1 else 0)
            (ulowest d) (ulowest e)))),
       ushr (uadd (uadd (umul d t.t10) (umul e t.t11))
          (umul modulus (deM inverse t.t10 t.t11 (if uisNeg d then 1 else 0) (if uisNeg e then 1 else 0)
            (ulowest d) (ulowest e))))) := rfl

theorem Q_dvd_U64 : Q ∣ U64 := by
  rw [U64_def, Q_def]; exact ⟨4, by norm_num⟩

theorem Qi_dvd_U64i : ((Q : Nat) : Int) ∣ 2 ^ 64 := ⟨4, by rw [Q_def]; norm_num⟩

theorem toU64_modQ (x : Int) : ((toU64 x : Nat) : Int) ≡ x [ZMOD (Q : Int)] :=
  (toU64_modEq x).of_dvd Qi_dvd_U64i

/-- the low limb represents the value modulo `2^62` -/
theorem ulowest_modEq (d : List Nat) (hd : WF62 d) (hne : d ≠ []) :
    ((ulowest d : Nat) : Int) ≡ uval d [ZMOD (Q : Int)] := by
  obtain ⟨_, _, h3⟩ := uval_range d hd hne
  have hdvd : ((Q : Nat) : Int) ∣ ((Q ^ d.length : Nat) : Int) := by
    have : Q ∣ Q ^ d.length := dvd_pow_self Q (by
      intro h0; exact hne (List.length_eq_zero_iff.mp h0))
    exact_mod_cast this
  have h4 := h3.of_dvd hdvd
  refine Int.ModEq.trans ?_ h4.symm
  obtain ⟨x, xs, hx⟩ := List.exists_cons_of_ne_nil hne
  have hlow : ulowest d = x := by rw [hx]; rfl
  rw [hlow, hx, uvalN_cons]
  push_cast
  exact Int.modEq_iff_dvd.mpr ⟨uvalN xs, by ring⟩

theorem uisNeg_iff_neg (d : List Nat) (hd : WF62 d) (hne : d ≠ []) : uisNeg d = true ↔ uval d < 0 := by
  obtain ⟨a, t, rfl⟩ := exists_append_of_ne_nil d hne
  obtain ⟨ha, _⟩ := WF62_append.mp hd
  have hiff := uisNeg_iff a t ha
  have hlt := uvalN_lt hd
  rw [uval_eq]
  rw [List.length_append, List.length_singleton] at *
  generalize uvalN (a ++ [t]) = V at *
  generalize Q ^ (a.length + 1) = P at *
  by_cases hn : uisNeg (a ++ [t]) = true
  · simp only [hn, if_true, true_iff]; omega
  · simp only [hn, if_false, Bool.false_eq_true, false_iff]; omega

theorem deC_modEq (a b : Int) (dl el : Nat) :
    ((deC a b dl el : Nat) : Int) ≡ a * dl + b * el [ZMOD (Q : Int)] ∧ deC a b dl el < Q := by
  unfold deC
  rw [and_MASK]
  refine ⟨?_, Nat.mod_lt _ Q_pos⟩
  rw [Nat.mod_mod_of_dvd _ Q_dvd_U64, Nat.add_mod, Nat.mod_mod_of_dvd _ Q_dvd_U64,
    Nat.mod_mod_of_dvd _ Q_dvd_U64, ← Nat.add_mod, Int.natCast_mod]
  refine (Int.mod_modEq _ _).trans ?_
  push_cast
  exact Int.ModEq.add (Int.ModEq.mul_right _ (toU64_modQ a)) (Int.ModEq.mul_right _ (toU64_modQ b))

theorem Qi_eq : ((Q : Nat) : Int) = 2 ^ 62 := by rw [Q_def]; norm_num

theorem deM_spec (inverse a b dn en : Int) (dl el : Nat) :
    ∃ r : Nat, r < Q ∧ deM inverse a b dn en dl el = (a * dn + b * en) - (r : Int) ∧
      ((r : Nat) : Int) ≡ inverse * (deC a b dl el : Nat) + (a * dn + b * en) [ZMOD (Q : Int)] := by
  refine ⟨((toU64 inverse * deC a b dl el) % U64 + toU64 (a * dn + b * en)) % U64 &&& MASK, ?_, rfl, ?_⟩
  · rw [and_MASK]; exact Nat.mod_lt _ Q_pos
  · rw [and_MASK, Nat.mod_mod_of_dvd _ Q_dvd_U64, Nat.add_mod, Nat.mod_mod_of_dvd _ Q_dvd_U64,
      ← Nat.add_mod, Int.natCast_mod]
    refine (Int.mod_modEq _ _).trans ?_
    push_cast
    exact Int.ModEq.add (Int.ModEq.mul_right _ (toU64_modQ inverse)) (toU64_modQ _)

/-- the arithmetic heart of `de` (pure `Int`): divisibility by `2^62`, range, size of `md` -/
theorem de_arith {a b D E M inverse dn en c r : Int}
    (hab : |a| + |b| ≤ 2 ^ 62) (hM : 0 < M)
    (hD1 : -(2 * M) < D) (hD2 : D < M) (hE1 : -(2 * M) < E) (hE2 : E < M)
    (hdn : (D < 0 → dn = 1) ∧ (0 ≤ D → dn = 0)) (hen : (E < 0 → en = 1) ∧ (0 ≤ E → en = 0))
    (hcX : c ≡ a * D + b * E [ZMOD 2 ^ 62])
    (hr0 : 0 ≤ r) (hrQ : r ≤ 2 ^ 62 - 1)
    (hrmod : r ≡ inverse * c + (a * dn + b * en) [ZMOD 2 ^ 62])
    (hinv : inverse * M ≡ 1 [ZMOD 2 ^ 62]) :
    (2 : Int) ^ 62 ∣ a * D + b * E + ((a * dn + b * en) - r) * M ∧
    -(2 ^ 63 * M) < a * D + b * E + ((a * dn + b * en) - r) * M ∧
    a * D + b * E + ((a * dn + b * en) - r) * M < 2 ^ 62 * M ∧
    -(2 ^ 63) ≤ (a * dn + b * en) - r ∧ (a * dn + b * en) - r ≤ 2 ^ 63 := by
  generalize hm0 : a * dn + b * en = m0 at *
  have hdvd : (2 : Int) ^ 62 ∣ a * D + b * E + (m0 - r) * M := by
    apply Int.modEq_zero_iff_dvd.mp
    have h1 : m0 - r ≡ -(inverse * c) [ZMOD 2 ^ 62] := by
      have := Int.ModEq.sub (Int.ModEq.refl m0) hrmod
      refine this.trans ?_
      have e : m0 - (inverse * c + m0) = -(inverse * c) := by ring
      rw [e]
    have h2 : (m0 - r) * M ≡ -c [ZMOD 2 ^ 62] := by
      have := Int.ModEq.mul_right M h1
      refine this.trans ?_
      have e : -(inverse * c) * M = -(c * (inverse * M)) := by ring
      rw [e]
      have := Int.ModEq.mul_left c hinv
      rw [mul_one] at this
      exact Int.ModEq.neg this
    have := Int.ModEq.add hcX.symm h2
    have e : c + -c = 0 := by ring
    rw [e] at this
    exact this
  have hX2 : a * D + b * E + (m0 - r) * M = a * (D + dn * M) + b * (E + en * M) - r * M := by
    rw [← hm0]; ring
  have hD' : |D + dn * M| ≤ M - 1 := by
    rw [abs_le]
    rcases lt_or_ge D 0 with h | h
    · rw [hdn.1 h]; constructor <;> linarith
    · rw [hdn.2 h]; constructor <;> linarith
  have hE' : |E + en * M| ≤ M - 1 := by
    rw [abs_le]
    rcases lt_or_ge E 0 with h | h
    · rw [hen.1 h]; constructor <;> linarith
    · rw [hen.2 h]; constructor <;> linarith
  have hlin : |a * (D + dn * M) + b * (E + en * M)| ≤ 2 ^ 62 * (M - 1) := by
    calc |a * (D + dn * M) + b * (E + en * M)|
        ≤ |a * (D + dn * M)| + |b * (E + en * M)| := abs_add_le _ _
      _ = |a| * |D + dn * M| + |b| * |E + en * M| := by rw [abs_mul, abs_mul]
      _ ≤ |a| * (M - 1) + |b| * (M - 1) :=
        add_le_add (mul_le_mul_of_nonneg_left hD' (abs_nonneg _)) (mul_le_mul_of_nonneg_left hE' (abs_nonneg _))
      _ = (|a| + |b|) * (M - 1) := by ring
      _ ≤ 2 ^ 62 * (M - 1) := mul_le_mul_of_nonneg_right hab (by linarith)
  have hlin' := abs_le.mp hlin
  have hrM : r * M ≤ (2 ^ 62 - 1) * M := mul_le_mul_of_nonneg_right hrQ (le_of_lt hM)
  have hrM0 : 0 ≤ r * M := mul_nonneg hr0 (le_of_lt hM)
  have hm0abs : |m0| ≤ 2 ^ 62 := by
    have hdn01 : |dn| ≤ 1 := by
      rcases lt_or_ge D 0 with h | h
      · rw [hdn.1 h]; simp
      · rw [hdn.2 h]; simp
    have hen01 : |en| ≤ 1 := by
      rcases lt_or_ge E 0 with h | h
      · rw [hen.1 h]; simp
      · rw [hen.2 h]; simp
    rw [← hm0]
    calc |a * dn + b * en| ≤ |a * dn| + |b * en| := abs_add_le _ _
      _ = |a| * |dn| + |b| * |en| := by rw [abs_mul, abs_mul]
      _ ≤ |a| * 1 + |b| * 1 :=
        add_le_add (mul_le_mul_of_nonneg_left hdn01 (abs_nonneg _)) (mul_le_mul_of_nonneg_left hen01 (abs_nonneg _))
      _ = |a| + |b| := by ring
      _ ≤ 2 ^ 62 := hab
  have hm0' := abs_le.mp hm0abs
  refine ⟨hdvd, ?_, ?_, by linarith [hm0'.1], by linarith [hm0'.2]⟩
  · rw [hX2]
    have : (2 : Int) ^ 63 * M = 2 ^ 62 * (M - 1) + (2 ^ 62 - 1) * M + (M + 2 ^ 62) := by ring
    linarith [hlin'.1]
  · rw [hX2]
    have : (2 : Int) ^ 62 * M = 2 ^ 62 * (M - 1) + 2 ^ 62 := by ring
    linarith [hlin'.2]

/-- one row of `de` -/
theorem de_row (modulus d e : List Nat) (inverse a b : Int)
    (hd : WF62 d) (he : WF62 e) (hm : WF62 modulus)
    (hl : d.length = e.length) (hl2 : d.length = modulus.length) (hlen : 2 ≤ d.length)
    (hab : |a| + |b| ≤ 2 ^ 62)
    (hM : 0 < uval modulus) (hD1 : -(2 * uval modulus) < uval d) (hD2 : uval d < uval modulus)
    (hE1 : -(2 * uval modulus) < uval e) (hE2 : uval e < uval modulus)
    (hcap : 2 ^ 64 * uval modulus ≤ ((Q ^ d.length : Nat) : Int))
    (hinv : inverse * uval modulus ≡ 1 [ZMOD 2 ^ 62])
    (mm : Int)
    (hmm : mm = deM inverse a b (if uisNeg d then 1 else 0) (if uisNeg e then 1 else 0) (ulowest d) (ulowest e)) :
    (ushr (uadd (uadd (umul d a) (umul e b)) (umul modulus mm))).length = d.length ∧
    WF62 (ushr (uadd (uadd (umul d a) (umul e b)) (umul modulus mm))) ∧
    2 ^ 62 * uval (ushr (uadd (uadd (umul d a) (umul e b)) (umul modulus mm)))
      = a * uval d + b * uval e + mm * uval modulus ∧
    -(2 * uval modulus) < uval (ushr (uadd (uadd (umul d a) (umul e b)) (umul modulus mm))) ∧
    uval (ushr (uadd (uadd (umul d a) (umul e b)) (umul modulus mm))) < uval modulus := by
  have hne : d ≠ [] := by intro h0; rw [h0] at hlen; simp at hlen
  have hnee : e ≠ [] := by intro h0; rw [h0] at hl; exact hne (List.length_eq_zero_iff.mp hl)
  have hdneg := uisNeg_iff_neg d hd hne
  have heneg := uisNeg_iff_neg e he hnee
  have hdl := ulowest_modEq d hd hne
  have hel := ulowest_modEq e he hnee
  rw [Qi_eq] at hdl hel
  obtain ⟨hc1, hc2⟩ := deC_modEq a b (ulowest d) (ulowest e)
  rw [Qi_eq] at hc1
  obtain ⟨r, hrlt, hmm2, hrmod⟩ := deM_spec inverse a b (if uisNeg d then 1 else 0)
    (if uisNeg e then 1 else 0) (ulowest d) (ulowest e)
  rw [Qi_eq] at hrmod
  rw [← hmm] at hmm2
  generalize hdnv : (if uisNeg d then (1 : Int) else 0) = dn at *
  generalize henv : (if uisNeg e then (1 : Int) else 0) = en at *
  have hdn' : (uval d < 0 → dn = 1) ∧ (0 ≤ uval d → dn = 0) := by
    constructor
    · intro h; rw [← hdnv, if_pos (hdneg.mpr h)]
    · intro h; rw [← hdnv, if_neg (fun hc => by have := hdneg.mp hc; omega)]
  have hen' : (uval e < 0 → en = 1) ∧ (0 ≤ uval e → en = 0) := by
    constructor
    · intro h; rw [← henv, if_pos (heneg.mpr h)]
    · intro h; rw [← henv, if_neg (fun hc => by have := heneg.mp hc; omega)]
  generalize deC a b (ulowest d) (ulowest e) = c at *
  have hcX : ((c : Nat) : Int) ≡ a * uval d + b * uval e [ZMOD 2 ^ 62] :=
    hc1.trans (Int.ModEq.add (Int.ModEq.mul_left _ hdl) (Int.ModEq.mul_left _ hel))
  have hr0 : (0 : Int) ≤ (r : Nat) := Int.natCast_nonneg r
  have hrQ : ((r : Nat) : Int) ≤ 2 ^ 62 - 1 := by
    have : r ≤ Q - 1 := by omega
    have h2 : ((r : Nat) : Int) ≤ ((Q - 1 : Nat) : Int) := by exact_mod_cast this
    rw [Q_def] at h2; norm_num at h2; linarith
  obtain ⟨k1, k2, k3, k4, k5⟩ := de_arith hab hM hD1 hD2 hE1 hE2 hdn' hen' hcX hr0 hrQ hrmod hinv
  rw [← hmm2] at k1 k2 k3 k4 k5
  have ea := abs_le.mp (le_trans (le_add_of_nonneg_right (abs_nonneg b)) hab)
  have eb := abs_le.mp (le_trans (le_add_of_nonneg_left (abs_nonneg a)) hab)
  obtain ⟨p1, p2, p3⟩ := lincomb3 d e modulus a b mm hd he hm hl hl2 hne
    (by linarith [ea.1]) (by linarith [ea.2]) (by linarith [eb.1]) (by linarith [eb.2]) k4 k5
  generalize uval d = D at *
  generalize uval e = E at *
  generalize uval modulus = M at *
  generalize hXv : a * D + b * E + mm * M = X at *
  have p3' : ((uvalN (uadd (uadd (umul d a) (umul e b)) (umul modulus mm)) : Nat) : Int)
      ≡ X [ZMOD ((Q ^ d.length : Nat) : Int)] := by
    have e : D * a + E * b + M * mm = X := by rw [← hXv]; ring
    rw [e] at p3; exact p3
  generalize uadd (uadd (umul d a) (umul e b)) (umul modulus mm) = s at *
  generalize hP : ((Q ^ d.length : Nat) : Int) = P at *
  obtain ⟨a1, a2, a3⟩ := shr_readback s p2 (by rw [p1]; exact hlen) X (by rw [p1, hP]; exact p3')
    (by rw [p1, hP]; linarith) (by rw [p1, hP]; linarith)
  obtain ⟨k, hk⟩ := k1
  have hdivk : X / ((Q : Nat) : Int) = k := by
    rw [Qi_eq, hk]; exact Int.mul_ediv_cancel_left _ (by norm_num)
  rw [hdivk] at a3
  refine ⟨by rw [← p1]; exact a1, a2, ?_, ?_, ?_⟩
  · rw [a3, hk]
  · rw [a3]; rw [hk] at k2; linarith
  · rw [a3]; rw [hk] at k3; linarith

/-- T10.4(d) `de`: exact integer identities and the range invariant `(-2M, M)` -/
theorem de_spec (modulus d e : List Nat) (inverse : Int) (t : Mat)
    (hd : WF62 d) (he : WF62 e) (hm : WF62 modulus)
    (hl : d.length = e.length) (hl2 : d.length = modulus.length) (hlen : 2 ≤ d.length)
    (hb0 : |t.t00| + |t.t01| ≤ 2 ^ 62) (hb1 : |t.t10| + |t.t11| ≤ 2 ^ 62)
    (hM : 0 < uval modulus) (hD1 : -(2 * uval modulus) < uval d) (hD2 : uval d < uval modulus)
    (hE1 : -(2 * uval modulus) < uval e) (hE2 : uval e < uval modulus)
    (hcap : 2 ^ 64 * uval modulus ≤ ((Q ^ d.length : Nat) : Int))
    (hinv : inverse * uval modulus ≡ 1 [ZMOD 2 ^ 62]) :
    ∃ md me : Int,
      (de modulus inverse t d e).1.length = d.length ∧ WF62 (de modulus inverse t d e).1 ∧
      (de modulus inverse t d e).2.length = d.length ∧ WF62 (de modulus inverse t d e).2 ∧
      2 ^ 62 * uval (de modulus inverse t d e).1 = t.t00 * uval d + t.t01 * uval e + md * uval modulus ∧
      2 ^ 62 * uval (de modulus inverse t d e).2 = t.t10 * uval d + t.t11 * uval e + me * uval modulus ∧
      -(2 * uval modulus) < uval (de modulus inverse t d e).1 ∧ uval (de modulus inverse t d e).1 < uval modulus ∧
      -(2 * uval modulus) < uval (de modulus inverse t d e).2 ∧ uval (de modulus inverse t d e).2 < uval modulus := by
  rw [de_unfold]
  obtain ⟨a1, a2, a3, a4, a5⟩ := de_row modulus d e inverse t.t00 t.t01 hd he hm hl hl2 hlen hb0 hM hD1 hD2
    hE1 hE2 hcap hinv _ rfl
  obtain ⟨b1, b2, b3, b4, b5⟩ := de_row modulus d e inverse t.t10 t.t11 hd he hm hl hl2 hlen hb1 hM hD1 hD2
    hE1 hE2 hcap hinv _ rfl
  exact ⟨_, _, a1, a2, b1, b2, a3, b3, a4, a5, b4, b5⟩

end CB.SafeGcd
