/-
  CB.Lemmas.C20Newton — arithmetic of the integer Newton iteration for square roots
  (`newton v x = ⌊(x + ⌊v / x⌋) / 2⌋`): step lemmas, quadratic convergence, hitting time.
-/
import CB.Model.Sqrt
import CB.Lemmas.Limbs
import Mathlib.Tactic.Linarith
import Mathlib.Tactic.Ring
import Mathlib.Tactic.Positivity
namespace CB.Sqrt

theorem sqrt_sq_le (v : Nat) : Nat.sqrt v * Nat.sqrt v ≤ v := Nat.sqrt_le v
theorem lt_sqrt_succ_sq (v : Nat) : v < (Nat.sqrt v + 1) * (Nat.sqrt v + 1) := Nat.lt_succ_sqrt v

/-- `⌊√v⌋` is the unique `s` with `s² ≤ v < (s+1)²`. -/
theorem sqrt_unique {v s : Nat} (h1 : s * s ≤ v) (h2 : v < (s + 1) * (s + 1)) : s = Nat.sqrt v := by
  have a := sqrt_sq_le v
  have b := lt_sqrt_succ_sq v
  rcases Nat.lt_trichotomy s (Nat.sqrt v) with h | h | h
  · exfalso
    have : (s + 1) * (s + 1) ≤ Nat.sqrt v * Nat.sqrt v := Nat.mul_le_mul h h
    omega
  · exact h
  · exfalso
    have : (Nat.sqrt v + 1) * (Nat.sqrt v + 1) ≤ s * s := Nat.mul_le_mul h h
    omega

theorem le_sqrt_iff {v m : Nat} : m ≤ Nat.sqrt v ↔ m * m ≤ v := by
  constructor
  · intro h
    exact Nat.le_trans (Nat.mul_le_mul h h) (sqrt_sq_le v)
  · intro h
    by_contra hc
    have : (Nat.sqrt v + 1) * (Nat.sqrt v + 1) ≤ m * m := Nat.mul_le_mul (by omega) (by omega)
    have := lt_sqrt_succ_sq v
    omega

theorem sqrt_lt_iff {v m : Nat} : Nat.sqrt v < m ↔ v < m * m := by
  rw [← Nat.not_le, ← Nat.not_le, le_sqrt_iff]

theorem four_mul_le_add_sq (a b : Nat) : 4 * (a * b) ≤ (a + b) * (a + b) := by
  have h : (4 * ((a:ℤ) * b)) ≤ ((a:ℤ) + b) * (a + b) := by nlinarith [sq_nonneg ((a:ℤ) - b)]
  exact_mod_cast h

/-- T20.1a every Newton step from a positive point lands at or above `⌊√v⌋`. -/
theorem sqrt_le_newton {v x : Nat} (hx : 0 < x) : Nat.sqrt v ≤ newton v x := by
  unfold newton
  have hs : Nat.sqrt v * Nat.sqrt v ≤ v := sqrt_sq_le v
  have hq : v < x * (v / x + 1) := Nat.lt_mul_div_succ v hx
  generalize Nat.sqrt v = s at *
  generalize v / x = q at *
  rw [Nat.le_div_iff_mul_le (by decide)]
  by_contra hc
  have h1 : x + q + 1 ≤ 2 * s := by omega
  have h2 : (x + q + 1) * (x + q + 1) ≤ (2 * s) * (2 * s) := Nat.mul_le_mul h1 h1
  have h3 := four_mul_le_add_sq x (q + 1)
  have h4 : (2 * s) * (2 * s) = 4 * (s * s) := by ring
  have h5 : x + (q + 1) = x + q + 1 := by ring
  rw [h5] at h3
  generalize (x + q + 1) * (x + q + 1) = P at *
  generalize x * (q + 1) = Q at *
  generalize s * s = S at *
  omega

/-- T20.1b above `⌊√v⌋` the step strictly decreases. -/
theorem newton_lt {v x : Nat} (h : Nat.sqrt v < x) : newton v x < x := by
  unfold newton
  have hx : 0 < x := by omega
  have h1 : v < x * x := sqrt_lt_iff.mp h
  have h2 : v / x < x := (Nat.div_lt_iff_lt_mul hx).mpr h1
  omega

/-- T20.1c at or below `⌊√v⌋` the step does not decrease. -/
theorem le_newton {v x : Nat} (hx : 0 < x) (h : x ≤ Nat.sqrt v) : x ≤ newton v x := by
  unfold newton
  have h1 : x * x ≤ v := le_sqrt_iff.mp h
  have h2 : x ≤ v / x := (Nat.le_div_iff_mul_le hx).mpr h1
  omega

/-- from `s = ⌊√v⌋ > 0` the step goes to `s` or `s + 1`. -/
theorem newton_sqrt_le {v : Nat} (hs : 0 < Nat.sqrt v) : newton v (Nat.sqrt v) ≤ Nat.sqrt v + 1 := by
  unfold newton
  have h1 := lt_sqrt_succ_sq v
  generalize Nat.sqrt v = s at *
  have h2 : v / s < s + 3 := by
    rw [Nat.div_lt_iff_lt_mul hs]
    have : (s + 1) * (s + 1) ≤ (s + 3) * s := by nlinarith
    omega
  omega

/-- from `s + 1` the step goes to `s`. -/
theorem newton_succ_sqrt (v : Nat) : newton v (Nat.sqrt v + 1) = Nat.sqrt v := by
  have h1 : newton v (Nat.sqrt v + 1) < Nat.sqrt v + 1 := newton_lt (by omega)
  have h2 : Nat.sqrt v ≤ newton v (Nat.sqrt v + 1) := sqrt_le_newton (by omega)
  omega

/-! ### quadratic convergence -/

/-- `(2·x·y)² ≤ (x² + v)²` for the Newton successor `y` of `x`. -/
theorem newton_sq_bound {v x : Nat} :
    4 * (x * x) * (newton v x * newton v x) ≤ (x * x + v) * (x * x + v) := by
  have h1 : 2 * newton v x ≤ x + v / x := by unfold newton; omega
  have h2 : x * (v / x) ≤ v := Nat.mul_div_le v x
  have h3 : 2 * x * newton v x ≤ x * x + v := by
    calc 2 * x * newton v x = x * (2 * newton v x) := by ring
      _ ≤ x * (x + v / x) := Nat.mul_le_mul_left _ h1
      _ = x * x + x * (v / x) := by ring
      _ ≤ x * x + v := by omega
  calc 4 * (x * x) * (newton v x * newton v x) = (2 * x * newton v x) * (2 * x * newton v x) := by ring
    _ ≤ (x * x + v) * (x * x + v) := Nat.mul_le_mul h3 h3

/-- the error recurrence: with `x² = v + D` and `newton v x ² = v + D'`, `4·x²·D' ≤ D²`. -/
theorem newton_err {v x D D' : Nat} (hD : x * x = v + D) (hD' : newton v x * newton v x = v + D') :
    4 * (v + D) * D' ≤ D * D := by
  have h := @newton_sq_bound v x
  rw [hD, hD'] at h
  nlinarith

theorem newtonIter_succ (v x0 k : Nat) : newtonIter v x0 (k + 1) = newton v (newtonIter v x0 k) := rfl
theorem newtonIter_zero (v x0 : Nat) : newtonIter v x0 0 = x0 := rfl

theorem sqrt_pos_of_pos {v : Nat} (hv : 0 < v) : 0 < Nat.sqrt v := by
  have : 1 ≤ Nat.sqrt v := le_sqrt_iff.mpr (by omega)
  omega

/-- all iterates from a start above `⌊√v⌋` stay at or above `⌊√v⌋` (and are therefore positive). -/
theorem newtonIter_ge {v x0 : Nat} (hv : 0 < v) (h0 : Nat.sqrt v < x0) :
    ∀ k, Nat.sqrt v ≤ newtonIter v x0 k := by
  intro k
  induction k with
  | zero => exact Nat.le_of_lt h0
  | succ k ih =>
    rw [newtonIter_succ]
    exact sqrt_le_newton (Nat.lt_of_lt_of_le (sqrt_pos_of_pos hv) ih)

/-- iterates never exceed the start. -/
theorem newtonIter_le_start {v x0 : Nat} (hv : 0 < v) (h0 : Nat.sqrt v < x0) :
    ∀ k, newtonIter v x0 k ≤ x0 := by
  intro k
  induction k with
  | zero => exact Nat.le_refl _
  | succ k ih =>
    rw [newtonIter_succ]
    have hge := newtonIter_ge hv h0 k
    rcases Nat.lt_or_ge (Nat.sqrt v) (newtonIter v x0 k) with h | h
    · have := newton_lt h; omega
    · have e : newtonIter v x0 k = Nat.sqrt v := by omega
      rw [e]
      have := newton_sqrt_le (sqrt_pos_of_pos hv); omega

/-- quadratic convergence: until `⌊√v⌋` is hit, the excess `D_k = x_k² - v` satisfies
    `D_k · 2^(2^k) ≤ 4·v` (i.e. `D_k / 4v ≤ 2^-(2^k)`), provided `v < x0² ≤ 4·v`. -/
theorem newton_quadratic {v x0 : Nat} (hv : 0 < v) (h0 : v < x0 * x0) (h0' : x0 * x0 ≤ 4 * v) :
    ∀ k, 1 ≤ k → (∃ j, j ≤ k ∧ newtonIter v x0 j = Nat.sqrt v) ∨
      (∃ D, newtonIter v x0 k * newtonIter v x0 k = v + D ∧ 0 < D ∧ D * 2 ^ (2 ^ k) ≤ 4 * v) := by
  have hs0 : Nat.sqrt v < x0 := sqrt_lt_iff.mpr h0
  have hge := newtonIter_ge hv hs0
  -- an iterate that is not the root has a positive excess
  have excess : ∀ k, newtonIter v x0 k ≠ Nat.sqrt v →
      ∃ D, newtonIter v x0 k * newtonIter v x0 k = v + D ∧ 0 < D := by
    intro k hne
    have h1 : Nat.sqrt v < newtonIter v x0 k := by have := hge k; omega
    have h2 := sqrt_lt_iff.mp h1
    exact ⟨newtonIter v x0 k * newtonIter v x0 k - v, by omega, by omega⟩
  intro k hk
  induction k with
  | zero => omega
  | succ k ih =>
    by_cases hroot : newtonIter v x0 (k + 1) = Nat.sqrt v
    · exact Or.inl ⟨k + 1, Nat.le_refl _, hroot⟩
    obtain ⟨D', hD', hD'pos⟩ := excess (k + 1) hroot
    rcases Nat.eq_zero_or_pos k with hk0 | hkpos
    · -- first step: from D0 ≤ 3v to D1 ≤ v
      subst hk0
      right
      refine ⟨D', hD', hD'pos, ?_⟩
      obtain ⟨D, hD⟩ : ∃ D, x0 * x0 = v + D := ⟨x0 * x0 - v, by omega⟩
      have hD3 : D ≤ 3 * v := by omega
      have e := @newton_err v x0 D D' hD (by simpa [newtonIter] using hD')
      have : D' ≤ v := by
        by_contra hc
        have hc' : v + 1 ≤ D' := by omega
        have h1 : 4 * (v + D) * (v + 1) ≤ 4 * (v + D) * D' := Nat.mul_le_mul_left _ hc'
        have h2 : D * D ≤ 3 * v * D := Nat.mul_le_mul_right _ hD3
        nlinarith
      show D' * 2 ^ (2 ^ 1) ≤ 4 * v
      norm_num
      omega
    · rcases ih (by omega) with ⟨j, hj, e⟩ | ⟨D, hD, hDpos, hDP⟩
      · exact Or.inl ⟨j, by omega, e⟩
      · right
        refine ⟨D', hD', hD'pos, ?_⟩
        have e := @newton_err v (newtonIter v x0 k) D D' hD (by rw [← newtonIter_succ]; exact hD')
        have hpow : (2:Nat) ^ (2 ^ (k + 1)) = 2 ^ (2 ^ k) * 2 ^ (2 ^ k) := by
          rw [← Nat.pow_add, Nat.pow_succ]; congr 1; omega
        rw [hpow]
        generalize (2:Nat) ^ (2 ^ k) = P at *
        -- 4v·D'·P² ≤ D²·P² = (D·P)² ≤ (4v)²
        have h1 : 4 * v * D' ≤ D * D := by nlinarith
        have h2 : (D * P) * (D * P) ≤ (4 * v) * (4 * v) := Nat.mul_le_mul hDP hDP
        have h3 : 4 * v * (D' * (P * P)) ≤ 4 * v * (4 * v) := by
          calc 4 * v * (D' * (P * P)) = (4 * v * D') * (P * P) := by ring
            _ ≤ (D * D) * (P * P) := Nat.mul_le_mul_right _ h1
            _ = (D * P) * (D * P) := by ring
            _ ≤ (4 * v) * (4 * v) := h2
        exact Nat.le_of_mul_le_mul_left h3 (by omega)

/-- hitting time: once `2^(2^k) > 4·v`, some iterate `j ≤ k` equals `⌊√v⌋`. -/
theorem newton_hits {v x0 k : Nat} (hv : 0 < v) (h0 : v < x0 * x0) (h0' : x0 * x0 ≤ 4 * v)
    (hk : 1 ≤ k) (hP : 4 * v < 2 ^ (2 ^ k)) : ∃ j, j ≤ k ∧ newtonIter v x0 j = Nat.sqrt v := by
  rcases newton_quadratic hv h0 h0' k hk with h | ⟨D, _, hDpos, hDP⟩
  · exact h
  · exfalso
    have : 1 * 2 ^ (2 ^ k) ≤ D * 2 ^ (2 ^ k) := Nat.mul_le_mul_right _ hDpos
    omega

/-- after the root is hit the iterates stay in `{s, s+1}` and `s+1` is always followed by `s`. -/
theorem newton_after_hit {v x0 j : Nat} (hv : 0 < v) (hj : newtonIter v x0 j = Nat.sqrt v) :
    ∀ i, j ≤ i → newtonIter v x0 i = Nat.sqrt v ∨
      (newtonIter v x0 i = Nat.sqrt v + 1 ∧ newtonIter v x0 (i + 1) = Nat.sqrt v) := by
  intro i hi
  induction i with
  | zero => have : j = 0 := by omega
            subst this; exact Or.inl hj
  | succ i ih =>
    rcases Nat.eq_or_lt_of_le hi with e | hlt
    · rw [← e]; exact Or.inl hj
    · rcases ih (by omega) with h | ⟨_, h⟩
      · have hs := sqrt_pos_of_pos hv
        have h1 : newtonIter v x0 (i + 1) ≤ Nat.sqrt v + 1 := by
          rw [newtonIter_succ, h]; exact newton_sqrt_le hs
        have h2 : Nat.sqrt v ≤ newtonIter v x0 (i + 1) := by
          rw [newtonIter_succ, h]; exact le_newton hs (Nat.le_refl _)
        rcases Nat.eq_or_lt_of_le h2 with e | hlt2
        · exact Or.inl e.symm
        · right
          have e : newtonIter v x0 (i + 1) = Nat.sqrt v + 1 := by omega
          exact ⟨e, by rw [newtonIter_succ, e]; exact newton_succ_sqrt v⟩
      · exact Or.inl h

/-- the `min(x_R, x_{R+1})` selection returns the root as soon as the root was hit by `R + 1`. -/
theorem newton_min {v x0 R : Nat} (hv : 0 < v) (h0 : Nat.sqrt v < x0)
    (hit : ∃ j, j ≤ R + 1 ∧ newtonIter v x0 j = Nat.sqrt v) :
    (if newtonIter v x0 R > newtonIter v x0 (R + 1) then newtonIter v x0 (R + 1)
      else newtonIter v x0 R) = Nat.sqrt v := by
  obtain ⟨j, hj, e⟩ := hit
  have hge := newtonIter_ge hv h0
  rcases Nat.eq_or_lt_of_le hj with hjR | hjR
  · subst hjR
    have := hge R
    split <;> omega
  · rcases newton_after_hit hv e R (by omega) with h | ⟨h1, h2⟩
    · have := hge (R + 1)
      split <;> omega
    · split <;> omega

end CB.Sqrt
