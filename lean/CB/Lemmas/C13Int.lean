/-
  CB.Lemmas.C13Int — helper lemmas of property C13 (and C14): mask algebra of `ConstChoice`,
  the sign bit vs. the two's-complement value, re-signing modulo `2^BITS`, `Int::MIN`/`MAX`
  constants, unsigned comparisons against constants.
-/
import CB.Props.C04
import CB.Model.Int
import Mathlib.Tactic.Linarith
import Mathlib.Tactic.Ring
set_option linter.unusedVariables false
namespace CB.SInt
open CB

/-! ### mask algebra -/

theorem mask_congr {P Q : Prop} [Decidable P] [Decidable Q] (h : P ↔ Q) :
    mask (decide P) = mask (decide Q) := by
  rw [decide_eq_decide.mpr h]

theorem mask_lt_B (p : Bool) : mask p < B := by cases p <;> decide
theorem mask_true_eq : mask true = WMAX := rfl
theorem mask_false_eq : mask false = 0 := rfl
theorem mask_eq_WMAX_iff (p : Bool) : mask p = WMAX ↔ p = true := by cases p <;> decide
theorem mask_eq_zero_iff (p : Bool) : mask p = 0 ↔ p = false := by cases p <;> decide

theorem cnot_mask (p : Bool) : cnot (mask p) = mask (!p) := choiceNot_mask p
theorem cand_mask (p q : Bool) : cand (mask p) (mask q) = mask (p && q) := by
  cases p <;> cases q <;> decide
theorem cor_mask (p q : Bool) : cor (mask p) (mask q) = mask (p || q) := by
  cases p <;> cases q <;> decide
theorem cxor_mask (p q : Bool) : cxor (mask p) (mask q) = mask (p != q) := by
  cases p <;> cases q <;> decide
theorem cne_mask (p q : Bool) : cne (mask p) (mask q) = mask (p != q) := cxor_mask p q
theorem ceq_mask (p q : Bool) : ceq (mask p) (mask q) = mask (p == q) := by
  cases p <;> cases q <;> decide

theorem cnot_dec (P : Prop) [Decidable P] : cnot (mask (decide P)) = mask (decide (¬ P)) := by
  rw [cnot_mask]; by_cases h : P <;> simp [h]
theorem cand_dec (P Q : Prop) [Decidable P] [Decidable Q] :
    cand (mask (decide P)) (mask (decide Q)) = mask (decide (P ∧ Q)) := by
  rw [cand_mask]; by_cases h : P <;> by_cases h' : Q <;> simp [h, h']
theorem cor_dec (P Q : Prop) [Decidable P] [Decidable Q] :
    cor (mask (decide P)) (mask (decide Q)) = mask (decide (P ∨ Q)) := by
  rw [cor_mask]; by_cases h : P <;> by_cases h' : Q <;> simp [h, h']
theorem cxor_dec (P Q : Prop) [Decidable P] [Decidable Q] :
    cxor (mask (decide P)) (mask (decide Q)) = mask (decide (¬ (P ↔ Q))) := by
  rw [cxor_mask]; by_cases h : P <;> by_cases h' : Q <;> simp [h, h']
theorem cne_dec (P Q : Prop) [Decidable P] [Decidable Q] :
    cne (mask (decide P)) (mask (decide Q)) = mask (decide (¬ (P ↔ Q))) := cxor_dec P Q
theorem ceq_dec (P Q : Prop) [Decidable P] [Decidable Q] :
    ceq (mask (decide P)) (mask (decide Q)) = mask (decide (P ↔ Q)) := by
  rw [ceq_mask]; by_cases h : P <;> by_cases h' : Q <;> simp [h, h']

/-! ### powers of `B` -/

theorem Bpow_pos' (n : Nat) : 0 < B ^ n := Nat.pow_pos B_pos

theorem Bpow_even {n : Nat} (hn : 0 < n) : ∃ H, B ^ n = 2 * H ∧ 0 < H := by
  cases n with
  | zero => omega
  | succ k =>
    refine ⟨HALF * B ^ k, ?_, Nat.mul_pos (by decide) (Bpow_pos' k)⟩
    rw [Nat.pow_succ, Nat.mul_comm (B ^ k) B, ← Nat.mul_assoc]
    rfl

theorem Bpow_mono {n t : Nat} (h : n ≤ t) : B ^ t = B ^ n * B ^ (t - n) := by
  rw [← Nat.pow_add]; congr 1; omega

/-! ### the sign bit -/

theorem msw_decomp {a : List Nat} (ha : WF a) (hne : a ≠ []) :
    ∃ r, val a = r + B ^ (a.length - 1) * msw a ∧ r < B ^ (a.length - 1) ∧ msw a < B := by
  induction a with
  | nil => exact absurd rfl hne
  | cons x xs ih =>
    have ⟨hx, hxs⟩ := WF_cons.mp ha
    cases xs with
    | nil => exact ⟨0, by simp [msw], by simp, hx⟩
    | cons y ys =>
      obtain ⟨r, h1, h2, h3⟩ := ih hxs (by simp)
      refine ⟨x + B * r, ?_, ?_, h3⟩
      · simp only [List.length_cons, Nat.add_sub_cancel] at h1 ⊢
        rw [val_cons, h1]
        show x + B * (r + B ^ ys.length * msw (y :: ys)) = x + B * r + B ^ (ys.length + 1) * msw (y :: ys)
        rw [Nat.pow_succ]; ring
      · simp only [List.length_cons, Nat.add_sub_cancel] at h2 ⊢
        rw [Nat.pow_succ]
        have : B * (r + 1) ≤ B * B ^ ys.length := Nat.mul_le_mul_left B h2
        rw [Nat.mul_comm (B ^ ys.length) B]
        rw [Nat.mul_add] at this
        omega

theorem fromWordMsb_spec {w : Nat} (hw : w < B) : fromWordMsb w = mask (decide (HALF ≤ w)) := by
  unfold fromWordMsb
  by_cases h : HALF ≤ w
  · have : w / HALF = 1 := by simp only [HALF_def, B_def] at *; omega
    rw [this]; simp [h]; decide
  · have : w / HALF = 0 := by simp only [HALF_def, B_def] at *; omega
    rw [this]; simp [h]; decide

/-- `Int::is_negative` reads the sign of the two's-complement value. -/
theorem isNegative_spec {a : List Nat} (ha : WF a) :
    isNegative a = mask (decide (B ^ a.length ≤ 2 * val a)) := by
  by_cases hne : a = []
  · subst hne; decide
  obtain ⟨r, h1, h2, h3⟩ := msw_decomp ha hne
  unfold isNegative
  rw [fromWordMsb_spec h3]
  apply mask_congr
  have hl : a.length = (a.length - 1) + 1 := by
    cases a with
    | nil => exact absurd rfl hne
    | cons _ _ => simp
  rw [hl, Nat.pow_succ, h1]
  generalize B ^ (a.length - 1) = K at *
  have hB : B = 2 * HALF := by decide
  constructor
  · intro h
    have : K * HALF ≤ K * msw a := Nat.mul_le_mul_left K h
    rw [hB, ← Nat.mul_assoc, Nat.mul_comm K 2, Nat.mul_assoc]
    omega
  · intro h
    by_contra hc
    have hc' : msw a + 1 ≤ HALF := by omega
    have : K * (msw a + 1) ≤ K * HALF := Nat.mul_le_mul_left K hc'
    rw [hB, ← Nat.mul_assoc, Nat.mul_comm K 2, Nat.mul_assoc] at h
    rw [Nat.mul_add] at this
    omega

/-! ### `toInt`, ranges, re-signing -/

/-- `x ∈ [MIN, MAX]` of an `n`-limb `Int` (written without division) -/
def InRange (n : Nat) (x : Int) : Prop :=
  -((B ^ n : Nat) : Int) ≤ 2 * x ∧ 2 * x < ((B ^ n : Nat) : Int)

instance (n : Nat) (x : Int) : Decidable (InRange n x) := by unfold InRange; infer_instance

/-- `x mod M`, reinterpreted in two's complement -/
def resign (M x : Int) : Int := if M ≤ 2 * (x % M) then x % M - M else x % M

/-- the result "modulo `2^BITS`, re-signed" for an `n`-limb `Int` -/
def wrapS (n : Nat) (x : Int) : Int := resign ((B ^ n : Nat) : Int) x

theorem toInt_cases (l : List Nat) :
    (B ^ l.length ≤ 2 * val l ∧ toInt l = (val l : Int) - ((B ^ l.length : Nat) : Int)) ∨
    (2 * val l < B ^ l.length ∧ toInt l = (val l : Int)) := by
  unfold toInt
  by_cases h : B ^ l.length ≤ 2 * val l
  · left; exact ⟨h, by rw [if_pos h]⟩
  · right; exact ⟨by omega, by rw [if_neg h]⟩

theorem toInt_inRange {l : List Nat} (h : WF l) : InRange l.length (toInt l) := by
  have hv := val_lt h
  unfold InRange
  rcases toInt_cases l with ⟨h1, h2⟩ | ⟨h1, h2⟩ <;> rw [h2] <;> omega

theorem emod_of_shift {M s r : Int} (k : Int) (h0 : 0 ≤ r) (h1 : r < M) (h : s = r + M * k) :
    s % M = r := by
  subst h; rw [Int.add_mul_emod_self_left, Int.emod_eq_of_lt h0 h1]

/-- re-signing of a value within one-and-a-half moduli of zero -/
theorem resign_cases {M s : Int} (hM : 0 < M) (hs : -(3 * M) ≤ 2 * s ∧ 2 * s < 3 * M) :
    ((-M ≤ 2 * s ∧ 2 * s < M) ∧ resign M s = s) ∨ (M ≤ 2 * s ∧ resign M s = s - M) ∨
    (2 * s < -M ∧ resign M s = s + M) := by
  unfold resign
  by_cases c1 : s < -M
  · have := emod_of_shift (M := M) (s := s) (r := s + 2 * M) (-2) (by omega) (by omega) (by ring)
    rw [this]; right; right; refine ⟨by omega, ?_⟩; split <;> omega
  by_cases c2 : s < 0
  · have := emod_of_shift (M := M) (s := s) (r := s + M) (-1) (by omega) (by omega) (by ring)
    rw [this]
    by_cases c : -M ≤ 2 * s
    · left; refine ⟨⟨c, by omega⟩, ?_⟩; split <;> omega
    · right; right; refine ⟨by omega, ?_⟩; split <;> omega
  by_cases c3 : s < M
  · have := emod_of_shift (M := M) (s := s) (r := s) 0 (by omega) (by omega) (by ring)
    rw [this]
    by_cases c : 2 * s < M
    · left; refine ⟨⟨by omega, c⟩, ?_⟩; split <;> omega
    · right; left; refine ⟨by omega, ?_⟩; split <;> omega
  · have := emod_of_shift (M := M) (s := s) (r := s - M) 1 (by omega) (by omega) (by ring)
    rw [this]; right; left; refine ⟨by omega, ?_⟩; split <;> omega

/-- a value in range that is congruent to `x` IS the re-signed `x` -/
theorem resign_of_congr {M x y : Int} (hM : 0 < M) (hy : -M ≤ 2 * y ∧ 2 * y < M) (k : Int)
    (h : x = y + M * k) : resign M x = y := by
  unfold resign
  by_cases c : 0 ≤ y
  · have := emod_of_shift (M := M) (s := x) (r := y) k c (by omega) h
    rw [this]; split <;> omega
  · have := emod_of_shift (M := M) (s := x) (r := y + M) (k - 1) (by omega) (by omega) (by rw [h]; ring)
    rw [this]; split <;> omega

theorem wrapS_of_inRange {n : Nat} {x : Int} (h : InRange n x) : wrapS n x = x := by
  unfold wrapS
  exact resign_of_congr (by exact_mod_cast Bpow_pos' n) h 0 (by ring)

theorem wrapS_inRange (n : Nat) (x : Int) : InRange n (wrapS n x) := by
  have hM : (0 : Int) < ((B ^ n : Nat) : Int) := by exact_mod_cast Bpow_pos' n
  unfold wrapS resign InRange
  have h0 := Int.emod_nonneg x (ne_of_gt hM)
  have h1 := Int.emod_lt_of_pos x hM
  split <;> omega

/-- a limb list reads as the re-signed version of its unsigned value -/
theorem toInt_eq_wrapS {l : List Nat} (h : WF l) : toInt l = wrapS l.length (val l) := by
  have hv := val_lt h
  have hM : (0 : Int) < ((B ^ l.length : Nat) : Int) := by exact_mod_cast Bpow_pos' l.length
  unfold wrapS
  symm
  rcases toInt_cases l with ⟨h1, h2⟩ | ⟨h1, h2⟩
  · exact resign_of_congr hM (by rw [h2]; omega) 1 (by rw [h2]; ring)
  · exact resign_of_congr hM (by rw [h2]; omega) 0 (by rw [h2]; ring)

/-! ### limb-level constants and helpers -/

theorem xorWMAX {x : Nat} (hx : x < B) : x ^^^ WMAX = WMAX - x := by
  have e : x ^^^ WMAX = (bv x ^^^ bv WMAX).toNat := by
    simp only [BitVec.toNat_xor, bv_toNat hx, bv_toNat (show WMAX < B by decide)]
  have h2 : bv x ^^^ bv WMAX = ~~~ (bv x) := by
    have : bv WMAX = BitVec.allOnes 64 := by decide
    rw [this, BitVec.xor_allOnes]
  rw [e, h2, ← wnot_bv, bv_toNat hx]
  simp only [wnot, Nat.mod_eq_of_lt hx]

theorem xorMax_spec {a : List Nat} (ha : WF a) :
    WF (xorMax a) ∧ (xorMax a).length = a.length ∧ val (xorMax a) + val a + 1 = B ^ a.length := by
  induction a with
  | nil => exact ⟨WF_nil, rfl, rfl⟩
  | cons x xs ih =>
    have ⟨hx, hxs⟩ := WF_cons.mp ha
    obtain ⟨i1, i2, i3⟩ := ih hxs
    have hxw := xorWMAX hx
    refine ⟨WF_cons.mpr ⟨?_, i1⟩, by simp [xorMax, i2], ?_⟩
    · show x ^^^ WMAX < B
      rw [hxw]; simp only [WMAX_def, B_def] at *; omega
    · show (x ^^^ WMAX) + B * val (xorMax xs) + (x + B * val xs) + 1 = B ^ (xs.length + 1)
      rw [hxw, Nat.pow_succ, ← i3, Nat.mul_comm _ B]
      simp only [Nat.mul_add, WMAX_def, B_def] at *
      omega

theorem uone_spec (n : Nat) : WF (uone (n + 1)) ∧ (uone (n + 1)).length = n + 1 ∧ val (uone (n + 1)) = 1 := by
  refine ⟨WF_cons.mpr ⟨by decide, uzero_WF n⟩, by simp [uone, uzero], ?_⟩
  show 1 + B * val (uzero n) = 1
  rw [val_uzero, Nat.mul_zero]

theorem xor_eq_zero_iff' (x y : Nat) : x ^^^ y = 0 ↔ x = y := by
  constructor
  · intro h0
    have : x ^^^ (x ^^^ y) = x := by rw [h0, Nat.xor_zero]
    rw [← Nat.xor_assoc, Nat.xor_self, Nat.zero_xor] at this
    exact this.symm
  · intro h; rw [h, Nat.xor_self]

theorem xorAcc_spec {a b : List Nat} (ha : WF a) (hb : WF b) (hl : a.length = b.length) :
    xorAcc a b < B ∧ (xorAcc a b = 0 ↔ a = b) := by
  induction a generalizing b with
  | nil =>
    cases b with
    | nil => exact ⟨by decide, by simp [xorAcc]⟩
    | cons _ _ => simp at hl
  | cons x xs ih =>
    cases b with
    | nil => simp at hl
    | cons y ys =>
      have ⟨hx, hxs⟩ := WF_cons.mp ha
      have ⟨hy, hys⟩ := WF_cons.mp hb
      obtain ⟨i1, i2⟩ := ih hxs hys (by simpa using hl)
      refine ⟨or_lt_B (xor_lt_B hx hy) i1, ?_⟩
      show (x ^^^ y) ||| xorAcc xs ys = 0 ↔ _
      rw [Nat.or_eq_zero_iff, xor_eq_zero_iff', i2]
      simp

/-- `Uint::eq` decides equality of values. -/
theorem ueq_spec {a b : List Nat} (ha : WF a) (hb : WF b) (hl : a.length = b.length) :
    ueq a b = mask (decide (val a = val b)) := by
  obtain ⟨h1, h2⟩ := xorAcc_spec ha hb hl
  unfold ueq
  rw [fromWordNonzero_spec h1, choiceNot_mask]
  have : (xorAcc a b = 0) ↔ val a = val b := by
    rw [h2]; exact ⟨fun h => by rw [h], fun h => val_inj ha hb hl h⟩
  by_cases h : val a = val b
  · simp [h, this.mpr h]
  · simp [h, mt this.mp h]

/-- `Uint::lte` decides `≤` of values. -/
theorem ulte_spec {a b : List Nat} (ha : WF a) (hb : WF b) (hl : a.length = b.length) :
    ulte a b = mask (decide (val a ≤ val b)) := by
  have ⟨h1, _⟩ := sub_value_borrow hb ha hl.symm
  unfold ulte ugt fromWordMask
  rw [h1, choiceNot_mask]
  rw [← decide_not]
  apply mask_congr
  omega

theorem intMin_spec (n : Nat) :
    WF (intMin (n + 1)) ∧ (intMin (n + 1)).length = n + 1 ∧ 2 * val (intMin (n + 1)) = B ^ (n + 1) := by
  induction n with
  | zero => exact ⟨WF_cons.mpr ⟨by decide, WF_nil⟩, rfl, by decide⟩
  | succ k ih =>
    obtain ⟨i1, i2, i3⟩ := ih
    refine ⟨WF_cons.mpr ⟨by decide, i1⟩, by simp [intMin, i2], ?_⟩
    show 2 * (0 + B * val (intMin (k + 1))) = B ^ (k + 1 + 1)
    rw [(Nat.pow_succ B (k + 1) : B ^ (k + 1 + 1) = B ^ (k + 1) * B), ← i3]; ring

theorem intMax_spec (n : Nat) :
    WF (intMax (n + 1)) ∧ (intMax (n + 1)).length = n + 1 ∧ 2 * val (intMax (n + 1)) + 2 = B ^ (n + 1) := by
  induction n with
  | zero => exact ⟨WF_cons.mpr ⟨by decide, WF_nil⟩, rfl, by decide⟩
  | succ k ih =>
    obtain ⟨i1, i2, i3⟩ := ih
    refine ⟨WF_cons.mpr ⟨by decide, i1⟩, by simp [intMax, i2], ?_⟩
    show 2 * (WMAX + B * val (intMax (k + 1))) + 2 = B ^ (k + 1 + 1)
    rw [(Nat.pow_succ B (k + 1) : B ^ (k + 1 + 1) = B ^ (k + 1) * B), ← i3]
    simp only [WMAX_def, B_def]; ring

/-- `Uint::wrapping_neg_if` keeps the shape and gives `a` or `2^BITS - a (mod 2^BITS)`. -/
theorem wrappingNegIf_spec {a : List Nat} (p : Bool) (ha : WF a) :
    WF (wrappingNegIf a (mask p)) ∧ (wrappingNegIf a (mask p)).length = a.length ∧
    val (wrappingNegIf a (mask p)) = if p then (B ^ a.length - val a) % B ^ a.length else val a := by
  have ⟨_, _, hl, hw⟩ := P04.carrying_neg_spec ha
  have e : wrappingNegIf a (mask p) = if p then (carryingNeg a).1 else a := uselect_spec p ha hw hl.symm
  refine ⟨?_, ?_, P04.wrapping_neg_if_spec p ha⟩
  · rw [e]; cases p
    · simpa using ha
    · simpa using hw
  · rw [e]; cases p
    · simp
    · simpa using hl

/-- `Int::abs_sign`: magnitude and sign of the two's-complement value. -/
theorem absSign_spec {a : List Nat} (ha : WF a) :
    WF (absSign a).1 ∧ (absSign a).1.length = a.length ∧
    (absSign a).2 = mask (decide (toInt a < 0)) ∧
    ((toInt a < 0 ∧ ((val (absSign a).1 : Nat) : Int) = - toInt a) ∨
     (0 ≤ toInt a ∧ ((val (absSign a).1 : Nat) : Int) = toInt a)) := by
  have hv := val_lt ha
  have hn := isNegative_spec ha
  have ⟨w1, w2, w3⟩ := wrappingNegIf_spec (decide (B ^ a.length ≤ 2 * val a)) ha
  have hs : (absSign a).1 = wrappingNegIf a (isNegative a) := rfl
  have hs2 : (absSign a).2 = isNegative a := rfl
  rw [hs, hs2, hn]
  refine ⟨w1, w2, ?_, ?_⟩
  · apply mask_congr
    rcases toInt_cases a with ⟨h1, h2⟩ | ⟨h1, h2⟩ <;> rw [h2] <;> omega
  · rw [w3]
    rcases toInt_cases a with ⟨h1, h2⟩ | ⟨h1, h2⟩
    · left
      have hp : 0 < val a := by
        have := Bpow_pos' a.length; omega
      rw [if_pos (by simpa using h1), Nat.mod_eq_of_lt (by omega), h2]
      omega
    · right
      rw [if_neg (by simp; omega), h2]
      omega

/-! ### conditional negation and reconstruction from (magnitude, sign) on `toInt` -/

theorem resign_add_mul (M x k : Int) : resign M (x + M * k) = resign M x := by
  unfold resign; rw [Int.add_mul_emod_self_left]

theorem wrapS_add_mul (n : Nat) (x k : Int) : wrapS n (x + ((B ^ n : Nat) : Int) * k) = wrapS n x :=
  resign_add_mul _ x k

/-- `wrapS` only depends on the class modulo `2^BITS`; in particular on `val` instead of `toInt`. -/
theorem wrapS_neg_toInt {l : List Nat} : wrapS l.length (- toInt l) = wrapS l.length (- (val l : Int)) := by
  rcases toInt_cases l with ⟨_, h⟩ | ⟨_, h⟩
  · rw [h, show -((val l : Int) - ((B ^ l.length : Nat) : Int)) = -(val l : Int) + ((B ^ l.length : Nat) : Int) * 1 by ring,
      wrapS_add_mul]
  · rw [h]

theorem wrappingNegIf_toInt {a : List Nat} (p : Bool) (ha : WF a) :
    toInt (wrappingNegIf a (mask p)) = if p then wrapS a.length (- toInt a) else toInt a := by
  obtain ⟨w1, w2, w3⟩ := wrappingNegIf_spec p ha
  have hM : (0 : Int) < ((B ^ a.length : Nat) : Int) := by exact_mod_cast Bpow_pos' a.length
  have hva := val_lt ha
  cases p
  · have : wrappingNegIf a (mask false) = a := val_inj w1 ha w2 (by simpa using w3)
    rw [this]; simp
  · simp only [if_true] at w3 ⊢
    have c1 := toInt_cases (wrappingNegIf a (mask true))
    have c2 := toInt_cases a
    rw [w2, w3] at c1
    have hmod : (B ^ a.length - val a) % B ^ a.length =
        if val a = 0 then 0 else B ^ a.length - val a := by
      by_cases hz : val a = 0
      · rw [hz]; simp
      · rw [if_neg hz, Nat.mod_eq_of_lt (by omega)]
    rw [hmod] at c1
    unfold wrapS
    have rc := resign_cases (M := ((B ^ a.length : Nat) : Int)) (s := - toInt a) hM (by omega)
    generalize B ^ a.length = M at *
    split at c1 <;> omega

/-- `Int::new_from_abs_sign`: `is_some` exactly when `±abs ∈ [MIN, MAX]` (so `-2^(BITS-1)` is accepted,
    `+2^(BITS-1)` is not, and a negative zero is fine); the value is `±abs` modulo `2^BITS` re-signed. -/
theorem newFromAbsSign_spec {abs : List Nat} (p : Bool) (h : WF abs) (hne : abs ≠ []) :
    (newFromAbsSign abs (mask p)).2 =
      mask (decide (InRange abs.length (if p then -(val abs : Int) else (val abs : Int)))) ∧
    toInt (newFromAbsSign abs (mask p)).1 =
      wrapS abs.length (if p then -(val abs : Int) else (val abs : Int)) := by
  obtain ⟨k, hk⟩ : ∃ k, abs.length = k + 1 := ⟨abs.length - 1, by
    have := List.length_pos_iff.mpr hne; omega⟩
  obtain ⟨m1, m2, m3⟩ := intMin_spec k
  obtain ⟨x1, x2, x3⟩ := intMax_spec k
  have hv := val_lt h
  constructor
  · show cor (ulte abs (intMax abs.length)) (cand (mask p) (ueq abs (intMin abs.length))) = _
    rw [hk, ulte_spec h x1 (by rw [x2, hk]), ueq_spec h m1 (by rw [m2, hk]), cand_mask, cor_mask, ← hk]
    rw [hk] at hv
    cases p
    · simp only [Bool.false_and, Bool.or_false]
      apply mask_congr
      unfold InRange
      rw [hk]
      generalize B ^ (k + 1) = M at *
      simp only [Bool.false_eq_true, if_false]
      omega
    · simp only [Bool.true_and, ← Bool.decide_or]
      apply mask_congr
      unfold InRange
      rw [hk]
      generalize B ^ (k + 1) = M at *
      simp only [if_true]
      omega
  · show toInt (wrappingNegIf abs (mask p)) = _
    rw [wrappingNegIf_toInt p h]
    cases p
    · simp only [Bool.false_eq_true, if_false]; exact toInt_eq_wrapS h
    · simp only [if_true]; exact wrapS_neg_toInt

/-! ### sign predicates, MIN / MAX tests -/

theorem isNegative_toInt {a : List Nat} (ha : WF a) : isNegative a = mask (decide (toInt a < 0)) := by
  rw [isNegative_spec ha]
  have hv := val_lt ha
  apply mask_congr
  rcases toInt_cases a with ⟨h1, h2⟩ | ⟨h1, h2⟩ <;> rw [h2] <;> omega

theorem orAll_spec {a : List Nat} (ha : WF a) : orAll a < B ∧ (orAll a = 0 ↔ val a = 0) := by
  induction a with
  | nil => exact ⟨by decide, by simp [orAll]⟩
  | cons x xs ih =>
    have ⟨hx, hxs⟩ := WF_cons.mp ha
    obtain ⟨i1, i2⟩ := ih hxs
    refine ⟨or_lt_B hx i1, ?_⟩
    show x ||| orAll xs = 0 ↔ x + B * val xs = 0
    rw [Nat.or_eq_zero_iff, i2]
    have := B_pos
    constructor
    · rintro ⟨h1, h2⟩; rw [h1, h2, Nat.mul_zero]
    · intro h
      have h1 : x = 0 := by omega
      have h2 : B * val xs = 0 := by omega
      exact ⟨h1, (Nat.mul_eq_zero.mp h2).resolve_left (by omega)⟩

theorem isNonzero_spec {a : List Nat} (ha : WF a) : isNonzero a = mask (decide (val a ≠ 0)) := by
  obtain ⟨h1, h2⟩ := orAll_spec ha
  unfold isNonzero
  rw [fromWordNonzero_spec h1]
  exact mask_congr (not_congr h2)

theorem toInt_eq_zero_iff {a : List Nat} (ha : WF a) : toInt a = 0 ↔ val a = 0 := by
  have hv := val_lt ha
  rcases toInt_cases a with ⟨h1, h2⟩ | ⟨h1, h2⟩ <;> rw [h2] <;> omega

theorem isPositive_spec {a : List Nat} (ha : WF a) : isPositive a = mask (decide (0 < toInt a)) := by
  unfold isPositive
  rw [isNegative_toInt ha, isNonzero_spec ha, cnot_dec, cand_dec]
  apply mask_congr
  have := toInt_eq_zero_iff ha
  omega

theorem isMin_spec {a : List Nat} (ha : WF a) (hne : a ≠ []) :
    isMin a = mask (decide (2 * toInt a = -((B ^ a.length : Nat) : Int))) := by
  obtain ⟨k, hk⟩ : ∃ k, a.length = k + 1 := ⟨a.length - 1, by
    have := List.length_pos_iff.mpr hne; omega⟩
  obtain ⟨m1, m2, m3⟩ := intMin_spec k
  have hv := val_lt ha
  unfold isMin
  rw [hk, ueq_spec ha m1 (by rw [m2, hk]), ← hk]
  apply mask_congr
  rw [← hk] at m3
  rcases toInt_cases a with ⟨h1, h2⟩ | ⟨h1, h2⟩ <;> rw [h2] <;> omega

theorem isMax_spec {a : List Nat} (ha : WF a) (hne : a ≠ []) :
    isMax a = mask (decide (2 * toInt a = ((B ^ a.length : Nat) : Int) - 2)) := by
  obtain ⟨k, hk⟩ : ∃ k, a.length = k + 1 := ⟨a.length - 1, by
    have := List.length_pos_iff.mpr hne; omega⟩
  obtain ⟨m1, m2, m3⟩ := intMax_spec k
  have hv := val_lt ha
  unfold isMax
  rw [hk, ueq_spec ha m1 (by rw [m2, hk]), ← hk]
  apply mask_congr
  rw [← hk] at m3
  rcases toInt_cases a with ⟨h1, h2⟩ | ⟨h1, h2⟩ <;> rw [h2] <;> omega

/-! ### magnitudes (shared by the products of C13 and the divisions of C14) -/

theorem toInt_of_small {l : List Nat} (h : 2 * val l < B ^ l.length) : toInt l = (val l : Int) := by
  rcases toInt_cases l with ⟨h1, _⟩ | ⟨_, h2⟩
  · omega
  · exact h2

theorem toLimbs_small {n x : Nat} (h : x < B ^ n) :
    WF (toLimbs n x) ∧ (toLimbs n x).length = n ∧ val (toLimbs n x) = x :=
  ⟨toLimbs_WF n x, toLimbs_length n x, by rw [val_toLimbs, Nat.mod_eq_of_lt h]⟩

/-- magnitude / sign view of an operand: `A = ±an`, `2·an ≤ 2^BITS` -/
theorem mag_view {a : List Nat} (ha : WF a) :
    WF (absSign a).1 ∧ (absSign a).1.length = a.length ∧
    (absSign a).2 = mask (decide (toInt a < 0)) ∧
    ((toInt a < 0 ∧ toInt a = -((val (absSign a).1 : Nat) : Int)) ∨
     (0 ≤ toInt a ∧ toInt a = ((val (absSign a).1 : Nat) : Int))) ∧
    2 * val (absSign a).1 ≤ B ^ a.length ∧
    (0 ≤ toInt a → 2 * val (absSign a).1 < B ^ a.length) := by
  obtain ⟨h1, h2, h3, h4⟩ := absSign_spec ha
  have hr := toInt_inRange ha
  unfold InRange at hr
  refine ⟨h1, h2, h3, ?_, ?_, ?_⟩
  · rcases h4 with ⟨c, e⟩ | ⟨c, e⟩
    · left; exact ⟨c, by omega⟩
    · right; exact ⟨c, by omega⟩
  · rcases h4 with ⟨c, e⟩ | ⟨c, e⟩ <;> omega
  · intro h0; rcases h4 with ⟨c, e⟩ | ⟨c, e⟩ <;> omega

/-- a magnitude below half the modulus, optionally negated, reads back exactly -/
theorem negIf_small {r : List Nat} (p : Bool) (hr : WF r) (h : 2 * val r < B ^ r.length) :
    toInt (wrappingNegIf r (mask p)) = if p then -((val r : Nat) : Int) else ((val r : Nat) : Int) := by
  rw [wrappingNegIf_toInt p hr, toInt_of_small h]
  cases p
  · simp
  · simp only [if_true]
    apply wrapS_of_inRange
    unfold InRange; omega

/-- conditional negation of a magnitude, in general: `±r` modulo `2^BITS` re-signed -/
theorem negIf_wrap {r : List Nat} (p : Bool) (hr : WF r) :
    toInt (wrappingNegIf r (mask p)) =
      wrapS r.length (if p then -((val r : Nat) : Int) else ((val r : Nat) : Int)) := by
  rw [wrappingNegIf_toInt p hr]
  cases p
  · simp only [Bool.false_eq_true, if_false]; exact toInt_eq_wrapS hr
  · simp only [if_true]; exact wrapS_neg_toInt

/-- conditional negation of a magnitude that fits (`≤ 2^(BITS-1)` when negated, `< 2^(BITS-1)` otherwise) -/
theorem negIf_mag {r : List Nat} (p : Bool) (hr : WF r)
    (h : if p then 2 * val r ≤ B ^ r.length else 2 * val r < B ^ r.length) :
    toInt (wrappingNegIf r (mask p)) = if p then -((val r : Nat) : Int) else ((val r : Nat) : Int) := by
  rw [negIf_wrap p hr]
  apply wrapS_of_inRange
  unfold InRange
  have := Bpow_pos' r.length
  cases p
  · simp only [Bool.false_eq_true, ↓reduceIte] at h ⊢; omega
  · simp only [↓reduceIte] at h ⊢; omega


end CB.SInt
