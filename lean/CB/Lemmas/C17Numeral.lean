/-
  CB.Lemmas.C17Numeral — L0 facts about positional numerals (radix ≥ 2): canonical digit lists are in
  bijection with values; the canonical numeral parses back to its value.
-/
import CB.Model.Radix
namespace CB.Radix
open CB

/-- little-endian value of a digit list -/
def valLE (r : Nat) : List Nat → Nat
  | [] => 0
  | d :: ds => d + r * valLE r ds

theorem ofDigits_foldl (r : Nat) (ds : List Nat) (a : Nat) :
    ds.foldl (fun a d => a * r + d) a = a * r ^ ds.length + ofDigits r ds := by
  induction ds generalizing a with
  | nil => simp [ofDigits]
  | cons d ds ih =>
    simp only [List.foldl_cons, List.length_cons, ofDigits]
    rw [ih (a * r + d), ih (0 * r + d)]
    simp only [Nat.zero_mul, Nat.zero_add, Nat.pow_succ, Nat.add_mul]
    rw [Nat.mul_assoc, Nat.mul_comm r (r ^ ds.length), Nat.add_assoc]

theorem ofDigits_nil (r : Nat) : ofDigits r [] = 0 := rfl

theorem ofDigits_cons (r d : Nat) (ds : List Nat) :
    ofDigits r (d :: ds) = d * r ^ ds.length + ofDigits r ds := by
  show (d :: ds).foldl (fun a d => a * r + d) 0 = _
  rw [List.foldl_cons, ofDigits_foldl]; simp

theorem ofDigits_append (r : Nat) (xs ys : List Nat) :
    ofDigits r (xs ++ ys) = ofDigits r xs * r ^ ys.length + ofDigits r ys := by
  show (xs ++ ys).foldl (fun a d => a * r + d) 0 = _
  rw [List.foldl_append, ofDigits_foldl]; rfl

theorem ofDigits_reverse (r : Nat) (ds : List Nat) : ofDigits r ds.reverse = valLE r ds := by
  induction ds with
  | nil => rfl
  | cons d ds ih =>
    rw [List.reverse_cons, ofDigits_append, ih]
    simp [valLE, ofDigits_cons, ofDigits_nil, Nat.mul_comm, Nat.add_comm]

/-- a digit list with all digits `< r` is below `r ^ length` -/
theorem ofDigits_lt {r : Nat} {ds : List Nat} (h : ∀ d ∈ ds, d < r) :
    ofDigits r ds < r ^ ds.length := by
  induction ds with
  | nil => simp [ofDigits]
  | cons d ds ih =>
    have hd : d < r := h d List.mem_cons_self
    have := ih (fun x hx => h x (List.mem_cons_of_mem _ hx))
    rw [ofDigits_cons, List.length_cons, Nat.pow_succ]
    have h2 : (d + 1) * r ^ ds.length ≤ r * r ^ ds.length := Nat.mul_le_mul_right _ hd
    rw [Nat.add_mul, Nat.one_mul] at h2
    rw [Nat.mul_comm (r ^ ds.length) r]
    omega

theorem digitsLE_lt {r : Nat} (hr : 0 < r) (f x : Nat) : ∀ d ∈ digitsLE r f x, d < r := by
  induction f generalizing x with
  | zero => intro d hd; simp [digitsLE] at hd
  | succ f ih =>
    intro d hd
    simp only [digitsLE] at hd
    split at hd
    · simp at hd
    · rcases List.mem_cons.mp hd with h | h
      · rw [h]; exact Nat.mod_lt _ hr
      · exact ih _ d h

theorem valLE_digitsLE {r : Nat} (hr : 2 ≤ r) (f x : Nat) (hf : x ≤ f) :
    valLE r (digitsLE r f x) = x := by
  induction f generalizing x with
  | zero => have : x = 0 := by omega
            subst this; rfl
  | succ f ih =>
    simp only [digitsLE]
    split
    · next h => rw [h]; rfl
    · next h =>
      have hlt : x / r < x := Nat.div_lt_self (by omega) (by omega)
      rw [valLE, ih (x / r) (by omega)]
      exact Nat.mod_add_div x r

/-- the most significant canonical digit is non-zero -/
theorem digitsLE_last_ne_zero {r : Nat} (hr : 2 ≤ r) (f x : Nat) (hf : x ≤ f) :
    (digitsLE r f x).getLast? ≠ some 0 := by
  induction f generalizing x with
  | zero => simp [digitsLE]
  | succ f ih =>
    simp only [digitsLE]
    split
    · simp
    · next h =>
      have hlt : x / r < x := Nat.div_lt_self (by omega) (by omega)
      have ih' := ih (x / r) (by omega)
      by_cases hq : x / r = 0
      · have : digitsLE r f (x / r) = [] := by
          rw [hq]; cases f <;> simp [digitsLE]
        rw [this]
        have hxr : x < r := by
          rcases Nat.lt_or_ge x r with h1 | h1
          · exact h1
          · have : 0 < x / r := Nat.div_pos h1 (by omega)
            omega
        simp [Nat.mod_eq_of_lt hxr, h]
      · have hne : digitsLE r f (x / r) ≠ [] := by
          cases f with
          | zero => generalize x / r = q at *; omega
          | succ f => simp [digitsLE, hq]
        rw [List.getLast?_cons_of_ne_nil hne] <;> exact ih'

theorem valLE_pos_of_last {r : Nat} (hr : 0 < r) {ds : List Nat} (hne : ds ≠ [])
    (hl : ds.getLast? ≠ some 0) : 0 < valLE r ds := by
  induction ds with
  | nil => exact absurd rfl hne
  | cons d ds ih =>
    simp only [valLE]
    by_cases hds : ds = []
    · subst hds
      simp at hl
      simp [valLE]; omega
    · rw [List.getLast?_cons_of_ne_nil hds] at hl
      have := ih hds hl
      have : 0 < r * valLE r ds := Nat.mul_pos hr this
      omega

/-- uniqueness: a little-endian digit list with digits `< r` and non-zero last digit IS the
canonical digit list of its value -/
theorem digitsLE_valLE {r : Nat} (hr : 2 ≤ r) {ds : List Nat} (hd : ∀ d ∈ ds, d < r)
    (hl : ds.getLast? ≠ some 0) (f : Nat) (hf : valLE r ds ≤ f) :
    digitsLE r f (valLE r ds) = ds := by
  induction ds generalizing f with
  | nil => cases f <;> simp [valLE, digitsLE]
  | cons d ds ih =>
    have hdr : d < r := hd d List.mem_cons_self
    have hpos : 0 < valLE r (d :: ds) := valLE_pos_of_last (by omega) (by simp) hl
    cases f with
    | zero => omega
    | succ f =>
      simp only [digitsLE]
      rw [if_neg (by omega)]
      have hmod : valLE r (d :: ds) % r = d := by
        simp only [valLE]; rw [Nat.add_mul_mod_self_left, Nat.mod_eq_of_lt hdr]
      have hdiv : valLE r (d :: ds) / r = valLE r ds := by
        simp only [valLE]
        rw [Nat.add_mul_div_left _ _ (by omega : 0 < r), Nat.div_eq_of_lt hdr, Nat.zero_add]
      rw [hmod, hdiv]
      congr 1
      have hl' : ds.getLast? ≠ some 0 := by
        by_cases hds : ds = []
        · subst hds; simp
        · rw [List.getLast?_cons_of_ne_nil hds] at hl; exact hl
      apply ih (fun x hx => hd x (List.mem_cons_of_mem _ hx)) hl'
      have hlt : valLE r (d :: ds) / r < valLE r (d :: ds) := Nat.div_lt_self hpos (by omega)
      omega

/-- canonical big-endian digit list: digits `< r`, no leading zero -/
def Canonical (r : Nat) (ds : List Nat) : Prop := (∀ d ∈ ds, d < r) ∧ ds.head? ≠ some 0

theorem digitsBE_canonical {r : Nat} (hr : 2 ≤ r) (x : Nat) : Canonical r (digitsBE r x) := by
  constructor
  · intro d hd
    exact digitsLE_lt (by omega) x x d (List.mem_reverse.mp hd)
  · rw [digitsBE, List.head?_reverse]
    exact digitsLE_last_ne_zero hr x x (Nat.le_refl _)

theorem ofDigits_digitsBE {r : Nat} (hr : 2 ≤ r) (x : Nat) : ofDigits r (digitsBE r x) = x := by
  rw [digitsBE, ofDigits_reverse, valLE_digitsLE hr x x (Nat.le_refl _)]

theorem valLE_le_self_fuel {r : Nat} (ds : List Nat) : valLE r ds ≤ valLE r ds := Nat.le_refl _

theorem digitsBE_ofDigits {r : Nat} (hr : 2 ≤ r) {ds : List Nat} (h : Canonical r ds) :
    digitsBE r (ofDigits r ds) = ds := by
  have e : ofDigits r ds = valLE r ds.reverse := by
    rw [← ofDigits_reverse, List.reverse_reverse]
  rw [digitsBE, e, digitsLE_valLE hr (fun d hd => h.1 d (List.mem_reverse.mp hd))
    (by rw [List.getLast?_reverse]; exact h.2) _ (Nat.le_refl _), List.reverse_reverse]

theorem digitsBE_zero (r : Nat) : digitsBE r 0 = [] := by simp [digitsBE, digitsLE]

theorem digitsBE_ne_nil {r : Nat} (hr : 2 ≤ r) {x : Nat} (hx : x ≠ 0) : digitsBE r x ≠ [] := by
  intro h
  have := ofDigits_digitsBE hr x
  rw [h] at this
  exact hx this.symm

/-! ### characters -/

theorem digitChar_lt10 {d : Nat} (h : d < 10) : digitChar d = 48 + d := by simp [digitChar, h]
theorem digitChar_ge10 {d : Nat} (h : ¬ d < 10) : digitChar d = 97 + (d - 10) := by simp [digitChar, h]

theorem charDigit_digitChar {d : Nat} (h : d < 36) : charDigit? (digitChar d) = some d := by
  by_cases h10 : d < 10
  · rw [digitChar_lt10 h10, charDigit?, if_pos (by omega)]; congr 1; omega
  · rw [digitChar_ge10 h10, charDigit?, if_neg (by omega), if_pos (by omega)]; congr 1; omega

theorem digitChar_ne {d : Nat} (h : d < 36) : digitChar d ≠ 95 ∧ digitChar d ≠ 43 := by
  by_cases h10 : d < 10
  · rw [digitChar_lt10 h10]; omega
  · rw [digitChar_ge10 h10]; omega

/-- the canonical output alphabet: `0-9a-z` only (lower case) -/
theorem digitChar_range {d : Nat} (h : d < 36) :
    (48 ≤ digitChar d ∧ digitChar d ≤ 57) ∨ (97 ≤ digitChar d ∧ digitChar d ≤ 122) := by
  by_cases h10 : d < 10
  · rw [digitChar_lt10 h10]; omega
  · rw [digitChar_ge10 h10]; omega

/-- upper-case letters denote the same digit -/
theorem charDigit_upper {b : Nat} (h : 97 ≤ b ∧ b ≤ 122) : charDigit? (b - 32) = charDigit? b := by
  rw [charDigit?, charDigit?, if_neg (by omega), if_neg (by omega), if_pos (by omega), if_neg (by omega),
    if_pos h]
  congr 1 <;> omega

theorem bodyDigits_map_digitChar {r : Nat} (hr : r ≤ 36) {ds : List Nat} (h : ∀ d ∈ ds, d < r) :
    bodyDigits r (ds.map digitChar) = some ds := by
  induction ds with
  | nil => rfl
  | cons d ds ih =>
    have hd : d < r := h d List.mem_cons_self
    rw [List.map_cons, bodyDigits, if_neg (digitChar_ne (by omega)).1, charDigit_digitChar (by omega)]
    simp only [hd, if_true]
    rw [ih (fun x hx => h x (List.mem_cons_of_mem _ hx))]; rfl

theorem stripPlus_of_head_ne {s : List Nat} (h : s.head? ≠ some 43) : stripPlus s = s := by
  unfold stripPlus
  split
  · simp at h
  · rfl

/-- T17.1: parsing the canonical numeral returns the value -/
theorem specParse_specFormat {r : Nat} (hr : 2 ≤ r) (hr' : r ≤ 36) (x : Nat) :
    specParse r (specFormat r x) = .ok x := by
  by_cases hx : x = 0
  · subst hx
    have : specFormat r 0 = [48] := by simp [specFormat]
    rw [this]
    have hb : bodyDigits r [48] = some [0] := by
      rw [bodyDigits, if_neg (by decide), show charDigit? 48 = some 0 from by decide]
      simp only [show 0 < r by omega, if_true, bodyDigits]; rfl
    have hs : stripPlus [48] = [48] := rfl
    rw [specParse]
    simp only [hs, hb]
    rw [if_neg (by decide), if_neg (by decide)]
    simp [ofDigits]
  · have hc := digitsBE_canonical hr x
    have hne := digitsBE_ne_nil hr hx
    have hfmt : specFormat r x = (digitsBE r x).map digitChar := by simp [specFormat, hx]
    have hall : ∀ b ∈ (digitsBE r x).map digitChar, b ≠ 95 ∧ b ≠ 43 := by
      intro b hb
      rcases List.mem_map.mp hb with ⟨d, hd, rfl⟩
      exact digitChar_ne (Nat.lt_of_lt_of_le (hc.1 d hd) hr')
    have hne' : (digitsBE r x).map digitChar ≠ [] := by simpa using hne
    rw [hfmt, specParse]
    have hsp : stripPlus ((digitsBE r x).map digitChar) = (digitsBE r x).map digitChar := by
      apply stripPlus_of_head_ne
      intro hh
      have := List.mem_of_mem_head? hh
      exact (hall _ this).2 rfl
    simp only [hsp]
    rw [if_neg (by simpa using hne)]
    rw [if_neg]
    · rw [bodyDigits_map_digitChar hr' hc.1]
      show Except.ok (ofDigits r (digitsBE r x)) = _
      rw [ofDigits_digitsBE hr]
    · intro h
      rcases h with h | h
      · exact (hall _ (List.mem_of_mem_head? h)).1 rfl
      · exact (hall _ (List.mem_of_getLast? h)).1 rfl

end CB.Radix
