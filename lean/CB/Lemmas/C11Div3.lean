/-
  CB.Lemmas.C11Div3 — the checked twin of `div3by2` never traps on its documented domain.
-/
import CB.Lemmas.C11Div
namespace CB.Panic
open CB CB.Div

/-! ### div3by2 -/

theorem wwnot_lt (x : Nat) : wwnot x < B * B := by
  unfold wwnot
  have : 0 < B * B := by decide
  generalize B * B = K at *
  omega

/-- `from_wide_word_le` ends in `from_wide_word_lsb`, whose debug assertion never fires on wide words -/
theorem fromWideWordLeD_total (p : Profile) {x y : Nat} (hy : y < B * B) :
    fromWideWordLeD p x y = .ok (fromWideWordLe x y) := by
  have hE : ((wwnot x) ||| y) &&& ((x ^^^ y) ||| wwnot (wwsub y x)) < B * B :=
    Nat.lt_of_le_of_lt Nat.and_le_left (by
      rw [BB_eq_pow]
      exact Nat.or_lt_two_pow (by rw [← BB_eq_pow]; exact wwnot_lt x) (by rw [← BB_eq_pow]; exact hy))
  have hbit : (((wwnot x) ||| y) &&& ((x ^^^ y) ||| wwnot (wwsub y x))) / (HALF * B) < 2 := by
    rw [Nat.div_lt_iff_lt_mul (by decide)]
    have : 2 * (HALF * B) = B * B := by decide
    omega
  simp only [fromWideWordLeD, fromWideWordLe]
  generalize (((wwnot x) ||| y) &&& ((x ^^^ y) ||| wwnot (wwsub y x))) / (HALF * B) = bit at hbit ⊢
  rcases (by omega : bit = 0 ∨ bit = 1) with h | h <;> subst h <;>
    simp [dassert, bind, Except.bind, pure, Except.pure]

/-- one checked correction round = the unchecked one, as long as the operands are in range -/
theorem div3by2RoundD_ok (p : Profile) {u0 v0 d quo rem : Nat} (hu0 : u0 < B) (hv0 : v0 < B) (hd : d < B)
    (hquo : quo < B) (hrem : rem < 2 * B) :
    div3by2RoundD p u0 v0 d (quo, rem) = .ok (div3by2Round u0 v0 d (quo, rem)) := by
  have hqy : quo * v0 < B * B := Nat.mul_lt_mul'' hquo hv0
  have hrx : ((rem * B) % (B * B)) ||| u0 < B * B := by
    rw [BB_eq_pow]
    exact Nat.or_lt_two_pow (by rw [← BB_eq_pow]; exact Nat.mod_lt _ (by decide))
      (by rw [← BB_eq_pow]; exact Nat.lt_of_lt_of_le hu0 B_le_BB)
  have hsum : rem + d < B * B := by
    have : 3 * B ≤ B * B := by decide
    omega
  have hrd : rem / B % B < B := Nat.mod_lt _ B_pos
  simp only [div3by2RoundD, mulWW_ok p hqy, fromWordNonzeroD_total p hrd, fromWideWordLeD_total p hrx,
    addWW_ok p hsum, bind, Except.bind, pure, Except.pure, div3by2Round, Nat.mod_eq_of_lt hsum]

/-- the capped initial estimate of `div3by2` with its invariant (set-up of `CB.Div.div3by2_exact`) -/
theorem div3by2_init {rc : Reciprocal} {u2 u1 : Nat}
    (hd1 : HALF ≤ rc.divisorNormalized) (hd2 : rc.divisorNormalized < B)
    (hv : rc.reciprocal = reciprocalSpec rc.divisorNormalized)
    (hu2 : u2 ≤ rc.divisorNormalized) (hu1 : u1 < B) :
    ∃ quo rem, (selectWord (div2by1 (selectWord u2 0 (fromWordEq u2 rc.divisorNormalized)) u1 rc).1 WMAX
        (fromWordEq u2 rc.divisorNormalized),
      selectWideWord (div2by1 (selectWord u2 0 (fromWordEq u2 rc.divisorNormalized)) u1 rc).2 (u2 + u1)
        (fromWordEq u2 rc.divisorNormalized)) = (quo, rem) ∧
      quo < B ∧ rem < 2 * B ∧ quo * rc.divisorNormalized + rem = u2 * B + u1 ∧
      selectWord u2 0 (fromWordEq u2 rc.divisorNormalized) < rc.divisorNormalized := by
  have hdpos : 0 < rc.divisorNormalized := Nat.lt_of_lt_of_le (by decide) hd1
  have hu2B : u2 < B := by omega
  rw [fromWordEq_eq hu2B hd2]
  by_cases he : u2 = rc.divisorNormalized
  · rw [if_pos he, selectWord_max hu2B (by decide)]
    have hq := div2by1_exact (u1 := 0) (u0 := u1) hd1 hd2 hv hdpos hu1
    rw [hq]
    have hqlt : (0 * B + u1) / rc.divisorNormalized < B := by
      rw [Nat.zero_mul, Nat.zero_add]
      exact Nat.lt_of_le_of_lt (Nat.div_le_self _ _) hu1
    have hrlt : (0 * B + u1) % rc.divisorNormalized < B * B :=
      Nat.lt_of_lt_of_le (Nat.lt_trans (Nat.mod_lt _ hdpos) hd2) B_le_BB
    have hs : u2 + u1 < B * B := by
      have : 2 * B ≤ B * B := by decide
      omega
    rw [selectWord_max hqlt (by decide), selectWideWord_max hrlt hs]
    refine ⟨WMAX, u2 + u1, rfl, by decide, by omega, ?_, hdpos⟩
    rw [← he]
    have : WMAX * u2 + u2 = u2 * B := by
      have : WMAX + 1 = B := by decide
      rw [← this, Nat.mul_add, Nat.mul_one, Nat.mul_comm]
    omega
  · have hlt : u2 < rc.divisorNormalized := by omega
    rw [if_neg he, selectWord_zero hu2B (by decide)]
    have hq := div2by1_exact (u1 := u2) (u0 := u1) hd1 hd2 hv hlt hu1
    rw [hq]
    have hqlt : (u2 * B + u1) / rc.divisorNormalized < B := by
      rw [Nat.div_lt_iff_lt_mul hdpos]
      have : (u2 + 1) * B ≤ rc.divisorNormalized * B := Nat.mul_le_mul_right B (by omega)
      rw [Nat.add_mul, Nat.one_mul] at this
      rw [Nat.mul_comm B]; omega
    have hrlt' := Nat.mod_lt (u2 * B + u1) hdpos
    have hrlt : (u2 * B + u1) % rc.divisorNormalized < B * B :=
      Nat.lt_of_lt_of_le (Nat.lt_trans hrlt' hd2) B_le_BB
    have hs : u2 + u1 < B * B := by
      have : 2 * B ≤ B * B := by decide
      omega
    rw [selectWord_zero hqlt (by decide), selectWideWord_zero hrlt hs]
    refine ⟨_, _, rfl, hqlt, by omega, ?_, hlt⟩
    rw [Nat.mul_comm]; exact Nat.div_add_mod _ _

/-- the two correction rounds of `div3by2D` -/
def d3tailD (p : Profile) (u0 v0 d : Nat) (st : Nat × Nat) : Chk Nat := do
  let st1 ← div3by2RoundD p u0 v0 d st
  let st2 ← div3by2RoundD p u0 v0 d st1
  pure st2.1

/-- the part of `div3by2D` after the two entry assertions -/
def d3bodyD (p : Profile) (u2 u1 u0 : Nat) (rc : Reciprocal) (v0 : Nat) : Chk Nat := do
  let qMaxed ← fromWordEqD p u2 rc.divisorNormalized
  let qr ← div2by1D p (selectWord u2 0 qMaxed) u1 rc
  let sum ← addWW p u2 u1
  d3tailD p u0 v0 rc.divisorNormalized (selectWord qr.1 WMAX qMaxed, selectWideWord qr.2 sum qMaxed)

theorem div3by2D_eq (p : Profile) (u2 u1 u0 : Nat) (rc : Reciprocal) (v0 : Nat) :
    div3by2D p u2 u1 u0 rc v0 = (do
      dassert p (rc.shift == 0) "div3by2: shift == 0"
      dassert p (decide (u2 ≤ rc.divisorNormalized)) "div3by2: u2 <= d"
      d3bodyD p u2 u1 u0 rc v0) := rfl

theorem div3by2_eq (u2 u1 u0 : Nat) (rc : Reciprocal) (v0 : Nat) :
    div3by2 u2 u1 u0 rc v0 =
      (div3by2Round u0 v0 rc.divisorNormalized (div3by2Round u0 v0 rc.divisorNormalized
        (selectWord (div2by1 (selectWord u2 0 (fromWordEq u2 rc.divisorNormalized)) u1 rc).1 WMAX
            (fromWordEq u2 rc.divisorNormalized),
          selectWideWord (div2by1 (selectWord u2 0 (fromWordEq u2 rc.divisorNormalized)) u1 rc).2 (u2 + u1)
            (fromWordEq u2 rc.divisorNormalized)))).1 := rfl

/-- both rounds stay in range: the state after round one is `(quo, rem)` or `(quo - 1, rem + d)` with `rem < B` -/
theorem d3tailD_ok (p : Profile) {u0 v0 d num quo rem : Nat} (hu0 : u0 < B) (hv0 : v0 < B) (hd : d < B)
    (hquo : quo < B) (hrem : rem < 2 * B) (hinv : quo * d + rem = num) :
    d3tailD p u0 v0 d (quo, rem) = .ok (div3by2Round u0 v0 d (div3by2Round u0 v0 d (quo, rem))).1 := by
  have hst : (div3by2Round u0 v0 d (quo, rem)).1 < B ∧ (div3by2Round u0 v0 d (quo, rem)).2 < 2 * B := by
    rw [div3by2Round_spec hu0 hv0 hd hquo hrem hinv]
    by_cases hc : quo * (d * B + v0) ≤ num * B + u0
    · rw [if_pos hc]; exact ⟨hquo, hrem⟩
    · rw [if_neg hc]
      have hrl := rem_lt_of_not_done hv0 hquo hinv hc
      exact ⟨by show quo - 1 < B; omega, by show rem + d < 2 * B; omega⟩
  unfold d3tailD
  rw [div3by2RoundD_ok p hu0 hv0 hd hquo hrem]
  generalize div3by2Round u0 v0 d (quo, rem) = st1 at hst ⊢
  obtain ⟨q1, r1⟩ := st1
  show (do let st2 ← div3by2RoundD p u0 v0 d (q1, r1); pure st2.1) = _
  rw [div3by2RoundD_ok p hu0 hv0 hd hst.1 hst.2]
  rfl


/-- the body of `div3by2D` (after the two entry assertions) on the domain of `div3by2` -/
theorem d3bodyD_ok (p : Profile) {rc : Reciprocal} {u2 u1 u0 v0 : Nat}
    (hd1 : HALF ≤ rc.divisorNormalized) (hd2 : rc.divisorNormalized < B)
    (hv : rc.reciprocal = reciprocalSpec rc.divisorNormalized)
    (hu2 : u2 ≤ rc.divisorNormalized) (hu1 : u1 < B) (hu0 : u0 < B) (hv0 : v0 < B) :
    d3bodyD p u2 u1 u0 rc v0 = .ok (div3by2 u2 u1 u0 rc v0) := by
  have hu2B : u2 < B := by omega
  obtain ⟨quo, rem, hinit, hquo, hrem, hinv, hsel⟩ := div3by2_init hd1 hd2 hv hu2 hu1
  have hsum : u2 + u1 < B * B := by
    have : 2 * B ≤ B * B := by decide
    omega
  have e1 := fromWordEqD_total p hu2B hd2
  have e2 := div2by1D_ok p hd1 hd2 hv hsel hu1
  have e3 := addWW_ok p hsum
  have e4 := d3tailD_ok p hu0 hv0 hd2 hquo hrem hinv
  rw [div3by2_eq, hinit, ← e4, ← hinit]
  simp only [d3bodyD, e1, e2, e3, bind, Except.bind]

/-- `div3by2D` does not trap on the domain of `div3by2` (normalised divisor, `shift = 0`, `u2 ≤ v1`),
    in either build, and returns `div3by2` — including the `div2by1` call whose first operand is
    masked to 0 when `u2 = v1` (the discarded side of `q_maxed`) -/
theorem div3by2D_ok (p : Profile) {rc : Reciprocal} {u2 u1 u0 v0 : Nat}
    (hsh : rc.shift = 0)
    (hd1 : HALF ≤ rc.divisorNormalized) (hd2 : rc.divisorNormalized < B)
    (hv : rc.reciprocal = reciprocalSpec rc.divisorNormalized)
    (hu2 : u2 ≤ rc.divisorNormalized) (hu1 : u1 < B) (hu0 : u0 < B) (hv0 : v0 < B) :
    div3by2D p u2 u1 u0 rc v0 = .ok (div3by2 u2 u1 u0 rc v0) := by
  have h1 : dassert p (rc.shift == 0) "div3by2: shift == 0" = .ok () := by simp [dassert, hsh]
  have h2 : dassert p (decide (u2 ≤ rc.divisorNormalized)) "div3by2: u2 <= d" = .ok () := by
    simp [dassert, hu2]
  rw [div3by2D_eq, ← d3bodyD_ok p hd1 hd2 hv hu2 hu1 hu0 hv0]
  simp only [h1, h2, bind, Except.bind]

end CB.Panic
