/-
  CB.Lemmas.GenBitsModular — what ONE ROUND of each translated loop of the modular add / sub / neg layer is, and what the
  straight-line functions around the chains are (CB/Gen/Modular.lean: the `impl Limb` bitwise helpers, the
  `while i < LIMBS` loops of `Uint::{bitand_limb, bitand, overflowing_shl1, neg_mod}`, `Uint::from_word`, and the
  compositions `add_mod`, `double_mod`, `add_mod_special`, `sub_mod`, `sub_mod_with_carry`, `sub_mod_special`, `neg_mod`,
  `neg_mod_special`, `{add,double,sub}_montgomery_form`; regenerated from /repo's source on every run by tools/translate.py).

  Like GenBitsChains*.lean this is the only file of the layer that looks at the generated TEXT: every lemma unfolds the
  generated definitions (`rw [Modular.Uint.x_loop1]`, `simp only [gen_defs]`) and, where the two sides are not already
  identical, decides the words with `bv_decide` (through `chain_congr`, which keeps the recursive calls, the limb chains
  and `List.set` folded and compares their arguments).  The right-hand sides name the chain functions of CB/Gen/Chains.lean
  (`Chains.Uint.adc`, `sbb`, `wrapping_add`, `wrapping_sub`, `is_nonzero`) whose bridges are in GenChains{Sub,,Cmp}.lean.
  The inductions over the limb count and the compositions with the chain bridges are in CB/Lemmas/GenModular.lean
  (no `bv_decide`).

  `bv_decide` file: its name matches `*Bits*`.
-/
import CB.Gen.Modular
import CB.Lemmas.GenBitsChains
import CB.Lemmas.GenBitsChainsAdd
import CB.Lemmas.GenBitsChainsCmp
import Std.Tactic.BVDecide
namespace CB.GenBits
open CB.Gen

/-! ## `impl Limb`: the bitwise helpers are the word operations -/

theorem mlimb_bitand_eq (a m : BitVec 64) : Modular.Limb.bitand a m = a &&& m := by round_eq
theorem mlimb_bitor_eq (a m : BitVec 64) : Modular.Limb.bitor a m = a ||| m := by round_eq
theorem mlimb_not_eq (a : BitVec 64) : Modular.Limb.not a = ~~~a := by round_eq
theorem mlimb_wrapping_neg_eq (a : BitVec 64) : Modular.Limb.wrapping_neg a = -a := by round_eq
theorem mlimb_shl1_eq (a : BitVec 64) : Modular.Limb.shl1 a = (a <<< 1, a >>> 63) := by round_eq

/-! ## word facts used by the bridges (model word on `toNat` = bit-vector operation) -/

/-- `(limb << 1)` of the model -/
theorem shl1_word_bv (x : BitVec 64) : (x.toNat * 2) % B = (x <<< 1).toNat := by
  have e : x <<< 1 = x * 2#64 := by bv_decide
  rw [e, BitVec.toNat_mul]
  rfl

/-- the mask of `sub_mod_with_carry`: `carry.wrapping_neg().not().bitand(borrow)` -/
theorem subcarry_mask_bv (carry borrow : BitVec 64) :
    (wnot (wneg carry.toNat)) &&& borrow.toNat = ((~~~(-carry)) &&& borrow).toNat := by
  rw [wneg_bv, wnot_bv, BitVec.toNat_and]

/-- the word `l` of `add_mod_special`: `carry.0.wrapping_sub(1) & c.0` -/
theorem addspecial_word_bv (carry c : BitVec 64) :
    (wsub carry.toNat 1) &&& c.toNat = ((carry - 1#64) &&& c).toNat := by
  have h := wsub_bv carry 1#64
  rw [show (1#64).toNat = 1 from rfl] at h
  rw [h, BitVec.toNat_and]

/-! ## `Uint::bitand_limb` -/

theorem bitand_limb_loop_zero (L : Nat) (a : List (BitVec 64)) (m : BitVec 64) (i : Nat) (limbs : List (BitVec 64)) :
    Modular.Uint.bitand_limb_loop1 L a m 0 i limbs = limbs := by
  rw [Modular.Uint.bitand_limb_loop1]

theorem bitand_limb_loop_succ (L : Nat) (a : List (BitVec 64)) (m : BitVec 64) (n i : Nat) (limbs : List (BitVec 64))
    (h : i < L) :
    Modular.Uint.bitand_limb_loop1 L a m (n + 1) i limbs =
      Modular.Uint.bitand_limb_loop1 L a m n (i + 1) (limbs.set i (a.getD i 0#64 &&& m)) := by
  rw [Modular.Uint.bitand_limb_loop1, if_pos h] <;> round_eq

theorem bitand_limb_eq_loop (L : Nat) (a : List (BitVec 64)) (m : BitVec 64) :
    Modular.Uint.bitand_limb L a m = Modular.Uint.bitand_limb_loop1 L a m L 0 (List.replicate L 0#64) := by
  round_eq

/-! ## `Uint::bitand` -/

theorem bitand_loop_zero (L : Nat) (a b : List (BitVec 64)) (i : Nat) (limbs : List (BitVec 64)) :
    Modular.Uint.bitand_loop1 L a b 0 i limbs = limbs := by
  rw [Modular.Uint.bitand_loop1]

theorem bitand_loop_succ (L : Nat) (a b : List (BitVec 64)) (n i : Nat) (limbs : List (BitVec 64)) (h : i < L) :
    Modular.Uint.bitand_loop1 L a b (n + 1) i limbs =
      Modular.Uint.bitand_loop1 L a b n (i + 1) (limbs.set i (a.getD i 0#64 &&& b.getD i 0#64)) := by
  rw [Modular.Uint.bitand_loop1, if_pos h] <;> round_eq

theorem bitand_eq_loop (L : Nat) (a b : List (BitVec 64)) :
    Modular.Uint.bitand L a b = Modular.Uint.bitand_loop1 L a b L 0 (List.replicate L 0#64) := by
  round_eq

/-! ## `Uint::from_word` -/

theorem from_word_eq (L : Nat) (w : BitVec 64) :
    Modular.Uint.from_word L w = (List.replicate L 0#64).set 0 w := by
  round_eq

/-! ## `Uint::overflowing_shl1` -/

theorem shl1_loop_zero (L : Nat) (a : List (BitVec 64)) (i : Nat) (ret : List (BitVec 64)) (c : BitVec 64) :
    Modular.Uint.overflowing_shl1_loop1 L a 0 i ret c = (ret, c) := by
  rw [Modular.Uint.overflowing_shl1_loop1]

theorem shl1_loop_succ (L : Nat) (a : List (BitVec 64)) (n i : Nat) (ret : List (BitVec 64)) (c : BitVec 64)
    (h : i < L) :
    Modular.Uint.overflowing_shl1_loop1 L a (n + 1) i ret c =
      Modular.Uint.overflowing_shl1_loop1 L a n (i + 1) (ret.set i ((a.getD i 0#64 <<< 1) ||| c))
        (a.getD i 0#64 >>> 63) := by
  rw [Modular.Uint.overflowing_shl1_loop1, if_pos h] <;> round_eq

theorem overflowing_shl1_eq_loop (L : Nat) (a : List (BitVec 64)) :
    Modular.Uint.overflowing_shl1 L a =
      Modular.Uint.overflowing_shl1_loop1 L a L 0 (List.replicate L 0#64) 0#64 := by
  round_eq

/-! ## the common tail of `add_mod` / `double_mod`, and the compositions -/

/-- `w.sbb(p, 0)`, `mask = carry.sbb(0, borrow).1`, `w' + (p & mask)` — over the translated chains -/
def addModTailG (L : Nat) (w : List (BitVec 64)) (carry : BitVec 64) (p : List (BitVec 64)) : List (BitVec 64) :=
  Chains.Uint.wrapping_add L (Chains.Uint.sbb L w p 0#64).1
    (Modular.Uint.bitand_limb L p (Prim.sbb carry 0#64 (Chains.Uint.sbb L w p 0#64).2).2)

theorem add_mod_eq (L : Nat) (a b p : List (BitVec 64)) :
    Modular.Uint.add_mod L a b p =
      addModTailG L (Chains.Uint.adc L a b 0#64).1 (Chains.Uint.adc L a b 0#64).2 p := by
  unfold addModTailG; round_eq

theorem double_mod_eq (L : Nat) (a p : List (BitVec 64)) :
    Modular.Uint.double_mod L a p =
      addModTailG L (Modular.Uint.overflowing_shl1 L a).1 (Modular.Uint.overflowing_shl1 L a).2 p := by
  unfold addModTailG; round_eq

theorem add_mod_special_eq (L : Nat) (a b : List (BitVec 64)) (c : BitVec 64) :
    Modular.Uint.add_mod_special L a b c =
      Chains.Uint.wrapping_sub L (Chains.Uint.adc L a b c).1
        (Modular.Uint.from_word L (((Chains.Uint.adc L a b c).2 - 1#64) &&& c)) := by
  round_eq

theorem sub_mod_eq (L : Nat) (a b p : List (BitVec 64)) :
    Modular.Uint.sub_mod L a b p =
      Chains.Uint.wrapping_add L (Chains.Uint.sbb L a b 0#64).1
        (Modular.Uint.bitand_limb L p (Chains.Uint.sbb L a b 0#64).2) := by
  round_eq

theorem sub_mod_with_carry_eq (L : Nat) (a : List (BitVec 64)) (carry : BitVec 64) (b p : List (BitVec 64)) :
    Modular.Uint.sub_mod_with_carry L a carry b p =
      Chains.Uint.wrapping_add L (Chains.Uint.sbb L a b 0#64).1
        (Modular.Uint.bitand_limb L p ((~~~(-carry)) &&& (Chains.Uint.sbb L a b 0#64).2)) := by
  round_eq

theorem sub_mod_special_eq (L : Nat) (a b : List (BitVec 64)) (c : BitVec 64) :
    Modular.Uint.sub_mod_special L a b c =
      Chains.Uint.wrapping_sub L (Chains.Uint.sbb L a b 0#64).1
        (Modular.Uint.from_word L ((Chains.Uint.sbb L a b 0#64).2 &&& c)) := by
  round_eq

/-! ## `Uint::neg_mod`, `neg_mod_special` -/

theorem neg_mod_loop_zero (L : Nat) (z : BitVec 64) (i : Nat) (ret : List (BitVec 64)) :
    Modular.Uint.neg_mod_loop1 L z 0 i ret = ret := by
  rw [Modular.Uint.neg_mod_loop1]

theorem neg_mod_loop_succ (L : Nat) (z : BitVec 64) (n i : Nat) (ret : List (BitVec 64)) (h : i < L) :
    Modular.Uint.neg_mod_loop1 L z (n + 1) i ret =
      Modular.Uint.neg_mod_loop1 L z n (i + 1) (ret.set i (ret.getD i 0#64 &&& z)) := by
  rw [Modular.Uint.neg_mod_loop1, if_pos h] <;> round_eq

theorem neg_mod_eq_loop (L : Nat) (a p : List (BitVec 64)) :
    Modular.Uint.neg_mod L a p =
      Modular.Uint.neg_mod_loop1 L (Chains.Uint.is_nonzero L a) L 0 (Chains.Uint.sbb L p a 0#64).1 := by
  round_eq

theorem neg_mod_special_eq (L : Nat) (a : List (BitVec 64)) (c : BitVec 64) :
    Modular.Uint.neg_mod_special L a c = Modular.Uint.sub_mod_special L (List.replicate L 0#64) a c := by
  round_eq

/-! ## the Montgomery-form forwarders (src/modular/{add,sub}.rs) -/

theorem add_montgomery_form_eq (L : Nat) (a b m : List (BitVec 64)) :
    Modular.Form.add_montgomery_form L a b m = Modular.Uint.add_mod L a b m := by round_eq
theorem double_montgomery_form_eq (L : Nat) (a m : List (BitVec 64)) :
    Modular.Form.double_montgomery_form L a m = Modular.Uint.double_mod L a m := by round_eq
theorem sub_montgomery_form_eq (L : Nat) (a b m : List (BitVec 64)) :
    Modular.Form.sub_montgomery_form L a b m = Modular.Uint.sub_mod L a b m := by round_eq

end CB.GenBits
