/-
  CB.Lemmas.C10Crt — trailing zeros, the CRT recombination of `inv_mod`, and the reduction of
  `gcd` to the odd-operand gcd (CB.Model.InvMod2k, CB.Model.Gcd).
-/
import CB.Lemmas.C10InvMod2k
import Mathlib.Data.Nat.GCD.Basic
namespace CB.InvMod2k

/-! ### trailing zeros -/

theorem tzNat_le (fuel x : Nat) : tzNat fuel x ≤ fuel := by
  induction fuel generalizing x with
  | zero => simp [tzNat]
  | succ n ih =>
    unfold tzNat
    split
    · omega
    · have := ih (x / 2); omega

/-- for `0 < x < 2^fuel`: `x = s · 2^tz` with `s` odd and `tz < fuel` -/
theorem tzNat_spec : ∀ fuel x, 0 < x → x < 2 ^ fuel →
    tzNat fuel x < fuel ∧ x / 2 ^ tzNat fuel x * 2 ^ tzNat fuel x = x ∧
    (x / 2 ^ tzNat fuel x) % 2 = 1 := by
  intro fuel
  induction fuel with
  | zero => intro x h0 h1; simp at h1; omega
  | succ n ih =>
    intro x h0 h1
    unfold tzNat
    by_cases hodd : x % 2 = 1
    · simp [hodd]
    · rw [if_neg hodd]
      have hx2 : 0 < x / 2 := by omega
      have hlt : x / 2 < 2 ^ n := by rw [Nat.pow_succ] at h1; omega
      obtain ⟨a1, a2, a3⟩ := ih (x / 2) hx2 hlt
      have e : x / 2 ^ (1 + tzNat n (x / 2)) = x / 2 / 2 ^ tzNat n (x / 2) := by
        rw [Nat.pow_add, Nat.pow_one, Nat.div_div_eq_div_mul]
      refine ⟨by omega, ?_, ?_⟩
      · rw [e, Nat.pow_add, Nat.pow_one]
        generalize x / 2 / 2 ^ tzNat n (x / 2) = q at *
        generalize 2 ^ tzNat n (x / 2) = p at *
        have : q * (2 * p) = 2 * (q * p) := by ring
        rw [this, a2]; omega
      · rw [e]; exact a3

theorem tzNat_zero (fuel : Nat) : tzNat fuel 0 = fuel := by
  induction fuel with
  | zero => rfl
  | succ n ih => unfold tzNat; simp [ih]; omega

theorem coprime_two_iff (a : Nat) : Nat.Coprime a 2 ↔ a % 2 = 1 := by
  unfold Nat.Coprime
  rw [Nat.gcd_comm, Nat.gcd_rec]
  rcases Nat.mod_two_eq_zero_or_one a with h | h <;> simp [h]

theorem coprime_two_pow_iff (a k : Nat) : Nat.Coprime a (2 ^ k) ↔ (k = 0 ∨ a % 2 = 1) := by
  rcases Nat.eq_zero_or_pos k with h | h
  · subst h; simp
  · rw [Nat.coprime_pow_right_iff h, coprime_two_iff]
    constructor
    · intro h1; exact Or.inr h1
    · rintro (h1 | h1)
      · omega
      · exact h1

/-! ### the recombination -/

theorem wsub_pow_one {w k : Nat} (hk : k < w) : wsubW w (2 ^ k) 1 = 2 ^ k - 1 := by
  unfold wsubW
  have h1 : (1 : Nat) < 2 ^ w := Nat.one_lt_two_pow (by omega)
  have h2 : 2 ^ k < 2 ^ w := Nat.pow_lt_pow_right (by omega) hk
  have h3 : 0 < 2 ^ k := Nat.two_pow_pos k
  rw [Nat.mod_eq_of_lt h1]
  have : 2 ^ k + 2 ^ w - 1 = (2 ^ k - 1) + 2 ^ w := by omega
  rw [this, Nat.add_mod_right, Nat.mod_eq_of_lt (by omega)]

/-- Garner step of `inv_mod` on values. -/
theorem crt_core {w s k a xs b si : Nat} (hk : k < w) (hm : s * 2 ^ k < 2 ^ w)
    (hs : Nat.Coprime s (2 ^ k))
    (hxs : xs < s ∨ (s = 1 ∧ xs = 1)) (hax : a * xs ≡ 1 [MOD s])
    (hb : b < 2 ^ k) (hab : a * b ≡ 1 [MOD 2 ^ k])
    (hsi : s * si ≡ 1 [MOD 2 ^ k]) :
    let t := ((wsubW w b xs * si) % 2 ^ w) &&& (wsubW w (2 ^ k) 1)
    let r := (xs + (s * t) % 2 ^ w) % 2 ^ w
    (r < s * 2 ^ k ∨ (s * 2 ^ k = 1 ∧ r = 1)) ∧ a * r ≡ 1 [MOD s * 2 ^ k] := by
  intro t r
  have hd : 2 ^ k ∣ 2 ^ w := Nat.pow_dvd_pow 2 (by omega)
  have ht : t = (wsubW w b xs * si) % 2 ^ k := by
    show ((wsubW w b xs * si) % 2 ^ w) &&& (wsubW w (2 ^ k) 1) = _
    rw [wsub_pow_one hk, Nat.and_two_pow_sub_one_eq_mod, Nat.mod_mod_of_dvd _ hd]
  have htlt : t < 2 ^ k := by rw [ht]; exact Nat.mod_lt _ (Nat.two_pow_pos k)
  have hpos : 0 < 2 ^ k := Nat.two_pow_pos k
  -- no overflow: xs + s·t ≤ s·2^k − 1 (for the unit modulus with xs = 1: ≤ 2^k)
  have hst1 : s * t ≤ s * (2 ^ k - 1) := Nat.mul_le_mul_left s (by omega)
  have hst2 : s * (2 ^ k - 1) = s * 2 ^ k - s := by rw [Nat.mul_sub, Nat.mul_one]
  have hst3 : s ≤ s * 2 ^ k := Nat.le_mul_of_pos_right s hpos
  have hbound : xs + s * t < s * 2 ^ k ∨ (s = 1 ∧ xs = 1 ∧ xs + s * t ≤ s * 2 ^ k) := by
    rcases hxs with h | ⟨h1, h2⟩
    · left; omega
    · right; refine ⟨h1, h2, ?_⟩; omega
  have hle : xs + s * t ≤ s * 2 ^ k := by
    rcases hbound with h | ⟨_, _, h⟩
    · omega
    · exact h
  have hst : s * t < 2 ^ w := by omega
  have hr : r = xs + s * t := by
    show (xs + (s * t) % 2 ^ w) % 2 ^ w = _
    rw [Nat.mod_eq_of_lt hst, Nat.mod_eq_of_lt (by omega)]
  -- the two congruences do not depend on the size of xs
  have hmod2k : xs + s * t ≡ b [MOD 2 ^ k] := by
    have hw1 : wsubW w b xs + xs ≡ b [MOD 2 ^ k] := Nat.ModEq.of_dvd hd wsubW_modEq
    have ht2 : t ≡ wsubW w b xs * si [MOD 2 ^ k] := by
      rw [ht]; exact Nat.mod_modEq _ _
    have h1 : s * t ≡ (s * si) * wsubW w b xs [MOD 2 ^ k] := by
      have := Nat.ModEq.mul_left s ht2
      have e : s * (wsubW w b xs * si) = (s * si) * wsubW w b xs := by ring
      rw [e] at this; exact this
    have h2 : (s * si) * wsubW w b xs ≡ 1 * wsubW w b xs [MOD 2 ^ k] := Nat.ModEq.mul_right _ hsi
    have := Nat.ModEq.add_left xs (h1.trans h2)
    rw [Nat.one_mul] at this
    rw [Nat.add_comm] at hw1
    exact this.trans hw1
  refine ⟨?_, ?_⟩
  · rw [hr]
    rcases hbound with h | ⟨h1, h2, _⟩
    · left; exact h
    · -- unit modulus, xs = 1: xs + t = 2^k would force b = 0, impossible unless k = 0
      by_cases hlt : xs + s * t < s * 2 ^ k
      · left; exact hlt
      · right
        have heq : xs + s * t = s * 2 ^ k := by omega
        have hb0 : b % 2 ^ k = 0 := by
          have := hmod2k
          unfold Nat.ModEq at this
          rw [heq, h1, Nat.one_mul, Nat.mod_self] at this
          exact this.symm
        have hbz : b = 0 := by rw [Nat.mod_eq_of_lt hb] at hb0; exact hb0
        have h2k : 2 ^ k = 1 := by
          have := hab
          unfold Nat.ModEq at this
          rw [hbz, Nat.mul_zero, Nat.zero_mod] at this
          by_contra hne
          have : 1 % 2 ^ k = 1 := Nat.mod_eq_of_lt (by omega)
          omega
        refine ⟨by rw [h1, h2k], ?_⟩
        rw [heq, h1, h2k]
  rw [hr]
  apply (Nat.modEq_and_modEq_iff_modEq_mul hs).mp
  constructor
  · -- modulo s
    have : a * (xs + s * t) = a * xs + s * (a * t) := by ring
    rw [this]
    have h0 : a * xs + s * (a * t) ≡ a * xs [MOD s] := by
      unfold Nat.ModEq; simp
    exact h0.trans hax
  · -- modulo 2^k : xs + s·t ≡ b
    exact (Nat.ModEq.mul_left a hmod2k).trans hab

end CB.InvMod2k

namespace CB.InvMod2k

/-- What `inv_mod` needs of the odd-modulus inverter `inv a s` (`Uint::inv_odd_mod`): for odd
    `s < 2^w` it answers `some x` exactly when `gcd(a, s) = 1`, with `x < s`, `a·x ≡ 1 (mod s)`.
    For the unit modulus `s = 1` the real inverter may answer `1` instead of `0` (it does for
    `a = 1`: the adjuster `ONE` is not `< s`), which the property allows (range only for `m ≥ 2`). -/
def OddInvSpec (inv : Nat → Nat → Option Nat) (w : Nat) : Prop :=
  ∀ a s, a < 2 ^ w → s < 2 ^ w → s % 2 = 1 →
    match inv a s with
    | some x => Nat.gcd a s = 1 ∧ (x < s ∨ (s = 1 ∧ x = 1)) ∧ a * x ≡ 1 [MOD s]
    | none => Nat.gcd a s ≠ 1

theorem invMod2k_snd (w a k : Nat) : (invMod2k w a k).2 = (decide (k = 0) || decide (a % 2 = 1)) := rfl

theorem inv2k_zero (w a : Nat) : (invMod2k w a 0).1 = 0 := by
  rw [ct_eq_ref (Nat.zero_le w)]; rfl

theorem invMod2k_spec {w a k : Nat} (hk : k ≤ w) (ha : a % 2 = 1) :
    (invMod2k w a k).1 < 2 ^ k ∧ a * (invMod2k w a k).1 ≡ 1 [MOD 2 ^ k] := by
  rw [ct_eq_ref hk]; exact ref_spec hk ha

theorem invModWith_spec (inv : Nat → Nat → Option Nat) (w a m : Nat) (H : OddInvSpec inv w)
    (ha : a < 2 ^ w) (hm0 : 0 < m) (hm : m < 2 ^ w) :
    match invModWith inv w a m with
    | R.some x => Nat.gcd a m = 1 ∧ (x < m ∨ (m = 1 ∧ x = 1)) ∧ a * x ≡ 1 [MOD m]
    | R.none => Nat.gcd a m ≠ 1
    | R.panic => False := by
  obtain ⟨hk, hmul, hsodd⟩ := tzNat_spec w m hm0 hm
  generalize hkdef : tzNat w m = k at hk hmul hsodd
  generalize hsdef : m / 2 ^ k = s at hmul hsodd
  have hpos : 0 < 2 ^ k := Nat.two_pow_pos k
  have hs_lt : s < 2 ^ w := by
    have : s ≤ s * 2 ^ k := Nat.le_mul_of_pos_right s hpos
    omega
  have hcop : Nat.Coprime s (2 ^ k) := ((coprime_two_pow_iff s k).mpr (Or.inr hsodd))
  have hsi := invMod2k_spec (w := w) (a := s) (k := k) (by omega) hsodd
  have hsi2 : (invMod2k w s k).2 = true := by rw [invMod2k_snd]; simp [hsodd]
  have hgcd : Nat.gcd a m = 1 ↔ (Nat.gcd a s = 1 ∧ (k = 0 ∨ a % 2 = 1)) := by
    rw [← hmul]
    have := @Nat.coprime_mul_iff_right a s (2 ^ k)
    unfold Nat.Coprime at this
    rw [this]
    have h2 := coprime_two_pow_iff a k
    unfold Nat.Coprime at h2
    rw [h2]
  have hspec := H a s ha hs_lt hsodd
  unfold invModWith tz
  simp only [hkdef, if_pos hk, hsdef, hsi2, Bool.not_true, Bool.false_eq_true, if_false,
    hsodd, decide_true, Bool.and_true]
  cases hinv : inv a s with
  | none =>
    rw [hinv] at hspec
    simp only [Option.isSome_none, Bool.false_and, Bool.false_eq_true, if_false]
    intro h; exact hspec (hgcd.mp h).1
  | some xs =>
    rw [hinv] at hspec
    obtain ⟨hg, hxs, hax⟩ := hspec
    simp only [Option.isSome_some, Bool.true_and, if_true, Option.getD_some]
    by_cases hb : (k = 0 ∨ a % 2 = 1)
    · have hb2 : (invMod2k w a k).2 = true := by rw [invMod2k_snd]; simpa using hb
      simp only [hb2, if_true]
      have hbs : (invMod2k w a k).1 < 2 ^ k ∧ a * (invMod2k w a k).1 ≡ 1 [MOD 2 ^ k] := by
        rcases hb with h0 | h1
        · subst h0
          rw [inv2k_zero]
          simp [Nat.ModEq, Nat.mod_one]
        · exact invMod2k_spec (by omega) h1
      have := crt_core (w := w) (s := s) (k := k) (a := a) (xs := xs) (b := (invMod2k w a k).1)
        (si := (invMod2k w s k).1) hk (by rw [hmul]; exact hm) hcop hxs hax hbs.1 hbs.2 hsi.2
      simp only at this
      rw [hmul] at this
      exact ⟨hgcd.mpr ⟨hg, hb⟩, this.1, this.2⟩
    · have hb2 : (invMod2k w a k).2 = false := by
        rw [invMod2k_snd]
        have : ¬ k = 0 ∧ ¬ a % 2 = 1 := by
          constructor
          · intro h; exact hb (Or.inl h)
          · intro h; exact hb (Or.inr h)
        simp [this.1, this.2]
      simp only [hb2, Bool.false_eq_true, if_false]
      intro h; exact hb (hgcd.mp h).2

end CB.InvMod2k
