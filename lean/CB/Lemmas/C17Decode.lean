/-
  CB.Lemmas.C17Decode — the digit-batch decoder (`radix_decode_str_digits`) computes the value of
  the numeral, reports `InputSize` exactly on overflow and never reads out of bounds.
-/
import CB.Lemmas.C17Numeral
import CB.Lemmas.Chains
namespace CB.Radix
open CB

/-! ### the byte classifier -/

theorem matchDigit_eq (radix b : Nat) :
    matchDigit radix b = if b = 95 then none else some ((charDigit? b).getD radix) := by
  unfold matchDigit charDigit?
  by_cases h1 : 48 ≤ b ∧ b ≤ 57
  · simp only [if_pos h1, if_neg (show ¬ b = 95 by omega), Option.getD_some]
  · by_cases h2 : 97 ≤ b ∧ b ≤ 122
    · simp only [if_neg h1, if_pos h2, if_neg (show ¬ b = 95 by omega), Option.getD_some]
      congr 1; omega
    · by_cases h3 : 65 ≤ b ∧ b ≤ 90
      · simp only [if_neg h1, if_neg h2, if_pos h3, if_neg (show ¬ b = 95 by omega), Option.getD_some]
        congr 1; omega
      · simp only [if_neg h1, if_neg h2, if_neg h3, Option.getD_none]

theorem bodyDigits_us (r : Nat) (bs : List Nat) : bodyDigits r (95 :: bs) = bodyDigits r bs := by
  simp [bodyDigits]

theorem bodyDigits_cons_ne {r b : Nat} (bs : List Nat) (hb : b ≠ 95) :
    bodyDigits r (b :: bs) =
      if (charDigit? b).getD r < r then (bodyDigits r bs).map ((charDigit? b).getD r :: ·) else none := by
  rw [bodyDigits, if_neg hb]
  cases h : charDigit? b with
  | none => simp
  | some d => simp

theorem readBatch_cons (radix k b : Nat) (rest buf : List Nat) :
    readBatch radix k (b :: rest) buf =
      if b = 95 then readBatch radix k rest buf
      else if (charDigit? b).getD radix ≥ radix then .error .invalidDigit
      else if rest.isEmpty ∨ (buf ++ [(charDigit? b).getD radix]).length = k then
        .ok (buf ++ [(charDigit? b).getD radix], rest)
      else readBatch radix k rest (buf ++ [(charDigit? b).getD radix]) := by
  rw [readBatch, matchDigit_eq]
  by_cases hb : b = 95
  · simp [hb]
  · simp [hb]

/-- what one pass of the inner `loop` does -/
theorem readBatch_spec {radix k : Nat} :
    ∀ (digits buf : List Nat), digits ≠ [] → digits.getLast? ≠ some 95 → buf.length < k →
    match readBatch radix k digits buf with
    | .ok (buf', rest) => ∃ ds, buf' = buf ++ ds ∧ ds ≠ [] ∧ (∀ d ∈ ds, d < radix) ∧ buf'.length ≤ k ∧
        (rest = [] ∨ buf'.length = k) ∧ rest.length < digits.length ∧
        (rest ≠ [] → rest.getLast? ≠ some 95) ∧
        bodyDigits radix digits = (bodyDigits radix rest).map (ds ++ ·)
    | .error e => e = .invalidDigit ∧ bodyDigits radix digits = none := by
  intro digits
  induction digits with
  | nil => intro _ h; exact absurd rfl h
  | cons b rest ih =>
    intro buf _ hlast hbuf
    rw [readBatch_cons]
    by_cases hb : b = 95
    · subst hb
      have hrest : rest ≠ [] := by
        intro h; subst h; simp at hlast
      have hlast' : rest.getLast? ≠ some 95 := by
        rw [List.getLast?_cons_of_ne_nil hrest] at hlast; exact hlast
      rw [if_pos rfl]
      have := ih buf hrest hlast' hbuf
      cases hr : readBatch radix k rest buf with
      | error e =>
        rw [hr] at this
        exact ⟨this.1, by rw [bodyDigits_us]; exact this.2⟩
      | ok p =>
        rw [hr] at this
        obtain ⟨ds, h1, h2, h3, h4, h5, h6, h7, h8⟩ := this
        exact ⟨ds, h1, h2, h3, h4, h5, by simp only [List.length_cons]; omega, h7,
          by rw [bodyDigits_us]; exact h8⟩
    · rw [if_neg hb]
      generalize hd : (charDigit? b).getD radix = d
      have hbd := bodyDigits_cons_ne (r := radix) rest hb
      rw [hd] at hbd
      by_cases hge : d ≥ radix
      · rw [if_pos hge]
        exact ⟨rfl, by rw [hbd, if_neg (by omega)]⟩
      · rw [if_neg hge]
        have hdl : d < radix := by omega
        rw [if_pos hdl] at hbd
        have hlast' : rest ≠ [] → rest.getLast? ≠ some 95 := by
          intro hrest
          rw [List.getLast?_cons_of_ne_nil hrest] at hlast; exact hlast
        by_cases hstop : rest.isEmpty ∨ (buf ++ [d]).length = k
        · rw [if_pos hstop]
          refine ⟨[d], rfl, by simp, ?_, ?_, ?_, by simp, hlast', ?_⟩
          · intro x hx; simp at hx; omega
          · simp only [List.length_append, List.length_singleton]; omega
          · rcases hstop with h | h
            · left; simpa using h
            · right; exact h
          · rw [hbd]; rfl
        · rw [if_neg hstop]
          have hrest : rest ≠ [] := by
            intro h; apply hstop; left; simp [h]
          have hlen : (buf ++ [d]).length < k := by
            have : (buf ++ [d]).length ≠ k := fun h => hstop (Or.inr h)
            simp only [List.length_append, List.length_singleton] at this ⊢; omega
          have := ih (buf ++ [d]) hrest (hlast' hrest) hlen
          cases hr : readBatch radix k rest (buf ++ [d]) with
          | error e =>
            rw [hr] at this
            exact ⟨this.1, by rw [hbd, this.2]; rfl⟩
          | ok p =>
            rw [hr] at this
            obtain ⟨ds, h1, h2, h3, h4, h5, h6, h7, h8⟩ := this
            refine ⟨d :: ds, by rw [h1]; simp, by simp, ?_, h4, h5,
              by simp only [List.length_cons]; omega, h7, ?_⟩
            · intro x hx
              rcases List.mem_cons.mp hx with h | h
              · omega
              · exact h3 x h
            · rw [hbd, h8]
              cases bodyDigits radix p.2 <;> simp

/-! ### limb arithmetic of one batch -/

theorem macLimbs_spec {m : Nat} (hm : m < B) : ∀ (ls : List Nat) (c : Nat), WF ls → c < B →
    val (macLimbs m ls c).1 + B ^ ls.length * (macLimbs m ls c).2 = val ls * m + c ∧
    WF (macLimbs m ls c).1 ∧ (macLimbs m ls c).1.length = ls.length ∧ (macLimbs m ls c).2 < B := by
  intro ls
  induction ls with
  | nil => intro c _ hc; simp [macLimbs, hc]; exact WF_nil
  | cons l ls ih =>
    intro c hw hc
    have ⟨hl, hls⟩ := WF_cons.mp hw
    have hmac := mac_spec (a := 0) (b := l) (c := m) (carry := c) (by decide) hl hm hc
    obtain ⟨h1, h2, h3⟩ := hmac
    obtain ⟨i1, i2, i3, i4⟩ := ih (mac 0 l m c).2 hls h3
    simp only [macLimbs, val_cons, List.length_cons, Nat.pow_succ]
    refine ⟨?_, WF_cons.mpr ⟨h2, i2⟩, by rw [i3], i4⟩
    rw [Nat.mul_comm (B ^ ls.length) B, Nat.mul_assoc, Nat.add_mul, Nat.mul_assoc]
    have e : B * val (macLimbs m ls (mac 0 l m c).2).1 + B * (B ^ ls.length * (macLimbs m ls (mac 0 l m c).2).2)
        = B * (val ls * m + (mac 0 l m c).2) := by rw [← Nat.mul_add, i1]
    simp only [Nat.mul_add] at e
    omega

/-- the word loop `carry = carry * radix + c` is the positional value (no wrap below `B`) -/
theorem combineDigits_eq {radix : Nat} {buf : List Nat} (hd : ∀ d ∈ buf, d < radix)
    (hfit : radix ^ buf.length ≤ B) : combineDigits radix buf = ofDigits radix buf := by
  have key : ∀ (pre suf : List Nat), (∀ d ∈ pre ++ suf, d < radix) → radix ^ (pre ++ suf).length ≤ B →
      suf.foldl (fun c d => wadd (wmul c radix) d) (ofDigits radix pre) = ofDigits radix (pre ++ suf) := by
    intro pre suf
    induction suf generalizing pre with
    | nil => intro _ _; simp
    | cons d suf ih =>
      intro hall hfit
      rw [List.foldl_cons]
      have e : wadd (wmul (ofDigits radix pre) radix) d = ofDigits radix (pre ++ [d]) := by
        have hlt : ofDigits radix (pre ++ [d]) < radix ^ (pre ++ [d]).length :=
          ofDigits_lt (fun x hx => hall x (by
            rcases List.mem_append.mp hx with h | h
            · exact List.mem_append_left _ h
            · exact List.mem_append_right _ (by simp at h; simp [h])))
        have hle : radix ^ (pre ++ [d]).length ≤ radix ^ (pre ++ d :: suf).length := by
          by_cases hr : radix = 0
          · have : d < radix := hall d (by simp)
            omega
          · apply Nat.pow_le_pow_right (by omega)
            simp only [List.length_append, List.length_cons, List.length_nil]; omega
        rw [ofDigits_append] at hlt ⊢
        simp only [List.length_singleton, Nat.pow_one, ofDigits_cons, List.length_nil, Nat.pow_zero,
          Nat.mul_one, ofDigits_nil, Nat.add_zero] at hlt ⊢
        have hB : ofDigits radix pre * radix + d < B := by omega
        have h1 : ofDigits radix pre * radix < B := by omega
        simp only [wadd, wmul]
        rw [Nat.mod_eq_of_lt h1, Nat.mod_eq_of_lt hB]
      rw [e]
      have := ih (pre ++ [d]) (by simpa using hall) (by simpa using hfit)
      simpa using this
  have := key [] buf (by simpa using hd) (by simpa using hfit)
  simpa [combineDigits, ofDigits_nil] using this

/-! ### the outer loop -/

theorem val_append_singleton (l : List Nat) (w : Nat) : val (l ++ [w]) = val l + B ^ l.length * w := by
  induction l with
  | nil => simp
  | cons x xs ih =>
    simp only [List.cons_append, val_cons, ih, List.length_cons, Nat.pow_succ, Nat.mul_add]
    rw [Nat.mul_comm (B ^ xs.length) B, Nat.mul_assoc, Nat.add_assoc]

theorem WF_append_singleton {l : List Nat} {w : Nat} (hl : WF l) (hw : w < B) : WF (l ++ [w]) := by
  intro x hx
  rcases List.mem_append.mp hx with h | h
  · exact hl x h
  · simp at h; omega

/-- the slice target never holds more limbs than its capacity -/
def CapOK (t : Target) : Prop :=
  match t.cap with
  | some n => t.limbs.length ≤ n
  | none => True

/-- post-condition of decoding `digits` on top of the value already in `t` -/
def DecPost (radix : Nat) (digits : List Nat) (t : Target) (res : Except Err Target) : Prop :=
  (∀ ds, bodyDigits radix digits = some ds →
     match res with
     | .ok t' => val t'.limbs = val t.limbs * radix ^ ds.length + ofDigits radix ds ∧ WF t'.limbs ∧
         t'.cap = t.cap ∧ CapOK t'
     | .error e => e = .inputSize ∧
         ∃ n, t.cap = some n ∧ B ^ n ≤ val t.limbs * radix ^ ds.length + ofDigits radix ds) ∧
  (bodyDigits radix digits = none →
     match res with
     | .ok _ => False
     | .error e => e = .invalidDigit ∨ (e = .inputSize ∧ t.cap ≠ none))

theorem DecPost_step {radix : Nat} {digits rest dsc : List Nat} {t t2 : Target} {res : Except Err Target}
    (h8 : bodyDigits radix digits = (bodyDigits radix rest).map (dsc ++ ·))
    (hv : val t2.limbs = val t.limbs * radix ^ dsc.length + ofDigits radix dsc) (hc : t2.cap = t.cap)
    (h : DecPost radix rest t2 res) : DecPost radix digits t res := by
  constructor
  · intro ds hds
    rw [h8] at hds
    cases hr : bodyDigits radix rest with
    | none => rw [hr] at hds; simp at hds
    | some dsr =>
      rw [hr] at hds
      simp only [Option.map_some, Option.some.injEq] at hds
      subst hds
      have := h.1 dsr hr
      have e : val t2.limbs * radix ^ dsr.length + ofDigits radix dsr
          = val t.limbs * radix ^ (dsc ++ dsr).length + ofDigits radix (dsc ++ dsr) := by
        rw [hv, ofDigits_append, List.length_append, Nat.pow_add, Nat.add_mul, Nat.mul_assoc, Nat.add_assoc]
      cases res with
      | ok t' =>
        simp only at this ⊢
        rw [← e, ← hc]; exact this
      | error e' =>
        simp only at this ⊢
        rw [← e, ← hc]; exact this
  · intro hn
    rw [h8] at hn
    have hr : bodyDigits radix rest = none := by
      cases hr : bodyDigits radix rest with
      | none => rfl
      | some x => rw [hr] at hn; simp at hn
    have := h.2 hr
    cases res with
    | ok t' => exact this
    | error e' => simp only at this ⊢; rw [← hc]; exact this

theorem decodeDigitsLoop_spec {radix : Nat} (hr : 2 ≤ radix) :
    ∀ (fuel : Nat) (digits : List Nat) (k : Nat) (t : Target),
      digits.length ≤ fuel → (digits ≠ [] → digits.getLast? ≠ some 95) → 0 < k → radix ^ k < B →
      WF t.limbs → CapOK t →
      DecPost radix digits t (decodeDigitsLoop radix fuel digits k t) := by
  intro fuel
  induction fuel with
  | zero =>
    intro digits k t hlen _ _ _ hw hcap
    have : digits = [] := List.eq_nil_of_length_eq_zero (by omega)
    subst this
    simp only [decodeDigitsLoop, List.isEmpty_nil, if_true]
    constructor
    · intro ds hds
      simp only [bodyDigits, Option.some.injEq] at hds
      subst hds
      exact ⟨by simp [ofDigits_nil], hw, rfl, hcap⟩
    · intro h; simp [bodyDigits] at h
  | succ fuel ih =>
    intro digits k t hlen hlast hk hfit hw hcap
    by_cases hne : digits = []
    · subst hne
      simp only [decodeDigitsLoop, List.isEmpty_nil, if_true]
      constructor
      · intro ds hds
        simp only [bodyDigits, Option.some.injEq] at hds
        subst hds
        exact ⟨by simp [ofDigits_nil], hw, rfl, hcap⟩
      · intro h; simp [bodyDigits] at h
    · have hemp : digits.isEmpty = false := by
        cases digits with
        | nil => exact absurd rfl hne
        | cons _ _ => rfl
      rw [decodeDigitsLoop]
      simp only [hemp, Bool.false_eq_true, if_false]
      have hrb := readBatch_spec (radix := radix) (k := k) digits [] hne (hlast hne) (by simpa using hk)
      cases hr' : readBatch radix k digits [] with
      | error e =>
        rw [hr'] at hrb
        simp only
        constructor
        · intro ds hds; rw [hrb.2] at hds; simp at hds
        · intro _; left; exact hrb.1
      | ok p =>
        obtain ⟨buf, rest⟩ := p
        rw [hr'] at hrb
        obtain ⟨dsc, h1, h2, h3, h4, h5, h6, h7, h8⟩ := hrb
        simp only [List.nil_append] at h1
        subst h1
        simp only
        -- the (possibly shortened) batch size is the number of digits read
        have hk' : (if buf.length < k then buf.length else k) = buf.length := by
          split
          · rfl
          · omega
        rw [hk']
        have hpos : 0 < buf.length := by
          cases buf with
          | nil => exact absurd rfl h2
          | cons _ _ => simp
        have hpow : radix ^ buf.length ≤ radix ^ k := Nat.pow_le_pow_right (by omega) h4
        have hfit' : radix ^ buf.length < B := by omega
        have hmax : wpow radix buf.length = radix ^ buf.length := by
          rw [wpow, Nat.mod_eq_of_lt hfit']
        have hcomb : combineDigits radix buf = ofDigits radix buf := combineDigits_eq h3 (by omega)
        have hcarry : ofDigits radix buf < B := by
          have := ofDigits_lt h3; omega
        rw [hmax, hcomb]
        obtain ⟨m1, m2, m3, m4⟩ := macLimbs_spec hfit' t.limbs (ofDigits radix buf) hw hcarry
        generalize hm : macLimbs (radix ^ buf.length) t.limbs (ofDigits radix buf) = r at m1 m2 m3 m4
        have hrest_len : rest.length ≤ fuel := by omega
        by_cases hz : r.2 = 0
        · -- no new limb
          rw [if_neg (by simpa using hz)]
          refine DecPost_step (t := t) (t2 := { t with limbs := r.1 }) h8 ?_ rfl ?_
          · show val r.1 = _
            rw [hz] at m1; simpa using m1
          · exact ih rest buf.length _ hrest_len h7 hpos hfit' m2 (by
              unfold CapOK at hcap ⊢
              cases hcp : t.cap with
              | none => trivial
              | some n => rw [hcp] at hcap; show r.1.length ≤ n; rw [m3]; exact hcap)
        · rw [if_pos (by simpa using hz)]
          have hv2 : val (r.1 ++ [r.2]) = val t.limbs * radix ^ buf.length + ofDigits radix buf := by
            rw [val_append_singleton, m3]; exact m1
          have hw2 : WF (r.1 ++ [r.2]) := WF_append_singleton m2 m4
          have hcases : t.cap = none ∨ ∃ n, t.cap = some n := by
            cases t.cap with
            | none => left; rfl
            | some n => right; exact ⟨n, rfl⟩
          rcases hcases with hcp | ⟨n, hcp⟩
          · have hpush : ({ t with limbs := r.1 } : Target).push r.2
                = some { t with limbs := r.1 ++ [r.2] } := by simp [Target.push, hcp]
            rw [hpush]
            refine DecPost_step (t := t) (t2 := { t with limbs := r.1 ++ [r.2] }) h8 hv2 rfl ?_
            exact ih rest buf.length _ hrest_len h7 hpos hfit' hw2 (by unfold CapOK; simp [hcp])
          · by_cases hroom : r.1.length < n
            · have hpush : ({ t with limbs := r.1 } : Target).push r.2
                  = some { t with limbs := r.1 ++ [r.2] } := by simp [Target.push, hcp, hroom]
              rw [hpush]
              refine DecPost_step (t := t) (t2 := { t with limbs := r.1 ++ [r.2] }) h8 hv2 rfl ?_
              exact ih rest buf.length _ hrest_len h7 hpos hfit' hw2 (by
                unfold CapOK; simp [hcp]; omega)
            · have hpush : ({ t with limbs := r.1 } : Target).push r.2 = none := by
                simp [Target.push, hcp, hroom]
              rw [hpush]
              have hlen_n : t.limbs.length = n := by
                unfold CapOK at hcap; rw [hcp] at hcap; simp only at hcap; omega
              constructor
              · intro ds hds
                refine ⟨rfl, n, hcp, ?_⟩
                rw [h8] at hds
                cases hrr : bodyDigits radix rest with
                | none => rw [hrr] at hds; simp at hds
                | some dsr =>
                  rw [hrr] at hds
                  simp only [Option.map_some, Option.some.injEq] at hds
                  subst hds
                  rw [ofDigits_append, List.length_append, Nat.pow_add, ← Nat.mul_assoc, ← Nat.add_assoc,
                    ← Nat.add_mul, ← m1, hlen_n]
                  have hp : 0 < radix ^ dsr.length := Nat.pow_pos (by omega)
                  have h1 : B ^ n ≤ B ^ n * r.2 := Nat.le_mul_of_pos_right _ (by omega)
                  have h2 : val r.1 + B ^ n * r.2 ≤ (val r.1 + B ^ n * r.2) * radix ^ dsr.length :=
                    Nat.le_mul_of_pos_right _ hp
                  omega
              · intro _; right; exact ⟨rfl, by rw [hcp]; simp⟩

/-! ### preprocessing and the top level -/

theorem ilogGo_spec (r : Nat) : ∀ (f p k : Nat), p = r ^ k → p ≤ WMAX →
    r ^ (ilogGo r f p k) ≤ WMAX ∧ k ≤ ilogGo r f p k := by
  intro f
  induction f with
  | zero => intro p k hp hle; simp only [ilogGo]; subst hp; exact ⟨hle, Nat.le_refl _⟩
  | succ f ih =>
    intro p k hp hle
    simp only [ilogGo]
    split
    · next h =>
      have := ih (p * r) (k + 1) (by rw [hp, Nat.pow_succ]) h
      exact ⟨this.1, by omega⟩
    · subst hp; exact ⟨hle, Nat.le_refl _⟩

theorem ilog_spec {r : Nat} (h2 : 2 ≤ r) (h36 : r ≤ 36) : 0 < ilog r ∧ r ^ ilog r < B := by
  have h1 : (1 : Nat) * r ≤ WMAX := by simp only [WMAX_def]; omega
  have e : ilog r = ilogGo r 63 (1 * r) 1 := by
    simp only [ilog, ilogGo, if_pos h1]
  have := ilogGo_spec r 63 (1 * r) 1 (by simp) h1
  rw [e]
  refine ⟨by omega, ?_⟩
  have := this.1
  simp only [WMAX_def, B_def] at *
  omega

theorem charDigit_48 : charDigit? 48 = some 0 := by decide

theorem stripLeading_body {r : Nat} (hr : 0 < r) : ∀ (body : List Nat),
    (∀ ds, bodyDigits r body = some ds →
      ∃ ds', bodyDigits r (stripLeading body) = some ds' ∧ ofDigits r ds' = ofDigits r ds) ∧
    (bodyDigits r body = none → bodyDigits r (stripLeading body) = none) := by
  intro body
  induction body with
  | nil => exact ⟨fun ds h => ⟨ds, h, rfl⟩, fun h => h⟩
  | cons b bs ih =>
    by_cases h95 : b = 95
    · subst h95
      have e : stripLeading (95 :: bs) = stripLeading bs := by simp [stripLeading]
      rw [e, bodyDigits_us]; exact ih
    · by_cases h48 : b = 48
      · subst h48
        have e : stripLeading (48 :: bs) = stripLeading bs := by simp [stripLeading]
        have e2 : bodyDigits r (48 :: bs) = (bodyDigits r bs).map (0 :: ·) := by
          rw [bodyDigits_cons_ne bs (by decide), charDigit_48]
          simp [hr]
        rw [e, e2]
        constructor
        · intro ds hds
          cases hb : bodyDigits r bs with
          | none => rw [hb] at hds; simp at hds
          | some d0 =>
            rw [hb] at hds
            simp only [Option.map_some, Option.some.injEq] at hds
            subst hds
            obtain ⟨ds', h1, h2⟩ := ih.1 d0 hb
            exact ⟨ds', h1, by rw [h2, ofDigits_cons]; simp⟩
        · intro hn
          apply ih.2
          cases hb : bodyDigits r bs with
          | none => rfl
          | some d0 => rw [hb] at hn; simp at hn
      · have e : stripLeading (b :: bs) = b :: bs := by simp [stripLeading, h95, h48]
        rw [e]
        exact ⟨fun ds h => ⟨ds, h, rfl⟩, fun h => h⟩

theorem stripLeading_last : ∀ (body : List Nat), stripLeading body ≠ [] →
    (stripLeading body).getLast? = body.getLast? := by
  intro body
  induction body with
  | nil => intro h; exact absurd rfl h
  | cons b bs ih =>
    intro h
    by_cases hb : b = 48 ∨ b = 95
    · have e : stripLeading (b :: bs) = stripLeading bs := by simp only [stripLeading, if_pos hb]
      rw [e] at h ⊢
      have hbs : bs ≠ [] := by
        intro hh; subst hh; exact h rfl
      rw [ih h, List.getLast?_cons_of_ne_nil hbs]
    · have e : stripLeading (b :: bs) = b :: bs := by simp only [stripLeading, if_neg hb]
      rw [e]

theorem stripLeading_length_le : ∀ (body : List Nat), (stripLeading body).length ≤ body.length := by
  intro body
  induction body with
  | nil => simp [stripLeading]
  | cons b bs ih =>
    simp only [stripLeading]
    split
    · simp only [List.length_cons]; omega
    · exact Nat.le_refl _

/-- `specParse` only ever reports `Empty` or `InvalidDigit` -/
theorem specParse_error_kinds {r : Nat} {s : List Nat} {e : Err} (h : specParse r s = .error e) :
    e = .empty ∨ e = .invalidDigit := by
  unfold specParse at h
  simp only at h
  split at h
  · left; injection h with h; exact h.symm
  · split at h
    · right; injection h with h; exact h.symm
    · split at h
      · right; injection h with h; exact h.symm
      · exact absurd h (by simp)

/-- T17.2 for the digit-batch decoder (`radix_decode_str_digits`), any target -/
theorem decodeDigits_spec {radix : Nat} (h2 : 2 ≤ radix) (h36 : radix ≤ 36) (s : List Nat)
    (cap : Option Nat) :
    (∀ v, specParse radix s = .ok v →
      (∃ t, decodeDigits radix s ⟨cap, []⟩ = .ok t ∧ val t.limbs = v ∧ WF t.limbs ∧ CapOK t ∧ t.cap = cap) ∨
      (decodeDigits radix s ⟨cap, []⟩ = .error .inputSize ∧ ∃ n, cap = some n ∧ B ^ n ≤ v)) ∧
    (specParse radix s = .error .empty → decodeDigits radix s ⟨cap, []⟩ = .error .empty) ∧
    (specParse radix s = .error .invalidDigit →
      decodeDigits radix s ⟨cap, []⟩ = .error .invalidDigit ∨
      (decodeDigits radix s ⟨cap, []⟩ = .error .inputSize ∧ cap ≠ none)) := by
  unfold specParse decodeDigits preprocess
  simp only
  generalize stripPlus s = body
  by_cases hemp : body.isEmpty = true
  · simp only [hemp, if_true]
    exact ⟨fun v h => by simp at h, fun _ => trivial, fun h => by simp at h⟩
  · simp only [hemp, Bool.false_eq_true, if_false]
    by_cases hus : body.head? = some 95 ∨ body.getLast? = some 95
    · simp only [if_pos hus]
      exact ⟨fun v h => by simp at h, fun h => by simp at h, fun _ => Or.inl trivial⟩
    · simp only [if_neg hus]
      have hil := ilog_spec h2 h36
      have hsl := stripLeading_body (r := radix) (by omega) body
      have hlast : stripLeading body ≠ [] → (stripLeading body).getLast? ≠ some 95 := by
        intro hne; rw [stripLeading_last body hne]; exact fun h => hus (Or.inr h)
      have hpost := decodeDigitsLoop_spec h2 (stripLeading body).length (stripLeading body) (ilog radix)
        ⟨cap, []⟩ (Nat.le_refl _) hlast hil.1 hil.2 WF_nil (by unfold CapOK; cases cap <;> simp)
      generalize decodeDigitsLoop radix (stripLeading body).length (stripLeading body) (ilog radix)
        ⟨cap, []⟩ = res at hpost
      cases hbd : bodyDigits radix body with
      | none =>
        simp only
        refine ⟨fun v h => by simp at h, fun h => by simp at h, fun _ => ?_⟩
        have := hpost.2 (hsl.2 hbd)
        cases res with
        | ok t => exact absurd this id
        | error e =>
          simp only at this
          rcases this with h | ⟨h, hc⟩
          · left; rw [h]
          · right; exact ⟨by rw [h], hc⟩
      | some ds =>
        simp only
        refine ⟨fun v h => ?_, fun h => by simp at h, fun h => by simp at h⟩
        injection h with h
        subst h
        obtain ⟨ds', hd1, hd2⟩ := hsl.1 ds hbd
        have := hpost.1 ds' hd1
        simp only [val_nil, Nat.zero_mul, Nat.zero_add, hd2] at this
        cases res with
        | ok t => left; exact ⟨t, rfl, this.1, this.2.1, this.2.2.2, this.2.2.1⟩
        | error e =>
          simp only at this
          right; exact ⟨by rw [this.1], this.2⟩

/-! ### the public entry points -/

/-- what a correct `radix_decode_str` does on an empty target of capacity `cap` -/
def DecodeCorrect (radix : Nat) (s : List Nat) (cap : Option Nat) (res : Except Err Target) : Prop :=
  (∀ v, specParse radix s = .ok v →
    (∃ t, res = .ok t ∧ val t.limbs = v ∧ WF t.limbs ∧ CapOK t ∧ t.cap = cap) ∨
    (res = .error .inputSize ∧ ∃ n, cap = some n ∧ B ^ n ≤ v)) ∧
  (specParse radix s = .error .empty → res = .error .empty) ∧
  (specParse radix s = .error .invalidDigit →
    res = .error .invalidDigit ∨ (res = .error .inputSize ∧ cap ≠ none))

theorem decodeDigits_correct {radix : Nat} (h2 : 2 ≤ radix) (h36 : radix ≤ 36) (s : List Nat)
    (cap : Option Nat) : DecodeCorrect radix s cap (decodeDigits radix s ⟨cap, []⟩) :=
  decodeDigits_spec h2 h36 s cap

theorem radixMin_eq : radixMin = 2 := rfl
theorem radixMax_eq : radixMax = 36 := rfl

theorem decodeStr_batch {radix : Nat} (h2 : 2 ≤ radix) (h36 : radix ≤ 36)
    (hna : ¬ (radix = 2 ∨ radix = 4 ∨ radix = 16)) (s : List Nat) (t : Target) :
    decodeStr radix s t = decodeDigits radix s t := by
  unfold decodeStr
  rw [if_neg (by rw [radixMin_eq, radixMax_eq]; omega), if_neg hna]

theorem decodeStr_aligned {radix : Nat} (ha : radix = 2 ∨ radix = 4 ∨ radix = 16) (s : List Nat)
    (t : Target) : decodeStr radix s t = decodeAligned radix s t := by
  unfold decodeStr
  rw [if_neg (by rw [radixMin_eq, radixMax_eq]; omega), if_pos ha]

theorem val_append_zeros (l : List Nat) (k : Nat) : val (l ++ List.replicate k 0) = val l := by
  induction l with
  | nil =>
    induction k with
    | zero => rfl
    | succ k ih => simp only [List.nil_append] at ih ⊢; rw [List.replicate_succ, val_cons, ih]; simp
  | cons x xs ih => simp only [List.cons_append, val_cons, ih]

theorem WF_append_zeros {l : List Nat} (h : WF l) (k : Nat) : WF (l ++ List.replicate k 0) := by
  intro x hx
  rcases List.mem_append.mp hx with h1 | h1
  · exact h x h1
  · rw [(List.mem_replicate.mp h1).2]; exact B_pos

theorem specParse_cases (radix : Nat) (s : List Nat) :
    (∃ v, specParse radix s = .ok v) ∨ specParse radix s = .error .empty ∨
    specParse radix s = .error .invalidDigit := by
  cases h : specParse radix s with
  | ok v => exact Or.inl ⟨v, rfl⟩
  | error e =>
    rcases specParse_error_kinds h with rfl | rfl
    · exact Or.inr (Or.inl rfl)
    · exact Or.inr (Or.inr rfl)

/-- fixed-width parse from a correct decoder: exact value, `InputSize` exactly on overflow, never a
wrapped value, never `Empty`/`InvalidDigit` for a numeral -/
theorem uintFromStr_of_correct {n radix : Nat} {s : List Nat}
    (h : DecodeCorrect radix s (some n) (decodeStr radix s ⟨some n, []⟩)) :
    (∀ v, specParse radix s = .ok v → v < B ^ n → uintFromStr n radix s = .ok (toLimbs n v)) ∧
    (∀ v, specParse radix s = .ok v → B ^ n ≤ v → uintFromStr n radix s = .error .inputSize) ∧
    (specParse radix s = .error .empty → uintFromStr n radix s = .error .empty) ∧
    (specParse radix s = .error .invalidDigit →
      uintFromStr n radix s = .error .invalidDigit ∨ uintFromStr n radix s = .error .inputSize) ∧
    (∀ l, uintFromStr n radix s = .ok l →
      ∃ v, specParse radix s = .ok v ∧ v < B ^ n ∧ l = toLimbs n v) := by
  obtain ⟨hv, he, hi⟩ := h
  have okcase : ∀ v, specParse radix s = .ok v →
      (v < B ^ n ∧ uintFromStr n radix s = .ok (toLimbs n v)) ∨
      (B ^ n ≤ v ∧ uintFromStr n radix s = .error .inputSize) := by
    intro v hs
    rcases hv v hs with ⟨t, ht, hval, hwf, hcap, hc⟩ | ⟨hr, m, hm, hge⟩
    · left
      have hlen : t.limbs.length ≤ n := by
        unfold CapOK at hcap; rw [hc] at hcap; exact hcap
      have hl : (t.limbs ++ List.replicate (n - t.limbs.length) 0).length = n := by
        simp only [List.length_append, List.length_replicate]; omega
      have hw := WF_append_zeros hwf (n - t.limbs.length)
      have hvv : val (t.limbs ++ List.replicate (n - t.limbs.length) 0) = v := by
        rw [val_append_zeros, hval]
      have hlt : v < B ^ n := by
        have := val_lt hw; rw [hl, hvv] at this; exact this
      refine ⟨hlt, ?_⟩
      unfold uintFromStr
      rw [ht]
      simp only
      congr 1
      have := toLimbs_val hw
      rw [hl, hvv] at this
      exact this.symm
    · right
      injection hm with hm
      subst hm
      refine ⟨hge, ?_⟩
      unfold uintFromStr
      rw [hr]
  refine ⟨?_, ?_, ?_, ?_, ?_⟩
  · intro v hs hlt
    rcases okcase v hs with h | h
    · exact h.2
    · omega
  · intro v hs hge
    rcases okcase v hs with h | h
    · omega
    · exact h.2
  · intro hs; unfold uintFromStr; rw [he hs]
  · intro hs
    unfold uintFromStr
    rcases hi hs with h | h
    · left; rw [h]
    · right; rw [h.1]
  · intro l hl
    rcases specParse_cases radix s with ⟨v, hs⟩ | hs | hs
    · rcases okcase v hs with h | h
      · rw [h.2] at hl; injection hl with hl; exact ⟨v, hs, h.1, hl.symm⟩
      · rw [h.2] at hl; exact absurd hl (by simp)
    · unfold uintFromStr at hl; rw [he hs] at hl; exact absurd hl (by simp)
    · unfold uintFromStr at hl
      rcases hi hs with h | h
      · rw [h] at hl; exact absurd hl (by simp)
      · rw [h.1] at hl; exact absurd hl (by simp)

/-- boxed parse without precision from a correct decoder: exact value; errors exactly
`Empty` / `InvalidDigit` for non-numerals; never `InputSize` -/
theorem boxedFromStr_of_correct {radix : Nat} {s : List Nat}
    (h : DecodeCorrect radix s none (decodeStr radix s ⟨none, []⟩)) :
    (∀ v, specParse radix s = .ok v → ∃ l, boxedFromStr radix s = .ok l ∧ val l = v ∧ WF l ∧ l ≠ []) ∧
    (specParse radix s = .error .empty → boxedFromStr radix s = .error .empty) ∧
    (specParse radix s = .error .invalidDigit → boxedFromStr radix s = .error .invalidDigit) := by
  obtain ⟨hv, he, hi⟩ := h
  refine ⟨?_, ?_, ?_⟩
  · intro v hs
    rcases hv v hs with ⟨t, ht, hval, hwf, _, _⟩ | ⟨_, m, hm, _⟩
    · refine ⟨if t.limbs.isEmpty then [0] else t.limbs, by unfold boxedFromStr; rw [ht], ?_, ?_, ?_⟩
      · by_cases he : t.limbs.isEmpty = true
        · rw [if_pos he]
          have : t.limbs = [] := by simpa using he
          rw [this] at hval; simpa using hval
        · rw [if_neg he]; exact hval
      · by_cases he : t.limbs.isEmpty = true
        · rw [if_pos he]; intro x hx; simp at hx; subst hx; exact B_pos
        · rw [if_neg he]; exact hwf
      · by_cases he : t.limbs.isEmpty = true
        · rw [if_pos he]; simp
        · rw [if_neg he]; simpa using he
    · exact absurd hm (by simp)
  · intro hs; unfold boxedFromStr; rw [he hs]
  · intro hs
    unfold boxedFromStr
    rcases hi hs with h | h
    · rw [h]
    · exact absurd rfl h.2

theorem bitLen_le_iff (v p : Nat) : bitLen v ≤ p ↔ v < 2 ^ p := by
  unfold bitLen
  by_cases hv : v = 0
  · subst hv; simp [Nat.pow_pos]
  · rw [if_neg hv]
    have := Nat.log2_lt (n := v) (k := p) hv
    constructor
    · intro h; exact this.mp (by omega)
    · intro h; have := this.mpr h; omega

theorem precLimbs_pos (p : Nat) : 0 < precLimbs p := by unfold precLimbs; omega

/-- boxed parse with precision from a correct decoder -/
theorem boxedFromStrPrec_of_correct {radix p : Nat} {s : List Nat}
    (h : DecodeCorrect radix s (some (precLimbs p)) (decodeStr radix s ⟨some (precLimbs p), []⟩)) :
    (∀ v, specParse radix s = .ok v → v < 2 ^ p →
      boxedFromStrPrec radix p s = .ok (toLimbs (precLimbs p) v)) ∧
    (∀ v, specParse radix s = .ok v → 2 ^ p ≤ v → v < B ^ precLimbs p →
      boxedFromStrPrec radix p s = .error .precision) ∧
    (∀ v, specParse radix s = .ok v → B ^ precLimbs p ≤ v →
      boxedFromStrPrec radix p s = .error .inputSize) ∧
    (specParse radix s = .error .empty → boxedFromStrPrec radix p s = .error .empty) := by
  have hu := uintFromStr_of_correct h
  have key : ∀ v, specParse radix s = .ok v → v < B ^ precLimbs p →
      boxedFromStrPrec radix p s =
        if p < bitLen v then .error .precision else .ok (toLimbs (precLimbs p) v) := by
    intro v hs hlt
    have h1 := hu.1 v hs hlt
    unfold uintFromStr at h1
    unfold boxedFromStrPrec
    simp only
    cases hd : decodeStr radix s ⟨some (precLimbs p), []⟩ with
    | error e => rw [hd] at h1; exact absurd h1 (by simp)
    | ok t =>
      rw [hd] at h1
      simp only at h1 ⊢
      injection h1 with h1
      rw [h1, val_toLimbs, Nat.mod_eq_of_lt hlt]
  refine ⟨?_, ?_, ?_, ?_⟩
  · intro v hs hlt
    have hfit : v < B ^ precLimbs p := by
      have : 2 ^ p ≤ B ^ precLimbs p := by
        rw [B_eq_pow, ← Nat.pow_mul]
        apply Nat.pow_le_pow_right (by omega)
        unfold precLimbs; omega
      omega
    rw [key v hs hfit, if_neg]
    have := (bitLen_le_iff v p).mpr hlt; omega
  · intro v hs hge hlt
    rw [key v hs hlt, if_pos]
    have := (bitLen_le_iff v p); omega
  · intro v hs hge
    have h1 := hu.2.1 v hs hge
    unfold uintFromStr at h1
    unfold boxedFromStrPrec
    simp only
    cases hd : decodeStr radix s ⟨some (precLimbs p), []⟩ with
    | error e => rw [hd] at h1; simp only at h1 ⊢; exact h1
    | ok t => rw [hd] at h1; exact absurd h1 (by simp)
  · intro hs
    have h1 := hu.2.2.1 hs
    unfold uintFromStr at h1
    unfold boxedFromStrPrec
    simp only
    cases hd : decodeStr radix s ⟨some (precLimbs p), []⟩ with
    | error e => rw [hd] at h1; simp only at h1 ⊢; exact h1
    | ok t => rw [hd] at h1; exact absurd h1 (by simp)

end CB.Radix
