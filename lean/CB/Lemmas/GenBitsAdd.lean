/- part of the word-level meaning theorems (see CB/Lemmas/GenBits.lean for the explanation); `bv_decide` file -/
import CB.Lemmas.GenBits
namespace CB.GenBits
open CB.Gen

/-- `adc`: `lo + 2^64·hi = lhs + rhs + carry` for ANY carry word (the crate uses carries 0, 1, 2 and masks). -/
theorem adc_meaning (a b c : BitVec 64) :
    ((Prim.adc a b c).2.setWidth 128 <<< 64) ||| (Prim.adc a b c).1.setWidth 128 =
      a.setWidth 128 + b.setWidth 128 + c.setWidth 128 := by
  simp only [gen_defs]; (try simp only [BitVec.mul_comm]); bv_decide

theorem overflowing_add_meaning (a b : BitVec 64) :
    ((Prim.overflowing_add a b).2.setWidth 128 <<< 64) ||| (Prim.overflowing_add a b).1.setWidth 128 =
      a.setWidth 128 + b.setWidth 128 := by
  simp only [gen_defs]; (try simp only [BitVec.mul_comm]); bv_decide

/-- `sbb`: only the top bit of `borrow` is consumed; the difference wraps; the new borrow is an all-ones
    mask exactly when `lhs < rhs + borrow_bit`. -/
theorem sbb_meaning (a b w : BitVec 64) :
    (Prim.sbb a b w).1 = a - b - (w >>> 63) ∧
    (Prim.sbb a b w).2 = ofBool (decide (a.setWidth 128 < b.setWidth 128 + (w >>> 63).setWidth 128)) := by
  simp only [gen_defs, ofBool, T64]; constructor <;> bv_decide

/-- `primitives::adc` of the model is the translated source function on every triple of words -/
theorem adc_bridge (a b c : BitVec 64) :
    CB.adc a.toNat b.toNat c.toNat = ((Prim.adc a b c).1.toNat, (Prim.adc a b c).2.toNat) := by
  have h := congrArg BitVec.toNat (adc_meaning a b c)
  rw [cat_toNat] at h
  have ha := a.isLt; have hb := b.isLt; have hc := c.isLt
  have h1 := (Prim.adc a b c).1.isLt; have h2 := (Prim.adc a b c).2.isLt
  simp only [BitVec.toNat_add, BitVec.toNat_setWidth] at h
  simp only [CB.adc, B_def]
  generalize (Prim.adc a b c).1.toNat = lo at *
  generalize (Prim.adc a b c).2.toNat = hi at *
  ext <;> simp only <;> omega

theorem overflowingAdd_bridge (a b : BitVec 64) :
    CB.overflowingAdd a.toNat b.toNat = ((Prim.overflowing_add a b).1.toNat, (Prim.overflowing_add a b).2.toNat) := by
  have h := congrArg BitVec.toNat (overflowing_add_meaning a b)
  rw [cat_toNat] at h
  have ha := a.isLt; have hb := b.isLt
  have h1 := (Prim.overflowing_add a b).1.isLt; have h2 := (Prim.overflowing_add a b).2.isLt
  simp only [BitVec.toNat_add, BitVec.toNat_setWidth] at h
  simp only [CB.overflowingAdd, B_def]
  generalize (Prim.overflowing_add a b).1.toNat = lo at *
  generalize (Prim.overflowing_add a b).2.toNat = hi at *
  ext <;> simp only <;> omega

theorem sbb_bridge (a b w : BitVec 64) :
    CB.sbb a.toNat b.toNat w.toNat = ((Prim.sbb a b w).1.toNat, (Prim.sbb a b w).2.toNat) := by
  obtain ⟨e1, e2⟩ := sbb_meaning a b w
  rw [e1, e2, ofBool_toNat]
  have ha := a.isLt; have hb := b.isLt; have hw := w.isLt
  have hs : (w >>> 63).toNat = w.toNat / 2 ^ 63 := by
    simp only [BitVec.toNat_ushiftRight, Nat.shiftRight_eq_div_pow]
  have hlt : (a.setWidth 128 < b.setWidth 128 + (w >>> 63).setWidth 128) ↔ a.toNat < b.toNat + w.toNat / 2 ^ 63 := by
    rw [BitVec.lt_def]
    simp only [BitVec.toNat_add, BitVec.toNat_setWidth, hs]
    have : w.toNat / 2 ^ 63 < 2 := by omega
    omega
  simp only [CB.sbb, B_def, HALF_def, BitVec.toNat_sub, hs, mask, WMAX_def]
  by_cases hc : a.toNat < b.toNat + w.toNat / 2 ^ 63
  · simp only [decide_eq_true (hlt.mpr hc), if_true]
    ext <;> simp only <;> omega
  · simp only [decide_eq_false (mt hlt.mp hc)]
    ext <;> simp <;> omega

end CB.GenBits
