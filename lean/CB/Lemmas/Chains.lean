/-
  CB.Lemmas.Chains — exact value equations of the limb loops (`adc`, `sbb`, negation, select).
-/
import CB.Lemmas.WordBits
namespace CB

theorem mac_spec {a b c carry : Nat} (ha : a < B) (hb : b < B) (hc : c < B) (hk : carry < B) :
    (mac a b c carry).1 + B * (mac a b c carry).2 = a + b * c + carry ∧
    (mac a b c carry).1 < B ∧ (mac a b c carry).2 < B := by
  have hbc : b * c ≤ (B - 1) * (B - 1) := Nat.mul_le_mul (by omega) (by omega)
  simp only [mac, B_def] at *
  generalize b * c = p at *
  omega

theorem uadc_length (a b : List Nat) (c : Nat) (h : a.length = b.length) :
    (uadc a b c).1.length = a.length := by
  induction a generalizing b c with
  | nil => cases b <;> simp [uadc]
  | cons x xs ih =>
    cases b with
    | nil => simp at h
    | cons y ys =>
      simp only [uadc, List.length_cons]
      rw [ih ys _ (by simpa using h)]

theorem uadc_WF (a b : List Nat) (c : Nat) : WF (uadc a b c).1 := by
  induction a generalizing b c with
  | nil => cases b <;> simp [uadc] <;> exact WF_nil
  | cons x xs ih =>
    cases b with
    | nil => simp only [uadc]; exact WF_nil
    | cons y ys =>
      simp only [uadc]
      exact WF_cons.mpr ⟨Nat.mod_lt _ B_pos, ih ys _⟩

/-- `Uint::adc` is exact for every carry-in word. -/
theorem uadc_spec (a b : List Nat) (c : Nat) (h : a.length = b.length) :
    val (uadc a b c).1 + B ^ a.length * (uadc a b c).2 = val a + val b + c := by
  induction a generalizing b c with
  | nil =>
    cases b with
    | nil => simp [uadc]
    | cons _ _ => simp at h
  | cons x xs ih =>
    cases b with
    | nil => simp at h
    | cons y ys =>
      have hl : xs.length = ys.length := by simpa using h
      have := ih ys (adc x y c).2 hl
      have h1 := (adc_spec x y c).1
      simp only [uadc, val_cons, List.length_cons, Nat.pow_succ]
      rw [Nat.mul_comm (B ^ xs.length) B, Nat.mul_assoc]
      have e : B * val (uadc xs ys (adc x y c).2).1 + B * (B ^ xs.length * (uadc xs ys (adc x y c).2).2)
          = B * (val xs + val ys + (adc x y c).2) := by rw [← Nat.mul_add, this]
      simp only [Nat.mul_add] at e
      omega

theorem uadc_carry_le_one {a b : List Nat} {c : Nat} (ha : WF a) (hb : WF b) (hc : c ≤ 1) :
    (uadc a b c).2 ≤ 1 := by
  induction a generalizing b c with
  | nil => cases b <;> simpa [uadc]
  | cons x xs ih =>
    cases b with
    | nil => simpa [uadc]
    | cons y ys =>
      have ⟨hx, hxs⟩ := WF_cons.mp ha
      have ⟨hy, hys⟩ := WF_cons.mp hb
      simp only [uadc]
      exact ih hxs hys (adc_carry_le_one hx hy hc)

theorem usbb_length (a b : List Nat) (c : Nat) (h : a.length = b.length) :
    (usbb a b c).1.length = a.length := by
  induction a generalizing b c with
  | nil => cases b <;> simp [usbb]
  | cons x xs ih =>
    cases b with
    | nil => simp at h
    | cons y ys =>
      simp only [usbb, List.length_cons]
      rw [ih ys _ (by simpa using h)]

theorem usbb_WF (a b : List Nat) (c : Nat) : WF (usbb a b c).1 := by
  induction a generalizing b c with
  | nil => cases b <;> simp [usbb] <;> exact WF_nil
  | cons x xs ih =>
    cases b with
    | nil => simp only [usbb]; exact WF_nil
    | cons y ys =>
      simp only [usbb]
      exact WF_cons.mpr ⟨Nat.mod_lt _ B_pos, ih ys _⟩

theorem usbb_cons (x y bw : Nat) (xs ys : List Nat) :
    usbb (x :: xs) (y :: ys) bw =
      ((sbb x y bw).1 :: (usbb xs ys (sbb x y bw).2).1, (usbb xs ys (sbb x y bw).2).2) := rfl
theorem uadc_cons (x y c : Nat) (xs ys : List Nat) :
    uadc (x :: xs) (y :: ys) c =
      ((adc x y c).1 :: (uadc xs ys (adc x y c).2).1, (uadc xs ys (adc x y c).2).2) := rfl

/-- `Uint::sbb` is exact for every borrow-in word (only its top bit is consumed). -/
theorem usbb_spec {a b : List Nat} {bw : Nat} (ha : WF a) (hb : WF b) (hbw : bw < B)
    (h : a.length = b.length) :
    val (usbb a b bw).1 + (val b + bw / HALF) = val a + B ^ a.length * ((usbb a b bw).2 / HALF) ∧
    (usbb a b bw).2 < B ∧ (a ≠ [] → (usbb a b bw).2 = 0 ∨ (usbb a b bw).2 = WMAX) := by
  induction a generalizing b bw with
  | nil =>
    cases b with
    | nil => simp [usbb, hbw]
    | cons _ _ => simp at h
  | cons x xs ih =>
    cases b with
    | nil => simp at h
    | cons y ys =>
      have hl : xs.length = ys.length := by simpa using h
      have ⟨hx, hxs⟩ := WF_cons.mp ha
      have ⟨hy, hys⟩ := WF_cons.mp hb
      have ⟨s1, s2, s3⟩ := sbb_spec hx hy hbw
      have hb' : (sbb x y bw).2 < B := by rcases s2 with h | h <;> rw [h] <;> decide
      have ⟨i1, i2, i3⟩ := ih hxs hys hb' hl
      rw [usbb_cons]
      simp only [val_cons, List.length_cons, Nat.pow_succ]
      refine ⟨?_, i2, ?_⟩
      · rw [Nat.mul_comm (B ^ xs.length) B, Nat.mul_assoc]
        have e := congrArg (B * ·) i1
        simp only [Nat.mul_add] at e
        omega
      · intro _
        cases xs with
        | nil => cases ys <;> simpa [usbb] using s2
        | cons _ _ => exact i3 (by simp)

theorem negLoop_spec {a : List Nat} {c : Nat} (ha : WF a) (hc : c ≤ 1) :
    val (negLoop a c).1 + B ^ a.length * (negLoop a c).2 + val a + 1 = B ^ a.length + c ∧
    (negLoop a c).2 ≤ 1 ∧ WF (negLoop a c).1 ∧ (negLoop a c).1.length = a.length := by
  induction a generalizing c with
  | nil => exact ⟨by simp [negLoop]; omega, by simpa [negLoop] using hc, WF_nil, rfl⟩
  | cons x xs ih =>
    have ⟨hx, hxs⟩ := WF_cons.mp ha
    have hn : wnot x = B - 1 - x := by
      simp only [wnot, WMAX_def, B_def] at *; omega
    have hc' : (wnot x + c) / B ≤ 1 := by rw [hn]; simp only [B_def] at *; omega
    have ⟨i1, i2, i3, i4⟩ := ih hxs hc'
    simp only [negLoop, val_cons, List.length_cons, Nat.pow_succ]
    refine ⟨?_, i2, WF_cons.mpr ⟨Nat.mod_lt _ B_pos, i3⟩, by rw [i4]⟩
    rw [Nat.mul_comm (B ^ xs.length) B, Nat.mul_assoc]
    have e := congrArg (B * ·) i1
    simp only [Nat.mul_add] at e
    have := Nat.mod_add_div (wnot x + c) B
    rw [hn] at this hc' e ⊢
    simp only [B_def] at *
    omega

theorem uselect_spec {a b : List Nat} (p : Bool) (ha : WF a) (hb : WF b) (h : a.length = b.length) :
    uselect a b (mask p) = if p then b else a := by
  induction a generalizing b with
  | nil => cases b <;> simp_all [uselect]
  | cons x xs ih =>
    cases b with
    | nil => simp at h
    | cons y ys =>
      have ⟨hx, hxs⟩ := WF_cons.mp ha
      have ⟨hy, hys⟩ := WF_cons.mp hb
      simp only [uselect, selectWord_spec p hx hy, ih hxs hys (by simpa using h)]
      cases p <;> rfl

theorem umax_WF (n : Nat) : WF (umax n) := by
  intro x hx; simp only [umax, List.mem_replicate] at hx; rw [hx.2]; decide
theorem uzero_WF (n : Nat) : WF (uzero n) := by
  intro x hx; simp only [uzero, List.mem_replicate] at hx; rw [hx.2]; decide
theorem val_uzero (n : Nat) : val (uzero n) = 0 := by
  induction n with
  | zero => rfl
  | succ n ih => simp only [uzero, List.replicate_succ, val_cons] at *; simp [ih]
theorem val_umax (n : Nat) : val (umax n) + 1 = B ^ n := by
  induction n with
  | zero => rfl
  | succ n ih =>
    simp only [umax, List.replicate_succ, val_cons, Nat.pow_succ] at *
    rw [Nat.mul_comm (B ^ n) B, ← ih, WMAX_def, B_def]; omega

end CB
