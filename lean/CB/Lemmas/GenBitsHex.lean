/-
  CB.Lemmas.GenBitsHex — what the constant-time hex decoder of the crate MEANS, proved about the definitions that
  tools/translate.py regenerates from /repo's current source on every run (CB/Gen/Encoding.lean:
  `decode_nibble`, `decode_hex_byte` of src/uint/encoding.rs, statement for statement over `BitVec`, the `i16`
  arithmetic as two's-complement patterns with the arithmetic shift `BitVec.sshiftRight`).

  Part 1 (meanings, `bv_decide`): for EVERY byte, `decode_nibble` is the value of the hex digit, or `0xFFFF` when the
  byte is not one of `0-9A-Fa-f`; `decode_hex_byte` reports `err = 0` exactly when both bytes are hex digits, and then
  the result is `16·hi + lo`.
  Part 2 (bridges): the hand-written `Nat` model of CB/Model/Encoding.lean (`decodeNibble`, `decodeHexByte`, on which the
  C16 hex theorems are built) IS the translated source function, on every byte / pair of bytes.
  (`bv_decide` file: its name matches `*Bits*`.)
-/
import CB.Gen.Encoding
import CB.Lemmas.GenBits
import CB.Lemmas.C16Hex
import Std.Tactic.BVDecide
namespace CB.GenBits
open CB.Gen

/-! ## part 1 — meanings -/

/-- is the byte one of `0-9`, `A-F`, `a-f` -/
def isHexB (c : BitVec 8) : Bool :=
  (decide (48#8 ≤ c) && decide (c ≤ 57#8)) || (decide (65#8 ≤ c) && decide (c ≤ 70#8)) ||
    (decide (97#8 ≤ c) && decide (c ≤ 102#8))

/-- the value of a hex digit as a 16-bit word; `0xFFFF` for every byte that is not a hex digit -/
def hexValB (c : BitVec 8) : BitVec 16 :=
  if decide (48#8 ≤ c) && decide (c ≤ 57#8) then (c - 48#8).setWidth 16
  else if decide (65#8 ≤ c) && decide (c ≤ 70#8) then (c - 55#8).setWidth 16
  else if decide (97#8 ≤ c) && decide (c ≤ 102#8) then (c - 87#8).setWidth 16
  else 0xFFFF#16

/-- `decode_nibble` of the source on ALL 256 bytes: the digit value, `0xFFFF` otherwise -/
theorem decode_nibble_meaning (c : BitVec 8) : Encoding.decode_nibble c = hexValB c := by
  simp only [gen_defs, hexValB]; bv_decide

/-- a hex digit decodes to a value below 16; any other byte to a word whose high byte is non-zero (`0xFF`) -/
theorem decode_nibble_range (c : BitVec 8) :
    (isHexB c = true → Encoding.decode_nibble c < 16#16) ∧
    (isHexB c = false → Encoding.decode_nibble c = 0xFFFF#16 ∧ Encoding.decode_nibble c >>> 8 ≠ 0#16) := by
  simp only [gen_defs, isHexB]; bv_decide

/-- `decode_hex_byte`: the error word is zero EXACTLY when both bytes are hex digits -/
theorem decode_hex_byte_err (a b : BitVec 8) :
    ((Encoding.decode_hex_byte (a, b)).2 = 0#16) ↔ (isHexB a = true ∧ isHexB b = true) := by
  simp only [gen_defs, isHexB]; bv_decide

/-- … and then the decoded byte is `16·hi + lo` -/
theorem decode_hex_byte_val (a b : BitVec 8) (ha : isHexB a = true) (hb : isHexB b = true) :
    (Encoding.decode_hex_byte (a, b)).1 = (hexValB a).setWidth 8 * 16#8 + (hexValB b).setWidth 8 := by
  simp only [gen_defs, isHexB, hexValB] at *; bv_decide

/-- `decode_hex_byte` in terms of `decode_nibble` (the shape the `Nat` model has; decided, not matched) -/
theorem decode_hex_byte_shape (a b : BitVec 8) :
    (Encoding.decode_hex_byte (a, b)).1 =
      (((Encoding.decode_nibble a) <<< 4) ||| Encoding.decode_nibble b).setWidth 8 ∧
    (Encoding.decode_hex_byte (a, b)).2 =
      (((Encoding.decode_nibble a) <<< 4) ||| Encoding.decode_nibble b) >>> 8 := by
  constructor <;> simp only [gen_defs] <;> bv_decide

/-! ## part 2 — bridges to the hand-written model (CB/Model/Encoding.lean) -/

open CB.Encoding in
/-- the model's digit table on a byte = `hexValB` / `isHexB` (all 256 bytes, checked by the kernel) -/
theorem hexVal?_bridge_fin : ∀ c : Fin 256,
    (match hexVal? c.val with | some d => d | none => 65535) = (hexValB (BitVec.ofFin c)).toNat ∧
    ((hexVal? c.val).isSome = isHexB (BitVec.ofFin c)) := by
  decide +kernel

open CB.Encoding in
theorem hexVal?_bridge (c : BitVec 8) :
    (match hexVal? c.toNat with | some d => d | none => 65535) = (hexValB c).toNat ∧
    ((hexVal? c.toNat).isSome = isHexB c) :=
  hexVal?_bridge_fin c.toFin

/-- BRIDGE: the model's `decodeNibble` is the translated source `decode_nibble` on every byte -/
theorem decodeNibble_bridge (c : BitVec 8) :
    CB.Encoding.decodeNibble c.toNat = (Encoding.decode_nibble c).toNat := by
  rw [CB.Encoding.decodeNibble_table c.isLt, decode_nibble_meaning]
  exact (hexVal?_bridge c).1

/-- BRIDGE: the model's `decodeHexByte` is the translated source `decode_hex_byte` on every pair of bytes -/
theorem decodeHexByte_bridge (a b : BitVec 8) :
    CB.Encoding.decodeHexByte a.toNat b.toNat =
      ((Encoding.decode_hex_byte (a, b)).1.toNat, (Encoding.decode_hex_byte (a, b)).2.toNat) := by
  obtain ⟨e1, e2⟩ := decode_hex_byte_shape a b
  rw [e1, e2]
  simp only [CB.Encoding.decodeHexByte, decodeNibble_bridge, CB.Encoding.W16, BitVec.toNat_setWidth, BitVec.toNat_or,
    BitVec.toNat_shiftLeft, BitVec.toNat_ushiftRight, Nat.shiftLeft_eq, Nat.shiftRight_eq_div_pow, Nat.reducePow]

end CB.GenBits
