/-
  CB.Lemmas.C03Int — sign and magnitude of two's-complement limb lists, for the `Int` products
  (helper lemmas of property C03).
-/
import CB.Lemmas.C03Kara
namespace CB.Mul
open CB CB.Karatsuba

/-- the value of `n` two's-complement limbs is negative -/
def isNeg (a : List Nat) : Bool := decide (B ^ a.length ≤ 2 * val a)

/-- magnitude of the two's-complement value -/
def absVal (a : List Nat) : Nat := if isNeg a then B ^ a.length - val a else val a

/-- signed value -/
def toInt (a : List Nat) : Int := if isNeg a then (val a : Int) - (B ^ a.length : Nat) else (val a : Int)

theorem toInt_natAbs (a : List Nat) (ha : WF a) : (toInt a).natAbs = absVal a := by
  have hlt := val_lt ha
  unfold toInt absVal
  split
  · have : ((val a : Int) - ((B ^ a.length : Nat) : Int)) = - (((B ^ a.length - val a : Nat)) : Int) := by omega
    rw [this, Int.natAbs_neg, Int.natAbs_natCast]
  · exact Int.natAbs_natCast _

theorem msb_aux : ∀ (ys : List Nat) (y : Nat), WF (y :: ys) →
    (HALF ≤ ys.getLastD y ↔ B ^ (ys.length + 1) ≤ 2 * val (y :: ys))
  | [], y, _ => by
    simp only [List.getLastD_nil, List.length_nil, val_cons, val_nil, B_def, HALF_def]; omega
  | z :: zs, y, h => by
    have ⟨hy, hzs⟩ := WF_cons.mp h
    have ih := msb_aux zs z hzs
    have hev : B ^ (zs.length + 1) = 2 * (HALF * B ^ zs.length) := by
      rw [Nat.pow_succ, Nat.mul_comm (B ^ zs.length) B]
      simp only [B_def, HALF_def]; omega
    rw [List.getLastD_cons, ih, List.length_cons]
    show (B ^ (zs.length + 1) ≤ 2 * val (z :: zs)) ↔
      (B ^ (zs.length + 1) * B ≤ 2 * (y + B * val (z :: zs)))
    rw [hev]
    generalize val (z :: zs) = V at *
    generalize HALF * B ^ zs.length = H at *
    have t1 : H ≤ V → B * H ≤ B * V := fun h => Nat.mul_le_mul_left _ h
    have t2 : V + 1 ≤ H → B * V + B ≤ B * H := fun h => by
      have := Nat.mul_le_mul_left B h; rwa [Nat.mul_add, Nat.mul_one] at this
    have e1 : 2 * H * B = 2 * (B * H) := by ring
    have e2 : 2 * (y + B * V) = 2 * y + 2 * (B * V) := by ring
    rw [e1, e2]
    generalize B * H = P at *
    generalize B * V = Q at *
    constructor
    · intro h; have := t1 (by omega); omega
    · intro h
      by_contra hc
      have := t2 (by omega); omega

/-- the msb of the most significant word decides the sign -/
theorem msb_spec (a : List Nat) (ha : WF a) (hne : a ≠ []) :
    a.getLastD 0 / HALF = if isNeg a then 1 else 0 := by
  cases a with
  | nil => exact absurd rfl hne
  | cons y ys =>
    have h := msb_aux ys y ha
    have hlast : ys.getLastD y < B := by
      cases ys with
      | nil => exact (WF_cons.mp ha).1
      | cons z zs =>
        rw [List.getLastD_cons]
        have : zs.getLastD z ∈ (z :: zs) := by
          simpa [List.getLast_eq_getLastD] using List.getLast_mem (l := z :: zs) (by simp)
        exact (WF_cons.mp ha).2 _ this
    rw [List.getLastD_cons]
    unfold isNeg
    rw [List.length_cons]
    by_cases c : B ^ (ys.length + 1) ≤ 2 * val (y :: ys)
    · have := h.mpr c
      simp only [c, decide_true, if_true]
      simp only [HALF_def, B_def] at *; omega
    · have : ¬ HALF ≤ ys.getLastD y := fun hh => c (h.mp hh)
      simp only [c, decide_false, Bool.false_eq_true, if_false]
      simp only [HALF_def] at *; omega

theorem fromWordLsb_bit (p : Bool) : fromWordLsb (if p then 1 else 0) = mask p := fromWordLsb_01 p

/-- `Int::abs_sign`: sign mask and magnitude -/
theorem intAbsSign_spec (a : List Nat) (ha : WF a) (hne : a ≠ []) :
    (intAbsSign a).2 = mask (isNeg a) ∧ WF (intAbsSign a).1 ∧ (intAbsSign a).1.length = a.length ∧
    val (intAbsSign a).1 = absVal a := by
  have hs : (intAbsSign a).2 = mask (isNeg a) := by
    show fromWordLsb (a.getLastD 0 / HALF) = _
    rw [msb_spec a ha hne, fromWordLsb_bit]
  have ⟨w1, w2, w3⟩ := wrappingNeg_spec ha
  have hv : (intAbsSign a).1 = if isNeg a then wrappingNeg a else a := by
    show uselect a (wrappingNeg a) (intAbsSign a).2 = _
    rw [hs, uselect_spec _ ha w1 w2.symm]
  refine ⟨hs, ?_, ?_, ?_⟩
  · rw [hv]; split <;> assumption
  · rw [hv]; split <;> simp [w2]
  · rw [hv]; unfold absVal
    by_cases h : isNeg a = true
    · simp only [h, if_true]
      have hpos : 0 < val a := by
        unfold isNeg at h
        have := Nat.pow_pos (n := a.length) B_pos
        simp only [decide_eq_true_eq] at h; omega
      have := w3 hpos
      omega
    · simp only [h, Bool.false_eq_true, if_false]

end CB.Mul
