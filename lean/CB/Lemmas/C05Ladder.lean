/-
  CB.Lemmas.C05Ladder — the constant-time shift ladder (`overflowing_shl` / `overflowing_shr`,
  `Int::overflowing_shr`, boxed `overflowing_sh?_assign`) equals the vartime form for every shift and
  every width, including widths whose bit count is not a power of two.
-/
import CB.Lemmas.C05Shift
import CB.Lemmas.C05Bits
namespace CB.Shift
open CB CB.Bits

/-! ### `shift_bits` -/

theorem bitlen_lt {x k : Nat} : bitlen x ≤ k ↔ x < 2 ^ k := by
  unfold bitlen
  by_cases h : x = 0
  · simp [h]
  · simp only [h, if_false]
    rw [Nat.succ_le_iff, Nat.log2_lt h]

theorem lt_two_pow_bitlen (x : Nat) : x < 2 ^ bitlen x := bitlen_lt.mp (Nat.le_refl _)

theorem two_pow_le_of_lt_bitlen {x j : Nat} (h : j < bitlen x) : 2 ^ j ≤ x := by
  apply Nat.le_of_not_lt
  intro hlt
  have := bitlen_lt.mpr hlt
  omega

/-- `shift_bits = bitlen (BITS - 1)` as long as `BITS` is a `u32`. -/
theorem shiftBits_eq {bits : Nat} (h : bits ≤ TWO32) : shiftBits bits = bitlen (bits - 1) := by
  unfold shiftBits u32lz
  have : bitlen (bits - 1) ≤ 32 := bitlen_lt.mpr (by simp only [TWO32_def] at h; omega)
  omega

/-- every ladder step `1 << j`, `j < shift_bits`, is a legal shift (`< BITS`) — also when `BITS` is
    not a power of two. -/
theorem step_lt_bits {bits j : Nat} (hb : 0 < bits) (h : bits ≤ TWO32) (hj : j < shiftBits bits) :
    2 ^ j < bits := by
  rw [shiftBits_eq h] at hj
  have := two_pow_le_of_lt_bitlen hj
  omega

/-- the reduced shift `s % BITS` is below `2 ^ shift_bits`. -/
theorem reduced_lt {bits s : Nat} (hb : 0 < bits) (h : bits ≤ TWO32) :
    s % bits < 2 ^ shiftBits bits := by
  rw [shiftBits_eq h]
  have h1 := lt_two_pow_bitlen (bits - 1)
  have h2 := Nat.mod_lt s hb
  omega

/-! ### a generic ladder -/

/-- A loop `L shift k i r` that performs `k` select-steps with step amounts `2^i, 2^(i+1), …` of an
    additive action `F` computes `F` of the selected bits of `shift`. -/
theorem ladder_generic {L : Nat → Nat → Nat → List Nat → Option (List Nat)}
    (F : Nat → List Nat → List Nat) (good : List Nat → Prop) (bits : Nat)
    (hL0 : ∀ shift i r, L shift 0 i r = some r)
    (hLs : ∀ shift k i r, good r → 2 ^ i < bits →
      L shift (k + 1) i r = L shift k (i + 1) (if (shift / 2 ^ i) % 2 = 1 then F (2 ^ i) r else r))
    (hF0 : ∀ r, good r → F 0 r = r)
    (hFadd : ∀ r t1 t2, good r → F t2 (F t1 r) = F (t1 + t2) r)
    (hFgood : ∀ r t, good r → good (F t r)) :
    ∀ k i r shift, good r → (∀ j, i ≤ j → j < i + k → 2 ^ j < bits) →
      L shift k i r = some (F ((shift / 2 ^ i % 2 ^ k) * 2 ^ i) r) := by
  intro k
  induction k with
  | zero =>
    intro i r shift hg _
    rw [hL0, Nat.pow_zero, Nat.mod_one, Nat.zero_mul, hF0 r hg]
  | succ k ih =>
    intro i r shift hg hsteps
    rw [hLs shift k i r hg (hsteps i (Nat.le_refl _) (by omega))]
    have hsteps' : ∀ j, i + 1 ≤ j → j < i + 1 + k → 2 ^ j < bits := fun j h1 h2 =>
      hsteps j (by omega) (by omega)
    have hexp : (shift / 2 ^ i % 2 ^ (k + 1)) * 2 ^ i =
        ((shift / 2 ^ i) % 2) * 2 ^ i + (shift / 2 ^ (i + 1) % 2 ^ k) * 2 ^ (i + 1) := by
      rw [Nat.pow_succ' (n := k), Nat.mod_mul, Nat.div_div_eq_div_mul, ← Nat.pow_succ]
      ring
    by_cases hb : (shift / 2 ^ i) % 2 = 1
    · rw [if_pos hb, ih (i + 1) _ shift (hFgood r _ hg) hsteps', hFadd r _ _ hg, hexp, hb, Nat.one_mul]
    · have hb0 : (shift / 2 ^ i) % 2 = 0 := by omega
      rw [if_neg hb, ih (i + 1) r shift hg hsteps', hexp, hb0, Nat.zero_mul, Nat.zero_add]

/-- the select of one ladder step -/
theorem ladder_select {r sh : List Nat} (hr : WF r) (hsh : WF sh) (hl : r.length = sh.length) (b : Nat) :
    uselect r sh (fromU32Lsb (b % 2)) = if b % 2 = 1 then sh else r := by
  have hb : b % 2 = if decide (b % 2 = 1) then 1 else 0 := by
    by_cases h : b % 2 = 1 <;> simp [h]; omega
  rw [hb, fromU32Lsb_bit, uselect_spec _ hr hsh hl]
  by_cases h : b % 2 = 1 <;> simp [h]

/-! ### left shift -/

/-- for `s ≥ BITS` the product `x * 2^s` vanishes modulo `2^BITS` -/
theorem shl_overflow_zero {n s : Nat} (x : Nat) (h : 64 * n ≤ s) : (x * 2 ^ s) % B ^ n = 0 := by
  have : 2 ^ s = B ^ n * 2 ^ (s - 64 * n) := by
    rw [B_pow_eq, ← Nat.pow_add]; congr 1; omega
  rw [this, Nat.mul_comm (B ^ n), ← Nat.mul_assoc, Nat.mul_mod_left]

/-- value of the vartime left shift for EVERY `s` (zero on overflow) -/
theorem shlV_val {a : List Nat} (ha : WF a) (s : Nat) :
    val (overflowingShlVartime a s).1 = (val a * 2 ^ s) % B ^ a.length ∧
    (overflowingShlVartime a s).1.length = a.length ∧ WF (overflowingShlVartime a s).1 := by
  by_cases h : s < 64 * a.length
  · exact (overflowingShlVartime_spec ha h).2
  · have h' := Nat.not_lt.mp h
    rw [overflowingShlVartime_overflow a h', shl_overflow_zero _ h']
    exact ⟨val_uzero _, uzero_length _, uzero_WF _⟩

theorem shlV_add {n : Nat} {r : List Nat} (hr : WF r ∧ r.length = n) (t1 t2 : Nat) :
    (overflowingShlVartime (overflowingShlVartime r t1).1 t2).1 = (overflowingShlVartime r (t1 + t2)).1 := by
  have ⟨v1, l1, w1⟩ := shlV_val hr.1 t1
  have ⟨v2, l2, w2⟩ := shlV_val w1 t2
  have ⟨v3, l3, w3⟩ := shlV_val hr.1 (t1 + t2)
  apply val_inj w2 w3 (by omega)
  rw [v2, v3, v1, l1, Nat.mod_mul_mod, Nat.pow_add, Nat.mul_assoc]

theorem shlV_zero {r : List Nat} (hr : WF r) : (overflowingShlVartime r 0).1 = r := by
  have ⟨v1, l1, w1⟩ := shlV_val hr 0
  apply val_inj w1 hr l1
  rw [v1, Nat.pow_zero, Nat.mul_one, Nat.mod_eq_of_lt (val_lt hr)]

theorem shlLadder_spec {n : Nat} (shift k i : Nat) (r : List Nat)
    (hr : WF r ∧ r.length = n) (hsteps : ∀ j, i ≤ j → j < i + k → 2 ^ j < 64 * n) :
    shlLadder shift k i r = some (overflowingShlVartime r ((shift / 2 ^ i % 2 ^ k) * 2 ^ i)).1 := by
  refine ladder_generic (L := shlLadder) (fun t r => (overflowingShlVartime r t).1)
    (fun r => WF r ∧ r.length = n) (64 * n) (fun _ _ _ => rfl) ?_ (fun r hr => shlV_zero hr.1)
    (fun r t1 t2 hr => shlV_add hr t1 t2)
    (fun r t hr => ⟨(shlV_val hr.1 t).2.2, by rw [(shlV_val hr.1 t).2.1, hr.2]⟩) k i r shift hr hsteps
  intro shift k i r hr hi
  have hspec := overflowingShlVartime_spec hr.1 (by rw [hr.2]; exact hi)
  show (match expect (overflowingShlVartime r (2 ^ i)) with
    | none => none
    | some sh => shlLadder shift k (i + 1) (uselect r sh (fromU32Lsb ((shift / 2 ^ i) % 2)))) = _
  unfold expect
  rw [if_pos hspec.1]
  simp only
  rw [ladder_select hr.1 hspec.2.2.2 hspec.2.2.1.symm]

/-- the final `select(&result, &ZERO, overflow)` / `overflow.not()` of the ladder forms -/
theorem ladder_finish {a r : List Nat} {s : Nat} (hr : WF r) (hl : r.length = a.length)
    (hn : 64 * a.length < TWO32) (hs : s < TWO32) :
    (uselect r (uzero a.length) (choiceNot (fromU32Lt s (64 * a.length))),
      choiceNot (choiceNot (fromU32Lt s (64 * a.length)))) =
    if s < 64 * a.length then (r, WMAX) else (uzero a.length, 0) := by
  rw [fromU32Lt_spec hs hn, choiceNot_mask, choiceNot_mask,
    uselect_spec _ hr (uzero_WF _) (by rw [hl, uzero_length])]
  by_cases h : s < 64 * a.length <;> simp [h, mask]

theorem overflowingShl_eq_vartime {a : List Nat} (ha : WF a) (hn0 : a ≠ []) (hn : 64 * a.length < TWO32)
    {s : Nat} (hs : s < TWO32) :
    overflowingShl a s = some (overflowingShlVartime a s) := by
  have hlen : 0 < a.length := List.length_pos_iff.mpr hn0
  have hbits : 0 < 64 * a.length := by omega
  have hn' := Nat.le_of_lt hn
  unfold overflowingShl
  simp only
  have hl := shlLadder_spec (s % (64 * a.length)) (shiftBits (64 * a.length)) 0 a ⟨ha, rfl⟩
    (fun j _ hj => step_lt_bits hbits hn' (by omega))
  rw [Nat.pow_zero, Nat.div_one, Nat.mul_one, Nat.mod_eq_of_lt (reduced_lt hbits hn')] at hl
  rw [hl]
  simp only
  have hv := shlV_val ha (s % (64 * a.length))
  rw [ladder_finish hv.2.2 hv.2.1 hn hs]
  by_cases h : s < 64 * a.length
  · rw [if_pos h, Nat.mod_eq_of_lt h]
    have := (overflowingShlVartime_spec ha h).1
    rw [← this]
  · rw [if_neg h, overflowingShlVartime_overflow a (Nat.not_lt.mp h)]

/-! ### right shift -/

theorem shr_overflow_zero {a : List Nat} (ha : WF a) {s : Nat} (h : 64 * a.length ≤ s) :
    val a / 2 ^ s = 0 := by
  apply Nat.div_eq_of_lt
  have h1 := val_lt ha
  rw [B_pow_eq] at h1
  exact Nat.lt_of_lt_of_le h1 (Nat.pow_le_pow_right (by decide) h)

theorem shrV_val {a : List Nat} (ha : WF a) (s : Nat) :
    val (overflowingShrVartime a s).1 = val a / 2 ^ s ∧
    (overflowingShrVartime a s).1.length = a.length ∧ WF (overflowingShrVartime a s).1 := by
  by_cases h : s < 64 * a.length
  · exact (overflowingShrVartime_spec ha h).2
  · have h' := Nat.not_lt.mp h
    rw [overflowingShrVartime_overflow a h', shr_overflow_zero ha h']
    exact ⟨val_uzero _, uzero_length _, uzero_WF _⟩

theorem shrV_add {n : Nat} {r : List Nat} (hr : WF r ∧ r.length = n) (t1 t2 : Nat) :
    (overflowingShrVartime (overflowingShrVartime r t1).1 t2).1 = (overflowingShrVartime r (t1 + t2)).1 := by
  have ⟨v1, l1, w1⟩ := shrV_val hr.1 t1
  have ⟨v2, l2, w2⟩ := shrV_val w1 t2
  have ⟨v3, l3, w3⟩ := shrV_val hr.1 (t1 + t2)
  apply val_inj w2 w3 (by omega)
  rw [v2, v3, v1, Nat.div_div_eq_div_mul, Nat.pow_add]

theorem shrV_zero {r : List Nat} (hr : WF r) : (overflowingShrVartime r 0).1 = r := by
  have ⟨v1, l1, w1⟩ := shrV_val hr 0
  apply val_inj w1 hr l1
  rw [v1, Nat.pow_zero, Nat.div_one]

theorem shrLadder_spec {n : Nat} (shift k i : Nat) (r : List Nat)
    (hr : WF r ∧ r.length = n) (hsteps : ∀ j, i ≤ j → j < i + k → 2 ^ j < 64 * n) :
    shrLadder shift k i r = some (overflowingShrVartime r ((shift / 2 ^ i % 2 ^ k) * 2 ^ i)).1 := by
  refine ladder_generic (L := shrLadder) (fun t r => (overflowingShrVartime r t).1)
    (fun r => WF r ∧ r.length = n) (64 * n) (fun _ _ _ => rfl) ?_ (fun r hr => shrV_zero hr.1)
    (fun r t1 t2 hr => shrV_add hr t1 t2)
    (fun r t hr => ⟨(shrV_val hr.1 t).2.2, by rw [(shrV_val hr.1 t).2.1, hr.2]⟩) k i r shift hr hsteps
  intro shift k i r hr hi
  have hspec := overflowingShrVartime_spec hr.1 (by rw [hr.2]; exact hi)
  show (match expect (overflowingShrVartime r (2 ^ i)) with
    | none => none
    | some sh => shrLadder shift k (i + 1) (uselect r sh (fromU32Lsb ((shift / 2 ^ i) % 2)))) = _
  unfold expect
  rw [if_pos hspec.1]
  simp only
  rw [ladder_select hr.1 hspec.2.2.2 hspec.2.2.1.symm]

theorem overflowingShr_eq_vartime {a : List Nat} (ha : WF a) (hn0 : a ≠ []) (hn : 64 * a.length < TWO32)
    {s : Nat} (hs : s < TWO32) :
    overflowingShr a s = some (overflowingShrVartime a s) := by
  have hlen : 0 < a.length := List.length_pos_iff.mpr hn0
  have hbits : 0 < 64 * a.length := by omega
  have hn' := Nat.le_of_lt hn
  unfold overflowingShr
  simp only
  have hl := shrLadder_spec (s % (64 * a.length)) (shiftBits (64 * a.length)) 0 a ⟨ha, rfl⟩
    (fun j _ hj => step_lt_bits hbits hn' (by omega))
  rw [Nat.pow_zero, Nat.div_one, Nat.mul_one, Nat.mod_eq_of_lt (reduced_lt hbits hn')] at hl
  rw [hl]
  simp only
  have hv := shrV_val ha (s % (64 * a.length))
  rw [ladder_finish hv.2.2 hv.2.1 hn hs]
  by_cases h : s < 64 * a.length
  · rw [if_pos h, Nat.mod_eq_of_lt h]
    have := (overflowingShrVartime_spec ha h).1
    rw [← this]
  · rw [if_neg h, overflowingShrVartime_overflow a (Nat.not_lt.mp h)]

/-- `wrapping_shl_vartime` / `wrapping_shr_vartime` = the value component of the overflowing form
    (zero on overflow) -/
theorem wrappingShlVartimeU_eq {a : List Nat} (ha : WF a) (s : Nat) :
    wrappingShlVartimeU a s = (overflowingShlVartime a s).1 := by
  have hv := shlV_val ha s
  unfold wrappingShlVartimeU unwrapOr
  by_cases h : s < 64 * a.length
  · rw [(overflowingShlVartime_spec ha h).1]
    exact uselect_spec true (uzero_WF _) hv.2.2 (by rw [hv.2.1, uzero_length])
  · rw [overflowingShlVartime_overflow a (Nat.not_lt.mp h)]
    exact uselect_spec false (uzero_WF _) (uzero_WF _) rfl

theorem wrappingShrVartimeU_eq {a : List Nat} (ha : WF a) (s : Nat) :
    wrappingShrVartimeU a s = (overflowingShrVartime a s).1 := by
  have hv := shrV_val ha s
  unfold wrappingShrVartimeU unwrapOr
  by_cases h : s < 64 * a.length
  · rw [(overflowingShrVartime_spec ha h).1]
    exact uselect_spec true (uzero_WF _) hv.2.2 (by rw [hv.2.1, uzero_length])
  · rw [overflowingShrVartime_overflow a (Nat.not_lt.mp h)]
    exact uselect_spec false (uzero_WF _) (uzero_WF _) rfl

end CB.Shift
