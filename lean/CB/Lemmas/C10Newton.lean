/-
  CB.Lemmas.C10Newton — `inv_mod2_62` (Hurchalla/Newton doubling): for an odd low word `v` the
  result `r` satisfies `0 ≤ r < 2^62` and `r·v ≡ 1 (mod 2^62)` (indeed the untruncated value is an
  inverse modulo 2^64).
-/
import CB.Model.SafeGcd
import Mathlib.Data.ZMod.Basic
import Mathlib.Data.Nat.Bitwise
import Mathlib.Tactic.Ring
import Mathlib.Tactic.LinearCombination
namespace CB.SafeGcd

theorem U64_eq : U64 = 2 ^ 64 := rfl
theorem LB_eq : LB = 62 := rfl
theorem MASK_eq : MASK = 2 ^ 62 - 1 := by decide

/-- Montgomery's seed: `(3v xor 2)·v ≡ 1 (mod 32)` for odd `v` (all 16 odd residues). -/
theorem seed_table : ∀ r : Fin 32, r.val % 2 = 1 → ((((r.val * 3) % 32) ^^^ 2) * r.val) % 32 = 1 := by
  decide

theorem seed_mod32 (v : Nat) (hv : v % 2 = 1) : ((((v * 3) % U64) ^^^ 2) * v) % 32 = 1 := by
  have h32 : (32 : Nat) = 2 ^ 5 := rfl
  have hd : (32 : Nat) ∣ U64 := by rw [U64_eq]; exact ⟨2 ^ 59, by norm_num⟩
  have e1 : (((v * 3) % U64) ^^^ 2) % 32 = ((v % 32 * 3) % 32) ^^^ 2 := by
    rw [h32, Nat.xor_mod_two_pow, ← h32, Nat.mod_mod_of_dvd _ hd]
    congr 1
    omega
  rw [Nat.mul_mod, e1]
  have hr : (v % 32) % 2 = 1 := by omega
  have := seed_table ⟨v % 32, Nat.mod_lt _ (by omega)⟩ hr
  simpa using this

/-- one doubling step in `ZMod (2^64)`: if `x·v = 1 - y` then `x(1+y)·v = 1 - y²` -/
theorem newton_step {R : Type} [CommRing R] (x y v : R) (h : x * v = 1 - y) :
    (x * (y + 1)) * v = 1 - y * y := by
  linear_combination (1 + y) * h

theorem invMod2_62_spec (v : Nat) (rest : List Nat) (hv : v % 2 = 1) :
    0 ≤ invMod2_62 (v :: rest) ∧ invMod2_62 (v :: rest) < 2 ^ 62 ∧
    (invMod2_62 (v :: rest) * (v : Int)) % 2 ^ 62 = 1 := by
  unfold invMod2_62
  simp only [List.headD_cons]
  -- name the intermediate words
  generalize hx : ((v * 3) % U64) ^^^ 2 = x
  generalize hy : (1 + U64 - (x * v) % U64) % U64 = y
  generalize hx1 : (x * ((y + 1) % U64)) % U64 = x1
  generalize hy1 : (y * y) % U64 = y1
  generalize hx2 : (x1 * ((y1 + 1) % U64)) % U64 = x2
  generalize hy2 : (y1 * y1) % U64 = y2
  generalize hx3 : (x2 * ((y2 + 1) % U64)) % U64 = x3
  generalize hy3 : (y2 * y2) % U64 = y3
  generalize hx4 : (x3 * ((y3 + 1) % U64)) % U64 = x4
  have hseed : (x * v) % 32 = 1 := by rw [← hx]; exact seed_mod32 v hv
  -- y ≡ 0 (mod 32)
  have hy32 : y % 32 = 0 := by
    rw [← hy]
    have hlt : (x * v) % U64 < U64 := Nat.mod_lt _ (by rw [U64_eq]; positivity)
    have hm : ((x * v) % U64) % 32 = 1 := by
      rw [Nat.mod_mod_of_dvd _ (by rw [U64_eq]; exact ⟨2 ^ 59, by norm_num⟩)]; exact hseed
    rw [U64_eq] at *
    omega
  -- work in ZMod (2^64)
  have hU0 : ((U64 : Nat) : ZMod U64) = 0 := ZMod.natCast_self U64
  have cy : (y : ZMod U64) = 1 - (x : ZMod U64) * v := by
    rw [← hy, ZMod.natCast_mod]
    have hlt : (x * v) % U64 ≤ 1 + U64 := by
      have := Nat.mod_lt (x * v) (show 0 < U64 by rw [U64_eq]; positivity); omega
    rw [Nat.cast_sub hlt, Nat.cast_add, hU0, ZMod.natCast_mod]; push_cast; ring
  have c0 : (x : ZMod U64) * v = 1 - y := by rw [cy]; ring
  have cx1 : (x1 : ZMod U64) = x * (y + 1) := by
    rw [← hx1, ZMod.natCast_mod, Nat.cast_mul, ZMod.natCast_mod]; push_cast; ring
  have cy1 : (y1 : ZMod U64) = y * y := by rw [← hy1, ZMod.natCast_mod]; push_cast; ring
  have cx2 : (x2 : ZMod U64) = x1 * (y1 + 1) := by
    rw [← hx2, ZMod.natCast_mod, Nat.cast_mul, ZMod.natCast_mod]; push_cast; ring
  have cy2 : (y2 : ZMod U64) = y1 * y1 := by rw [← hy2, ZMod.natCast_mod]; push_cast; ring
  have cx3 : (x3 : ZMod U64) = x2 * (y2 + 1) := by
    rw [← hx3, ZMod.natCast_mod, Nat.cast_mul, ZMod.natCast_mod]; push_cast; ring
  have cy3 : (y3 : ZMod U64) = y2 * y2 := by rw [← hy3, ZMod.natCast_mod]; push_cast; ring
  have cx4 : (x4 : ZMod U64) = x3 * (y3 + 1) := by
    rw [← hx4, ZMod.natCast_mod, Nat.cast_mul, ZMod.natCast_mod]; push_cast; ring
  have s1 : (x1 : ZMod U64) * v = 1 - y1 := by rw [cx1, cy1]; exact newton_step _ _ _ c0
  have s2 : (x2 : ZMod U64) * v = 1 - y2 := by rw [cx2, cy2]; exact newton_step _ _ _ s1
  have s3 : (x3 : ZMod U64) * v = 1 - y3 := by rw [cx3, cy3]; exact newton_step _ _ _ s2
  have s4 : (x4 : ZMod U64) * v = 1 - y3 * y3 := by rw [cx4]; exact newton_step _ _ _ s3
  -- y3·y3 = y^16 = (32 c)^16 = 0
  have hyc : (y : ZMod U64) = 32 * ((y / 32 : Nat) : ZMod U64) := by
    have : y = 32 * (y / 32) := by omega
    conv_lhs => rw [this]
    push_cast; ring
  have h32 : ((32 : ZMod U64)) ^ 16 = 0 := by
    have : ((32 ^ 16 : Nat) : ZMod U64) = 0 := by
      rw [ZMod.natCast_eq_zero_iff, U64_eq]; exact ⟨2 ^ 16, by norm_num⟩
    push_cast at this; exact this
  have hz : (y3 : ZMod U64) * y3 = 0 := by
    rw [cy3, cy2, cy1, hyc]
    have : (32 * ((y / 32 : Nat) : ZMod U64)) ^ 16 = 0 := by rw [mul_pow, h32, zero_mul]
    linear_combination this
  rw [hz, sub_zero] at s4
  -- back to Nat
  have hnat : (x4 * v) % U64 = 1 := by
    have : ((x4 * v : Nat) : ZMod U64) = ((1 : Nat) : ZMod U64) := by push_cast; exact s4
    rw [ZMod.natCast_eq_natCast_iff] at this
    have h1 : (1 : Nat) % U64 = 1 := by rw [U64_eq]; norm_num
    rw [Nat.ModEq, h1] at this; exact this
  have hmask : ((2 ^ 64 - 1) >>> 2 : Nat) = 2 ^ 62 - 1 := by decide
  rw [hmask, Nat.and_two_pow_sub_one_eq_mod]
  refine ⟨Int.natCast_nonneg _, ?_, ?_⟩
  · have : x4 % 2 ^ 62 < 2 ^ 62 := Nat.mod_lt _ (by positivity)
    exact_mod_cast this
  · have hd : (2 ^ 62 : Nat) ∣ U64 := by rw [U64_eq]; exact ⟨4, by norm_num⟩
    have h2 : (x4 % 2 ^ 62 * v) % 2 ^ 62 = 1 := by
      rw [Nat.mul_mod, Nat.mod_mod, ← Nat.mul_mod, ← Nat.mod_mod_of_dvd _ hd, hnat]; norm_num
    have : ((x4 % 2 ^ 62 * v : Nat) : Int) % ((2 ^ 62 : Nat) : Int) = ((1 : Nat) : Int) := by
      rw [← Int.natCast_mod, h2]
    push_cast at this
    exact this

end CB.SafeGcd
