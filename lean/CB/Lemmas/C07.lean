/-
  CB.Lemmas.C07 — helper lemmas for property C07 (modular add/sub/neg/double/mul/halve).
-/
import CB.Lemmas.AddSub
import CB.Lemmas.C07Bits
namespace CB.ModArith
open CB

/-! ### arithmetic helpers -/

theorem mod_of_lt_two {s p : Nat} (h : s < 2 * p) : s % p = if s < p then s else s - p := by
  by_cases hs : s < p
  · simp [hs, Nat.mod_eq_of_lt hs]
  · simp only [hs, if_false]
    rw [Nat.mod_eq_sub_mod (by omega), Nat.mod_eq_of_lt (by omega)]

theorem mask_lt_B (b : Bool) : mask b < B := by cases b <;> decide

/-! ### constructors -/

theorem bitandLimb_length (p : List Nat) (m : Nat) : (bitandLimb p m).length = p.length := by
  induction p with
  | nil => rfl
  | cons x xs ih => simp [bitandLimb, ih]

theorem bitandLimb_mask {p : List Nat} (hp : WF p) (b : Bool) :
    bitandLimb p (mask b) = if b then p else uzero p.length := by
  induction p with
  | nil => cases b <;> rfl
  | cons x xs ih =>
    have ⟨hx, hxs⟩ := WF_cons.mp hp
    cases b
    · have := ih hxs
      simp only [Bool.false_eq_true, if_false] at this ⊢
      have hm : mask false = 0 := rfl
      rw [hm] at this ⊢
      simp only [bitandLimb, this, Nat.and_zero, uzero, List.length_cons, List.replicate_succ]
    · have := ih hxs
      simp only [if_true] at this ⊢
      have hm : mask true = WMAX := rfl
      rw [hm] at this ⊢
      simp only [bitandLimb, this, and_WMAX hx]

theorem fromWord_length (n w : Nat) : (fromWord n w).length = n := by
  cases n <;> simp [fromWord, uzero]

theorem fromWord_WF {n w : Nat} (hw : w < B) : WF (fromWord n w) := by
  cases n with
  | zero => exact WF_nil
  | succ n => exact WF_cons.mpr ⟨hw, uzero_WF n⟩

theorem val_fromWord {n w : Nat} (hn : 0 < n) : val (fromWord n w) = w := by
  cases n with
  | zero => omega
  | succ n => simp [fromWord, val_uzero]

theorem fromWideWord_length {n : Nat} (w : Nat) (hn : 2 ≤ n) : (fromWideWord n w).length = n := by
  match n, hn with
  | n + 2, _ => simp [fromWideWord, uzero]

theorem fromWideWord_WF (n w : Nat) : WF (fromWideWord n w) := by
  match n with
  | 0 => exact WF_nil
  | 1 => exact WF_nil
  | n + 2 =>
    exact WF_cons.mpr ⟨Nat.mod_lt _ B_pos, WF_cons.mpr ⟨Nat.mod_lt _ B_pos, uzero_WF n⟩⟩

theorem val_fromWideWord {n w : Nat} (hn : 2 ≤ n) (hw : w < B * B) : val (fromWideWord n w) = w := by
  match n, hn with
  | n + 2, _ =>
    simp only [fromWideWord, val_cons, val_uzero, Nat.mul_zero, Nat.add_zero]
    have : w / B % B = w / B := Nat.mod_eq_of_lt (Nat.div_lt_of_lt_mul hw)
    rw [this]; exact Nat.mod_add_div w B

theorem uzero_length (n : Nat) : (uzero n).length = n := by simp [uzero]

theorem padTo_self (l : List Nat) : padTo l.length l = l := by simp [padTo, uzero]

/-! ### values of the wrapping chains (from C04) -/

theorem wrappingAdd_val {a b : List Nat} (h : a.length = b.length) :
    val (wrappingAdd a b) = (val a + val b) % B ^ a.length := (add_value_carry h).1

theorem wrappingSub_val {a b : List Nat} (ha : WF a) (hb : WF b) (h : a.length = b.length) :
    val (wrappingSub a b) = (val a + B ^ a.length - val b) % B ^ a.length := by
  have ⟨_, hv⟩ := sub_value_borrow ha hb h
  have hva := val_lt ha
  have hvb := val_lt hb; rw [← h] at hvb
  show val (usbb a b 0).1 = _
  rw [hv]
  by_cases hlt : val a < val b
  · simp only [hlt, if_true]; rw [Nat.mod_eq_of_lt (by omega)]
  · simp only [hlt, if_false]
    have : val a + B ^ a.length - val b = (val a - val b) + B ^ a.length := by omega
    rw [this, Nat.add_mod_right, Nat.mod_eq_of_lt (by omega)]

theorem wrappingAdd_WF (a b : List Nat) : WF (wrappingAdd a b) := uadc_WF a b 0
theorem wrappingAdd_length {a b : List Nat} (h : a.length = b.length) :
    (wrappingAdd a b).length = a.length := uadc_length a b 0 h
theorem wrappingSub_WF (a b : List Nat) : WF (wrappingSub a b) := usbb_WF a b 0
theorem wrappingSub_length {a b : List Nat} (h : a.length = b.length) :
    (wrappingSub a b).length = a.length := usbb_length a b 0 h

/-- carry of an `adc` chain with arbitrary carry-in, from the exact equation -/
theorem uadc_carry_le_one' {a b : List Nat} {c : Nat} (h : a.length = b.length)
    (hs : val a + val b + c < 2 * B ^ a.length) : (uadc a b c).2 ≤ 1 := by
  have e := uadc_spec a b c h
  have hp := Bpow_pos a.length
  apply Nat.le_of_lt_succ
  apply Nat.lt_of_mul_lt_mul_left (a := B ^ a.length)
  omega

/-- value of an `adc` chain whose carry-out is known to be ≤ 1 -/
theorem uadc_val_cases {a b : List Nat} {c : Nat} (h : a.length = b.length)
    (hs : val a + val b + c < 2 * B ^ a.length) :
    ((uadc a b c).2 = 0 ∧ val (uadc a b c).1 = val a + val b + c ∧ val a + val b + c < B ^ a.length) ∨
    ((uadc a b c).2 = 1 ∧ val (uadc a b c).1 + B ^ a.length = val a + val b + c) := by
  have e := uadc_spec a b c h
  have hc := uadc_carry_le_one' h hs
  have hlt := val_lt (uadc_WF a b c)
  rw [uadc_length a b c h] at hlt
  rcases (show (uadc a b c).2 = 0 ∨ (uadc a b c).2 = 1 by omega) with h0 | h1
  · left; rw [h0] at e; simp only [Nat.mul_zero, Nat.add_zero] at e; exact ⟨h0, e, by omega⟩
  · right; rw [h1] at e; simp only [Nat.mul_one] at e; exact ⟨h1, e⟩

/-! ### `add_mod` / `double_mod` tail -/

theorem sbb_mask_table :
    (sbb 0 0 0).2 = 0 ∧ (sbb 0 0 WMAX).2 = WMAX ∧ (sbb 1 0 0).2 = 0 ∧ (sbb 1 0 WMAX).2 = 0 := by
  decide

/-- `w` (with carry bit `carry` on top) minus `p` if that does not underflow: the canonical residue
    of any value `< 2p`. -/
theorem addModTail_spec {w p : List Nat} {carry : Nat} (hw : WF w) (hp : WF p)
    (h : w.length = p.length) (hc : carry ≤ 1)
    (hs : val w + B ^ w.length * carry < 2 * val p) :
    val (addModTail w carry p) = (val w + B ^ w.length * carry) % val p ∧
    WF (addModTail w carry p) ∧ (addModTail w carry p).length = w.length := by
  have ⟨hb, hv⟩ := sub_value_borrow hw hp h
  have hl := usbb_length w p 0 h
  have hvw := val_lt hw
  have hvp := val_lt hp; rw [← h] at hvp
  have hK := Bpow_pos w.length
  have hl2 : (usbb w p 0).1.length = (bitandLimb p (sbb carry 0 (usbb w p 0).2).2).length := by
    rw [hl, bitandLimb_length, h]
  refine ⟨?_, wrappingAdd_WF _ _, ?_⟩
  · show val (wrappingAdd (usbb w p 0).1 (bitandLimb p (sbb carry 0 (usbb w p 0).2).2)) = _
    rw [mod_of_lt_two hs, wrappingAdd_val hl2, hl, hv, hb]
    have ⟨t00, t01, t10, t11⟩ := sbb_mask_table
    rcases (show carry = 0 ∨ carry = 1 by omega) with rfl | rfl
    · simp only [Nat.mul_zero, Nat.add_zero] at hs ⊢
      by_cases hlt : val w < val p
      · simp only [hlt, decide_true, if_true]
        have hm : mask true = WMAX := rfl
        rw [hm, t01, ← hm, bitandLimb_mask hp true, if_pos rfl]
        have : val w + B ^ w.length - val p + val p = val w + B ^ w.length := by omega
        rw [this, Nat.add_mod_right, Nat.mod_eq_of_lt hvw]
      · simp only [hlt, decide_false, if_false]
        have hm : mask false = 0 := rfl
        rw [hm, t00, ← hm, bitandLimb_mask hp false]
        simp only [Bool.false_eq_true, if_false, val_uzero, Nat.add_zero]
        exact Nat.mod_eq_of_lt (by omega)
    · simp only [Nat.mul_one] at hs ⊢
      have hlt : val w < val p := by omega
      have hge : ¬ (val w + B ^ w.length < val p) := by omega
      simp only [hlt, decide_true, if_true, hge, if_false]
      have hm : mask true = WMAX := rfl
      have hm0 : mask false = 0 := rfl
      rw [hm, t11, ← hm0, bitandLimb_mask hp false]
      simp only [Bool.false_eq_true, if_false, val_uzero, Nat.add_zero]
      exact Nat.mod_eq_of_lt (by omega)
  · show (wrappingAdd (usbb w p 0).1 _).length = _
    rw [wrappingAdd_length hl2, hl]

/-! ### `overflowing_shl1` -/

theorem shl1Loop_cons (a c : Nat) (as : List Nat) :
    shl1Loop (a :: as) c =
      ((((a * 2) % B) ||| c) :: (shl1Loop as (a / HALF)).1, (shl1Loop as (a / HALF)).2) := rfl

theorem shl1Loop_spec {a : List Nat} {y : Nat} (ha : WF a) (hy : y < B) :
    val (shl1Loop a (y / HALF)).1 + B ^ a.length * (shl1Loop a (y / HALF)).2 = 2 * val a + y / HALF ∧
    (shl1Loop a (y / HALF)).2 ≤ 1 ∧ WF (shl1Loop a (y / HALF)).1 ∧
    (shl1Loop a (y / HALF)).1.length = a.length := by
  induction a generalizing y with
  | nil =>
    refine ⟨by simp [shl1Loop], ?_, WF_nil, rfl⟩
    simp only [shl1Loop, B_def, HALF_def] at *; omega
  | cons x xs ih =>
    have ⟨hx, hxs⟩ := WF_cons.mp ha
    have ⟨i1, i2, i3, i4⟩ := ih (y := x) hxs hx
    rw [shl1Loop_cons, shl1_or hx hy]
    simp only [val_cons, List.length_cons, Nat.pow_succ]
    have hlt : (x * 2) % B + y / HALF < B := by simp only [B_def, HALF_def] at *; omega
    refine ⟨?_, i2, WF_cons.mpr ⟨hlt, i3⟩, by rw [i4]⟩
    rw [Nat.mul_comm (B ^ xs.length) B, Nat.mul_assoc]
    have e := congrArg (B * ·) i1
    simp only [Nat.mul_add] at e
    have h2 : (x * 2) % B + B * (x / HALF) = 2 * x := by simp only [B_def, HALF_def] at *; omega
    have h3 : B * (2 * val xs) = 2 * (B * val xs) := Nat.mul_left_comm _ _ _
    omega

theorem overflowingShl1_spec {a : List Nat} (ha : WF a) :
    val (overflowingShl1 a).1 + B ^ a.length * (overflowingShl1 a).2 = 2 * val a ∧
    (overflowingShl1 a).2 ≤ 1 ∧ WF (overflowingShl1 a).1 ∧ (overflowingShl1 a).1.length = a.length := by
  have h0 : (0 : Nat) / HALF = 0 := by decide
  have := shl1Loop_spec (y := 0) ha (by decide)
  rw [h0] at this
  simpa [overflowingShl1] using this

/-! ### zero tests -/

theorem orAll_lt_B {a : List Nat} (ha : WF a) : orAll a < B := by
  induction a with
  | nil => decide
  | cons x xs ih =>
    have ⟨hx, hxs⟩ := WF_cons.mp ha
    exact or_lt_B hx (ih hxs)

theorem val_eq_zero_cons {x : Nat} {xs : List Nat} : val (x :: xs) = 0 ↔ x = 0 ∧ val xs = 0 := by
  simp only [val_cons, Nat.add_eq_zero_iff, Nat.mul_eq_zero]
  have := B_pos
  constructor
  · rintro ⟨h1, h2 | h2⟩
    · omega
    · exact ⟨h1, h2⟩
  · rintro ⟨h1, h2⟩; exact ⟨h1, Or.inr h2⟩

theorem orAll_eq_zero_iff (a : List Nat) : orAll a = 0 ↔ val a = 0 := by
  induction a with
  | nil => simp [orAll]
  | cons x xs ih => rw [val_eq_zero_cons, ← ih]; exact Nat.or_eq_zero_iff

theorem isNonzero_spec {a : List Nat} (ha : WF a) : isNonzero a = mask (decide (val a ≠ 0)) := by
  unfold isNonzero
  rw [fromWordNonzero_spec (orAll_lt_B ha)]
  congr 1
  have := orAll_eq_zero_iff a
  by_cases h : val a = 0
  · simp [h, this.mpr h]
  · simp [h, mt this.mp h]

/-- `BoxedUint::is_zero` -/
theorem bIsZero_spec {a : List Nat} (ha : WF a) : bIsZero a = mask (decide (val a = 0)) := by
  induction a with
  | nil => rfl
  | cons x xs ih =>
    have ⟨hx, hxs⟩ := WF_cons.mp ha
    simp only [bIsZero, ih hxs, fromWordEq_spec hx (show (0:Nat) < B by decide)]
    have hand : ∀ p q : Bool, mask p &&& mask q = mask (p && q) := by
      intro p q; cases p <;> cases q <;> decide
    rw [hand]
    congr 1
    rw [Bool.eq_iff_iff]
    simp only [Bool.and_eq_true, decide_eq_true_eq]
    exact val_eq_zero_cons.symm

/-! ### mask tables -/

theorem subcarry_mask_table :
    (wnot (wneg 0) &&& 0 = 0) ∧ (wnot (wneg 0) &&& WMAX = WMAX) ∧
    (wnot (wneg 1) &&& 0 = 0) ∧ (wnot (wneg 1) &&& WMAX = 0) := by decide

theorem wsub_one_table : wsub 0 1 = WMAX ∧ wsub 1 1 = 0 := by decide

theorem wsub_zero {c : Nat} (h1 : 1 ≤ c) (hc : c < B) : wsub 0 c = B - c := by
  simp only [wsub, B_def] at *; omega

end CB.ModArith
