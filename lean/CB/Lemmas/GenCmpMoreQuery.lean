/-
  CB.Lemmas.GenCmpMoreQuery — the hand-written model of the VARIABLE-TIME bit queries (`bitVartime`, `bitsVartime`,
  `leadingZerosVartime`, `trailingZerosVartime`, `trailingOnesVartime`, `ubits` of CB/Model/Bits.lean — what `bits_spec`,
  `trailing_zeros_spec`, `trailing_ones_spec`, `bit_spec` of CB/Props/C05.lean are proved about) IS the translated source
  (CB/Gen/CmpMore.lean: the free functions of src/uint/bits.rs and the `impl Uint` forwarders), for EVERY slice length.

  The three data-dependent loops and their inductions:
    * `bits_vartime` — `while i > 0 && limbs[i].0 == 0 { i -= 1; }` is translated by structural recursion on the counter;
      induction on the counter `n`: the loop started at `n` finds the index `j ≤ n` with which the model's top-down scan
      `bitsVartimeRev` of the lowest `n + 1` limbs answers `64·(j+1) − lz(limbs[j])`;
    * `trailing_zeros_vartime` / `trailing_ones_vartime` — `while i < len { ..; if z != BITS { break; } i += 1; }`:
      induction over the fuel, invariant  result = count + (model on the limbs from `i` on);  the `u32` count does not wrap
      under `64 · len < 2^32`.
  One round of each loop comes from CB/Lemmas/GenBitsCmpMore.lean.  No `bv_decide` in this file.
-/
import CB.Lemmas.GenCmpMore
import CB.Lemmas.C05Query
namespace CB.GenCmpMore
open CB CB.Gen CB.GenBits CB.GenChains CB.Shift CB.Bits

theorem nats_getD (a : List (BitVec 64)) (k : Nat) : (nats a).getD k 0 = (a.getD k 0#64).toNat := by
  simp only [nats, List.getD_eq_getElem?_getD, List.getElem?_map]
  cases a[k]? <;> rfl

/-! ## `bit_vartime` -/

/-- **`uint::bits::bit_vartime`** (an `if / else` expression), every slice and index -/
theorem bitVartime_bridge (a : List (BitVec 64)) (idx : BitVec 32) :
    bitVartime (nats a) idx.toNat = CmpMore.Bits.bit_vartime a idx := by
  have e2 : (idx / 64#32).toNat = idx.toNat / 64 := by rw [BitVec.toNat_udiv]; rfl
  have e3 : (idx % 64#32).toNat % 64 = idx.toNat % 64 := by rw [mod64_toNat]; omega
  rw [bit_vartime_eq, bitVartime, e2, e3, nats_length]
  by_cases h : idx.toNat / 64 ≥ a.length
  · simp [h]
  · simp only [h, if_false, nats_getD, wshr_bv]
    generalize (a.getD (idx.toNat / 64) 0#64 >>> (idx.toNat % 64)) = v
    rw [Bool.eq_iff_iff]
    simp only [beq_iff_eq]
    constructor
    · intro hv; exact BitVec.eq_of_toNat_eq (by rw [BitVec.toNat_and]; exact hv)
    · intro hv; have := congrArg BitVec.toNat hv; rwa [BitVec.toNat_and] at this

/-! ## `bits_vartime`, `leading_zeros_vartime`, `bits` -/

theorem bitsVartimeRev_cons (l : Nat) (rest : List Nat) :
    bitsVartimeRev (l :: rest) =
      if l = 0 ∧ rest ≠ [] then bitsVartimeRev rest else some (64 * (rest.length + 1) - wlz l) := by
  cases rest with
  | nil => simp [bitsVartimeRev]
  | cons l' ls => by_cases h : l = 0 <;> simp [bitsVartimeRev, h]

theorem bitsv_loop_bridge (a : List (BitVec 64)) :
    ∀ n, n < a.length →
      CmpMore.Bits.bits_vartime_loop1 a n ≤ n ∧
      bitsVartimeRev (nats (a.take (n + 1))).reverse =
        some (64 * (CmpMore.Bits.bits_vartime_loop1 a n + 1) -
          wlz (a.getD (CmpMore.Bits.bits_vartime_loop1 a n) 0#64).toNat) := by
  intro n
  induction n with
  | zero =>
    intro h
    rw [bitsv_loop_zero, nats_take_succ_reverse a 0 h, bitsVartimeRev_cons]
    simp [nats]
  | succ n ih =>
    intro h
    obtain ⟨ih1, ih2⟩ := ih (by omega)
    have hlen : (nats (a.take (n + 1))).reverse.length = n + 1 := by
      rw [List.length_reverse, nats_length, List.length_take]; omega
    have hne : (nats (a.take (n + 1))).reverse ≠ [] := by
      intro e; rw [e] at hlen; simp at hlen
    rw [bitsv_loop_succ, nats_take_succ_reverse a (n + 1) h, bitsVartimeRev_cons, hlen]
    by_cases hz : a.getD (n + 1) 0#64 = 0#64
    · have hz' : (a.getD (n + 1) 0#64 == 0#64) = true := by simpa using hz
      rw [hz', if_pos rfl, if_pos ⟨by rw [hz]; rfl, hne⟩]
      exact ⟨by omega, ih2⟩
    · have hz' : (a.getD (n + 1) 0#64 == 0#64) = false := by simpa using hz
      have hz2 : ¬ ((a.getD (n + 1) 0#64).toNat = 0 ∧ (nats (a.take (n + 1))).reverse ≠ []) :=
        fun e => hz (BitVec.eq_of_toNat_eq (by simpa using e.1))
      rw [hz', if_neg hz2]
      exact ⟨by simp, by simp⟩

/-- `Limb::BITS * (i as u32 + 1) - limb.leading_zeros()` in `u32` does not wrap -/
theorem bits_u32 (j : Nat) (z : BitVec 32) (hj : 64 * (j + 1) < 2 ^ 32) (hz : z.toNat ≤ 64) :
    (64#32 * (BitVec.ofNat 32 j + 1#32) - z).toNat = 64 * (j + 1) - z.toNat := by
  have h64 : (64#32).toNat = 64 := rfl
  have h1 : (1#32).toNat = 1 := rfl
  have hj' : (BitVec.ofNat 32 j).toNat = j := by
    rw [BitVec.toNat_ofNat]; exact Nat.mod_eq_of_lt (by omega)
  rw [BitVec.toNat_sub, BitVec.toNat_mul, BitVec.toNat_add, hj', h1, h64]
  omega

/-- **`uint::bits::bits_vartime`**: `some` of the translated value (the source's `limbs.len() - 1` panics on an empty slice;
    the model says `none` there) -/
theorem bitsVartime_bridge (a : List (BitVec 64)) (hne : a ≠ []) (hL : 64 * a.length < 2 ^ 32) :
    bitsVartime (nats a) = some (CmpMore.Bits.bits_vartime a).toNat := by
  have hpos : 0 < a.length := List.length_pos_iff.mpr hne
  obtain ⟨h1, h2⟩ := bitsv_loop_bridge a (a.length - 1) (by omega)
  rw [show a.length - 1 + 1 = a.length by omega, List.take_of_length_le (by omega)] at h2
  rw [bitsVartime, h2, bitsv_eq, bits_u32 _ _ (by omega) (GenShifts.limb_lz_le _), ← limbLeadingZeros_bridge]

/-- **`Uint::bits_vartime`**, **`Uint::leading_zeros_vartime`**, **`Uint::bits`**, **`Uint::leading_zeros`** (forwarders) -/
theorem uint_bits_forms_bridge (a : List (BitVec 64)) (hne : a ≠ []) (hL : 64 * a.length < 2 ^ 32) :
    bitsVartime (nats a) = some (CmpMore.Uint.bits_vartime a.length a).toNat ∧
    leadingZerosVartime (nats a) = some (CmpMore.Uint.leading_zeros_vartime a.length a).toNat ∧
    ubits (nats a) = (CmpMore.Uint.bits a.length a).toNat ∧
    leadingZeros (nats a) = (CmpMore.Uint.leading_zeros a.length a).toNat := by
  have hb := bitsVartime_bridge a hne hL
  have hlz := GenShifts.leadingZeros_bridge a hL
  have hne' : nats a ≠ [] := by
    cases a with
    | nil => exact absurd rfl hne
    | cons _ _ => simp [nats]
  have hbs := bitsVartime_spec (nats_WF a) hne'
  have hbl : bitlen (val (nats a)) ≤ 64 * a.length := by
    have := (ubits_spec (nats_WF a)); rw [ubits, nats_length] at this; omega
  have hlzs := leadingZeros_spec (nats_WF a)
  rw [nats_length] at hlzs
  have e32 : (BitVec.ofNat 32 (64 * a.length)).toNat = 64 * a.length := by
    rw [BitVec.toNat_ofNat, Nat.mod_eq_of_lt hL]
  have hbv : (CmpMore.Bits.bits_vartime a).toNat = bitlen (val (nats a)) := by
    rw [hbs] at hb; exact (Option.some.inj hb).symm
  refine ⟨by rw [uint_bits_vartime_eq]; exact hb, ?_, ?_, by rw [uint_leading_zeros_eq]; exact hlz⟩
  · rw [leadingZerosVartime, hb, uint_leading_zeros_vartime_eq, Option.map_some, nats_length, BitVec.toNat_sub, e32]
    congr 1
    have := (CmpMore.Bits.bits_vartime a).isLt
    omega
  · rw [ubits, nats_length, uint_bits_eq, BitVec.toNat_sub, e32, ← hlz, hlzs]
    omega

/-! ## `trailing_zeros_vartime`, `trailing_ones_vartime` -/

theorem trailingZerosVartime_cons (l : Nat) (ls : List Nat) :
    trailingZerosVartime (l :: ls) = if wtz l ≠ 64 then wtz l else wtz l + trailingZerosVartime ls := by
  rw [trailingZerosVartime]
theorem trailingOnesVartime_cons (l : Nat) (ls : List Nat) :
    trailingOnesVartime (l :: ls) = if wto l ≠ 64 then wto l else wto l + trailingOnesVartime ls := by
  rw [trailingOnesVartime]

/-- one round with `break`, on values: the count after the round, and whether the loop is left -/
theorem break_step (c z r : BitVec 32) (w T : Nat) (hz : z.toNat = w) (hw : w ≤ 64) (hc : c.toNat + 64 < 2 ^ 32)
    (hr : w = 64 → r.toNat = c.toNat + w + T) :
    (if z != 64#32 then c + z else r).toNat = c.toNat + (if w ≠ 64 then w else w + T) := by
  have hcz : (c + z).toNat = c.toNat + w := by rw [BitVec.toNat_add, hz]; omega
  by_cases h : w = 64
  · have hz' : z = 64#32 := BitVec.eq_of_toNat_eq (by rw [hz, h]; rfl)
    have : (z != 64#32) = false := by simp [hz']
    rw [this]
    simp only [Bool.false_eq_true, if_false, h, ne_eq, not_true_eq_false]
    rw [hr h, h]; omega
  · have hz' : z ≠ 64#32 := fun e => h (by rw [← hz, e]; rfl)
    have : (z != 64#32) = true := by simpa using hz'
    rw [this]
    simp only [if_true, ne_eq, h, not_false_eq_true, hcz]

theorem tzv_loop_bridge (a : List (BitVec 64)) :
    ∀ (n i : Nat) (c : BitVec 32), i + n = a.length → c.toNat + 64 * (a.length - i) < 2 ^ 32 →
      (CmpMore.Bits.trailing_zeros_vartime_loop1 a n i c).toNat = c.toNat + trailingZerosVartime (nats (a.drop i)) := by
  intro n
  induction n with
  | zero =>
    intro i c hi hc
    rw [tzv_loop_zero, List.drop_of_length_le (by omega)]
    simp [nats, trailingZerosVartime]
  | succ n ih =>
    intro i c hi hc
    have hi' : i < a.length := by omega
    have hz := (GenShifts.limbTrailingZeros_bridge (a.getD i 0#64)).symm
    have hle := GenShifts.limb_tz_le (a.getD i 0#64)
    rw [tzv_loop_succ a n i c hi', drop_eq_getD_cons a i hi']
    simp only [nats, List.map_cons]
    rw [trailingZerosVartime_cons]
    refine break_step c _ _ _ _ hz (by rw [← hz]; exact hle) (by omega) (fun h64 => ?_)
    rw [ih (i + 1) _ (by omega) (by rw [BitVec.toNat_add, hz, h64]; omega), BitVec.toNat_add, hz, h64]
    simp only [nats]
    omega

/-- **`uint::bits::trailing_zeros_vartime`** (loop with `break`) -/
theorem trailingZerosVartime_bridge (a : List (BitVec 64)) (hL : 64 * a.length < 2 ^ 32) :
    trailingZerosVartime (nats a) = (CmpMore.Bits.trailing_zeros_vartime a).toNat := by
  rw [tzv_eq, tzv_loop_bridge a a.length 0 0#32 (by omega) (by simpa using hL)]
  simp

theorem tov_loop_bridge (a : List (BitVec 64)) :
    ∀ (n i : Nat) (c : BitVec 32), i + n = a.length → c.toNat + 64 * (a.length - i) < 2 ^ 32 →
      (CmpMore.Bits.trailing_ones_vartime_loop1 a n i c).toNat = c.toNat + trailingOnesVartime (nats (a.drop i)) := by
  intro n
  induction n with
  | zero =>
    intro i c hi hc
    rw [tov_loop_zero, List.drop_of_length_le (by omega)]
    simp [nats, trailingOnesVartime]
  | succ n ih =>
    intro i c hi hc
    have hi' : i < a.length := by omega
    have hz := (GenShifts.limbTrailingOnes_bridge (a.getD i 0#64)).symm
    have hle := GenShifts.limb_to_le (a.getD i 0#64)
    rw [tov_loop_succ a n i c hi', drop_eq_getD_cons a i hi']
    simp only [nats, List.map_cons]
    rw [trailingOnesVartime_cons]
    refine break_step c _ _ _ _ hz (by rw [← hz]; exact hle) (by omega) (fun h64 => ?_)
    rw [ih (i + 1) _ (by omega) (by rw [BitVec.toNat_add, hz, h64]; omega), BitVec.toNat_add, hz, h64]
    simp only [nats]
    omega

/-- **`uint::bits::trailing_ones_vartime`** -/
theorem trailingOnesVartime_bridge (a : List (BitVec 64)) (hL : 64 * a.length < 2 ^ 32) :
    trailingOnesVartime (nats a) = (CmpMore.Bits.trailing_ones_vartime a).toNat := by
  rw [tov_eq, tov_loop_bridge a a.length 0 0#32 (by omega) (by simpa using hL)]
  simp

end CB.GenCmpMore
