/-
  CB.Lemmas.AddSub — value/carry and value/borrow characterisations of whole-width add and sub.
-/
import CB.Lemmas.Chains
namespace CB

theorem divmod_unique {r c s K : Nat} (hK : 0 < K) (hr : r < K) (h : r + K * c = s) :
    r = s % K ∧ c = s / K := by
  subst h
  constructor
  · rw [Nat.add_mul_mod_self_left, Nat.mod_eq_of_lt hr]
  · rw [Nat.add_mul_div_left _ _ hK, Nat.div_eq_of_lt hr, Nat.zero_add]

theorem Bpow_pos (n : Nat) : 0 < B ^ n := Nat.pow_pos B_pos

/-- the value/carry pair of an addition without carry-in -/
theorem add_value_carry {a b : List Nat} (h : a.length = b.length) :
    val (uadc a b 0).1 = (val a + val b) % B ^ a.length ∧
    (uadc a b 0).2 = (val a + val b) / B ^ a.length := by
  have e := uadc_spec a b 0 h
  have hl := uadc_length a b 0 h
  have hlt := val_lt (uadc_WF a b 0)
  rw [hl] at hlt
  exact divmod_unique (Bpow_pos _) hlt (by simpa using e)

/-- borrow-out and value of a subtraction without borrow-in -/
theorem sub_value_borrow {a b : List Nat} (ha : WF a) (hb : WF b) (h : a.length = b.length) :
    ((usbb a b 0).2 = mask (decide (val a < val b))) ∧
    val (usbb a b 0).1 = (if val a < val b then val a + B ^ a.length - val b else val a - val b) := by
  have ⟨e, hlt, hm⟩ := usbb_spec ha hb (show 0 < B by decide) h
  have hl := usbb_length a b 0 h
  have hr := val_lt (usbb_WF a b 0); rw [hl] at hr
  have hva := val_lt ha
  have hvb := val_lt hb; rw [← h] at hvb
  have h0 : (0:Nat) / HALF = 0 := by decide
  rw [h0, Nat.add_zero] at e
  cases a with
  | nil =>
    cases b with
    | nil => simp [usbb, mask]
    | cons _ _ => simp at h
  | cons x xs =>
    rcases hm (by simp) with hz | hz
    · rw [hz] at e ⊢
      have : (0:Nat) / HALF = 0 := by decide
      rw [this, Nat.mul_zero, Nat.add_zero] at e
      have hge : ¬ val (x :: xs) < val b := by omega
      simp only [hge, decide_false, if_false, mask]
      exact ⟨by simp, by omega⟩
    · rw [hz] at e ⊢
      have : WMAX / HALF = 1 := by decide
      rw [this, Nat.mul_one] at e
      have hlt' : val (x :: xs) < val b := by omega
      simp only [hlt', decide_true, if_true, mask]
      exact ⟨by simp, by omega⟩

end CB
