/-
  CB.Lemmas.C08Params — the parameter constructors of `CB.Model.Monty` yield the defined constants
  (`R mod m`, `R² mod m`, `R³ mod m`, `−m⁻¹ mod 2^64`, `min(leading zeros, 63)`), hence agree with each other.
-/
import CB.Lemmas.C08Amm
import CB.Lemmas.C08Inv64
namespace CB.Monty
open CB

section
variable {n m : Nat}

theorem npos_of (hm : m < B ^ n) (hgt : 0 < m) : 0 < n := by
  rcases Nat.eq_zero_or_pos n with h | h
  · subst h; simp at hm; omega
  · exact h

theorem val_uone (hn : 0 < n) : val (uone n) = 1 := by
  obtain ⟨k, rfl⟩ : ∃ k, n = k + 1 := ⟨n - 1, by omega⟩
  simp [uone, val_uzero]

theorem uone_length (n : Nat) : (uone n).length = n := by
  cases n <;> simp [uone, uzero]

/-- `R mod m = ((R − 1) mod m) + 1` for odd `m > 1` (this is where `m = 1` breaks). -/
theorem one_value (hodd : m % 2 = 1) (hgt : 1 < m) : (B ^ n - 1) % m + 1 = B ^ n % m := by
  have hK := Bpow_pos n
  have hpos : 0 < m := by omega
  have hr := Nat.mod_lt (B ^ n - 1) hpos
  have e : B ^ n % m = ((B ^ n - 1) % m + 1) % m := by
    have h1 : B ^ n = (B ^ n - 1) + 1 := by omega
    calc B ^ n % m = ((B ^ n - 1) + 1) % m := by rw [← h1]
      _ = ((B ^ n - 1) % m + 1 % m) % m := Nat.add_mod _ _ _
      _ = ((B ^ n - 1) % m + 1) % m := by rw [Nat.mod_eq_of_lt hgt]
  rcases Nat.lt_or_ge ((B ^ n - 1) % m + 1) m with h | h
  · rw [e, Nat.mod_eq_of_lt h]
  · exfalso
    have heq : (B ^ n - 1) % m + 1 = m := by omega
    rw [heq, Nat.mod_self] at e
    have hd : m ∣ B ^ n := Nat.dvd_of_mod_eq_zero e
    have := Nat.Coprime.eq_one_of_dvd (coprime_Bpow_of_odd hodd n).symm hd
    omega

theorem oneOf_spec (hm : m < B ^ n) (hodd : m % 2 = 1) (hgt : 1 < m) :
    oneOf (toLimbs n m) = toLimbs n (B ^ n % m) := by
  have hn := npos_of hm (by omega)
  have hpos : 0 < m := by omega
  simp only [oneOf, toLimbs_length, val_toLimbs_lt hm]
  have hr := Nat.mod_lt (B ^ n - 1) hpos
  have ⟨v, w, l⟩ := @wrappingAdd_val (toLimbs n ((B ^ n - 1) % m)) (uone n)
    (by rw [toLimbs_length, uone_length])
  rw [toLimbs_length] at v l
  apply eq_toLimbs w l
  rw [v, val_toLimbs_lt (by omega), val_uone hn, one_value hodd hgt]
  exact Nat.mod_eq_of_lt (Nat.lt_trans (Nat.mod_lt _ hpos) hm)

theorem r2Of_spec (hm : m < B ^ n) (hpos : 0 < m) :
    r2Of (toLimbs n m) (toLimbs n (B ^ n % m)) = toLimbs n (B ^ (2 * n) % m) := by
  simp only [r2Of, toLimbs_length, val_toLimbs_lt hm]
  rw [val_toLimbs_lt (Nat.lt_trans (Nat.mod_lt _ hpos) hm), ← Nat.mul_mod, Nat.two_mul, Nat.pow_add]

theorem head_toLimbs (hn : 0 < n) : (toLimbs n m).headD 0 = m % B := by
  obtain ⟨k, rfl⟩ : ∃ k, n = k + 1 := ⟨n - 1, by omega⟩
  rfl

theorem negInvOf_spec (hn : 0 < n) (hodd : m % 2 = 1) :
    negInvOf (toLimbs n m) = (B - inv64 (m % B)) % B ∧ (negInvOf (toLimbs n m) * m + 1) % B = 0 := by
  have hlt : inv64 (m % B) < B := Nat.mod_lt _ B_pos
  have hodd' : (m % B) % 2 = 1 := by
    rw [Nat.mod_mod_of_dvd _ (by decide : 2 ∣ B)]; exact hodd
  have hinv := inv64_spec (m % B) hodd'
  have e : negInvOf (toLimbs n m) = (B - inv64 (m % B)) % B := by
    simp only [negInvOf, head_toLimbs hn, wsub, Nat.zero_add, Nat.mod_eq_of_lt hlt]
  refine ⟨e, ?_⟩
  rw [e]
  generalize inv64 (m % B) = v at *
  rw [Nat.mod_mul_mod] at hinv
  rcases Nat.eq_zero_or_pos v with hv | hv
  · subst hv; simp at hinv
  · rw [Nat.mod_eq_of_lt (by omega : B - v < B)]
    have hq : m * v = 1 + B * (m * v / B) := by
      have := Nat.mod_add_div (m * v) B
      rw [hinv] at this; exact this.symm
    have hsum : (B - v) * m + v * m = B * m := by
      rw [← Nat.add_mul]; congr 1; omega
    rw [Nat.mul_comm v m] at hsum
    have hle : B * (m * v / B) ≤ B * m := by
      have : m * v / B ≤ m := by
        apply Nat.div_le_of_le_mul
        rw [Nat.mul_comm B m]
        exact Nat.mul_le_mul_left _ (Nat.le_of_lt hlt)
      exact Nat.mul_le_mul_left _ this
    have : (B - v) * m + 1 = B * (m - m * v / B) := by
      rw [Nat.mul_sub]
      generalize (B - v) * m = X at *
      generalize B * (m * v / B) = Q at *
      generalize B * m = P at *
      omega
    rw [this, Nat.mul_mod_right]

/-- `R³ mod m` from the canonical product of `R² mod m` with itself (fixed and boxed multiplication). -/
theorem r3_value {r : List Nat} (_hm : m < B ^ n) (hodd : m % 2 = 1)
    (hw : WF r) (hl : r.length = n) (hlt : val r < m)
    (hc : (val r * B ^ n) % m = ((B ^ (2 * n) % m) * (B ^ (2 * n) % m)) % m) :
    r = toLimbs n (B ^ (3 * n) % m) := by
  have hpos : 0 < m := by omega
  apply eq_toLimbs hw hl
  apply cancel_mod (coprime_Bpow_of_odd hodd n) hlt (Nat.mod_lt _ hpos)
  rw [hc, ← Nat.mul_mod, Nat.mod_mul_mod]
  congr 1
  rw [show 3 * n = n + n + n by omega, Nat.two_mul, Nat.pow_add, Nat.pow_add]; ring

theorem r3Of_spec (hm : m < B ^ n) (hodd : m % 2 = 1) (hgt : 1 < m) :
    r3Of (toLimbs n m) (toLimbs n (B ^ (2 * n) % m)) (negInvOf (toLimbs n m)) = toLimbs n (B ^ (3 * n) % m) ∧
    bSquare (toLimbs n (B ^ (2 * n) % m)) (toLimbs n m) (negInvOf (toLimbs n m)) = toLimbs n (B ^ (3 * n) % m) := by
  have hn := npos_of hm (by omega)
  have hpos : 0 < m := by omega
  have hk := (negInvOf_spec (n := n) (m := m) hn hodd).2
  have hr2 : val (toLimbs n (B ^ (2 * n) % m)) = B ^ (2 * n) % m :=
    val_toLimbs_lt (Nat.lt_trans (Nat.mod_lt _ hpos) hm)
  constructor
  · have := @mulMont_spec (toLimbs n (B ^ (2 * n) % m)) (toLimbs n (B ^ (2 * n) % m)) (toLimbs n m)
      (negInvOf (toLimbs n m)) (toLimbs_WF _ _) (toLimbs_WF _ _) (toLimbs_WF _ _)
      (by rw [toLimbs_length, toLimbs_length]) (by rw [toLimbs_length, toLimbs_length])
      (by rw [val_toLimbs_lt hm]; exact hk) (by rw [hr2, val_toLimbs_lt hm]; exact Nat.mod_lt _ hpos)
    rw [val_toLimbs_lt hm, toLimbs_length, hr2] at this
    exact r3_value hm hodd this.2.2.1 this.2.2.2 this.1 this.2.1
  · have := ammMulOK_holds hm hk (toLimbs n (B ^ (2 * n) % m)) (toLimbs n (B ^ (2 * n) % m)) (toLimbs_WF _ _)
      (toLimbs_WF _ _) (toLimbs_length _ _) (toLimbs_length _ _) (Or.inl (by rw [hr2]; exact Nat.mod_lt _ hpos))
    rw [hr2] at this
    exact r3_value hm hodd this.2.2.1 this.2.2.2 this.1 this.2.1

/-- T08.2: every constructor computes exactly the defined constants. -/
theorem params_eq_spec (hm : m < B ^ n) (hodd : m % 2 = 1) (hgt : 1 < m) :
    paramsNew (toLimbs n m) = paramsSpec n m ∧ paramsNewVartime (toLimbs n m) = paramsSpec n m ∧
    paramsConst (toLimbs n m) = paramsSpec n m ∧ paramsBoxed (toLimbs n m) = paramsSpec n m := by
  have hn := npos_of hm (by omega)
  have hpos : 0 < m := by omega
  have h1 := oneOf_spec hm hodd hgt
  have h2 := r2Of_spec (n := n) hm hpos
  have ⟨hk, _⟩ := negInvOf_spec (n := n) (m := m) hn hodd
  have ⟨h3, h3b⟩ := r3Of_spec hm hodd hgt
  have hz1 : ∀ z : Nat, (if z < 63 then z else 63) = Nat.min z 63 := by
    intro z; simp only [Nat.min_def]; split <;> split <;> omega
  have hz2 : ∀ z : Nat, (if z ≥ 64 then 63 else z) = Nat.min z 63 := by
    intro z; simp only [Nat.min_def]; split <;> split <;> omega
  refine ⟨?_, ?_, ?_, ?_⟩
  · simp only [paramsNew, paramsSpec, h1, h2, h3, hz1, toLimbs_length, val_toLimbs_lt hm]; rw [hk]
  · simp only [paramsNewVartime, paramsSpec, h1, h2, h3, hz1, toLimbs_length, val_toLimbs_lt hm]; rw [hk]
  · simp only [paramsConst, paramsSpec, h1, h2, h3, hz2, toLimbs_length, val_toLimbs_lt hm]; rw [hk]
  · simp only [paramsBoxed, paramsSpec, h1, h2, h3b, toLimbs_length, val_toLimbs_lt hm]; rw [hk]

/-- the defined constants are what the history invariant needs. -/
theorem good_spec (hm : m < B ^ n) (hodd : m % 2 = 1) : Good (paramsSpec n m) n m := by
  have hpos : 0 < m := by omega
  have hn := npos_of hm hpos
  have ⟨hk, hk2⟩ := negInvOf_spec (n := n) (m := m) hn hodd
  exact ⟨rfl, hm, hodd, hpos, rfl, rfl, by simp only [paramsSpec]; rw [← hk]; exact hk2⟩

end

end CB.Monty
