/-
  CB.Lemmas.C08Params — the parameter constructors of `CB.Model.Monty` yield the defined constants
  (`R mod m`, `R² mod m`, `R³ mod m`, `−m⁻¹ mod 2^64`, `min(leading zeros, 63)`), hence agree with each other.
-/
import CB.Lemmas.C08Amm
import CB.Lemmas.C08Inv64
namespace CB.Monty
open CB

/-- the constructors' `one` BEFORE fix commit b15470f: `Uint::MAX.rem(modulus).wrapping_add(&Uint::ONE)`, not reduced
    (equal to the modulus for modulus 1). Kept because the boxed constructors still compute it as their first step. -/
def oneOfOld (ms : List Nat) : List Nat :=
  wrappingAdd (toLimbs ms.length ((B ^ ms.length - 1) % val ms)) (uone ms.length)

section
variable {n m : Nat}

theorem npos_of (hm : m < B ^ n) (hgt : 0 < m) : 0 < n := by
  rcases Nat.eq_zero_or_pos n with h | h
  · subst h; simp at hm; omega
  · exact h

theorem val_uone (hn : 0 < n) : val (uone n) = 1 := by
  obtain ⟨k, rfl⟩ : ∃ k, n = k + 1 := ⟨n - 1, by omega⟩
  simp [uone, val_uzero]

theorem uone_length (n : Nat) : (uone n).length = n := by
  cases n <;> simp [uone, uzero]

/-- `R mod m = ((R − 1) mod m) + 1` for odd `m > 1` (this is where `m = 1` breaks). -/
theorem one_value (hodd : m % 2 = 1) (hgt : 1 < m) : (B ^ n - 1) % m + 1 = B ^ n % m := by
  have hK := Bpow_pos n
  have hpos : 0 < m := by omega
  have hr := Nat.mod_lt (B ^ n - 1) hpos
  have e : B ^ n % m = ((B ^ n - 1) % m + 1) % m := by
    have h1 : B ^ n = (B ^ n - 1) + 1 := by omega
    calc B ^ n % m = ((B ^ n - 1) + 1) % m := by rw [← h1]
      _ = ((B ^ n - 1) % m + 1 % m) % m := Nat.add_mod _ _ _
      _ = ((B ^ n - 1) % m + 1) % m := by rw [Nat.mod_eq_of_lt hgt]
  rcases Nat.lt_or_ge ((B ^ n - 1) % m + 1) m with h | h
  · rw [e, Nat.mod_eq_of_lt h]
  · exfalso
    have heq : (B ^ n - 1) % m + 1 = m := by omega
    rw [heq, Nat.mod_self] at e
    have hd : m ∣ B ^ n := Nat.dvd_of_mod_eq_zero e
    have := Nat.Coprime.eq_one_of_dvd (coprime_Bpow_of_odd hodd n).symm hd
    omega

theorem oneOfOld_spec (hm : m < B ^ n) (hodd : m % 2 = 1) (hgt : 1 < m) :
    oneOfOld (toLimbs n m) = toLimbs n (B ^ n % m) := by
  have hn := npos_of hm (by omega)
  have hpos : 0 < m := by omega
  simp only [oneOfOld, toLimbs_length, val_toLimbs_lt hm]
  have hr := Nat.mod_lt (B ^ n - 1) hpos
  have ⟨v, w, l⟩ := @wrappingAdd_val (toLimbs n ((B ^ n - 1) % m)) (uone n)
    (by rw [toLimbs_length, uone_length])
  rw [toLimbs_length] at v l
  apply eq_toLimbs w l
  rw [v, val_toLimbs_lt (by omega), val_uone hn, one_value hodd hgt]
  exact Nat.mod_eq_of_lt (Nat.lt_trans (Nat.mod_lt _ hpos) hm)

theorem r2Of_spec (hm : m < B ^ n) (hpos : 0 < m) :
    r2Of (toLimbs n m) (toLimbs n (B ^ n % m)) = toLimbs n (B ^ (2 * n) % m) := by
  simp only [r2Of, toLimbs_length, val_toLimbs_lt hm]
  rw [val_toLimbs_lt (Nat.lt_trans (Nat.mod_lt _ hpos) hm), ← Nat.mul_mod, Nat.two_mul, Nat.pow_add]

theorem head_toLimbs (hn : 0 < n) : (toLimbs n m).headD 0 = m % B := by
  obtain ⟨k, rfl⟩ : ∃ k, n = k + 1 := ⟨n - 1, by omega⟩
  rfl

theorem negInvOf_spec (hn : 0 < n) (hodd : m % 2 = 1) :
    negInvOf (toLimbs n m) = (B - inv64 (m % B)) % B ∧ (negInvOf (toLimbs n m) * m + 1) % B = 0 := by
  have hlt : inv64 (m % B) < B := Nat.mod_lt _ B_pos
  have hodd' : (m % B) % 2 = 1 := by
    rw [Nat.mod_mod_of_dvd _ (by decide : 2 ∣ B)]; exact hodd
  have hinv := inv64_spec (m % B) hodd'
  have e : negInvOf (toLimbs n m) = (B - inv64 (m % B)) % B := by
    simp only [negInvOf, head_toLimbs hn, wsub, Nat.zero_add, Nat.mod_eq_of_lt hlt]
  refine ⟨e, ?_⟩
  rw [e]
  generalize inv64 (m % B) = v at *
  rw [Nat.mod_mul_mod] at hinv
  rcases Nat.eq_zero_or_pos v with hv | hv
  · subst hv; simp at hinv
  · rw [Nat.mod_eq_of_lt (by omega : B - v < B)]
    have hq : m * v = 1 + B * (m * v / B) := by
      have := Nat.mod_add_div (m * v) B
      rw [hinv] at this; exact this.symm
    have hsum : (B - v) * m + v * m = B * m := by
      rw [← Nat.add_mul]; congr 1; omega
    rw [Nat.mul_comm v m] at hsum
    have hle : B * (m * v / B) ≤ B * m := by
      have : m * v / B ≤ m := by
        apply Nat.div_le_of_le_mul
        rw [Nat.mul_comm B m]
        exact Nat.mul_le_mul_left _ (Nat.le_of_lt hlt)
      exact Nat.mul_le_mul_left _ this
    have : (B - v) * m + 1 = B * (m - m * v / B) := by
      rw [Nat.mul_sub]
      generalize (B - v) * m = X at *
      generalize B * (m * v / B) = Q at *
      generalize B * m = P at *
      omega
    rw [this, Nat.mul_mod_right]

/-- `R³ mod m` from the canonical product of `R² mod m` with itself (fixed and boxed multiplication). -/
theorem r3_value {r : List Nat} (_hm : m < B ^ n) (hodd : m % 2 = 1)
    (hw : WF r) (hl : r.length = n) (hlt : val r < m)
    (hc : (val r * B ^ n) % m = ((B ^ (2 * n) % m) * (B ^ (2 * n) % m)) % m) :
    r = toLimbs n (B ^ (3 * n) % m) := by
  have hpos : 0 < m := by omega
  apply eq_toLimbs hw hl
  apply cancel_mod (coprime_Bpow_of_odd hodd n) hlt (Nat.mod_lt _ hpos)
  rw [hc, ← Nat.mul_mod, Nat.mod_mul_mod]
  congr 1
  rw [show 3 * n = n + n + n by omega, Nat.two_mul, Nat.pow_add, Nat.pow_add]; ring

theorem r3Of_spec (hm : m < B ^ n) (hodd : m % 2 = 1) :
    r3Of (toLimbs n m) (toLimbs n (B ^ (2 * n) % m)) (negInvOf (toLimbs n m)) = toLimbs n (B ^ (3 * n) % m) ∧
    bSquare (toLimbs n (B ^ (2 * n) % m)) (toLimbs n m) (negInvOf (toLimbs n m)) = toLimbs n (B ^ (3 * n) % m) := by
  have hn := npos_of hm (by omega)
  have hpos : 0 < m := by omega
  have hk := (negInvOf_spec (n := n) (m := m) hn hodd).2
  have hr2 : val (toLimbs n (B ^ (2 * n) % m)) = B ^ (2 * n) % m :=
    val_toLimbs_lt (Nat.lt_trans (Nat.mod_lt _ hpos) hm)
  constructor
  · have := @mulMont_spec (toLimbs n (B ^ (2 * n) % m)) (toLimbs n (B ^ (2 * n) % m)) (toLimbs n m)
      (negInvOf (toLimbs n m)) (toLimbs_WF _ _) (toLimbs_WF _ _) (toLimbs_WF _ _)
      (by rw [toLimbs_length, toLimbs_length]) (by rw [toLimbs_length, toLimbs_length])
      (by rw [val_toLimbs_lt hm]; exact hk) (by rw [hr2, val_toLimbs_lt hm]; exact Nat.mod_lt _ hpos)
    rw [val_toLimbs_lt hm, toLimbs_length, hr2] at this
    exact r3_value hm hodd this.2.2.1 this.2.2.2 this.1 this.2.1
  · have := ammMulOK_holds hm hk (toLimbs n (B ^ (2 * n) % m)) (toLimbs n (B ^ (2 * n) % m)) (toLimbs_WF _ _)
      (toLimbs_WF _ _) (toLimbs_length _ _) (toLimbs_length _ _) (Or.inl (by rw [hr2]; exact Nat.mod_lt _ hpos))
    rw [hr2] at this
    exact r3_value hm hodd this.2.2.1 this.2.2.2 this.1 this.2.1

/-- the part of every constructor after `one`: given the canonical `one = R mod m`, all remaining fields are the
    defined constants — for every odd `m ≥ 1`. -/
theorem paramsWith_eq_spec (hm : m < B ^ n) (hodd : m % 2 = 1) :
    paramsNewWith (toLimbs n (B ^ n % m)) (toLimbs n m) = paramsSpec n m ∧
    paramsNewVartimeWith (toLimbs n (B ^ n % m)) (toLimbs n m) = paramsSpec n m ∧
    paramsConstWith (toLimbs n (B ^ n % m)) (toLimbs n m) = paramsSpec n m ∧
    paramsBoxedWith (toLimbs n (B ^ n % m)) (toLimbs n m) = paramsSpec n m := by
  have hpos : 0 < m := by omega
  have hn := npos_of hm hpos
  have h2 := r2Of_spec (n := n) hm hpos
  have ⟨hk, _⟩ := negInvOf_spec (n := n) (m := m) hn hodd
  have ⟨h3, h3b⟩ := r3Of_spec hm hodd
  have hz1 : ∀ z : Nat, (if z < 63 then z else 63) = Nat.min z 63 := by
    intro z; simp only [Nat.min_def]; split <;> split <;> omega
  have hz2 : ∀ z : Nat, (if z ≥ 64 then 63 else z) = Nat.min z 63 := by
    intro z; simp only [Nat.min_def]; split <;> split <;> omega
  refine ⟨?_, ?_, ?_, ?_⟩
  · simp only [paramsNewWith, paramsSpec, h2, h3, hz1, toLimbs_length, val_toLimbs_lt hm]; rw [hk]
  · simp only [paramsNewVartimeWith, paramsSpec, h2, h3, hz1, toLimbs_length, val_toLimbs_lt hm]; rw [hk]
  · simp only [paramsConstWith, paramsSpec, h2, h3, hz2, toLimbs_length, val_toLimbs_lt hm]; rw [hk]
  · simp only [paramsBoxedWith, paramsSpec, h2, h3b, toLimbs_length, val_toLimbs_lt hm]; rw [hk]

/-- the defined constants are what the history invariant needs. -/
theorem good_spec (hm : m < B ^ n) (hodd : m % 2 = 1) : Good (paramsSpec n m) n m := by
  have hpos : 0 < m := by omega
  have hn := npos_of hm hpos
  have ⟨hk, hk2⟩ := negInvOf_spec (n := n) (m := m) hn hodd
  exact ⟨rfl, hm, hodd, hpos, rfl, rfl, by simp only [paramsSpec]; rw [← hk]; exact hk2⟩

/-! ### modulus 1, every width: the constructors' `one` equals the modulus -/

/-- `(MAX mod 1) + 1 = 1` at every width: `one` is the modulus itself, not `R mod 1 = 0`. -/
theorem oneOfOld_modulus_one (hn : 0 < n) : oneOfOld (toLimbs n 1) = toLimbs n 1 := by
  have h1 : (1 : Nat) < B ^ n := Nat.one_lt_pow (by omega) (by decide)
  simp only [oneOfOld, toLimbs_length, val_toLimbs_lt h1, Nat.mod_one]
  have ⟨v, w, l⟩ := @wrappingAdd_val (toLimbs n 0) (uone n) (by rw [toLimbs_length, uone_length])
  rw [toLimbs_length] at v l
  apply eq_toLimbs w l
  rw [v, val_toLimbs_lt (Bpow_pos n), val_uone hn, Nat.zero_add, Nat.mod_eq_of_lt h1]

/-! ### the constructors' `one` since fix commit b15470f: reduced once -/

theorem oneOfBoxed_eq (ms : List Nat) :
    oneOfBoxed ms = (usbb (oneOfOld ms) (bitandLimb ms (if val (oneOfOld ms) < val ms then 0 else WMAX)) 0).1 := rfl

/-- `((R − 1) mod m + 1) mod m = R mod m` for every `m ≥ 1`. -/
theorem one_value_mod (_hpos : 0 < m) : ((B ^ n - 1) % m + 1) % m = B ^ n % m := by
  have hK := Bpow_pos n
  have h1 : B ^ n = (B ^ n - 1) + 1 := by omega
  calc ((B ^ n - 1) % m + 1) % m = ((B ^ n - 1) + 1) % m := by rw [Nat.add_mod, Nat.mod_mod, ← Nat.add_mod]
    _ = B ^ n % m := by rw [← h1]

theorem uone_WF (n : Nat) : WF (uone n) := by
  cases n with
  | zero => exact WF_of_all _ (by decide)
  | succ k =>
    simp only [uone]
    exact WF_cons.mpr ⟨by decide, uzero_WF k⟩

/-- the repaired fixed-width `one` is `R mod m` for EVERY odd modulus, `m = 1` included. -/
theorem oneOf_spec (hm : m < B ^ n) (hodd : m % 2 = 1) :
    oneOf (toLimbs n m) = toLimbs n (B ^ n % m) := by
  have hpos : 0 < m := by omega
  have hn := npos_of hm hpos
  simp only [oneOf, toLimbs_length, val_toLimbs_lt hm]
  have hr := Nat.mod_lt (B ^ n - 1) hpos
  have hrv : val (toLimbs n ((B ^ n - 1) % m)) = (B ^ n - 1) % m := val_toLimbs_lt (by omega)
  have ⟨⟨v, w, l⟩, _⟩ := @addMod_spec_sum (toLimbs n ((B ^ n - 1) % m)) (uone n) (toLimbs n m)
    (toLimbs_WF _ _) (uone_WF n) (toLimbs_WF _ _) (by rw [toLimbs_length, uone_length])
    (by rw [toLimbs_length, toLimbs_length])
    (by rw [hrv, val_toLimbs_lt hm]; exact hr) (by rw [hrv, val_uone hn, val_toLimbs_lt hm]; omega)
  rw [toLimbs_length] at l
  apply eq_toLimbs w l
  rw [v, hrv, val_uone hn, val_toLimbs_lt hm, one_value_mod hpos]

/-- value of the unrepaired `one` for every odd `m ≥ 1`: `(R − 1) mod m + 1 ∈ 1..=m`. -/
theorem oneOfOld_val (hm : m < B ^ n) (hpos : 0 < m) :
    val (oneOfOld (toLimbs n m)) = (B ^ n - 1) % m + 1 ∧ WF (oneOfOld (toLimbs n m)) ∧
    (oneOfOld (toLimbs n m)).length = n := by
  have hn := npos_of hm hpos
  simp only [oneOfOld, toLimbs_length, val_toLimbs_lt hm]
  have hr := Nat.mod_lt (B ^ n - 1) hpos
  have ⟨v, w, l⟩ := @wrappingAdd_val (toLimbs n ((B ^ n - 1) % m)) (uone n)
    (by rw [toLimbs_length, uone_length])
  rw [toLimbs_length] at v l
  refine ⟨?_, w, l⟩
  rw [v, val_toLimbs_lt (by omega), val_uone hn]
  exact Nat.mod_eq_of_lt (by omega)

/-- the repaired boxed `one` is `R mod m` for EVERY odd modulus, `m = 1` included. -/
theorem oneOfBoxed_spec (hm : m < B ^ n) (hodd : m % 2 = 1) :
    oneOfBoxed (toLimbs n m) = toLimbs n (B ^ n % m) := by
  have hpos : 0 < m := by omega
  have hn := npos_of hm hpos
  have ⟨ov, ow, ol⟩ := oneOfOld_val (n := n) hm hpos
  have hr := Nat.mod_lt (B ^ n - 1) hpos
  have hmod := one_value_mod (n := n) hpos
  rw [oneOfBoxed_eq]
  simp only [val_toLimbs_lt hm]
  have hK := Bpow_pos n
  by_cases hlt : val (oneOfOld (toLimbs n m)) < m
  · rw [if_pos hlt, bitandLimb_zero, toLimbs_length]
    have ⟨s1, _, _⟩ := @usbb_spec (oneOfOld (toLimbs n m)) (uzero n) 0 ow (uzero_WF n) B_pos
      (by rw [ol]; simp [uzero])
    have sw := usbb_WF (oneOfOld (toLimbs n m)) (uzero n) 0
    have sl := usbb_length (oneOfOld (toLimbs n m)) (uzero n) 0 (by rw [ol]; simp [uzero])
    have solt := val_lt sw
    rw [sl, ol] at solt
    apply eq_toLimbs sw (sl.trans ol)
    rw [ol, val_uzero] at s1
    simp only [Nat.zero_div, Nat.add_zero] at s1
    rw [ov] at hlt s1
    rw [← hmod, Nat.mod_eq_of_lt hlt]
    generalize B ^ n = K at *
    rcases Nat.eq_zero_or_pos ((usbb (oneOfOld (toLimbs n m)) (uzero n) 0).2 / HALF) with h | h
    · rw [h] at s1; omega
    · have : K ≤ K * ((usbb (oneOfOld (toLimbs n m)) (uzero n) 0).2 / HALF) := Nat.le_mul_of_pos_right _ h
      omega
  · rw [if_neg hlt, bitandLimb_max (toLimbs_WF _ _)]
    have ⟨s1, _, _⟩ := @usbb_spec (oneOfOld (toLimbs n m)) (toLimbs n m) 0 ow (toLimbs_WF _ _) B_pos
      (by rw [ol, toLimbs_length])
    have sw := usbb_WF (oneOfOld (toLimbs n m)) (toLimbs n m) 0
    have sl := usbb_length (oneOfOld (toLimbs n m)) (toLimbs n m) 0 (by rw [ol, toLimbs_length])
    apply eq_toLimbs sw (sl.trans ol)
    rw [ol, val_toLimbs_lt hm] at s1
    simp only [Nat.zero_div, Nat.add_zero] at s1
    rw [ov] at hlt s1
    have heq : (B ^ n - 1) % m + 1 = m := by omega
    rw [← hmod, heq, Nat.mod_self]
    rw [heq] at s1
    have solt := val_lt sw
    rw [sl, ol] at solt
    generalize B ^ n = K at *
    rcases Nat.eq_zero_or_pos ((usbb (oneOfOld (toLimbs n m)) (toLimbs n m) 0).2 / HALF) with h | h
    · rw [h] at s1; omega
    · have : K ≤ K * ((usbb (oneOfOld (toLimbs n m)) (toLimbs n m) 0).2 / HALF) := Nat.le_mul_of_pos_right _ h
      omega

/-- T08.2: every constructor computes exactly the defined constants, for EVERY odd modulus (1 included). -/
theorem params_eq_spec (hm : m < B ^ n) (hodd : m % 2 = 1) :
    paramsNew (toLimbs n m) = paramsSpec n m ∧ paramsNewVartime (toLimbs n m) = paramsSpec n m ∧
    paramsConst (toLimbs n m) = paramsSpec n m ∧ paramsBoxed (toLimbs n m) = paramsSpec n m := by
  simp only [paramsNew, paramsNewVartime, paramsConst, paramsBoxed, oneOf_spec hm hodd, oneOfBoxed_spec hm hodd]
  exact paramsWith_eq_spec hm hodd

/-- the constructors as they were before fix commit b15470f (with the unreduced `one`): the defined constants only
    for `m > 1`. -/
theorem old_params_eq_spec (hm : m < B ^ n) (hodd : m % 2 = 1) (hgt : 1 < m) :
    paramsNewWith (oneOfOld (toLimbs n m)) (toLimbs n m) = paramsSpec n m ∧
    paramsNewVartimeWith (oneOfOld (toLimbs n m)) (toLimbs n m) = paramsSpec n m ∧
    paramsConstWith (oneOfOld (toLimbs n m)) (toLimbs n m) = paramsSpec n m ∧
    paramsBoxedWith (oneOfOld (toLimbs n m)) (toLimbs n m) = paramsSpec n m := by
  rw [oneOfOld_spec hm hodd hgt]
  exact paramsWith_eq_spec hm hodd

end

end CB.Monty
