/-
  CB.Lemmas.C18Rlp — the RLP model: zero stripping, the glue closure, decoder shape.
-/
import CB.Lemmas.C18Der
namespace CB.Rlp
open CB CB.Der

/-! ### `rlpStrip` (strip ALL leading zero octets) -/

theorem rlpStrip_cons (b : Nat) (rest : List Nat) :
    rlpStrip (b :: rest) = if b = 0 then rlpStrip rest else b :: rest := rfl

theorem rlpStrip_spec (bs : List Nat) :
    (rlpStrip bs).head? ≠ some 0 ∧ ∃ k, bs = List.replicate k 0 ++ rlpStrip bs := by
  induction bs with
  | nil => exact ⟨by simp [rlpStrip], 0, rfl⟩
  | cons b t ih =>
    rw [rlpStrip_cons]
    by_cases hb : b = 0
    · rw [if_pos hb]
      obtain ⟨h1, k, h2⟩ := ih
      refine ⟨h1, k + 1, ?_⟩
      rw [List.replicate_succ, List.cons_append, ← h2, hb]
    · rw [if_neg hb]
      exact ⟨by simp [hb], 0, rfl⟩

theorem rlpStrip_length_le (bs : List Nat) : (rlpStrip bs).length ≤ bs.length := by
  obtain ⟨_, k, h⟩ := rlpStrip_spec bs
  have := congrArg List.length h
  simp at this
  omega

theorem rlpStrip_Bytes {bs : List Nat} (h : Bytes bs) : Bytes (rlpStrip bs) := by
  obtain ⟨_, k, e⟩ := rlpStrip_spec bs
  rw [e] at h
  exact (Bytes_append.mp h).2

theorem beVal_rlpStrip (bs : List Nat) : beVal (rlpStrip bs) = beVal bs := by
  obtain ⟨_, k, e⟩ := rlpStrip_spec bs
  conv => rhs; rw [e]
  rw [beVal_zeros_append]

theorem rlpStrip_of_head {p : List Nat} (hp : p.head? ≠ some 0) : rlpStrip p = p := by
  cases p with
  | nil => rfl
  | cons b t =>
    rw [rlpStrip_cons, if_neg]
    intro h; subst h; simp at hp

theorem rlpStrip_zeros_append {p : List Nat} (hp : p.head? ≠ some 0) (k : Nat) :
    rlpStrip (List.replicate k 0 ++ p) = p := by
  induction k with
  | zero => simpa using rlpStrip_of_head hp
  | succ k ih => rw [List.replicate_succ, List.cons_append, rlpStrip_cons, if_pos rfl, ih]

/-! ### the glue closure (rlp.rs:28-42) -/

theorem rlpGlue_eq (n : Nat) (p : List Nat) :
    rlpGlue n p =
      if p.head? = some 0 then .err
      else if 8 * n < p.length then .err
      else .ok (toLimbs n (beVal p)) := by
  unfold rlpGlue copyIntoTail
  simp only [List.length_replicate]
  by_cases h0 : p.head? = some 0
  · rw [if_pos h0, if_pos h0]
  · rw [if_neg h0, if_neg h0]
    by_cases h1 : 8 * n < p.length
    · rw [if_pos h1, if_pos h1]
    · rw [if_neg h1, if_neg h1, if_pos ⟨by omega, by omega⟩]
      simp only [List.take_replicate, beVal_zeros_append]

theorem rlpGlue_ok_iff (n : Nat) (p a : List Nat) :
    rlpGlue n p = .ok a ↔ p.head? ≠ some 0 ∧ p.length ≤ 8 * n ∧ a = toLimbs n (beVal p) := by
  rw [rlpGlue_eq]
  by_cases h0 : p.head? = some 0
  · rw [if_pos h0]
    exact ⟨fun e => (by cases e), fun e => absurd h0 e.1⟩
  · rw [if_neg h0]
    by_cases h1 : 8 * n < p.length
    · rw [if_pos h1]
      exact ⟨fun e => (by cases e), fun e => by omega⟩
    · rw [if_neg h1]
      exact ⟨fun e => ⟨h0, by omega, (Dec.ok.inj e).symm⟩, fun e => by rw [e.2.2]⟩

theorem rlpGlue_no_panic (n : Nat) (p : List Nat) : rlpGlue n p ≠ .panic := by
  rw [rlpGlue_eq]
  split
  · intro e; cases e
  · split <;> (intro e; cases e)

/-! ### the decoder, on `first :: rest` -/

theorem rlpDecode_cons (n l : Nat) (rest : List Nat) :
    rlpDecode n (l :: rest) =
      if l ≤ 127 then rlpGlue n [l]
      else if l ≤ 183 then
        (if rest.length < l - 128 then .err
         else if l = 129 ∧ rlpFirstLt128 (rest.take (l - 128)) = true then .err
         else rlpGlue n (rest.take (l - 128)))
      else if l ≤ 191 then
        (if rest.length < l - 183 then .err
         else
          match rlpDecodeUsize (rest.take (l - 183)) with
          | none => .err
          | some len =>
            if 18446744073709551616 ≤ 1 + (l - 183) + len then .err
            else if rest.length < (l - 183) + len then .err
            else rlpGlue n ((rest.drop (l - 183)).take len))
      else .err := by
  unfold rlpDecode
  simp only []
  by_cases h1 : l ≤ 127
  · rw [if_pos h1, if_pos h1]
  · rw [if_neg h1, if_neg h1]
    by_cases h2 : l ≤ 183
    · rw [if_pos h2, if_pos h2]
      have e1 : 1 + l - 128 = (l - 128) + 1 := by omega
      rw [e1, List.take_succ_cons, List.drop_succ_cons, List.drop_zero, List.length_cons]
      by_cases h3 : rest.length < l - 128
      · rw [if_pos h3, if_pos (by omega)]
      · rw [if_neg h3, if_neg (by omega)]
    · rw [if_neg h2, if_neg h2]
      by_cases h3 : l ≤ 191
      · rw [if_pos h3, if_pos h3]
        have e1 : 1 + (l - 183) = (l - 183) + 1 := by omega
        rw [e1, List.take_succ_cons, List.drop_succ_cons, List.drop_zero, List.length_cons]
        by_cases h4 : rest.length < l - 183
        · rw [if_pos h4, if_pos (by omega)]
        · rw [if_neg h4, if_neg (by omega)]
          cases rlpDecodeUsize (rest.take (l - 183)) with
          | none => rfl
          | some len =>
            simp only []
            have e2 : l - 183 + 1 + len = (l - 183 + len) + 1 := by omega
            by_cases h5 : 18446744073709551616 ≤ l - 183 + 1 + len
            · rw [if_pos h5, if_pos h5]
            · rw [if_neg h5, if_neg h5, e2, List.take_succ_cons, List.drop_succ_cons, List.drop_take]
              have e4 : l - 183 + len - (l - 183) = len := by omega
              rw [e4]
              by_cases h6 : rest.length < l - 183 + len
              · rw [if_pos h6, if_pos (by omega)]
              · rw [if_neg h6, if_neg (by omega)]
      · rw [if_neg h3, if_neg h3]

/-! ### the encoder's header forms -/

theorem rlpEncodeValue_nil : rlpEncodeValue [] = [128] := rfl

theorem rlpEncodeValue_cons (first : Nat) (tl : List Nat) :
    rlpEncodeValue (first :: tl) =
      if (first :: tl).length ≤ 55 then
        (if (first :: tl).length = 1 ∧ first < 128 then [first]
         else (128 + (first :: tl).length) :: first :: tl)
      else (183 + (rlpSizeBytes (first :: tl).length).length) :: rlpSizeBytes (first :: tl).length ++ (first :: tl) := rfl

/-- the big-endian size octets `insert_size` writes, for a size below `2^32` -/
theorem rlpSizeBytes_spec {len : Nat} (h0 : 0 < len) (h : len < 4294967296) :
    (rlpSizeBytes len).head? ≠ some 0 ∧ 1 ≤ (rlpSizeBytes len).length ∧ (rlpSizeBytes len).length ≤ 4 ∧
    beVal (rlpSizeBytes len) = len ∧ Bytes (rlpSizeBytes len) := by
  unfold rlpSizeBytes
  have hv : beVal (rlpStrip (beBytes 4 len)) = len := by
    rw [beVal_rlpStrip, beVal_beBytes]
    exact Nat.mod_eq_of_lt (by simpa using h)
  have hl := rlpStrip_length_le (beBytes 4 len)
  rw [beBytes_length] at hl
  refine ⟨(rlpStrip_spec _).1, ?_, hl, hv, rlpStrip_Bytes (beBytes_Bytes _ _)⟩
  cases hs : rlpStrip (beBytes 4 len) with
  | nil => rw [hs] at hv; simp at hv; omega
  | cons x t => simp

/-- a size-octet string without leading zero is the one `insert_size` writes -/
theorem rlpSizeBytes_unique {lb : List Nat} (hB : Bytes lb) (hh : lb.head? ≠ some 0)
    (hv : beVal lb < 4294967296) : rlpSizeBytes (beVal lb) = lb := by
  have hlen : lb.length ≤ 4 := by
    cases lb with
    | nil => simp
    | cons x t =>
      have hx : x ≠ 0 := by intro h; subst h; simp at hh
      have := beVal_ge_of_head (b := x) (bs := t) hx
      apply Nat.le_of_not_lt
      intro h4
      simp only [List.length_cons] at h4
      have : 256 ^ 4 ≤ 256 ^ t.length := Nat.pow_le_pow_right (by decide) (by omega)
      simp at this
      omega
  unfold rlpSizeBytes
  rw [beBytes_eq_zeros_append hB hlen, rlpStrip_zeros_append hh]

theorem take_drop_mid (h p t : List Nat) : ((h ++ (p ++ t)).drop h.length).take p.length = p := by
  rw [List.drop_left' rfl, List.take_left' rfl]

/-- F1: on `canonical item ‖ tail` the decoder hands exactly the payload to the glue -/
theorem rlpDecode_canon (n : Nat) {p : List Nat} (tail : List Nat) (hl : p.length < 4294967296) :
    rlpDecode n (rlpEncodeValue p ++ tail) = rlpGlue n p := by
  cases p with
  | nil =>
    rw [rlpEncodeValue_nil, List.cons_append, rlpDecode_cons]
    simp [rlpFirstLt128]
  | cons first tl =>
    rw [rlpEncodeValue_cons]
    by_cases h55 : (first :: tl).length ≤ 55
    · rw [if_pos h55]
      by_cases h1 : (first :: tl).length = 1 ∧ first < 128
      · rw [if_pos h1]
        have htl : tl = [] := by
          have := h1.1; simp at this; exact this
        subst htl
        rw [List.cons_append, rlpDecode_cons, if_pos (by omega)]
      · rw [if_neg h1, List.cons_append, rlpDecode_cons, if_neg (by omega), if_pos (by omega)]
        have e : 128 + (first :: tl).length - 128 = (first :: tl).length := by omega
        rw [e, if_neg (by simp), List.take_left' rfl]
        rw [if_neg]
        intro hc
        apply h1
        refine ⟨by omega, ?_⟩
        have := hc.2
        simpa [rlpFirstLt128] using this
    · rw [if_neg h55]
      obtain ⟨s1, s2, s3, s4, _⟩ := rlpSizeBytes_spec (len := (first :: tl).length) (by simp) hl
      generalize rlpSizeBytes (first :: tl).length = sz at *
      generalize first :: tl = p at *
      simp only [List.cons_append, List.append_assoc]
      rw [rlpDecode_cons, if_neg (by omega), if_neg (by omega), if_pos (by omega)]
      have e : 183 + sz.length - 183 = sz.length := by omega
      rw [e, if_neg (by simp), List.take_left' rfl]
      have hu : rlpDecodeUsize sz = some p.length := by
        unfold rlpDecodeUsize
        rw [if_pos (by omega), if_neg s1, s4]
      rw [hu]
      simp only []
      rw [if_neg (by omega), if_neg (by simp), take_drop_mid]

/-- F2: the long-form header `b8 len` is accepted for ANY payload length `1..=255`, also `≤ 55` -/
theorem rlpDecode_long1 (n : Nat) {p : List Nat} (tail : List Nat) (h1 : 1 ≤ p.length) (h2 : p.length ≤ 255) :
    rlpDecode n (184 :: p.length :: (p ++ tail)) = rlpGlue n p := by
  rw [rlpDecode_cons, if_neg (by omega), if_neg (by omega), if_pos (by omega)]
  have e : 184 - 183 = 1 := rfl
  rw [e, if_neg (by simp)]
  have hu : rlpDecodeUsize (List.take 1 (p.length :: (p ++ tail))) = some p.length := by
    show rlpDecodeUsize [p.length] = some p.length
    unfold rlpDecodeUsize
    rw [if_pos (by simp), if_neg]
    · simp
    · intro hc
      have h0 : p.length = 0 := by
        have := Option.some.inj (by simpa [List.head?] using hc : some p.length = some 0)
        exact this
      omega
  rw [hu]
  simp only []
  rw [if_neg (by omega), if_neg (by simp; omega)]
  simp

/-- converse: whatever is accepted is one of the two forms, and the glue accepted the payload -/
theorem rlpDecode_ok_form {n : Nat} (hn : 8 * n < 4294967296) {bs : List Nat} (hb : Bytes bs) {a : List Nat}
    (h : rlpDecode n bs = .ok a) :
    ∃ p tail, Bytes p ∧ rlpGlue n p = .ok a ∧
      (bs = rlpEncodeValue p ++ tail ∨ (1 ≤ p.length ∧ p.length ≤ 55 ∧ bs = 184 :: p.length :: (p ++ tail))) := by
  cases bs with
  | nil => simp [rlpDecode] at h
  | cons l rest =>
    have ⟨hl256, hrest⟩ := Bytes_cons.mp hb
    rw [rlpDecode_cons] at h
    by_cases h1 : l ≤ 127
    · rw [if_pos h1] at h
      refine ⟨[l], rest, Bytes_cons.mpr ⟨hl256, Bytes_nil⟩, h, Or.inl ?_⟩
      rw [rlpEncodeValue_cons, if_pos (by simp), if_pos ⟨by simp, by omega⟩]; rfl
    · rw [if_neg h1] at h
      by_cases h2 : l ≤ 183
      · rw [if_pos h2] at h
        by_cases h3 : rest.length < l - 128
        · rw [if_pos h3] at h; cases h
        · rw [if_neg h3] at h
          by_cases h4 : l = 129 ∧ rlpFirstLt128 (rest.take (l - 128)) = true
          · rw [if_pos h4] at h; cases h
          · rw [if_neg h4] at h
            have hplen : (rest.take (l - 128)).length = l - 128 := by simp; omega
            refine ⟨rest.take (l - 128), rest.drop (l - 128), Bytes_take _ hrest, h, Or.inl ?_⟩
            have hsplit : l :: rest = l :: (rest.take (l - 128) ++ rest.drop (l - 128)) := by
              rw [List.take_append_drop]
            rw [hsplit]
            generalize rest.take (l - 128) = p at *
            cases p with
            | nil =>
              have : l = 128 := by simp at hplen; omega
              rw [rlpEncodeValue_nil, this]; rfl
            | cons first tl =>
              have e128 : 128 + (first :: tl).length = l := by omega
              rw [rlpEncodeValue_cons, if_pos (by omega), if_neg, e128]
              · rfl
              · intro hc
                apply h4
                refine ⟨by omega, ?_⟩
                simp [rlpFirstLt128, hc.2]
      · rw [if_neg h2] at h
        by_cases h3 : l ≤ 191
        · rw [if_pos h3] at h
          by_cases h4 : rest.length < l - 183
          · rw [if_pos h4] at h; cases h
          · rw [if_neg h4] at h
            have hlbB : Bytes (rest.take (l - 183)) := Bytes_take _ hrest
            have hlblen : (rest.take (l - 183)).length = l - 183 := by simp; omega
            have hsplit1 : rest = rest.take (l - 183) ++ rest.drop (l - 183) := (List.take_append_drop _ _).symm
            generalize rest.take (l - 183) = lb at *
            cases hu : rlpDecodeUsize lb with
            | none => rw [hu] at h; cases h
            | some len =>
              rw [hu] at h
              simp only [] at h
              unfold rlpDecodeUsize at hu
              by_cases hu1 : lb.length ≤ 8
              · rw [if_pos hu1] at hu
                by_cases hu2 : lb.head? = some 0
                · rw [if_pos hu2] at hu; cases hu
                · rw [if_neg hu2] at hu
                  have hlen : len = beVal lb := (Option.some.inj hu).symm
                  by_cases h5 : 18446744073709551616 ≤ 1 + (l - 183) + len
                  · rw [if_pos h5] at h; cases h
                  · rw [if_neg h5] at h
                    by_cases h6 : rest.length < l - 183 + len
                    · rw [if_pos h6] at h; cases h
                    · rw [if_neg h6] at h
                      have hpB : Bytes ((rest.drop (l - 183)).take len) := Bytes_take _ (Bytes_drop _ hrest)
                      have hplen : ((rest.drop (l - 183)).take len).length = len := by simp; omega
                      have hsplit2 : rest.drop (l - 183) =
                          (rest.drop (l - 183)).take len ++ (rest.drop (l - 183)).drop len :=
                        (List.take_append_drop _ _).symm
                      have hfit := ((rlpGlue_ok_iff _ _ _).mp h).2.1
                      rw [hplen] at hfit
                      refine ⟨(rest.drop (l - 183)).take len, (rest.drop (l - 183)).drop len, hpB, h, ?_⟩
                      generalize (rest.drop (l - 183)).take len = p at *
                      generalize (rest.drop (l - 183)).drop len = tail at *
                      generalize rest.drop (l - 183) = r2 at *
                      rw [hsplit1, hsplit2]
                      by_cases h55 : len ≤ 55
                      · -- the non-canonical long form: exactly one size octet
                        right
                        cases lb with
                        | nil => simp at hlblen; omega
                        | cons x t =>
                          have hx : x ≠ 0 := by intro hx0; subst hx0; simp at hu2
                          cases t with
                          | nil =>
                            have hxl : x = len := by rw [hlen]; simp
                            have hl184 : l = 184 := by simp at hlblen; omega
                            refine ⟨by omega, by omega, ?_⟩
                            rw [hl184, hplen, hxl]; rfl
                          | cons y t' =>
                            exfalso
                            have := beVal_ge_of_head (b := x) (bs := y :: t') hx
                            have h256 : 256 ≤ 256 ^ (y :: t').length :=
                              calc 256 = 256 ^ 1 := (Nat.pow_one 256).symm
                                _ ≤ 256 ^ (y :: t').length := Nat.pow_le_pow_right (by decide) (by simp)
                            omega
                      · left
                        have hsz : rlpSizeBytes p.length = lb := by
                          rw [hplen, hlen]
                          exact rlpSizeBytes_unique hlbB hu2 (by omega)
                        cases p with
                        | nil => simp at hplen; omega
                        | cons first tl =>
                          rw [rlpEncodeValue_cons, if_neg (by omega), hsz, hlblen]
                          have e183 : 183 + (l - 183) = l := by omega
                          rw [e183]
                          simp
              · rw [if_neg hu1] at hu; cases hu
        · rw [if_neg h3] at h; cases h

/-! ### payload of a value -/

/-- the payload octets the encoder writes: big-endian bytes without ANY leading zero octet
    (zero is the empty string) -/
def rlpPayload (n : Nat) (a : List Nat) : List Nat := rlpStrip (beBytes (8 * n) (val a))

theorem rlpEncode_eq (n : Nat) (a : List Nat) : rlpEncode n a = rlpEncodeValue (rlpPayload n a) := rfl

theorem rlpPayload_spec {n : Nat} {a : List Nat} (ha : WF a) (hl : a.length = n) :
    (rlpPayload n a).head? ≠ some 0 ∧ (rlpPayload n a).length ≤ 8 * n ∧ beVal (rlpPayload n a) = val a ∧
    Bytes (rlpPayload n a) ∧ rlpGlue n (rlpPayload n a) = .ok a := by
  have h1 := (rlpStrip_spec (beBytes (8 * n) (val a))).1
  have h2 := rlpStrip_length_le (beBytes (8 * n) (val a))
  rw [beBytes_length] at h2
  have h3 : beVal (rlpPayload n a) = val a := by
    unfold rlpPayload
    rw [beVal_rlpStrip, beVal_beBytes, Nat.mod_eq_of_lt (val_lt_256 ha hl)]
  refine ⟨h1, h2, h3, rlpStrip_Bytes (beBytes_Bytes _ _), ?_⟩
  have hg : rlpGlue n (rlpPayload n a) = .ok (toLimbs n (beVal (rlpPayload n a))) :=
    (rlpGlue_ok_iff _ _ _).mpr ⟨h1, h2, rfl⟩
  rw [hg, h3, ← hl, toLimbs_val ha]

/-- a payload the glue accepts is the payload of its value -/
theorem rlpPayload_of_glue {n : Nat} {p a : List Nat} (hB : Bytes p) (h : rlpGlue n p = .ok a) :
    WF a ∧ a.length = n ∧ rlpPayload n a = p := by
  obtain ⟨h1, h2, h3⟩ := (rlpGlue_ok_iff _ _ _).mp h
  subst h3
  refine ⟨toLimbs_WF _ _, toLimbs_length _ _, ?_⟩
  unfold rlpPayload
  have hv : val (toLimbs n (beVal p)) = beVal p := by
    rw [val_toLimbs, Bpow_eq_256]
    exact Nat.mod_eq_of_lt (Nat.lt_of_lt_of_le (beVal_lt hB) (Nat.pow_le_pow_right (by decide) h2))
  rw [hv, beBytes_eq_zeros_append hB h2, rlpStrip_zeros_append h1]

theorem rlpDecode_no_panic (n : Nat) (bs : List Nat) : rlpDecode n bs ≠ .panic := by
  cases bs with
  | nil => intro e; cases e
  | cons l rest =>
    rw [rlpDecode_cons]
    repeat' split
    all_goals first | exact rlpGlue_no_panic _ _ | (intro e; cases e)

end CB.Rlp
