/-
  CB.Lemmas.GenBitsChainsCmp — one round of the translated loops of `Uint::is_nonzero` and `Uint::eq`, and the functions
  `Uint::{is_nonzero, eq, lt, gt, lte}` around them (CB/Gen/Chains.lean); see CB/Lemmas/GenBitsChains.lean for the method.
  Only C06's modules import this file.

  `bv_decide` file: its name matches `*Bits*`.
-/
import CB.Lemmas.GenBitsChains
namespace CB.GenBits
open CB.Gen CB.Gen.Chains

/-! ## `Uint::is_nonzero`, `Uint::eq`, `Uint::lt / gt / lte` -/

theorem is_nonzero_loop_zero (L : Nat) (a : List (BitVec 64)) (i : Nat) (acc : BitVec 64) :
    Uint.is_nonzero_loop1 L a 0 i acc = acc := by
  rw [Uint.is_nonzero_loop1]

theorem is_nonzero_loop_succ (L : Nat) (a : List (BitVec 64)) (n i : Nat) (acc : BitVec 64) (h : i < L) :
    Uint.is_nonzero_loop1 L a (n + 1) i acc = Uint.is_nonzero_loop1 L a n (i + 1) (acc ||| a.getD i 0#64) := by
  rw [Uint.is_nonzero_loop1, if_pos h] <;> round_eq

theorem is_nonzero_eq_loop (L : Nat) (a : List (BitVec 64)) :
    Uint.is_nonzero L a = Choice.from_word_nonzero (Uint.is_nonzero_loop1 L a L 0 0#64) := by
  round_eq

theorem eq_loop_zero (L : Nat) (a b : List (BitVec 64)) (i : Nat) (acc : BitVec 64) :
    Uint.eq_loop1 L a b 0 i acc = acc := by
  rw [Uint.eq_loop1]

theorem eq_loop_succ (L : Nat) (a b : List (BitVec 64)) (n i : Nat) (acc : BitVec 64) (h : i < L) :
    Uint.eq_loop1 L a b (n + 1) i acc =
      Uint.eq_loop1 L a b n (i + 1) (acc ||| (a.getD i 0#64 ^^^ b.getD i 0#64)) := by
  rw [Uint.eq_loop1, if_pos h] <;> round_eq

theorem eq_eq_loop (L : Nat) (a b : List (BitVec 64)) :
    Uint.eq L a b = Choice.not (Choice.from_word_nonzero (Uint.eq_loop1 L a b L 0 0#64)) := by
  round_eq

theorem lt_eq (L : Nat) (a b : List (BitVec 64)) :
    Uint.lt L a b = Choice.from_word_mask (Uint.sbb L a b 0#64).2 := by
  round_eq

theorem gt_eq (L : Nat) (a b : List (BitVec 64)) :
    Uint.gt L a b = Choice.from_word_mask (Uint.sbb L b a 0#64).2 := by
  round_eq

theorem lte_eq (L : Nat) (a b : List (BitVec 64)) :
    Uint.lte L a b = Choice.not (Uint.gt L a b) := by
  round_eq

end CB.GenBits
