/-
  CB.Lemmas.C02Bits — 128-bit branch-free predicates used by `div3by2`
  (`ConstChoice::from_wide_word_le`, `select_wide_word`), modelled as written on `Nat`, proved equal
  to their meaning by transport to `BitVec 128` and `bv_decide`.
-/
import CB.Lemmas.WordBits
import CB.Model.DivLimb
import Std.Tactic.BVDecide
namespace CB.Div
open CB

theorem BB_eq_pow : B * B = 2 ^ 128 := by decide

abbrev bw (x : Nat) : BitVec 128 := BitVec.ofNat 128 x

theorem bw_toNat {x : Nat} (h : x < B * B) : (bw x).toNat = x := by
  simp only [bw, BitVec.toNat_ofNat]; exact Nat.mod_eq_of_lt (by rw [← BB_eq_pow]; exact h)

theorem toNat_lt_BB (v : BitVec 128) : v.toNat < B * B := by
  rw [BB_eq_pow]; exact v.isLt

theorem wwnot_bv (x : BitVec 128) : wwnot x.toNat = (~~~x).toNat := by
  have := toNat_lt_BB x
  simp only [wwnot, BitVec.toNat_not]
  rw [Nat.mod_eq_of_lt this, BB_eq_pow]

theorem wwsub_bv (x y : BitVec 128) : wwsub x.toNat y.toNat = (x - y).toNat := by
  have hx := toNat_lt_BB x; have hy := toNat_lt_BB y
  simp only [wwsub, BitVec.toNat_sub, B_def] at *
  omega

theorem wle_bv (x y : BitVec 128) :
    (((~~~x) ||| y) &&& ((x ^^^ y) ||| ~~~(y - x))) >>> 127 = if x ≤ y then 1#128 else 0#128 := by
  bv_decide

theorem wselect_bv (a b : BitVec 128) (c : BitVec 64) (hc : c = 0#64 ∨ c = ~~~0#64) :
    a ^^^ (((c.zeroExtend 128 <<< 64) ||| c.zeroExtend 128) &&& (a ^^^ b)) = if c = 0#64 then a else b := by
  rcases hc with h | h <;> subst h <;> bv_decide

theorem fromWideWordLe_spec {x y : Nat} (hx : x < B * B) (hy : y < B * B) :
    fromWideWordLe x y = mask (decide (x ≤ y)) := by
  have e : (((wwnot x) ||| y) &&& ((x ^^^ y) ||| wwnot (wwsub y x))) / (HALF * B) =
      ((((~~~bw x) ||| bw y) &&& ((bw x ^^^ bw y) ||| ~~~(bw y - bw x))) >>> 127).toNat := by
    have h127 : HALF * B = 2 ^ 127 := by decide
    simp only [BitVec.toNat_ushiftRight, Nat.shiftRight_eq_div_pow, BitVec.toNat_or, BitVec.toNat_and,
      BitVec.toNat_xor, ← wwnot_bv, ← wwsub_bv, bw_toNat hx, bw_toNat hy, h127]
  unfold fromWideWordLe
  simp only []
  rw [e, wle_bv]
  have : (bw x ≤ bw y) ↔ x ≤ y := by
    rw [BitVec.le_def, bw_toNat hx, bw_toNat hy]
  by_cases h : x ≤ y
  · simp only [this.mpr h, h, if_true, decide_true, mask]; decide
  · simp only [mt this.mp h, h, if_false, decide_false, mask]; decide

theorem mask_lt_B (p : Bool) : mask p < B := by cases p <;> decide

theorem selectWideWord_spec {a b : Nat} (p : Bool) (ha : a < B * B) (hb : b < B * B) :
    selectWideWord a b (mask p) = if p then b else a := by
  have hm := mask_lt_B p
  have e : selectWideWord a b (mask p) =
      (bw a ^^^ ((((bv (mask p)).zeroExtend 128 <<< 64) ||| (bv (mask p)).zeroExtend 128) &&& (bw a ^^^ bw b))).toNat := by
    have hz : ((bv (mask p)).zeroExtend 128).toNat = mask p := by
      simp only [BitVec.toNat_setWidth, bv_toNat hm]
      exact Nat.mod_eq_of_lt (Nat.lt_of_lt_of_le hm (by decide))
    have hs : (((bv (mask p)).zeroExtend 128) <<< 64).toNat = mask p * B := by
      simp only [BitVec.toNat_shiftLeft, hz, Nat.shiftLeft_eq]
      have : mask p * 2 ^ 64 < 2 ^ 128 := by
        have : mask p * 2 ^ 64 < B * 2 ^ 64 := Nat.mul_lt_mul_of_pos_right hm (by decide)
        exact Nat.lt_of_lt_of_le this (by decide)
      rw [Nat.mod_eq_of_lt this, B_eq_pow]
    simp only [selectWideWord, BitVec.toNat_xor, BitVec.toNat_and, BitVec.toNat_or, bw_toNat ha, bw_toNat hb, hz, hs]
  cases p
  all_goals rw [e, wselect_bv _ _ _ (by decide)]
  · have : bv (mask false) = 0#64 := by decide
    simp [this, bw_toNat ha]
  · have : bv (mask true) ≠ 0#64 := by decide
    simp [this, bw_toNat hb]

theorem mask_or (p q : Bool) : mask p ||| mask q = mask (p || q) := by
  cases p <;> cases q <;> decide

end CB.Div
