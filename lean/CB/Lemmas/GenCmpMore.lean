/-
  CB.Lemmas.GenCmpMore — the hand-written model of the remaining compare / bit-operation functions (`isOdd`, `ucmp`,
  `ucmpVartime` of CB/Model/Uint.lean; `ubitor` of CB/Model/Shift.lean; `ubitxor`, `unot`, `setBit` of CB/Model/Bits.lean —
  what `uint_cmp_spec`, `uint_is_odd_spec` of CB/Props/C06.lean and `bitor_spec`, `bitxor_spec`, `not_spec`, `set_bit_spec`
  of CB/Props/C05.lean are proved about) IS the translated source (CB/Gen/CmpMore.lean, regenerated from
  src/uint/{cmp,bit_or,bit_xor,bit_not,bits}.rs on every run), for EVERY limb count and every operand.

  Method (see CB/Lemmas/GenChainsSub.lean): one round of each translated loop comes from CB/Lemmas/GenBitsCmpMore.lean (the
  only file that reads the generated text); here the inductions:
    * `Uint::cmp` — over the fuel of the `while i < LIMBS` loop, invariant
        (borrow, diff) = (borrow of the model's `usbb rhs lhs` chain from limb `i` on, diff ||| OR of its result limbs);
    * `Uint::cmp_vartime` — over the COUNTER of the translated `loop` (structural recursion, no fuel), invariant
        translated loop at counter `n` = the model's top-down scan `cmpVartimeRev` of the lowest `n + 1` limbs, reversed;
    * `bitor` / `bitxor` / `not` / `set_bit` — the array-building invariant (first `i` positions written ++ model on the rest).
  No `bv_decide` in this file.
-/
import CB.Lemmas.GenBitsCmpMore
import CB.Lemmas.GenChainsCmp
import CB.Lemmas.GenShiftsLadder
import CB.Lemmas.GenShiftsQuery
import CB.Lemmas.C06Cmp
namespace CB.GenCmpMore
open CB CB.Gen CB.GenBits CB.GenChains CB.Shift CB.Bits

/-! ## `Uint::is_odd` -/

/-- **`Uint::is_odd`** (`self.limbs[0]`: for `LIMBS = 0` the source does not compile; both sides read the default limb 0) -/
theorem isOdd_bridge (a : List (BitVec 64)) :
    isOdd (nats a) = (CmpMore.Uint.is_odd a.length a).toNat := by
  rw [is_odd_eq, isOdd, ← fromWordLsb_bridge, BitVec.toNat_and]
  cases a with
  | nil => rfl
  | cons x xs => rfl

/-! ## `Uint::cmp` -/

theorem cmp_loop_bridge (L : Nat) (a b : List (BitVec 64)) (ha : a.length = L) (hb : b.length = L) :
    ∀ (n i : Nat) (bw d : BitVec 64), i + n = L →
      (CmpMore.Uint.cmp_loop1 L a b n i bw d).1.toNat = (usbb (nats (b.drop i)) (nats (a.drop i)) bw.toNat).2 ∧
      (CmpMore.Uint.cmp_loop1 L a b n i bw d).2.toNat =
        d.toNat ||| orAll (usbb (nats (b.drop i)) (nats (a.drop i)) bw.toNat).1 := by
  intro n
  induction n with
  | zero =>
    intro i bw d hi
    rw [cmp_loop_zero, List.drop_of_length_le (by omega), List.drop_of_length_le (by omega)]
    simp [nats, usbb, orAll]
  | succ n ih =>
    intro i bw d hi
    have hi' : i < L := by omega
    obtain ⟨ih1, ih2⟩ := ih (i + 1) (Prim.sbb (b.getD i 0#64) (a.getD i 0#64) bw).2
      (d ||| (Prim.sbb (b.getD i 0#64) (a.getD i 0#64) bw).1) (by omega)
    rw [cmp_loop_succ L a b n i bw d hi', drop_eq_getD_cons a i (by omega), drop_eq_getD_cons b i (by omega)]
    simp only [nats, List.map_cons] at ih1 ih2 ⊢
    rw [usbb_cons, sbb_bridge]
    refine ⟨ih1, ?_⟩
    rw [ih2]
    simp only [orAll, BitVec.toNat_or, Nat.or_assoc]

theorem mask_cases (p : Bool) : ofBool p = 0#64 ∨ ofBool p = ~~~0#64 := by
  cases p <;> simp [ofBool]

/-- **`Uint::cmp`**: the `i8` the source returns, read as an integer, is the model's `ucmp` -/
theorem ucmp_bridge (a b : List (BitVec 64)) (h : a.length = b.length) :
    ucmp (nats a) (nats b) = (CmpMore.Uint.cmp a.length a b).toInt := by
  obtain ⟨h1, h2⟩ := cmp_loop_bridge a.length a b rfl h.symm a.length 0 0#64 0#64 (by omega)
  simp only [List.drop_zero, BitVec.toNat_ofNat, Nat.zero_mod, Nat.zero_or] at h1 h2
  have hl : (nats b).length = (nats a).length := by rw [nats_length, nats_length, h]
  -- the borrow of a full chain is a mask
  have hbw := (sub_value_borrow (nats_WF b) (nats_WF a) hl).1
  rw [← h1] at hbw
  rw [cmp_eq_loop, from_word_nonzero_meaning]
  have hb2 : (CmpMore.Uint.cmp_loop1 a.length a b a.length 0 0#64 0#64).1 = 0#64 ∨
      (CmpMore.Uint.cmp_loop1 a.length a b a.length 0 0#64 0#64).1 = ~~~0#64 := by
    cases hdec : decide (val (nats b) < val (nats a)) <;> rw [hdec] at hbw
    · exact Or.inl (BitVec.eq_of_toNat_eq (by rw [hbw]; rfl))
    · exact Or.inr (BitVec.eq_of_toNat_eq (by rw [hbw]; rfl))
  rw [cmp_final_bv _ _ (mask_cases _) hb2]
  simp only [ucmp]
  rw [← h1, ← h2]
  generalize (CmpMore.Uint.cmp_loop1 a.length a b a.length 0 0#64 0#64).1 = bw at hb2 ⊢
  generalize (CmpMore.Uint.cmp_loop1 a.length a b a.length 0 0#64 0#64).2 = d
  rw [fromWordNonzero_spec (toNat_lt_B d)]
  by_cases hd : d = 0#64
  · subst hd; simp [ofBool, mask, choiceBit]
  · have hd' : d.toNat ≠ 0 := fun e => hd (BitVec.eq_of_toNat_eq (by simpa using e))
    have hne : (d != 0#64) = true := by simpa using hd
    have hof : ofBool (d != 0#64) ≠ 0#64 := by rw [hne]; decide
    rcases hb2 with rfl | rfl <;> simp [hd', hof, mask, choiceBit, WMAX_def]

/-! ## `Uint::cmp_vartime` (top-down scan; the translated `loop` recurses on its counter) -/

theorem nats_take_succ_reverse (a : List (BitVec 64)) (n : Nat) (h : n < a.length) :
    (nats (a.take (n + 1))).reverse = (a.getD n 0#64).toNat :: (nats (a.take n)).reverse := by
  have e : a.getD n 0#64 = a[n] := by simp [List.getD, h]
  rw [e, List.take_add_one, List.getElem?_eq_getElem h]
  show ((a.take n ++ [a[n]]).map BitVec.toNat).reverse = _
  rw [List.map_append, List.reverse_append]
  rfl

theorem cmpVartimeRev_cons (x y : Nat) (xs ys : List Nat) :
    cmpVartimeRev (x :: xs) (y :: ys) =
      if (sbb x y 0).1 ≠ 0 then (if (sbb x y 0).2 ≠ 0 then -1 else 1) else cmpVartimeRev xs ys := by
  rw [cmpVartimeRev]

/-- one limb of the scan: the source's test `val.0 != 0` / `borrow.0 != 0` on words is the model's on `Nat`s -/
theorem cmpv_step (x y : BitVec 64) (r : BitVec 8) (R : Int) (hr : r.toInt = R) :
    (if (Prim.sbb x y 0#64).1 != 0#64 then (if (Prim.sbb x y 0#64).2 != 0#64 then -1#8 else 1#8) else r).toInt =
      if (sbb x.toNat y.toNat 0).1 ≠ 0 then (if (sbb x.toNat y.toNat 0).2 ≠ 0 then -1 else 1) else R := by
  have e := sbb_bridge x y 0#64
  rw [show (0#64).toNat = 0 from rfl] at e
  rw [e]
  simp only []
  generalize (Prim.sbb x y 0#64).1 = v
  generalize (Prim.sbb x y 0#64).2 = w
  have nz : ∀ u : BitVec 64, u ≠ 0#64 → u.toNat ≠ 0 := fun u hu e => hu (BitVec.eq_of_toNat_eq (by simpa using e))
  by_cases hv : v = 0#64
  · subst hv; simpa using hr
  · by_cases hw : w = 0#64
    · subst hw; simp [hv, nz v hv]
    · simp [hv, hw, nz v hv, nz w hw]

theorem cmpv_loop_bridge (L : Nat) (a b : List (BitVec 64)) (ha : a.length = L) (hb : b.length = L) :
    ∀ n, n < L → (CmpMore.Uint.cmp_vartime_loop1 L a b n).toInt =
      cmpVartimeRev (nats (a.take (n + 1))).reverse (nats (b.take (n + 1))).reverse := by
  intro n
  induction n with
  | zero =>
    intro h
    rw [cmpv_loop_zero, nats_take_succ_reverse a 0 (by omega), nats_take_succ_reverse b 0 (by omega), cmpVartimeRev_cons]
    exact cmpv_step _ _ _ _ (by simp [nats, cmpVartimeRev])
  | succ n ih =>
    intro h
    rw [cmpv_loop_succ, nats_take_succ_reverse a (n + 1) (by omega), nats_take_succ_reverse b (n + 1) (by omega),
      cmpVartimeRev_cons]
    exact cmpv_step _ _ _ _ (ih (by omega))

/-- **`Uint::cmp_vartime`**: the `Ordering` the source returns (its discriminant, an `i8`) is the model's `ucmpVartime`,
    for every limb count -/
theorem ucmpVartime_bridge (a b : List (BitVec 64)) (h : a.length = b.length) :
    ucmpVartime (nats a) (nats b) = (CmpMore.Uint.cmp_vartime a.length a b).toInt := by
  rw [cmpv_eq, ucmpVartime]
  cases hl : a.length with
  | zero =>
    have ea : a = [] := List.length_eq_zero_iff.mp hl
    have eb : b = [] := List.length_eq_zero_iff.mp (by omega)
    subst ea; subst eb
    rw [cmpv_loop_zero]
    decide
  | succ m =>
    have hm := cmpv_loop_bridge (m + 1) a b hl (by omega) m (by omega)
    rw [Nat.add_sub_cancel, hm, List.take_of_length_le (by omega), List.take_of_length_le (by omega)]

/-! ## `Uint::bitor`, `Uint::bitxor`, `Uint::not` -/

theorem ubitor_cons (x y : Nat) (xs ys : List Nat) : ubitor (x :: xs) (y :: ys) = (x ||| y) :: ubitor xs ys := by
  rw [ubitor]
theorem ubitxor_cons (x y : Nat) (xs ys : List Nat) : ubitxor (x :: xs) (y :: ys) = (x ^^^ y) :: ubitxor xs ys := by
  rw [ubitxor]

theorem bitor_loop_bridge (L : Nat) (a b : List (BitVec 64)) (ha : a.length = L) (hb : b.length = L) :
    ∀ (n i : Nat) (limbs : List (BitVec 64)), i + n = L → limbs.length = L →
      nats (CmpMore.Uint.bitor_loop1 L a b n i limbs) =
        nats (limbs.take i) ++ ubitor (nats (a.drop i)) (nats (b.drop i)) := by
  intro n
  induction n with
  | zero =>
    intro i limbs hi hl
    rw [bitor_loop_zero, List.drop_of_length_le (by omega), List.drop_of_length_le (by omega),
      List.take_of_length_le (by omega)]
    simp [nats, ubitor]
  | succ n ih =>
    intro i limbs hi hl
    have hi' : i < L := by omega
    rw [bitor_loop_succ L a b n i limbs hi', ih (i + 1) _ (by omega) (by simpa using hl),
      drop_eq_getD_cons a i (by omega), drop_eq_getD_cons b i (by omega), take_set_succ limbs i _ (by omega)]
    simp only [nats, List.map_cons, ubitor_cons, List.map_append, List.map_nil, List.append_assoc,
      List.cons_append, List.nil_append, BitVec.toNat_or]

/-- **`Uint::bitor`**: the model's limb-wise `|`, for every limb count -/
theorem ubitor_bridge (a b : List (BitVec 64)) (h : a.length = b.length) :
    ubitor (nats a) (nats b) = nats (CmpMore.Uint.bitor a.length a b) := by
  have e := bitor_loop_bridge a.length a b rfl h.symm a.length 0 (List.replicate a.length 0#64) (by omega) (by simp)
  rw [bitor_eq_loop, e]
  simp

theorem bitxor_loop_bridge (L : Nat) (a b : List (BitVec 64)) (ha : a.length = L) (hb : b.length = L) :
    ∀ (n i : Nat) (limbs : List (BitVec 64)), i + n = L → limbs.length = L →
      nats (CmpMore.Uint.bitxor_loop1 L a b n i limbs) =
        nats (limbs.take i) ++ ubitxor (nats (a.drop i)) (nats (b.drop i)) := by
  intro n
  induction n with
  | zero =>
    intro i limbs hi hl
    rw [bitxor_loop_zero, List.drop_of_length_le (by omega), List.drop_of_length_le (by omega),
      List.take_of_length_le (by omega)]
    simp [nats, ubitxor]
  | succ n ih =>
    intro i limbs hi hl
    have hi' : i < L := by omega
    rw [bitxor_loop_succ L a b n i limbs hi', ih (i + 1) _ (by omega) (by simpa using hl),
      drop_eq_getD_cons a i (by omega), drop_eq_getD_cons b i (by omega), take_set_succ limbs i _ (by omega)]
    simp only [nats, List.map_cons, ubitxor_cons, List.map_append, List.map_nil, List.append_assoc,
      List.cons_append, List.nil_append, BitVec.toNat_xor]

/-- **`Uint::bitxor`** -/
theorem ubitxor_bridge (a b : List (BitVec 64)) (h : a.length = b.length) :
    ubitxor (nats a) (nats b) = nats (CmpMore.Uint.bitxor a.length a b) := by
  have e := bitxor_loop_bridge a.length a b rfl h.symm a.length 0 (List.replicate a.length 0#64) (by omega) (by simp)
  rw [bitxor_eq_loop, e]
  simp

theorem not_loop_bridge (L : Nat) (a : List (BitVec 64)) (ha : a.length = L) :
    ∀ (n i : Nat) (limbs : List (BitVec 64)), i + n = L → limbs.length = L →
      nats (CmpMore.Uint.not_loop1 L a n i limbs) = nats (limbs.take i) ++ unot (nats (a.drop i)) := by
  intro n
  induction n with
  | zero =>
    intro i limbs hi hl
    rw [not_loop_zero, List.drop_of_length_le (by omega), List.take_of_length_le (by omega)]
    simp [nats, unot]
  | succ n ih =>
    intro i limbs hi hl
    have hi' : i < L := by omega
    rw [not_loop_succ L a n i limbs hi', ih (i + 1) _ (by omega) (by simpa using hl),
      drop_eq_getD_cons a i (by omega), take_set_succ limbs i _ (by omega)]
    simp only [nats, unot, List.map_cons, List.map_append, List.map_nil, List.append_assoc,
      List.cons_append, List.nil_append, wnot_bv]

/-- **`Uint::not`** -/
theorem unot_bridge (a : List (BitVec 64)) : unot (nats a) = nats (CmpMore.Uint.not a.length a) := by
  have e := not_loop_bridge a.length a rfl a.length 0 (List.replicate a.length 0#64) (by omega) (by simp)
  rw [not_eq_loop, e]
  simp

/-! ## `Uint::set_bit` -/

theorem setBitLoop_cons (lm im bv l : Nat) (ls : List Nat) (i : Nat) :
    setBitLoop lm im bv (l :: ls) i =
      selectWord l (selectWord (l &&& wnot im) (l ||| im) bv) (fromU32Eq i lm) :: setBitLoop lm im bv ls (i + 1) := by
  rw [setBitLoop]

theorem drop_set_succ (l : List (BitVec 64)) (i : Nat) (w : BitVec 64) : (l.set i w).drop (i + 1) = l.drop (i + 1) := by
  induction l generalizing i with
  | nil => simp
  | cons x xs ih =>
    cases i with
    | zero => simp
    | succ j => simp only [List.set_cons_succ, List.drop_succ_cons, ih j]

theorem set_bit_loop_bridge (L : Nat) (hL : L ≤ 2 ^ 32) (bv : BitVec 64) (lm : BitVec 32) (im : BitVec 64) :
    ∀ (n i : Nat) (r : List (BitVec 64)), i + n = L → r.length = L →
      nats (CmpMore.Uint.set_bit_loop1 L bv lm im n i r) =
        nats (r.take i) ++ setBitLoop lm.toNat im.toNat bv.toNat (nats (r.drop i)) i := by
  intro n
  induction n with
  | zero =>
    intro i r hi hl
    rw [set_bit_loop_zero, List.drop_of_length_le (by omega), List.take_of_length_le (by omega)]
    simp [nats, setBitLoop]
  | succ n ih =>
    intro i r hi hl
    have hi' : i < L := by omega
    have ei : (BitVec.ofNat 32 i).toNat = i := by rw [BitVec.toNat_ofNat, Nat.mod_eq_of_lt (by omega)]
    have ef : fromU32Eq i lm.toNat = (Choice.from_u32_eq (BitVec.ofNat 32 i) lm).toNat := by
      rw [← fromU32Eq_bridge, ei]
    rw [set_bit_loop_succ L bv lm im n i r hi', ih (i + 1) _ (by omega) (by simpa using hl),
      drop_eq_getD_cons r i (by omega), take_set_succ r i _ (by omega), drop_set_succ]
    simp only [nats, List.map_cons, setBitLoop_cons, List.map_append, List.map_nil, List.append_assoc,
      List.cons_append, List.nil_append, selectWord, BitVec.toNat_xor, BitVec.toNat_and, BitVec.toNat_or, wnot_bv,
      ef]

/-- **`Uint::set_bit`**: the model's constant-time `setBit`, for every limb count `≤ 2^32`, every index and choice word -/
theorem setBit_bridge (a : List (BitVec 64)) (hL : a.length ≤ 2 ^ 32) (idx : BitVec 32) (bv : BitVec 64) :
    setBit (nats a) idx.toNat bv.toNat = nats (CmpMore.Uint.set_bit a.length a idx bv) := by
  have e1 : (1#64 <<< (idx % 64#32) : BitVec 64).toNat = wshl 1 (idx.toNat % 64) := by
    rw [BitVec.shiftLeft_eq', mod64_toNat, ← wshl_bv]; rfl
  have e2 : (idx / 64#32).toNat = idx.toNat / 64 := by rw [BitVec.toNat_udiv]; rfl
  rw [set_bit_eq_loop, set_bit_loop_bridge a.length hL bv _ _ a.length 0 a (by omega) rfl, setBit, e1, e2]
  simp

end CB.GenCmpMore
